"""Model correspondence for the literal hand models of C07 and C08.

C07 — `Model/EdgeInfo.lean` (ops `model.edge_info`, `model.mesh_edge_info`) vs the edge
incidence loop of `Polyface3D.__init__` and `MeshBase._compute_edge_info`:
  * group `polyface_init`: random face-index structures (holes, repeated indices, degenerate
    sides, naked / non-manifold configurations, reversed duplicates) -> `Polyface3D(verts,
    faces)`: `edge_indices`, `edge_types`, `is_solid` must be IDENTICAL (order, orientation);
    the `naked_edges / internal_edges / non_manifold_edges` selections must be the edges of
    type 0 / 1 / >= 2 of the model's lists;
  * group `polyface_factories`: `from_box`, `from_offset_face` (with holes, both orientations,
    negative offsets) carry PRE-SEEDED tables: the model's computed edge info of their
    `face_indices` must equal them as undirected multisets of (edge, type), same `is_solid`;
    `from_faces` (closed / open / non-manifold shells) goes through `__init__` again: identical;
  * group `mesh_edge_info`: `Mesh2D` / `Mesh3D` (`from_grid`, `Face3D.mesh_grid`, random
    triangle / quad lists with repeated indices) `.edges` -> `_edge_indices`, `_edge_types`
    identical; the three selections as above.
C08 — `Model/PointInside.lean` (ops `model.point_inside`, `model.point_inside_bound_rect`,
`model.point_on_edge`, `model.point_relationship`) vs `Polygon2D.is_point_inside`,
`is_point_inside_bound_rect`, `is_point_on_edge`, `point_relationship` on random loops (simple
and self-intersecting, both orientations), points incl. vertices / edge points / points level
with a vertex, several test vectors.  Results are booleans / -1,0,1: compared exactly; a case
whose exact test values come within 1e-9 of a threshold of the code (ray parameters 0 / 1,
parallel test, distance == tolerance) is a float tie and is not compared — except on the
lattice stream with an integer test vector, where the double arithmetic is exact and exact
threshold hits ARE compared.
"""
import math
import os
import random
import sys
import time
from fractions import Fraction

if __name__ == '__main__':
    sys.path.insert(0, os.path.dirname(os.path.dirname(os.path.abspath(__file__))))
import lbg  # noqa: E402

from ladybug_geometry.geometry2d.pointvector import Point2D, Vector2D  # noqa: E402
from ladybug_geometry.geometry2d.polygon import Polygon2D  # noqa: E402
from ladybug_geometry.geometry2d.mesh import Mesh2D  # noqa: E402
from ladybug_geometry.geometry3d.pointvector import Point3D, Vector3D  # noqa: E402
from ladybug_geometry.geometry3d.plane import Plane  # noqa: E402
from ladybug_geometry.geometry3d.face import Face3D  # noqa: E402
from ladybug_geometry.geometry3d.mesh import Mesh3D  # noqa: E402
from ladybug_geometry.geometry3d.polyface import Polyface3D  # noqa: E402

PROPS = ['C07', 'C08']
MODELS = ['LbgVerif/Model/EdgeInfo.lean', 'LbgVerif/Model/PointInside.lean',
          'LbgVerif/Model/Dispatch_EdgeInfo.lean']
REAL = ['ladybug_geometry/geometry3d/polyface.py:Polyface3D.__init__ (edge loop, is_solid), '
        'from_box, from_offset_face, from_faces, naked_edges, internal_edges, '
        'non_manifold_edges',
        'ladybug_geometry/_mesh.py:MeshBase._compute_edge_info (through Mesh2D / Mesh3D .edges, '
        '.naked_edges, .internal_edges, .non_manifold_edges)',
        'ladybug_geometry/geometry2d/polygon.py:Polygon2D.is_point_inside, '
        'is_point_inside_bound_rect, is_point_on_edge, point_relationship']
TRUSTED = [
    'edgeinfo (C07): the selection "edges of type 0 / 1 / >= 2" is applied in Python to the '
    "model's (edge_indices, edge_types) lists (the driver does not expose nakedEdges / "
    'internalEdges / nonManifoldEdges); pre-seeded factory tables are compared as undirected '
    'multisets only (their order / orientation is the factory\'s, not the loop\'s)',
    'edgeinfo (C08): the model decides in exact rationals (distance: IEEE sqrt of the exact '
    'argument); cases within 1e-9 of a decision threshold, or with a ray nearly parallel to an '
    'edge it hits (conditioning > 2e5), are counted as float ties and not compared',
]

W = lbg.wnum
REL = Fraction(1, 10 ** 9)
GROUPS = {'C07': ['polyface_init', 'polyface_factories', 'mesh_edge_info'],
          'C08': ['point_inside', 'point_inside_bound_rect', 'point_on_edge',
                  'point_relationship']}
STD_TV = (1.0, 0.00001)


def bump(h, k, n=1):
    h[k] = h.get(k, 0) + n


# =================================================================== C07
def verts3(n):
    """n distinct lattice points in general position (coordinates identify the index)."""
    return [Point3D(i, i * i, i % 3) for i in range(n)]


def as_lists(faces):
    return [[list(lp) for lp in face] for face in faces]


def undirected(ei, et):
    return sorted((min(a, b), max(a, b), t) for (a, b), t in zip(ei, et))


def seg_key(seg):
    p, q = seg.p, seg.p2
    return (tuple(float(c) for c in p.to_array()), tuple(float(c) for c in q.to_array()))


def select(ei, et, verts, pred):
    """Edges of the model's lists whose type satisfies pred, as end-point coordinates."""
    out = []
    for (a, b), t in zip(ei, et):
        if pred(t):
            pa, pb = verts[a].to_array(), verts[b].to_array()
            # LineSegment.from_end_points(pa, pb).p2 is pa + (pb - pa) in doubles
            out.append((tuple(float(c) for c in pa),
                        tuple(float(x + (y - x)) for x, y in zip(pa, pb))))
    return out


SELECTIONS = (('naked_edges', lambda t: t == 0), ('internal_edges', lambda t: t == 1),
              ('non_manifold_edges', lambda t: t >= 2))


def real_edge_case(case):
    """Run the real side of a C07 case -> dict (exact tables, selections) or {'raise': ..}."""
    try:
        kind = case['kind']
        if 'factory' in case:
            obj = build_factory(case['factory'])
            verts = list(obj.vertices)
            res = {'edge_indices': [list(e) for e in obj.edge_indices],
                   'edge_types': list(obj.edge_types), 'is_solid': obj.is_solid,
                   'face_indices': as_lists(obj.face_indices)}
        elif kind == 'polyface':
            verts = verts3(case['nv'])
            obj = Polyface3D(verts, [tuple(tuple(lp) for lp in f) for f in case['faces']])
            ei, et = obj.edge_indices, obj.edge_types
            res = {'edge_indices': [list(e) for e in ei], 'edge_types': list(et),
                   'is_solid': obj.is_solid}
        else:       # mesh2d / mesh3d with explicit faces
            if 'vertices' in case:
                vv = case['vertices']
                verts = [Point2D(*v) if len(v) == 2 else Point3D(*v) for v in vv]
                cls = Mesh2D if len(vv[0]) == 2 else Mesh3D
                obj = cls(verts, [tuple(f) for f in case['faces']])
            elif kind == 'mesh2d':
                verts = [Point2D(i, i * i) for i in range(case['nv'])]
                obj = Mesh2D(verts, [tuple(f) for f in case['faces']])
            else:
                verts = verts3(case['nv'])
                obj = Mesh3D(verts, [tuple(f) for f in case['faces']])
            obj.edges
            res = {'edge_indices': [list(e) for e in obj._edge_indices],
                   'edge_types': list(obj._edge_types)}
        for name, _ in SELECTIONS:
            res[name] = [seg_key(s) for s in getattr(obj, name)]
        res['verts'] = verts
        return res
    except Exception as e:      # noqa: BLE001
        return {'raise': type(e).__name__}


def edge_request(case):
    if case['kind'] == 'polyface':
        return ('model.edge_info', [as_lists(case['faces'])])
    return ('model.mesh_edge_info', [[list(f) for f in case['faces']]])


def compare_edge_case(case, val, real):
    """-> None | (what-key, model, real)."""
    if 'raise' in real:
        return 'raises %s' % real['raise'], val, real['raise']
    ei = [list(e) for e in val[0]]
    et = list(val[1])
    if case.get('seeded'):      # factory with pre-seeded tables: undirected multisets
        if undirected(ei, et) != undirected(real['edge_indices'], real['edge_types']):
            return 'edge multiset differs from the pre-seeded table', \
                undirected(ei, et), undirected(real['edge_indices'], real['edge_types'])
    else:
        if ei != real['edge_indices']:
            return 'edge_indices differ', ei, real['edge_indices']
        if et != real['edge_types']:
            return 'edge_types differ', et, real['edge_types']
    if case['kind'] == 'polyface' and bool(val[2]) != real['is_solid']:
        return 'is_solid differs', val[2], real['is_solid']
    if 'verts' in real and not case.get('seeded'):
        for name, pred in SELECTIONS:
            mine = select(ei, et, real['verts'], pred)
            if mine != real[name]:
                return '%s is not the selection of that type' % name, mine, real[name]
    return None


def edge_nontrivial(case, val):
    """The loop takes a branch other than 'append': an edge is found again or a degenerate
    side is skipped."""
    if any(t >= 1 for t in val[1]):
        return True
    loops = [lp for f in case['faces'] for lp in f] if case['kind'] == 'polyface' \
        else case['faces']
    return any(lp[i - 1] == lp[i] for lp in loops for i in range(len(lp)))


# ---- generators
def gen_polyface(r):
    nv = r.randint(3, 10)
    style = r.random()
    faces = []
    if style < 0.45:            # anything goes: repeated indices, degenerate sides
        for _ in range(r.randint(1, 7)):
            loops = []
            for _ in range(r.choice([1, 1, 1, 2, 3])):
                loops.append([r.randrange(nv) for _ in range(r.randint(3, 5))])
            faces.append(loops)
    else:                       # loops of distinct vertices, edges re-used on purpose
        pool = []
        for _ in range(r.randint(2, 8)):
            k = r.randint(3, min(5, nv))
            if pool and r.random() < 0.6:
                a, b = r.choice(pool)
                if r.random() < 0.6:
                    a, b = b, a             # consistent orientation: walk it backwards
                rest = [v for v in range(nv) if v not in (a, b)]
                r.shuffle(rest)
                lp = [a, b] + rest[:k - 2]
            else:
                lp = r.sample(range(nv), k)
            s = r.randrange(len(lp))
            lp = lp[s:] + lp[:s]
            for i in range(len(lp)):
                pool.append((lp[i - 1], lp[i]))
            loops = [lp]
            if r.random() < 0.25 and nv >= 6:
                loops.append(r.sample(range(nv), 3))       # a hole loop
            faces.append(loops)
        if r.random() < 0.15:
            faces.append([list(reversed(faces[0][0]))])     # the same face, flipped
        if r.random() < 0.1:
            faces.append([list(faces[0][0])])               # the same face, again
    return {'group': 'polyface_init', 'kind': 'polyface', 'nv': nv, 'faces': faces,
            'style': 'arbitrary' if style < 0.45 else 'shared-edges'}


def closed_shell(r):
    """Index structure of a closed prism / pyramid / tetrahedron, optionally damaged."""
    k = r.randint(3, 6)
    if r.random() < 0.5:        # prism over a k-gon: vertices 0..k-1 bottom, k..2k-1 top
        faces = [[list(reversed(range(k)))], [list(range(k, 2 * k))]]
        for i in range(k):
            j = (i + 1) % k
            faces.append([[i, j, j + k, i + k]])
        nv = 2 * k
    else:                       # pyramid
        faces = [[list(reversed(range(k)))]]
        for i in range(k):
            faces.append([[i, (i + 1) % k, k]])
        nv = k + 1
    damage = r.random()
    what = 'closed'
    if damage < 0.3:
        faces.pop(r.randrange(len(faces)))
        what = 'open (face removed)'
    elif damage < 0.45:
        f = r.choice(faces)
        faces.append([[f[0][0], f[0][1], nv]])
        nv += 1
        what = 'non-manifold (fin)'
    elif damage < 0.55:
        i = r.randrange(len(faces))
        faces[i] = [list(reversed(faces[i][0]))]
        what = 'one face flipped'
    r.shuffle(faces)
    return {'group': 'polyface_init', 'kind': 'polyface', 'nv': nv, 'faces': faces,
            'style': 'shell: ' + what}


def gen_mesh_faces(r):
    nv = r.randint(3, 10)
    faces = []
    style = r.random()
    for _ in range(r.randint(1, 8)):
        k = r.choice([3, 3, 4]) if nv >= 4 else 3
        if style < 0.4:
            faces.append([r.randrange(nv) for _ in range(k)])
        else:
            faces.append(r.sample(range(nv), k))
    if r.random() < 0.2:
        faces.append(list(reversed(faces[0])))
    return {'group': 'mesh_edge_info', 'kind': r.choice(['mesh2d', 'mesh3d']), 'nv': nv,
            'faces': faces, 'style': 'arbitrary' if style < 0.4 else 'distinct'}


def lat(r, lo=-6, hi=6, den=2):
    return r.randint(lo * den, hi * den) / float(den)


def random_plane(r):
    if r.random() < 0.5:
        n = r.choice([Vector3D(0, 0, 1), Vector3D(0, 0, -1), Vector3D(1, 0, 0),
                      Vector3D(0, 1, 0)])
    else:
        while True:
            n = Vector3D(r.gauss(0, 1), r.gauss(0, 1), r.gauss(0, 1))
            if n.magnitude > 0.2:
                break
        n = n.normalize()
    return Plane(n, Point3D(lat(r), lat(r), lat(r)))


OUTLINES = [
    [(0, 0), (6, 0), (6, 6), (0, 6)],
    [(0, 0), (8, 0), (8, 4), (4, 4), (4, 8), (0, 8)],
    [(0, 0), (8, 0), (4, 7)],
    [(0, 0), (4, -1), (8, 2), (7, 7), (2, 8), (-1, 4)],
]
HOLES = {0: [[(1, 1), (2, 1), (2, 2), (1, 2)], [(3, 3), (3, 5), (5, 5)]],
         1: [[(1, 1), (3, 1), (3, 3), (1, 3)], [(1, 5), (3, 5), (2, 7)]],
         3: [[(2, 2), (4, 2), (4, 4)], [(5, 4), (6, 4), (6, 6), (5, 6)]]}


def arr3(p):
    return [float(c) for c in p.to_array()]


def plane_desc(pl):
    return None if pl is None else [arr3(pl.n), arr3(pl.o), arr3(pl.x)]


def plane_of(d):
    return None if d is None else Plane(Vector3D(*d[0]), Point3D(*d[1]), Vector3D(*d[2]))


def face_desc(f):
    return {'b': [arr3(p) for p in f.boundary],
            'h': None if not f.has_holes else [[arr3(p) for p in h] for h in f.holes],
            'plane': plane_desc(f.plane)}


def face_of(d):
    return Face3D([Point3D(*p) for p in d['b']], plane_of(d['plane']),
                  holes=None if d['h'] is None else [[Point3D(*p) for p in h] for h in d['h']])


def build_factory(desc):
    """Factory description (JSON-able) -> real Polyface3D."""
    if desc['f'] == 'from_box':
        return Polyface3D.from_box(desc['w'], desc['d'], desc['h'], plane_of(desc['plane']))
    if desc['f'] == 'from_offset_face':
        return Polyface3D.from_offset_face(face_of(desc['face']), desc['offset'])
    if desc['f'] == 'from_faces':
        return Polyface3D.from_faces([face_of(f) for f in desc['faces']], desc['tol'])
    raise ValueError(desc['f'])


def real_factory_cases(r, n):
    """Real factory objects -> cases (the model request is their face_indices)."""
    out = []
    for _ in range(n):
        x = r.random()
        if x < 0.25:
            pl = random_plane(r) if r.random() < 0.7 else None
            desc = {'f': 'from_box', 'w': r.choice([1, 2.5, 4]), 'd': r.choice([1, 3.0]),
                    'h': r.choice([0.5, 2, 3.0]), 'plane': plane_desc(pl)}
            src, seeded = 'from_box', True
        elif x < 0.7:
            pl = random_plane(r)
            i = r.randrange(len(OUTLINES))
            k = r.choice([1.0, 0.5, 2.0])
            b = OUTLINES[i]
            holes = None
            if i in HOLES and r.random() < 0.6:
                hs = r.sample(HOLES[i], r.randint(1, len(HOLES[i])))
                hs = [list(reversed(h)) if r.random() < 0.5 else h for h in hs]
                holes = [[arr3(pl.xy_to_xyz(Point2D(x_ * k, y_ * k))) for x_, y_ in h]
                         for h in hs]
            if r.random() < 0.4:
                b = list(reversed(b))
            desc = {'f': 'from_offset_face', 'offset': r.choice([1.0, 2.5, -1.5, 0.25]),
                    'face': {'b': [arr3(pl.xy_to_xyz(Point2D(x_ * k, y_ * k))) for x_, y_ in b],
                             'h': holes, 'plane': plane_desc(pl)}}
            src = 'from_offset_face' + ('+holes' if holes else '')
            seeded = True
        else:
            pl = random_plane(r)
            w, dep = r.choice([1, 2]), r.choice([1, 3])
            try:
                base = Polyface3D.from_box(w, dep, 2, pl)
                fs = list(base.faces)
                y = r.random()
                src = 'from_faces closed box'
                if y < 0.35:
                    fs.pop(r.randrange(len(fs)))
                    src = 'from_faces open box'
                elif y < 0.65:      # a second box on the far side of one face: shared face twice
                    pl2 = Plane(pl.n, pl.o + pl.x * w, pl.x)
                    other = Polyface3D.from_box(1, r.choice([dep, dep, 1]), 2, pl2)
                    fs = fs + list(other.faces)
                    src = 'from_faces two boxes side by side'
                r.shuffle(fs)
                desc = {'f': 'from_faces', 'tol': 0.01, 'faces': [face_desc(f) for f in fs]}
            except Exception as e:      # noqa: BLE001
                out.append({'group': 'polyface_factories', 'kind': 'polyface',
                            'style': 'from_faces', 'faces': [], 'seeded': False,
                            'real': {'raise': type(e).__name__}})
                continue
            seeded = False
        case = {'group': 'polyface_factories', 'kind': 'polyface', 'style': src,
                'seeded': seeded, 'factory': desc}
        real = real_edge_case(case)
        case['real'] = real
        case['faces'] = real.get('face_indices', [])
        out.append(case)
    return out


def real_mesh_cases(r, n):
    out = []
    for _ in range(n):
        x = r.random()
        try:
            if x < 0.5:
                m = Mesh2D.from_grid(Point2D(lat(r), lat(r)), r.randint(1, 4), r.randint(1, 3),
                                     1.0, 0.5)
                src = 'Mesh2D.from_grid'
                if r.random() < 0.5:
                    p = [r.random() < 0.7 for _ in m.faces]
                    if any(p):
                        m = m.remove_faces_only(p) if r.random() < 0.5 else m.remove_faces(p)[0]
                        src += ' - faces'
                if r.random() < 0.3:
                    m = m.triangulated()
                    src += ' triangulated'
            else:
                pl = random_plane(r)
                b = r.choice(OUTLINES)
                face = Face3D([pl.xy_to_xyz(Point2D(x_, y_)) for x_, y_ in b], pl)
                m = face.mesh_grid(r.choice([1.0, 2.0, 1.5]), flip=r.random() < 0.3)
                src = 'Face3D.mesh_grid'
            m.edges
            real = {'edge_indices': [list(e) for e in m._edge_indices],
                    'edge_types': list(m._edge_types), 'verts': list(m.vertices)}
            for name, _ in SELECTIONS:
                real[name] = [seg_key(s) for s in getattr(m, name)]
        except AssertionError:
            continue
        except Exception as e:      # noqa: BLE001
            real = {'raise': type(e).__name__}
            out.append({'group': 'mesh_edge_info', 'kind': 'mesh', 'style': 'factory',
                        'faces': [], 'real': real})
            continue
        out.append({'group': 'mesh_edge_info', 'kind': 'mesh', 'style': src,
                    'faces': [list(f) for f in m.faces], 'real': real,
                    'vertices': [[float(c) for c in v.to_array()] for v in m.vertices]})
    return out


FIXED_C07 = [
    {'kind': 'polyface', 'nv': 3, 'faces': [[[0, 1, 2]]]},                          # all naked
    {'kind': 'polyface', 'nv': 3, 'faces': [[[0, 1, 2]], [[2, 1, 0]]]},             # closed pair
    {'kind': 'polyface', 'nv': 3, 'faces': [[[0, 1, 2]], [[0, 1, 2]]]},             # same way twice
    {'kind': 'polyface', 'nv': 4, 'faces': [[[0, 1, 2]], [[1, 0, 3]], [[0, 1, 3]]]},  # type 2
    {'kind': 'polyface', 'nv': 3, 'faces': [[[0, 0, 1]], [[1, 1, 1]]]},             # degenerate sides
    {'kind': 'polyface', 'nv': 7, 'faces': [[[0, 1, 2, 3], [4, 5, 6]], [[6, 5, 4]]]},  # hole loop
    {'kind': 'polyface', 'nv': 4,
     'faces': [[[0, 2, 1]], [[0, 1, 3]], [[1, 2, 3]], [[2, 0, 3]]]},                # tetrahedron
    {'kind': 'polyface', 'nv': 4, 'faces': [[[0, 1]], [[1, 0]], [[2]], [[]]]},      # 2-, 1-, 0-loops
    {'kind': 'mesh2d', 'nv': 4, 'faces': [[0, 1, 2], [2, 1, 3]]},
    {'kind': 'mesh3d', 'nv': 4, 'faces': [[0, 1, 2], [0, 1, 2], [2, 1, 0]]},
    {'kind': 'mesh2d', 'nv': 4, 'faces': [[0, 0, 1, 1], [1, 2, 3, 0]]},
    {'kind': 'mesh3d', 'nv': 5, 'faces': [[0, 1, 2, 3], [1, 0, 4], [0, 1, 4]]},
]


def run_c07(ctx, out, hist, stop, thorough, found):
    r = random.Random('%s/corr.edgeinfo.C07' % ctx.seed)
    rounds = 0
    while rounds == 0 or (thorough and time.time() < stop and rounds < 10):
        cases = []
        if rounds == 0:
            for c in FIXED_C07:
                c = dict(c, style='fixed corpus')
                c['group'] = 'polyface_init' if c['kind'] == 'polyface' else 'mesh_edge_info'
                cases.append(c)
        n = 1500 if thorough else 900
        for _ in range(n):
            x = r.random()
            cases.append(gen_polyface(r) if x < 0.45 else closed_shell(r) if x < 0.65
                         else gen_mesh_faces(r))
        cases.extend(real_factory_cases(r, n // 6))
        cases.extend(real_mesh_cases(r, n // 8))
        reqs = [edge_request(c) for c in cases]
        answers = ctx.driver.run(reqs)
        for c, (ok, val) in zip(cases, answers):
            bump(hist['C07 group'], c['group'])
            bump(hist['C07 style'], c['style'])
            real = c['real'] if 'real' in c else real_edge_case(c)
            bad = ('driver error', str(val)[:200], None) if not ok \
                else compare_edge_case(c, val, real)
            out['requests'] += 1
            if ok and not bad:
                bump(hist['C07 faces'], min(len(c['faces']), 12))
                bump(hist['C07 edges'], min(len(val[0]) // 4 * 4, 40))
                for t in val[1]:
                    bump(hist['C07 edge types'], min(t, 4))
                if c['kind'] == 'polyface':
                    bump(hist['C07 is_solid'], str(bool(val[2])))
                if edge_nontrivial(c, val):
                    out['nontrivial'] += 1
                if len(out['samples']) < 2 and c['group'] == 'polyface_init' and \
                        2 <= len(c['faces']) <= 3 and rounds == 0 and c['style'] != 'fixed corpus':
                    out['samples'].append({'op': edge_request(c)[0], 'args': edge_request(c)[1],
                                           'model': val, 'agrees': True})
            if bad:
                sig = '%s (%s)|%s' % (edge_request(c)[0], c['group'], bad[0])
                if sig not in found:
                    found[sig] = {
                        'signature': sig, 'op': edge_request(c)[0], 'args': edge_request(c)[1],
                        'case': {k: c[k] for k in ('group', 'kind', 'nv', 'faces', 'seeded',
                                                   'style', 'factory', 'vertices')
                                 if k in c},
                        'what': '%s on %s faces %s: model %s real %s' % (
                            bad[0], c['style'], str(c['faces'])[:200], str(bad[1])[:200],
                            str(bad[2])[:200]),
                        'model': bad[1], 'real': bad[2],
                        'seed': '%s/C07/round%d' % (ctx.seed, rounds)}
        rounds += 1


def shrink_c07(ctx, d, deadline):
    """Drop faces one at a time while the same disagreement remains (explicit cases only)."""
    c = d['case']
    if 'factory' in c or 'vertices' in c or 'nv' not in c:
        return d
    what = d['signature'].split('|', 1)[1]
    for _ in range(6):
        if time.time() > deadline or len(c['faces']) <= 1:
            break
        cands = [dict(c, faces=c['faces'][:j] + c['faces'][j + 1:])
                 for j in range(len(c['faces']))]
        answers = ctx.driver.run([edge_request(x) for x in cands])
        better = None
        for x, (ok, val) in zip(cands, answers):
            if not ok:
                continue
            bad = compare_edge_case(x, val, real_edge_case(x))
            if bad and bad[0] == what:
                better = (x, bad)
                break
        if better is None:
            break
        c, bad = better
        d = dict(d, case=c, args=edge_request(c)[1], model=bad[1], real=bad[2],
                 what='%s on faces %s: model %s real %s' % (
                     bad[0], str(c['faces'])[:200], str(bad[1])[:200], str(bad[2])[:200]))
    return d


def replay_c07(ctx, d):
    c = dict(d['case'])
    real = real_edge_case(c)        # factories are rebuilt from their recorded description
    if 'factory' in c:
        c['faces'] = real.get('face_indices', c['faces'])
    ok, val = ctx.driver.run([edge_request(c)])[0]
    bad = ('driver error', str(val)[:200], None) if not ok else compare_edge_case(c, val, real)
    if not bad:
        return None
    return dict(d, what='%s: model %s real %s' % (bad[0], str(bad[1])[:200], str(bad[2])[:200]),
                model=bad[1], real=bad[2])


# =================================================================== C08
def fpt(p):
    return [W(p[0]), W(p[1])]


def exact_segments(vs):
    """`Polygon2D._segments_from_vertices` in exact arithmetic: (p, v) per side, v = the
    DOUBLE difference the code stores."""
    n = len(vs)
    segs = []
    for i in range(n):
        a, b = vs[i], vs[(i + 1) % n]
        segs.append((a, b))
    return segs


def near(x, thr, scale, exact_ok):
    """x within 1e-9 (relative to scale) of thr; an exact hit is a tie unless exact_ok."""
    if x == thr:
        return not exact_ok
    return abs(x - thr) < REL * scale


def inside_tie(vs, p, tv, exact_ok):
    """Float-tie test for `is_point_inside(p, tv)`; vs, p, tv: tuples of Fractions."""
    scale = max([Fraction(1)] + [abs(c) for v in vs for c in v] + [abs(p[0]), abs(p[1])])
    for a, b in exact_segments(vs):
        avx, avy = b[0] - a[0], b[1] - a[1]
        t1, t2 = tv[1] * avx, tv[0] * avy
        d = t1 - t2
        if d == 0:
            if not exact_ok and (avx != 0 or avy != 0):
                return True
            continue
        if abs(d) <= REL * (abs(t1) + abs(t2)):
            return True
        dy, dx = a[1] - p[1], a[0] - p[0]
        ua = (tv[0] * dy - tv[1] * dx) / d
        if near(ua, 0, 1, exact_ok) or near(ua, 1, 1, exact_ok):
            return True
        if ua < 0 or ua > 1:
            continue
        ub = (avx * dy - avy * dx) / d
        tvn = max(abs(tv[0]), abs(tv[1]))
        if near(ub * tvn, 0, scale, exact_ok):
            return True
        if ub < 0:
            continue
        cond = (abs(avx) + abs(avy)) * (abs(tv[0]) + abs(tv[1])) / abs(d)
        if cond > 2 * 10 ** 5 + 10:
            return True
    return False


def exact_dist2(vs, p):
    """Exact squared distance from p to the closed loop."""
    best = None
    for a, b in exact_segments(vs):
        vx, vy = b[0] - a[0], b[1] - a[1]
        d = vx * vx + vy * vy
        if d == 0:
            c = a
        else:
            u = ((p[0] - a[0]) * vx + (p[1] - a[1]) * vy) / d
            u = max(min(u, 1), 0)
            c = (a[0] + u * vx, a[1] + u * vy)
        q = (p[0] - c[0]) ** 2 + (p[1] - c[1]) ** 2
        best = q if best is None or q < best else best
    return best


def on_edge_tie(vs, p, tol):
    """Some side has |distance - tol| <= 1e-9 * max(1, tol) (exact distances)."""
    band = REL * max(Fraction(1), tol)
    lo, hi = max(tol - band, Fraction(0)), tol + band
    for a, b in exact_segments(vs):
        vx, vy = b[0] - a[0], b[1] - a[1]
        d = vx * vx + vy * vy
        if d == 0:
            c = a
        else:
            u = ((p[0] - a[0]) * vx + (p[1] - a[1]) * vy) / d
            if abs(u) < REL or abs(u - 1) < REL:
                pass            # clamping switch: both branches give (nearly) the same point
            u = max(min(u, 1), 0)
            c = (a[0] + u * vx, a[1] + u * vy)
        q = (p[0] - c[0]) ** 2 + (p[1] - c[1]) ** 2
        if lo * lo <= q <= hi * hi:
            return True
    return False


def gen_polygon(r, stream):
    """-> list of (x, y) doubles, kind."""
    x = r.random()
    if stream == 'lattice':
        c = lambda: float(r.randint(-4, 4))          # noqa: E731
        q = lambda v: round(v * 2) / 2.0             # noqa: E731
    else:
        c = lambda: r.uniform(-5, 5)                 # noqa: E731
        q = lambda v: v                              # noqa: E731
    if x < 0.3:
        n = r.randint(3, 8)
        return [(c(), c()) for _ in range(n)], 'random loop'
    if x < 0.55:
        n = r.randint(3, 9)
        angs = sorted(r.uniform(0, 2 * math.pi) for _ in range(n))
        rad = r.uniform(2, 5)
        cx, cy = c(), c()
        pts = [(q(cx + rad * math.cos(a)), q(cy + rad * math.sin(a))) for a in angs]
        kind = 'convex'
    elif x < 0.8:
        n = r.randint(4, 10)
        angs = sorted(r.uniform(0, 2 * math.pi) for _ in range(n))
        cx, cy = c(), c()
        pts = [(q(cx + r.uniform(1, 5) * math.cos(a)), q(cy + r.uniform(1, 5) * math.sin(a)))
               for a in angs]
        kind = 'star'
    else:
        base = r.choice([[(0, 0), (4, 0), (4, 2), (2, 2), (2, 4), (0, 4)],
                         [(0, 0), (6, 0), (6, 4), (4, 4), (4, 2), (2, 2), (2, 4), (0, 4)],
                         [(0, 0), (3, 0), (3, 3), (0, 3)],
                         [(0, 0), (5, 0), (5, 1), (1, 1), (1, 4), (5, 4), (5, 5), (0, 5)]])
        k = r.choice([1.0, 0.5, 2.0]) if stream == 'lattice' else r.uniform(0.5, 2)
        dx, dy = c(), c()
        pts = [(px * k + dx, py * k + dy) for px, py in base]
        if stream != 'lattice' and r.random() < 0.5:
            a = r.uniform(0, 2 * math.pi)
            pts = [(px * math.cos(a) - py * math.sin(a), px * math.sin(a) + py * math.cos(a))
                   for px, py in pts]
        kind = 'rectilinear'
    if r.random() < 0.5:
        pts.reverse()
    s = r.randrange(len(pts))
    return pts[s:] + pts[:s], kind


def gen_point(r, vs, stream):
    xs, ys = [v[0] for v in vs], [v[1] for v in vs]
    x = r.random()
    if x < 0.5:
        if stream == 'lattice':
            den = r.choice([1, 2, 4])
            return (r.randint(int(min(xs)) * den - den, int(max(xs)) * den + den) / float(den),
                    r.randint(int(min(ys)) * den - den, int(max(ys)) * den + den) / float(den)), \
                'box'
        return (r.uniform(min(xs) - 1, max(xs) + 1), r.uniform(min(ys) - 1, max(ys) + 1)), 'box'
    if x < 0.6:
        return r.choice(vs), 'vertex'
    if x < 0.75:
        i = r.randrange(len(vs))
        a, b = vs[i - 1], vs[i]
        t = r.choice([0.5, 0.25, 0.75]) if stream == 'lattice' else r.random()
        return (a[0] + (b[0] - a[0]) * t, a[1] + (b[1] - a[1]) * t), 'on side'
    if x < 0.85:
        i = r.randrange(len(vs))
        a, b = vs[i - 1], vs[i]
        t = r.choice([-0.5, 1.5, 2.0])
        return (a[0] + (b[0] - a[0]) * t, a[1] + (b[1] - a[1]) * t), 'on side line'
    v = r.choice(vs)        # level with a vertex: the horizontal ray runs through it
    if r.random() < 0.5:
        return (v[0] - r.choice([1.0, 2.5, 0.5, 7.0]), v[1]), 'level with vertex'
    return (v[0], v[1] - r.choice([1.0, 2.5, 0.5, 7.0])), 'below vertex'


def gen_tv(r, stream):
    x = r.random()
    if x < 0.35:
        return STD_TV, 'std'
    if x < 0.75 or stream == 'lattice':
        return r.choice([(1.0, 0.0), (0.0, 1.0), (-1.0, 0.0), (0.0, -1.0), (1.0, 1.0),
                         (float(r.randint(-3, 3)), float(r.randint(1, 3))),
                         (2.0, -1.0)]), 'integer'
    a = r.uniform(0, 2 * math.pi)
    return (math.cos(a), math.sin(a)), 'unit'


TOLS = [0.25, 0.01, 0.001, 0.1, 0.0, 1.0]

FIXED_C08 = [
    # (vertices, point, test vector, tolerance)
    ([(0, 0), (4, 0), (4, 4), (0, 4)], (2, 2), (1.0, 0.0), 0.01),        # inside
    ([(0, 0), (4, 0), (4, 4), (0, 4)], (5, 2), (1.0, 0.0), 0.01),        # outside, in no rect
    ([(0, 0), (4, 0), (4, 4), (0, 4)], (-1, 0), (1.0, 0.0), 0.01),       # ray along a side
    ([(0, 0), (4, 0), (4, 4), (0, 4)], (-1, 4), (1.0, 0.0), 0.01),
    ([(0, 0), (4, 0), (4, 4), (0, 4)], (4, 2), (1.0, 0.0), 0.0),         # on a side, tol 0
    ([(0, 0), (4, 0), (4, 4), (0, 4)], (0, 0), (0.0, 1.0), 0.25),        # a vertex
    ([(0, 0), (4, 0), (2, 2), (4, 4), (0, 4)], (1, 2), (1.0, 0.0), 0.01),   # ray through reflex vertex
    ([(0, 0), (4, 0), (2, 2), (4, 4), (0, 4)], (3, 2), (-1.0, 0.0), 0.01),
    ([(0, 0), (4, 0), (2, 2), (4, 4), (0, 4)], (3, 2), (1.0, 0.0), 0.01),   # in the notch
    ([(0, 4), (4, 4), (4, 0), (0, 0)], (1, 1), STD_TV, 0.01),               # clockwise
    ([(0, 0), (4, 4), (4, 0), (0, 4)], (1, 2), STD_TV, 0.01),               # bow tie
    ([(0, 0), (4, 4), (4, 0), (0, 4)], (2, 2), (1.0, 0.0), 0.01),           # bow tie crossing
    ([(0, 0), (2, 0), (2, 0), (2, 3)], (1, 1), (1.0, 0.0), 0.01),           # repeated vertex
    ([(0, 0), (4, 0), (4, 4), (0, 4)], (2, 4.25), STD_TV, 0.5),             # outside, near side
    ([(0, 0), (4, 0), (4, 4), (0, 4)], (2, 3.5), STD_TV, 0.25),             # inside, far enough
    ([(0, 0), (6, 0), (0, 6)], (1, 1), (0.0, 0.0), 0.01),                   # zero test vector
]


def c08_case(vs, p, tv, tol, stream, tvkind):
    """-> case dict with wire args, exact data and tie flags."""
    fv = [(Fraction(a), Fraction(b)) for a, b in vs]
    fp = (Fraction(p[0]), Fraction(p[1]))
    ftv = (Fraction(tv[0]), Fraction(tv[1]))
    std = (Fraction(STD_TV[0]), Fraction(STD_TV[1]))
    ftol = Fraction(tol)
    exact_ok = stream == 'lattice' and tvkind in ('integer', 'std')
    xs, ys = [v[0] for v in fv], [v[1] for v in fv]
    in_rect = min(xs) <= fp[0] <= max(xs) and min(ys) <= fp[1] <= max(ys)
    t_in = inside_tie(fv, fp, ftv, exact_ok)
    t_edge = on_edge_tie(fv, fp, ftol)
    d2 = exact_dist2(fv, fp)
    # the ray test of point_relationship is only reached when the point is not on an edge
    t_rel = t_edge or (d2 > ftol * ftol and in_rect and
                       inside_tie(fv, fp, std, stream == 'lattice'))
    return {'vs': [list(v) for v in vs], 'p': list(p), 'tv': list(tv), 'tol': tol,
            'stream': stream, 'tvkind': tvkind, 'in_rect': in_rect,
            'boundary': d2 == 0, 'near': d2 <= (4 * ftol) ** 2,
            'ties': {'point_inside': t_in, 'point_inside_bound_rect': in_rect and t_in,
                     'point_on_edge': t_edge, 'point_relationship': t_rel},
            'wire': {'vs': [fpt(v) for v in vs], 'p': fpt(p), 'tv': fpt(tv), 'tol': W(tol),
                     'std': fpt(STD_TV)}}


def c08_requests(case):
    w = case['wire']
    return [('point_inside', ('model.point_inside', [w['vs'], w['p'], w['tv']])),
            ('point_inside_bound_rect',
             ('model.point_inside_bound_rect', [w['vs'], w['p'], w['tv']])),
            ('point_on_edge', ('model.point_on_edge', [w['vs'], w['p'], w['tol']])),
            ('point_relationship',
             ('model.point_relationship', [w['vs'], w['p'], w['tol'], w['std']]))]


def c08_real(case):
    """-> {group: value | ('raise', name)}."""
    out = {}
    try:
        pg = Polygon2D([Point2D(x, y) for x, y in case['vs']])
        pt = Point2D(*case['p'])
        tv = Vector2D(*case['tv'])
    except Exception as e:      # noqa: BLE001
        return dict((g, ('raise', type(e).__name__)) for g in GROUPS['C08'])
    for g, f in (('point_inside', lambda: pg.is_point_inside(pt, tv)),
                 ('point_inside_bound_rect', lambda: pg.is_point_inside_bound_rect(pt, tv)),
                 ('point_on_edge', lambda: pg.is_point_on_edge(pt, case['tol'])),
                 ('point_relationship', lambda: pg.point_relationship(pt, case['tol']))):
        try:
            out[g] = f()
        except Exception as e:      # noqa: BLE001
            out[g] = ('raise', type(e).__name__)
    return out


def c08_nontrivial(case, g):
    if g == 'point_on_edge':
        return case['near']
    return case['in_rect']


def c08_compare(g, val, real):
    """-> None | what-key."""
    if isinstance(real, tuple):
        return 'raises %s' % real[1]
    if g == 'point_relationship':
        if type(real) is not int or int(val) != real:
            return 'model %s, real %s' % (val, real)
        return None
    if type(real) is not bool or bool(val) != real:
        return 'model %s, real %s' % (val, real)
    return None


def run_c08(ctx, out, hist, stop, thorough, found):
    r = random.Random('%s/corr.edgeinfo.C08' % ctx.seed)
    rounds = 0
    while rounds == 0 or (thorough and time.time() < stop and rounds < 10):
        cases = []
        if rounds == 0:
            for vs, p, tv, tol in FIXED_C08:
                c = c08_case([(float(a), float(b)) for a, b in vs], (float(p[0]), float(p[1])),
                             tv, tol, 'lattice', 'std' if tv == STD_TV else 'integer')
                c['polykind'], c['ptkind'] = 'fixed corpus', 'fixed corpus'
                cases.append(c)
        npoly = 800 if thorough else 400
        for _ in range(npoly):
            stream = 'lattice' if r.random() < 0.6 else 'float'
            vs, kind = gen_polygon(r, stream)
            for _ in range(4):
                p, pk = gen_point(r, vs, stream)
                tv, tk = gen_tv(r, stream)
                c = c08_case(vs, p, tv, r.choice(TOLS), stream, tk)
                c['polykind'], c['ptkind'] = kind, pk
                cases.append(c)
            if time.time() > stop:
                break
        reqs, owners = [], []
        for c in cases:
            for g, rq in c08_requests(c):
                reqs.append(rq)
                owners.append((c, g))
        answers = ctx.driver.run(reqs)
        reals = {}
        for (c, g), (ok, val) in zip(owners, answers):
            if id(c) not in reals:
                reals[id(c)] = c08_real(c)
                bump(hist['C08 polygon'], c['polykind'])
                bump(hist['C08 point'], c['ptkind'])
                bump(hist['C08 test vector'], c['tvkind'])
                bump(hist['C08 stream'], c['stream'])
                bump(hist['C08 vertices'], len(c['vs']))
                bump(hist['C08 exact position'], 'boundary' if c['boundary'] else
                     'in rectangle' if c['in_rect'] else 'outside rectangle')
            real = reals[id(c)][g]
            if c['ties'][g] and not isinstance(real, tuple):
                out['float_ties'] += 1
                bump(hist['C08 float ties'], g)
                continue
            out['requests'] += 1
            bad = 'driver error: %s' % str(val)[:100] if not ok else c08_compare(g, val, real)
            if not bad:
                bump(hist['C08 results ' + g], str(real))
                if c08_nontrivial(c, g):
                    out['nontrivial'] += 1
                if len(out['samples']) < 2 and g == 'point_relationship' and c['in_rect'] \
                        and c['polykind'] != 'fixed corpus':
                    out['samples'].append({'op': 'model.' + g, 'args': dict(c08_requests(c))[g][1],
                                           'model': val, 'real': real, 'agrees': True})
                continue
            where = 'boundary point' if c['boundary'] else 'generic point'
            sig = 'model.%s|%s (%s%s)' % (
                g, bad, where, ', %s test vector' % c['tvkind'] if g.startswith('point_inside')
                else '')
            if sig not in found:
                found[sig] = {
                    'signature': sig, 'op': 'model.' + g, 'args': dict(c08_requests(c))[g][1],
                    'case': {k: c[k] for k in ('vs', 'p', 'tv', 'tol', 'stream', 'tvkind')},
                    'group': g,
                    'what': '%s: polygon %s point %s test vector %s tol %s — %s' % (
                        g, c['vs'], c['p'], c['tv'], c['tol'], bad),
                    'model': val, 'real': real if not isinstance(real, tuple) else real[1],
                    'seed': '%s/C08/round%d' % (ctx.seed, rounds)}
        rounds += 1


def c08_check(ctx, case, g):
    """One case, one group -> None | (what, model, real)."""
    c = c08_case([tuple(v) for v in case['vs']], tuple(case['p']), tuple(case['tv']),
                 case['tol'], case['stream'], case['tvkind'])
    real = c08_real(c)[g]
    if c['ties'][g] and not isinstance(real, tuple):
        return None
    ok, val = ctx.driver.run([dict(c08_requests(c))[g]])[0]
    bad = 'driver error' if not ok else c08_compare(g, val, real)
    return (bad, val, real) if bad else None


def shrink_c08(ctx, d, deadline):
    """Drop polygon vertices one at a time while the same kind of disagreement remains."""
    g = d['group']
    case = d['case']
    for _ in range(5):
        if time.time() > deadline or len(case['vs']) <= 3:
            break
        cands = [dict(case, vs=case['vs'][:j] + case['vs'][j + 1:])
                 for j in range(len(case['vs']))]
        built = [c08_case([tuple(v) for v in x['vs']], tuple(x['p']), tuple(x['tv']), x['tol'],
                          x['stream'], x['tvkind']) for x in cands]
        answers = ctx.driver.run([dict(c08_requests(b))[g] for b in built])
        better = None
        for x, b, (ok, val) in zip(cands, built, answers):
            real = c08_real(b)[g]
            if not ok or (b['ties'][g] and not isinstance(real, tuple)):
                continue
            if c08_compare(g, val, real):
                better = (x, val, real, dict(c08_requests(b))[g][1])
                break
        if better is None:
            break
        case = better[0]
        d = dict(d, case=case, args=better[3], model=better[1],
                 real=better[2] if not isinstance(better[2], tuple) else better[2][1],
                 what='%s: polygon %s point %s test vector %s tol %s — model %s real %s' % (
                     g, case['vs'], case['p'], case['tv'], case['tol'], better[1], better[2]))
    return d


# =================================================================== entry points
def budget(ctx):
    thorough = ctx.tier == 'thorough' or bool(getattr(ctx, 'broken', None))
    t = time.time()
    wall = 200.0 if thorough else 10.0
    return thorough, min(t + wall, getattr(ctx, 'deadline', float('inf')) - 5), \
        t + (280.0 if thorough else 16.0)


def run(ctx, prop):
    t0 = time.time()
    thorough, stop, hard_stop = budget(ctx)
    hist = {}
    out = {'requests': 0, 'nontrivial': 0, 'disagreements': [], 'float_ties': 0,
           'histograms': hist, 'samples': [], 'groups': GROUPS.get(prop, [])}
    found = {}
    if prop == 'C07':
        for k in ('C07 group', 'C07 style', 'C07 faces', 'C07 edges', 'C07 edge types',
                  'C07 is_solid'):
            hist[k] = {}
        out['rule'] = ('request = one face-index structure run through the model and the real '
                       'constructor / _compute_edge_info; non-trivial = the loop leaves the '
                       '"append a new edge" branch: some edge is met again (type >= 1) or a '
                       'degenerate side is skipped')
        run_c07(ctx, out, hist, stop, thorough, found)
        shrinker = shrink_c07
    elif prop == 'C08':
        for k in ['C08 polygon', 'C08 point', 'C08 test vector', 'C08 stream', 'C08 vertices',
                  'C08 exact position', 'C08 float ties'] + \
                ['C08 results ' + g for g in GROUPS['C08']]:
            hist[k] = {}
        out['rule'] = ('request = one containment query (one of 4 routines) on a polygon / '
                       'point / test vector / tolerance; non-trivial = the point lies in the '
                       'bounding rectangle (the ray count decides) — for point_on_edge: within '
                       '4 tolerances of the boundary')
        run_c08(ctx, out, hist, stop, thorough, found)
        shrinker = shrink_c08
    else:
        out['rule'] = 'property not covered by this module'
        return out
    for n, sig in enumerate(sorted(found)[:8]):
        d = found[sig]
        if n < 3 and time.time() < hard_stop:
            try:
                d = shrinker(ctx, d, hard_stop)
            except Exception:       # noqa: BLE001 - shrinking is best effort
                pass
        out['disagreements'].append(d)
    out['seconds'] = round(time.time() - t0, 1)
    return out


def replay(ctx, disagreement):
    """Re-run one recorded disagreement on the current tree."""
    if disagreement['op'] in ('model.edge_info', 'model.mesh_edge_info'):
        return replay_c07(ctx, disagreement)
    bad = c08_check(ctx, disagreement['case'], disagreement['group'])
    if not bad:
        return None
    return dict(disagreement, model=bad[1],
                real=bad[2] if not isinstance(bad[2], tuple) else bad[2][1])


if __name__ == '__main__':
    class Ctx(object):
        pass
    ctx = Ctx()
    ctx.seed = int(sys.argv[1]) if len(sys.argv) > 1 else int(os.environ.get('VERIF_SEED', '0'))
    ctx.tier = sys.argv[2] if len(sys.argv) > 2 else os.environ.get('VERIF_TIER', 'quick')
    props = sys.argv[3:] or PROPS
    ctx.broken = []
    ctx.driver = lbg.Driver()
    ctx.deadline = time.time() + 3600
    rc = 0
    for prop in props:
        t = time.time()
        res = run(ctx, prop)
        print('%s %s seed %s %s: %d requests, %d non-trivial, %d float ties, %d disagreements, '
              '%.1f s' % (os.path.basename(__file__), prop, ctx.seed, ctx.tier, res['requests'],
                          res['nontrivial'], res['float_ties'], len(res['disagreements']),
                          time.time() - t))
        for k, v in sorted(res['histograms'].items()):
            print('  %s: %s' % (k, dict(sorted(v.items(), key=lambda kv: str(kv[0])))))
        for d in res['disagreements']:
            rc = 1
            print('DISAGREEMENT', d['signature'], '::', d['what'][:400])
            again = replay(ctx, d)
            print('   replay:', 'reproduced' if again else 'NOT reproduced')
    sys.exit(rc)
