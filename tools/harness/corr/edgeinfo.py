import sys, json, random, subprocess
from fractions import Fraction
sys.path.insert(0, '/repo')
from ladybug_geometry.geometry3d.polyface import Polyface3D
from ladybug_geometry.geometry3d.pointvector import Point3D
from ladybug_geometry.geometry2d.polygon import Polygon2D
from ladybug_geometry.geometry2d.pointvector import Point2D, Vector2D
from ladybug_geometry.geometry2d.mesh import Mesh2D
random.seed(7)
reqs = []; expect = []
def fr(x): return str(Fraction(x))
for t in range(300):
    nv = random.randint(3, 9)
    faces = []
    for _ in range(random.randint(1, 7)):
        loops = []
        for _ in range(random.choice([1, 1, 1, 2])):
            k = random.randint(3, 5)
            loops.append([random.randrange(nv) for _ in range(k)])
        faces.append(loops)
    verts = [Point3D(i, i * i, 0) for i in range(nv)]
    pf = Polyface3D(verts, faces)
    reqs.append({"id": len(reqs), "op": "model.edge_info", "args": [faces]})
    expect.append([[list(e) for e in pf.edge_indices], list(pf.edge_types), pf.is_solid])
for t in range(300):
    n = random.randint(3, 8)
    vs = [(random.randint(-4, 4), random.randint(-4, 4)) for _ in range(n)]
    try:
        pg = Polygon2D([Point2D(*v) for v in vs])
    except Exception:
        continue
    for _ in range(4):
        p = (random.randint(-5, 5) / random.choice([1, 2]), random.randint(-5, 5) / random.choice([1, 2]))
        d = random.choice([(1, 0), (0, 1), (1, 0.00001), (random.randint(-3, 3), random.randint(1, 3))])
        r = pg.is_point_inside(Point2D(*p), Vector2D(*d))
        r2 = pg.is_point_inside_bound_rect(Point2D(*p), Vector2D(*d))
        a = [[[fr(x), fr(y)] for x, y in vs], [fr(p[0]), fr(p[1])], [fr(d[0]), fr(d[1])]]
        reqs.append({"id": len(reqs), "op": "model.point_inside", "args": a}); expect.append(r)
        reqs.append({"id": len(reqs), "op": "model.point_inside_bound_rect", "args": a}); expect.append(r2)
        tol = 0.25
        r3 = pg.point_relationship(Point2D(*p), tol)
        a3 = [a[0], a[1], fr(tol), [fr(1), fr(0.00001)]]
        reqs.append({"id": len(reqs), "op": "model.point_relationship", "args": a3}); expect.append(r3)
inp = '\n'.join(json.dumps(r) for r in reqs) + '\n'
out = subprocess.run(['lake', 'env', 'lean', '--run', 'Driver.lean'], cwd='/tmp/agents/p_c07c08/lean',
                     input=inp, capture_output=True, text=True)
lines = [l for l in out.stdout.splitlines() if l.startswith('{')]
bad = 0
for l in lines:
    j = json.loads(l)
    if not j['ok']:
        print('ERR', j); bad += 1; continue
    if j['val'] != expect[j['id']]:
        bad += 1
        if bad < 6: print('MISMATCH', reqs[j['id']], j['val'], expect[j['id']])
print(len(lines), 'answers', len(reqs), 'requests', bad, 'bad')
print(out.stderr[-2000:])
