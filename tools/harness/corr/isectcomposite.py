"""Model correspondence for the literal hand models of the COMPOSITE intersection / splitting
routines (`Model/IsectComposite.lean`, driver ops `model.polygon_intersect_*`,
`model.polyline2_intersect_*`, `model.polyline3_intersect_plane`,
`model.polyline3_split_with_plane`, `model.seg3_split_with_plane`, `model.face_intersect_*`,
`model.polyface_intersect_*`).

C11 — request groups
  * `polygon_line`   `Polygon2D.intersect_line_ray` (LineSegment2D and Ray2D argument) and
                     `Polygon2D.intersect_line_infinite`;
  * `polyline2_line` the same three calls on `Polyline2D`;
  * `polyline3_plane` `Polyline3D.intersect_plane`;
  * `face_line_ray`  `Face3D.intersect_line_ray` (LineSegment3D / Ray3D; faces with and without
                     holes, explicit and computed planes);
  * `face_plane`     `Face3D.intersect_plane`;
  * `polyface_line_ray`, `polyface_plane`  `Polyface3D.intersect_line_ray / intersect_plane`
                     (boxes, prisms over polygons with holes, open shells).
C17 — request groups
  * `polyline3_split` `Polyline3D.split_with_plane` (kinds of the pieces — LineSegment3D vs
                     Polyline3D —, their vertex lists);
  * `seg3_split`     `LineSegment3D.split_with_plane`.

Two input streams per group.  `lattice`: dyadic coordinates (multiples of 1/4, |c| <= 8), lines
through lattice points / vertices / edge mid-points, axis-aligned planes through lattice
coordinates — all products are exact in doubles and a quotient that is exactly 0 or 1 is
computed exactly, so hits AT a vertex, collinear edges and parallel misses are compared
exactly (list lengths, order, kinds), coordinates to 1e-12.  `real`: float coordinates up to
1e3 and rational planes with normalised normals; a discrete difference is a float tie (not
compared) when some decisive exact parameter (determinant, line parameters, plane parameter,
bounding-rectangle test, containment ray parameters, sort keys) is within 1e-9 of its
threshold; coordinates are compared with a tolerance scaled by the conditioning of the
crossing (1 / relative determinant).
"""
import json
import math
import os
import random
import sys
import time
from fractions import Fraction

if __name__ == '__main__':
    sys.path.insert(0, os.path.dirname(os.path.dirname(os.path.abspath(__file__))))
import lbg  # noqa: E402

from ladybug_geometry.geometry2d.pointvector import Point2D, Vector2D  # noqa: E402
from ladybug_geometry.geometry2d.line import LineSegment2D  # noqa: E402
from ladybug_geometry.geometry2d.ray import Ray2D  # noqa: E402
from ladybug_geometry.geometry2d.polygon import Polygon2D  # noqa: E402
from ladybug_geometry.geometry2d.polyline import Polyline2D  # noqa: E402
from ladybug_geometry.geometry3d.pointvector import Point3D, Vector3D  # noqa: E402
from ladybug_geometry.geometry3d.line import LineSegment3D  # noqa: E402
from ladybug_geometry.geometry3d.ray import Ray3D  # noqa: E402
from ladybug_geometry.geometry3d.plane import Plane  # noqa: E402
from ladybug_geometry.geometry3d.polyline import Polyline3D  # noqa: E402
from ladybug_geometry.geometry3d.face import Face3D  # noqa: E402
from ladybug_geometry.geometry3d.polyface import Polyface3D  # noqa: E402

PROPS = ['C11', 'C17']
MODELS = ['LbgVerif/Model/IsectComposite.lean', 'LbgVerif/Model/Dispatch_IsectComposite.lean']
REAL = ['ladybug_geometry/geometry2d/polygon.py:Polygon2D.intersect_line_ray, '
        'intersect_line_infinite (with Polygon2D.segments)',
        'ladybug_geometry/geometry2d/polyline.py:Polyline2D.intersect_line_ray, '
        'intersect_line_infinite (with Polyline2D.segments)',
        'ladybug_geometry/geometry3d/polyline.py:Polyline3D.intersect_plane, split_with_plane, '
        '_grouped_verts_to_objs (with Polyline3D.segments)',
        'ladybug_geometry/geometry3d/line.py:LineSegment3D.split_with_plane',
        'ladybug_geometry/geometry3d/face.py:Face3D.intersect_line_ray, intersect_plane '
        '(with Face3D.polygon2d)',
        'ladybug_geometry/geometry3d/polyface.py:Polyface3D.intersect_line_ray, intersect_plane']
TRUSTED = [
    'isectcomposite: the model computes in exact rationals on the exact values of the doubles '
    '(plane slots n, o, k, x, y of the real Plane object are passed as they are); on the '
    'lattice stream every discrete outcome is compared, on the real stream a discrete '
    'difference is not compared (float tie) when an exact decisive parameter is within 1e-9 '
    '(relative) of its threshold; coordinates are compared to 1e-12 * scale, widened by the '
    'conditioning 1/|relative determinant| of the crossing',
    'isectcomposite: for a Face3D with holes the model is given the vertices of the pre-seeded '
    '`polygon2d` slot (the merge of the holes into one loop is not part of these routines); '
    '`Polyface3D.faces` (face construction, outward orientation) is taken from the real object',
    'isectcomposite: Arc2D.split_line_infinite / Arc3D.split_with_plane / Arc3D.intersect_plane '
    '/ Plane.intersect_arc are not modelled (angles through acos)',
]
GROUPS = {'C11': ['polygon_line', 'polyline2_line', 'polyline3_plane', 'face_line_ray',
                  'face_plane', 'polyface_line_ray', 'polyface_plane'],
          'C17': ['polyline3_split', 'seg3_split']}
W = lbg.wnum
F = Fraction
TV = (1.0, 0.00001)           # default test_vector of is_point_inside_bound_rect
EPS = F(1, 10 ** 9)


def bump(h, k, n=1):
    h[k] = h.get(k, 0) + n


# ------------------------------------------------------------------ building real objects
def plane_of(d):
    """d = {'n': [..], 'o': [..], 'x': [..] | None}."""
    x = Vector3D(*d['x']) if d.get('x') else None
    return Plane(Vector3D(*d['n']), Point3D(*d['o']), x)


def lr2_of(d):
    cls = Ray2D if d['ray'] else LineSegment2D
    return cls(Point2D(*d['p']), Vector2D(*d['v']))


def lr3_of(d):
    cls = Ray3D if d['ray'] else LineSegment3D
    return cls(Point3D(*d['p']), Vector3D(*d['v']))


def face_of(d):
    """d = {'verts': [[x, y, z]..], 'holes': [[..]..] | None, 'plane': planedesc | None}."""
    pl = plane_of(d['plane']) if d.get('plane') else None
    holes = [[Point3D(*p) for p in h] for h in d['holes']] if d.get('holes') else None
    return Face3D([Point3D(*p) for p in d['verts']], pl, holes)


def polyface_of(d):
    k = d['kind']
    if k == 'box':
        return Polyface3D.from_box(d['w'], d['d'], d['h'], plane_of(d['plane']))
    if k == 'prism':
        return Polyface3D.from_offset_face(face_of(d['face']), d['offset'])
    return Polyface3D.from_faces([face_of(f) for f in d['faces']], 0.01)


def w2(p):
    return [W(p.x), W(p.y)]


def w3(p):
    return [W(p.x), W(p.y), W(p.z)]


def wlr(l):
    return lbg.to_wire(l, 'LR2' if isinstance(l, (LineSegment2D, Ray2D)) else 'LR3')


def wplane(pl):
    return lbg.to_wire(pl, 'PlaneS')


def wface(f):
    p2 = [w2(p) for p in f.polygon2d.vertices] if f.has_holes else None
    return [wplane(f.plane), [w3(p) for p in f.vertices], p2]


def c2(p):
    return [F(p.x), F(p.y)]


def c3(p):
    return [F(p.x), F(p.y), F(p.z)]


def cseg3(s):
    return [c3(s.p), c3(s.v)]


# ------------------------------------------------------------------ one case: request + real
def evaluate(case):
    """-> (op, args, real) with real = canonical result or {'raise': ExcName}.  The request is
    built from the REAL objects (their slots), so both sides see the same doubles.  Constructor
    assertions (invalid input) are not comparisons; anything the routine itself raises is."""
    g = case['group']
    tv = [W(TV[0]), W(TV[1])]
    try:
        if g in ('polygon_line', 'polyline2_line'):
            pts = [Point2D(*p) for p in case['verts']]
            obj = Polygon2D(pts) if g == 'polygon_line' else Polyline2D(pts)
            lr = lr2_of(case['lr'])
            base = 'model.polygon_' if g == 'polygon_line' else 'model.polyline2_'
            op = base + ('intersect_line_infinite' if case['infinite'] else 'intersect_line_ray')
            args = [[w2(p) for p in obj.vertices], bool(case['lr']['ray']), wlr(lr)]
            if case['infinite']:
                def call():
                    return [c2(p) for p in obj.intersect_line_infinite(lr)]
            else:
                def call():
                    return [c2(p) for p in obj.intersect_line_ray(lr)]
        elif g in ('polyline3_plane', 'polyline3_split'):
            obj = Polyline3D([Point3D(*p) for p in case['verts']])
            pl = plane_of(case['plane'])
            args = [[w3(p) for p in obj.vertices], wplane(pl)]
            if g == 'polyline3_plane':
                op = 'model.polyline3_intersect_plane'

                def call():
                    return [c3(p) for p in obj.intersect_plane(pl)]
            else:
                op = 'model.polyline3_split_with_plane'

                def call():
                    out = []
                    for piece in obj.split_with_plane(pl):
                        if isinstance(piece, LineSegment3D):
                            out.append(['inl', cseg3(piece)])
                        else:
                            out.append(['inr', [c3(p) for p in piece.vertices]])
                    return out
        elif g == 'seg3_split':
            obj = lr3_of(dict(case['lr'], ray=False))
            pl = plane_of(case['plane'])
            op, args = 'model.seg3_split_with_plane', [wlr(obj), wplane(pl)]

            def call():
                return [cseg3(s) for s in obj.split_with_plane(pl)]
        elif g == 'face_line_ray':
            f = face_of(case['face'])
            lr = lr3_of(case['lr'])
            op = 'model.face_intersect_line_ray'
            args = [wface(f), bool(case['lr']['ray']), wlr(lr), tv]

            def call():
                r = f.intersect_line_ray(lr)
                return None if r is None else c3(r)
        elif g == 'face_plane':
            f = face_of(case['face'])
            pl = plane_of(case['plane'])
            op, args = 'model.face_intersect_plane', [wface(f), wplane(pl)]

            def call():
                r = f.intersect_plane(pl)
                return None if r is None else [cseg3(s) for s in r]
        elif g == 'polyface_line_ray':
            pf = polyface_of(case['polyface'])
            lr = lr3_of(case['lr'])
            op = 'model.polyface_intersect_line_ray'
            args = [[wface(f) for f in pf.faces], bool(case['lr']['ray']), wlr(lr), tv]

            def call():
                return [c3(p) for p in pf.intersect_line_ray(lr)]
        elif g == 'polyface_plane':
            pf = polyface_of(case['polyface'])
            pl = plane_of(case['plane'])
            op, args = 'model.polyface_intersect_plane', [[wface(f) for f in pf.faces],
                                                          wplane(pl)]

            def call():
                return [cseg3(s) for s in pf.intersect_plane(pl)]
        else:
            raise ValueError(g)
    except AssertionError as e:      # invalid input of a constructor: not a comparison
        return None, None, {'invalid': str(e)[:80]}
    except Exception as e:           # noqa: BLE001   constructors on inputs they should accept
        return 'construct ' + g, [], {'raise': type(e).__name__, 'msg': str(e)[:120]}
    try:
        real = call()
    except Exception as e:           # noqa: BLE001
        real = {'raise': type(e).__name__, 'msg': str(e)[:120]}
    return op, args, real


def request_only(case):
    """The model request of a case whose real call raised (objects are built, call skipped)."""
    g = case['group']
    if g in ('polygon_line', 'polyline2_line'):
        base = 'model.polygon_' if g == 'polygon_line' else 'model.polyline2_'
        op = base + ('intersect_line_infinite' if case['infinite'] else 'intersect_line_ray')
        return op, [[[W(c) for c in p] for p in case['verts']], bool(case['lr']['ray']),
                    wlr(lr2_of(case['lr']))]
    if g in ('polyline3_plane', 'polyline3_split'):
        op = 'model.polyline3_intersect_plane' if g == 'polyline3_plane' \
            else 'model.polyline3_split_with_plane'
        return op, [[[W(c) for c in p] for p in case['verts']], wplane(plane_of(case['plane']))]
    if g == 'seg3_split':
        return 'model.seg3_split_with_plane', [wlr(lr3_of(dict(case['lr'], ray=False))),
                                               wplane(plane_of(case['plane']))]
    tv = [W(TV[0]), W(TV[1])]
    if g == 'face_line_ray':
        return 'model.face_intersect_line_ray', [wface(face_of(case['face'])),
                                                 bool(case['lr']['ray']),
                                                 wlr(lr3_of(case['lr'])), tv]
    if g == 'face_plane':
        return 'model.face_intersect_plane', [wface(face_of(case['face'])),
                                              wplane(plane_of(case['plane']))]
    fs = [wface(f) for f in polyface_of(case['polyface']).faces]
    if g == 'polyface_line_ray':
        return 'model.polyface_intersect_line_ray', [fs, bool(case['lr']['ray']),
                                                     wlr(lr3_of(case['lr'])), tv]
    return 'model.polyface_intersect_plane', [fs, wplane(plane_of(case['plane']))]


def canon_model(g, val):
    """Wire answer of the model -> the canonical form used for the real result."""
    def pt(j):
        return [lbg.rnum(x) for x in j]

    def seg(j):
        return [pt(j[0]), pt(j[1])]
    if g in ('polygon_line', 'polyline2_line', 'polyline3_plane', 'polyface_line_ray'):
        return [pt(j) for j in val]
    if g == 'polyline3_split':
        return [['inl', seg(j['inl'])] if 'inl' in j else ['inr', [pt(p) for p in j['inr']]]
                for j in val]
    if g in ('seg3_split', 'polyface_plane'):
        return [seg(j) for j in val]
    if g == 'face_line_ray':
        return None if val is None else pt(val)
    if g == 'face_plane':
        return None if val is None else [seg(j) for j in val]
    raise ValueError(g)


# ------------------------------------------------------------------ exact tie analysis
def near(x, thr, scale, lattice):
    """Is the exact value x within 1e-9 (relative to scale) of thr?  On the lattice stream the
    double arithmetic is exact, so x == thr exactly is decided identically by both sides."""
    d = abs(x - thr)
    if d == 0:
        return not lattice
    return d <= EPS * scale


def fsegs2(verts, closed):
    n = len(verts)
    rng = range(n) if closed else range(n - 1)
    return [(verts[i], [verts[(i + 1) % n][0] - verts[i][0], verts[(i + 1) % n][1] - verts[i][1]])
            for i in rng]


def an2(segs, lp, lv, kind, lattice, st):
    """Decisive parameters of intersect_line2d(seg, lr) for every seg; kind: 'seg' | 'ray' |
    'inf' (no ub test).  Updates st = {'tie': bool, 'cond': max 1/relative det of a crossing}."""
    for (ap, av) in segs:
        d = lv[1] * av[0] - lv[0] * av[1]
        sc = max(abs(av[0]), abs(av[1])) * max(abs(lv[0]), abs(lv[1]))
        if sc == 0:
            continue
        if near(d, 0, sc, lattice):
            st['tie'] = True
        if d == 0:
            continue
        dy, dx = ap[1] - lp[1], ap[0] - lp[0]
        ua = (lv[0] * dy - lv[1] * dx) / d
        ub = (av[0] * dy - av[1] * dx) / d
        amp = (max(abs(dx), abs(dy)) / max(abs(av[0]), abs(av[1])) + 1) * sc / abs(d)
        if near(ua, 0, amp, lattice) or near(ua, 1, amp, lattice):
            st['tie'] = True
        if kind != 'inf' and near(ub, 0, amp, lattice):
            st['tie'] = True
        if kind == 'seg' and near(ub, 1, amp, lattice):
            st['tie'] = True
        if -EPS <= ua <= 1 + EPS:
            st['cond'] = max(st['cond'], amp)


def fplane(pl):
    return {'n': c3(pl.n), 'o': c3(pl.o), 'k': F(pl.k), 'x': c3(pl.x), 'y': c3(pl.y)}


def dot(a, b):
    return sum(x * y for x, y in zip(a, b))


def an3(segs, pl, kind, lattice, st):
    """Decisive parameters of intersect_line3d_plane(seg, plane); returns the exact hit points
    (None where there is none)."""
    out = []
    for (p, v) in segs:
        d = dot(pl['n'], v)
        sc = max(abs(c) for c in pl['n']) * max(abs(c) for c in v)
        if sc == 0:
            out.append(None)
            continue
        if near(d, 0, sc, lattice):
            st['tie'] = True
        if d == 0:
            out.append(None)
            continue
        u = (pl['k'] - dot(pl['n'], p)) / d
        amp = (max(abs(c) for c in p) / max(abs(c) for c in v) + 1) * 3 * sc / abs(d)
        if near(u, 0, amp, lattice) or (kind == 'seg' and near(u, 1, amp, lattice)):
            st['tie'] = True
        if u < 0 or (kind == 'seg' and u > 1):
            out.append(None)
        else:
            st['cond'] = max(st['cond'], amp)
            out.append([a + u * b for a, b in zip(p, v)])
    return out


def fsegs3(verts):
    return [(verts[i], [b - a for a, b in zip(verts[i], verts[i + 1])])
            for i in range(len(verts) - 1)]


def xyz_to_xy(pl, q):
    r = [a - b for a, b in zip(q, pl['o'])]
    return [dot(pl['x'], r), dot(pl['y'], r)]


def exact_plane(pl):
    """Axis-aligned plane whose slots hold only 0 / 1 / -1: projections are exact in doubles."""
    return all(c in (0.0, 1.0, -1.0) for v in (pl.n, pl.x, pl.y) for c in v.to_array())


def an_face_ray(f, lr, lattice, st):
    pl = fplane(f.plane)
    lattice = lattice and exact_plane(f.plane)
    kind = 'ray' if isinstance(lr, Ray3D) else 'seg'
    hit = an3([(c3(lr.p), c3(lr.v))], pl, kind, lattice, st)[0]
    if hit is None:
        return
    q = xyz_to_xy(pl, hit)
    poly = [c2(p) for p in f.polygon2d.vertices]
    sc = max(max(abs(c) for c in p) for p in poly + [q]) * st['cond'] + 1
    for i in (0, 1):
        lo, hi = min(p[i] for p in poly), max(p[i] for p in poly)
        if near(q[i], lo, sc, lattice) or near(q[i], hi, sc, lattice):
            st['tie'] = True
    # the projected point carries the rounding of the 3D hit: its containment decisions are
    # exact only if the whole chain is (lattice stream with axis-aligned planes)
    st2 = {'tie': False, 'cond': F(1)}
    an2(fsegs2(poly, True), q, [F(TV[0]), F(TV[1])], 'ray', lattice, st2)
    if st2['tie']:
        st['tie'] = True
    if not lattice:
        # perturbation of q by the conditioning of the 3D hit moves the ray parameters
        for (ap, av) in fsegs2(poly, True):
            d = F(TV[1]) * av[0] - F(TV[0]) * av[1]
            if d == 0:
                continue
            dy, dx = ap[1] - q[1], ap[0] - q[0]
            ua = (F(TV[0]) * dy - F(TV[1]) * dx) / d
            ub = (av[0] * dy - av[1] * dx) / d
            slack = F(1, 10 ** 6)
            if abs(ua) < slack or abs(ua - 1) < slack or abs(ub) < slack * sc:
                st['tie'] = True


def an_face_plane(f, other, lattice, st):
    pa, pb = fplane(f.plane), fplane(other)
    lattice = lattice and exact_plane(f.plane) and exact_plane(other)
    n1m, n2m, n1d2 = dot(pa['n'], pa['n']), dot(pb['n'], pb['n']), dot(pa['n'], pb['n'])
    det = n1m * n2m - n1d2 ** 2
    if near(det, 0, n1m * n2m, lattice):
        st['tie'] = True
    if det <= 0:
        return
    c1 = (pa['k'] * n2m - pb['k'] * n1d2) / det
    c2_ = (pb['k'] * n1m - pa['k'] * n1d2) / det
    p = [c1 * a + c2_ * b for a, b in zip(pa['n'], pb['n'])]
    n, m = pa['n'], pb['n']
    v = [n[1] * m[2] - n[2] * m[1], -n[0] * m[2] + n[2] * m[0], n[0] * m[1] - n[1] * m[0]]
    p1 = xyz_to_xy(pa, p)
    p2 = xyz_to_xy(pa, [a + b for a, b in zip(p, v)])
    v2 = [p2[0] - p1[0], p2[1] - p1[1]]
    poly = [c2(q) for q in f.polygon2d.vertices]
    an2(fsegs2(poly, True), p1, v2, 'inf', lattice, st)
    # the code forms the 2D direction as the difference of two projected points: its relative
    # error is eps * |p2d| / |v2d|, carried along the line over the size of the polygon
    far = max([abs(c) for q in poly + [p1, p2] for c in q] + [1])
    vlen = max(abs(v2[0]), abs(v2[1]))
    st['cond'] = max(st['cond'], n1m * n2m / det, far / vlen if vlen else 1)
    # sort keys of distinct hits that nearly coincide
    keys = []
    for (ap, av) in fsegs2(poly, True):
        d = v2[1] * av[0] - v2[0] * av[1]
        if d == 0:
            continue
        ua = (v2[0] * (ap[1] - p1[1]) - v2[1] * (ap[0] - p1[0])) / d
        if 0 <= ua <= 1:
            h = [ap[0] + ua * av[0], ap[1] + ua * av[1]]
            keys.append((h[0] * v2[0] + h[1] * v2[1], h))
    sc = max([abs(k) for k, _ in keys] + [1])
    for i in range(len(keys)):
        for j in range(i):
            if keys[i][1] != keys[j][1] and abs(keys[i][0] - keys[j][0]) <= EPS * sc:
                st['tie'] = True


def analyse(case):
    """-> {'tie': bool, 'cond': Fraction}: is some decisive exact parameter at a threshold, and
    how ill-conditioned are the crossings that are reported."""
    g = case['group']
    lattice = case['stream'] == 'lattice'
    st = {'tie': False, 'cond': F(1)}
    if g in ('polygon_line', 'polyline2_line'):
        verts = [[F(c) for c in p] for p in case['verts']]
        lr = case['lr']
        kind = 'inf' if case['infinite'] else ('ray' if lr['ray'] else 'seg')
        an2(fsegs2(verts, g == 'polygon_line'), [F(c) for c in lr['p']], [F(c) for c in lr['v']],
            kind, lattice, st)
    elif g in ('polyline3_plane', 'polyline3_split'):
        verts = [[F(c) for c in p] for p in case['verts']]
        pl = plane_of(case['plane'])
        an3(fsegs3(verts), fplane(pl), 'seg', lattice and exact_plane(pl), st)
    elif g == 'seg3_split':
        lr = case['lr']
        pl = plane_of(case['plane'])
        an3([([F(c) for c in lr['p']], [F(c) for c in lr['v']])],
            fplane(pl), 'seg', lattice and exact_plane(pl), st)
    elif g == 'face_line_ray':
        an_face_ray(face_of(case['face']), lr3_of(case['lr']), lattice, st)
    elif g == 'face_plane':
        an_face_plane(face_of(case['face']), plane_of(case['plane']), lattice, st)
    elif g == 'polyface_line_ray':
        lr = lr3_of(case['lr'])
        for f in polyface_of(case['polyface']).faces:
            an_face_ray(f, lr, lattice, st)
    elif g == 'polyface_plane':
        pl = plane_of(case['plane'])
        for f in polyface_of(case['polyface']).faces:
            an_face_plane(f, pl, lattice, st)
    return st


# ------------------------------------------------------------------ comparison
def shape(c):
    """Discrete skeleton of a canonical result."""
    if c is None or isinstance(c, (str, bool)):
        return c
    if isinstance(c, Fraction):
        return 'x'
    return [shape(x) for x in c]


def what_differs(g, m, r):
    if (m is None) != (r is None):
        return 'None vs result'
    if g == 'polyline3_split':
        if len(m) != len(r):
            return 'number of pieces'
        return 'kinds / sizes of pieces'
    if isinstance(m, list) and isinstance(r, list) and len(m) != len(r):
        return 'number of results'
    return 'structure'


def compare(case, val, real):
    """-> ('ok' | 'tie' | 'diff', info)."""
    g = case['group']
    if isinstance(real, dict) and 'raise' in real:
        return 'diff', {'signature': '%s|raises %s' % (case['op'], real['raise']),
                        'what': 'real code raised %s: %s' % (real['raise'], real.get('msg', '')),
                        'model': json.dumps(val)[:300], 'real': real['raise']}
    m = canon_model(g, val)
    sm, sr = shape(m), shape(real)
    if sm != sr:
        st = analyse(case)
        if st['tie']:
            return 'tie', None
        wd = what_differs(g, m, real)
        return 'diff', {'signature': '%s|%s' % (case['op'], wd),
                        'what': '%s: model %s, real %s' % (wd, json.dumps(sm)[:120],
                                                           json.dumps(sr)[:120]),
                        'model': show(m), 'real': show(real)}
    fm, fr_ = lbg.flat_numbers(m), lbg.flat_numbers(real)
    if not fm:
        return 'ok', None
    scale = max([abs(x) for x in fm] + [1])
    diff = max(abs(x - y) for x, y in zip(fm, fr_))
    if diff <= F(1, 10 ** 12) * scale:
        return 'ok', None
    st = analyse(case)
    if st['tie']:
        return 'tie', None
    if diff <= F(1, 10 ** 13) * scale * st['cond']:
        return 'ok', 'conditioned'
    return 'diff', {'signature': '%s|coordinates' % case['op'],
                    'what': 'coordinates differ by %.3g (scale %.3g, conditioning %.3g)' % (
                        float(diff), float(scale), float(st['cond'])),
                    'model': show(m), 'real': show(real)}


def show(c):
    def f(x):
        if isinstance(x, Fraction):
            return float(x)
        if isinstance(x, list):
            return [f(y) for y in x]
        return x
    return json.dumps(f(c))[:400]


def nontrivial(case, real):
    g = case['group']
    if real is None or isinstance(real, dict):
        return False
    if g in ('polyline3_split', 'seg3_split'):
        return len(real) >= 2
    return len(real) >= 1


# ------------------------------------------------------------------ generators
def lat(r, lo=-8, hi=8, den=4):
    return r.randint(lo * den, hi * den) / den


def rl(r, mag=1e3):
    return r.uniform(-mag, mag)


def coord(r, stream):
    return lat(r) if stream == 'lattice' else rl(r)


def gen_verts2(r, stream, closed):
    n = r.randint(3, 7)
    style = r.random()
    if style < 0.35:        # star-shaped loop around the origin: mostly simple
        out = []
        for i in range(n):
            a = 2 * math.pi * (i + r.uniform(0.1, 0.9)) / n
            rad = r.uniform(2, 8) if stream == 'lattice' else r.uniform(50, 900)
            x, y = rad * math.cos(a), rad * math.sin(a)
            out.append([round(x * 4) / 4, round(y * 4) / 4] if stream == 'lattice' else [x, y])
        if len(set(map(tuple, out))) == n:
            return out
    if style < 0.55 and stream == 'lattice':   # rectilinear staircase: many collinear / parallel
        xs = sorted(r.sample(range(-8, 9), 3))
        ys = sorted(r.sample(range(-8, 9), 3))
        return [[float(xs[0]), float(ys[0])], [float(xs[2]), float(ys[0])],
                [float(xs[2]), float(ys[1])], [float(xs[1]), float(ys[1])],
                [float(xs[1]), float(ys[2])], [float(xs[0]), float(ys[2])]]
    out = []
    while len(out) < n:
        p = [coord(r, stream), coord(r, stream)]
        if p not in out:
            out.append(p)
    return out


def pick_point2(r, verts, stream, closed):
    """A point that a line should pass through: a vertex, an edge point, or anywhere."""
    k = r.random()
    n = len(verts)
    if k < 0.3:
        return list(r.choice(verts)), 'vertex'
    if k < 0.7:
        i = r.randrange(n if closed else n - 1)
        a, b = verts[i], verts[(i + 1) % n]
        t = r.choice([0.25, 0.5, 0.75]) if stream == 'lattice' else r.uniform(0.05, 0.95)
        return [a[0] + t * (b[0] - a[0]), a[1] + t * (b[1] - a[1])], 'edge'
    return [coord(r, stream), coord(r, stream)], 'free'


def gen_lr2(r, verts, stream, closed):
    a, ka = pick_point2(r, verts, stream, closed)
    k = r.random()
    n = len(verts)
    if k < 0.2:             # parallel to (possibly collinear with) an edge
        i = r.randrange(n if closed else n - 1)
        p, q = verts[i], verts[(i + 1) % n]
        s = r.choice([1.0, -1.0, 0.5, 2.0])
        v = [s * (q[0] - p[0]), s * (q[1] - p[1])]
        kb = 'parallel'
    else:
        b, kb = pick_point2(r, verts, stream, closed)
        v = [b[0] - a[0], b[1] - a[1]]
    if v == [0.0, 0.0]:
        v = [1.0, 0.0]
    m = r.random()
    if m < 0.3:             # start before the first point so that it is not at parameter 0
        s = r.choice([1.0, 2.0, 0.5])
        a = [a[0] - s * v[0], a[1] - s * v[1]]
        v = [v[0] * (1 + s), v[1] * (1 + s)] if r.random() < 0.5 else v
    return {'p': a, 'v': v, 'ray': r.random() < 0.5}, ka + '-' + kb


def gen_2d(r, stream, g):
    closed = g == 'polygon_line'
    verts = gen_verts2(r, stream, closed)
    lr, kind = gen_lr2(r, verts, stream, closed)
    return {'group': g, 'stream': stream, 'verts': verts, 'lr': lr,
            'infinite': r.random() < 0.35, 'kind': kind}


def gen_verts3(r, stream):
    n = r.randint(3, 7)
    out = []
    while len(out) < n:
        p = [coord(r, stream), coord(r, stream), coord(r, stream)]
        if not out or p != out[-1]:
            out.append(p)
    if stream == 'lattice' and r.random() < 0.4:    # axis-parallel runs: segments in / parallel
        for i in range(1, n):                       # to axis-aligned planes
            ax = r.randrange(3)
            q = list(out[i - 1])
            q[ax] = lat(r)
            if q == out[i - 1]:
                q[ax] += 1.0
            out[i] = q
    return out


AXES = ([1.0, 0.0, 0.0], [0.0, 1.0, 0.0], [0.0, 0.0, 1.0])


def gen_plane(r, stream, through):
    """through: list of 3D points the plane may be made to pass through."""
    k = r.random()
    if k < 0.6 and through:
        o = list(r.choice(through))
        kind = 'through'
    else:
        o = [coord(r, stream), coord(r, stream), coord(r, stream)]
        kind = 'free'
    if stream == 'lattice':
        n = list(r.choice(AXES))
        if r.random() < 0.5:
            n = [-c for c in n]
        return {'n': n, 'o': o, 'x': None}, kind + '-axis'
    n = [r.uniform(-1, 1), r.uniform(-1, 1), r.uniform(-1, 1)]
    if r.random() < 0.3:
        n = [float(r.randint(-3, 3)), float(r.randint(-3, 3)), float(r.randint(1, 3))]
    return {'n': n, 'o': o, 'x': None}, kind + '-oblique'


def through_points3(r, verts, stream):
    pts = [list(p) for p in verts]
    for i in range(len(verts) - 1):
        a, b = verts[i], verts[i + 1]
        t = r.choice([0.25, 0.5, 0.75]) if stream == 'lattice' else r.uniform(0.05, 0.95)
        pts.append([x + t * (y - x) for x, y in zip(a, b)])
    return pts


def gen_polyline3(r, stream, g):
    verts = gen_verts3(r, stream)
    plane, kind = gen_plane(r, stream, through_points3(r, verts, stream))
    return {'group': g, 'stream': stream, 'verts': verts, 'plane': plane, 'kind': kind}


def gen_seg3(r, stream):
    a = [coord(r, stream) for _ in range(3)]
    b = [coord(r, stream) for _ in range(3)]
    if a == b:
        b[0] += 1.0
    if stream == 'lattice' and r.random() < 0.3:
        ax = r.randrange(3)
        b = list(a)
        b[ax] += r.choice([1.0, -2.0, 0.5])
    t = r.choice([0.0, 0.25, 0.5, 1.0]) if stream == 'lattice' else r.uniform(0, 1)
    mid = [x + t * (y - x) for x, y in zip(a, b)]
    plane, kind = gen_plane(r, stream, [a, b, mid])
    return {'group': 'seg3_split', 'stream': stream,
            'lr': {'p': a, 'v': [y - x for x, y in zip(a, b)], 'ray': False},
            'plane': plane, 'kind': kind}


def gen_face_desc(r, stream, holes_ok=True):
    """A planar face: a 2D loop placed in a plane (lattice: an axis-aligned coordinate plane, so
    that the plane axes are exact)."""
    v2 = gen_verts2(r, stream, True)
    holes2 = None
    if holes_ok and r.random() < 0.25:
        xs = [p[0] for p in v2]
        ys = [p[1] for p in v2]
        big = 20.0 if stream == 'lattice' else 3000.0
        v2 = [[-big, -big], [big, -big], [big, big], [-big, big]]   # frame around a hole
        cx, cy = (min(xs) + max(xs)) / 2, (min(ys) + max(ys)) / 2
        h = 1.0 if stream == 'lattice' else 10.0
        holes2 = [[[cx - h, cy - h], [cx - h, cy + h], [cx + h, cy + h], [cx + h, cy - h]]]
    if stream == 'lattice':
        ax = r.randrange(3)
        off = lat(r)

        def lift(p):
            q = [p[0], p[1]]
            q.insert(ax, off)
            return q
        n = list(AXES[ax])
        if r.random() < 0.5:
            n = [-c for c in n]
        o = lift([0.0, 0.0])
        plane = {'n': n, 'o': o, 'x': None}
        verts = [lift(p) for p in v2]
        holes = [[lift(p) for p in h] for h in holes2] if holes2 else None
    else:
        pd, _ = gen_plane(r, 'real', [])
        pl = plane_of(pd)
        verts = [list(pl.xy_to_xyz(Point2D(*p)).to_array()) for p in v2]
        holes = [[list(pl.xy_to_xyz(Point2D(*p)).to_array()) for p in h] for h in holes2] \
            if holes2 else None
        plane = pd
    use_plane = r.random() < 0.7
    return {'verts': verts, 'holes': holes, 'plane': plane if use_plane else None}


def face_targets(r, fd, stream):
    """Points in / on / around the face that a line may be aimed at."""
    vs = fd['verts']
    n = len(vs)
    out = [(list(r.choice(vs)), 'vertex')]
    i = r.randrange(n)
    a, b = vs[i], vs[(i + 1) % n]
    t = 0.5 if stream == 'lattice' else r.uniform(0.1, 0.9)
    out.append(([x + t * (y - x) for x, y in zip(a, b)], 'edge'))
    c = [sum(p[k] for p in vs) / n for k in range(3)]
    if stream == 'lattice':
        c = [round(x * 4) / 4 for x in c]
        for k in range(3):          # keep it in the (axis-aligned) face plane
            if all(p[k] == vs[0][k] for p in vs):
                c[k] = vs[0][k]
    out.append((c, 'centre'))
    w = [r.uniform(0, 1) for _ in range(n)]
    s = sum(w)
    q = [sum(wi * p[k] for wi, p in zip(w, vs)) / s for k in range(3)]
    if stream == 'lattice':
        q = [round(x * 4) / 4 for x in q]
        for k in range(3):
            if all(p[k] == vs[0][k] for p in vs):
                q[k] = vs[0][k]
    out.append((q, 'hull'))
    out.append(([coord(r, stream) for _ in range(3)], 'free'))
    return out


def gen_lr3_at(r, target, stream):
    o = [coord(r, stream) for _ in range(3)]
    if o == target:
        o[0] += 1.0
    v = [y - x for x, y in zip(o, target)]
    k = r.random()
    if k < 0.3:
        s = 1.0             # a segment ends exactly at the target
    elif k < 0.8:
        s = 2.0
    else:
        s = 0.5             # a segment falls short; a ray still reaches
    if r.random() < 0.15:
        v = [-c for c in v]
    return {'p': o, 'v': [s * c for c in v], 'ray': r.random() < 0.5}


def gen_face_ray(r, stream):
    fd = gen_face_desc(r, stream)
    t, kind = r.choice(face_targets(r, fd, stream))
    return {'group': 'face_line_ray', 'stream': stream, 'face': fd,
            'lr': gen_lr3_at(r, t, stream), 'kind': kind}


def gen_face_plane(r, stream):
    fd = gen_face_desc(r, stream)
    ts = face_targets(r, fd, stream)
    plane, kind = gen_plane(r, stream, [t for t, _ in ts])
    return {'group': 'face_plane', 'stream': stream, 'face': fd, 'plane': plane, 'kind': kind}


def gen_polyface_desc(r, stream):
    k = r.random()
    if k < 0.35:
        if stream == 'lattice':
            base = {'n': [0.0, 0.0, 1.0], 'o': [lat(r), lat(r), lat(r)], 'x': None}
            dims = [float(r.randint(1, 6)) for _ in range(3)]
        else:
            base, _ = gen_plane(r, 'real', [])
            dims = [r.uniform(1, 500) for _ in range(3)]
        return {'kind': 'box', 'w': dims[0], 'd': dims[1], 'h': dims[2], 'plane': base}
    if k < 0.75:
        fd = gen_face_desc(r, stream)
        fd['plane'] = None if stream == 'real' else fd['plane']
        off = float(r.randint(1, 4)) if stream == 'lattice' else r.uniform(1, 300)
        return {'kind': 'prism', 'face': fd, 'offset': off}
    faces = [gen_face_desc(r, stream, holes_ok=False) for _ in range(r.randint(1, 3))]
    return {'kind': 'faces', 'faces': faces}


def polyface_targets(r, pd, stream):
    pf = polyface_of(pd)
    out = []
    for f in pf.faces:
        fd = {'verts': [list(p.to_array()) for p in f.boundary]}
        out.extend(face_targets(r, fd, stream)[:4])
    out.append(([coord(r, stream) for _ in range(3)], 'free'))
    return out


def gen_polyface_ray(r, stream):
    pd = gen_polyface_desc(r, stream)
    t, kind = r.choice(polyface_targets(r, pd, stream))
    return {'group': 'polyface_line_ray', 'stream': stream, 'polyface': pd,
            'lr': gen_lr3_at(r, t, stream), 'kind': pd['kind'] + '-' + kind}


def gen_polyface_plane(r, stream):
    pd = gen_polyface_desc(r, stream)
    ts = polyface_targets(r, pd, stream)
    plane, kind = gen_plane(r, stream, [t for t, _ in ts])
    return {'group': 'polyface_plane', 'stream': stream, 'polyface': pd, 'plane': plane,
            'kind': pd['kind'] + '-' + kind}


GEN = {
    'polygon_line': lambda r, s: gen_2d(r, s, 'polygon_line'),
    'polyline2_line': lambda r, s: gen_2d(r, s, 'polyline2_line'),
    'polyline3_plane': lambda r, s: gen_polyline3(r, s, 'polyline3_plane'),
    'polyline3_split': lambda r, s: gen_polyline3(r, s, 'polyline3_split'),
    'seg3_split': gen_seg3,
    'face_line_ray': gen_face_ray,
    'face_plane': gen_face_plane,
    'polyface_line_ray': gen_polyface_ray,
    'polyface_plane': gen_polyface_plane,
}

SQ = [[0.0, 0.0], [4.0, 0.0], [4.0, 4.0], [0.0, 4.0]]
SQ3 = [[0.0, 0.0, 0.0], [4.0, 0.0, 0.0], [4.0, 4.0, 0.0], [0.0, 4.0, 0.0]]
TRI3 = [[0.0, 0.0, 0.0], [4.0, 0.0, 0.0], [2.0, 4.0, 0.0]]
XY = {'n': [0.0, 0.0, 1.0], 'o': [0.0, 0.0, 0.0], 'x': None}
ZIG = [[0.0, 0.0, 0.0], [2.0, 0.0, 0.0], [2.0, 2.0, 0.0], [4.0, 2.0, 0.0], [4.0, 2.0, 3.0]]


def px(c, s=1.0):
    return {'n': [s, 0.0, 0.0], 'o': [c, 0.0, 0.0], 'x': None}


def corpus(g):
    """Hand-picked cases: crossing, miss, parallel, collinear, hit at a shared vertex, range ends."""
    L = 'lattice'
    out = []
    if g in ('polygon_line', 'polyline2_line'):
        lrs = [{'p': [-1.0, 2.0], 'v': [6.0, 0.0]},      # through two edges
               {'p': [-1.0, 2.0], 'v': [3.0, 0.0]},      # ends inside
               {'p': [0.0, 0.0], 'v': [4.0, 4.0]},       # diagonal through two vertices
               {'p': [-2.0, -2.0], 'v': [1.0, 1.0]},     # aims at a vertex, segment too short
               {'p': [0.0, 0.0], 'v': [4.0, 0.0]},       # collinear with an edge
               {'p': [-1.0, 5.0], 'v': [6.0, 0.0]},      # parallel miss
               {'p': [2.0, 2.0], 'v': [0.0, -1.0]},      # from inside
               {'p': [4.0, 2.0], 'v': [1.0, 0.0]},       # starts on an edge, leaves
               {'p': [6.0, 2.0], 'v': [1.0, 0.0]}]       # points away
        for lr in lrs:
            for ray in (False, True):
                for inf in (False, True):
                    out.append({'group': g, 'stream': L, 'verts': SQ,
                                'lr': dict(lr, ray=ray), 'infinite': inf, 'kind': 'corpus'})
    elif g in ('polyline3_plane', 'polyline3_split'):
        for pl in (px(1.0), px(2.0), px(2.0, -1.0), px(4.0), px(0.0), px(5.0), px(3.0),
                   {'n': [0.0, 0.0, 1.0], 'o': [0.0, 0.0, 0.0], 'x': None},
                   {'n': [0.0, 1.0, 0.0], 'o': [0.0, 1.0, 0.0], 'x': None},
                   {'n': [0.0, 0.0, 1.0], 'o': [0.0, 0.0, 3.0], 'x': None}):
            out.append({'group': g, 'stream': L, 'verts': ZIG, 'plane': pl, 'kind': 'corpus'})
        out.append({'group': g, 'stream': L, 'verts': ZIG[:3], 'plane': px(1.0), 'kind': 'corpus'})
    elif g == 'seg3_split':
        for c in (1.0, 0.0, 4.0, 5.0, -1.0):
            out.append({'group': g, 'stream': L, 'plane': px(c), 'kind': 'corpus',
                        'lr': {'p': [0.0, 1.0, 2.0], 'v': [4.0, 2.0, -2.0], 'ray': False}})
        out.append({'group': g, 'stream': L, 'plane': px(1.0), 'kind': 'corpus',
                    'lr': {'p': [0.0, 1.0, 2.0], 'v': [0.0, 2.0, -2.0], 'ray': False}})
    elif g == 'face_line_ray':
        faces = [{'verts': SQ3, 'holes': None, 'plane': XY},
                 {'verts': SQ3, 'holes': None, 'plane': None},
                 {'verts': TRI3, 'holes': None, 'plane': XY},
                 {'verts': [[-8.0, -8.0, 0.0], [8.0, -8.0, 0.0], [8.0, 8.0, 0.0], [-8.0, 8.0, 0.0]],
                  'holes': [[[1.0, 1.0, 0.0], [1.0, 3.0, 0.0], [3.0, 3.0, 0.0], [3.0, 1.0, 0.0]]],
                  'plane': XY}]
        lrs = [{'p': [2.0, 2.0, 5.0], 'v': [0.0, 0.0, -10.0]},    # through the middle / the hole
               {'p': [2.0, 2.0, 5.0], 'v': [0.0, 0.0, -5.0]},     # ends on the plane
               {'p': [2.0, 2.0, 5.0], 'v': [0.0, 0.0, -2.0]},     # too short
               {'p': [2.0, 2.0, 5.0], 'v': [0.0, 0.0, 1.0]},      # away
               {'p': [4.0, 4.0, 5.0], 'v': [0.0, 0.0, -10.0]},    # at a vertex
               {'p': [4.0, 2.0, 5.0], 'v': [0.0, 0.0, -10.0]},    # on an edge
               {'p': [6.0, 2.0, 5.0], 'v': [0.0, 0.0, -10.0]},    # beside
               {'p': [0.0, 0.0, 1.0], 'v': [1.0, 1.0, 0.0]},      # parallel to the plane
               {'p': [0.0, 2.0, 5.0], 'v': [0.0, 0.0, -10.0]}]    # on the left edge
        for fd in faces:
            for lr in lrs:
                for ray in (False, True):
                    out.append({'group': g, 'stream': L, 'face': fd, 'lr': dict(lr, ray=ray),
                                'kind': 'corpus'})
    elif g == 'face_plane':
        faces = [{'verts': SQ3, 'holes': None, 'plane': XY},
                 {'verts': TRI3, 'holes': None, 'plane': XY},
                 {'verts': [[0.0, 0.0, 0.0], [6.0, 0.0, 0.0], [6.0, 4.0, 0.0], [4.0, 4.0, 0.0],
                            [4.0, 2.0, 0.0], [2.0, 2.0, 0.0], [2.0, 4.0, 0.0], [0.0, 4.0, 0.0]],
                  'holes': None, 'plane': XY}]     # U shape: 4 hits along y = 3
        planes = [px(2.0), px(2.0, -1.0), px(0.0), px(4.0), px(5.0), px(1.0),
                  {'n': [0.0, 1.0, 0.0], 'o': [0.0, 3.0, 0.0], 'x': None},
                  {'n': [0.0, -1.0, 0.0], 'o': [0.0, 3.0, 0.0], 'x': None},
                  {'n': [0.0, 1.0, 0.0], 'o': [0.0, 2.0, 0.0], 'x': None},
                  {'n': [1.0, -1.0, 0.0], 'o': [0.0, 0.0, 0.0], 'x': None},
                  {'n': [-1.0, 1.0, 0.0], 'o': [0.0, 0.0, 0.0], 'x': None},
                  {'n': [0.0, 0.0, 1.0], 'o': [0.0, 0.0, 1.0], 'x': None},     # parallel
                  {'n': [0.0, 0.0, 1.0], 'o': [0.0, 0.0, 0.0], 'x': None}]     # coplanar
        for fd in faces:
            for pl in planes:
                out.append({'group': g, 'stream': 'real' if abs(pl['n'][0]) == abs(pl['n'][1])
                            else L, 'face': fd, 'plane': pl, 'kind': 'corpus'})
    elif g in ('polyface_line_ray', 'polyface_plane'):
        box = {'kind': 'box', 'w': 4.0, 'd': 4.0, 'h': 2.0, 'plane': XY}
        prism = {'kind': 'prism', 'offset': 2.0,
                 'face': {'verts': [[-8.0, -8.0, 0.0], [8.0, -8.0, 0.0], [8.0, 8.0, 0.0],
                                    [-8.0, 8.0, 0.0]],
                          'holes': [[[1.0, 1.0, 0.0], [1.0, 3.0, 0.0], [3.0, 3.0, 0.0],
                                     [3.0, 1.0, 0.0]]], 'plane': XY}}
        for pd in (box, prism):
            if g == 'polyface_line_ray':
                for lr in ({'p': [2.0, 1.0, 5.0], 'v': [0.0, 0.0, -10.0]},
                           {'p': [2.0, 2.0, 5.0], 'v': [0.0, 0.0, -10.0]},
                           {'p': [-9.0, 1.0, 1.0], 'v': [20.0, 0.0, 0.0]},
                           {'p': [4.0, 4.0, 5.0], 'v': [0.0, 0.0, -10.0]},
                           {'p': [2.0, 1.0, 5.0], 'v': [0.0, 0.0, -4.0]},
                           {'p': [20.0, 1.0, 5.0], 'v': [0.0, 0.0, -10.0]}):
                    for ray in (False, True):
                        out.append({'group': g, 'stream': L, 'polyface': pd,
                                    'lr': dict(lr, ray=ray), 'kind': 'corpus'})
            else:
                for pl in (px(2.0), px(0.0), px(9.0), px(1.0, -1.0),
                           {'n': [0.0, 0.0, 1.0], 'o': [0.0, 0.0, 1.0], 'x': None},
                           {'n': [0.0, 0.0, 1.0], 'o': [0.0, 0.0, 2.0], 'x': None}):
                    out.append({'group': g, 'stream': L, 'polyface': pd, 'plane': pl,
                                'kind': 'corpus'})
    return out


# ------------------------------------------------------------------ run / shrink / replay
def budget(ctx):
    thorough = ctx.tier == 'thorough' or bool(getattr(ctx, 'broken', None))
    return (1500, 240.0) if thorough else (150, 14.0)


def run_cases(ctx, cases, out, hist):
    """Evaluate the real side, batch the model side, compare.  Returns disagreement list."""
    todo = []
    early = []
    for c in cases:
        op, args, real = evaluate(c)
        if op is None:
            bump(hist, 'invalid input (%s)' % c['group'])
            continue
        c['op'] = op
        if op.startswith('construct '):
            out['requests'] += 1
            early.append((c, {'signature': '%s|raises %s' % (op, real['raise']),
                              'what': 'real constructor raised %s: %s' % (real['raise'],
                                                                          real.get('msg', '')),
                              'model': None, 'real': real['raise']}))
            continue
        todo.append((c, op, args, real))
    answers = ctx.driver.run([(op, args) for (_, op, args, _) in todo]) if todo else []
    found = list(early)
    for (c, op, args, real), (ok, val) in zip(todo, answers):
        out['requests'] += 1
        g = c['group']
        bump(hist, 'group ' + g)
        bump(hist, 'stream %s' % c['stream'])
        bump(hist, '%s kind %s' % (g, c.get('kind')))
        if not ok:
            found.append((c, {'signature': '%s|model error' % op, 'what': 'driver: %s' % val,
                              'model': val, 'real': show(real) if not isinstance(real, dict)
                              else real}))
            continue
        status, info = compare(c, val, real)
        if status == 'tie':
            out['float_ties'] += 1
            bump(hist, 'float tie %s (%s stream)' % (g, c['stream']))
            continue
        if status == 'ok':
            if info == 'conditioned':
                bump(hist, 'ok within conditioned tolerance')
            if nontrivial(c, real):
                out['nontrivial'] += 1
            if g == 'face_line_ray':
                bump(hist, '%s result %s' % (g, 'none' if real is None else 'point'))
            elif real is None:
                bump(hist, '%s result none' % g)
            else:
                bump(hist, '%s results %s' % (g, min(len(real), 5)))
            if len(out['samples']) < 3 and nontrivial(c, real) and c.get('kind') != 'corpus' \
                    and not any(s['op'] == op for s in out['samples']):
                out['samples'].append({'op': op, 'args': args, 'model': val})
            continue
        found.append((c, info))
    return found


def smaller(case):
    """Candidate simplifications of a case (one vertex / face less)."""
    out = []
    if 'verts' in case:
        lo = 3 if case['group'] in ('polygon_line', 'polyline3_plane', 'polyline3_split') else 2
        if len(case['verts']) > lo:
            for i in range(len(case['verts'])):
                c = json.loads(json.dumps(case))
                del c['verts'][i]
                out.append(c)
    if 'face' in case and len(case['face']['verts']) > 3 and not case['face'].get('holes'):
        for i in range(len(case['face']['verts'])):
            c = json.loads(json.dumps(case))
            del c['face']['verts'][i]
            out.append(c)
    if 'polyface' in case and case['polyface']['kind'] == 'faces' and \
            len(case['polyface']['faces']) > 1:
        for i in range(len(case['polyface']['faces'])):
            c = json.loads(json.dumps(case))
            del c['polyface']['faces'][i]
            out.append(c)
    return out


def shrink(ctx, case, info, deadline):
    for _ in range(5):
        cands = smaller(case)
        if not cands or time.time() > deadline:
            break
        scratch = {'requests': 0, 'nontrivial': 0, 'float_ties': 0, 'samples': [{}] * 3}
        try:
            found = run_cases(ctx, cands, scratch, {})
        except Exception:            # noqa: BLE001
            break
        same = [(c, i) for c, i in found if i['signature'] == info['signature']]
        if not same:
            break
        case, info = same[0]
    return case, info


def record(case, info, seed):
    d = dict(info)
    c = dict(case)
    d.update({'op': c.get('op'), 'args': None, 'case': c, 'seed': seed})
    try:
        d['args'] = request_only(c)[1]
    except Exception:                # noqa: BLE001
        pass
    return d


def run(ctx, prop):
    t0 = time.time()
    groups = GROUPS.get(prop, [])
    per_group, wall = budget(ctx)
    stop = min(ctx.deadline, t0 + wall)
    out = {'requests': 0, 'nontrivial': 0, 'float_ties': 0, 'disagreements': [], 'samples': [],
           'histograms': {}, 'groups': groups,
           'rule': 'a comparison is non-trivial when the real routine returns at least one '
                   'intersection (C11 groups) / at least two pieces (C17 groups)'}
    hist = out['histograms']
    found = []
    cases = []
    for g in groups:
        cases.extend(json.loads(json.dumps(corpus(g))))
    found.extend(run_cases(ctx, cases, out, hist))
    rngs = dict((g, random.Random('%s/isectcomposite/%s' % (ctx.seed, g))) for g in groups)
    done = 0
    chunk = 150
    while done < per_group and time.time() < stop and groups:
        cases = []
        for g in groups:
            r = rngs[g]
            for i in range(min(chunk, per_group - done)):
                stream = 'lattice' if r.random() < 0.6 else 'real'
                try:
                    cases.append(GEN[g](r, stream))
                except AssertionError:
                    bump(hist, 'generator rejected (%s)' % g)
                except Exception as e:       # noqa: BLE001  (real constructors used by generators)
                    found.append(({'group': g, 'stream': stream, 'op': 'generator ' + g},
                                  {'signature': 'generator %s|raises %s' % (g, type(e).__name__),
                                   'what': 'a real constructor raised %s: %s' % (
                                       type(e).__name__, str(e)[:100]),
                                   'model': None, 'real': type(e).__name__}))
        found.extend(run_cases(ctx, cases, out, hist))
        done += chunk
    seen = {}
    for c, info in found:
        if info['signature'] in seen:
            continue
        if time.time() < stop + 20 and 'group' in c and c['group'] in GEN and 'raises' not in \
                info['signature'].split('|')[0]:
            try:
                c, info = shrink(ctx, c, info, stop + 20)
            except Exception:        # noqa: BLE001
                pass
        seen[info['signature']] = record(c, info, ctx.seed)
    out['disagreements'] = list(seen.values())
    out['seconds'] = round(time.time() - t0, 1)
    return out


def replay(ctx, disagreement):
    case = disagreement.get('case')
    if not case or case.get('group') not in GEN:
        return None
    scratch = {'requests': 0, 'nontrivial': 0, 'float_ties': 0, 'samples': [{}] * 3}
    found = run_cases(ctx, [json.loads(json.dumps(case))], scratch, {})
    if not found:
        return None
    c, info = found[0]
    return record(c, info, disagreement.get('seed'))


if __name__ == '__main__':
    class Ctx(object):
        pass
    ctx = Ctx()
    ctx.seed = int(sys.argv[1]) if len(sys.argv) > 1 else int(os.environ.get('VERIF_SEED', '0'))
    ctx.tier = sys.argv[2] if len(sys.argv) > 2 else os.environ.get('VERIF_TIER', 'quick')
    props = sys.argv[3:] or PROPS
    ctx.broken = []
    ctx.driver = lbg.Driver()
    ctx.deadline = time.time() + 3600
    rc = 0
    for prop in props:
        t = time.time()
        res = run(ctx, prop)
        print('%s %s seed %s %s: %d requests, %d non-trivial, %d float ties, %d disagreements, '
              '%.1f s' % (os.path.basename(__file__), prop, ctx.seed, ctx.tier, res['requests'],
                          res['nontrivial'], res['float_ties'], len(res['disagreements']),
                          time.time() - t))
        if os.environ.get('VERIF_VERBOSE'):
            for k, v in sorted(res['histograms'].items()):
                print('   %-60s %d' % (k, v))
        for d in res['disagreements']:
            rc = 1
            print('  DISAGREEMENT', d['signature'], '::', d['what'][:300])
            print('     case', json.dumps(d.get('case'))[:600])
            print('     model', str(d.get('model'))[:300])
            print('     real ', str(d.get('real'))[:300])
    sys.exit(rc)
