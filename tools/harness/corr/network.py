"""Correspondence of the hand model `Model/Network.lean` (C09, graph-based splitting) with the
real library: `ladybug_geometry/network.py` (`coordinates_hash`, `Node`,
`DirectedGraphNetwork`) and `Face3D.split_with_line / split_with_lines / split_with_polyline`.

Request groups (all C09)
  key      model.coord_key / model.key_grid      vs coordinates_hash(pt, t) for several tolerances
  ops      model.graph_ops                       vs add_node / insert_node / remove_adj /
                                                    from_point_array on a DirectedGraphNetwork
  isect    model.graph_intersect_segments              vs DirectedGraphNetwork._intersect_segments
  merge    model.merge_faces                     vs Face3D.merge_faces_to_holes (XY lattice loops)
  shape    model.graph_from_shape                vs DirectedGraphNetwork.from_shape_with_holes
  cut      model.graph_cut                       vs DirectedGraphNetwork.from_shape_to_split
  cycles   model.min_cycles                      vs dg.all_min_cycles()
  split    model.split_with_line(s)/polyline     vs the Face3D methods: returned faces (boundary +
                                                    holes) and the pieces handed to
                                                    merge_faces_to_holes (captured by wrapping it)
           and, in the world XY plane, the same request with the kernel-computable `latticeOps`
           (the `math` used by the `decide +kernel` witnesses of Props/C09b.lean).

Inputs: lattice rectilinear faces (optionally with rectangular holes) from the generators of the
C09 property harness (props/c09.py, props/cellbool_common.py), full cuts, partial (dangling)
cuts, cuts along edges and through vertices, cuts through holes, several cuts, polyline cuts, in
the world XY plane (scales 1, 2, 3, 10, 1/2 and dyadic origins: the plane coordinates are exact
doubles) and in rotated exactly-orthonormal rational frames.  The model is given the plane
coordinates the real face computed (`boundary_polygon2d`, `hole_polygon2d`, `plane.xyz_to_xy` of
the cut ends) as exact rationals.  Graph dumps are compared node by node in insertion order: key
(canonicalised to the integer multiples of the rounding unit), adjacency keys in order, exterior
flag exactly, node point to 1e-9; cycles exactly by keys; faces / pieces: structure exactly,
coordinates to 1e-9 (how many comparisons are bit-exact is counted in the histogram `exact`).

Float ties (decided on the REAL evaluation by wrapping `coordinates_hash`,
`intersect_line_segment2d` and `Vector2D.angle_clockwise`): a hashed coordinate within 1e-9 of a
rounding boundary of the key grid, an intersection of nearly parallel segments or with its
parameter on the other segment within 1e-9 of an end, two candidate directions of the
counter-clockwise walk within 1e-9 of each other (mod 2π).  A case with such a tie that differs
is counted in `float_ties`, never reported.

The model requests mean the code as it is now (with the repairs 0a32af8 / 2c5e096: middle-point
filter of the cut pieces, dangling pieces removed, a single merged face = not split).  With the
environment variable CORR_NETWORK_OLD=1 the requests carry the flag "old" (the `fixed = false`
model of the code before those commits) and must then be compared with such an old tree first on
sys.path; /verif/check never sets it.

Stand-alone:  /venv/bin/python network.py [seed] [quick|thorough]"""
import ast
import json
import math
import os
import random
import sys
import time
from fractions import Fraction as F

_H = os.path.dirname(os.path.dirname(os.path.abspath(__file__)))
if _H not in sys.path:
    sys.path.insert(0, _H)
import lbg  # noqa: E402

from ladybug_geometry import network as NW  # noqa: E402
from ladybug_geometry.network import DirectedGraphNetwork  # noqa: E402
from ladybug_geometry.geometry2d.pointvector import Point2D, Vector2D  # noqa: E402
from ladybug_geometry.geometry2d.line import LineSegment2D  # noqa: E402
from ladybug_geometry.geometry2d.polygon import Polygon2D  # noqa: E402
from ladybug_geometry.geometry3d.pointvector import Point3D  # noqa: E402
from ladybug_geometry.geometry3d.face import Face3D  # noqa: E402
from ladybug_geometry.geometry3d.polyline import Polyline3D  # noqa: E402

try:
    from props import c09, cellbool_common as cc  # noqa: E402
except ImportError:                                  # pragma: no cover
    import c09  # noqa: E402
    import cellbool_common as cc  # noqa: E402

PROPS = ['C09']
MODELS = ['LbgVerif/Model/Network.lean', 'LbgVerif/Model/Dispatch_Network.lean']
REAL = ['ladybug_geometry/network.py:coordinates_hash,Node,DirectedGraphNetwork.add_node,_add_node,'
        'add_adj,remove_adj,insert_node,from_point_array,from_shape_with_holes,from_shape_to_split,'
        '_intersect_segments,_remove_segments_outside_boundary,next_exterior_node,is_edge_bidirect,'
        'min_cycle(ccw_only=True),all_min_cycles',
        'ladybug_geometry/geometry3d/face.py:Face3D.split_with_line,split_with_lines,'
        'split_with_polyline,merge_faces_to_holes,_match_holes_to_face']
TRUSTED = [
    'C09 network: the model works in the plane coordinates computed by the real face '
    '(boundary_polygon2d, hole_polygon2d, plane.xyz_to_xy of the cut ends); the lift of the pieces '
    'to 3D and back (xy_to_xyz / xyz_to_xy, exact in the world XY plane) is seen only through the '
    '1e-9 comparison of the returned vertices',
    'C09 network: keys are compared as the integer multiples of the rounding unit of '
    'coordinates_hash (base, rtol recomputed here with the same expressions as the code and '
    'compared with model.key_grid); the sign of a zero key coordinate ("-0.0") is not modelled '
    '(impossible for tolerance 0.01: 0.005 is not a double)',
    'C09 network: lattice pitch >= 1/4 and tolerance 0.01, so is_equivalent, point_relationship '
    'and the collinearity test of remove_colinear_vertices are never within 1e-9 of their '
    'thresholds; ties are looked for in key rounding, segment intersection and angle order only',
    'C09 network: exterior_cycle(s), next_exterior_node_no_backtrack, min_cycle(ccw_only=False), '
    'polygon_exists, adj_matrix are not modelled (not used by the split methods)',
]
RULE = ('one comparison = one model request against one real call (graph dump, cycles, split '
        'result).  non-trivial = the cut graph has at least one interior (exterior=False) node, '
        'or the request is a graph-op history with an insert_node, or a key at a non-lattice point')

TOL = 0.01
# looking at an OLD tree only (before the repairs 0a32af8 / 2c5e096): the `fixed = false` model
FIX = ['old'] if os.environ.get('CORR_NETWORK_OLD') else []
W = lbg.wnum
EPS = 1e-9
QUICK_BUDGET, THOROUGH_BUDGET = 17.0, 260.0


# ====================================================================== small helpers
def fx(v):
    return F(v)


def w2(p):
    return [W(p[0]), W(p[1])]


def pts_w(ps):
    return [w2(p) for p in ps]


def poly_pts(poly):
    return [(p.x, p.y) for p in poly.vertices]


def rat(j):
    if isinstance(j, (str, int)):
        return F(j)
    return j


def rpt(j):
    return (F(j[0]), F(j[1]))


def show(x, lim=300):
    def f(v):
        if isinstance(v, F):
            return float(v) if v.denominator != 1 else int(v)
        if isinstance(v, (list, tuple)):
            return [f(a) for a in v]
        if isinstance(v, dict):
            return dict((k, f(a)) for k, a in v.items())
        return v
    s = repr(f(x))
    return s if len(s) <= lim else s[:lim] + '…'


def key_grid(t):
    """First lines of coordinates_hash (same expressions as the code)."""
    try:
        rtol = int(math.log10(t)) * -1
    except ValueError:
        rtol = 0
    base = int(t * 10 ** (rtol + 1))
    if base == 10 or base == 0:
        base = 1
    else:
        rtol += 1
    return base, rtol, t / 2


def ckey(s, grid):
    """Real key string -> (kx, ky) integer multiples of the rounding unit (None stays None)."""
    if s is None:
        return None
    base, rtol, _ = grid
    a, b = ast.literal_eval(s)
    out = []
    for v in (a, b):
        q = F(v) / base * F(10) ** rtol
        k = round(q)
        if abs(q - k) > F(1, 1000):
            raise ValueError('key %r is not on the rounding grid' % (s,))
        out.append(int(k))
    return tuple(out)


def close(a, b, mag=1.0):
    return abs(F(a) - F(b)) <= F(EPS) * max(1, abs(F(b)), mag)


class Cmp(object):
    """Accumulates whether a comparison was bit-exact."""

    def __init__(self):
        self.exact = True

    def pt(self, m, r):
        """model point (wire) vs real point (floats)."""
        mx, my = F(m[0]), F(m[1])
        rx, ry = F(r[0]), F(r[1])
        if mx != rx or my != ry:
            self.exact = False
        return close(mx, rx) and close(my, ry)

    def loop(self, m, r):
        return len(m) == len(r) and all(self.pt(a, b) for a, b in zip(m, r))


# ====================================================================== float-tie watcher
class Watch(object):
    """Wraps the threshold decisions of one real evaluation and records the ones rounding could
    flip (see the module docstring)."""

    def __init__(self):
        self.ties = []
        self.ang = []

    def __enter__(self):
        w = self
        self.o_hash, self.o_isect = NW.coordinates_hash, NW.intersect_line_segment2d
        self.o_ang = Vector2D.angle_clockwise

        def hash_(point, tolerance):
            base, rtol, ztol = key_grid(tolerance)
            for v in (point.x, point.y):
                if abs(v) < ztol:
                    if abs(abs(v) - ztol) <= EPS:
                        w.ties.append('key-zero')
                    continue
                q = v / base * 10.0 ** rtol
                fr = q - math.floor(q)
                if abs(fr - 0.5) <= EPS * max(1.0, abs(q)):
                    w.ties.append('key-round')
            return w.o_hash(point, tolerance)

        def isect_(a, b):
            d = b.v.y * a.v.x - b.v.x * a.v.y
            sc = math.hypot(a.v.x, a.v.y) * math.hypot(b.v.x, b.v.y)
            if d == 0:
                if not (a.v.x == 0 or a.v.y == 0) and sc > 0:
                    w.ties.append('parallel0')
            elif abs(d) <= EPS * sc:
                w.ties.append('parallel')
            else:
                dy, dx = a.p.y - b.p.y, a.p.x - b.p.x
                ua = (b.v.x * dy - b.v.y * dx) / d
                ub = (a.v.x * dy - a.v.y * dx) / d
                if -EPS <= ua <= 1 + EPS and min(abs(ub), abs(ub - 1)) <= EPS:
                    w.ties.append('ub')
            return w.o_isect(a, b)

        def ang_(self_, other):
            r = w.o_ang(self_, other)
            w.ang.append((self_, r))
            return r

        NW.coordinates_hash, NW.intersect_line_segment2d = hash_, isect_
        Vector2D.angle_clockwise = ang_
        return self

    def __exit__(self, *a):
        NW.coordinates_hash, NW.intersect_line_segment2d = self.o_hash, self.o_isect
        Vector2D.angle_clockwise = self.o_ang
        # group the angle calls by the prev_dir object they were made on (one node each)
        groups, cur, cur_obj = [], [], None
        for obj, r in self.ang:
            if obj is not cur_obj:
                if cur:
                    groups.append(cur)
                cur, cur_obj = [], obj
            cur.append(r)
        if cur:
            groups.append(cur)
        two_pi = 2 * math.pi
        for g in groups:
            rel = [x for x in g if 1e-5 < x < two_pi - 1e-5]
            if any(abs(x - 1e-5) <= EPS or abs(x - (two_pi - 1e-5)) <= EPS for x in g):
                self.ties.append('angle-band')
            ch = rel if rel else g
            for i in range(len(ch)):
                for j in range(i + 1, len(ch)):
                    dd = abs(ch[i] - ch[j]) % two_pi
                    if min(dd, two_pi - dd) <= EPS:
                        self.ties.append('angle-order')
        self.ang = []
        return False


# ====================================================================== real side
def real_dump(dg, grid):
    nodes = []
    for n in dg.ordered_nodes:
        nodes.append([ckey(n.key, grid), (n.pt.x, n.pt.y), [ckey(a.key, grid) for a in n.adj_lst],
                      n.exterior])
    return {'nodes': nodes, 'outer': ckey(dg.outer_root_key, grid),
            'holes': [ckey(k, grid) for k in dg.hole_root_keys]}


def cmp_dump(model, real, c):
    """-> None or (what, detail)."""
    if isinstance(model, dict) and model.get('raise'):
        return ('model raises', 'model: remove_colinear_vertices raises; real built a graph')
    mn, rn = model['nodes'], real['nodes']
    if len(mn) != len(rn):
        return ('node count', 'model %d nodes, real %d' % (len(mn), len(rn)))
    for i, (a, b) in enumerate(zip(mn, rn)):
        if tuple(a[0]) != tuple(b[0]):
            return ('node key/order', 'node %d: model key %r, real %r' % (i, a[0], b[0]))
        if [tuple(k) for k in a[2]] != [tuple(k) for k in b[2]]:
            return ('adjacency', 'node %d %r: model adj %r, real %r' % (i, a[0], a[2], b[2]))
        if a[3] != b[3]:
            return ('exterior', 'node %d %r: model exterior %r, real %r' % (i, a[0], a[3], b[3]))
        if not c.pt(a[1], b[1]):
            return ('node point', 'node %d %r: model pt %s, real %r' % (i, a[0], show(rpt(a[1])),
                                                                         b[1]))
    mo = tuple(model['outer']) if model['outer'] is not None else None
    if mo != real['outer']:
        return ('outer root', 'model %r, real %r' % (mo, real['outer']))
    if [tuple(k) for k in model['holes']] != list(real['holes']):
        return ('hole roots', 'model %r, real %r' % (model['holes'], real['holes']))
    return None


def build_case(case):
    """-> dict with the real objects of a lattice split case."""
    fr = c09.Frame.of(case['frame'])
    face = c09.make_face(fr, case['A'], case['varA'])
    pl = face.plane
    mode = case['mode']
    if mode == 'polyline':
        pts3 = [Point3D(*fr.to3(*p)) for p in case['cuts'][0]]
        pts2 = [pl.xyz_to_xy(p) for p in pts3]
        segs2 = [LineSegment2D.from_end_points(pts2[i], pts2[i + 1]) for i in range(len(pts2) - 1)]
        cut_w = pts_w([(p.x, p.y) for p in pts2])
        cuts_w = [[w2((pts2[i].x, pts2[i].y)), w2((pts2[i + 1].x, pts2[i + 1].y))]
                  for i in range(len(pts2) - 1)]
        arg3 = Polyline3D(pts3)
    else:
        l3 = [c09.seg3(fr, a, b) for (a, b) in case['cuts']]
        e2 = [(pl.xyz_to_xy(s.p1), pl.xyz_to_xy(s.p2)) for s in l3]
        segs2 = [LineSegment2D.from_end_points(a, b) for a, b in e2]
        cuts_w = [[w2((a.x, a.y)), w2((b.x, b.y))] for a, b in e2]
        cut_w = cuts_w[0] if mode == 'line' else cuts_w
        arg3 = l3[0] if mode == 'line' else l3
    bnd = face.boundary_polygon2d
    holes = face.hole_polygon2d
    return {'face': face, 'plane': pl, 'bnd': bnd, 'holes': holes, 'segs2': segs2,
            'b_w': pts_w(poly_pts(bnd)), 'h_w': [pts_w(poly_pts(h)) for h in (holes or [])],
            'cuts_w': cuts_w, 'cut_w': cut_w, 'arg3': arg3, 'mode': mode}


SPLIT_OP = {'line': 'model.split_with_line', 'lines': 'model.split_with_lines',
            'polyline': 'model.split_with_polyline'}


def is_xy_exact(case):
    fr = case['frame']
    if list(fr['quat']) != [1, 0, 0, 0]:
        return False
    for v in [fr['s']] + list(fr['o']):
        d = F(v).denominator
        if d & (d - 1):
            return False
    return True


def real_split(b):
    """Run the Face3D method, capturing the input of merge_faces_to_holes."""
    face, mode, captured = b['face'], b['mode'], []
    orig = Face3D.__dict__['merge_faces_to_holes']

    def cap(faces, tolerance):
        captured.append(list(faces))
        return orig.__func__(faces, tolerance)

    Face3D.merge_faces_to_holes = staticmethod(cap)
    try:
        if mode == 'line':
            r = face.split_with_line(b['arg3'], TOL)
        elif mode == 'lines':
            r = face.split_with_lines(b['arg3'], TOL)
        else:
            r = face.split_with_polyline(b['arg3'], TOL)
    finally:
        Face3D.merge_faces_to_holes = orig
    pl = b['plane']

    def l2(vs):
        return [(q.x, q.y) for q in (pl.xyz_to_xy(v) for v in vs)]

    faces = None
    if r is not None:
        faces = [(l2(f.boundary), [l2(h) for h in (f.holes or [])]) for f in r]
    pieces = [l2(f.boundary) for f in captured[0]] if captured else None
    areas = [f.area for f in captured[0]] if captured else []
    return faces, pieces, areas


def eval_case(case, report=True):
    """Real side of one split case -> (requests, judge(answers) -> list of (op, what, detail, model,
    real), info).  report=True: one combined `model.split_report` request (graph built once)
    instead of the four separate ops."""
    info = {'ties': [], 'interior': 0}
    grid = key_grid(TOL * 2)
    try:
        b = build_case(case)
    except Exception as e:                                           # noqa
        msg = (type(e).__name__, str(e)[:200])
        return [], (lambda ans: [('build', 'raises %s' % msg[0], msg[1], None, None)]), info
    tolw = W(TOL)
    reqs = [('model.graph_from_shape', [b['b_w'], b['h_w'], tolw]),
            ('model.graph_cut', [b['b_w'], b['h_w'], b['cuts_w'], tolw] + FIX),
            ('model.min_cycles', [b['b_w'], b['h_w'], b['cuts_w'], tolw] + FIX),
            (SPLIT_OP[b['mode']], [b['b_w'], b['h_w'], b['cut_w'], tolw] + FIX)]
    xy = is_xy_exact(case)
    sep_reqs = list(reqs)
    if report:
        reqs = [('model.split_report', [b['b_w'], b['h_w'],
                                        b['cut_w'] if b['mode'] == 'polyline' else b['cuts_w'],
                                        tolw, b['mode']] + FIX)]
    if xy:
        reqs.append((SPLIT_OP[b['mode']], [b['b_w'], b['h_w'], b['cut_w'], tolw, 'lat'] + FIX))
        sep_reqs.append(reqs[-1])
    info['comparisons'] = len(sep_reqs)
    real = {}

    def guarded(name, fn):
        try:
            with Watch() as w:
                real[name] = ('ok', fn())
        except Exception as e:                                       # noqa
            real[name] = ('raises', '%s: %s' % (type(e).__name__, str(e)[:160]))
        info['ties'].extend(w.ties)

    guarded('shape', lambda: real_dump(DirectedGraphNetwork.from_shape_with_holes(
        b['bnd'], b['holes'], TOL), grid))
    dgbox = []

    def cut():
        dg = DirectedGraphNetwork.from_shape_to_split(b['bnd'], b['holes'], b['segs2'], TOL)
        dgbox.append(dg)
        return real_dump(dg, grid)
    guarded('cut', cut)
    if dgbox:
        guarded('cycles', lambda: [[ckey(n.key, grid) for n in c] for c in
                                   dgbox[0].all_min_cycles()])
        info['interior'] = sum(1 for n in dgbox[0].nodes if n.exterior is False)
    else:
        real['cycles'] = ('raises', 'no graph')
    guarded('split', lambda: real_split(b))
    info['xy'] = xy

    def judge(ans):
        out = []
        names = ['shape', 'cut', 'cycles', 'split'] + (['split'] if xy else [])
        c = Cmp()
        if report:
            ok0, v0 = ans[0]
            if not ok0:
                return [('model.split_report', 'model error', str(v0)[:200], None, None)]
            ans = [(True, v0['shape']), (True, v0['cut']), (True, v0['cycles']),
                   (True, v0['split'])] + list(ans[1:])
        for (op, args), name, (ok, val) in zip(sep_reqs, names, ans):
            st, rv = real[name]
            lat = 'lat' in args
            tag = op + ('[lat]' if lat else '')
            if not ok:
                out.append((tag, 'model error', str(val)[:200], None, rv))
                continue
            if st == 'raises':
                raised = isinstance(val, dict) and val.get('raise')
                if name == 'cycles' and val is None:
                    raised = True
                if not raised:
                    out.append((tag, 'raises ' + rv.split(':')[0], rv, val, None))
                continue
            if name in ('shape', 'cut'):
                v = cmp_dump(val, rv, c)
                if v:
                    out.append((tag, v[0], v[1], None, None))
            elif name == 'cycles':
                mv = None if val is None else [[tuple(k) for k in cy] for cy in val]
                if mv != rv:
                    out.append((tag, 'cycles', 'model %r, real %r' % (mv, rv), mv, rv))
            else:
                rf, rp, areas = rv
                mf, mp = val['faces'], val['pieces']
                if val.get('raise'):
                    out.append((tag, 'model raises', 'real returned %s' % show(rf, 200), None, rf))
                    continue
                if (mf is None) != (rf is None):
                    out.append((tag, 'none-vs-faces', 'model %s, real %s' % (
                        'None' if mf is None else '%d faces' % len(mf),
                        'None' if rf is None else '%d faces' % len(rf)), mf, rf))
                    continue
                if rp is not None:
                    if mp is None or len(mp) != len(rp) or \
                            not all(c.loop(a, b_) for a, b_ in zip(mp, rp)):
                        out.append((tag, 'pieces', 'model %s, real %s' % (
                            show([[rpt(p) for p in l] for l in (mp or [])], 300), show(rp, 300)),
                            mp, rp))
                        continue
                elif mp is not None and len(mp) > 1:
                    out.append((tag, 'pieces', 'model has %d pieces, real returned None' % len(mp),
                                mp, None))
                    continue
                if rf is not None:
                    # equal-area tie, decided on the real areas: two pieces within 1e-9 of each
                    # other, unless they are exactly equal in the real run AND in the model
                    # (then the stable sort keeps the same order on both sides)
                    def sh2(l):
                        return abs(sum(F(l[i - 1][0]) * F(q[1]) - F(l[i - 1][1]) * F(q[0])
                                       for i, q in enumerate(l)))
                    m_ar = [sh2(l) for l in mp] if mp is not None and len(mp) == len(areas) \
                        else None
                    tie_area = any(
                        abs(areas[i] - areas[j]) <= EPS * max(1.0, areas[i]) and
                        not (areas[i] == areas[j] and m_ar is not None and m_ar[i] == m_ar[j])
                        for i in range(len(areas)) for j in range(i + 1, len(areas)))

                    def holes_same(mh, rh, unordered):
                        if len(mh) != len(rh):
                            return False
                        if not unordered:
                            return all(c.loop(x, y) for x, y in zip(mh, rh))
                        left = list(rh)
                        for x in mh:
                            hit = [y for y in left if c.loop(x, y)]
                            if not hit:
                                return False
                            left.remove(hit[0])
                        return True

                    def same(mfs, rfs, unordered=False):
                        return len(mfs) == len(rfs) and all(
                            c.loop(m[0], r[0]) and holes_same(m[1], r[1], unordered)
                            for m, r in zip(mfs, rfs))
                    okf = same(mf, rf)
                    if not okf and tie_area and len(mf) == len(rf):
                        # pieces of equal area: the stable sort by (rounded) area may order them
                        # (and the holes matched from them) differently; match one to one instead
                        left = list(rf)
                        okf = True
                        for m in mf:
                            hit = [r for r in left if same([m], [r], True)]
                            if not hit:
                                okf = False
                                break
                            left.remove(hit[0])
                        info['area_tie'] = True
                    if not okf:
                        out.append((tag, 'faces', 'model %s, real %s' % (
                            show([[[rpt(p) for p in f[0]], [[rpt(p) for p in h] for h in f[1]]]
                                  for f in mf], 300), show(rf, 300)), mf, rf))
        info['exact'] = c.exact
        return out
    return reqs, judge, info


# ====================================================================== other request groups
TOLS = [0.02, 0.02, 0.002, 0.2, 0.1, 0.01, 0.001, 0.006, 0.05, 0.5, 0.03, 0.07, 1.0, 2.0, 0.25,
        20.0, 0.0004]


def gen_key_case(rng):
    t = rng.choice(TOLS)
    k = rng.random()
    if k < 0.3:
        x, y = rng.randint(-40, 40) / 4.0, rng.randint(-40, 40) / 4.0
    elif k < 0.5:
        x, y = rng.randint(-400, 400) * t / 4, rng.randint(-400, 400) * t / 4
    elif k < 0.6:
        x, y = rng.uniform(-t, t), rng.uniform(-t, t)
    else:
        m = rng.choice([1.0, 10.0, 1000.0])
        x, y = rng.uniform(-m, m), rng.uniform(-m, m)
    return {'t': t, 'p': (x, y)}


def eval_key(inp):
    t, p = inp['t'], inp['p']
    reqs = [('model.coord_key', [w2(p), W(t)]), ('model.key_grid', [W(t)])]
    grid = key_grid(t)
    info = {'ties': []}
    try:
        with Watch() as w:
            s = NW.coordinates_hash(Point2D(*p), t)
        info['ties'] = list(w.ties)
        rk = ('ok', (s, ckey(s, grid)))
    except Exception as e:                                           # noqa
        rk = ('raises', '%s: %s' % (type(e).__name__, str(e)[:100]))

    def judge(ans):
        out = []
        (ok1, v1), (ok2, v2) = ans
        if not ok1 or not ok2:
            return [('model.coord_key', 'model error', str(v1 if not ok1 else v2)[:200], None, None)]
        if rk[0] == 'raises':
            return [('model.coord_key', 'raises ' + rk[1].split(':')[0], rk[1], v1, None)]
        if '-0.0' in rk[1][0]:
            info['negzero'] = True
            return out
        if (F(v2[0]), int(v2[1]), F(v2[2])) != (F(grid[0]), grid[1], F(grid[2])):
            out.append(('model.key_grid', 'grid', 'tolerance %r: model %r, code %r' % (t, v2, grid),
                        v2, grid))
        elif tuple(v1) != rk[1][1]:
            out.append(('model.coord_key', 'key', 'pt %r tolerance %r: model %r, real %r' % (
                p, t, v1, rk[1]), v1, rk[1]))
        return out
    return reqs, judge, info


def gen_ops_case(rng):
    """A random history of add_node / insert_node / remove_adj / loop on lattice points."""
    n = rng.randint(2, 6)
    pts = [(rng.randint(0, 4) * 1.0 + rng.choice([0.0, 0.0, 0.004, -0.004, 0.012]),
            rng.randint(0, 4) * 1.0) for _ in range(n + 2)]
    ops = []
    for _ in range(rng.randint(2, 9)):
        k = rng.random()
        if k < 0.5 or len(ops) < 2:
            ops.append(['add', rng.choice(pts), [rng.choice(pts) for _ in range(rng.randint(0, 2))],
                        rng.choice([None, True, False])])
        elif k < 0.75:
            ops.append(['insert', rng.choice(pts), rng.choice(pts), rng.choice(pts),
                        rng.choice([None, True, False])])
        elif k < 0.85:
            ops.append(['remove_adj', rng.choice(pts), [rng.choice(pts)]])
        else:
            ops.append(['loop', [rng.choice(pts) for _ in range(rng.randint(2, 4))], True])
    return {'ops': ops}


def eval_ops(inp):
    grid = key_grid(TOL * 2)
    info = {'ties': []}
    done = []          # the ops actually executed (insert / remove_adj on a missing node are skipped)

    def real():
        dg = DirectedGraphNetwork(TOL)
        for o in inp['ops']:
            if o[0] == 'add':
                dg.add_node(Point2D(*o[1]), [Point2D(*q) for q in o[2]], exterior=o[3])
            elif o[0] == 'insert':
                bk = NW.coordinates_hash(Point2D(*o[1]), dg._tolerance)
                xk = NW.coordinates_hash(Point2D(*o[3]), dg._tolerance)
                bn, xn = dg.node(bk), dg.node(xk)
                if bn is None or xn is None:
                    continue        # the code would raise AttributeError half way
                dg.insert_node(bn, Point2D(*o[2]), xn, exterior=o[4])
            elif o[0] == 'remove_adj':
                n = dg.node(NW.coordinates_hash(Point2D(*o[1]), dg._tolerance))
                if n is None:
                    continue
                dg.remove_adj(n, [NW.coordinates_hash(Point2D(*q), dg._tolerance)
                                  for q in o[2]])
            else:
                ps = [Point2D(*q) for q in o[1]]
                for i in range(len(ps) - 1):
                    k = dg.add_node(ps[i], [ps[i + 1]], exterior=True)
                    if i == 0:
                        dg.outer_root_key = k
                dg.add_node(ps[-1], [ps[0]], exterior=True)
            done.append(o)
        return real_dump(dg, grid)
    try:
        rv = ('ok', real())
    except Exception as e:                                           # noqa
        rv = ('raises', '%s: %s' % (type(e).__name__, str(e)[:100]))
    wops = []
    for o in done:
        if o[0] == 'add':
            wops.append(['add', w2(o[1]), pts_w(o[2]), o[3]])
        elif o[0] == 'insert':
            wops.append(['insert', w2(o[1]), w2(o[2]), w2(o[3]), o[4]])
        elif o[0] == 'remove_adj':
            wops.append(['remove_adj', w2(o[1]), pts_w(o[2])])
        else:
            wops.append(['loop', pts_w(o[1]), o[2]])
    reqs = [('model.graph_ops', [W(TOL), wops])]

    def judge(ans):
        ok, val = ans[0]
        if not ok:
            return [('model.graph_ops', 'model error', str(val)[:200], None, None)]
        if rv[0] == 'raises':
            return [('model.graph_ops', 'raises ' + rv[1].split(':')[0], rv[1], None, None)]
        v = cmp_dump(val, rv[1], Cmp())
        return [('model.graph_ops', v[0], v[1], None, None)] if v else []
    return reqs, judge, info


def gen_isect_case(rng):
    """Axis-parallel lattice segments (world coordinates, exact) with touching / overlapping /
    crossing configurations."""
    def seg():
        if rng.random() < 0.5:
            y = rng.randint(0, 6)
            a, b = rng.sample(range(-1, 8), 2)
            return ((a, y), (b, y))
        x = rng.randint(0, 6)
        a, b = rng.sample(range(-1, 8), 2)
        return ((x, a), (x, b))
    s = rng.choice([1.0, 1.0, 0.5, 2.0, 0.25])
    sc = lambda sg: tuple((p[0] * s, p[1] * s) for p in sg)          # noqa
    return {'segs': [sc(seg()) for _ in range(rng.randint(1, 4))],
            'adds': [sc(seg()) for _ in range(rng.randint(0, 4))]}


def eval_isect(inp):
    info = {'ties': []}
    reqs = [('model.graph_intersect_segments', [[[w2(a), w2(b)] for a, b in inp['segs']],
                                          [[w2(a), w2(b)] for a, b in inp['adds']], W(TOL)])]
    mk = lambda sg: LineSegment2D.from_end_points(Point2D(*sg[0]), Point2D(*sg[1]))   # noqa
    try:
        with Watch() as w:
            r = DirectedGraphNetwork._intersect_segments(
                [mk(s) for s in inp['segs']], [mk(s) for s in inp['adds']], TOL)
        info['ties'] = list(w.ties)
        rv = ('ok', [((s.p1.x, s.p1.y), (s.p2.x, s.p2.y)) for s in r])
    except Exception as e:                                           # noqa
        rv = ('raises', '%s: %s' % (type(e).__name__, str(e)[:100]))

    def judge(ans):
        ok, val = ans[0]
        if not ok:
            return [('model.graph_intersect_segments', 'model error', str(val)[:200], None, None)]
        if rv[0] == 'raises':
            return [('model.graph_intersect_segments', 'raises ' + rv[1].split(':')[0], rv[1], None,
                     None)]
        c = Cmp()
        if len(val) != len(rv[1]) or not all(c.pt(m[0], r[0]) and c.pt(m[1], r[1])
                                             for m, r in zip(val, rv[1])):
            return [('model.graph_intersect_segments', 'pieces', 'model %s, real %s' % (
                show([[rpt(m[0]), rpt(m[1])] for m in val]), show(rv[1])), val, rv[1])]
        info['exact'] = c.exact
        return []
    return reqs, judge, info


def gen_merge_case(rng):
    """Lattice rectangles forming a laminar family (nested / disjoint), random order."""
    rects = []

    def sub(x0, y0, x1, y1, depth):
        rects.append((x0, y0, x1, y1))
        if depth >= 3 or x1 - x0 < 4 or y1 - y0 < 3:
            return
        # up to two children side by side, strictly inside
        xm = rng.randint(x0 + 2, x1 - 2)
        if rng.random() < 0.7 and xm - 1 - (x0 + 1) >= 1:
            sub(x0 + 1, y0 + 1, xm - 1, y1 - 1, depth + 1)
        if rng.random() < 0.5 and (x1 - 1) - (xm + 1) >= 1:
            sub(xm + 1, y0 + 1, x1 - 1, y1 - 1, depth + 1)
    for k in range(rng.randint(1, 2)):
        w, h = rng.randint(4, 14), rng.randint(3, 9)
        sub(20 * k, 0, 20 * k + w, h, 0)
    rng.shuffle(rects)
    loops = []
    for (x0, y0, x1, y1) in rects:
        lp = [(x0, y0), (x1, y0), (x1, y1), (x0, y1)]
        r = rng.randint(0, 3)
        lp = lp[r:] + lp[:r]
        loops.append([(float(x), float(y)) for x, y in lp])
    return {'loops': loops}


def eval_merge(inp):
    info = {'ties': []}
    reqs = [('model.merge_faces', [[pts_w(l) for l in inp['loops']]])]
    try:
        fs = [Face3D([Point3D(x, y, 0) for x, y in l]) for l in inp['loops']]
        pl = fs[0].plane
        if len(fs) < 2:
            raise ValueError('fewer than two faces')
        # all faces on the plane of the first (the split methods build them on one plane object)
        fs = [Face3D(f.boundary, plane=pl) for f in fs]
        r = Face3D.merge_faces_to_holes(fs, TOL)
        l2 = lambda vs: [(q.x, q.y) for q in (pl.xyz_to_xy(v) for v in vs)]        # noqa
        rv = ('ok', [(l2(f.boundary), [l2(h) for h in (f.holes or [])]) for f in r])
        minp = [l2(f.boundary) for f in fs]
        reqs[0] = ('model.merge_faces', [[pts_w(l) for l in minp]])
    except Exception as e:                                           # noqa
        rv = ('raises', '%s: %s' % (type(e).__name__, str(e)[:100]))

    def judge(ans):
        ok, val = ans[0]
        if not ok:
            return [('model.merge_faces', 'model error', str(val)[:200], None, None)]
        if rv[0] == 'raises':
            return [] if 'fewer than two' in rv[1] else \
                [('model.merge_faces', 'raises ' + rv[1].split(':')[0], rv[1], None, None)]
        c = Cmp()
        okf = len(val) == len(rv[1]) and all(
            c.loop(m[0], r[0]) and len(m[1]) == len(r[1]) and
            all(c.loop(x, y) for x, y in zip(m[1], r[1])) for m, r in zip(val, rv[1]))
        if not okf:
            return [('model.merge_faces', 'faces', 'model %s, real %s' % (
                show([[[rpt(p) for p in f[0]], [[rpt(p) for p in h] for h in f[1]]] for f in val]),
                show(rv[1])), val, rv[1])]
        return []
    return reqs, judge, info


# ====================================================================== split case generators
XY_SCALES = ['1', '1', '1', '2', '3', '10', '1/2']


def retarget_frame(rng, case):
    """60 %: world XY plane with exact doubles; otherwise keep the (mostly rotated) frame."""
    if rng.random() < 0.6:
        s = rng.choice(XY_SCALES)
        o = ['0', '0', '0'] if rng.random() < 0.5 else \
            [str(F(rng.randint(-64, 64), 4)), str(F(rng.randint(-64, 64), 4)),
             str(F(rng.randint(-8, 8), 2))]
        case = dict(case, frame={'quat': [1, 0, 0, 0], 'o': o, 's': s})
    case['varA'] = [v for v in case.get('varA', []) if v != 'flip']
    return case


def special_cuts(rng, case):
    """Variants of a generated case that force the configurations of interest."""
    loops = case['A']
    b = loops[0]
    xs = sorted(set(p[0] for p in b))
    ys = sorted(set(p[1] for p in b))
    x0, x1, y0, y1 = xs[0], xs[-1], ys[0], ys[-1]
    k = rng.random()
    if k < 0.25:          # along an edge line of the boundary or a hole
        lp = rng.choice(loops)
        i = rng.randrange(len(lp))
        a, c = lp[i - 1], lp[i]
        if a[0] == c[0]:
            cuts = [((a[0], y0 - 1), (a[0], y1 + 1))]
        else:
            cuts = [((x0 - 1, a[1]), (x1 + 1, a[1]))]
        return dict(case, mode=rng.choice(['line', 'lines']), cuts=cuts, rel='edge-line')
    if k < 0.45:          # a dangling cut plus a full cut
        x = rng.randint(x0, x1)
        ya = rng.randint(y0, y1)
        cuts = [((x, ya), (x, y0 - 1 if rng.random() < 0.5 else rng.randint(y0, y1))),
                ((x0 - 1, rng.randint(y0, y1)), (x1 + 1, rng.randint(y0, y1)))]
        cuts[1] = (cuts[1][0], (cuts[1][1][0], cuts[1][0][1]))
        cuts = [c for c in cuts if c[0] != c[1]]
        rng.shuffle(cuts)
        return dict(case, mode='lines', cuts=cuts, rel='dangling+full')
    if k < 0.65 and len(loops) > 1:      # through / from a hole
        h = loops[1]
        hx = sorted(set(p[0] for p in h))
        hy = sorted(set(p[1] for p in h))
        kk = rng.random()
        if kk < 0.4:
            y = rng.randint(hy[0], hy[-1])
            cuts = [((x0 - 1, y), (x1 + 1, y))]
        elif kk < 0.7:
            y = rng.choice(hy)
            cuts = [((hx[-1], y), (x1 + 1, y))]
        else:
            x = rng.randint(hx[0], hx[-1])
            cuts = [((x, y0 - 1), (x, y1 + 1)), ((x0 - 1, rng.choice(hy)), (x1 + 1, 0))]
            cuts[1] = (cuts[1][0], (cuts[1][1][0], cuts[1][0][1]))
        return dict(case, mode='lines' if len(cuts) > 1 else rng.choice(['line', 'lines']),
                    cuts=cuts, rel='hole-cut')
    if k < 0.85:          # several full cuts, both directions
        cuts = []
        for _ in range(rng.randint(2, 4)):
            if rng.random() < 0.5:
                y = rng.randint(y0, y1)
                cuts.append(((x0 - 1, y), (x1 + 1, y)))
            else:
                x = rng.randint(x0, x1)
                cuts.append(((x, y0 - 1), (x, y1 + 1)))
        cuts = [c if rng.random() < 0.5 else (c[1], c[0]) for c in cuts]
        return dict(case, mode='lines', cuts=cuts, rel='several')
    return case


def fixed_cases():
    out = [c for c in c09.pinned_cases() if c.get('kind') == 'split']
    P = c09.PLAIN
    sq = [(0, 0), (4, 0), (4, 4), (0, 4)]

    def mk(loops, mode, cuts, frame=P, var=()):
        return {'family': 'lattice', 'kind': 'split', 'mode': mode, 'A': loops, 'cuts': cuts,
                'flags': [], 'frame': frame, 'varA': list(var), 'rel': 'fixed'}
    out += [
        mk([sq], 'line', [((-1, 2), (5, 2))]),                        # clean full cut
        mk([sq], 'line', [((2, 5), (2, -1))]),
        mk([sq], 'line', [((0, -1), (0, 5))]),                        # along an edge
        mk([sq], 'line', [((-1, -1), (5, 5))]),                       # diagonal through 2 corners
        mk([sq], 'line', [((1, 2), (3, 2))]),                         # floating inside
        mk([sq], 'line', [((-1, 2), (2, 2))]),                        # dangling
        mk([sq], 'line', [((6, 0), (6, 4))]),                         # outside the bounding box
        mk([sq], 'line', [((4.004, -1), (4.004, 5))]),                # within tol of an edge
        mk([sq], 'lines', [((-1, 2), (5, 2)), ((2, -1), (2, 5))]),    # cross
        mk([sq], 'lines', [((-1, 1), (5, 1)), ((-1, 3), (5, 3)), ((2, -1), (2, 5))]),
        mk([sq], 'lines', [((1, 1), (1, 1.005)), ((-1, 2), (5, 2))]),  # short line filtered
        mk([sq], 'lines', [((2, 2), (5, 2)), ((2, 2), (2, 5)), ((2, 2), (-1, -1))]),  # 3 branches
        mk([sq], 'polyline', [[(-1, 1), (2, 1), (2, 5)]]),
        mk([sq], 'polyline', [[(-1, 1), (1, 1), (1, 3), (3, 3), (3, 5)]]),
        mk([sq], 'polyline', [[(2, 5), (2, 3), (2, 2)]]),
        mk([[(0, 0), (6, 0), (6, 6), (0, 6)], [(2, 2), (4, 2), (4, 4), (2, 4)]], 'line',
           [((-1, 3), (7, 3))]),                                      # through the hole
        mk([[(0, 0), (6, 0), (6, 6), (0, 6)], [(2, 2), (4, 2), (4, 4), (2, 4)]], 'line',
           [((-1, 2), (7, 2))]),                                      # along a hole edge
        mk([[(0, 0), (6, 0), (6, 6), (0, 6)], [(2, 2), (4, 2), (4, 4), (2, 4)]], 'line',
           [((-1, 1), (7, 1))]),                                      # beside the hole
        mk([[(0, 0), (6, 0), (6, 6), (0, 6)], [(2, 2), (4, 2), (4, 4), (2, 4)]], 'line',
           [((4, 3), (7, 3))]),                                       # hole edge to the boundary
        mk([[(0, 0), (6, 0), (6, 6), (0, 6)], [(2, 2), (4, 2), (4, 4), (2, 4)]], 'lines',
           [((-1, 3), (7, 3)), ((3, -1), (3, 7))]),
        mk([[(0, 0), (4, 0), (4, 2), (2, 2), (2, 4), (0, 4)]], 'line', [((-1, 2), (5, 2))]),
        mk([[(0, 0), (4, 0), (4, 2), (2, 2), (2, 4), (0, 4)]], 'line', [((2, -1), (2, 5))]),
        mk([[(0, 0), (2, 0), (4, 0), (4, 4), (0, 4)]], 'line', [((2, -1), (2, 5))]),  # colinear vtx
        mk([sq], 'line', [((-1, 2), (5, 2))], frame={'quat': [1, 2, 3, 4], 'o': ['0', '0', '0'],
                                                       's': '1'}, var=['plane']),
        mk([sq], 'lines', [((-1, 2), (5, 2)), ((2, -1), (2, 5))],
           frame={'quat': [2, -1, 3, 1], 'o': ['1/4', '2', '-3'], 's': '2'}),
    ]
    # key rounding: a cut end 2^-52 beside a boundary vertex at x = 1.25 (key boundary 62.5)
    kf = [(0, 0), (F(5, 4), 0), (F(5, 4), -1), (F(5, 2), -1), (F(5, 2), 2), (0, 2)]
    xe = F(5, 4) + F(1, 2 ** 52)
    out.append(mk([kf], 'line', [((xe, 3), (xe, 0))]))
    out.append(mk([kf], 'line', [((F(5, 4), 3), (F(5, 4), 0))]))
    # a directed edge used by two cycles
    out.append(mk([[(4, 3), (4, 0), (0, 0), (0, 3)]], 'lines', [((4, 2), (4, 0)), ((-1, 1), (5, 1))]))
    # the hole-dropped finding in the plain frame as well
    out.append(mk([[(0, 0), (0, 4), (2, 4), (2, 6), (6, 6), (6, 0)],
                   [(2, 1), (5, 1), (5, 2), (2, 2)]], 'line', [((5, 1), (6, 1))]))
    return out


def case_size(case):
    return sum(len(l) for l in case['A']) * 3 + sum(len(c) for c in case['cuts']) * 5 + \
        (0 if case['frame'] == c09.PLAIN else 50)


# ====================================================================== run
def _evaluate(ctx, items):
    """items: list of (group, inp).  -> list of (group, inp, findings, info, nreq)."""
    EV = {'split': eval_case, 'split4': (lambda c: eval_case(c, report=False)), 'key': eval_key, 'ops': eval_ops, 'isect': eval_isect,
          'merge': eval_merge}
    prepared = []
    for grp, inp in items:
        try:
            reqs, judge, info = EV[grp](inp)
        except Exception as e:                                       # noqa
            msg = '%s: %s' % (type(e).__name__, str(e)[:160])
            reqs, judge, info = [], (lambda ans, m=msg: [('harness', 'crashed', m, None, None)]), \
                {'ties': []}
        prepared.append((grp, inp, reqs, judge, info))
    flat = [r for p in prepared for r in p[2]]
    ans = []
    for s in range(0, len(flat), 4000):
        ans.extend(ctx.driver.run(flat[s:s + 4000]))
    out, pos = [], 0
    for grp, inp, reqs, judge, info in prepared:
        a = ans[pos:pos + len(reqs)]
        pos += len(reqs)
        try:
            f = judge(a)
        except Exception as e:                                       # noqa
            f = [('harness', 'judge crashed', '%s: %s' % (type(e).__name__, str(e)[:160]), None,
                  None)]
        out.append((grp, inp, f, info, len(reqs)))
    return out


def _plain(x):
    if isinstance(x, F):
        return str(x)
    if isinstance(x, (list, tuple)):
        return [_plain(a) for a in x]
    if isinstance(x, dict):
        return dict((k, _plain(v)) for k, v in x.items())
    return x


def _record(dis, seed, grp, inp, finding):
    op, what, detail, model, real = finding
    sig = '%s|%s' % (op, what)
    size = case_size(inp) if grp in ('split', 'split4') else len(json.dumps(_plain(inp)))
    d = {'signature': sig, 'what': ('%s: %s on %s' % (sig, detail, show(inp, 500)))[:1200],
         'op': op, 'args': _plain(inp), 'model': show(model, 500), 'real': show(real, 500),
         'seed': seed, 'group': grp, 'input': _plain(inp), 'size': size}
    old = dis.get(sig)
    if old is None or size < old['size']:
        dis[sig] = d


def run(ctx, prop):
    if prop not in PROPS:
        return {'requests': 0, 'nontrivial': 0, 'rule': 'no model of %s here' % prop,
                'disagreements': [], 'float_ties': 0, 'histograms': {}, 'samples': []}
    t0 = time.time()
    thorough = ctx.tier == 'thorough' or bool(getattr(ctx, 'broken', None))
    budget = THOROUGH_BUDGET if thorough else QUICK_BUDGET
    t_end = min(getattr(ctx, 'deadline', t0 + budget), t0 + budget)
    items = [('split4', c) for c in fixed_cases()]
    for t in TOLS:
        for p in [(0.0, 0.0), (1.0, -1.0), (0.125, 0.375), (-0.01, 0.01), (0.005, -0.005),
                  (3.0000000000000004, 1e-17), (0.25000000000000006, -2.5)]:
            items.append(('key', {'t': t, 'p': p}))
    R = random.Random('%s/corr.network' % ctx.seed)
    n = 6000 if thorough else 200
    for j in range(n):
        try:
            case = c09.gen_split_case(R)
        except Exception:                                            # noqa
            continue
        case = retarget_frame(R, case)
        if R.random() < 0.55:
            case = special_cuts(R, case)
        items.append(('split', case))
        if j % 2 == 0:
            items.append(('key', gen_key_case(R)))
        if j % 3 == 0:
            items.append(('ops', gen_ops_case(R)))
        if j % 3 == 1:
            items.append(('isect', gen_isect_case(R)))
        if j % 4 == 2:
            items.append(('merge', gen_merge_case(R)))
    hist = {'group': {}, 'mode': {}, 'frame': {}, 'rel': {}, 'outcome': {}, 'ties': {},
            'exact': {}, 'real result': {}}
    dis, samples, nontrivial, done, ties = {}, [], 0, 0, 0

    def count(h, k, n_=1):
        hist[h][k] = hist[h].get(k, 0) + n_

    chunk = 260 if not thorough else 600
    for s in range(0, len(items), chunk):
        if s and time.time() + (3.0 if not thorough else 25.0) > t_end:
            count('outcome', 'not run (budget)', len(items) - s)
            break
        for grp, inp, findings, info, nreq in _evaluate(ctx, items[s:s + chunk]):
            nreq = info.get('comparisons', nreq)
            done += nreq
            if grp == 'split4':
                grp = 'split'
            count('group', grp, nreq)
            if grp == 'split':
                count('mode', inp['mode'])
                count('frame', 'xy-exact' if info.get('xy') else 'rotated/inexact')
                count('rel', inp.get('rel', '?'))
                if info.get('interior'):
                    nontrivial += nreq
                if info.get('area_tie'):
                    count('outcome', 'equal-area pieces compared unordered')
                if 'exact' in info:
                    count('exact', '%s %s' % ('xy' if info.get('xy') else 'rot',
                                              'bit-exact' if info['exact'] else 'within 1e-9'))
            elif grp == 'ops':
                nontrivial += 1 if any(o[0] == 'insert' for o in inp['ops']) else 0
            elif grp == 'key':
                nontrivial += 1 if inp['p'][0] * 4 != int(inp['p'][0] * 4) else 0
            else:
                nontrivial += 1
            for tk in set(info.get('ties', [])):
                count('ties', tk)
            if not findings:
                count('outcome', 'agree')
                if grp == 'split' and info.get('interior') and len(samples) < 3 and \
                        case_size(inp) <= 40 and inp['mode'] not in [x.get('mode') for x in samples]:
                    samples.append({'mode': inp['mode'], 'A': inp['A'], 'cuts': inp['cuts'],
                                    'frame': inp['frame']})
                continue
            if info.get('ties'):
                ties += 1
                count('outcome', 'float tie (differs, not reported)')
                if os.environ.get('CORR_DEBUG'):
                    print('TIE', sorted(set(info['ties'])), [(f[0], f[1], f[2][:300]) for f in findings],
                          show(inp, 400))
                continue
            count('outcome', 'DISAGREE')
            for f in findings:
                _record(dis, ctx.seed, grp, inp, f)
    return {'requests': done, 'nontrivial': nontrivial, 'rule': RULE,
            'disagreements': [dis[s] for s in sorted(dis)], 'float_ties': ties,
            'histograms': hist, 'samples': samples, 'seconds': round(time.time() - t0, 1)}


def _unplain(x):
    if isinstance(x, list):
        return [_unplain(a) for a in x]
    if isinstance(x, dict):
        return dict((k, _unplain(v)) for k, v in x.items())
    return x


def _fix_case(inp):
    """JSON round trip turns tuples into lists and Fractions into strings: rebuild numbers."""
    def num(v):
        if isinstance(v, str):
            f = F(v)
            return int(f) if f.denominator == 1 else f
        return v

    def pts(l):
        return [(num(p[0]), num(p[1])) for p in l]
    c = dict(inp)
    c['A'] = [pts(l) for l in inp['A']]
    if inp['mode'] == 'polyline':
        c['cuts'] = [pts(inp['cuts'][0])]
    else:
        c['cuts'] = [tuple(pts(s)) for s in inp['cuts']]
    return c


def replay(ctx, disagreement):
    grp, inp = disagreement.get('group'), disagreement.get('input')
    if grp is None or inp is None:
        return None
    try:
        if grp in ('split', 'split4'):
            inp = _fix_case(inp)
            grp = 'split4'       # replay with the separate ops
        elif grp == 'key':
            inp = {'t': float(inp['t']), 'p': tuple(float(F(v)) if isinstance(v, str) else v
                                                    for v in inp['p'])}
        elif grp in ('isect', 'merge', 'ops'):
            inp = json.loads(json.dumps(inp))
            if grp == 'isect':
                inp = {'segs': [tuple(tuple(p) for p in s) for s in inp['segs']],
                       'adds': [tuple(tuple(p) for p in s) for s in inp['adds']]}
            if grp == 'merge':
                inp = {'loops': [[tuple(p) for p in l] for l in inp['loops']]}
            if grp == 'ops':
                def tp(o):
                    if o[0] == 'add':
                        return ['add', tuple(o[1]), [tuple(q) for q in o[2]], o[3]]
                    if o[0] == 'insert':
                        return ['insert', tuple(o[1]), tuple(o[2]), tuple(o[3]), o[4]]
                    if o[0] == 'remove_adj':
                        return ['remove_adj', tuple(o[1]), [tuple(q) for q in o[2]]]
                    return ['loop', [tuple(q) for q in o[1]], o[2]]
                inp = {'ops': [tp(o) for o in inp['ops']]}
    except Exception:                                                # noqa
        return None
    grp_, inp_, findings, info, nreq = _evaluate(ctx, [(grp, inp)])[0]
    findings = [f for f in findings if '%s|%s' % (f[0], f[1]) == disagreement.get('signature')] \
        or findings
    if not findings or info.get('ties'):
        return None
    dis = {}
    _record(dis, disagreement.get('seed'), grp, inp, findings[0])
    return list(dis.values())[0]


if __name__ == '__main__':
    class Ctx(object):
        pass
    args = sys.argv[1:]
    nums = [a for a in args if a.lstrip('-').isdigit()]
    ctx = Ctx()
    ctx.seed = int(nums[0]) if nums else int(os.environ.get('VERIF_SEED', '0'))
    ctx.tier = 'thorough' if 'thorough' in args else os.environ.get('VERIF_TIER', 'quick')
    ctx.broken = []
    ctx.driver = lbg.Driver()
    ctx.deadline = time.time() + 3600
    t = time.time()
    r = run(ctx, 'C09')
    print('C09 seed %d %s: %d comparisons, %d non-trivial, %d float ties, %d disagreements, %.1fs'
          % (ctx.seed, ctx.tier, r['requests'], r['nontrivial'], r['float_ties'],
             len(r['disagreements']), time.time() - t))
    for h in sorted(r['histograms']):
        print('   %-12s %s' % (h, sorted(r['histograms'][h].items())))
    for s in r['samples']:
        print('   sample', s)
    bad = 0
    for d in r['disagreements']:
        bad += 1
        print('   DISAGREE', d['what'][:900])
        again = replay(ctx, json.loads(json.dumps(d)))
        print('            replay:', 'reproduced' if again else 'NOT reproduced')
    sys.exit(1 if bad else 0)
