"""Correspondence of the hand models `Model/Colinear.lean` (C15) and `Model/JoinSegments.lean`
(C18) with the real library.

C15  model.remove_colinear_polygon / _polyline2 / _polyline3, model.remove_duplicate /
     remove_duplicate3   vs   Polygon2D.remove_colinear_vertices, Face3D._remove_colinear,
     Face3D.remove_colinear_vertices (faces in random planes; the model is fed the face's own
     `polygon2d`), Polyline2D / Polyline3D.remove_colinear_vertices,
     Polygon2D / Face3D.remove_duplicate_vertices.  Compared: the list of kept POSITIONS of the
     input (exactly), resp. the AssertionError.
C18  model.join_segments / join_segments3   vs   _polyline._group_vertices and
     Polyline2D / Polyline3D.join_segments.  Compared: the chains (vertex lists, exactly) and
     the kind of object built from each chain.

The models are exact (ℚ); the code runs in doubles.  A disagreement whose cause is a threshold
decision with the exact test value inside the rounding band of the threshold is counted in
`float_ties` and not reported.

Stand-alone:  /venv/bin/python /verif/tools/harness/corr/cleanup.py [C15|C18] [seed] [tier]"""
import math
import os
import random
import sys
import time
from fractions import Fraction

_H = os.path.dirname(os.path.dirname(os.path.abspath(__file__)))
if _H not in sys.path:
    sys.path.insert(0, _H)
import lbg  # noqa: E402

from ladybug_geometry.geometry2d.pointvector import Point2D  # noqa: E402
from ladybug_geometry.geometry3d.pointvector import Point3D, Vector3D  # noqa: E402
from ladybug_geometry.geometry2d.polygon import Polygon2D  # noqa: E402
from ladybug_geometry.geometry2d.polyline import Polyline2D  # noqa: E402
from ladybug_geometry.geometry3d.polyline import Polyline3D  # noqa: E402
from ladybug_geometry.geometry2d.line import LineSegment2D  # noqa: E402
from ladybug_geometry.geometry3d.line import LineSegment3D  # noqa: E402
from ladybug_geometry.geometry3d.face import Face3D  # noqa: E402
from ladybug_geometry.geometry3d.plane import Plane  # noqa: E402
from ladybug_geometry import _polyline as _pl  # noqa: E402

PROPS = ['C15', 'C18']
MODELS = ['LbgVerif/Model/Colinear.lean', 'LbgVerif/Model/JoinSegments.lean',
          'LbgVerif/Model/Dispatch_Cleanup.lean']
REAL = ['ladybug_geometry/geometry2d/polygon.py:Polygon2D.remove_colinear_vertices',
        'ladybug_geometry/geometry2d/polygon.py:Polygon2D.remove_duplicate_vertices',
        'ladybug_geometry/geometry3d/face.py:Face3D._remove_colinear',
        'ladybug_geometry/geometry3d/face.py:Face3D.remove_colinear_vertices',
        'ladybug_geometry/geometry3d/face.py:Face3D.remove_duplicate_vertices',
        'ladybug_geometry/geometry2d/polyline.py:Polyline2D.remove_colinear_vertices',
        'ladybug_geometry/geometry3d/polyline.py:Polyline3D.remove_colinear_vertices',
        'ladybug_geometry/_polyline.py:_group_vertices,_build_polyline,_connect_seg_to_poly',
        'ladybug_geometry/geometry2d/polyline.py:Polyline2D.join_segments',
        'ladybug_geometry/geometry3d/polyline.py:Polyline3D.join_segments']
TRUSTED = [
    'C15/C18 model correspondence: the models decide thresholds exactly over Q, the code in '
    'doubles; a differing decision is attributed to rounding (counted as float tie, not '
    'reported) only if a test on the exact path has |value - threshold| <= 1e-9*threshold + '
    '64 ulp of the summed magnitudes of the products that are added up (cancellation bound), '
    'resp. if the is_equivalent formula evaluated in doubles differs from its exact value',
    'C15: Face3D.remove_colinear_vertices is compared on the index level only; the projection '
    'to the face plane (Face3D.polygon2d) is taken from the real object',
    'C15: faces with holes (the same scan applied per loop) are not generated',
    'C18: the end points given to the model are the ones the library reads (seg.p1, '
    'seg.p2 = p + v); a LineSegment rebuilt from a two-vertex chain is compared within 1e-9']

W = lbg.wnum
EPS = 2.0 ** -52
QUICK_BUDGET, THOROUGH_BUDGET = 16.0, 240.0
BATCH = 12000


# ====================================================================== helpers
def _w(p):
    return [W(c) for c in p]


def _coords(p):
    return (p.x, p.y, p.z) if hasattr(p, 'z') else (p.x, p.y)


def _positions(orig, kept):
    pos = dict((id(p), i) for i, p in enumerate(orig))
    return [pos[id(p)] for p in kept]


def _canon_pts(j):
    """wire list of chains -> Fractions."""
    return [[[lbg.rnum(c) for c in p] for p in chain] for chain in j]


def _pyidx(n, j):
    return j + n if j < 0 else j


# ---------------------------------------------------------------------- exact tests with band
def _tri2(P, tol, i2, i1, i0):
    """2D test of the source on exact numbers -> (keep, inside the rounding band)."""
    v2, v1, v = P[i2], P[i1], P[i0]
    prods = [v2[0] * v1[1], v2[1] * v1[0], v1[0] * v[1], v1[1] * v[0], v[0] * v2[1],
             v[1] * v2[0]]
    a = prods[0] - prods[1] + prods[2] - prods[3] + prods[4] - prods[5]
    bsq = (v[0] - v2[0]) ** 2 + (v[1] - v2[1]) ** 2
    if bsq < tol * tol:
        bsq = tol * tol
    keep = 4 * a * a >= bsq * tol * tol
    thr = math.sqrt(float(bsq)) * float(tol) / 2
    slack = 64 * EPS * float(sum(abs(p) for p in prods))
    return keep, abs(float(abs(a)) - thr) <= 1e-9 * thr + slack


def _tri3(P, tol, i2, i1, i0):
    """3D test: `P[i1]` is tested in the triangle `P[i2] P[i1] P[i0]`."""
    v2, v, v3 = P[i2], P[i1], P[i0]
    d1 = [a - b for a, b in zip(v2, v)]
    d2 = [a - b for a, b in zip(v3, v)]
    prods = [d1[1] * d2[2], d1[2] * d2[1], d1[2] * d2[0], d1[0] * d2[2], d1[0] * d2[1],
             d1[1] * d2[0]]
    c = (prods[0] - prods[1], prods[2] - prods[3], prods[4] - prods[5])
    asq = sum(x * x for x in c)
    bsq = sum((a - b) ** 2 for a, b in zip(v3, v2))
    if bsq < tol * tol:
        bsq = tol * tol
    keep = 4 * asq >= bsq * tol * tol
    thr = math.sqrt(float(bsq)) * float(tol) / 2
    big = float(max(abs(x) for p in (v2, v, v3) for x in p))
    slack = 64 * EPS * (float(sum(abs(p) for p in prods)) +
                        big * float(sum(abs(x) for x in d1 + d2)))
    return keep, abs(math.sqrt(float(asq)) - thr) <= 1e-9 * thr + slack


def _polygon_walk(n, test):
    """The closed-loop scan (python transcription of Model/Colinear.polygonIdx) ->
    (kept positions | None, some visited test lies in the rounding band)."""
    out, skip, first, is_first, band = [], 0, 0, True, False
    for i in range(n):
        keep, b = test(_pyidx(n, i - 2 - skip), _pyidx(n, i - 1), i)
        band = band or b
        if keep:
            out.append(_pyidx(n, i - 1))
            skip = 0
            if is_first:
                is_first, first = False, i - 1
        else:
            skip += 1
    if skip != 0 and first != -1:
        if 2 + skip > n:
            return None, band
        keep, b = test(_pyidx(n, -2 - skip), n - 1, _pyidx(n, first))
        band = band or b
        if keep:
            out.append(n - 1)
    return out, band


def _polyline_walk(n, test):
    if n == 3:
        return [0, 1, 2], False
    out, skip, band = [0], 0, False
    for i in range(n - 2):
        keep, b = test(_pyidx(n, i - skip), i + 1, i + 2)
        band = band or b
        if keep:
            out.append(i + 1)
            skip = 0
        else:
            skip += 1
    return out + [n - 1], band


def _eqv_exact_vs_float(p, q, tol):
    """is_equivalent: (exact value, value of the source formula in doubles)."""
    ex = all(abs(Fraction(a) - Fraction(b)) <= Fraction(tol) for a, b in zip(p, q))
    fl = all(abs(a - b) <= tol for a, b in zip(p, q))
    return ex, fl


# ====================================================================== kinds
class Kind(object):
    """One family of comparisons.  case(inp) -> (requests, real) runs the real code (expected
    exceptions are part of `real`, anything else propagates and becomes a disagreement);
    judge(inp, answers, real) -> None | 'tie' | (what_class, detail, model)."""
    prop = None
    ops = ()

    def case(self, inp):
        raise NotImplementedError

    def judge(self, inp, answers, real):
        raise NotImplementedError

    def shrink(self, inp):
        return []

    def nontrivial(self, inp, real):
        return True

    def size(self, inp):
        return 0


class _IdxKind(Kind):
    """Kinds whose result is a list of kept positions or 'assert'."""
    prop = 'C15'
    dim = 2
    op = None
    model_ctor_min = 3      # the public method builds an object that asserts >= 3 vertices

    def pts_for_model(self, inp):
        return inp['pts']

    def case(self, inp):
        real, mpts = self.real(inp)
        return [(self.op, [[_w(p) for p in mpts], W(inp['tol'])])], \
            {'res': real, 'mpts': [list(p) for p in mpts]}

    def real(self, inp):
        raise NotImplementedError

    def norm_model(self, val):
        if val is None:
            return 'assert'
        val = [int(i) for i in val]
        return 'assert' if len(val) < self.model_ctor_min else val

    def walk(self, mpts, tol):
        return None, False

    def judge(self, inp, answers, real):
        ok, val = answers[0]
        if not ok:
            return ('driver error', str(val)[:200], None)
        model = self.norm_model(val)
        r = real['res']
        if model == r:
            return None
        P = [[Fraction(c) for c in p] for p in real['mpts']]
        w, band = self.walk(P, Fraction(inp['tol']))
        if band and self.norm_model(w) == model:
            return 'tie'        # the exact path passes a test inside the rounding band
        if model == 'assert':
            cls = 'model raises AssertionError, real returns vertices'
        elif r == 'assert':
            cls = 'real raises AssertionError, model returns vertices'
        else:
            ms, rs = set(model), set(r)
            if rs > ms:
                cls = 'real keeps vertices the model removes'
            elif rs < ms:
                cls = 'real removes vertices the model keeps'
            elif rs == ms:
                cls = 'same vertices in a different order'
            else:
                cls = 'kept vertices differ both ways'
        return (cls, 'n=%d tol=%r model=%s real=%s' % (len(inp['pts']), inp['tol'], model, r),
                model)

    def shrink(self, inp):
        pts = inp['pts']
        n = len(pts)
        out = []
        for size in (n // 2, n // 4, 1):
            if size < 1:
                continue
            step = max(1, size)
            for s in range(0, n, step if size > 1 else 1):
                q = pts[:s] + pts[s + size:]
                if len(q) >= 3 and len(q) < n:
                    d = dict(inp)
                    d['pts'] = q
                    out.append(d)
        return out

    def nontrivial(self, inp, real):
        r = real['res']
        return r == 'assert' or len(r) < len(inp['pts'])

    def size(self, inp):
        return len(inp['pts'])


class PolygonColinear(_IdxKind):
    op = 'model.remove_colinear_polygon'

    def real(self, inp):
        vs = [Point2D(*p) for p in inp['pts']]
        poly = Polygon2D(vs)
        try:
            new = poly.remove_colinear_vertices(inp['tol'])
        except AssertionError:
            return 'assert', inp['pts']
        return _positions(vs, new.vertices), inp['pts']

    def walk(self, P, tol):
        return _polygon_walk(len(P), lambda a, b, c: _tri2(P, tol, a, b, c))


_FACE = Face3D([Point3D(0, 0, 0), Point3D(1, 0, 0), Point3D(0, 1, 0)])


class FaceColinearPrivate(PolygonColinear):
    """Face3D._remove_colinear(pts_3d, pts_2d, tol): returns a list, no constructor."""
    model_ctor_min = 0

    def real(self, inp):
        p2 = [Point2D(*p) for p in inp['pts']]
        p3 = [Point3D(p[0], p[1], 0) for p in inp['pts']]
        try:
            new = _FACE._remove_colinear(p3, p2, inp['tol'])
        except AssertionError:
            return 'assert', inp['pts']
        return _positions(p3, new), inp['pts']


class FaceColinearPublic(PolygonColinear):
    """Face3D.remove_colinear_vertices on a face in any plane; inp['pts'] are 3D points,
    inp['plane'] (optional) = [normal, origin] passed to the constructor."""

    def real(self, inp):
        vs = [Point3D(*p) for p in inp['pts']]
        if inp.get('plane'):
            face = Face3D(vs, Plane(Vector3D(*inp['plane'][0]), Point3D(*inp['plane'][1])))
        else:
            face = Face3D(vs)
        orig = list(face.vertices)
        mpts = [(p.x, p.y) for p in face.polygon2d.vertices]
        try:
            new = face.remove_colinear_vertices(inp['tol'])
        except AssertionError:
            return 'assert', mpts
        return _positions(orig, new.vertices), mpts


class PolygonDuplicate(_IdxKind):
    op = 'model.remove_duplicate'

    def real(self, inp):
        vs = [Point2D(*p) for p in inp['pts']]
        poly = Polygon2D(vs)
        try:
            new = poly.remove_duplicate_vertices(inp['tol'])
        except AssertionError:
            return 'assert', inp['pts']
        return _positions(vs, new.vertices), inp['pts']

    def walk(self, P, tol):
        n = len(P)
        out, band = [], False
        for i in range(n):
            ex, fl = _eqv_exact_vs_float([float(c) for c in P[i]], [float(c) for c in P[i - 1]],
                                         float(tol))
            band = band or ex != fl
            if not ex:
                out.append(i)
        return out, band


class FaceDuplicate(PolygonDuplicate):
    op = 'model.remove_duplicate3'
    dim = 3

    def real(self, inp):
        vs = [Point3D(*p) for p in inp['pts']]
        try:
            face = Face3D(vs)
            orig = list(face.vertices)
            mpts = [_coords(p) for p in orig]
            new = face.remove_duplicate_vertices(inp['tol'])
        except AssertionError:
            return 'assert', inp['pts']
        return _positions(orig, new.vertices), mpts


class Polyline2Colinear(_IdxKind):
    op = 'model.remove_colinear_polyline2'

    def real(self, inp):
        vs = [Point2D(*p) for p in inp['pts']]
        try:
            new = Polyline2D(vs).remove_colinear_vertices(inp['tol'])
        except AssertionError:
            return 'assert', inp['pts']
        return _positions(vs, new.vertices), inp['pts']

    def walk(self, P, tol):
        return _polyline_walk(len(P), lambda a, b, c: _tri2(P, tol, a, b, c))


class Polyline3Colinear(_IdxKind):
    op = 'model.remove_colinear_polyline3'
    dim = 3

    def real(self, inp):
        vs = [Point3D(*p) for p in inp['pts']]
        try:
            new = Polyline3D(vs).remove_colinear_vertices(inp['tol'])
        except AssertionError:
            return 'assert', inp['pts']
        return _positions(vs, new.vertices), inp['pts']

    def walk(self, P, tol):
        return _polyline_walk(len(P), lambda a, b, c: _tri3(P, tol, a, b, c))


class Join(Kind):
    prop = 'C18'

    def __init__(self, dim):
        self.dim = dim
        self.op = 'model.join_segments' if dim == 2 else 'model.join_segments3'
        self.seg = LineSegment2D if dim == 2 else LineSegment3D
        self.pt = Point2D if dim == 2 else Point3D
        self.poly = Polyline2D if dim == 2 else Polyline3D

    def case(self, inp):
        tol = inp['tol']
        objs = [self.seg.from_end_points(self.pt(*a), self.pt(*b)) for a, b in inp['segs']]
        ends = [[_coords(s.p1), _coords(s.p2)] for s in objs]
        args = [[[_w(a), _w(b)] for a, b in ends], W(tol)]
        if len(objs) >= 2:
            grouped = [[_coords(p) for p in chain] for chain in _pl._group_vertices(objs, tol)]
        else:
            grouped = None
        joined = self.poly.join_segments(objs, tol)
        jn = []
        for o in joined:
            if isinstance(o, self.seg):
                jn.append(['segment', [_coords(o.p1), _coords(o.p2)]])
            elif isinstance(o, self.poly):
                jn.append(['polyline', [_coords(p) for p in o.vertices]])
            else:
                jn.append([type(o).__name__, []])
        return [(self.op, args)], {'grouped': grouped, 'joined': jn, 'ends': ends}

    def judge(self, inp, answers, real):
        ok, val = answers[0]
        if not ok:
            return ('driver error', str(val)[:200], None)
        model = _canon_pts(val)
        what = None
        if real['grouped'] is not None:
            g = [[[Fraction(c) for c in p] for p in ch] for ch in real['grouped']]
            if g != model:
                what = ('_group_vertices: chains differ',
                        'model %s real %s' % (_short(model), _short(g)))
        if what is None:
            jn = real['joined']
            if [len(ch) for ch in model] != [len(v) for (_, v) in jn]:
                what = ('join_segments: chain lengths differ', 'model %s real %s' % (
                    [len(ch) for ch in model], [len(v) for (_, v) in jn]))
            else:
                for ch, (kind, vs) in zip(model, jn):
                    want = 'segment' if len(ch) == 2 else 'polyline'
                    if kind != want:
                        what = ('join_segments: wrong object kind',
                                '%s for a chain of %d vertices' % (kind, len(ch)))
                        break
                    for k, (a, b) in enumerate(zip(ch, vs)):
                        exact = kind == 'polyline' or k == 0
                        for x, y in zip(a, b):
                            d = abs(x - Fraction(y))
                            if (exact and d != 0) or d > Fraction(1, 10 ** 9) * (1 + abs(x)):
                                what = ('join_segments: vertices differ',
                                        'model %s real %s' % (_short([ch]), vs))
                    if what:
                        break
        if what is None:
            return None
        # rounding: is_equivalent decided differently in doubles than exactly on some pair
        pts = [p for e in real['ends'] for p in e]
        for p in pts:
            for q in pts:
                ex, fl = _eqv_exact_vs_float(p, q, inp['tol'])
                if ex != fl:
                    return 'tie'
        return (what[0], 'nseg=%d tol=%r %s' % (len(inp['segs']), inp['tol'], what[1]),
                [[[W(c) for c in p] for p in ch] for ch in model])

    def shrink(self, inp):
        segs = inp['segs']
        out = []
        n = len(segs)
        for size in (n // 2, 1):
            if size < 1:
                continue
            for s in range(0, n, size):
                q = segs[:s] + segs[s + size:]
                if len(q) < n:
                    out.append({'segs': q, 'tol': inp['tol']})
        return out

    def nontrivial(self, inp, real):
        return any(len(v) > 2 for (_, v) in real['joined'])

    def size(self, inp):
        return len(inp['segs'])


def _short(chains):
    return [[tuple(float(c) for c in p) for p in ch] for ch in chains]


KINDS = {
    'Polygon2D.remove_colinear_vertices': PolygonColinear(),
    'Face3D._remove_colinear': FaceColinearPrivate(),
    'Face3D.remove_colinear_vertices': FaceColinearPublic(),
    'Polygon2D.remove_duplicate_vertices': PolygonDuplicate(),
    'Face3D.remove_duplicate_vertices': FaceDuplicate(),
    'Polyline2D.remove_colinear_vertices': Polyline2Colinear(),
    'Polyline3D.remove_colinear_vertices': Polyline3Colinear(),
    'Polyline2D.join_segments': Join(2),
    'Polyline3D.join_segments': Join(3),
}
K_POLYGON, K_FACE, K_FACE3, K_DUP, K_DUP3, K_PL2, K_PL3, K_J2, K_J3 = (
    'Polygon2D.remove_colinear_vertices', 'Face3D._remove_colinear',
    'Face3D.remove_colinear_vertices', 'Polygon2D.remove_duplicate_vertices',
    'Face3D.remove_duplicate_vertices', 'Polyline2D.remove_colinear_vertices',
    'Polyline3D.remove_colinear_vertices', 'Polyline2D.join_segments',
    'Polyline3D.join_segments')


# ====================================================================== engine
class _Engine(object):
    def __init__(self, ctx, prop):
        self.ctx, self.prop = ctx, prop
        self.t0 = time.time()
        thorough = ctx.tier == 'thorough' or bool(getattr(ctx, 'broken', None))
        self.thorough = thorough
        budget = THOROUGH_BUDGET if thorough else QUICK_BUDGET
        self.t_end = min(getattr(ctx, 'deadline', self.t0 + budget), self.t0 + budget)
        self.t_gen = self.t0 + 0.35 * max(0.0, self.t_end - self.t0)
        self.cases = []          # (kind, inp, stream, requests, real)
        self.dis = {}            # signature -> disagreement (smallest seen)
        self.hist = {'kind': {}, 'stream': {}, 'size': {}, 'outcome': {}}
        self.requests = self.nontrivial = self.ties = 0
        self.samples = []
        self.tie_samples = []

    def more(self):
        return time.time() < self.t_gen

    def count(self, h, k):
        self.hist[h][k] = self.hist[h].get(k, 0) + 1

    def record(self, kind, inp, cls, detail, op, args, model, real):
        sig = '%s|%s' % (kind, cls)
        d = {'signature': sig, 'what': ('%s: %s' % (sig, detail))[:600], 'op': op, 'args': args,
             'model': model, 'real': real, 'seed': self.ctx.seed, 'kind': kind, 'input': inp}
        old = self.dis.get(sig)
        if old is None or KINDS[kind].size(inp) < KINDS[old['kind']].size(old['input']):
            self.dis[sig] = d
        return d

    def add(self, kind, inp, stream='-'):
        k = KINDS[kind]
        if k.prop != self.prop:
            return
        try:
            reqs, real = k.case(inp)
        except Exception as e:      # the real code raised something the model does not know
            self.requests += 1
            self.count('kind', kind)
            self.count('outcome', 'raises ' + type(e).__name__)
            self.record(kind, inp, 'raises %s' % type(e).__name__, '%s on %s' % (
                str(e)[:150], _brief(inp)), getattr(k, 'op', None), None, None,
                'raises %s' % type(e).__name__)
            return
        self.cases.append((kind, inp, stream, reqs, real))

    def evaluate(self, cases):
        """Run the model on the cases (batched) -> list of judge results."""
        flat = [r for c in cases for r in c[3]]
        ans = []
        for s in range(0, len(flat), BATCH):
            ans.extend(self.ctx.driver.run(flat[s:s + BATCH]))
        out, pos = [], 0
        for (kind, inp, stream, reqs, real) in cases:
            a = ans[pos:pos + len(reqs)]
            pos += len(reqs)
            try:
                out.append(KINDS[kind].judge(inp, a, real))
            except Exception as e:
                out.append(('judge crashed %s' % type(e).__name__, str(e)[:200], None))
        return out

    def run(self):
        verdicts = self.evaluate(self.cases)
        for (kind, inp, stream, reqs, real), v in zip(self.cases, verdicts):
            k = KINDS[kind]
            self.requests += len(reqs)
            self.count('kind', kind)
            self.count('stream', stream)
            self.count('size', '%02d' % min(k.size(inp), 64))
            if v == 'tie':
                self.ties += 1
                self.count('outcome', 'float tie')
                if len(self.tie_samples) < 3:
                    self.tie_samples.append({'kind': kind, 'stream': stream, 'input': inp})
                continue
            try:
                nt = k.nontrivial(inp, real)
            except Exception:
                nt = False
            self.nontrivial += 1 if nt else 0
            if v is None:
                self.count('outcome', _outcome(real))
                if nt and len(self.samples) < 3 and k.size(inp) <= 8 and \
                        kind not in [s['kind'] for s in self.samples]:
                    self.samples.append({'kind': kind, 'input': inp, 'op': reqs[0][0],
                                         'real': _jsonable(real)})
                continue
            self.count('outcome', 'DISAGREE')
            self.hist.setdefault('disagree_by_stream', {})
            self.count('disagree_by_stream', '%s @ %s' % (kind, stream))
            self.record(kind, inp, v[0], v[1], reqs[0][0], reqs[0][1], v[2], _jsonable(real))
        # shrink the representative of every signature while there is time
        for sig in sorted(self.dis):
            self.dis[sig] = self.shrink(self.dis[sig])
        return {
            'requests': self.requests, 'nontrivial': self.nontrivial, 'rule': RULES[self.prop],
            'disagreements': [self.dis[s] for s in sorted(self.dis)],
            'float_ties': self.ties, 'histograms': self.hist, 'samples': self.samples,
            'float_tie_samples': self.tie_samples,
            'seconds': round(time.time() - self.t0, 1)}

    def one(self, kind, inp):
        """Evaluate a single input -> disagreement dict, 'tie' or None."""
        sub = _Engine(self.ctx, KINDS[kind].prop)
        sub.t_end = self.t_end
        sub.add(kind, inp)
        if sub.dis:
            return list(sub.dis.values())[0]
        (v,) = sub.evaluate(sub.cases)
        if v is None or v == 'tie':
            return v
        (kind, inp, stream, reqs, real) = sub.cases[0]
        return sub.record(kind, inp, v[0], v[1], reqs[0][0], reqs[0][1], v[2], _jsonable(real))

    def shrink(self, d):
        kind = d['kind']
        k = KINDS[kind]
        for _ in range(6):
            if time.time() + 5 > self.t_end:
                break
            cands = k.shrink(d['input'])[:400]
            if not cands:
                break
            sub = _Engine(self.ctx, k.prop)
            for c in cands:
                sub.add(kind, c)
            found = [x for x in sub.dis.values() if x['signature'] == d['signature']]
            if sub.cases:
                for (kd, inp, stream, reqs, real), v in zip(sub.cases, sub.evaluate(sub.cases)):
                    if v is not None and v != 'tie' and '%s|%s' % (kd, v[0]) == d['signature']:
                        found.append(sub.record(kd, inp, v[0], v[1], reqs[0][0], reqs[0][1],
                                                v[2], _jsonable(real)))
            if not found:
                break
            d = min(found, key=lambda x: k.size(x['input']))
        return d


def _brief(inp):
    s = repr(inp)
    return s if len(s) < 300 else s[:300] + '…'


def _outcome(real):
    if isinstance(real, dict) and 'res' in real:
        r = real['res']
        return 'AssertionError' if r == 'assert' else 'vertices'
    if isinstance(real, dict) and 'joined' in real:
        return '%d chain(s)' % min(len(real['joined']), 6)
    return 'ok'


def _jsonable(real):
    if isinstance(real, dict) and 'res' in real:
        return real['res']
    if isinstance(real, dict) and 'joined' in real:
        return real['grouped'] if real['grouped'] is not None else real['joined']
    return real


RULES = {
    'C15': 'one comparison = one model request (kept positions) against one run of the real '
           'method on the same vertex list; fixed corpus (degenerate loops in every rotation, '
           'every AssertionError branch), decorated star loops in every rotation, near-threshold '
           'walks, shallow curves (every 3 consecutive vertices colinear within tolerance, runs '
           'accumulate beyond it) in the XY plane / rotated / in random planes; non-trivial = '
           'the real method removes at least one vertex or raises AssertionError',
    'C18': 'one comparison = model chains against _group_vertices and join_segments on the same '
           'segment soup (lattice soups with jitter below tol/4, exact-threshold dyadic soups, '
           'shuffled chains / rings / stars); non-trivial = some chain has more than 2 vertices',
}


# ====================================================================== generators (C15)
def base_loop(R, k):
    """Star-shaped loop with k corners, each turning by at least 5 degrees."""
    while True:
        angs = sorted(R.uniform(0, 2 * math.pi) for _ in range(k))
        rad = [R.uniform(2.0, 10.0) for _ in range(k)]
        pts = [(round(r * math.cos(a) * 64) / 64.0, round(r * math.sin(a) * 64) / 64.0)
               for a, r in zip(angs, rad)]
        ok = True
        for i in range(k):
            a, b, c = pts[i - 1], pts[i], pts[(i + 1) % k]
            u = (b[0] - a[0], b[1] - a[1])
            v = (c[0] - b[0], c[1] - b[1])
            lu, lv = math.hypot(*u), math.hypot(*v)
            if lu < 0.5 or lv < 0.5:
                ok = False
                break
            turn = abs(math.atan2(u[0] * v[1] - u[1] * v[0], u[0] * v[0] + u[1] * v[1]))
            if turn < math.radians(5) or turn > math.radians(175):
                ok = False
                break
        if ok:
            return pts


def decorate(R, pts, dup=True):
    """0..3 exactly collinear dyadic points per edge, 0..2 exact duplicates per vertex."""
    out = []
    k = len(pts)
    for i in range(k):
        a, b = pts[i], pts[(i + 1) % k]
        out.append(a)
        if dup:
            for _ in range(R.choice([0, 0, 0, 1, 2])):
                out.append(a)
        ts = sorted(set(R.choice([1, 2, 3, 4, 5, 6, 7]) / 8.0 for _ in range(R.randint(0, 3))))
        for t in ts:
            out.append((a[0] + t * (b[0] - a[0]), a[1] + t * (b[1] - a[1])))
    return out


def jitter(R, pts, amp):
    return [(x + R.uniform(-amp, amp), y + R.uniform(-amp, amp)) for x, y in pts]


def rotations(pts):
    return [pts[r:] + pts[:r] for r in range(len(pts))]


def near_threshold(R, n, tol):
    """Random walk whose vertices are offset from the chord by amounts around tol/2."""
    pts = [(0.0, 0.0)]
    ang = R.uniform(0, 2 * math.pi)
    for i in range(n - 1):
        if R.random() < 0.3:
            ang += R.uniform(-2.5, 2.5)
        step = R.choice([tol / 2, tol, 3 * tol, 0.5, 2.0])
        off = R.choice([0, 0, tol / 4, tol / 2.2, tol / 1.8, tol, -tol / 3])
        x, y = pts[-1]
        pts.append((x + step * math.cos(ang) - off * math.sin(ang),
                    y + step * math.sin(ang) + off * math.cos(ang)))
    return pts


def shallow_curve(R, n, tol):
    """y = k x^2 at spacing s with k s^2 = tol / c, c in (2.3, 9): the triangle of three
    consecutive vertices has height < tol (colinear), the triangle from the last kept vertex
    over m steps exceeds the tolerance once m >= c/2 (about): a scan that measures from the
    direct predecessor instead of the last kept vertex removes everything."""
    c = R.uniform(2.3, 9.0)
    s = R.choice([1.0, 1.0, 0.5, 2.0])
    k = tol / (c * s * s)
    sgn = R.choice([1.0, -1.0])
    flip = R.choice([None, None, n // 2])    # S-curve: curvature changes sign half way
    pts = []
    for j in range(n):
        x = s * j
        if flip is not None and j > flip:
            xf = s * flip
            y = sgn * k * (xf * xf + 2 * xf * (x - xf) - (x - xf) ** 2)
        else:
            y = sgn * k * x * x
        pts.append((x, y))
    return pts, sgn


def place2(R, pts):
    """Random rigid motion in the plane (identity with probability 1/3)."""
    if R.random() < 0.33:
        return [tuple(p) for p in pts]
    a = R.uniform(0, 2 * math.pi)
    ca, sa = math.cos(a), math.sin(a)
    tx, ty = R.uniform(-20, 20), R.uniform(-20, 20)
    return [(tx + ca * x - sa * y, ty + sa * x + ca * y) for x, y in pts]


def rand_frame(R):
    """Random orthonormal frame (o, ex, ey, n)."""
    while True:
        n = Vector3D(R.gauss(0, 1), R.gauss(0, 1), R.gauss(0, 1))
        w = Vector3D(R.gauss(0, 1), R.gauss(0, 1), R.gauss(0, 1))
        if n.magnitude > 0.1 and n.cross(w).magnitude > 0.1:
            break
    n = n.normalize()
    ex = n.cross(w).normalize()
    ey = n.cross(ex).normalize()
    o = Point3D(R.uniform(-20, 20), R.uniform(-20, 20), R.uniform(-20, 20))
    return o, ex, ey, n


def lift(frame, pts):
    o, ex, ey, n = frame
    return [(o.x + ex.x * x + ey.x * y, o.y + ex.y * x + ey.y * y, o.z + ex.z * x + ey.z * y)
            for x, y in pts]


def fixed_c15(E):
    tol = 0.01
    sq = [(0.0, 0.0), (2.0, 0.0), (2.0, 2.0), (0.0, 2.0)]
    sqm = [(0.0, 0.0), (1.0, 0.0), (2.0, 0.0), (2.0, 1.0), (2.0, 2.0), (1.0, 2.0), (0.0, 2.0),
           (0.0, 1.0)]
    tri_dup = [(0.0, 0.0), (0.0, 0.0), (3.0, 0.0), (3.0, 0.0), (3.0, 0.0), (0.0, 4.0)]
    par = [(float(x), 0.002 * x * x) for x in range(9)]
    for pts in (sq, sqm, tri_dup, par + [(8.0, -5.0), (0.0, -5.0)]):
        for rot in rotations(pts) + rotations(pts[::-1]):
            for kd in (K_POLYGON, K_FACE, K_DUP):
                E.add(kd, {'pts': rot, 'tol': tol}, 'fixed')
            p3 = [(x, y, 0.5 * x + 0.25 * y + 3) for x, y in rot]
            E.add(K_DUP3, {'pts': p3, 'tol': tol}, 'fixed')
            E.add(K_FACE3, {'pts': p3, 'tol': tol}, 'fixed')
            E.add(K_FACE3, {'pts': [(x, y, 1.0) for x, y in rot], 'tol': tol,
                            'plane': [[0.0, 0.0, -1.0], [0.0, 0.0, 1.0]]}, 'fixed')
    # degenerate: everything collinear / all equal (exercises the assert of the seam patch)
    for n in (3, 4, 5, 7):
        for pts in ([(float(i), 0.0) for i in range(n)], [(1.0, 1.0)] * n,
                    [(0.0, 0.0)] * (n - 1) + [(1.0, 0.0)],
                    [(0.0, 0.0), (1.0, 0.0)] + [(1.0, 1.0)] * (n - 2)):
            for rot in rotations(pts):
                for kd in (K_POLYGON, K_FACE, K_DUP):
                    E.add(kd, {'pts': rot, 'tol': tol}, 'fixed-degenerate')
    # open chains: 3 vertices (returned as is), everything collinear (2 left: assert), curve
    for pts in ([(0.0, 0.0), (1.0, 0.0), (2.0, 0.0)], [(float(i), 0.0) for i in range(4)],
                [(float(i), 0.0) for i in range(6)], sqm, sqm[::-1], par, par[::-1],
                [(0.0, 0.0)] * 4, [(0.0, 0.0), (0.0, 0.0), (1.0, 0.0), (1.0, 1.0), (1.0, 1.0)]):
        E.add(K_PL2, {'pts': pts, 'tol': tol}, 'fixed')
        E.add(K_PL3, {'pts': [(x, y, 0.0) for x, y in pts], 'tol': tol}, 'fixed')
        E.add(K_PL3, {'pts': [(x, y, 2 * x - y + 1) for x, y in pts], 'tol': tol}, 'fixed')


def gen_c15(E, seed):
    fixed_c15(E)
    R = random.Random('%s/corr.cleanup/C15/loops' % seed)
    S = random.Random('%s/corr.cleanup/C15/shallow' % seed)
    T = random.Random('%s/corr.cleanup/C15/threshold' % seed)
    tols = [1e-3, 1e-2, 0.0078125]
    scale = 14 if E.thorough else 1
    n_loops, n_thr, n_shal = 24 * scale, 150 * scale, 120 * scale
    rounds = max(n_loops, n_thr, n_shal)
    for k in range(rounds):
        if not E.more():
            break
        # ---------------- decorated loops, every rotation
        if k < n_loops:
            base = base_loop(R, R.randint(3, 8))
            if R.random() < 0.5:
                base = base[::-1]
            tol = R.choice(tols)
            dec = decorate(R, base)
            stream = 'decorated'
            if k % 3 == 2:
                dec = jitter(R, dec, tol / 10)
                stream = 'decorated+jitter'
            if len(dec) <= 40:
                a3, b3, c3 = R.choice([0, 0.5, -1]), R.choice([0, 0.25, 2]), R.choice([0, 3])
                frame = rand_frame(R)
                for rot in rotations(dec):
                    E.add(K_POLYGON, {'pts': rot, 'tol': tol}, stream)
                    E.add(K_FACE, {'pts': rot, 'tol': tol}, stream)
                    E.add(K_DUP, {'pts': rot, 'tol': tol}, stream)
                    r3 = [(x, y, a3 * x + b3 * y + c3) for x, y in rot]
                    E.add(K_DUP3, {'pts': r3, 'tol': tol}, stream)
                for rot in R.sample(rotations(dec), min(len(dec), 6)):
                    E.add(K_FACE3, {'pts': lift(frame, rot), 'tol': tol}, stream + '/plane')
            # open chains: the decorated loop cut open
            for rot in rotations(decorate(R, base, dup=False))[:6]:
                if len(rot) < 3:
                    continue
                E.add(K_PL2, {'pts': rot, 'tol': tol}, 'decorated-open')
                a, b, c = R.choice([0, 0.5, -1]), R.choice([0, 0.25, 2]), R.choice([0, 3])
                E.add(K_PL3, {'pts': [(x, y, a * x + b * y + c) for x, y in rot], 'tol': tol},
                      'decorated-open')
        # ---------------- near-threshold walks
        if k < n_thr:
            tol = T.choice(tols)
            pts = near_threshold(T, T.randint(3, 14), tol)
            for kd in (K_POLYGON, K_FACE, K_DUP, K_PL2):
                E.add(kd, {'pts': pts, 'tol': tol}, 'near-threshold')
            p3 = [(x, y, T.choice([0.0, 0.0, tol / 2, 1.0])) for x, y in pts]
            E.add(K_PL3, {'pts': p3, 'tol': tol}, 'near-threshold')
        # ---------------- shallow curves
        if k < n_shal:
            tol = S.choice(tols)
            n = S.randint(6, 28)
            cur, sgn = shallow_curve(S, n, tol)
            if S.random() < 0.5:
                cur = cur[::-1]
            # open chains, in the XY plane (rigidly placed) and in random planes
            pl2 = place2(S, cur)
            E.add(K_PL2, {'pts': pl2, 'tol': tol}, 'shallow')
            E.add(K_PL3, {'pts': [(x, y, 0.0) for x, y in pl2], 'tol': tol}, 'shallow/xy')
            E.add(K_PL3, {'pts': lift(rand_frame(S), cur), 'tol': tol}, 'shallow/plane')
            # closed loops: the curve plus two far corners, some rotations of the start
            xs = [p[0] for p in cur]
            far = -sgn * 6.0
            loop = cur + ([(xs[-1], far), (xs[0], far)])
            rots = rotations(loop)
            pick = rots if E.thorough and k % 4 == 0 else S.sample(rots, min(len(rots), 5))
            for rot in pick:
                rp = place2(S, rot)
                E.add(K_POLYGON, {'pts': rp, 'tol': tol}, 'shallow')
                E.add(K_FACE, {'pts': rp, 'tol': tol}, 'shallow')
                E.add(K_FACE3, {'pts': [(x, y, 0.0) for x, y in rp], 'tol': tol}, 'shallow/xy')
                E.add(K_FACE3, {'pts': lift(rand_frame(S), rot), 'tol': tol}, 'shallow/plane')


# ====================================================================== generators (C18)
def soup(R, dim, big=False):
    """Lattice chains cut into segments, end points jittered by less than tol/4, shuffled."""
    tol = R.choice([1e-3, 1e-2])
    segs = []
    for _ in range(R.randint(1, 10 if big else 6)):
        n = R.randint(2, 7)
        pts = [tuple(R.randint(-6, 6) / 2.0 for _ in range(dim)) for _ in range(n)]
        if R.random() < 0.4:
            pts.append(pts[0])
        for a, b in zip(pts, pts[1:]):
            if a == b and R.random() < 0.9:
                continue
            ja = tuple(c + R.uniform(-tol / 4, tol / 4) for c in a) if R.random() < 0.5 else a
            jb = tuple(c + R.uniform(-tol / 4, tol / 4) for c in b) if R.random() < 0.5 else b
            segs.append((jb, ja) if R.random() < 0.5 else (ja, jb))
    R.shuffle(segs)
    return segs, tol


def threshold_soup(R, dim):
    """Dyadic lattice and dyadic tolerance: end points offset by exactly 0, tol/2, tol,
    tol + 2^-20, 2 tol in one coordinate (double arithmetic is exact: no rounding)."""
    tol = R.choice([0.0078125, 0.0009765625, 0.25])
    offs = [0.0, 0.0, tol / 2, -tol / 2, tol, -tol, tol + 2.0 ** -20, -tol - 2.0 ** -20,
            2 * tol]
    segs = []
    for _ in range(R.randint(1, 4)):
        n = R.randint(2, 6)
        pts = [tuple(float(R.randint(-3, 3)) for _ in range(dim)) for _ in range(n)]
        if R.random() < 0.4:
            pts.append(pts[0])
        for a, b in zip(pts, pts[1:]):
            if a == b:
                continue

            def move(p):
                q = list(p)
                q[R.randrange(dim)] += R.choice(offs)
                if R.random() < 0.3:
                    q[R.randrange(dim)] += R.choice(offs)
                return tuple(q)
            ja, jb = move(a), move(b)
            segs.append((jb, ja) if R.random() < 0.5 else (ja, jb))
    R.shuffle(segs)
    return segs, tol


def fixed_c18(E):
    for dim, kd in ((2, K_J2), (3, K_J3)):
        def p(x, y):
            return (float(x), float(y)) if dim == 2 else (float(x), float(y), float(x - y))
        a, b, c, d, e = p(0, 0), p(1, 0), p(1, 1), p(0, 1), p(5, 5)
        tol = 0.01
        corpus = [
            [], [(a, b)], [(a, a)],
            [(a, b), (b, c)], [(a, b), (c, b)], [(b, a), (b, c)], [(b, a), (c, b)],
            [(b, c), (a, b)], [(c, b), (a, b)], [(a, b), (a, b)], [(a, b), (b, a)],
            [(a, b), (c, d)], [(a, b), (e, e)], [(a, a), (a, b)],
            [(a, b), (b, c), (c, a)], [(a, b), (c, a), (b, c)],
            [(a, b), (b, c), (c, d), (d, a)], [(c, d), (a, b), (d, a), (b, c)],
            [(a, b), (a, c), (a, d)], [(b, a), (c, a), (d, a)], [(a, b), (c, b), (d, b), (e, b)],
            [(a, b), (c, d), (e, a)], [(a, b), (c, d), (b, c)], [(c, d), (a, b), (b, c), (e, d)],
            [(a, b), (b, c), (b, d), (d, e), (c, e)],
            # closed ring, then a tail that matches both ends: the order of the four attempts
            [(a, b), (b, c), (c, a), (e, a)], [(a, b), (b, c), (c, a), (a, e)],
            [(a, b), (b, a), (e, a)], [(a, b), (b, a), (a, e)], [(a, b), (c, a), (b, c), (e, a)],
        ]
        for segs in corpus:
            E.add(kd, {'segs': [[list(s[0]), list(s[1])] for s in segs], 'tol': tol}, 'fixed')
        # exactly at / just beyond the tolerance (dyadic: no rounding)
        t = 0.0078125
        for off in (0.0, t / 2, t, t + 2.0 ** -20, -t, -t - 2.0 ** -20):
            b2 = (b[0] + off,) + tuple(b[1:])
            b3 = tuple(b[:-1]) + (b[-1] + off,)
            for segs in ([(a, b), (b2, c)], [(a, b), (c, b2)], [(b2, a), (b, c)],
                         [(a, b), (b3, c)], [(c, b3), (b, a)]):
                E.add(kd, {'segs': [[list(s[0]), list(s[1])] for s in segs], 'tol': t},
                      'fixed-threshold')


def gen_c18(E, seed):
    fixed_c18(E)
    R = random.Random('%s/corr.cleanup/C18/soup' % seed)
    T = random.Random('%s/corr.cleanup/C18/threshold' % seed)
    n = 900 * (14 if E.thorough else 1)
    for k in range(n):
        if not E.more():
            break
        dim = 2 if k % 2 == 0 else 3
        kd = K_J2 if dim == 2 else K_J3
        if k % 3 == 2:
            segs, tol = threshold_soup(T, dim)
            stream = 'exact-threshold'
        else:
            big = E.thorough and k % 7 == 0
            segs, tol = soup(R, dim, big)
            stream = 'lattice+jitter' + ('/big' if big else '')
        if segs:
            E.add(kd, {'segs': [[list(a), list(b)] for a, b in segs], 'tol': tol}, stream)


# ====================================================================== interface
def run(ctx, prop):
    E = _Engine(ctx, prop)
    if prop == 'C15':
        gen_c15(E, ctx.seed)
    elif prop == 'C18':
        gen_c18(E, ctx.seed)
    else:
        return {'requests': 0, 'nontrivial': 0, 'rule': 'no model of %s here' % prop,
                'disagreements': [], 'float_ties': 0, 'histograms': {}, 'samples': []}
    return E.run()


def replay(ctx, disagreement):
    """Re-run one recorded disagreement (its 'kind' and 'input') on the current tree."""
    kind, inp = disagreement.get('kind'), disagreement.get('input')
    if kind not in KINDS or inp is None:
        return None
    r = _Engine(ctx, KINDS[kind].prop).one(kind, inp)
    return r if isinstance(r, dict) else None


if __name__ == '__main__':
    class Ctx(object):
        pass
    args = sys.argv[1:]
    props = [a for a in args if a in PROPS] or PROPS
    nums = [a for a in args if a.lstrip('-').isdigit()]
    ctx = Ctx()
    ctx.seed = int(nums[0]) if nums else int(os.environ.get('VERIF_SEED', '0'))
    ctx.tier = 'thorough' if 'thorough' in args else os.environ.get('VERIF_TIER', 'quick')
    ctx.broken = []
    ctx.driver = lbg.Driver()
    bad = 0
    for prop in props:
        ctx.deadline = time.time() + 3600
        t = time.time()
        r = run(ctx, prop)
        print('%s seed %d %s: %d requests, %d non-trivial, %d float ties, %d disagreements, '
              '%.1fs' % (prop, ctx.seed, ctx.tier, r['requests'], r['nontrivial'],
                         r['float_ties'], len(r['disagreements']), time.time() - t))
        for h in sorted(r['histograms']):
            print('   %-8s %s' % (h, sorted(r['histograms'][h].items(), key=lambda kv: str(kv[0]))))
        for s in r['samples']:
            print('   sample', s)
        for d in r['disagreements']:
            bad += 1
            print('   DISAGREE', d['what'][:400])
            print('            input', _brief(d['input']))
            import json
            again = replay(ctx, json.loads(json.dumps(d, default=lbg._json_default)))
            print('            replay:', 'reproduced' if again else 'NOT reproduced')
    sys.exit(1 if bad else 0)
