"""Correspondence run: Lean models (Model/Colinear, Model/JoinSegments) vs the real library.
Usage: /venv/bin/python /tmp/agents/p_c15c18/corr.py [seed]"""
import math
import os
import random
import sys

sys.path.insert(0, '/repo')
sys.path.insert(0, '/verif/tools/harness')
import lbg  # noqa: E402

HERE = os.path.dirname(os.path.abspath(__file__))
lbg.LEAN_DIR = os.path.join(HERE, 'lean')
lbg.scratch_dir = lambda: HERE

from ladybug_geometry.geometry2d.pointvector import Point2D  # noqa: E402
from ladybug_geometry.geometry3d.pointvector import Point3D  # noqa: E402
from ladybug_geometry.geometry2d.polygon import Polygon2D  # noqa: E402
from ladybug_geometry.geometry2d.polyline import Polyline2D  # noqa: E402
from ladybug_geometry.geometry3d.polyline import Polyline3D  # noqa: E402
from ladybug_geometry.geometry2d.line import LineSegment2D  # noqa: E402
from ladybug_geometry.geometry3d.line import LineSegment3D  # noqa: E402
from ladybug_geometry.geometry3d.face import Face3D  # noqa: E402
from ladybug_geometry._polyline import _group_vertices  # noqa: E402

seed = int(sys.argv[1]) if len(sys.argv) > 1 else 1
R = random.Random(seed)
W = lbg.wnum


def w2(p):
    return [W(p.x), W(p.y)]


def w3(p):
    return [W(p.x), W(p.y), W(p.z)]


# ------------------------------------------------------------------ generators (C15)
def base_loop(k):
    """Star-shaped loop with k corners, each turning by at least 5 degrees."""
    while True:
        angs = sorted(R.uniform(0, 2 * math.pi) for _ in range(k))
        rad = [R.uniform(2.0, 10.0) for _ in range(k)]
        pts = [(round(r * math.cos(a) * 64) / 64.0, round(r * math.sin(a) * 64) / 64.0)
               for a, r in zip(angs, rad)]
        ok = True
        for i in range(k):
            a, b, c = pts[i - 1], pts[i], pts[(i + 1) % k]
            u = (b[0] - a[0], b[1] - a[1])
            v = (c[0] - b[0], c[1] - b[1])
            lu, lv = math.hypot(*u), math.hypot(*v)
            if lu < 0.5 or lv < 0.5:
                ok = False
                break
            turn = abs(math.atan2(u[0] * v[1] - u[1] * v[0], u[0] * v[0] + u[1] * v[1]))
            if turn < math.radians(5) or turn > math.radians(175):
                ok = False
                break
        if ok:
            return pts


def decorate(pts, dup=True):
    """0..3 exactly collinear dyadic points per edge, 0..2 exact duplicates per vertex."""
    out = []
    k = len(pts)
    for i in range(k):
        a, b = pts[i], pts[(i + 1) % k]
        out.append(a)
        if dup:
            for _ in range(R.choice([0, 0, 0, 1, 2])):
                out.append(a)
        ts = sorted(set(R.choice([1, 2, 3, 4, 5, 6, 7]) / 8.0 for _ in range(R.randint(0, 3))))
        for t in ts:
            out.append((a[0] + t * (b[0] - a[0]), a[1] + t * (b[1] - a[1])))
    return out


def jitter(pts, amp):
    return [(x + R.uniform(-amp, amp), y + R.uniform(-amp, amp)) for x, y in pts]


def rotations(pts):
    for r in range(len(pts)):
        yield pts[r:] + pts[:r]


def near_threshold(n, tol):
    """Random walk whose vertices are offset from the chord by amounts around tol/2."""
    pts = [(0.0, 0.0)]
    ang = R.uniform(0, 2 * math.pi)
    for i in range(n - 1):
        if R.random() < 0.3:
            ang += R.uniform(-2.5, 2.5)
        step = R.choice([tol / 2, tol, 3 * tol, 0.5, 2.0])
        off = R.choice([0, 0, tol / 4, tol / 2.2, tol / 1.8, tol, -tol / 3])
        x, y = pts[-1]
        pts.append((x + step * math.cos(ang) - off * math.sin(ang),
                    y + step * math.sin(ang) + off * math.cos(ang)))
    return pts


# ------------------------------------------------------------------ real runs
def idx_of(orig, kept):
    pos = dict((id(p), i) for i, p in enumerate(orig))
    return [pos[id(p)] for p in kept]


def real_polygon(pts, tol):
    vs = [Point2D(x, y) for x, y in pts]
    poly = Polygon2D(vs)
    try:
        new = poly.remove_colinear_vertices(tol)
    except AssertionError:
        return 'assert'
    return idx_of(vs, new.vertices)


_face = Face3D([Point3D(0, 0, 0), Point3D(1, 0, 0), Point3D(0, 1, 0)])


def real_face(pts, tol):
    p2 = [Point2D(x, y) for x, y in pts]
    p3 = [Point3D(x, y, 0) for x, y in pts]
    try:
        new = _face._remove_colinear(p3, p2, tol)
    except AssertionError:
        return None
    return idx_of(p3, new)


def real_dup(pts, tol):
    vs = [Point2D(x, y) for x, y in pts]
    poly = Polygon2D(vs)
    try:
        new = poly.remove_duplicate_vertices(tol)
    except AssertionError:
        return 'assert'
    return idx_of(vs, new.vertices)


def real_dup3(pts3, tol):
    vs = [Point3D(*p) for p in pts3]
    try:
        face = Face3D(vs)
        new = face.remove_duplicate_vertices(tol)
    except AssertionError:
        return 'assert'
    return idx_of(vs, new.vertices)


def real_polyline2(pts, tol):
    vs = [Point2D(x, y) for x, y in pts]
    try:
        new = Polyline2D(vs).remove_colinear_vertices(tol)
    except AssertionError:
        return 'assert'
    return idx_of(vs, new.vertices)


def real_polyline3(pts, tol):
    vs = [Point3D(x, y, z) for x, y, z in pts]
    try:
        new = Polyline3D(vs).remove_colinear_vertices(tol)
    except AssertionError:
        return 'assert'
    return idx_of(vs, new.vertices)


def norm_model(val, ctor_min=3):
    """Model positions -> what the public method does: constructor asserts >= 3 vertices."""
    if val is None:
        return 'assert'
    return 'assert' if len(val) < ctor_min else val


# ------------------------------------------------------------------ build the C15 cases
cases = []   # (kind, op, args, real)
tols = [1e-3, 1e-2, 0.0078125]
for k in range(40):
    base = base_loop(R.randint(3, 8))
    if R.random() < 0.5:
        base = base[::-1]
    tol = R.choice(tols)
    dec = decorate(base)
    if k % 3 == 2:
        dec = jitter(dec, tol / 10)
    if len(dec) > 40:
        continue
    for rot in rotations(dec):
        cases.append(('polygon', 'model.remove_colinear_polygon',
                      [[[W(x), W(y)] for x, y in rot], W(tol)], real_polygon(rot, tol)))
        cases.append(('face', 'model.remove_colinear_polygon',
                      [[[W(x), W(y)] for x, y in rot], W(tol)], real_face(rot, tol)))
        cases.append(('dup', 'model.remove_duplicate',
                      [[[W(x), W(y)] for x, y in rot], W(tol)], real_dup(rot, tol)))
        a3, b3, c3 = R.choice([0, 0.5, -1]), R.choice([0, 0.25, 2]), R.choice([0, 3])
        r3 = [(x, y, a3 * x + b3 * y + c3) for x, y in rot]
        cases.append(('dup3-face', 'model.remove_duplicate3',
                      [[[W(x), W(y), W(zz)] for x, y, zz in r3], W(tol)], real_dup3(r3, tol)))
    # open chains: cut the decorated loop open at every rotation
    for rot in list(rotations(decorate(base, dup=False)))[:6]:
        if len(rot) < 3:
            continue
        cases.append(('polyline2', 'model.remove_colinear_polyline2',
                      [[[W(x), W(y)] for x, y in rot], W(tol)], real_polyline2(rot, tol)))
        z = [R.choice([0.0, 1.0, 2.5]) for _ in rot]
        # lift to 3D on a plane z = ax + by + c: collinearity is preserved exactly for dyadics
        a, b, c = R.choice([0, 0.5, -1]), R.choice([0, 0.25, 2]), R.choice([0, 3])
        p3 = [(x, y, a * x + b * y + c) for x, y in rot]
        cases.append(('polyline3', 'model.remove_colinear_polyline3',
                      [[[W(x), W(y), W(zz)] for x, y, zz in p3], W(tol)], real_polyline3(p3, tol)))
for k in range(150):
    tol = R.choice(tols)
    n = R.randint(3, 14)
    pts = near_threshold(n, tol)
    cases.append(('polygon-rand', 'model.remove_colinear_polygon',
                  [[[W(x), W(y)] for x, y in pts], W(tol)], real_polygon(pts, tol)))
    cases.append(('face-rand', 'model.remove_colinear_polygon',
                  [[[W(x), W(y)] for x, y in pts], W(tol)], real_face(pts, tol)))
    cases.append(('dup-rand', 'model.remove_duplicate',
                  [[[W(x), W(y)] for x, y in pts], W(tol)], real_dup(pts, tol)))
    cases.append(('polyline2-rand', 'model.remove_colinear_polyline2',
                  [[[W(x), W(y)] for x, y in pts], W(tol)], real_polyline2(pts, tol)))
    p3 = [(x, y, R.choice([0.0, 0.0, tol / 2, 1.0])) for x, y in pts]
    cases.append(('polyline3-rand', 'model.remove_colinear_polyline3',
                  [[[W(x), W(y), W(z)] for x, y, z in p3], W(tol)], real_polyline3(p3, tol)))
# degenerate: everything collinear / all equal (exercises the assert of the seam patch)
for n in (3, 4, 5, 7):
    for pts in ([(float(i), 0.0) for i in range(n)], [(1.0, 1.0)] * n,
                [(0.0, 0.0)] * (n - 1) + [(1.0, 0.0)]):
        for rot in rotations(pts):
            cases.append(('polygon-degenerate', 'model.remove_colinear_polygon',
                          [[[W(x), W(y)] for x, y in rot], W(0.01)], real_polygon(rot, 0.01)))
            cases.append(('face-degenerate', 'model.remove_colinear_polygon',
                          [[[W(x), W(y)] for x, y in rot], W(0.01)], real_face(rot, 0.01)))
            cases.append(('dup-degenerate', 'model.remove_duplicate',
                          [[[W(x), W(y)] for x, y in rot], W(0.01)], real_dup(rot, 0.01)))


# ------------------------------------------------------------------ C18 soups
def soup(dim):
    tol = R.choice([1e-3, 1e-2])
    segs = []
    for _ in range(R.randint(1, 6)):
        n = R.randint(2, 7)
        pts = [tuple(R.randint(-6, 6) / 2.0 for _ in range(dim)) for _ in range(n)]
        if R.random() < 0.4:
            pts.append(pts[0])
        for a, b in zip(pts, pts[1:]):
            if a == b:
                continue
            ja = tuple(c + R.uniform(-tol / 4, tol / 4) for c in a) if R.random() < 0.5 else a
            jb = tuple(c + R.uniform(-tol / 4, tol / 4) for c in b) if R.random() < 0.5 else b
            segs.append((jb, ja) if R.random() < 0.5 else (ja, jb))
    R.shuffle(segs)
    return segs, tol


join_cases = []
for k in range(400):
    dim = 2 if k % 2 == 0 else 3
    segs, tol = soup(dim)
    if not segs:
        continue
    if dim == 2:
        objs = [LineSegment2D.from_end_points(Point2D(*a), Point2D(*b)) for a, b in segs]
        wp = w2
    else:
        objs = [LineSegment3D.from_end_points(Point3D(*a), Point3D(*b)) for a, b in segs]
        wp = w3
    # the model is fed the end points the library itself reads (`seg.p1`, `seg.p2 = p + v`)
    args = [[[wp(s.p1), wp(s.p2)] for s in objs], W(tol)]
    if len(objs) >= 2:
        real = [[wp(p) for p in chain] for chain in _group_vertices(objs, tol)]
    else:
        real = [[wp(objs[0].p1), wp(objs[0].p2)]]
    cls = Polyline2D if dim == 2 else Polyline3D
    joined = cls.join_segments(objs, tol)
    shape = [len(j.vertices) for j in joined]
    join_cases.append(('join%d' % dim, 'model.join_segments' if dim == 2 else 'model.join_segments3',
                       args, real, shape))

# ------------------------------------------------------------------ run the models
drv = lbg.Driver()
reqs = [(op, args) for (_, op, args, _) in cases] + [(op, args) for (_, op, args, _, _) in join_cases]
ans = drv.run(reqs)
agree, bad = {}, []
for (kind, op, args, real), (ok, val) in zip(cases, ans[:len(cases)]):
    if not ok:
        bad.append((kind, 'driver error', val))
        continue
    if kind.startswith('face'):
        model = val          # _remove_colinear returns a list: no constructor assert
    elif kind.startswith('polyline'):
        model = norm_model(val)
    else:
        model = norm_model(val)
    if model == real:
        agree[kind] = agree.get(kind, 0) + 1
    else:
        bad.append((kind, args, 'model', model, 'real', real))
for (kind, op, args, real, shape), (ok, val) in zip(join_cases, ans[len(cases):]):
    if ok and val == real and [len(c) for c in val] == shape:
        agree[kind] = agree.get(kind, 0) + 1
    else:
        bad.append((kind, args, 'model', val, 'real', real, shape))


def is_float_tie(kind, args, model, real):
    """A disagreement is a float tie when, at the first vertex on which the two differ, the
    exact test value 4a^2 / (b^2 tol^2) is within 1e-9 of 1 for some admissible chord start."""
    from fractions import Fraction as F
    if not isinstance(model, list) or not isinstance(real, list) or 'dup' in kind:
        return False
    pts = [[F(c) for c in p] for p in args[0]]
    tol = F(args[1])
    n = len(pts)
    diff = sorted(set(model) ^ set(real))
    if not diff:
        return False
    j = diff[0]
    v1, v = pts[j], pts[(j + 1) % n]
    for v2 in pts:
        d1 = [a - b for a, b in zip(v2, v1)]
        d2 = [a - b for a, b in zip(v, v1)]
        if len(d1) == 2:
            asq = (d1[0] * d2[1] - d1[1] * d2[0]) ** 2
        else:
            c = (d1[1] * d2[2] - d1[2] * d2[1], d1[2] * d2[0] - d1[0] * d2[2],
                 d1[0] * d2[1] - d1[1] * d2[0])
            asq = sum(x * x for x in c)
        bsq = max(sum((a - b) ** 2 for a, b in zip(v, v2)), tol * tol)
        if bsq * tol * tol != 0 and abs(4 * asq / (bsq * tol * tol) - 1) < F(1, 10 ** 9):
            return True
    return False


ties = [b for b in bad if len(b) == 6 and is_float_tie(b[0], b[1], b[3], b[5])]
bad = [b for b in bad if b not in ties]
print('float ties (exact test value within 1e-9 of the threshold; rounding decides): %d' % len(ties))
n_assert = sum(1 for c in cases if c[3] in ('assert', None))
n_multi = sum(1 for c in join_cases if any(len(ch) > 2 for ch in c[3]))
n_many = sum(1 for c in join_cases if len(c[3]) > 1)
print('C15 cases whose real run raised AssertionError: %d; join soups with a chain of >2 '
      'vertices: %d, with >1 chain: %d' % (n_assert, n_multi, n_many))
print('requests %d  driver wall %.1fs' % (len(reqs), drv.wall))
for k in sorted(agree):
    print('  agree %-20s %d' % (k, agree[k]))
print('disagreements: %d' % len(bad))
for b in bad[:5]:
    print(b)
sys.exit(1 if bad else 0)
