"""Model correspondence (C03): operation histories on real `Polyline2D`, `Polyline3D`, `Face3D`
and `Polyface3D` objects vs the Lean cache machines `Model/PolylineCache.lean`,
`Model/FaceCache.lean`, `Model/PolyfaceCache.lean` (driver ops `model.polyline2d_history`,
`model.polyline3d_history`, `model.face3d_history`, `model.polyface_history`).

A history = a start object (built by a real constructor / factory, cold or with some getters
already read; its PRIVATE slots are read off and sent to the model as the start state) and
1..8 (thorough: ..20) operations: every memoising getter, duplicate, move, rotate, rotate_xy,
reflect, scale (positive, negative and zero factors, with and without origin), reverse / flip,
remove_colinear_vertices, to_polyline2d / from_polyline2d.  After EVERY step the private slots
of the real object are compared with the model's state: which slots are filled, list lengths
and booleans exactly, numbers within 1e-9 relative to the coordinate magnitude (power 2 for
areas, 3 for volumes).  For a `Polyface3D` the cached `_faces` are compared as complete
`Face3D` slot states.  An `AssertionError` of the real method must be `{"err":"assert"}` in
the model; any other exception is a disagreement.

The `faces` getter of an EMPTY `Polyface3D._faces` slot (constructor per index loop +
`get_outward_faces`) is not modelled: the harness passes what it builds (`"fresh"`: the slot
states of `Polyface3D(vertices, face_indices, edge_information).faces`) to the model with the
reading op.  `Face3D.centroid` is compared with the exact polygon centroid (`stdCent2`), so
it is only read on simple, non-degenerate faces.
"""
import math
import os
import random
import sys
import time
from fractions import Fraction

if __name__ == '__main__':
    sys.path.insert(0, '/verif/tools/harness')
import lbg  # noqa: E402

from ladybug_geometry.geometry2d.pointvector import Point2D, Vector2D  # noqa: E402
from ladybug_geometry.geometry2d.line import LineSegment2D  # noqa: E402
from ladybug_geometry.geometry2d.polygon import Polygon2D  # noqa: E402
from ladybug_geometry.geometry2d.polyline import Polyline2D  # noqa: E402
from ladybug_geometry.geometry2d.mesh import Mesh2D  # noqa: E402
from ladybug_geometry.geometry3d.pointvector import Point3D, Vector3D  # noqa: E402
from ladybug_geometry.geometry3d.line import LineSegment3D  # noqa: E402
from ladybug_geometry.geometry3d.plane import Plane  # noqa: E402
from ladybug_geometry.geometry3d.polyline import Polyline3D  # noqa: E402
from ladybug_geometry.geometry3d.mesh import Mesh3D  # noqa: E402
from ladybug_geometry.geometry3d.face import Face3D  # noqa: E402
from ladybug_geometry.geometry3d.polyface import Polyface3D  # noqa: E402

PROPS = ['C03']
MODELS = ['LbgVerif/Model/PolylineCache.lean', 'LbgVerif/Model/FaceCache.lean',
          'LbgVerif/Model/PolyfaceCache.lean', 'LbgVerif/Model/Dispatch_PolyCache.lean']
REAL = ['ladybug_geometry/geometry2d/_2d.py:Base2DIn2D (min, max, center)',
        'ladybug_geometry/geometry3d/_2d.py:Base2DIn3D (min, max, center)',
        'ladybug_geometry/geometry2d/polyline.py:Polyline2D (memo slots: getters, __copy__, '
        '_transfer_properties, reverse, move, rotate, reflect, scale, remove_colinear_vertices)',
        'ladybug_geometry/geometry3d/polyline.py:Polyline3D (same + rotate_xy, to_polyline2d, '
        'from_polyline2d)',
        'ladybug_geometry/geometry3d/face.py:Face3D (memo slots: getters, __copy__, flip, move, '
        'rotate, rotate_xy, reflect, scale, _face_transform*, _transfer_properties*, '
        'remove_colinear_vertices without holes, _plane_from_vertices)',
        'ladybug_geometry/geometry3d/polyface.py:Polyface3D (memo slots: faces/area/volume/edge '
        'getters, __copy__, move, rotate, rotate_xy, reflect, scale; from_box / '
        'from_offset_face seeds)']
TRUSTED = [
    'polycache: the models compute in exact rationals on the doubles the real objects hold '
    '(sqrt through IEEE); values are compared within 1e-9 relative to the coordinate magnitude, '
    'so rounding of the real arithmetic below that band is not seen',
    'polycache: the start state of a history is read off a real object (constructors and '
    'factories such as from_rectangle, from_regular_polygon, from_extrusion, from_box, '
    'from_offset_face are not modelled; their seeds are compared with a fresh object by the '
    'C03 property harness, not here)',
    'polycache: what the Polyface3D.faces getter builds for an empty slot (Face3D constructor + '
    'get_outward_faces) is taken from the real code and handed to the model',
    'polycache: Face3D.centroid is compared with the exact centroid of boundary minus holes, '
    'not with a model of the ear-clipping triangulation; the memo slots inside cached '
    'Polygon2D / Mesh2D / Plane objects are not compared',
    'polycache: histories in which a turn determinant / intersection parameter of a '
    'recomputed is_convex or is_self_intersecting is within 1e-9 of its threshold are cut at '
    'that step and counted as float ties; likewise a scale of a face whose normal is zero or '
    'vertical within 1e-9 (Plane.__init__ chooses its x axis by n.x == 0 and n.y == 0), unless '
    'the real normal is exactly vertical AND the model holds exactly the same vertices',
]

W = lbg.wnum
REL = Fraction(1, 10 ** 9)
KINDS = ('polyline2d', 'polyline3d', 'face3d', 'polyface')
OPNAME = {k: 'model.%s_history' % k for k in KINDS}


# ------------------------------------------------------------------ wire helpers
def fl(s):
    return float(Fraction(s))


def p2(p):
    return [W(p.x), W(p.y)]


def p3(p):
    return [W(p.x), W(p.y), W(p.z)]


def P2(j):
    return Point2D(fl(j[0]), fl(j[1]))


def V2(j):
    return Vector2D(fl(j[0]), fl(j[1]))


def P3(j):
    return Point3D(fl(j[0]), fl(j[1]), fl(j[2]))


def V3(j):
    return Vector3D(fl(j[0]), fl(j[1]), fl(j[2]))


def seg2w(s):
    return [p2(s.p), p2(s.v)]


def seg3w(s):
    return [p3(s.p), p3(s.v)]


def opt(v, f):
    return None if v is None else f(v)


def plane_w(pl):
    return [p3(pl.n), p3(pl.o), W(pl.k), p3(pl.x), p3(pl.y)]


def plane_from_w(j):
    n, o, k, x, y = j
    pl = Plane(V3(n), P3(o), V3(x))
    pl._n, pl._o, pl._k, pl._x, pl._y = V3(n), P3(o), fl(k), V3(x), V3(y)
    return pl


# ------------------------------------------------------------------ real -> wire states
def pl2_state(o):
    return {'vertices': [p2(p) for p in o._vertices], 'interpolated': bool(o._interpolated),
            'min': opt(o._min, p2), 'max': opt(o._max, p2), 'center': opt(o._center, p2),
            'segments': opt(o._segments, lambda l: [seg2w(s) for s in l]),
            'length': opt(o._length, W),
            'is_self_intersecting': opt(o._is_self_intersecting, bool)}


def pl3_state(o):
    return {'vertices': [p3(p) for p in o._vertices], 'interpolated': bool(o._interpolated),
            'min': opt(o._min, p3), 'max': opt(o._max, p3), 'center': opt(o._center, p3),
            'segments': opt(o._segments, lambda l: [seg3w(s) for s in l]),
            'length': opt(o._length, W)}


def mesh2d_w(f):
    """The cached triangulated Mesh2D, described as the model does: the boundary / hole
    polygons it triangulates (its vertex list is boundary ++ holes)."""
    m = f._mesh2d
    if m is None:
        return None
    mv = [p2(p) for p in m.vertices]
    nb = len(f._boundary)
    if f._holes is None:
        return [mv[:nb], None]
    hs, st = [], nb
    for h in f._holes:
        hs.append(mv[st:st + len(h)])
        st += len(h)
    return [mv[:nb], hs]


def face_state(f):
    return {
        'boundary': [p3(p) for p in f._boundary],
        'holes': opt(f._holes, lambda hs: [[p3(p) for p in h] for h in hs]),
        'vertices': [p3(p) for p in f._vertices],
        'plane': plane_w(f._plane),
        'polygon2d': opt(f._polygon2d, lambda pg: [p2(p) for p in pg.vertices]),
        'mesh2d': mesh2d_w(f),
        'mesh3d': opt(f._mesh3d, lambda m: True),
        'boundary_polygon2d': opt(f._boundary_polygon2d, lambda pg: [p2(p) for p in pg.vertices]),
        'hole_polygon2d': opt(f._hole_polygon2d,
                              lambda l: [[p2(p) for p in pg.vertices] for pg in l]),
        'boundary_segments': opt(f._boundary_segments, lambda l: [seg3w(s) for s in l]),
        'hole_segments': opt(f._hole_segments, lambda l: [[seg3w(s) for s in h] for h in l]),
        'perimeter': opt(f._perimeter, W), 'area': opt(f._area, W),
        'centroid': opt(f._centroid, p3),
        'is_convex': opt(f._is_convex, bool),
        'is_self_intersecting': opt(f._is_self_intersecting, bool),
        'min': opt(f._min, p3), 'max': opt(f._max, p3), 'center': opt(f._center, p3)}


def pf_state(o):
    return {
        'vertices': [p3(p) for p in o._vertices],
        'face_indices': [[list(loop) for loop in face] for face in o._face_indices],
        'edge_indices': [list(e) for e in o._edge_indices],
        'edge_types': list(o._edge_types),
        'is_solid': bool(o._is_solid),
        'faces': opt(o._faces, lambda l: [face_state(f) for f in l]),
        'edges': opt(o._edges, lambda l: [seg3w(s) for s in l]),
        'naked_edges': opt(o._naked_edges, lambda l: [seg3w(s) for s in l]),
        'internal_edges': opt(o._internal_edges, lambda l: [seg3w(s) for s in l]),
        'non_manifold_edges': opt(o._non_manifold_edges, lambda l: [seg3w(s) for s in l]),
        'area': opt(o._area, W), 'volume': opt(o._volume, W),
        'min': opt(o._min, p3), 'max': opt(o._max, p3), 'center': opt(o._center, p3)}


STATE = {'polyline2d': pl2_state, 'polyline3d': pl3_state, 'face3d': face_state,
         'polyface': pf_state}


# ------------------------------------------------------------------ wire -> real objects
def pl2_from(d):
    o = Polyline2D([P2(p) for p in d['vertices']], d['interpolated'])
    o._min, o._max, o._center = opt(d.get('min'), P2), opt(d.get('max'), P2), opt(d.get('center'), P2)
    o._segments = opt(d.get('segments'), lambda l: tuple(LineSegment2D(P2(s[0]), V2(s[1])) for s in l))
    o._length = opt(d.get('length'), fl)
    o._is_self_intersecting = d.get('is_self_intersecting')
    return o


def pl3_from(d):
    o = Polyline3D([P3(p) for p in d['vertices']], d['interpolated'])
    o._min, o._max, o._center = opt(d.get('min'), P3), opt(d.get('max'), P3), opt(d.get('center'), P3)
    o._segments = opt(d.get('segments'), lambda l: tuple(LineSegment3D(P3(s[0]), V3(s[1])) for s in l))
    o._length = opt(d.get('length'), fl)
    return o


def face_from(d):
    pl = plane_from_w(d['plane'])
    f = Face3D([P3(p) for p in d['vertices']], pl, enforce_right_hand=False)
    f._boundary = tuple(P3(p) for p in d['boundary'])
    f._holes = opt(d.get('holes'), lambda hs: tuple(tuple(P3(p) for p in h) for h in hs))
    f._polygon2d = opt(d.get('polygon2d'), lambda l: Polygon2D([P2(p) for p in l]))
    f._boundary_polygon2d = opt(d.get('boundary_polygon2d'), lambda l: Polygon2D([P2(p) for p in l]))
    f._hole_polygon2d = opt(d.get('hole_polygon2d'),
                            lambda hs: [Polygon2D([P2(p) for p in h]) for h in hs])
    m = d.get('mesh2d')
    if m is not None:
        f._mesh2d = Mesh2D.from_polygon_triangulated(
            Polygon2D([P2(p) for p in m[0]]),
            opt(m[1], lambda hs: [Polygon2D([P2(p) for p in h]) for h in hs]))
    if d.get('mesh3d') is not None:
        m2 = f._mesh2d if f._mesh2d is not None else Mesh2D.from_polygon_triangulated(
            Polygon2D([pl.xyz_to_xy(p) for p in f._boundary]),
            opt(f._holes, lambda hs: [Polygon2D([pl.xyz_to_xy(p) for p in h]) for h in hs]))
        f._mesh3d = Mesh3D(tuple(pl.xy_to_xyz(p) for p in m2.vertices), m2.faces)
    f._boundary_segments = opt(d.get('boundary_segments'),
                               lambda l: tuple(LineSegment3D(P3(s[0]), V3(s[1])) for s in l))
    f._hole_segments = opt(d.get('hole_segments'), lambda hs: tuple(
        tuple(LineSegment3D(P3(s[0]), V3(s[1])) for s in h) for h in hs))
    f._perimeter, f._area = opt(d.get('perimeter'), fl), opt(d.get('area'), fl)
    f._centroid = opt(d.get('centroid'), P3)
    f._is_convex, f._is_self_intersecting = d.get('is_convex'), d.get('is_self_intersecting')
    f._min, f._max, f._center = opt(d.get('min'), P3), opt(d.get('max'), P3), opt(d.get('center'), P3)
    return f


def pf_from(d):
    o = Polyface3D([P3(p) for p in d['vertices']], d['face_indices'],
                   {'edge_indices': tuple(tuple(e) for e in d['edge_indices']),
                    'edge_types': tuple(d['edge_types'])})
    o._faces = opt(d.get('faces'), lambda l: tuple(face_from(f) for f in l))
    for k in ('edges', 'naked_edges', 'internal_edges', 'non_manifold_edges'):
        setattr(o, '_' + k, opt(d.get(k), lambda l: tuple(
            LineSegment3D(P3(s[0]), V3(s[1])) for s in l)))
    o._area, o._volume = opt(d.get('area'), fl), opt(d.get('volume'), fl)
    o._min, o._max, o._center = opt(d.get('min'), P3), opt(d.get('max'), P3), opt(d.get('center'), P3)
    return o


FROM = {'polyline2d': pl2_from, 'polyline3d': pl3_from, 'face3d': face_from, 'polyface': pf_from}


# ------------------------------------------------------------------ the real side of an op
def apply_real(kind, o, w):
    """Apply wire op `w` to the real object -> (new object, observation or None).  For the
    Polyface3D reading ops the wire op is annotated with the fresh faces."""
    op = w['op']
    two = kind == 'polyline2d'
    Pt, Vc = (P2, V2) if two else (P3, V3)
    if op.startswith('read_'):
        if kind == 'polyface' and op in ('read_faces', 'read_area', 'read_volume'):
            if o._faces is None and 'fresh' not in w:
                w['fresh'] = [face_state(f) for f in Polyface3D(
                    o.vertices, o.face_indices, o.edge_information).faces]
        getattr(o, op[5:])
        return o, None
    if op == 'duplicate':
        return o.duplicate(), None
    if op == 'reverse':
        return o.reverse(), None
    if op == 'flip':
        return o.flip(), None
    if op == 'move':
        return o.move(Vc(w['v'])), None
    if op == 'rotate':
        if two:
            return o.rotate(fl(w['angle']), Pt(w['o'])), None
        return o.rotate(V3(w['axis']), fl(w['angle']), P3(w['o'])), None
    if op == 'rotate_xy':
        return o.rotate_xy(fl(w['angle']), P3(w['o'])), None
    if op == 'reflect':
        return o.reflect(Vc(w['n']), Pt(w['o'])), None
    if op == 'scale':
        return o.scale(fl(w['k']), Pt(w['o'])), None
    if op == 'scale_world':
        return o.scale(fl(w['k'])), None
    if op == 'remove_colinear_vertices':
        return o.remove_colinear_vertices(fl(w['tol'])), None
    if op == 'to_polyline2d':
        return o, pl2_state(o.to_polyline2d())
    if op == 'to_polyline3d':
        return o, pl3_state(Polyline3D.from_polyline2d(o, plane_from_w(w['plane'])))
    raise ValueError('unknown op %s' % op)


def real_history(kind, start, ops):
    """-> list of expected entries: state dict | {'err':'assert'} | {'raise': name} |
    {'obs': state} | {'tie': True} (history cut).  A state may carry `_cond_tie` (keys starting
    with `_` are harness annotations, not slots)."""
    o = FROM[kind](start)
    exp = []
    for w in ops:
        t = tie_before(kind, o, w)
        if t is True:
            exp.append({'tie': True})
            break
        try:
            o2, obs = apply_real(kind, o, w)
        except AssertionError:
            exp.append({'err': 'assert'})
            continue
        except Exception as e:      # noqa: BLE001 - any other exception is a disagreement
            exp.append({'raise': type(e).__name__})
            break
        o = o2
        entry = {'obs': obs} if obs is not None else STATE[kind](o)
        if t:       # conditional tie: decided against the model's state before this step
            entry['_cond_tie'] = True if t == 'cond' else t[1]
        exp.append(entry)
    return exp


# ------------------------------------------------------------------ float ties
def _fr2(p):
    return Fraction(p.x), Fraction(p.y)


def turn_tie(pts):
    """is_convex of a fresh Polygon2D: some turn determinant (or the signed area) within 1e-9
    (relative) of 0."""
    q = [_fr2(p) for p in pts]
    n = len(q)
    if n == 3:
        return False
    s = max([Fraction(1)] + [abs(c) for p in q for c in p])
    a2 = sum(q[i - 1][0] * q[i][1] - q[i - 1][1] * q[i][0] for i in range(n))
    if abs(a2) <= REL * s * s:
        return True
    for i in range(n):
        a, b, c = q[i - 2], q[i - 1], q[i]
        d = (b[0] - a[0]) * (c[1] - b[1]) - (b[1] - a[1]) * (c[0] - b[0])
        if d != 0 and abs(d) <= REL * s * s:
            return True
    return False


def selfint_tie(pts, closed):
    """is_self_intersecting loops: a tested pair of segments whose determinant or whose
    parameters are within 1e-9 of the decision thresholds, without being exactly on them in
    a way double arithmetic reproduces (lattice input)."""
    q = [_fr2(p) for p in pts]
    if closed:
        segs = [(q[i - 1], q[i]) for i in range(len(q))]
        segs.append(segs.pop(0))
    else:
        segs = [(q[i], q[i + 1]) for i in range(len(q) - 1)]
    s = max([Fraction(1)] + [abs(c) for p in q for c in p])
    lattice = all(c.denominator <= 64 and abs(c) <= 4096 for p in q for c in p)
    for i, sa in enumerate(segs[1:len(segs) - 1]):
        for j, sb in enumerate(segs):
            if j in (i, i + 1, i + 2):
                continue
            av = (sa[1][0] - sa[0][0], sa[1][1] - sa[0][1])
            bv = (sb[1][0] - sb[0][0], sb[1][1] - sb[0][1])
            d = bv[1] * av[0] - bv[0] * av[1]
            if d == 0:
                if lattice:
                    continue
                return True
            if abs(d) <= REL * s * s:
                return True
            dy, dx = sa[0][1] - sb[0][1], sa[0][0] - sb[0][0]
            ua = (bv[0] * dy - bv[1] * dx) / d
            ub = (av[0] * dy - av[1] * dx) / d
            for u in (ua, ub):
                for t in (0, 1):
                    if u == t and lattice:
                        continue
                    if abs(u - t) <= REL:
                        return True
    return False


def tie_before(kind, o, w):
    """Would this step recompute a threshold decision on near-threshold data?
    -> False | True | 'cond' | ('cond', [face indices]) (see `normal_tie`)."""
    op = w['op']
    if kind == 'polyline2d' and op == 'read_is_self_intersecting' \
            and o._is_self_intersecting is None:
        return selfint_tie(o._vertices, False)
    if kind == 'face3d':
        if op == 'read_is_convex' and o._is_convex is None:
            pts = o._polygon2d.vertices if o._polygon2d is not None else \
                [o._plane.xyz_to_xy(p) for p in o._vertices]
            return turn_tie(pts)
        if op == 'read_is_self_intersecting' and o._is_self_intersecting is None:
            loops = [o._boundary] + list(o._holes or ())
            return any(selfint_tie([o._plane.xyz_to_xy(p) for p in lp], True) for lp in loops)
        if op in ('scale', 'scale_world') and Fraction(w['k']) != 0:
            t = normal_tie(o._vertices)
            return True if t == 1 else ('cond' if t == 2 else False)
    if kind == 'polyface' and op in ('scale', 'scale_world') and Fraction(w['k']) > 0 \
            and o._faces is not None:
        ts = [normal_tie(f._vertices) for f in o._faces]
        if 1 in ts:
            return True
        cond = [i for i, t in enumerate(ts) if t == 2]
        return ('cond', cond) if cond else False
    return False


def normal_tie(verts):
    """`_plane_from_vertices` of a (scaled) face -> 0 no tie | 1 tie | 2 conditional tie.
    1: the summed fan normal is (numerically) zero, so its direction is rounding noise; or the
       normal is vertical only up to rounding (|(n.x, n.y)| <= 1e-9 |n| while the vertices are
       not at exactly one z): `Plane.__init__` picks its x axis by `n.x == 0 and n.y == 0`, and
       which branch is taken — and the direction of `(n.y, -n.x, 0)` — is noise.
    2: the REAL normal is exactly vertical (all vertices at exactly one z, so the real code takes
       the `x = (1, 0, 0)` branch with exact zeros).  The model holds the exact images of the
       start vertices, the real object their roundings (e.g. a rotation by pi about (3,3,-2)
       with sin = 1.2e-16 gives short dyadic doubles, the tiny terms are absorbed): when the
       two inputs are not identical the model sees a tiny non-zero (n.x, n.y) and takes the
       other branch.  Whether they are identical is decided in `compare_history` on the
       model's state before the step: identical input -> NO tie (a wrong branch is
       reported), different input -> tie."""
    q = [(Fraction(p.x), Fraction(p.y), Fraction(p.z)) for p in verts]
    s = max([Fraction(1)] + [abs(c) for p in q for c in p])
    n = [Fraction(0)] * 3
    b = q[0]
    for i in range(len(q) - 2):
        u = [q[i + 1][j] - b[j] for j in range(3)]
        v = [q[i + 2][j] - b[j] for j in range(3)]
        n[0] += u[1] * v[2] - u[2] * v[1]
        n[1] += u[2] * v[0] - u[0] * v[2]
        n[2] += u[0] * v[1] - u[1] * v[0]
    m2 = n[0] ** 2 + n[1] ** 2 + n[2] ** 2
    if m2 == 0:
        return 1 if any(p != q[0] for p in q) else 0    # all-equal vertices give exact zeros
    if m2 <= (REL * s * s) ** 2:
        return 1
    if n[0] ** 2 + n[1] ** 2 <= REL * REL * m2:
        return 2 if all(p[2] == q[0][2] for p in q) else 1
    return 0


# ------------------------------------------------------------------ comparison
POINTLIKE = {'min', 'max', 'center', 'centroid', 'vertices', 'boundary', 'holes', 'segments',
             'boundary_segments', 'hole_segments', 'edges', 'naked_edges', 'internal_edges',
             'non_manifold_edges', 'polygon2d', 'boundary_polygon2d', 'hole_polygon2d',
             'mesh2d', 'length', 'perimeter', 'plane'}
POWER = {'area': 2, 'volume': 3}
EXACT = {'interpolated', 'is_self_intersecting', 'is_convex', 'is_solid', 'face_indices',
         'edge_indices', 'edge_types', 'mesh3d'}


def scale_of(d):
    s = Fraction(1)
    for v in d.get('vertices', []):
        for c in v:
            s = max(s, abs(Fraction(c)))
    return s


def cmp_value(a, e, unit, path):
    """Recursive comparison of two wire values -> None | (what, detail)."""
    if a is None or e is None:
        if a is None and e is None:
            return None
        return ('slot %s: model %s, real %s' % (path, 'empty' if a is None else 'filled',
                                                 'empty' if e is None else 'filled'), '')
    if isinstance(e, bool) or isinstance(a, bool):
        return None if a == e else ('slot %s: value differs' % path, 'model %s real %s' % (a, e))
    if isinstance(e, (list, tuple)):
        if not isinstance(a, (list, tuple)) or len(a) != len(e):
            return ('slot %s: shape differs' % path, 'model %s real %s' % (
                len(a) if isinstance(a, (list, tuple)) else a, len(e)))
        for x, y in zip(a, e):
            bad = cmp_value(x, y, unit, path)
            if bad:
                return bad
        return None
    if isinstance(e, int) and isinstance(a, int):
        return None if a == e else ('slot %s: value differs' % path, 'model %s real %s' % (a, e))
    x, y = Fraction(a), Fraction(e)
    if abs(x - y) > REL * max(unit, abs(y)):
        return ('slot %s: value differs' % path, 'model %.17g real %.17g' % (float(x), float(y)))
    return None


def cmp_state(a, e, prefix=''):
    s = max(scale_of(a), scale_of(e))
    keys = sorted(k for k in set(a) | set(e) if not k.startswith('_'))
    # filled / empty first (the coarser disagreement wins)
    for k in keys:
        if (a.get(k) is None) != (e.get(k) is None):
            return cmp_value(a.get(k), e.get(k), s, prefix + k)
    for k in keys:
        if k == 'faces' and a.get(k) is not None:
            if len(a[k]) != len(e[k]):
                return ('slot %sfaces: shape differs' % prefix, 'model %d real %d' % (
                    len(a[k]), len(e[k])))
            for i, (fa, fe) in enumerate(zip(a[k], e[k])):
                bad = cmp_state(fa, fe, prefix + 'faces[].')
                if bad:
                    return bad[0], 'face %d: %s' % (i, bad[1])
            continue
        unit = s ** POWER.get(k, 1)
        if k in EXACT:
            if a.get(k) != e.get(k):
                return ('slot %s%s: value differs' % (prefix, k),
                        'model %s real %s' % (a.get(k), e.get(k)))
            continue
        bad = cmp_value(a.get(k), e.get(k), unit, prefix + k)
        if bad:
            return bad
    return None


def same_input(a, e, which):
    """Are the vertices the plane is recomputed from EXACTLY the same in the model state `a` and
    the real state `e` (before the step)?"""
    def fr(vs):
        return [[Fraction(c) for c in v] for v in vs]
    if which is True:
        return fr(a['vertices']) == fr(e['vertices'])
    if a.get('faces') is None or e.get('faces') is None:
        return False
    return all(i < len(a['faces']) and i < len(e['faces']) and
               fr(a['faces'][i]['vertices']) == fr(e['faces'][i]['vertices']) for i in which)


def compare_history(ops, val, exp, start=None):
    """-> (n compared, tie?, None | (step index, what-key, detail))."""
    n = 0
    if len(val) != len(ops):
        return 0, False, (0, 'answer length', 'model answered %d of %d ops' % (len(val), len(ops)))
    prev_a = prev_e = start
    for i, e in enumerate(exp):
        if 'tie' in e:
            return n, True, None
        a = val[i]
        if e.get('_cond_tie') and (prev_a is None or
                                   not same_input(prev_a, prev_e, e['_cond_tie'])):
            return n, True, None
        n += 1
        if 'raise' in e:
            return n, False, (i, 'raises %s' % e['raise'], 'real raises %s, model %s' % (
                e['raise'], 'raises' if 'err' in a else 'returns a state'))
        if 'err' in a or 'err' in e:
            if ('err' in a) != ('err' in e):
                return n, False, (i, 'error mismatch: %s raises' % (
                    'model' if 'err' in a else 'real'), 'AssertionError on one side only')
            continue
        if 'obs' in a or 'obs' in e:
            if ('obs' in a) != ('obs' in e):
                return n, False, (i, 'observation mismatch', '')
            bad = cmp_state(a['obs'], e['obs'], 'result.')
        else:
            bad = cmp_state(a, e)
            prev_a, prev_e = a, e
        if bad:
            return n, False, (i, bad[0], bad[1])
    return n, False, None


# ------------------------------------------------------------------ generators
def lat(r, lo=-6, hi=6, den=2):
    return r.randint(lo * den, hi * den) / float(den)


def bump(h, k, n=1):
    h[k] = h.get(k, 0) + n


UNIT2 = [(1.0, 0.0), (0.0, 1.0), (-1.0, 0.0), (0.6, 0.8), (-0.8, 0.6)]
UNIT3 = [(1.0, 0.0, 0.0), (0.0, 1.0, 0.0), (0.0, 0.0, -1.0), (0.6, 0.8, 0.0), (0.0, -0.8, 0.6),
         (0.48, 0.6, 0.64)]
SCALES = [2.0, 0.5, 3.0, -2.0, -0.5, -1.0, 1.0, 0.0, 1.5]


def angle(r):
    return r.choice([r.randint(-4, 4) * math.pi / 2, r.uniform(-6, 6)])


def transform_op(r, dim, allow_zero=True):
    """A random move / rotate / rotate_xy / reflect / scale wire op in `dim` dimensions."""
    pt = (lambda: [W(lat(r)) for _ in range(dim)])
    x = r.random()
    if x < 0.22:
        return {'op': 'move', 'v': pt()}
    if x < 0.40:
        a = angle(r)
        w = {'op': 'rotate', 'angle': W(a), 'c': W(math.cos(a)), 's': W(math.sin(a)), 'o': pt()}
        if dim == 3:
            ax = r.choice(UNIT3 + [(1.0, 1.0, 0.0), (0.0, 2.0, 0.0), (1.0, -2.0, 2.0)])
            w['axis'] = [W(c) for c in ax]
        return w
    if x < 0.52 and dim == 3:
        a = angle(r)
        return {'op': 'rotate_xy', 'angle': W(a), 'c': W(math.cos(a)), 's': W(math.sin(a)),
                'o': pt()}
    if x < 0.70:
        n = r.choice(UNIT2 if dim == 2 else UNIT3)
        return {'op': 'reflect', 'n': [W(c) for c in n], 'o': pt()}
    ks = SCALES if allow_zero else [k for k in SCALES if k != 0.0]
    k = r.choice(ks)
    if r.random() < 0.6:
        return {'op': 'scale', 'k': W(k), 'o': pt()}
    return {'op': 'scale_world', 'k': W(k)}


def is_zero_scale(w):
    return w['op'] in ('scale', 'scale_world') and Fraction(w['k']) == 0


# ---- polylines
PL_SHAPES = [
    [(0, 0), (2, 0), (2, 2), (0, 2)],
    [(0, 0), (4, 0), (4, 3), (1, 3), (1, 1)],
    [(0, 0), (5, 0), (2, 0), (2, 3)],                      # spike: colinear back-track
    [(0, 0), (2, 0), (4, 0), (4, 2), (4, 4)],              # colinear interior vertices
    [(0, 0), (4, 4), (4, 0), (0, 4)],                      # self-crossing
    [(0, 0), (1, 2), (3, 1)],                              # 3 vertices: remove_colinear = self
    [(0, 0), (2, 0), (2, 0), (3, 1), (0, 1)],              # duplicate vertex
    [(0, 0), (1, 0), (2, 0), (3, 0)],                      # all colinear -> assertion
    [(0, 0), (3, 0), (3, 2), (1, 2), (1, -1), (5, -1)],    # crossing the first segment
]
READS = {
    'polyline2d': ['segments', 'length', 'is_self_intersecting', 'min', 'max', 'center'],
    'polyline3d': ['segments', 'length', 'min', 'max', 'center'],
    'face3d': ['polygon2d', 'boundary_polygon2d', 'hole_polygon2d', 'boundary_segments',
               'hole_segments', 'perimeter', 'area', 'is_convex', 'is_self_intersecting',
               'triangulated_mesh2d', 'triangulated_mesh3d', 'centroid', 'min', 'max', 'center'],
    'polyface': ['faces', 'area', 'volume', 'edges', 'naked_edges', 'internal_edges',
                 'non_manifold_edges', 'min', 'max', 'center'],
}
WARM_FIRST = {'polyline2d': ['length', 'is_self_intersecting'], 'polyline3d': ['length'],
              'face3d': ['perimeter', 'area', 'is_convex', 'is_self_intersecting', 'centroid',
                         'min', 'triangulated_mesh2d'],
              'polyface': ['volume', 'area', 'faces']}


def random_polyline(r, dim, hist):
    if r.random() < 0.7:
        base = r.choice(PL_SHAPES)
        k = r.choice([1.0, 0.5, 2.0])
        d = [lat(r) for _ in range(3)]
        pts = [(x * k + d[0], y * k + d[1]) for x, y in base]
        bump(hist['source'], 'polyline shape')
    else:
        pts = [(lat(r), lat(r)) for _ in range(r.randint(3, 7))]
        bump(hist['source'], 'polyline random lattice')
    interp = r.random() < 0.3
    if dim == 2:
        return Polyline2D([Point2D(x, y) for x, y in pts], interp)
    # place in 3D: z as a lattice affine function of (x, y) or random
    mode = r.random()
    if mode < 0.4:
        a, b, c = r.choice([0.0, 0.5, 1.0, -1.0]), r.choice([0.0, 0.5, 2.0]), lat(r)
        p3d = [Point3D(x, y, a * x + b * y + c) for x, y in pts]
    elif mode < 0.7:
        p3d = [Point3D(y, lat(r, -1, 1), x) for x, y in pts]
    else:
        p3d = [Point3D(x, y, lat(r)) for x, y in pts]
    return Polyline3D(p3d, interp)


def polyline_op(r, kind, degenerate):
    dim = 2 if kind == 'polyline2d' else 3
    x = r.random()
    if x < 0.36:
        return {'op': 'read_' + r.choice(READS[kind])}
    if x < 0.42:
        return {'op': 'duplicate'}
    if x < 0.50:
        return {'op': 'reverse'}
    if x < 0.60:
        return {'op': 'remove_colinear_vertices', 'tol': W(r.choice([0.01, 0.01, 0.5, 0.0]))}
    if x < 0.64:
        if dim == 3:
            return {'op': 'to_polyline2d'}
        n = r.choice(UNIT3)
        pl = Plane(Vector3D(*n), Point3D(lat(r), lat(r), lat(r)))
        return {'op': 'to_polyline3d', 'plane': plane_w(pl)}
    return transform_op(r, dim)


# ---- faces
def _ring(pts, z=0.0):
    return [Point3D(float(x), float(y), z) for x, y in pts]


FACE_SHAPES = [
    # (name, boundary 2D, holes 2D, simple & non-degenerate?)
    ('quad', [(0, 0), (4, 0), (3, 2), (0, 1)], None, True),
    ('rect', [(0, 0), (4, 0), (4, 2), (0, 2)], None, True),
    ('tri', [(0, 0), (3, 0), (1, 2)], None, True),
    ('L', [(0, 0), (4, 0), (4, 2), (2, 2), (2, 4), (0, 4)], None, True),
    ('cw-L', [(0, 4), (2, 4), (2, 2), (4, 2), (4, 0), (0, 0)], None, True),
    ('pent', [(0, 0), (3, -1), (5, 1), (3, 4), (0, 3)], None, True),
    ('colinear', [(0, 0), (2, 0), (4, 0), (4, 3), (2, 3), (0, 3)], None, True),
    ('bowtie', [(0, 0), (4, 3), (4, 0), (0, 1)], None, False),
    ('hole1', [(0, 0), (6, 0), (6, 6), (0, 6)], [[(1, 1), (1, 2), (2, 2), (2, 1)]], True),
    ('hole2', [(0, 0), (8, 0), (8, 6), (0, 6)],
     [[(1, 1), (2, 1), (2, 3), (1, 3)], [(4, 2), (4, 4), (6, 4), (6, 2)]], True),
]
FRAMES = [
    # (origin, x axis, y axis) with exactly representable orthonormal-ish axes
    ((0.0, 0.0, 0.0), (1.0, 0.0, 0.0), (0.0, 1.0, 0.0)),
    ((1.0, 2.0, 3.0), (1.0, 0.0, 0.0), (0.0, 0.0, 1.0)),
    ((0.0, -1.0, 0.5), (0.0, 1.0, 0.0), (0.0, 0.0, 1.0)),
    ((2.0, 0.0, 0.0), (0.6, 0.8, 0.0), (0.0, 0.0, 1.0)),
    ((0.0, 0.0, 1.0), (0.6, 0.8, 0.0), (-0.8, 0.6, 0.0)),
    ((0.5, 0.5, 0.5), (0.0, 0.6, 0.8), (1.0, 0.0, 0.0)),
]


def place(pts, frame, k=1.0):
    o, x, y = frame
    return [Point3D(o[0] + k * (u * x[0] + v * y[0]), o[1] + k * (u * x[1] + v * y[1]),
                    o[2] + k * (u * x[2] + v * y[2])) for u, v in pts]


def random_face(r, hist):
    """-> (Face3D, simple?)"""
    x = r.random()
    if x < 0.12:
        b, h = r.choice([1.0, 2.0, 3.5]), r.choice([1.0, 2.5])
        fr_ = r.choice(FRAMES)
        pl = Plane(Vector3D(*_cross(fr_[1], fr_[2])), Point3D(*fr_[0]), Vector3D(*fr_[1]))
        bump(hist['source'], 'Face3D.from_rectangle')
        return Face3D.from_rectangle(b, h, pl if r.random() < 0.7 else None), True
    if x < 0.22:
        fr_ = r.choice(FRAMES)
        pl = Plane(Vector3D(*_cross(fr_[1], fr_[2])), Point3D(*fr_[0]), Vector3D(*fr_[1]))
        bump(hist['source'], 'Face3D.from_regular_polygon')
        return Face3D.from_regular_polygon(r.choice([3, 4, 5, 6]), r.choice([1.0, 2.0]),
                                           pl if r.random() < 0.7 else None), True
    if x < 0.30:
        bump(hist['source'], 'Face3D.from_extrusion')
        seg = LineSegment3D(Point3D(lat(r), lat(r), lat(r)),
                            Vector3D(*r.choice([(2.0, 0.0, 0.0), (0.0, 3.0, 0.0), (1.0, 1.0, 0.0)])))
        return Face3D.from_extrusion(seg, Vector3D(*r.choice([(0.0, 0.0, 3.0), (1.0, 0.0, 2.0),
                                                               (0.0, -1.0, 1.0)]))), True
    name, b, hs, simple = r.choice(FACE_SHAPES)
    frame, k = r.choice(FRAMES), r.choice([1.0, 0.5, 2.0])
    bump(hist['source'], 'Face3D(%s)' % name)
    boundary = place(b, frame, k)
    holes = None if hs is None else [place(h, frame, k) for h in hs]
    y = r.random()
    if y < 0.5:
        return Face3D(boundary, None, holes), simple
    pl = Plane(Vector3D(*_cross(frame[1], frame[2])), Point3D(*frame[0]), Vector3D(*frame[1]))
    if y < 0.75:
        return Face3D(boundary, pl, holes), simple
    return Face3D(boundary, pl.flip(), holes, enforce_right_hand=r.random() < 0.7), simple


def _cross(a, b):
    return (a[1] * b[2] - a[2] * b[1], a[2] * b[0] - a[0] * b[2], a[0] * b[1] - a[1] * b[0])


def face_op(r, simple, degenerate, has_holes):
    x = r.random()
    if x < 0.42:
        reads = list(READS['face3d'])
        if not simple or degenerate:
            reads = [k for k in reads if k not in ('centroid', 'triangulated_mesh2d',
                                                    'triangulated_mesh3d')]
        return {'op': 'read_' + r.choice(reads)}
    if x < 0.48:
        return {'op': 'duplicate'}
    if x < 0.56:
        return {'op': 'flip'}
    if x < 0.62 and not has_holes and not degenerate:
        return {'op': 'remove_colinear_vertices', 'tol': W(r.choice([0.01, 0.01, 0.25]))}
    return transform_op(r, 3)


# ---- polyfaces
def random_polyface(r, hist):
    """-> (Polyface3D, well-formed solid or shell whose faces getter is safe to call)"""
    x = r.random()
    frame = r.choice(FRAMES)
    pl = Plane(Vector3D(*_cross(frame[1], frame[2])), Point3D(*frame[0]), Vector3D(*frame[1]))
    if x < 0.3:
        bump(hist['source'], 'Polyface3D.from_box')
        return Polyface3D.from_box(r.choice([1.0, 2.0, 2.5]), r.choice([1.0, 3.0]),
                                   r.choice([1.0, 0.5, 2.0]), pl if r.random() < 0.6 else None)
    if x < 0.55:
        name, b, hs, simple = r.choice([s for s in FACE_SHAPES if s[3] and s[0] != 'colinear'])
        face = Face3D(place(b, frame), None, None if hs is None else [place(h, frame) for h in hs])
        bump(hist['source'], 'Polyface3D.from_offset_face(%s)' % name)
        return Polyface3D.from_offset_face(face, r.choice([1.0, 2.0, 0.5]))
    box = Polyface3D.from_box(2.0, 1.0, r.choice([1.0, 3.0]), pl if r.random() < 0.5 else None)
    if x < 0.75:
        bump(hist['source'], 'Polyface3D(box vertices, faces)')
        return Polyface3D(box.vertices, box.face_indices)
    if x < 0.9:
        bump(hist['source'], 'Polyface3D(open shell)')
        n = r.randint(2, 5)
        return Polyface3D(box.vertices, box.face_indices[:n])
    bump(hist['source'], 'Polyface3D(pyramid)')
    v = place([(0, 0), (2, 0), (2, 2), (0, 2)], frame) + \
        [Point3D(frame[0][0] + 0.5, frame[0][1] + 0.25, frame[0][2] + 3.0)]
    return Polyface3D(v, [[(3, 2, 1, 0)], [(0, 1, 4)], [(1, 2, 4)], [(2, 3, 4)], [(3, 0, 4)]])


def polyface_op(r, degenerate):
    x = r.random()
    if x < 0.42:
        reads = list(READS['polyface'])
        if degenerate:
            reads = [k for k in reads if k not in ('faces', 'area', 'volume')]
        return {'op': 'read_' + r.choice(reads)}
    if x < 0.50:
        return {'op': 'duplicate'}
    return transform_op(r, 3)


def random_history(r, hist, max_len):
    """-> (kind, start state, ops, meta)"""
    kind = r.choice(['polyline2d', 'polyline3d', 'face3d', 'face3d', 'polyface'])
    simple = True
    if kind == 'polyline2d':
        o = random_polyline(r, 2, hist)
    elif kind == 'polyline3d':
        o = random_polyline(r, 3, hist)
    elif kind == 'face3d':
        o, simple = random_face(r, hist)
    else:
        o = random_polyface(r, hist)
    warm = r.random()
    if warm < 0.45:
        n_warm = 0
    else:
        cands = WARM_FIRST[kind] if warm < 0.8 else READS[kind]
        if kind == 'face3d' and not simple:
            cands = [k for k in cands if k not in ('centroid', 'triangulated_mesh2d',
                                                    'triangulated_mesh3d')]
        n_warm = r.randint(1, 3)
        for k in r.sample(cands, min(n_warm, len(cands))):
            if kind == 'polyline2d' and k == 'is_self_intersecting' \
                    and selfint_tie(o._vertices, False):
                continue
            if kind == 'face3d' and tie_before(kind, o, {'op': 'read_' + k}):
                continue
            getattr(o, k)
    bump(hist['start_cache'], 'cold' if n_warm == 0 else 'warm')
    start = STATE[kind](o)
    ops, degenerate = [], False
    has_holes = kind == 'face3d' and o._holes is not None
    for _ in range(r.randint(1, max_len)):
        if kind in ('polyline2d', 'polyline3d'):
            w = polyline_op(r, kind, degenerate)
        elif kind == 'face3d':
            w = face_op(r, simple, degenerate, has_holes)
        else:
            w = polyface_op(r, degenerate)
        if is_zero_scale(w):
            degenerate = True
        ops.append(w)
    return kind, start, ops


# ------------------------------------------------------------------ fixed corpus
def fixed_corpus():
    out = []
    # --- polylines: warm length, then every transfer path
    spike2 = Polyline2D([Point2D(0, 0), Point2D(5, 0), Point2D(2, 0), Point2D(2, 3)])
    spike2.length
    out.append(('polyline2d', pl2_state(spike2),
                [{'op': 'remove_colinear_vertices', 'tol': W(0.01)}, {'op': 'read_length'}]))
    spike3 = Polyline3D([Point3D(0, 0, 1), Point3D(5, 0, 1), Point3D(2, 0, 1), Point3D(2, 3, 1)])
    spike3.length
    out.append(('polyline3d', pl3_state(spike3),
                [{'op': 'remove_colinear_vertices', 'tol': W(0.01)}, {'op': 'read_length'}]))
    for k in (-2.0, 0.0, 0.5):
        pl = Polyline2D([Point2D(0, 0), Point2D(3, 4), Point2D(3, 0), Point2D(0, 4)], True)
        pl.length
        pl.is_self_intersecting
        out.append(('polyline2d', pl2_state(pl),
                    [{'op': 'scale', 'k': W(k), 'o': [W(1), W(1)]}, {'op': 'read_length'},
                     {'op': 'scale_world', 'k': W(k)}, {'op': 'read_length'},
                     {'op': 'read_is_self_intersecting'}] if k != 0.0 else
                    [{'op': 'scale', 'k': W(k), 'o': [W(1), W(1)]}, {'op': 'read_length'}]))
        p3_ = Polyline3D([Point3D(0, 0, 0), Point3D(3, 4, 0), Point3D(3, 4, 12)])
        p3_.length
        out.append(('polyline3d', pl3_state(p3_),
                    [{'op': 'scale', 'k': W(k), 'o': [W(1), W(1), W(0)]}, {'op': 'read_length'},
                     {'op': 'reverse'}, {'op': 'read_length'}, {'op': 'read_center'},
                     {'op': 'move', 'v': [W(1), W(2), W(3)]}, {'op': 'read_min'},
                     {'op': 'duplicate'}, {'op': 'read_length'}, {'op': 'to_polyline2d'}]))
    allcol = Polyline2D([Point2D(0, 0), Point2D(1, 0), Point2D(2, 0), Point2D(3, 0)])
    out.append(('polyline2d', pl2_state(allcol),
                [{'op': 'remove_colinear_vertices', 'tol': W(0.01)}, {'op': 'read_length'}]))
    tri = Polyline2D([Point2D(0, 0), Point2D(1, 0), Point2D(2, 0)])
    tri.length
    tri.center
    out.append(('polyline2d', pl2_state(tri),
                [{'op': 'remove_colinear_vertices', 'tol': W(0.01)}, {'op': 'read_max'},
                 {'op': 'reflect', 'n': [W(0.6), W(0.8)], 'o': [W(0), W(1)]},
                 {'op': 'read_length'}]))
    # --- faces
    rect = Face3D([Point3D(0, 0, 0), Point3D(2, 0, 0), Point3D(2, 1, 0), Point3D(0, 1, 0)])
    for k in ('perimeter', 'area', 'is_convex', 'is_self_intersecting', 'min', 'centroid'):
        getattr(rect, k)
    for kf in (-2.0, 0.0, 3.0):
        ops = [{'op': 'scale_world', 'k': W(kf)}, {'op': 'read_perimeter'}, {'op': 'read_area'},
               {'op': 'read_min'}]
        if kf != 0.0:
            ops += [{'op': 'scale', 'k': W(kf), 'o': [W(1), W(1), W(1)]},
                    {'op': 'read_centroid'}, {'op': 'read_perimeter'}]
        out.append(('face3d', face_state(rect), ops))
    out.append(('face3d', face_state(rect),
                [{'op': 'move', 'v': [W(1), W(2), W(3)]}, {'op': 'read_min'},
                 {'op': 'read_center'}, {'op': 'flip'}, {'op': 'read_area'},
                 {'op': 'reflect', 'n': [W(0), W(-0.8), W(0.6)], 'o': [W(0), W(0), W(1)]},
                 {'op': 'read_centroid'}, {'op': 'duplicate'}, {'op': 'read_triangulated_mesh3d'},
                 {'op': 'duplicate'}]))
    name, b, hs, _ = FACE_SHAPES[-1]
    holed = Face3D(place(b, FRAMES[3]), None, [place(h, FRAMES[3]) for h in hs])
    for k in ('perimeter', 'area', 'centroid', 'is_self_intersecting'):
        getattr(holed, k)
    a = 0.75
    out.append(('face3d', face_state(holed),
                [{'op': 'rotate', 'axis': [W(1), W(-2), W(2)], 'angle': W(a), 'c': W(math.cos(a)),
                  's': W(math.sin(a)), 'o': [W(1), W(0), W(0)]}, {'op': 'read_area'},
                 {'op': 'read_centroid'}, {'op': 'scale', 'k': W(-0.5), 'o': [W(0), W(0), W(0)]},
                 {'op': 'read_perimeter'}, {'op': 'read_polygon2d'}, {'op': 'read_hole_segments'},
                 {'op': 'flip'}, {'op': 'read_is_convex'}, {'op': 'duplicate'}]))
    col = Face3D(place(FACE_SHAPES[6][1], FRAMES[1]))
    col.area
    out.append(('face3d', face_state(col),
                [{'op': 'remove_colinear_vertices', 'tol': W(0.01)}, {'op': 'read_area'},
                 {'op': 'read_perimeter'}]))
    for n in (3, 5):
        out.append(('face3d', face_state(Face3D.from_regular_polygon(n, 2.0)),
                    [{'op': 'read_center'}, {'op': 'move', 'v': [W(1), W(0), W(0)]},
                     {'op': 'read_center'}, {'op': 'read_centroid'}]))
    # --- polyfaces
    box = Polyface3D.from_box(1.0, 2.0, 3.0)
    for kf in (-2.0, 2.0, 0.0):
        out.append(('polyface', pf_state(box),
                    [{'op': 'scale_world', 'k': W(kf)}, {'op': 'read_volume'}] +
                    ([{'op': 'read_faces'}, {'op': 'read_area'}] if kf != 0.0 else [])))
    cold = Polyface3D(box.vertices, box.face_indices)
    out.append(('polyface', pf_state(cold),
                [{'op': 'read_volume'}, {'op': 'scale', 'k': W(-2.0), 'o': [W(1), W(1), W(1)]},
                 {'op': 'read_volume'}, {'op': 'read_area'}, {'op': 'duplicate'},
                 {'op': 'read_volume'},
                 {'op': 'reflect', 'n': [W(1), W(0), W(0)], 'o': [W(0), W(0), W(0)]},
                 {'op': 'read_volume'}, {'op': 'read_naked_edges'}, {'op': 'read_internal_edges'},
                 {'op': 'read_non_manifold_edges'}, {'op': 'read_center'}]))
    shell = Polyface3D(box.vertices, box.face_indices[:5])
    out.append(('polyface', pf_state(shell),
                [{'op': 'read_volume'}, {'op': 'move', 'v': [W(0), W(0), W(5)]},
                 {'op': 'read_volume'}, {'op': 'read_naked_edges'}, {'op': 'read_area'}]))
    return out


# ------------------------------------------------------------------ run
def budget(ctx):
    thorough = ctx.tier == 'thorough' or bool(getattr(ctx, 'broken', None))
    wall = 170.0 if thorough else 11.0
    return thorough, min(time.time() + wall, getattr(ctx, 'deadline', float('inf')) - 5)


def signature(kind, ops, i, what):
    return '%s|%s: %s' % (OPNAME[kind], ops[i]['op'], what)


def filled_slots(e):
    return [k for k, v in e.items() if v is not None and not k.startswith('_') and k not in (
        'vertices', 'interpolated', 'boundary', 'holes', 'plane', 'face_indices', 'edge_indices',
        'edge_types', 'is_solid')]


def nontrivial_steps(start, ops, exp):
    """Compared steps in which a memo value is in play: a read on a warm cache, a non-read op
    whose result carries a filled memo slot, or a step on which the real method raises."""
    n = 0
    prev = bool(filled_slots(start))
    for w, e in zip(ops, exp):
        if 'tie' in e:
            break
        if 'err' in e or 'raise' in e:
            n += 1
            continue
        if 'obs' in e:
            n += 1 if prev else 0
            continue
        cur = bool(filled_slots(e))
        if w['op'].startswith('read_'):
            n += 1 if prev else 0
        else:
            n += 1 if cur else 0
        prev = cur
    return n


def wire_ops(ops):
    """Ops as sent to the model (harness-only keys removed)."""
    return [{k: v for k, v in w.items() if k != 'angle'} for w in ops]


def check_one(driver, kind, start, ops):
    ops = [dict(w) for w in ops]
    exp = real_history(kind, start, ops)
    ok, val = driver.run([(OPNAME[kind], [start, wire_ops(ops)])])[0]
    if not ok:
        return (0, 'driver error', str(val)[:200])
    return compare_history(ops, val, exp, start)[2]


def shrink(driver, kind, start, ops, what_key, deadline):
    """Drop single ops while the same disagreement remains (one driver batch per round)."""
    for _ in range(4):
        if time.time() > deadline or len(ops) <= 1:
            break
        cands = [ops[:j] + ops[j + 1:] for j in range(len(ops))]
        cands = [[{k: v for k, v in w.items() if k != 'fresh'} for w in c] for c in cands]
        exps = [real_history(kind, start, c) for c in cands]
        answers = driver.run([(OPNAME[kind], [start, wire_ops(c)]) for c in cands])
        better = None
        for c, e, (ok, val) in zip(cands, exps, answers):
            if not ok:
                continue
            bad = compare_history(c, val, e, start)[2]
            if bad and signature(kind, c, bad[0], bad[1]) == what_key:
                better = c[:bad[0] + 1]
                break
        if better is None:
            break
        ops = better
    return ops


def make_disagreement(kind, start, ops, bad, seed):
    i, what, detail = bad
    cut = [{k: v for k, v in w.items() if k != 'fresh'} for w in ops[:i + 1]]
    return {'signature': signature(kind, ops, i, what),
            'what': 'after %s (step %d of %s): %s — %s' % (
                ops[i]['op'], i, [o['op'] for o in ops[:i + 1]], what, detail),
            'op': OPNAME[kind], 'args': [start, cut], 'kind': kind, 'model': what,
            'real': detail, 'seed': seed}


def run(ctx, prop):
    t0 = time.time()
    thorough, stop = budget(ctx)
    hist = {'kind': {}, 'source': {}, 'start_cache': {}, 'ops': {}, 'history_length': {},
            'real_errors': {}, 'filled_slots_per_state': {}, 'scale_factor_sign': {},
            'out_of_domain': {}}
    out = {'requests': 0, 'nontrivial': 0, 'disagreements': [], 'float_ties': 0,
           'histograms': hist, 'samples': [],
           'rule': 'request = one step of an operation history compared slot by slot; '
                   'non-trivial = a read on a warm cache, a non-read op whose result carries '
                   'a filled memo slot, or a step on which the real method raises'}
    if prop not in PROPS:
        return out
    found = {}

    def do_batch(cases, label):
        """cases: (kind, start, ops); the real side runs first (it annotates the ops)."""
        if not cases:
            return
        exps = []
        for kind, start, ops in cases:
            exps.append(real_history(kind, start, ops))
        answers = ctx.driver.run([(OPNAME[k], [s, wire_ops(o)]) for k, s, o in cases])
        for (kind, start, ops), exp, (ok, val) in zip(cases, exps, answers):
            bump(hist['kind'], kind)
            bump(hist['history_length'], len(ops))
            for w in ops[:len(exp)]:
                bump(hist['ops'], '%s.%s' % (kind, w['op']))
                if w['op'] in ('scale', 'scale_world'):
                    k = Fraction(w['k'])
                    bump(hist['scale_factor_sign'], 'zero' if k == 0 else
                         ('negative' if k < 0 else 'positive'))
                    if k == 0 and kind in ('face3d', 'polyface'):
                        bump(hist['out_of_domain'], '%s scale by 0' % kind)
            if kind == 'polyface' and not start['is_solid']:
                if any(w['op'] == 'read_volume' for w in ops[:len(exp)]):
                    bump(hist['out_of_domain'], 'volume of an open shell')
            if not ok:
                bad, n, tie = (0, 'driver error', str(val)[:200]), 0, False
            else:
                n, tie, bad = compare_history(ops, val, exp, start)
            out['requests'] += n
            out['float_ties'] += 1 if tie else 0
            out['nontrivial'] += nontrivial_steps(start, ops, exp)
            for e in exp:
                if 'tie' in e or 'obs' in e:
                    continue
                if 'err' in e or 'raise' in e:
                    bump(hist['real_errors'], e.get('err') or e.get('raise'))
                else:
                    bump(hist['filled_slots_per_state'], min(len(filled_slots(e)), 12))
            if bad:
                d = make_disagreement(kind, start, ops, bad, '%s/%s' % (ctx.seed, label))
                if d['signature'] not in found:
                    found[d['signature']] = d
            elif len(out['samples']) < 3 and 2 <= len(ops) <= 3 and label != 'fixed' \
                    and kind != 'polyface':
                out['samples'].append({'op': OPNAME[kind], 'args': [start, wire_ops(ops)],
                                       'agrees': True})

    do_batch([(k, s, [dict(w) for w in o]) for k, s, o in fixed_corpus()], 'fixed')
    bump(hist['source'], 'fixed corpus', len(fixed_corpus()))

    # one PRNG stream per round, a fixed number of histories per round: what a round contains
    # depends on (seed, round) only, never on the speed of the machine
    per_batch = 700 if thorough else 230
    max_len = 20 if thorough else 8
    rounds = 0
    while time.time() < stop and (rounds < 1 or thorough) and rounds < 12:
        r = random.Random('%s/corr.polycache/%d' % (ctx.seed, rounds))
        cases = []
        tb = time.time()
        for _ in range(per_batch):
            cases.append(random_history(r, hist, max_len))
            if not thorough and time.time() - tb > 8.0:     # safety net for the quick budget
                break
        do_batch(cases, 'round%d' % rounds)
        rounds += 1

    slack = 20 if thorough else 7
    for sig in sorted(found)[:8]:
        d = found[sig]
        if time.time() < stop + slack:
            try:
                small = shrink(ctx.driver, d['kind'], d['args'][0], d['args'][1], sig,
                               stop + slack)
                if len(small) < len(d['args'][1]):
                    bad = check_one(ctx.driver, d['kind'], d['args'][0], small)
                    if bad and signature(d['kind'], small, bad[0], bad[1]) == sig:
                        d = make_disagreement(d['kind'], d['args'][0], small, bad, d['seed'])
            except Exception:       # noqa: BLE001 - shrinking is best effort
                pass
        out['disagreements'].append(d)
    out['seconds'] = round(time.time() - t0, 1)
    return out


def replay(ctx, disagreement):
    """Re-run one recorded disagreement on the current tree."""
    kind = disagreement.get('kind') or disagreement['op'].split('.')[1][:-len('_history')]
    start, ops = disagreement['args']
    ops = [dict(w) for w in ops]
    bad = check_one(ctx.driver, kind, start, ops)
    if not bad:
        return None
    return make_disagreement(kind, start, ops, bad, disagreement.get('seed'))


if __name__ == '__main__':
    if os.environ.get('POLYCACHE_LEAN_DIR'):      # local testing of an unmerged copy only
        lbg.LEAN_DIR = os.environ['POLYCACHE_LEAN_DIR']
        lbg.scratch_dir = lambda: os.path.dirname(lbg.LEAN_DIR)

    class Ctx(object):
        pass
    ctx = Ctx()
    ctx.seed = int(sys.argv[1]) if len(sys.argv) > 1 else int(os.environ.get('VERIF_SEED', '0'))
    ctx.tier = sys.argv[2] if len(sys.argv) > 2 else os.environ.get('VERIF_TIER', 'quick')
    ctx.broken = []
    ctx.driver = lbg.Driver()
    ctx.deadline = time.time() + 3600
    t = time.time()
    res = run(ctx, PROPS[0])
    print('%s seed %s %s: %d requests, %d non-trivial, %d float ties, %d disagreements, %.1f s' % (
        os.path.basename(__file__), ctx.seed, ctx.tier, res['requests'], res['nontrivial'],
        res['float_ties'], len(res['disagreements']), time.time() - t))
    for k, v in sorted(res['histograms'].items()):
        print('  %s: %s' % (k, dict(sorted(v.items(), key=lambda kv: str(kv[0])))))
    for d in res['disagreements']:
        print('DISAGREEMENT', d['signature'], '::', d['what'][:600])
        again = replay(ctx, d)
        print('   replay:', 'reproduced' if again else 'NOT reproduced',
              '(%d ops)' % len(d['args'][1]))
    sys.exit(1 if res['disagreements'] else 0)
