"""Correspondence of the hand models in `Model/SubRects.lean` (C19) with the real library.

C19  model.sub_rects_ratio            vs  Face3D.sub_rects_from_rect_ratio
     model.sub_rects_dimensions       vs  Face3D.sub_rects_from_rect_dimensions
     model.sub_faces_ratio_rectangle  vs  Face3D.sub_faces_by_ratio_rectangle on rectangles (and
                                          trapezoids / horizontal faces, where the model must
                                          answer `null`)
     model.polygon_offset             vs  Polygon2D.offset (check_intersection=False)

Parameters are dyadic numbers, planes have dyadic origins; the decimal constants of the code
(0.98, 0.99, 0.01, 0.02, 1.02) are exact rationals in the model and doubles in the code, `sqrt`,
`acos`, `sin`, `cos` go through doubles on both sides, so vertex lists are compared within 1e-9
(relative to 1 + |value|); the number of faces, the vertex order and the exception kind are
compared exactly.  A disagreement whose exact threshold tests (recomputed here on Fractions) lie
within 1e-9 of a tie is counted in `float_ties` and not reported.

Stand-alone:  /venv/bin/python subrects.py [seed] [quick|thorough]"""
import math
import os
import random
import sys
import time
from fractions import Fraction

_H = os.path.dirname(os.path.dirname(os.path.abspath(__file__)))
if _H not in sys.path:
    sys.path.insert(0, _H)
import lbg  # noqa: E402

from ladybug_geometry.geometry2d.pointvector import Point2D  # noqa: E402
from ladybug_geometry.geometry2d.polygon import Polygon2D  # noqa: E402
from ladybug_geometry.geometry3d.pointvector import Point3D, Vector3D  # noqa: E402
from ladybug_geometry.geometry3d.face import Face3D  # noqa: E402
from ladybug_geometry.geometry3d.plane import Plane  # noqa: E402

PROPS = ['C19']
MODELS = ['LbgVerif/Model/SubRects.lean', 'LbgVerif/Model/Dispatch_SubRects.lean']
REAL = ['ladybug_geometry/geometry3d/face.py:Face3D.sub_rects_from_rect_ratio,'
        'sub_rects_from_rect_dimensions,sub_faces_by_ratio_rectangle,extract_rectangle,'
        'get_top_bottom_horizontal_edges,_split_with_rectangle,__init__ (enforce_right_hand)',
        'ladybug_geometry/geometry3d/line.py:LineSegment3D.from_sdl,subdivide_evenly',
        'ladybug_geometry/geometry2d/polygon.py:Polygon2D.offset',
        'ladybug_geometry/geometry2d/pointvector.py:Vector2D.angle,angle_clockwise,'
        'angle_counterclockwise']
TRUSTED = [
    'C19: decimal literals (0.98 …) are exact rationals in the model and doubles in the code; '
    'sqrt / acos / sin / cos are IEEE doubles on both sides (the model applies them to exact '
    'rational arguments); vertex coordinates are compared within 1e-9',
    'C19: the accumulated `parameter += interval` of subdivide_evenly is exact in the model; the '
    'double loop may stop one pass early and append p2 instead, which changes the last point by '
    'an ulp only',
    'C19: sub_faces_by_ratio_rectangle — the model is given the plane of the real face and the '
    'boundary of the real remove_colinear_vertices result; point_relationship / '
    'is_self_intersecting checks of _split_with_rectangle and left-over faces are not modelled '
    '(the model answers null and the case is only counted)',
    'C19: Polygon2D.offset — check_intersection=True is not modelled; exactly colinear vertex '
    'triples sit on the domain boundary of acos (|cos| = 1 up to an ulp) and are counted as '
    'float ties when they disagree']

W = lbg.wnum
APPROX = Fraction(1, 10 ** 9)
QUICK_BUDGET, THOROUGH_BUDGET = 16.0, 240.0
RULE = ('one comparison = one call of the real routine against one model request. non-trivial = '
        'sub_rects_*: at least two faces or a vertical split / clamped parameter; '
        'sub_faces_by_ratio_rectangle: the model answers a face (rectangle case); offset: the '
        'polygon has >= 3 distinct vertices and distance != 0')


# ====================================================================== helpers
def canon(j):
    if isinstance(j, bool) or j is None:
        return j
    if isinstance(j, str):
        return Fraction(j)
    if isinstance(j, int):
        return Fraction(j)
    if isinstance(j, list):
        return [canon(x) for x in j]
    return j


def close(a, b, tol=APPROX):
    if not lbg.same_shape(a, b):
        return False
    fa, fb = lbg.flat_numbers(a), lbg.flat_numbers(b)
    return len(fa) == len(fb) and all(abs(x - y) <= tol * (1 + abs(x)) for x, y in zip(fa, fb))


def show(x, lim=300):
    def f(v):
        if isinstance(v, Fraction):
            return float(v)
        if isinstance(v, (list, tuple)):
            return [f(a) for a in v]
        return v
    s = repr(f(x))
    return s if len(s) <= lim else s[:lim] + '…'


def faces3(fs):
    return [[[Fraction(p.x), Fraction(p.y), Fraction(p.z)] for p in f.vertices] for f in fs]


def plane_of(spec):
    n, o, x = spec
    return Plane(Vector3D(*n), Point3D(*o), Vector3D(*x))


def near(a, b, scale=1):
    return abs(Fraction(a) - Fraction(b)) <= APPROX * (abs(Fraction(scale)) + 1)


# ====================================================================== kinds
class Kind(object):
    name = None

    def real(self, inp):
        """-> ('ok', value) | ('raise', ExcName)"""
        raise NotImplementedError

    def request(self, inp):
        raise NotImplementedError

    def tie(self, inp):
        return False

    def nontrivial(self, inp, real):
        return True

    def branch(self, inp, real):
        return 'ok'

    def size(self, inp):
        return 0

    def compare(self, inp, model, real):
        """model = (ok, val); real = ('ok', v) | ('raise', name).  None = agree,
        'unmodelled', or (class, detail)."""
        ok, val = model
        if real[0] == 'raise':
            if not ok and real[1] in str(val):
                return None
            return ('real raises %s' % real[1], 'model %s' % (show(canon(val)) if ok else val))
        if not ok:
            return ('model raises %s' % str(val)[:40], 'real %s' % show(real[1]))
        m = canon(val)
        if close(m, real[1]):
            return None
        if isinstance(m, list) and isinstance(real[1], list) and len(m) != len(real[1]):
            return ('number of faces/vertices differs', 'model %d real %d' % (len(m), len(real[1])))
        return ('vertices differ', 'model %s real %s' % (show(m), show(real[1])))


def _call(f, *a):
    try:
        return ('ok', f(*a))
    except (ZeroDivisionError, AssertionError, ValueError, OverflowError, IndexError,
            TypeError, AttributeError) as e:
        return ('raise', type(e).__name__)


Q98, Q99, Q01, Q02, Q102 = Fraction(49, 50), Fraction(99, 100), Fraction(1, 100), \
    Fraction(1, 50), Fraction(51, 50)


def py_round(q):
    f = math.floor(q)
    d = q - f
    if d < Fraction(1, 2):
        return f
    if d > Fraction(1, 2):
        return f + 1
    return f if f % 2 == 0 else f + 1


class Ratio(Kind):
    name = 'sub_rects_ratio'
    keys = ('B', 'H', 'r', 'srh', 'sill', 'hs', 'vs')

    def real(self, inp):
        pl = plane_of(inp['plane'])
        a = [inp[k] for k in self.keys]
        r = _call(Face3D.sub_rects_from_rect_ratio, pl, *a)
        return ('ok', faces3(r[1])) if r[0] == 'ok' else r

    def request(self, inp):
        pl = plane_of(inp['plane'])
        return ('model.sub_rects_ratio', [lbg.to_wire(pl, 'PlaneS')] + [W(inp[k]) for k in self.keys])

    def thresholds(self, inp):
        """Exact (lhs, rhs, exact) triples of every threshold test on the exact path; `exact` =
        both sides are computed without rounding by the double code (dyadic inputs only), so the
        double test is the exact test and can never be a float tie."""
        B, H, r, srh0, sill0, hs, vs = [Fraction(inp[k]) for k in self.keys]
        out = []
        target = B * H * r
        out.append((target, B * Q98 * srh0, False))
        out.append((srh0, Q98 * H, False))
        srh = Q98 * H if srh0 > Q98 * H else srh0
        out.append((sill0, Q01 * H, False))
        sill = Q01 * H if sill0 < Q01 * H else sill0
        if target < B * Q98 * srh0:
            out.append((B, hs / 2, True))
            if B > hs / 2 and hs != 0:
                q = B / hs
                # a quotient with fractional part exactly 1/2 is a dyadic double: exact
                out.append((q - math.floor(q), Fraction(1, 2), q.denominator == 2))
            if vs != 0:
                msv = H - sill - srh - Q02 * H
                out.append((msv, 0, False))
                out.append((vs, msv, False))
        elif B != 0:
            single = target / (B * Q98)
            if vs != 0:
                msv = H - sill - single - Q02 * H
                out.append((msv, 0, False))
                out.append((vs, msv, False))
        return out

    def tie(self, inp):
        return any((not ex) and near(a, b, max(abs(a), abs(b))) for a, b, ex in self.thresholds(inp))

    def nontrivial(self, inp, real):
        return real[0] == 'ok' and (len(real[1]) >= 2 or Fraction(inp['srh']) > Q98 * Fraction(inp['H']))

    def branch(self, inp, real):
        if real[0] != 'ok':
            return 'raises ' + real[1]
        B, H, r, srh0 = [Fraction(inp[k]) for k in ('B', 'H', 'r', 'srh')]
        br = 'several' if B * H * r < B * Q98 * srh0 else 'single'
        return '%s, %d faces%s' % (br, min(len(real[1]), 9), ', vs' if inp['vs'] != 0 else '')

    def size(self, inp):
        return int(abs(inp['B'] / inp['hs'])) if inp['hs'] else 0


class Dims(Kind):
    name = 'sub_rects_dimensions'
    keys = ('B', 'H', 'srh', 'w', 'sill', 'hs')

    def real(self, inp):
        pl = plane_of(inp['plane'])
        a = [inp[k] for k in self.keys]
        r = _call(Face3D.sub_rects_from_rect_dimensions, pl, *a)
        return ('ok', faces3(r[1])) if r[0] == 'ok' else r

    def request(self, inp):
        pl = plane_of(inp['plane'])
        return ('model.sub_rects_dimensions',
                [lbg.to_wire(pl, 'PlaneS')] + [W(inp[k]) for k in self.keys])

    def thresholds(self, inp):
        B, H, srh0, w, sill, hs0 = [Fraction(inp[k]) for k in self.keys]
        out = [(srh0, H - Q02 * H, False), (sill, Q01 * H, False)]
        srh = H - Q02 * H if srh0 >= H - Q02 * H else srh0
        sh = Q01 * H if sill < Q01 * H else sill
        out.append((srh + sh, H, srh == srh0 and sh == sill))
        out.append((w, hs0, True))
        hs = w * Q102 if w >= hs0 else hs0
        hx = hs == hs0          # the separation is the (dyadic) input: double arithmetic exact
        out.append((B, hs / 2, hx))
        n0 = 1
        if B > hs / 2 and hs != 0:
            q = B / hs
            out.append((q - math.floor(q), Fraction(1, 2), hx and q.denominator == 2))
            n0 = py_round(q)
        out.append((w, B / 2, True))
        if w < B / 2:
            lhs = n0 * w + (n0 - 1) * (hs - w)
            out.append((lhs, B, hx))
            if lhs > B and hs != 0:
                q = B / hs
                out.append((q - math.floor(q), 0, hx and q.denominator == 1))
                out.append((q - math.floor(q), 1, False))
        else:
            out.append((w, B, True))
        return out

    def tie(self, inp):
        return any((not ex) and near(a, b, max(abs(a), abs(b))) for a, b, ex in self.thresholds(inp))

    def nontrivial(self, inp, real):
        return real[0] == 'ok' and len(real[1]) >= 2

    def branch(self, inp, real):
        if real[0] != 'ok':
            return 'raises ' + real[1]
        B, w = Fraction(inp['B']), Fraction(inp['w'])
        return '%s, %d faces' % ('several' if w < B / 2 else 'single', min(len(real[1]), 9))

    def size(self, inp):
        return int(abs(inp['B'] / inp['hs'])) if inp['hs'] else 0


class RatioRect(Kind):
    """inp: pts (3D, floats), ratio, tol."""
    name = 'sub_faces_by_ratio_rectangle'

    def real(self, inp):
        try:
            f = Face3D([Point3D(*p) for p in inp['pts']])
            clean = f.remove_colinear_vertices(inp['tol'])
        except Exception as e:
            return ('skip', type(e).__name__)
        self._ctx = (f, clean)
        r = _call(f.sub_faces_by_ratio_rectangle, inp['ratio'], inp['tol'])
        return ('ok', faces3(r[1])) if r[0] == 'ok' else r

    def request(self, inp):
        f = Face3D([Point3D(*p) for p in inp['pts']])
        clean = f.remove_colinear_vertices(inp['tol'])
        return ('model.sub_faces_ratio_rectangle', [
            lbg.to_wire(f.plane, 'PlaneS'), [[W(p.x), W(p.y), W(p.z)] for p in clean.boundary],
            W(inp['ratio']), W(inp['tol'])])

    def compare(self, inp, model, real):
        ok, val = model
        if ok and val is None:
            return 'unmodelled'
        return Kind.compare(self, inp, model, real)

    def nontrivial(self, inp, real):
        return inp.get('shape') == 'rectangle'

    def branch(self, inp, real):
        return inp.get('shape', '?')

    def size(self, inp):
        return len(inp['pts'])


class Offset(Kind):
    """inp: pts (2D floats), d."""
    name = 'polygon_offset'

    def real(self, inp):
        def go():
            return Polygon2D([Point2D(*p) for p in inp['pts']]).offset(inp['d'])
        r = _call(go)
        if r[0] == 'ok':
            return ('ok', [[Fraction(p.x), Fraction(p.y)] for p in r[1].vertices])
        return r

    def request(self, inp):
        return ('model.polygon_offset', [[[W(x), W(y)] for x, y in inp['pts']], W(inp['d'])])

    def tie(self, inp):
        ps = [(Fraction(x), Fraction(y)) for x, y in inp['pts']]
        ps = [p for i, p in enumerate(ps) if p != ps[i - 1]]
        n = len(ps)
        for i in range(n):
            a, p, b = ps[i - 1], ps[i], ps[(i + 1) % n]
            det = (a[0] - p[0]) * (b[1] - p[1]) - (a[1] - p[1]) * (b[0] - p[0])
            if det == 0:
                return True
        return False

    def nontrivial(self, inp, real):
        ps = [tuple(p) for p in inp['pts']]
        return inp['d'] != 0 and len([p for i, p in enumerate(ps) if p != ps[i - 1]]) >= 3

    def branch(self, inp, real):
        poly = Polygon2D([Point2D(*p) for p in inp['pts']])
        ps = [tuple(p) for p in inp['pts']]
        dup = len([p for i, p in enumerate(ps) if p == ps[i - 1]])
        return '%s%s%s d%s0' % ('cw' if poly.is_clockwise else 'ccw',
                                 '' if poly.is_convex else ' concave',
                                 ' +dup' if dup else '', '>' if inp['d'] > 0 else
                                 ('<' if inp['d'] < 0 else '='))

    def size(self, inp):
        return len(inp['pts'])


KINDS = {k.name: k for k in (Ratio(), Dims(), RatioRect(), Offset())}


# ====================================================================== generators
PLANES = [
    ((0, -1, 0), (0, 0, 0), (1, 0, 0)),
    ((1, 0, 0), (2.5, -1.0, 0.75), (0, 1, 0)),
    ((0, 0, 1), (1.0, 2.0, 3.0), (1, 0, 0)),
    ((0, 0, 1), (0.0, 0.0, 0.0), (0, -1, 0)),
    ((0.6, 0.8, 0), (-4.0, 1.5, 2.0), (-0.8, 0.6, 0)),
    ((0.0, -0.6, 0.8), (1.0, 1.0, 1.0), (1, 0, 0)),
    ((1, 2, 2), (0.5, 0.25, -3.0), (2, -2, 1)),
]


def dy(rng, lo, hi, den=8):
    return rng.randint(int(lo * den), int(hi * den)) / float(den)


def gen_ratio(rng, wild):
    B, H = dy(rng, 1, 24), dy(rng, 1, 8)
    inp = {'plane': rng.choice(PLANES), 'B': B, 'H': H,
           'r': rng.randint(1, 63) / 64.0, 'srh': dy(rng, 0.25, H * 1.25),
           'sill': dy(rng, 0, H * 0.75), 'hs': dy(rng, 0.25, B * 1.5),
           'vs': rng.choice([0, 0, 0, 0.125, 0.25, 0.5, 1.0, 4.0, -0.5])}
    if wild:
        k = rng.choice(list(Ratio.keys))
        inp[k] = rng.choice([0.0, -1.0, 0.125, 100.0, inp[k]])
    return inp


def gen_dims(rng, wild):
    B, H = dy(rng, 1, 24), dy(rng, 1, 8)
    inp = {'plane': rng.choice(PLANES), 'B': B, 'H': H, 'srh': dy(rng, 0.25, H * 1.25),
           'w': dy(rng, 0.125, B * 0.75), 'sill': dy(rng, 0, H * 0.75),
           'hs': dy(rng, 0.25, B * 1.5)}
    if rng.random() < 0.3:
        inp['w'] = dy(rng, 0.125, max(0.25, B / 6))
    if wild:
        k = rng.choice(list(Dims.keys))
        inp[k] = rng.choice([0.0, -1.0, 0.125, 100.0, inp[k]])
    return inp


def gen_rect(rng):
    """A quadrilateral with horizontal bottom and top in a vertical or tilted plane."""
    az = rng.choice([0.0, math.pi / 2, math.pi, 0.3, 1.1, 2.0, 4.0, 5.5])
    tilt = rng.choice([math.pi / 2, math.pi / 2, 1.0, 0.6, 2.2])
    xa = (math.cos(az), math.sin(az), 0.0)
    ya = (-math.sin(az) * math.cos(tilt), math.cos(az) * math.cos(tilt), math.sin(tilt))
    o = (dy(rng, -8, 8, 4), dy(rng, -8, 8, 4), dy(rng, -2, 6, 4))
    w, h = dy(rng, 1, 12, 4), dy(rng, 1, 6, 4)
    shape = rng.choice(['rectangle'] * 6 + ['trapezoid', 'parallelogram', 'horizontal'])
    uv = [(0, 0), (w, 0), (w, h), (0, h)]
    if shape == 'trapezoid':
        uv = [(0, 0), (w, 0), (w * 0.75, h), (w * 0.25, h)]
    elif shape == 'parallelogram':
        uv = [(0, 0), (w, 0), (w * 1.25, h), (w * 0.25, h)]
    elif shape == 'horizontal':
        ya = (-math.sin(az), math.cos(az), 0.0)
    pts = [tuple(o[i] + u * xa[i] + v * ya[i] for i in range(3)) for u, v in uv]
    k = rng.randint(0, 3)
    pts = pts[k:] + pts[:k]
    if rng.random() < 0.5:
        pts.reverse()
    return {'pts': pts, 'ratio': rng.randint(1, 63) / 64.0, 'tol': 0.01, 'shape': shape}


def gen_poly(rng):
    kind = rng.choice(['convex', 'convex', 'star', 'rect', 'L'])
    if kind == 'rect':
        w, h = dy(rng, 1, 12, 4), dy(rng, 1, 12, 4)
        ps = [(0.0, 0.0), (w, 0.0), (w, h), (0.0, h)]
    elif kind == 'L':
        w, h = dy(rng, 2, 12, 4), dy(rng, 2, 12, 4)
        ps = [(0.0, 0.0), (w, 0.0), (w, h / 2), (w / 2, h / 2), (w / 2, h), (0.0, h)]
    else:
        n = rng.randint(3, 9)
        a0 = rng.random()
        ps = []
        for i in range(n):
            a = 2 * math.pi * (i + a0) / n
            r = 16.0 if kind == 'convex' else rng.choice([6.0, 16.0])
            ps.append((round(r * math.cos(a) * 4) / 4.0, round(r * math.sin(a) * 4) / 4.0))
    ox, oy = dy(rng, -8, 8, 4), dy(rng, -8, 8, 4)
    ps = [(x + ox, y + oy) for x, y in ps]
    if rng.random() < 0.15:      # repeated vertex
        j = rng.randrange(len(ps))
        ps.insert(j, ps[j])
    k = rng.randrange(len(ps))
    ps = ps[k:] + ps[:k]
    if rng.random() < 0.4:
        ps.reverse()
    return {'pts': [list(p) for p in ps],
            'd': rng.choice([0.25, 0.5, 1.0, -0.25, -1.0, 0.125, 2.0, 0.0] if rng.random() < 0.9
                            else [0.0])}


FIXED = [
    ('sub_rects_ratio', {'plane': PLANES[0], 'B': 8.0, 'H': 4.0, 'r': 0.25, 'srh': 2.0,
                         'sill': 1.0, 'hs': 2.0, 'vs': 0}),
    ('sub_rects_ratio', {'plane': PLANES[0], 'B': 8.0, 'H': 4.0, 'r': 0.25, 'srh': 2.0,
                         'sill': 1.0, 'hs': 2.0, 'vs': 0.5}),
    ('sub_rects_ratio', {'plane': PLANES[1], 'B': 8.0, 'H': 4.0, 'r': 0.75, 'srh': 2.0,
                         'sill': 1.0, 'hs': 2.0, 'vs': 0}),
    ('sub_rects_ratio', {'plane': PLANES[1], 'B': 8.0, 'H': 4.0, 'r': 0.75, 'srh': 2.0,
                         'sill': 0.25, 'hs': 2.0, 'vs': 0.25}),
    ('sub_rects_ratio', {'plane': PLANES[4], 'B': 8.0, 'H': 4.0, 'r': 0.5, 'srh': 9.0,
                         'sill': 0.0, 'hs': 3.0, 'vs': 4.0}),
    ('sub_rects_ratio', {'plane': PLANES[0], 'B': 8.0, 'H': 4.0, 'r': 0.25, 'srh': 2.0,
                         'sill': 1.0, 'hs': 0.0, 'vs': 0}),
    ('sub_rects_ratio', {'plane': PLANES[0], 'B': 8.0, 'H': 4.0, 'r': 0.25, 'srh': 2.0,
                         'sill': 1.0, 'hs': -2.0, 'vs': 0}),
    ('sub_rects_ratio', {'plane': PLANES[0], 'B': 0.0, 'H': 4.0, 'r': 0.25, 'srh': 2.0,
                         'sill': 1.0, 'hs': 2.0, 'vs': 0}),
    ('sub_rects_ratio', {'plane': PLANES[0], 'B': 8.0, 'H': 4.0, 'r': 0.25, 'srh': 2.0,
                         'sill': 1.0, 'hs': 100.0, 'vs': 0}),
    ('sub_rects_ratio', {'plane': PLANES[0], 'B': 5.0, 'H': 4.0, 'r': 0.25, 'srh': 2.0,
                         'sill': 1.0, 'hs': 2.0, 'vs': 0}),       # round(2.5) = 2
    ('sub_rects_ratio', {'plane': PLANES[0], 'B': 7.0, 'H': 4.0, 'r': 0.25, 'srh': 2.0,
                         'sill': 1.0, 'hs': 2.0, 'vs': 0}),       # round(3.5) = 4
    ('sub_rects_ratio', {'plane': PLANES[0], 'B': 8.0, 'H': 4.0, 'r': 0.984375, 'srh': 9.0,
                         'sill': 1.0, 'hs': 2.0, 'vs': 0}),       # ratio above 0.98
    ('sub_rects_dimensions', {'plane': PLANES[0], 'B': 8.0, 'H': 4.0, 'srh': 2.0, 'w': 1.0,
                              'sill': 1.0, 'hs': 2.0}),
    ('sub_rects_dimensions', {'plane': PLANES[5], 'B': 8.0, 'H': 4.0, 'srh': 5.0, 'w': 6.0,
                              'sill': 3.5, 'hs': 2.0}),
    ('sub_rects_dimensions', {'plane': PLANES[5], 'B': 8.0, 'H': 4.0, 'srh': 2.0, 'w': 9.0,
                              'sill': 0.0, 'hs': 2.0}),
    ('sub_rects_dimensions', {'plane': PLANES[6], 'B': 8.0, 'H': 4.0, 'srh': 2.0, 'w': 3.5,
                              'sill': 1.0, 'hs': 4.5}),        # floor re-count
    ('sub_rects_dimensions', {'plane': PLANES[0], 'B': 8.0, 'H': 4.0, 'srh': 2.0, 'w': 1.0,
                              'sill': 1.0, 'hs': 100.0}),
    ('sub_rects_dimensions', {'plane': PLANES[0], 'B': 8.0, 'H': 4.0, 'srh': 2.0, 'w': 0.0,
                              'sill': 1.0, 'hs': 0.0}),
    ('sub_rects_dimensions', {'plane': PLANES[0], 'B': 0.0, 'H': 4.0, 'srh': 2.0, 'w': -1.0,
                              'sill': 1.0, 'hs': 2.0}),
    ('polygon_offset', {'pts': [[0.0, 0.0], [8.0, 0.0], [8.0, 8.0], [0.0, 8.0]], 'd': 1.0}),
    ('polygon_offset', {'pts': [[0.0, 8.0], [8.0, 8.0], [8.0, 0.0], [0.0, 0.0]], 'd': 1.0}),
    ('polygon_offset', {'pts': [[0.0, 0.0], [8.0, 0.0], [8.0, 8.0], [0.0, 8.0]], 'd': -0.5}),
    ('polygon_offset', {'pts': [[0.0, 0.0], [8.0, 0.0], [8.0, 8.0], [0.0, 8.0]], 'd': 0.0}),
    ('polygon_offset', {'pts': [[0.0, 0.0], [8.0, 0.0], [8.0, 0.0], [0.0, 0.0]], 'd': 1.0}),
    ('polygon_offset', {'pts': [[0.0, 0.0], [8.0, 0.0], [8.0, 0.0], [8.0, 8.0], [0.0, 8.0]],
                        'd': 1.0}),
    ('polygon_offset', {'pts': [[0.0, 0.0], [8.0, 0.0], [8.0, 4.0], [4.0, 4.0], [4.0, 8.0],
                                [0.0, 8.0]], 'd': 0.5}),
]


# ====================================================================== engine
def _evaluate(ctx, cases):
    """cases: list of (kind, inp, stream).  Returns list of (kind, inp, stream, real, verdict)."""
    prepared = []
    for kind, inp, stream in cases:
        k = KINDS[kind]
        try:
            real = k.real(inp)
            req = None if real[0] == 'skip' else k.request(inp)
        except Exception as e:
            real, req = ('crash', type(e).__name__), None
        prepared.append((kind, inp, stream, real, req))
    reqs = [p[4] for p in prepared if p[4] is not None]
    ans = []
    for s in range(0, len(reqs), 6000):
        ans.extend(ctx.driver.run(reqs[s:s + 6000]))
    out, pos = [], 0
    for kind, inp, stream, real, req in prepared:
        k = KINDS[kind]
        if real[0] == 'crash':
            out.append((kind, inp, stream, real, ('raises %s' % real[1], 'harness / real code')))
            continue
        if req is None:
            out.append((kind, inp, stream, real, 'skip'))
            continue
        model = ans[pos]
        pos += 1
        try:
            v = k.compare(inp, model, real)
            if v is not None and v != 'unmodelled' and k.tie(inp):
                v = 'tie'
        except Exception as e:
            v = ('judge crashed %s' % type(e).__name__, str(e)[:200])
        out.append((kind, inp, stream, real, v, model))
    return out


def _record(dis, seed, kind, inp, v, model, real):
    sig = '%s|%s' % (kind, v[0])
    req = KINDS[kind].request(inp) if not v[0].startswith('raises') else (None, None)
    d = {'signature': sig, 'what': ('%s: %s on %s' % (sig, v[1], show(inp, 400)))[:900],
         'op': req[0], 'args': req[1], 'model': show(model, 600), 'real': show(real, 600),
         'seed': seed, 'kind': kind, 'input': inp}
    old = dis.get(sig)
    if old is None or KINDS[kind].size(inp) < KINDS[old['kind']].size(old['input']):
        dis[sig] = d


def run(ctx, prop):
    empty = {'requests': 0, 'nontrivial': 0, 'rule': 'no model of %s here' % prop,
             'disagreements': [], 'float_ties': 0, 'histograms': {}, 'samples': []}
    if prop != 'C19':
        return empty
    t0 = time.time()
    thorough = ctx.tier == 'thorough' or bool(getattr(ctx, 'broken', None))
    budget = THOROUGH_BUDGET if thorough else QUICK_BUDGET
    t_end = min(getattr(ctx, 'deadline', t0 + budget), t0 + budget)
    n = 9000 if thorough else 650
    cases = [(k, i, 'fixed') for k, i in FIXED]
    R = random.Random('%s/corr.subrects/ratio' % ctx.seed)
    D = random.Random('%s/corr.subrects/dims' % ctx.seed)
    F = random.Random('%s/corr.subrects/rect' % ctx.seed)
    P = random.Random('%s/corr.subrects/offset' % ctx.seed)
    for j in range(n):
        cases.append(('sub_rects_ratio', gen_ratio(R, j % 9 == 8), 'wild' if j % 9 == 8 else 'dyadic'))
        cases.append(('sub_rects_dimensions', gen_dims(D, j % 9 == 8),
                      'wild' if j % 9 == 8 else 'dyadic'))
        if j % 2 == 0:
            cases.append(('sub_faces_by_ratio_rectangle', gen_rect(F), 'quads'))
        cases.append(('polygon_offset', gen_poly(P), 'lattice'))
    hist = {'kind': {}, 'stream': {}, 'branch': {}, 'outcome': {}}
    dis, samples, ties, nontrivial, done = {}, [], 0, 0, 0

    def count(h, k):
        hist[h][k] = hist[h].get(k, 0) + 1

    chunk = 1500
    for s in range(0, len(cases), chunk):
        if s and time.time() + 0.25 * budget > t_end:
            count('outcome', 'not run (budget)')
            break
        for rec in _evaluate(ctx, cases[s:s + chunk]):
            kind, inp, stream, real, v = rec[:5]
            model = rec[5] if len(rec) > 5 else None
            k = KINDS[kind]
            if v == 'skip':
                count('outcome', 'input rejected by the library (skipped)')
                continue
            done += 1
            count('kind', kind)
            count('stream', '%s %s' % (kind, stream))
            try:
                count('branch', '%s: %s' % (kind, k.branch(inp, real)))
                nt = bool(k.nontrivial(inp, real))
            except Exception:
                nt = False
            if v == 'tie':
                ties += 1
                count('outcome', 'float tie')
                continue
            if v == 'unmodelled':
                count('outcome', 'outside the modelled case (model answers null)')
                if inp.get('shape') == 'rectangle':
                    _record(dis, ctx.seed, kind, inp, ('model answers null on a rectangle', ''),
                            None, real)
                continue
            nontrivial += 1 if nt else 0
            if v is None:
                count('outcome', 'agree')
                if nt and len(samples) < 4 and kind not in [x['kind'] for x in samples]:
                    samples.append({'kind': kind, 'input': inp, 'real': show(real[1], 240)})
                continue
            count('outcome', 'DISAGREE')
            _record(dis, ctx.seed, kind, inp, v, model, real)
    return {'requests': done, 'nontrivial': nontrivial, 'rule': RULE,
            'disagreements': [dis[s] for s in sorted(dis)], 'float_ties': ties,
            'histograms': hist, 'samples': samples, 'seconds': round(time.time() - t0, 1)}


def replay(ctx, disagreement):
    kind, inp = disagreement.get('kind'), disagreement.get('input')
    if kind not in KINDS or inp is None:
        return None
    if isinstance(inp.get('plane'), list):
        inp = dict(inp, plane=tuple(tuple(v) for v in inp['plane']))
    rec = _evaluate(ctx, [(kind, inp, 'replay')])[0]
    v = rec[4]
    if v in (None, 'tie', 'skip'):
        return None
    dis = {}
    if v == 'unmodelled':
        if inp.get('shape') != 'rectangle':
            return None
        v = ('model answers null on a rectangle', '')
    _record(dis, disagreement.get('seed'), kind, inp, v, rec[5] if len(rec) > 5 else None, rec[3])
    return list(dis.values())[0]


if __name__ == '__main__':
    class Ctx(object):
        pass
    args = sys.argv[1:]
    nums = [a for a in args if a.lstrip('-').isdigit()]
    ctx = Ctx()
    ctx.seed = int(nums[0]) if nums else int(os.environ.get('VERIF_SEED', '0'))
    ctx.tier = 'thorough' if 'thorough' in args else os.environ.get('VERIF_TIER', 'quick')
    ctx.broken = []
    ctx.driver = lbg.Driver()
    ctx.deadline = time.time() + 3600
    t = time.time()
    r = run(ctx, 'C19')
    print('C19 seed %d %s: %d comparisons, %d non-trivial, %d float ties, %d disagreements, %.1fs'
          % (ctx.seed, ctx.tier, r['requests'], r['nontrivial'], r['float_ties'],
             len(r['disagreements']), time.time() - t))
    for h in sorted(r['histograms']):
        print('   %-8s %s' % (h, sorted(r['histograms'][h].items())))
    for s in r['samples']:
        print('   sample', s)
    import json
    for d in r['disagreements']:
        print('   DISAGREE', d['what'][:700])
        again = replay(ctx, json.loads(json.dumps(d, default=lbg._json_default)))
        print('            replay:', 'reproduced' if again else 'NOT reproduced')
    sys.exit(1 if r['disagreements'] else 0)
