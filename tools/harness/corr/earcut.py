"""Correspondence for the ear-clipping model (`Model/Earcut.lean`, driver op
`model.earcut_run`): the real `triangulation.earcut(flat, hole_indices)` and the model are
run on the same dyadic-lattice inputs and the flat triangle index lists are compared
EXACTLY (triangle for triangle, in emission order).

Request groups (all belong to C05):
  corpus     hand-picked cases: every pass of `_earcut_linked` (plain ears, filter, cure,
             split, no diagonal), duplicate end vertex, degenerate inputs, a Steiner hole,
             the known T-junction finding, stale-`outerNode` hole bridging
  simple     simple lattice polygons (convex, star, comb, spiral, rectilinear, lattice blob,
             with exactly collinear runs), 3..80 vertices, both orientations, cyclic starts
             (ALL starts x both orientations for a subset) -- the unhashed path
  holes      lattice shapes with 1..6 holes (<= 80 vertices in total), either order
  hashed     shapes with > 80 vertices in total: the real code runs `_is_ear_hashed` and the
             z-order lists, the model runs the unhashed loop -- outputs must still agree
  scramble   arbitrary lattice vertex lists (self-intersecting, repeated points, sometimes
             with "holes"): drives cure / split / give-up branches far more often than
             valid input does
"""
import random
import sys
import time
from fractions import Fraction

import lbg

from ladybug_geometry import triangulation as TRI

PROPS = ['C05']
MODELS = ['LbgVerif/Model/Earcut.lean']
REAL = ['ladybug_geometry/triangulation.py:earcut', 'ladybug_geometry/triangulation.py:_linked_list',
        'ladybug_geometry/triangulation.py:_filter_points',
        'ladybug_geometry/triangulation.py:_earcut_linked',
        'ladybug_geometry/triangulation.py:_is_ear', 'ladybug_geometry/triangulation.py:_is_ear_hashed',
        'ladybug_geometry/triangulation.py:_cure_local_intersections',
        'ladybug_geometry/triangulation.py:_split_earcut',
        'ladybug_geometry/triangulation.py:_split_polygon',
        'ladybug_geometry/triangulation.py:_is_valid_diagonal',
        'ladybug_geometry/triangulation.py:_eliminate_holes',
        'ladybug_geometry/triangulation.py:_find_hole_bridge']
TRUSTED = [
    'earcut correspondence: inputs are dyadic-lattice points (multiples of 1/8 or coarser, '
    '|c| <= 2^13), so every product/sum of the real code is exact in doubles; the three '
    'divisions (_find_hole_bridge x and tan, _middle_inside) are correctly rounded and only '
    'compared with lattice values or with each other, where a non-zero exact difference is '
    '>= 2^-40 relative -- no float-tie band is needed (float_ties is always 0)',
    'earcut correspondence: only dim=2 is exercised; the z-order hash is not modelled, the '
    'hashed path (> 80 vertices) is compared against the unhashed model',
    'earcut model: what _filter_points(outerNode, outerNode.next) does when outerNode was '
    'already unlinked is modelled as "continue from the nearest surviving predecessor" and '
    'validated only by this correspondence',
]

W = lbg.wnum
HASH_LIMIT = 80          # `len(data) > 80 * dim` switches the real code to the hashed path
Q = 8.0                  # lattice pitch 1/8


# ------------------------------------------------------------------ helpers
def flatten(loops):
    pts = [p for lp in loops for p in lp]
    hi, k = [], 0
    for lp in loops[:-1]:
        k += len(lp)
        hi.append(k)
    return pts, hi


def request(loops):
    pts, hi = flatten(loops)
    a = [[[W(x), W(y)] for (x, y) in pts]]
    if hi:
        a.append(hi)
    return ('model.earcut_run', a)


def call_real(loops):
    pts, hi = flatten(loops)
    flat = [float(c) for p in pts for c in p]
    try:
        return list(TRI.earcut(flat, hi or None))
    except RecursionError:
        return 'raises RecursionError'
    except Exception as e:                       # noqa: BLE001
        return 'raises %s' % type(e).__name__


def snap(loops, q=Q):
    return [[(round(x * q) / q, round(y * q) / q) for (x, y) in lp] for lp in loops]


def on_lattice(loops):
    for lp in loops:
        for (x, y) in lp:
            for c in (x, y):
                f = Fraction(c)
                if f.denominator > 64 or abs(f) > 2 ** 13:
                    return False
    return True


def variants(rng, loops, all_starts=False):
    """Orientation / cyclic-start variants of a shape (holes keep their own random order)."""
    out = []
    b = list(loops[0])
    rest = [list(h) for h in loops[1:]]
    if all_starts:
        for rev in (False, True):
            bb = b[::-1] if rev else b
            for s in range(len(bb)):
                out.append([bb[s:] + bb[:s]] + rest)
        return out
    for rev in (False, True):
        bb = b[::-1] if rev else b
        s = rng.randrange(len(bb))
        hs = []
        for h in rest:
            h2 = h[::-1] if rng.random() < 0.5 else h
            t = rng.randrange(len(h2))
            hs.append(h2[t:] + h2[:t])
        out.append([bb[s:] + bb[:s]] + hs)
    return out


def place(rng, loops):
    """Exact lattice placement: quarter turns, mirror, power-of-two scale, lattice shift."""
    rot = rng.randint(0, 3)
    mir = rng.random() < 0.5
    sc = rng.choice([0.5, 1.0, 1.0, 2.0, 4.0])
    tx, ty = rng.randint(-256, 256) / 4.0, rng.randint(-256, 256) / 4.0

    def f(p):
        x, y = p
        if mir:
            x = -x
        for _ in range(rot):
            x, y = -y, x
        return (x * sc + tx, y * sc + ty)
    return [[f(p) for p in lp] for lp in loops]


def simple_shape(rng, c05, kind, n, collinear):
    pts = c05.gen_boundary(rng, kind, n, collinear)
    if pts is None or len(pts) < 3:
        return None
    loops = snap([pts])
    # drop consecutive duplicates produced by snapping (the real code would filter them,
    # but the group is meant to be *simple* polygons)
    lp = [p for i, p in enumerate(loops[0]) if p != loops[0][i - 1]]
    if len(lp) < 3 or len(lp) > HASH_LIMIT:
        return None
    return [lp]


CORPUS = [
    ('empty', [[]]),
    ('one-point', [[(1.0, 1.0)]]),
    ('two-points', [[(0.0, 0.0), (1.0, 0.0)]]),
    ('triangle-ccw', [[(0.0, 0.0), (4.0, 0.0), (0.0, 4.0)]]),
    ('triangle-cw', [[(0.0, 0.0), (0.0, 4.0), (4.0, 0.0)]]),
    ('triangle-flat', [[(0.0, 0.0), (2.0, 0.0), (4.0, 0.0)]]),
    ('square', [[(0.0, 0.0), (4.0, 0.0), (4.0, 4.0), (0.0, 4.0)]]),
    ('square-cw', [[(0.0, 0.0), (0.0, 4.0), (4.0, 4.0), (4.0, 0.0)]]),
    ('square-dup-end', [[(0.0, 0.0), (4.0, 0.0), (4.0, 4.0), (0.0, 4.0), (0.0, 0.0)]]),
    ('square-dup-mid', [[(0.0, 0.0), (4.0, 0.0), (4.0, 0.0), (4.0, 4.0), (0.0, 4.0)]]),
    ('dart', [[(0.0, 0.0), (4.0, 0.0), (4.0, 4.0), (2.0, 1.0), (0.0, 4.0)]]),
    ('straight-corner', [[(0.0, 0.0), (1.0, 0.0), (2.0, 0.0), (2.0, 2.0), (0.0, 2.0)]]),
    ('collinear-run', [[(0.0, 0.0), (1.0, 0.0), (2.0, 0.0), (3.0, 0.0), (3.0, 1.0), (3.0, 2.0),
                        (1.5, 2.0), (0.0, 2.0), (0.0, 1.0)]]),
    ('L', [[(0.0, 0.0), (4.0, 0.0), (4.0, 2.0), (2.0, 2.0), (2.0, 4.0), (0.0, 4.0)]]),
    ('comb', [[(0.0, 0.0), (7.0, 0.0), (7.0, 4.0), (6.0, 4.0), (6.0, 1.0), (5.0, 1.0), (5.0, 4.0),
               (4.0, 4.0), (4.0, 1.0), (3.0, 1.0), (3.0, 4.0), (2.0, 4.0), (2.0, 1.0), (1.0, 1.0),
               (1.0, 4.0), (0.0, 4.0)]]),
    ('bow-tie', [[(0.0, 0.0), (4.0, 4.0), (4.0, 0.0), (0.0, 4.0)]]),
    ('cure', [[(0.0, 0.0), (4.0, 0.0), (4.0, 4.0), (5.0, 3.0), (3.0, 5.0), (0.0, 4.0)]]),
    ('figure-eight', [[(0.0, 0.0), (2.0, 2.0), (4.0, 0.0), (4.0, 4.0), (2.0, 2.0), (0.0, 4.0)]]),
    ('hole-square', [[(0.0, 0.0), (8.0, 0.0), (8.0, 8.0), (0.0, 8.0)],
                     [(2.0, 2.0), (2.0, 6.0), (6.0, 6.0), (6.0, 2.0)]]),
    ('hole-same-order', [[(0.0, 0.0), (8.0, 0.0), (8.0, 8.0), (0.0, 8.0)],
                         [(2.0, 2.0), (6.0, 2.0), (6.0, 6.0), (2.0, 6.0)]]),
    ('two-holes', [[(0.0, 0.0), (12.0, 0.0), (12.0, 8.0), (0.0, 8.0)],
                   [(7.0, 2.0), (7.0, 6.0), (10.0, 6.0), (10.0, 2.0)],
                   [(2.0, 2.0), (2.0, 6.0), (5.0, 6.0), (5.0, 2.0)]]),
    ('steiner', [[(0.0, 0.0), (8.0, 0.0), (8.0, 8.0), (0.0, 8.0)], [(3.0, 4.0)]]),
    ('t-junction-finding', [[(0.0, 0.0), (10.0, -4.0), (10.0, 6.0)],
                            [(4.0, 1.0), (3.0, 0.0), (4.0, 0.0)]]),
    ('hole-touching-vertex-ray', [[(0.0, 0.0), (8.0, 0.0), (8.0, 8.0), (0.0, 8.0), (-2.0, 4.0)],
                                  [(3.0, 4.0), (5.0, 5.0), (5.0, 3.0)]]),
    # two leftmost hole vertices with equal x: `_get_leftmost` must break the tie by smaller y
    # (upstream rule); with the first-encountered rule the bridge crossed the hole and the
    # triangles overlapped (area 186.125 instead of 184.375, vertex 8 unused)
    ('leftmost-tie', [[(9.25, -6.25), (-7.75, -3.25), (-5.75, -1.25), (-4.75, 6.75), (8.25, 9.75)],
                      [(6.75, -3.75), (4.25, -3.75), (4.25, -1.25)],
                      [(-4.25, 0.25), (-5.25, 0.25), (-5.25, -0.75)]]),
    ('leftmost-tie-first-lower', [[(0.0, 0.0), (12.0, 0.0), (12.0, 10.0), (0.0, 10.0)],
                                  [(4.0, 3.0), (4.0, 6.0), (7.0, 5.0)]]),
    ('leftmost-tie-duplicate', [[(0.0, 0.0), (12.0, 0.0), (12.0, 10.0), (0.0, 10.0)],
                                [(4.0, 6.0), (4.0, 3.0), (4.0, 3.0), (7.0, 5.0)]]),
    ('stale-outer', [[(15.25, -4.5), (15.25, -5.0), (13.75, -5.0), (13.25, -5.0), (9.75, -5.0),
                      (9.75, -4.5), (9.75, -4.0), (10.25, -4.0), (10.25, -3.5), (10.25, -2.5),
                      (10.25, -2.0), (12.25, -2.0), (14.25, -2.0), (14.75, -2.0), (14.75, -2.5),
                      (14.75, -3.0), (14.75, -3.5), (14.75, -4.0), (15.25, -4.0)],
                     [(12.25, -3.0), (13.25, -3.0), (13.25, -4.0), (12.25, -4.0)]]),
]


def classify(events, loops):
    tags = set()
    for e in events:
        tags.add('left>=3' if e.startswith('left') and int(e[4:]) >= 3 else
                 ('left<3' if e.startswith('left') else e))
    if len(loops) > 1:
        tags.add('holes')
    return tags


class Case(object):
    __slots__ = ('group', 'label', 'loops', 'seed')

    def __init__(self, group, label, loops, seed):
        self.group, self.label, self.loops, self.seed = group, label, loops, seed


def build_cases(ctx, c05):
    thorough = ctx.tier != 'quick' or bool(ctx.broken)
    cases = []
    for name, loops in CORPUS:
        cases.append(Case('corpus', name, loops, None))
    rng = random.Random('%s/earcut-corr' % ctx.seed)
    kinds = ('convex', 'star', 'comb', 'spiral', 'rectilinear', 'lattice')
    # ---- simple polygons, unhashed
    n_simple = 1500 if thorough else 130
    n_all = 100 if thorough else 8
    made = 0
    tries = 0
    while made < n_simple and tries < 20 * n_simple:
        tries += 1
        kind = kinds[made % len(kinds)]
        n = rng.choice([3, 4, 5, 6, 7, 8, rng.randint(9, 20), rng.randint(9, 20),
                        rng.randint(21, 50), rng.randint(51, HASH_LIMIT)])
        sh = simple_shape(rng, c05, kind, n, collinear=rng.random() < 0.5)
        if sh is None:
            continue
        sh = place(rng, sh)
        if not on_lattice(sh):
            continue
        made += 1
        small = len(sh[0]) <= 14
        allst = small and n_all > 0
        if allst:
            n_all -= 1
        for i, vr in enumerate(variants(rng, sh, all_starts=allst)):
            cases.append(Case('simple', '%s/n=%d/v%d' % (kind, len(sh[0]), i), vr, made))
    # ---- holes (unhashed) and hashed
    for group, want, lo, hi in (('holes', 1200 if thorough else 90, 4, HASH_LIMIT),
                                ('hashed', 300 if thorough else 20, HASH_LIMIT + 1, 130)):
        made = tries = 0
        while made < want and tries < 60 * want:
            tries += 1
            st = rng.choice(['lattice', 'lattice-collinear', 'general', 'near'] if group == 'holes'
                            else ['big', 'big', 'lattice', 'lattice-collinear'])
            loops, meta = c05.gen_shape(rng, st)
            if loops is None:
                continue
            tot = sum(len(l) for l in loops)
            if tot < lo or tot > hi or (group == 'holes' and len(loops) < 2):
                continue
            loops = snap(loops)
            if not on_lattice(loops):
                loops = snap(place(rng, snap(c05.gen_shape(rng, 'lattice')[0] or [[]])))
                tot = sum(len(l) for l in loops)
                if tot < lo or tot > hi or not on_lattice(loops) or not loops[0]:
                    continue
            made += 1
            cases.append(Case(group, '%s/n=%d/h=%d' % (st, tot, len(loops) - 1), loops, made))
    # ---- scramble
    n_scr = 2500 if thorough else 150
    for k in range(n_scr):
        n = rng.randint(3, 24)
        m = rng.choice([2, 3, 4, 8])
        pts = [(rng.randint(-m, m) / 2.0, rng.randint(-m, m) / 2.0) for _ in range(n)]
        loops = [pts]
        if rng.random() < 0.25 and n >= 7:
            cut = rng.randint(3, n - 3)
            loops = [pts[:cut], pts[cut:]]
        cases.append(Case('scramble', 'n=%d/m=%d/h=%d' % (n, m, len(loops) - 1), loops, k))
    return cases


def compare(case, ans, real):
    """None when model and real agree, else (signature, what, model_value)."""
    ok, val = ans
    if not ok:
        if isinstance(real, str):
            return None            # both refuse (model error = the real code crashes there)
        return ('earcut[%s]|model error' % case.group, 'model: %s, real returns %d indices' % (
            val, len(real)), val)
    mt = val['triangles']
    if isinstance(real, str):
        return ('earcut[%s]|%s' % (case.group, real), 'real %s, model returns %d indices' % (
            real, len(mt)), mt)
    if mt == real:
        return None
    if len(mt) != len(real):
        what = 'number of triangles'
    elif sorted(tuple(mt[i:i + 3]) for i in range(0, len(mt), 3)) == \
            sorted(tuple(real[i:i + 3]) for i in range(0, len(real), 3)):
        what = 'order of triangles'
    else:
        what = 'triangles'
    return ('earcut[%s]|%s' % (case.group, what),
            'model %d indices, real %d indices, first difference at %d' % (
                len(mt), len(real), next((i for i, (x, y) in enumerate(zip(mt, real)) if x != y),
                                         min(len(mt), len(real)))), mt)


def shrink(ctx, case, sig, deadline):
    """Greedy vertex removal keeping a disagreement of the same signature (batched)."""
    loops = [list(l) for l in case.loops]
    for _ in range(12):
        if time.time() > deadline:
            break
        cands = []
        for li, lp in enumerate(loops):
            if len(lp) <= (3 if li == 0 else 1):
                if li and len(loops) > 1:
                    cands.append(loops[:li] + loops[li + 1:])
                continue
            for k in range(len(lp)):
                cands.append(loops[:li] + [lp[:k] + lp[k + 1:]] + loops[li + 1:])
            if li:
                cands.append(loops[:li] + loops[li + 1:])
        cands = cands[:160]
        if not cands:
            break
        try:
            answers = ctx.driver.run([request(c) for c in cands])
        except lbg.DriverError:
            break
        nxt = None
        for c, a in zip(cands, answers):
            d = compare(Case(case.group, case.label, c, case.seed), a, call_real(c))
            if d is not None and d[0] == sig:
                nxt = c
                break
        if nxt is None:
            break
        loops = nxt
    return loops


def record(case, loops, d, real, seed):
    return {'signature': d[0], 'what': '%s (%s): %s' % (case.label, case.group, d[1]),
            'op': 'model.earcut_run', 'args': request(loops)[1],
            'loops': [[[float(x).hex(), float(y).hex()] for (x, y) in lp] for lp in loops],
            'group': case.group, 'model': d[2], 'real': real, 'seed': seed}


def run(ctx, prop):
    if prop not in PROPS:
        return {'requests': 0, 'nontrivial': 0, 'rule': '', 'disagreements': [], 'float_ties': 0,
                'histograms': {}, 'samples': []}
    from props import c05
    t0 = time.time()
    thorough = ctx.tier != 'quick' or bool(ctx.broken)
    budget = 270 if thorough else 17
    deadline = min(ctx.deadline, t0 + budget)
    cases = build_cases(ctx, c05)
    hist = {'group': {}, 'size': {}, 'events': {}, 'holes': {}, 'real_exceptions': 0,
            'model_errors': 0,
            # hypothesis of the exact-tiling theorems (C05b CleanArea / CleanHoles) measured on
            # inputs that are valid in the sense of property C05 (exact validation)
            'valid_inputs': {'valid,clean-run': 0, 'valid,not-clean': 0, 'invalid': 0}}
    disagreements, seen = [], set()
    samples = []
    done = nontrivial = 0
    # batches: corpus + a slice of every group first, so that a deadline cuts all groups evenly
    order = sorted(range(len(cases)), key=lambda i: (cases[i].group != 'corpus', i % 7))
    B = 400
    pos = 0
    while pos < len(order) and time.time() < deadline:
        idx = order[pos:pos + B]
        pos += B
        batch = [cases[i] for i in idx]
        answers = ctx.driver.run([request(c.loops) for c in batch])
        for c, a in zip(batch, answers):
            real = call_real(c.loops)
            done += 1
            tot = sum(len(l) for l in c.loops)
            hist['group'][c.group] = hist['group'].get(c.group, 0) + 1
            sz = '<=8' if tot <= 8 else '<=20' if tot <= 20 else '<=50' if tot <= 50 else \
                '<=80' if tot <= HASH_LIMIT else '>80'
            hist['size'][sz] = hist['size'].get(sz, 0) + 1
            hk = str(len(c.loops) - 1)
            hist['holes'][hk] = hist['holes'].get(hk, 0) + 1
            if isinstance(real, str):
                hist['real_exceptions'] += 1
            if not a[0]:
                hist['model_errors'] += 1
            else:
                tags = classify(a[1]['events'], c.loops)
                for tg in tags:
                    hist['events'][tg] = hist['events'].get(tg, 0) + 1
                if c.group in ('simple', 'holes', 'hashed'):
                    try:
                        valid = c05.validate(c.loops, allow_straight=True) is None
                    except Exception:            # noqa: BLE001
                        valid = False
                    clean = not (tags & {'cure', 'oof', 'nobridge', 'left>=3'})
                    vk = 'invalid' if not valid else ('valid,clean-run' if clean
                                                      else 'valid,not-clean')
                    hist['valid_inputs'][vk] += 1
            if not isinstance(real, str) and len(real) >= 6:
                nontrivial += 1
            if len(samples) < 3 and c.group in ('simple', 'holes') and a[0] and len(real) >= 9 \
                    and len(real) <= 30 and all(s['group'] != c.group for s in samples):
                samples.append({'group': c.group, 'label': c.label, 'loops': c.loops,
                                'triangles': real})
            d = compare(c, a, real)
            if d is not None and d[0] not in seen:
                seen.add(d[0])
                # shrinking costs one driver call per round: only the first few signatures,
                # within a small extra budget
                if len(seen) <= 3:
                    small = shrink(ctx, c, d[0], min(time.time() + 4, deadline + 10, ctx.deadline))
                else:
                    small = c.loops
                if small != c.loops:
                    a2 = ctx.driver.run([request(small)])[0]
                    r2 = call_real(small)
                    d2 = compare(Case(c.group, c.label, small, c.seed), a2, r2)
                    if d2 is not None:
                        d, real = d2, r2
                    else:
                        small = c.loops
                disagreements.append(record(c, small, d, real, ctx.seed))
    return {
        'requests': done,
        'nontrivial': nontrivial,
        'rule': 'one request = one earcut call compared index for index with the model run; '
                'non-trivial = the real code returned at least two triangles',
        'disagreements': disagreements,
        'float_ties': 0,
        'histograms': hist,
        'samples': samples,
        'planned': len(cases),
        'wall': round(time.time() - t0, 2),
    }


def replay(ctx, disagreement):
    loops = [[(float.fromhex(x), float.fromhex(y)) for (x, y) in lp]
             for lp in disagreement['loops']]
    case = Case(disagreement.get('group', 'replay'), 'replay', loops, None)
    a = ctx.driver.run([request(loops)])[0]
    real = call_real(loops)
    d = compare(case, a, real)
    if d is None:
        return None
    return record(case, loops, d, real, disagreement.get('seed'))


if __name__ == '__main__':
    import json
    import os

    class Ctx(object):
        pass
    ctx = Ctx()
    ctx.seed = int(os.environ.get('VERIF_SEED', '0'))
    ctx.tier = os.environ.get('VERIF_TIER', 'quick')
    ctx.broken = []
    ctx.driver = lbg.Driver()
    ctx.deadline = time.time() + 3600
    r = run(ctx, 'C05')
    print(json.dumps({k: r[k] for k in r if k not in ('samples', 'disagreements')}, indent=1))
    for dg in r['disagreements']:
        print(dg['signature'], '::', dg['what'])
        print('   loops', [[(float.fromhex(x), float.fromhex(y)) for x, y in lp] for lp in dg['loops']])
        print('   model', dg['model'])
        print('   real ', dg['real'])
    sys.exit(1 if r['disagreements'] else 0)
