"""Correspondence of the hand model `Model/SerialComposite.lean` (C13, composite classes:
Polygon2D, Polyline2D, Polyline3D, Mesh2D, Mesh3D, Face3D, Polyface3D and
dictutil.geometry_dict_to_object) with the real library.

Request groups (all belong to C13):
  dict    model.<cls>_dict_roundtrip   the model object is built from the slots of a real object
          x (generators of props/c13.py); compared: model to_dict(x) with x.to_dict()
          structurally (key sets, type strings, nested arrays, every number exactly), the model
          state of from_dict(to_dict(x)) with the real from_dict(d), with from_dict of
          json.loads(json.dumps(d)) and with dictutil.geometry_dict_to_object(d); Face3D also
          with include_plane=False, Polyface3D with include_edge_information=False
  array   model.<cls>_array_roundtrip  to_array / from_array (Polygon2D, Polyline2D/3D, Face3D),
          also through JSON
  ctor    model.face3d_dict_roundtrip / model.polyface3d_dict_roundtrip on RAW constructor
          arguments (plane given or computed from the vertices, clockwise input, holes,
          enforce_right_hand both ways; edge information autocalculated)
  eq      model.<cls>_eq, model.comp_eq  model key equality vs real ==, both directions, hash
          agreement, duplicate(): pairs equal / one coordinate off / reversed order / rotated
          start / flag or connectivity changed / same data in a different class
  fromd   model.from_dict              hand-edited dictionaries: optional keys present, null,
          absent, empty; too few vertices; bad face arity / index; missing mandatory keys
  disp    model.dict_dispatch          the dictionaries of all 21 registered types, unknown and
          non-string type values, missing `type`, missing mandatory key (KeyError swallowed by
          the dispatcher), raise_exception True and False

Numbers are exact rationals of the doubles.  Fields the code COMPUTES with sqrt (plane normal
and axes after re-normalisation, k, the cached 2D polygon of a face) are compared within a few
units in the last place (the model divides exactly after a double sqrt).

Stand-alone:  /venv/bin/python serialcomposite.py [seed] [thorough]"""
import json
import os
import random
import sys
import time
from fractions import Fraction

_H = os.path.dirname(os.path.dirname(os.path.abspath(__file__)))
if os.path.isdir(os.path.join(_H, 'props')) and _H not in sys.path:
    sys.path.insert(0, _H)
import lbg  # noqa: E402
from props import c13 as G  # noqa: E402  (generators only; not edited)

from ladybug_geometry.dictutil import geometry_dict_to_object  # noqa: E402
from ladybug_geometry.geometry2d.pointvector import Point2D  # noqa: E402
from ladybug_geometry.geometry2d.polyline import Polyline2D  # noqa: E402
from ladybug_geometry.geometry2d.polygon import Polygon2D  # noqa: E402
from ladybug_geometry.geometry2d.mesh import Mesh2D  # noqa: E402
from ladybug_geometry.geometry3d.pointvector import Point3D, Vector3D  # noqa: E402
from ladybug_geometry.geometry3d.polyline import Polyline3D  # noqa: E402
from ladybug_geometry.geometry3d.mesh import Mesh3D  # noqa: E402
from ladybug_geometry.geometry3d.plane import Plane  # noqa: E402
from ladybug_geometry.geometry3d.polyface import Polyface3D  # noqa: E402
from ladybug_geometry.geometry3d.face import Face3D  # noqa: E402

PROPS = ['C13']
MODELS = ['LbgVerif/Model/SerialComposite.lean', 'LbgVerif/Model/Dispatch_SerialComposite.lean']
REAL = ['ladybug_geometry/dictutil.py:geometry_dict_to_object',
        'ladybug_geometry/geometry2d/polygon.py:Polygon2D.__init__,from_dict,from_array,to_dict,'
        'to_array,__copy__,__key,__eq__,__hash__',
        'ladybug_geometry/geometry2d/polyline.py:Polyline2D (same methods)',
        'ladybug_geometry/geometry3d/polyline.py:Polyline3D (same methods)',
        'ladybug_geometry/geometry2d/mesh.py:Mesh2D.__init__,from_dict,to_dict,__copy__,__key,'
        '__eq__; ladybug_geometry/_mesh.py:_check_faces_input,colors setter,_transfer_properties',
        'ladybug_geometry/geometry3d/mesh.py:Mesh3D (same methods)',
        'ladybug_geometry/geometry3d/face.py:Face3D.__init__,from_dict,from_array,to_dict,'
        'to_array,_plane_from_vertices,__copy__,__key,__eq__; '
        'ladybug_geometry/geometry3d/plane.py:Plane.__init__,from_dict,to_dict',
        'ladybug_geometry/geometry3d/polyface.py:Polyface3D.__init__,from_dict,to_dict,__copy__,'
        '__key,__eq__']
TRUSTED = [
    'C13 composite model: Python tuples and lists are one kind of value in the model (DV.list); '
    'the correspondence canonicalises both to arrays, so json.loads(json.dumps(d)) is the '
    'identity on the model side (after a JSON trip Polyface3D.edge_indices holds 2-element '
    'lists instead of tuples; nothing in the library compares them)',
    'C13 composite model: Polygon2D.from_shape_with_holes(_fast) is uninterpreted (FaceOps); the '
    'driver runs a stand-in (boundary followed by the holes), so _vertices/_polygon2d of a face '
    'WITH holes are not compared vertex by vertex, only boundary, holes, plane, the cached '
    'orientation flag and the flip decision; == of faces with holes is compared under the '
    'assumption that two merged loops are equal exactly when boundary, holes and plane are',
    'C13 composite model: ladybug.color.Color.from_dict/to_dict are the identity on the colour '
    'dictionary (the stub colour class of props/c13.py is used when ladybug is not installed)',
    'C13 composite model: fields computed through sqrt (re-normalised plane normal/x-axis, y, k, '
    'projected 2D polygon) are compared within 4 ulp relative / 16 eps absolute at the scale of '
    'the origin; orientation decisions whose exact doubled area is within 1e-9 relative of 0 are '
    'counted as float ties; 0.0 and -0.0 are the same number',
    'C13 composite model: indices are ints (bool and float indices, numeric strings as '
    'coordinates, non-bool interpolated flags are outside the model); '
    'Face3D.to_dict(enforce_upper_left=True) is not modelled',
]

EPS = 2.0 ** -52
CLS = {'polygon2d': Polygon2D, 'polyline2d': Polyline2D, 'polyline3d': Polyline3D,
       'mesh2d': Mesh2D, 'mesh3d': Mesh3D, 'face3d': Face3D, 'polyface3d': Polyface3D}
KEY_OF = dict((v.__name__, k) for k, v in CLS.items())
HAS_ARRAY = ('polygon2d', 'polyline2d', 'polyline3d', 'face3d')
ERRS = ('KeyError', 'AssertionError', 'TypeError', 'IndexError', 'ValueError')


# ------------------------------------------------------------------ wire
def fr(x):
    return str(Fraction(x))


def W(o):
    """Python value -> wire form of the model's DV."""
    if o is None or isinstance(o, bool):
        return o
    if isinstance(o, int):
        return o
    if isinstance(o, float):
        return fr(o)
    if isinstance(o, str):
        return {'$str': o}
    if isinstance(o, (list, tuple)):
        return [W(v) for v in o]
    if isinstance(o, dict):
        return dict((k, W(v)) for k, v in o.items())
    if hasattr(o, 'to_dict'):
        return W(o.to_dict())
    raise TypeError('no wire form for %r' % (type(o),))


def p2s(pts):
    return [[fr(p.x), fr(p.y)] for p in pts]


def p3s(pts):
    return [[fr(p.x), fr(p.y), fr(p.z)] for p in pts]


def v3w(v):
    return [fr(v.x), fr(v.y), fr(v.z)]


def plane_w(pl):
    return [v3w(pl.n), v3w(pl.o), fr(pl.k), v3w(pl.x), v3w(pl.y)]


# ------------------------------------------------------------------ states of real objects
def state(x):
    t = type(x)
    if t is Polygon2D:
        return {'vertices': p2s(x._vertices)}
    if t is Polyline2D:
        return {'vertices': p2s(x._vertices), 'interpolated': x._interpolated}
    if t is Polyline3D:
        return {'vertices': p3s(x._vertices), 'interpolated': x._interpolated}
    if t in (Mesh2D, Mesh3D):
        ps = p2s if t is Mesh2D else p3s
        return {'vertices': ps(x._vertices), 'faces': [list(f) for f in x._faces],
                'colors': None if x._colors is None else [W(c.to_dict()) for c in x._colors],
                'is_color_by_face': x._is_color_by_face}
    if t is Face3D:
        pg = x._polygon2d
        return {'boundary': p3s(x._boundary), 'plane': plane_w(x._plane),
                'holes': None if x._holes is None else [p3s(h) for h in x._holes],
                'vertices': p3s(x._vertices),
                'poly2d': None if pg is None else p2s(pg._vertices),
                'poly_cw': None if pg is None else pg._is_clockwise}
    if t is Polyface3D:
        return {'vertices': p3s(x._vertices),
                'face_indices': [[list(lp) for lp in f] for f in x._face_indices],
                'edge_indices': [list(e) for e in x._edge_indices],
                'edge_types': list(x._edge_types), 'is_solid': x._is_solid}
    if t is Plane:
        return plane_w(x)
    raise TypeError(t)


def ctor_args(x):
    """Arguments with which the MODEL constructor rebuilds the slots of x."""
    t = type(x)
    if t is Polygon2D:
        return [p2s(x._vertices)]
    if t is Polyline2D:
        return [p2s(x._vertices), x._interpolated]
    if t is Polyline3D:
        return [p3s(x._vertices), x._interpolated]
    if t in (Mesh2D, Mesh3D):
        ps = p2s if t is Mesh2D else p3s
        return [ps(x._vertices), [list(f) for f in x._faces],
                None if x._colors is None else [W(c.to_dict()) for c in x._colors]]
    if t is Face3D:
        pg = x._polygon2d
        return [p3s(x._boundary), plane_w(x._plane),
                None if x._holes is None else [p3s(h) for h in x._holes], False,
                None if pg is None else p2s(pg._vertices),
                None if pg is None else pg._is_clockwise, p3s(x._vertices)]
    if t is Polyface3D:
        return [p3s(x._vertices), [[list(lp) for lp in f] for f in x._face_indices],
                [[list(e) for e in x._edge_indices], list(x._edge_types)]]
    raise TypeError(t)


# ------------------------------------------------------------------ comparison
def num(s):
    return Fraction(s)


def close(a, b, scale):
    a, b = num(a), num(b)
    if a == b:
        return True
    d = abs(a - b)
    return d <= 4 * EPS * max(abs(a), abs(b)) or d <= 16 * EPS * scale


def deep(a, b, path, out, tol=None):
    """Exact structural comparison; `tol` = scale for numeric leaves compared with tolerance."""
    if isinstance(a, dict) and isinstance(b, dict) and ('$str' in a or '$str' in b):
        if a != b:
            out.append('%s: %r vs %r' % (path, a, b))
    elif isinstance(a, dict) and isinstance(b, dict):
        if set(a) != set(b):
            out.append('%s: key sets %s vs %s' % (path, sorted(a), sorted(b)))
            return
        for k in sorted(a):
            deep(a[k], b[k], path + '.' + k, out, tol)
    elif isinstance(a, list) and isinstance(b, list):
        if len(a) != len(b):
            out.append('%s: lengths %d vs %d' % (path, len(a), len(b)))
            return
        for i, (u, v) in enumerate(zip(a, b)):
            deep(u, v, '%s[%d]' % (path, i), out, tol)
    elif isinstance(a, str) and isinstance(b, str):
        if tol is None:
            if num(a) != num(b):
                out.append('%s: %s vs %s' % (path, float(num(a)).hex(), float(num(b)).hex()))
        elif not close(a, b, tol):
            out.append('%s: %r vs %r (beyond tolerance)' % (path, float(num(a)), float(num(b))))
    elif isinstance(a, bool) or isinstance(b, bool) or a is None or b is None:
        if a is not b:
            out.append('%s: %r vs %r' % (path, a, b))
    elif a != b:
        out.append('%s: %r vs %r' % (path, a, b))


def plane_scale(pw):
    return 1.0 + max(abs(float(num(c))) for c in pw[1])


LOOSE = [0]      # comparisons of x/y axes skipped because the axis direction is ill-conditioned


def loose_scales(r):
    """Tolerance scales (for `deep`) of a plane COMPUTED from vertices: the normal is a
    normalised sum of cross products (1e-9), the default x-axis (n.y, -n.x, 0)/|.| amplifies
    the error of the normal by 1/hypot(n.x, n.y)."""
    nx, ny = float(num(r[0][0])), float(num(r[0][1]))
    h = (nx * nx + ny * ny) ** 0.5
    u = 1e-9 / (16 * EPS)
    return u, (None if (h < 1e-5 and h != 0.0) else u / max(h, 1e-5))


def cmp_plane_w(m, r, path, out, computed=False):
    """[n, o, k, x, y]: origin exact, the rest within tolerance."""
    sc = plane_scale(r)
    deep(m[1], r[1], path + '.o', out)
    if not computed:
        for i, nm in ((0, 'n'), (3, 'x'), (4, 'y')):
            deep(m[i], r[i], path + '.' + nm, out, 1.0)
        deep(m[2], r[2], path + '.k', out, sc)
        return
    un, ux = loose_scales(r)
    deep(m[0], r[0], path + '.n', out, un)
    deep(m[2], r[2], path + '.k', out, un * sc)
    if ux is None:
        LOOSE[0] += 1
    else:
        deep(m[3], r[3], path + '.x', out, ux)
        deep(m[4], r[4], path + '.y', out, ux)


def cmp_state(cls, m, r, out, path='state', computed=False):
    if set(m) != set(r):
        out.append('%s: slots %s vs %s' % (path, sorted(m), sorted(r)))
        return
    for k in sorted(m):
        if cls == 'face3d' and k == 'plane':
            cmp_plane_w(m[k], r[k], path + '.plane', out, computed)
        elif cls == 'face3d' and k in ('vertices', 'poly2d'):
            if r['holes'] is not None:
                continue           # hole merging is uninterpreted
            if k == 'poly2d':
                if (m[k] is None) != (r[k] is None):
                    out.append('%s.poly2d: %s vs %s' % (path, m[k] is None, r[k] is None))
                elif m[k] is not None:
                    sc = 10 * plane_scale(r['plane']) + 100
                    if computed:
                        ux = loose_scales(r['plane'])[1]
                        if ux is None:
                            continue
                        sc *= ux
                    deep(m[k], r[k], path + '.poly2d', out, sc)
            else:
                deep(m[k], r[k], path + '.' + k, out)
        else:
            deep(m[k], r[k], path + '.' + k, out)


def cmp_plane_dict(mp, rp, path, out, computed):
    """The nested plane dictionary {type, n, o, x}."""
    deep(mp['o'], rp['o'], path + '.o', out)
    if not computed:
        deep(mp['n'], rp['n'], path + '.n', out, 1.0)
        deep(mp['x'], rp['x'], path + '.x', out, 1.0)
        return
    un, ux = loose_scales([rp['n']])
    deep(mp['n'], rp['n'], path + '.n', out, un)
    if ux is not None:
        deep(mp['x'], rp['x'], path + '.x', out, ux)


def cmp_dict(cls, m, r, out, path='dict'):
    """to_dict output: exact, except a nested plane that the model re-normalised."""
    deep(m, r, path, out)


def real_call(f):
    try:
        return ('ok', f())
    except Exception as e:  # noqa
        return ('err', type(e).__name__)


def cmp_result(cls, mres, rres, out, path, computed=False):
    """mres = {'ok': state} | {'err': kind}; rres = ('ok', obj) | ('err', name)."""
    if 'err' in mres:
        if rres[0] != 'err' or rres[1] != mres['err']:
            out.append('%s: model raises %s, real %s' % (
                path, mres['err'], rres[1] if rres[0] == 'err' else 'returns'))
        return
    if rres[0] == 'err':
        out.append('%s: model returns, real raises %s' % (path, rres[1]))
        return
    y = rres[1]
    if KEY_OF.get(type(y).__name__) != cls:
        out.append('%s: real returned %s' % (path, type(y).__name__))
        return
    cmp_state(cls, mres['ok'], state(y), out, path, computed)


# ------------------------------------------------------------------ float ties
def area2(pts2):
    a = Fraction(0)
    n = len(pts2)
    for i in range(n):
        p, q = pts2[i - 1], pts2[i]
        a += Fraction(p.x) * Fraction(q.y) - Fraction(p.y) * Fraction(q.x)
    return a


def orientation_tie(boundary, plane):
    """True when the doubled signed area of the projected boundary is too close to 0 for the
    double computation and the exact one to be guaranteed to agree."""
    try:
        p2 = [plane.xyz_to_xy(p) for p in boundary]
    except Exception:
        return False
    a = area2(p2)
    s = sum(abs(Fraction(p.x)) + abs(Fraction(p.y)) for p in p2) ** 2
    return abs(a) <= Fraction(1, 10 ** 9) * (s if s else 1)


# ------------------------------------------------------------------ engine
class Case(object):
    __slots__ = ('group', 'cls', 'op', 'args', 'check', 'nontrivial', 'tag', 'replay', 'tie')

    def __init__(self, group, cls, op, args, check, nontrivial, tag, replay, tie=False):
        self.group, self.cls, self.op, self.args = group, cls, op, args
        self.check, self.nontrivial, self.tag, self.replay, self.tie = \
            check, nontrivial, tag, replay, tie


class Engine(object):
    def __init__(self, ctx):
        self.ctx = ctx
        self.cases = []
        self.hist = {'group': {}, 'class': {}, 'tag': {}, 'result': {}}
        self.ties = 0

    def add(self, case):
        if case.tie:
            self.ties += 1
            return
        self.cases.append(case)

    def bump(self, h, k):
        self.hist[h][k] = self.hist[h].get(k, 0) + 1

    def run(self):
        dis, seen = [], set()
        LOOSE[0] = 0
        answers = self.ctx.driver.run([(c.op, c.args) for c in self.cases]) if self.cases else []
        nontrivial, comparisons = 0, 0
        samples = []
        for c, (ok, val) in zip(self.cases, answers):
            self.bump('group', c.group)
            self.bump('class', c.cls)
            self.bump('tag', '%s/%s' % (c.cls, c.tag))
            out = []
            if not ok:
                out.append('driver error: %s' % (val,))
                ncmp = 1
            else:
                try:
                    ncmp = c.check(val, out) or 1
                except Exception as e:  # noqa
                    out.append('real code raises %s: %s' % (type(e).__name__, str(e)[:200]))
                    ncmp = 1
                if isinstance(val, dict):
                    self.bump('result', 'err:' + val['err'] if 'err' in val else (
                        'rt-err:' + val['rt']['err'] if isinstance(val.get('rt'), dict)
                        and 'err' in val['rt'] else 'ok'))
            comparisons += ncmp
            if c.nontrivial:
                nontrivial += ncmp
            if len(samples) < 3 and c.nontrivial and ok and c.group in ('dict', 'disp', 'eq'):
                if not any(s['op'] == c.op for s in samples):
                    samples.append({'op': c.op, 'args': json.dumps(c.args)[:300],
                                    'model': json.dumps(val)[:300]})
            if out:
                what = out[0].split(':')[0]
                sig = '%s|%s' % (c.op, what.split('[')[0])
                if sig not in seen:
                    seen.add(sig)
                    dis.append({'signature': sig,
                                'what': '%s %s (%s): %s' % (c.op, c.cls, c.tag, '; '.join(out[:3])),
                                'op': c.op, 'args': c.args,
                                'model': json.dumps(val)[:600] if ok else val,
                                'real': '; '.join(out[:3])[:600], 'seed': self.ctx.seed,
                                'replay': c.replay})
        return {
            'requests': comparisons, 'model_requests': len(self.cases), 'nontrivial': nontrivial,
            'rule': 'one request = one model result compared with every real route it stands for '
                    '(to_dict, from_dict, JSON, dispatcher, arrays, ==, hash, duplicate); counted '
                    'non-trivial when it involves an optional key (present, null, empty or '
                    'absent by choice), a boundary flip, an exception, a pair of different '
                    'objects, or an unknown / malformed dispatcher input',
            'disagreements': dis, 'float_ties': self.ties + LOOSE[0], 'histograms': self.hist,
            'samples': samples,
        }


# ------------------------------------------------------------------ case builders
def jtrip(o):
    return json.loads(json.dumps(o))


def case_dict(x, tag, replay, flag=True):
    """x.to_dict() / from_dict by every route vs the model."""
    cls = KEY_OF[type(x).__name__]
    T = type(x)

    def to_d():
        if T is Face3D:
            return x.to_dict(include_plane=flag)
        if T is Polyface3D:
            return x.to_dict(include_edge_information=flag)
        return x.to_dict()

    def check(val, out):
        n = 0
        if 'err' in val:
            out.append('obj: model constructor raises %s on a real object' % val['err'])
            return 1
        cmp_state(cls, val['obj'], state(x), out, 'obj', )
        d = to_d()
        deep(val['dict'], W(d), 'dict', out)
        n += 2
        routes = [('from_dict', lambda: T.from_dict(d)),
                  ('from_dict(json)', lambda: T.from_dict(jtrip(d)))]
        if flag or T not in (Face3D, Polyface3D) or True:
            routes.append(('dispatcher', lambda: geometry_dict_to_object(d)))
            routes.append(('dispatcher(json)', lambda: geometry_dict_to_object(jtrip(d))))
        for nm, f in routes:
            r = real_call(f)
            cmp_result(cls, val['rt'], r, out, nm, T is Face3D and not flag)
            n += 1
            if r[0] == 'ok' and nm == 'from_dict' and val['rt_dict'] is not None:
                y = r[1]
                d2 = y.to_dict(include_plane=flag) if T is Face3D else (
                    y.to_dict(include_edge_information=flag) if T is Polyface3D else y.to_dict())
                o2 = []
                deep(val['rt_dict'], W(d2), 'rt_dict', o2, None)
                if o2 and T is Face3D and flag:
                    # the nested plane was re-normalised on both sides: tolerance there
                    o2 = []
                    m2, r2 = dict(val['rt_dict']), dict(W(d2))
                    mp, rp = m2.pop('plane'), r2.pop('plane')
                    deep(m2, r2, 'rt_dict', o2)
                    cmp_plane_dict(mp, rp, 'rt_dict.plane', o2, False)
                out.extend(o2)
                n += 1
        return n

    tie = False
    nontriv = False
    if T is Face3D:
        tie = orientation_tie(x._boundary, x._plane)
        nontriv = x._holes is not None or not flag or x._polygon2d is None
    elif T is Polyface3D:
        nontriv = True
    elif T in (Mesh2D, Mesh3D):
        nontriv = True
    elif T in (Polyline2D, Polyline3D):
        nontriv = True
    args = [ctor_args(x)] + ([flag] if T in (Face3D, Polyface3D) else [])
    return Case('dict', cls, 'model.%s_dict_roundtrip' % cls, args, check, nontriv,
                tag + ('' if flag else '/flag_off'), replay, tie)


def case_array(x, tag, replay):
    cls = KEY_OF[type(x).__name__]
    T = type(x)

    def check(val, out):
        if 'err' in val:
            out.append('obj: model constructor raises %s on a real object' % val['err'])
            return 1
        a = x.to_array()
        deep(val['array'], W(a), 'array', out)
        n = 1
        for nm, f in (('from_array', lambda: T.from_array(a)),
                      ('from_array(json)', lambda: T.from_array(jtrip(a)))):
            cmp_result(cls, val['rt'], real_call(f), out, nm, True)
            n += 1
        return n

    tie = False
    if T is Face3D:
        try:
            tie = orientation_tie(x._boundary, Face3D._plane_from_vertices(x._boundary))
        except Exception:
            tie = False
    return Case('array', cls, 'model.%s_array_roundtrip' % cls, [ctor_args(x)], check,
                T is Face3D or getattr(x, '_interpolated', False), tag, replay, tie)


def eq_bundle(a, b):
    return {'eq': a == b, 'eq_rev': b == a, 'ne': a != b,
            'hash_eq': hash(a) == hash(b)}


def case_eq(a, b, tag, replay, nontrivial=True):
    """Same class: model key equality vs real == / hash / duplicate."""
    cls = KEY_OF[type(a).__name__]

    def check(val, out):
        if 'err' in val:
            out.append('obj: model constructor raises %s on a real object' % val['err'])
            return 1
        r = eq_bundle(a, b)
        if val['eq'] != r['eq']:
            out.append('eq: model %s, real a == b is %s' % (val['eq'], r['eq']))
        if val['eq_rev'] != r['eq_rev']:
            out.append('eq_rev: model %s, real b == a is %s' % (val['eq_rev'], r['eq_rev']))
        if r['ne'] == r['eq']:
            out.append('ne: real != is not the negation of ==')
        if val['key_eq'] != val['eq']:
            out.append('key_eq: model key equality %s but model == %s' % (val['key_eq'], val['eq']))
        if val['key_eq'] and not r['hash_eq']:
            out.append('hash: model keys equal, real hashes differ')
        c = real_call(a.duplicate)
        cmp_result(cls, val['copy'], c, out, 'duplicate')
        if c[0] == 'ok':
            ce = (c[1] == a) and (a == c[1])
            if val['copy_eq'] != ce:
                out.append('copy_eq: model %s, real duplicate() == a is %s' % (val['copy_eq'], ce))
            if val['copy_key_eq'] and hash(c[1]) != hash(a):
                out.append('copy_hash: model keys equal, real hash(duplicate) differs')
        return 6

    return Case('eq', cls, 'model.%s_eq' % cls, [ctor_args(a), ctor_args(b)], check,
                nontrivial, tag, replay)


def case_cross(a, b, tag, replay):
    ca, cb = KEY_OF[type(a).__name__], KEY_OF[type(b).__name__]

    def check(val, out):
        if isinstance(val, dict):
            out.append('obj: model constructor raises %s on a real object' % val.get('err'))
            return 1
        r = eq_bundle(a, b)
        if val != r['eq'] or val != r['eq_rev']:
            out.append('eq: model %s, real %s / %s' % (val, r['eq'], r['eq_rev']))
        return 2

    return Case('eq', ca + '~' + cb, 'model.comp_eq', [[ca, ctor_args(a)], [cb, ctor_args(b)]],
                check, True, tag, replay)


def case_fromd(cls, d, tag, replay):
    T = CLS[cls]

    def check(val, out):
        n = 0
        for nm, f in (('from_dict', lambda: T.from_dict(d)),
                      ('from_dict(json)', lambda: T.from_dict(jtrip(d)))):
            cmp_result(cls, val, real_call(f), out, nm)
            n += 1
        return n

    return Case('fromd', cls, 'model.from_dict', [cls, W(d)], check, True, tag, replay)


def case_disp(d, raise_exc, tag, replay, cls='-'):
    def check(val, out):
        r = real_call(lambda: geometry_dict_to_object(d, raise_exc))
        if 'err' in val:
            if r[0] != 'err' or r[1] != val['err']:
                out.append('dispatch: model raises %s, real %s' % (
                    val['err'], r[1] if r[0] == 'err' else 'returns %r' % (type(r[1]).__name__,)))
            return 1
        if r[0] == 'err':
            out.append('dispatch: model returns, real raises %s' % r[1])
            return 1
        y = r[1]
        if 'none' in val:
            if y is not None:
                out.append('dispatch: model None, real %s' % type(y).__name__)
            return 1
        if y is None or type(y).__name__ != val['class']:
            out.append('dispatch: model class %s, real %s' % (val['class'], type(y).__name__))
            return 1
        k = KEY_OF.get(val['class'])
        if k is not None:
            # same as the class's own from_dict
            cmp_state(k, val['state'], state(y), out, 'dispatch')
            own = real_call(lambda: type(y).from_dict(d))
            if own[0] != 'ok' or state(own[1]) != state(y):
                out.append('dispatch: differs from %s.from_dict' % val['class'])
            return 2
        if val['class'] == 'Plane':
            cmp_plane_w(val['state'], state(y), 'dispatch.plane', out)
        return 1

    return Case('disp', cls, 'model.dict_dispatch', [W(d), raise_exc], check, True, tag, replay)


# ------------------------------------------------------------------ generators
def nextf(x, k=1):
    import math
    for _ in range(k):
        x = math.nextafter(x, math.inf)
    return x


def variants(x, rng):
    """Objects of the same class related to x: (tag, object)."""
    T = type(x)
    out = [('same', T.from_dict(x.to_dict()) if T is not Face3D else x.duplicate())]
    if T in (Polygon2D, Polyline2D, Polyline3D):
        vs = list(x._vertices)
        P = Point2D if T is not Polyline3D else Point3D
        i = rng.randrange(len(vs))
        c = list(vs[i].to_array())
        j = rng.randrange(len(c))
        c[j] = rng.choice([nextf(c[j]), -c[j] if c[j] else 1.0, c[j] + 1.0,
                           -2.0 if c[j] == -1.0 else -1.0])
        off = vs[:i] + [P(*c)] + vs[i + 1:]
        extra = () if T is Polygon2D else (x._interpolated,)
        out.append(('coordinate_off', T(off, *extra)))
        out.append(('reversed', T(list(reversed(vs)), *extra)))
        out.append(('rotated', T(vs[1:] + vs[:1], *extra)))
        if T is not Polygon2D:
            out.append(('flag_flipped', T(vs, not x._interpolated)))
    elif T in (Mesh2D, Mesh3D):
        vs, fs = list(x._vertices), [tuple(f) for f in x._faces]
        P = Point2D if T is Mesh2D else Point3D
        i = rng.randrange(len(vs))
        c = list(vs[i].to_array())
        c[0] = nextf(c[0])
        out.append(('coordinate_off', T(vs[:i] + [P(*c)] + vs[i + 1:], fs, x._colors)))
        f0 = fs[0]
        out.append(('face_rotated', T(vs, [f0[1:] + f0[:1]] + fs[1:], x._colors)))
        out.append(('face_reversed', T(vs, [tuple(reversed(f0))] + fs[1:], x._colors)))
        out.append(('colors_dropped', T(vs, fs, None)))
        if len(fs) > 1:
            out.append(('faces_swapped', T(vs, [fs[1], fs[0]] + fs[2:])))
    elif T is Face3D:
        b, pl, hs = list(x._boundary), x._plane, x._holes
        out.append(('rebuilt', Face3D(b, pl, hs)))
        out.append(('reversed_input', Face3D(list(reversed(b)), pl, hs)))
        out.append(('rotated', Face3D(b[1:] + b[:1], pl, hs)))
        o = pl.o
        pl2 = Plane(pl.n, Point3D(nextf(o.x, 3), o.y, o.z), pl.x)
        out.append(('plane_origin_off', Face3D(b, pl2, hs, enforce_right_hand=False)))
        if hs is None:
            i = rng.randrange(len(b))
            q = b[i]
            out.append(('coordinate_off', Face3D(
                b[:i] + [Point3D(q.x, nextf(q.y), q.z)] + b[i + 1:], pl,
                enforce_right_hand=False)))
        else:
            out.append(('hole_dropped', Face3D(b, pl, hs[:-1] if len(hs) > 1 else None)))
    elif T is Polyface3D:
        vs = list(x._vertices)
        fi = x._face_indices
        ei = x.edge_information
        i = rng.randrange(len(vs))
        q = vs[i]
        out.append(('coordinate_off', Polyface3D(
            vs[:i] + [Point3D(q.x, q.y, nextf(q.z))] + vs[i + 1:], fi, ei)))
        f0 = fi[0]
        l0 = tuple(f0[0])
        out.append(('loop_rotated', Polyface3D(vs, ((l0[1:] + l0[:1],) + tuple(f0[1:]),)
                                               + tuple(fi[1:]), ei)))
        out.append(('edges_recomputed', Polyface3D(vs, fi)))
        out.append(('edges_changed', Polyface3D(
            vs, fi, {'edge_indices': ei['edge_indices'],
                     'edge_types': tuple(t + 1 for t in ei['edge_types'])})))
    return out


def cross_family(rng):
    """Objects of different classes sharing the same coordinates / connectivity."""
    n = rng.randint(4, 6)
    c2 = [(G.coord(rng), G.coord(rng)) for _ in range(n)]
    c3 = [(a, b, G.coord(rng)) for a, b in c2]
    v2 = [Point2D(*c) for c in c2]
    v3 = [Point3D(*c) for c in c3]
    loop = tuple(range(3))
    fam2 = [Polygon2D(v2), Polyline2D(v2), Polyline2D(v2, True), Mesh2D(v2, [loop])]
    fam3 = [Polyline3D(v3), Polyline3D(v3, True), Mesh3D(v3, [loop]),
            Face3D(v3, Plane(Vector3D(0, 0, 1), v3[0]), enforce_right_hand=False),
            Polyface3D(v3, [[loop]])]
    return fam2, fam3


def raw_face_args(rng):
    """Raw constructor arguments of Face3D: (boundary, plane|None, holes|None, erh, tag)."""
    r = rng.random()
    if r < 0.3:
        pl = rng.choice([
            Plane(Vector3D(0, 0, 1), Point3D(0.5, -1.25, 2.0)),
            Plane(Vector3D(0, 0, -1), Point3D(0.0, 0.0, 0.0)),
            Plane(Vector3D(1, 0, 0), Point3D(3.0, 0.25, -2.0)),
            Plane(Vector3D(0, -1, 0), Point3D(1.0, 1.0, 1.0), Vector3D(0, 0, 1))])
        ptag = 'lattice_plane'
    else:
        pl, ptag = G.rand_plane(rng, True)
    nh = rng.choice([0, 0, 1, 2, 3])
    b, hs = G._face_loops(rng, pl, nh)
    if rng.random() < 0.45:
        b = list(reversed(b))
        ptag += '/cw_input'
    give_plane = rng.random() < 0.6
    erh = rng.random() < 0.8
    holes = hs if nh else rng.choice([None, None, []])
    return b, (pl if give_plane else None), holes, erh, \
        '%s/%s/holes%d/%s' % (ptag, 'plane' if give_plane else 'no_plane', nh,
                              'erh' if erh else 'no_erh')


def case_face_ctor(b, pl, holes, erh, tag, replay):
    def check(val, out):
        r = real_call(lambda: Face3D(b, pl, holes, erh))
        mres = {'err': val['err']} if 'err' in val else {'ok': val['obj']}
        cmp_result('face3d', mres, r, out, 'ctor', pl is None)
        n = 1
        if r[0] == 'ok' and 'err' not in val:
            x = r[1]
            d = x.to_dict()
            o2 = []
            deep(val['dict'], W(d), 'dict', o2)
            if o2:
                o2 = []
                m2, r2 = dict(val['dict']), dict(W(d))
                mp, rp = m2.pop('plane'), r2.pop('plane')
                deep(m2, r2, 'dict', o2)
                cmp_plane_dict(mp, rp, 'dict.plane', o2, pl is None)
            out.extend(o2)
            cmp_result('face3d', val['rt'], real_call(lambda: Face3D.from_dict(d)), out,
                       'from_dict', pl is None)
            n += 2
        return n

    pl_eff = pl
    tie = False
    try:
        if pl_eff is None:
            pl_eff = Face3D._plane_from_vertices(b)
        tie = orientation_tie(b, pl_eff)
    except Exception:
        pass
    args = [[p3s(b), None if pl is None else plane_w(pl),
             None if holes is None else [p3s(h) for h in holes], erh], True]
    return Case('ctor', 'face3d', 'model.face3d_dict_roundtrip', args, check, True, tag,
                replay, tie)


def case_polyface_ctor(vs, fi, tag, replay):
    def check(val, out):
        r = real_call(lambda: Polyface3D(vs, fi))
        mres = {'err': val['err']} if 'err' in val else {'ok': val['obj']}
        cmp_result('polyface3d', mres, r, out, 'ctor')
        return 1
    args = [[p3s(vs), [[list(lp) for lp in f] for f in fi], None], True]
    return Case('ctor', 'polyface3d', 'model.polyface3d_dict_roundtrip', args, check, True, tag,
                replay)


def edited_dicts(rng):
    """(cls, dict, tag): hand-edited dictionaries for from_dict."""
    out = []
    v2 = [[0.0, 0.0], [4.0, 0.0], [4.0, 3.0], [0.5, 3.25]]
    v3 = [[0.0, 0.0, 0.0], [4.0, 0.0, 0.0], [4.0, 3.0, 0.0], [0.5, 3.25, 0.0]]
    hole = [[1.0, 1.0, 0.0], [2.0, 1.0, 0.0], [2.0, 2.0, 0.0], [1.0, 2.0, 0.0]]
    col = [{'type': 'Color', 'r': 1, 'g': 2, 'b': 3, 'a': 255}]
    pl = {'type': 'Plane', 'n': [0.0, 0.0, 1.0], 'o': [0.0, 0.0, 0.0], 'x': [1.0, 0.0, 0.0]}
    for cls, vv in (('polygon2d', v2), ('polyline2d', v2), ('polyline3d', v3)):
        nm = CLS[cls].__name__
        out += [(cls, {'type': nm, 'vertices': vv}, 'plain'),
                (cls, {'vertices': vv}, 'no_type'),
                (cls, {'type': 'Nonsense', 'vertices': vv}, 'wrong_type_string'),
                (cls, {'type': nm, 'vertices': vv[:2]}, 'two_vertices'),
                (cls, {'type': nm, 'vertices': []}, 'no_vertices'),
                (cls, {'type': nm}, 'missing_vertices'),
                (cls, {'type': nm, 'vertices': [[1, 2, 3], [4, 5, 6], [7, 8, 9], [0, 1, 2]]},
                 'int_coordinates_extra_entry'),
                (cls, {'type': nm, 'vertices': [[1.0], [2.0], [3.0]]}, 'short_point')]
        if cls != 'polygon2d':
            for iv, t in ((True, 'true'), (False, 'false'), (None, 'null')):
                out.append((cls, {'type': nm, 'vertices': vv, 'interpolated': iv},
                            'interpolated_' + t))
    for cls, vv in (('mesh2d', v2), ('mesh3d', v3)):
        nm = CLS[cls].__name__
        base = {'type': nm, 'vertices': vv, 'faces': [[0, 1, 2], [0, 2, 3]]}
        out.append((cls, dict(base), 'no_colors_key'))
        out.append((cls, dict(base, colors=None), 'colors_null'))
        out.append((cls, dict(base, colors=[]), 'colors_empty'))
        out.append((cls, dict(base, colors=col * 2), 'colors_per_face'))
        out.append((cls, dict(base, colors=col * 4), 'colors_per_vertex'))
        out.append((cls, dict(base, colors=col * 3), 'colors_wrong_count'))
        out.append((cls, dict(base, faces=[[0, 1, 2, 3]], colors=col * 4), 'one_quad_4_colors'))
        out.append((cls, dict(base, faces=[[0, 1, 2], [0, 2, 3], [1, 2, 3], [0, 1, 3]],
                              colors=col * 4), 'as_many_faces_as_vertices_4_colors'))
        out.append((cls, dict(base, faces=[]), 'no_faces'))
        out.append((cls, dict(base, faces=[[0, 1]]), 'face_of_two'))
        out.append((cls, dict(base, faces=[[0, 1, 2, 3, 0]]), 'face_of_five'))
        out.append((cls, dict(base, faces=[[0, 1, 4]]), 'index_out_of_range'))
        out.append((cls, dict(base, faces=[[0, 1, -1]]), 'negative_index'))
        out.append((cls, dict(base, faces=[[0, 1, -5]]), 'negative_index_out_of_range'))
        out.append((cls, {'type': nm, 'vertices': vv}, 'missing_faces'))
        out.append((cls, {'type': nm, 'faces': [[0, 1, 2]]}, 'missing_vertices'))
        out.append((cls, dict(base, vertices=vv[:2], faces=[[0, 1, 1]]), 'two_vertices_ok'))
    fb = {'type': 'Face3D', 'boundary': v3}
    out += [('face3d', dict(fb), 'boundary_only'),
            ('face3d', dict(fb, plane=None, holes=None), 'plane_null_holes_null'),
            ('face3d', dict(fb, plane=pl), 'plane'),
            ('face3d', dict(fb, plane=dict((k, v) for k, v in pl.items() if k != 'x')),
             'plane_without_x'),
            ('face3d', dict(fb, plane=dict(pl, x=None)), 'plane_x_null'),
            ('face3d', dict(fb, plane=dict(pl, x=[0.0, 0.0, 1.0])), 'plane_x_not_orthogonal'),
            ('face3d', dict(fb, plane=dict(pl, n=[0.0, 0.0, 2.0], x=[3.0, 0.0, 0.0])),
             'plane_not_normalised'),
            ('face3d', dict(fb, plane=dict((k, v) for k, v in pl.items() if k != 'n')),
             'plane_without_n'),
            ('face3d', dict(fb, holes=[]), 'holes_empty'),
            ('face3d', dict(fb, holes=[hole], plane=pl), 'one_hole'),
            ('face3d', dict(fb, holes=[hole]), 'one_hole_no_plane'),
            ('face3d', dict(fb, holes=[hole[:2]], plane=pl), 'hole_of_two'),
            ('face3d', dict(fb, boundary=list(reversed(v3)), plane=pl), 'clockwise'),
            ('face3d', dict(fb, boundary=list(reversed(v3)), plane=pl, holes=[hole]),
             'clockwise_one_hole'),
            ('face3d', dict(fb, boundary=v3[:2]), 'two_vertices'),
            ('face3d', {'type': 'Face3D'}, 'missing_boundary'),
            ('face3d', dict(fb, boundary=[[0.0, 0.0, 0.0], [1.0, 0.0, 0.0], [2.0, 0.0, 0.0]]),
             'colinear_no_plane')]
    pb = {'type': 'Polyface3D', 'vertices': v3, 'face_indices': [[[0, 1, 2]], [[0, 2, 3]]]}
    ei = {'edge_indices': [[0, 1], [1, 2], [2, 0], [2, 3], [3, 0]], 'edge_types': [0, 0, 1, 0, 0]}
    out += [('polyface3d', dict(pb), 'no_edge_information'),
            ('polyface3d', dict(pb, edge_information=None), 'edge_information_null'),
            ('polyface3d', dict(pb, edge_information=ei), 'edge_information'),
            ('polyface3d', dict(pb, edge_information={'edge_indices': [[0, 1]],
                                                      'edge_types': [1]}), 'edge_information_solid'),
            ('polyface3d', dict(pb, edge_information={'edge_indices': [[0, 1]]}),
             'edge_information_without_types'),
            ('polyface3d', dict(pb, vertices=v3[:2]), 'two_vertices'),
            ('polyface3d', dict(pb, face_indices=[[[0, 1, 2], [3, 3, 0]]]), 'face_with_hole_loop'),
            ('polyface3d', {'type': 'Polyface3D', 'vertices': v3}, 'missing_face_indices'),
            ('polyface3d', {'type': 'Polyface3D', 'face_indices': [[[0, 1, 2]]]},
             'missing_vertices')]
    return out


def dispatcher_inputs(rng, seed, n_each):
    """(dict, raise_exception, tag, cls)."""
    out = []
    for tname in sorted(G.GENERATORS):
        for i in range(n_each):
            x, _ = G.make_instance(seed, tname, 1000 + i)
            d = x.to_dict()
            out.append((d, True, 'valid', tname))
            if i == 0:
                out.append((jtrip(d), False, 'valid_json', tname))
                for bad in ('%sx' % tname, tname.lower(), 'Color', '', 'Mesh', 'Face'):
                    out.append((dict(d, type=bad), True, 'unknown_type_raise', tname))
                    out.append((dict(d, type=bad), False, 'unknown_type_none', tname))
                nt = dict(d)
                del nt['type']
                out.append((nt, True, 'no_type_key', tname))
                out.append((nt, False, 'no_type_key', tname))
                for tv, t in ((None, 'null'), (7, 'int'), (True, 'bool'), ([tname], 'list'),
                              ({'a': 1}, 'dict'), (1.5, 'float')):
                    out.append((dict(d, type=tv), True, 'type_' + t, tname))
                    out.append((dict(d, type=tv), False, 'type_' + t, tname))
    # a mandatory key missing: KeyError inside from_dict is swallowed by the dispatcher
    for cls, d, tag in edited_dicts(rng):
        if 'type' in d:
            out.append((d, True, 'edited/' + tag, CLS[cls].__name__))
            out.append((d, False, 'edited/' + tag, CLS[cls].__name__))
    return out


COMPOSITE = ['Polygon2D', 'Polyline2D', 'Polyline3D', 'Mesh2D', 'Mesh3D', 'Face3D', 'Polyface3D']


def build_cases(E, seed, tier, only=None):
    """All cases of a run; `only` = (group, index) restricts to one (replay)."""
    n_obj = 14 if tier == 'quick' else 220
    n_ctor = 40 if tier == 'quick' else 700
    n_fam = 6 if tier == 'quick' else 80

    def want(group, idx):
        return only is None or (only[0] == group and only[1] == idx)

    rng0 = random.Random('%s/serialcomposite/fixed' % seed)
    # ---------------- fixed corpus first
    for i, (cls, d, tag) in enumerate(edited_dicts(rng0)):
        if want('fromd', i):
            E.add(case_fromd(cls, d, tag, ['fromd', i]))
    fx = [(nm, mk) for nm, mk in G.fixtures()]
    for i, (nm, mk) in enumerate(fx):
        if want('fixture', i):
            x = mk()
            if type(x).__name__ not in KEY_OF:
                continue
            E.add(case_dict(x, 'fixture', ['fixture', i]))
            if KEY_OF[type(x).__name__] in HAS_ARRAY:
                E.add(case_array(x, 'fixture', ['fixture', i]))
            E.add(case_eq(x, x.duplicate(), 'fixture/duplicate', ['fixture', i]))
    for i, (d, rexc, tag, tname) in enumerate(dispatcher_inputs(rng0, seed, 1 if tier == 'quick' else 6)):
        if want('disp', i):
            E.add(case_disp(d, rexc, tag, ['disp', i], tname))
    # ---------------- random objects
    idx = 0
    for tname in COMPOSITE:
        for k in range(n_obj):
            if time.time() > E.ctx.deadline - 8:
                break
            if want('obj', idx):
                x, tag = G.make_instance(seed, tname, k)
                rng = random.Random('%s/serialcomposite/obj/%s/%d' % (seed, tname, k))
                rp = ['obj', idx]
                E.add(case_dict(x, tag, rp))
                if tname in ('Face3D', 'Polyface3D'):
                    E.add(case_dict(x, tag, rp, flag=False))
                if KEY_OF[tname] in HAS_ARRAY:
                    E.add(case_array(x, tag, rp))
                E.add(case_eq(x, x, tag + '/self', rp, False))
                for vt, y in variants(x, rng):
                    E.add(case_eq(x, y, tag + '/' + vt, rp))
            idx += 1
    for k in range(n_ctor):
        if time.time() > E.ctx.deadline - 8:
            break
        if want('ctor', k):
            rng = random.Random('%s/serialcomposite/ctor/%d' % (seed, k))
            b, pl, holes, erh, tag = raw_face_args(rng)
            E.add(case_face_ctor(b, pl, holes, erh, tag, ['ctor', k]))
            xr = real_call(lambda: Face3D(b, pl, holes, erh))
            if xr[0] == 'ok' and not orientation_tie(xr[1]._boundary, xr[1]._plane):
                E.add(case_eq(xr[1], xr[1], tag + '/self', ['ctor', k]))
            nv = rng.randint(3, 8)
            vs = [G.p3(rng) for _ in range(nv)]
            fi = []
            for _ in range(rng.randint(1, 5)):
                loops = [[rng.randrange(nv) for _ in range(rng.randint(3, 5))]]
                if rng.random() < 0.3:
                    loops.append([rng.randrange(nv) for _ in range(3)])
                fi.append(loops)
            E.add(case_polyface_ctor(vs, fi, 'random_loops', ['ctor', k]))
    for k in range(n_fam):
        if want('fam', k):
            rng = random.Random('%s/serialcomposite/fam/%d' % (seed, k))
            fam2, fam3 = cross_family(rng)
            for fam in (fam2, fam3):
                for i, a in enumerate(fam):
                    for b in fam[i + 1:]:
                        if type(a) is type(b):
                            E.add(case_eq(a, b, 'family/same_class', ['fam', k]))
                        else:
                            E.add(case_cross(a, b, 'family', ['fam', k]))
                            E.add(case_cross(b, a, 'family', ['fam', k]))


# ====================================================================== interface
def run(ctx, prop):
    if prop != 'C13':
        return {'requests': 0, 'nontrivial': 0, 'rule': 'no model of %s here' % prop,
                'disagreements': [], 'float_ties': 0, 'histograms': {}, 'samples': []}
    tier = 'thorough' if getattr(ctx, 'broken', None) else ctx.tier
    E = Engine(ctx)
    with G.color_module():
        build_cases(E, ctx.seed, tier)
        return E.run()


def replay(ctx, disagreement):
    """Re-run the case group that produced a recorded disagreement on the current tree."""
    rp = disagreement.get('replay')
    if not rp:
        return None
    seed = disagreement.get('seed', ctx.seed)
    E = Engine(ctx)
    old = ctx.seed
    try:
        ctx.seed = seed
        with G.color_module():
            build_cases(E, seed, 'thorough', (rp[0], rp[1]))
            r = E.run()
    finally:
        ctx.seed = old
    for d in r['disagreements']:
        if d['signature'] == disagreement.get('signature'):
            return d
    return r['disagreements'][0] if r['disagreements'] else None


if __name__ == '__main__':
    class Ctx(object):
        pass
    argv = sys.argv[1:]
    nums = [a for a in argv if a.lstrip('-').isdigit()]
    ctx = Ctx()
    ctx.seed = int(nums[0]) if nums else int(os.environ.get('VERIF_SEED', '0'))
    ctx.tier = 'thorough' if 'thorough' in argv else os.environ.get('VERIF_TIER', 'quick')
    ctx.broken = []
    ctx.driver = lbg.Driver()
    ctx.deadline = time.time() + (20 if ctx.tier == 'quick' else 300)
    t = time.time()
    r = run(ctx, 'C13')
    print('C13 seed %d %s: %d comparisons (%d model requests), %d non-trivial, %d float ties, '
          '%d disagreements, %.1fs' % (ctx.seed, ctx.tier, r['requests'], r['model_requests'],
                                      r['nontrivial'], r['float_ties'], len(r['disagreements']),
                                      time.time() - t))
    for h in sorted(r['histograms']):
        if h != 'tag':
            print('   %-8s %s' % (h, sorted(r['histograms'][h].items())))
    print('   tags: %d distinct' % len(r['histograms']['tag']))
    for s in r['samples']:
        print('   sample', json.dumps(s)[:400])
    for d in r['disagreements']:
        print('   DISAGREE', d['signature'], '::', d['what'][:700])
    sys.exit(1 if r['disagreements'] else 0)
