"""Correspondence of the hand models in `Model/HoleMerge.lean` (C01, C06) with the real library.

C01  model.merge_boundary_holes  vs  Polygon2D.from_shape_with_holes(boundary, holes).vertices
     model.merge_holes_raw       vs  Polygon2D._merge_boundary_and_holes(boundary, holes)
     model.merge_boundary_hole   vs  Polygon2D.from_shape_with_hole(boundary, hole).vertices
     model.merge_closest_hole    vs  Polygon2D._merge_boundary_and_closest_hole(boundary, holes)
     and Face3D(boundary, holes=holes).polygon2d.vertices (the merged list the face's `vertices`
     and `area` are computed from), given the plane coordinates the real face computed.
C06  model.plane_from_vertices   vs  Face3D._plane_from_vertices(verts)  (all five plane slots)
     model.fan_normal            vs  the direction of the real normal (exactly parallel, same sense)

Inputs are lattice points (integers and quarters), so squared distances, shoelace sums and cross
products are exact in doubles and every comparison of vertex lists is EXACT; only the
normalisation of the plane normal goes through `sqrt` (compared within 1e-9).

Stand-alone:  /venv/bin/python holemerge.py [C01|C06] [seed] [quick|thorough]"""
import math
import os
import random
import sys
import time
from fractions import Fraction

_H = os.path.dirname(os.path.dirname(os.path.abspath(__file__)))
if _H not in sys.path:
    sys.path.insert(0, _H)
import lbg  # noqa: E402

from ladybug_geometry.geometry2d.pointvector import Point2D  # noqa: E402
from ladybug_geometry.geometry2d.polygon import Polygon2D  # noqa: E402
from ladybug_geometry.geometry3d.pointvector import Point3D  # noqa: E402
from ladybug_geometry.geometry3d.face import Face3D  # noqa: E402

PROPS = ['C01', 'C06']
MODELS = ['LbgVerif/Model/HoleMerge.lean', 'LbgVerif/Model/Dispatch_HoleMerge.lean']
REAL = ['ladybug_geometry/geometry2d/polygon.py:Polygon2D.from_shape_with_hole,'
        'from_shape_with_holes,_merge_boundary_and_holes,_merge_boundary_and_hole_detailed,'
        '_merge_boundary_and_closest_hole,_merge_boundary_and_hole,_are_clockwise',
        'ladybug_geometry/geometry3d/face.py:Face3D.__init__ (holes),_plane_from_vertices,'
        '_normal_from_3pts']
TRUSTED = [
    'C01: the model keys the distance dictionaries by the SQUARED distance; the code uses '
    'math.sqrt of it.  For the lattice inputs generated here (squared distances are dyadic '
    'numbers < 2^20 with at most 4 fractional bits) sqrt is injective and monotone on doubles, so '
    'the least key and the ties coincide',
    'C01: split=True of _merge_boundary_and_holes and from_shape_with_holes_fast (more than 400 '
    'vertices) are not modelled',
    'C01: Face3D — the model is given the plane coordinates computed by the real face '
    '(plane.xyz_to_xy of the real _plane_from_vertices plane; axis-parallel lattice planes, exact) '
    'and the enforce_right_hand reversal is applied here to the model answer',
    'C06: the unit normal and the plane axes go through sqrt in doubles on both sides (1e-9); the '
    'direction is checked exactly against the model\'s accumulated normal']

W = lbg.wnum
APPROX = Fraction(1, 10 ** 9)
QUICK_BUDGET, THOROUGH_BUDGET = 16.0, 240.0
RULES = {
    'C01': 'one comparison = one call of a merging routine against one model request (vertex '
           'lists compared exactly). non-trivial = at least two holes, or a tie between equally '
           'close vertex pairs, or a hole that had to be reversed',
    'C06': 'one comparison = one call of _plane_from_vertices (+ exact direction check). '
           'non-trivial = the loop has a concave or collinear leading corner or is clockwise',
}


# ====================================================================== helpers
def canon(j):
    if isinstance(j, bool) or j is None:
        return j
    if isinstance(j, str):
        return Fraction(j)
    if isinstance(j, int):
        return Fraction(j)
    if isinstance(j, list):
        return [canon(x) for x in j]
    return j


def show(x, lim=300):
    def f(v):
        if isinstance(v, Fraction):
            return float(v) if v.denominator != 1 else int(v)
        if isinstance(v, (list, tuple)):
            return [f(a) for a in v]
        return v
    s = repr(f(x))
    return s if len(s) <= lim else s[:lim] + '…'


def p2(ps):
    return [Point2D(*p) for p in ps]


def w2(ps):
    return [[W(x), W(y)] for x, y in ps]


def f2(pts):
    return [[Fraction(p.x), Fraction(p.y)] for p in pts]


def shoelace(ps):
    return sum(Fraction(ps[i - 1][0]) * Fraction(p[1]) - Fraction(ps[i - 1][1]) * Fraction(p[0])
               for i, p in enumerate(ps))


def _call(f, *a):
    try:
        return ('ok', f(*a))
    except (ZeroDivisionError, AssertionError, ValueError, IndexError, TypeError,
            AttributeError, KeyError) as e:
        return ('raise', type(e).__name__)


# ====================================================================== kinds
class Kind(object):
    name, prop = None, None

    def size(self, inp):
        return sum(len(h) for h in inp.get('holes', [])) + len(inp.get('boundary', inp.get('pts', [])))

    def nontrivial(self, inp, real):
        return True

    def branch(self, inp, real):
        return 'ok'

    def compare(self, inp, model, real):
        ok, val = model
        if not ok:
            return ('model error', str(val)[:200])
        m = canon(val)
        if real[0] == 'raise':
            return None if m is None else ('real raises %s' % real[1], 'model %s' % show(m))
        if m is None:
            return ('model answers null', 'real %s' % show(real[1]))
        if m == real[1]:
            return None
        if isinstance(m, list) and isinstance(real[1], list) and len(m) != len(real[1]):
            return ('length differs', 'model %d real %d' % (len(m), len(real[1])))
        if sorted(map(repr, m)) == sorted(map(repr, real[1])):
            return ('same vertices in a different order', 'model %s real %s' % (show(m), show(real[1])))
        return ('vertices differ', 'model %s real %s' % (show(m), show(real[1])))


def _ties(inp):
    """Is there a tie between equally close (boundary, hole) vertex pairs for some hole?"""
    b = inp['boundary']
    for h in inp['holes']:
        ds = sorted((Fraction(x) - Fraction(u)) ** 2 + (Fraction(y) - Fraction(v)) ** 2
                    for x, y in b for u, v in h)
        if len(ds) > 1 and ds[0] == ds[1]:
            return True
    return False


class MergeHoles(Kind):
    name, prop = 'from_shape_with_holes', 'C01'

    def real(self, inp):
        r = _call(lambda: Polygon2D.from_shape_with_holes(p2(inp['boundary']),
                                                          [p2(h) for h in inp['holes']]))
        return ('ok', f2(r[1].vertices)) if r[0] == 'ok' else r

    def request(self, inp):
        return ('model.merge_boundary_holes', [w2(inp['boundary']), [w2(h) for h in inp['holes']]])

    def nontrivial(self, inp, real):
        if real[0] != 'ok':
            return False
        sb = shoelace(inp['boundary']) < 0
        return len(inp['holes']) >= 2 or _ties(inp) or \
            any((shoelace(h) < 0) == sb for h in inp['holes'])

    def branch(self, inp, real):
        if real[0] != 'ok':
            return 'raises ' + real[1]
        sb = shoelace(inp['boundary']) < 0
        rev = sum(1 for h in inp['holes'] if (shoelace(h) < 0) == sb)
        return '%d holes, %d reversed, boundary %s%s' % (
            len(inp['holes']), rev, 'cw' if sb else 'ccw', ', tie' if _ties(inp) else '')


class MergeRaw(MergeHoles):
    name, prop = '_merge_boundary_and_holes', 'C01'

    def real(self, inp):
        r = _call(lambda: Polygon2D._merge_boundary_and_holes(p2(inp['boundary']),
                                                              [p2(h) for h in inp['holes']]))
        return ('ok', f2(r[1])) if r[0] == 'ok' else r

    def request(self, inp):
        return ('model.merge_holes_raw', [w2(inp['boundary']), [w2(h) for h in inp['holes']]])

    def nontrivial(self, inp, real):
        return real[0] == 'ok' and (len(inp['holes']) >= 2 or _ties(inp))

    def branch(self, inp, real):
        if real[0] != 'ok':
            return 'raises ' + real[1]
        return '%d holes%s' % (len(inp['holes']), ', tie' if _ties(inp) else '')


class MergeOne(Kind):
    name, prop = 'from_shape_with_hole', 'C01'

    def real(self, inp):
        r = _call(lambda: Polygon2D.from_shape_with_hole(p2(inp['boundary']), p2(inp['holes'][0])))
        return ('ok', f2(r[1].vertices)) if r[0] == 'ok' else r

    def request(self, inp):
        return ('model.merge_boundary_hole', [w2(inp['boundary']), w2(inp['holes'][0])])

    def nontrivial(self, inp, real):
        return real[0] == 'ok' and _ties(inp)

    def branch(self, inp, real):
        return 'raises ' + real[1] if real[0] != 'ok' else ('tie' if _ties(inp) else 'unique closest pair')


class MergeClosest(Kind):
    name, prop = '_merge_boundary_and_closest_hole', 'C01'

    def real(self, inp):
        r = _call(lambda: Polygon2D._merge_boundary_and_closest_hole(
            p2(inp['boundary']), [p2(h) for h in inp['holes']]))
        return ('ok', [f2(r[1][0]), [f2(h) for h in r[1][1]]]) if r[0] == 'ok' else r

    def request(self, inp):
        return ('model.merge_closest_hole', [w2(inp['boundary']), [w2(h) for h in inp['holes']]])

    def nontrivial(self, inp, real):
        return real[0] == 'ok' and len(inp['holes']) >= 2

    def branch(self, inp, real):
        return 'raises ' + real[1] if real[0] != 'ok' else '%d holes' % len(inp['holes'])


def _lift(ps, axis, c):
    if axis == 'xy':
        return [(x, y, c) for x, y in ps]
    if axis == 'xz':
        return [(x, c, y) for x, y in ps]
    return [(c, x, y) for x, y in ps]


class FaceHoles(Kind):
    """Face3D(boundary, holes=holes): the merged polygon the face stores."""
    name, prop = 'Face3D with holes', 'C01'

    def _face(self, inp):
        b3 = [Point3D(*p) for p in _lift(inp['boundary'], inp['axis'], inp['c'])]
        h3 = [[Point3D(*p) for p in _lift(h, inp['axis'], inp['c'])] for h in inp['holes']]
        return Face3D(b3, holes=h3), b3, h3

    def real(self, inp):
        r = _call(lambda: self._face(inp))
        if r[0] != 'ok':
            return r
        face = r[1][0]
        return ('ok', f2(face.polygon2d.vertices))

    def request(self, inp):
        face, b3, h3 = self._face(inp)
        pl = face.plane
        return ('model.merge_boundary_holes', [
            [[W(q.x), W(q.y)] for q in (pl.xyz_to_xy(p) for p in b3)],
            [[[W(q.x), W(q.y)] for q in (pl.xyz_to_xy(p) for p in h)] for h in h3]])

    def compare(self, inp, model, real):
        ok, val = model
        if ok and val is not None:
            m = canon(val)
            if shoelace(m) < 0:           # enforce_right_hand
                val = [[W(x), W(y)] for x, y in reversed(m)]
        return Kind.compare(self, inp, (ok, val), real)

    def nontrivial(self, inp, real):
        return real[0] == 'ok' and len(inp['holes']) >= 2

    def branch(self, inp, real):
        return 'raises ' + real[1] if real[0] != 'ok' else \
            '%s plane, %d holes' % (inp['axis'], len(inp['holes']))


class PlaneFromVerts(Kind):
    name, prop = '_plane_from_vertices', 'C06'

    def real(self, inp):
        r = _call(lambda: Face3D._plane_from_vertices([Point3D(*p) for p in inp['pts']]))
        if r[0] != 'ok':
            return r
        pl = r[1]
        return ('ok', [[Fraction(v.x), Fraction(v.y), Fraction(v.z)] for v in (pl.n, pl.o)] +
                [Fraction(pl.k)] + [[Fraction(v.x), Fraction(v.y), Fraction(v.z)] for v in (pl.x, pl.y)])

    def request(self, inp):
        return ('model.plane_from_vertices', [[[W(c) for c in p] for p in inp['pts']]])

    def request2(self, inp):
        return ('model.fan_normal', [[[W(c) for c in p] for p in inp['pts']]])

    def size(self, inp):
        return len(inp['pts'])

    def compare(self, inp, model, real, extra=None):
        ok, val = model
        if not ok:
            return ('model error', str(val)[:200])
        m = canon(val)
        if real[0] == 'raise':
            return None if m is None else ('real raises %s' % real[1], 'model %s' % show(m))
        if m is None:
            return ('model answers null', 'real %s' % show(real[1]))
        fm, fr_ = lbg.flat_numbers(m), lbg.flat_numbers(real[1])
        if len(fm) != len(fr_) or any(abs(a - b) > APPROX * (1 + abs(a)) for a, b in zip(fm, fr_)):
            names = ['n', 'o', 'k', 'x', 'y']
            bad = [nm for nm, a, b in zip(names, m, real[1])
                   if any(abs(u - v) > APPROX * (1 + abs(u))
                          for u, v in zip(lbg.flat_numbers(a), lbg.flat_numbers(b)))]
            return ('plane slot %s differs' % '/'.join(bad), 'model %s real %s' % (show(m), show(real[1])))
        if extra is not None and extra[0]:
            fan = canon(extra[1])
            n = real[1][0]
            if any(c != 0 for c in fan):
                cross = [fan[1] * n[2] - fan[2] * n[1], fan[2] * n[0] - fan[0] * n[2],
                         fan[0] * n[1] - fan[1] * n[0]]
                scale = max(abs(c) for c in fan)
                dot = sum(a * b for a, b in zip(fan, n))
                if any(abs(c) > APPROX * scale for c in cross) or dot <= 0:
                    return ('normal direction differs', 'fan %s real n %s' % (show(fan), show(n)))
            elif n != [0, 0, 1]:
                return ('zero-area default normal differs', 'real n %s' % show(n))
        return None

    def nontrivial(self, inp, real):
        return real[0] == 'ok' and inp.get('kind') in ('concave first', 'collinear first', 'cw')

    def branch(self, inp, real):
        return 'raises ' + real[1] if real[0] != 'ok' else inp.get('kind', '?')


KINDS = {k.name: k for k in (MergeHoles(), MergeRaw(), MergeOne(), MergeClosest(), FaceHoles(),
                             PlaneFromVerts())}


# ====================================================================== generators
def rot(ps, k):
    k %= len(ps)
    return ps[k:] + ps[:k]


def rect(x0, y0, x1, y1):
    return [(x0, y0), (x1, y0), (x1, y1), (x0, y1)]


def gen_shape(rng, wild=False):
    """Lattice boundary (40-ish wide) with 1-4 lattice holes in disjoint slots."""
    q = rng.choice([1.0, 1.0, 0.25])
    W_, H_ = rng.randint(24, 48), rng.randint(12, 30)
    kind = rng.choice(['rect', 'rect', 'oct', 'L'])
    if kind == 'rect':
        b = rect(0, 0, W_, H_)
    elif kind == 'oct':
        c = rng.randint(1, 3)
        b = [(c, 0), (W_ - c, 0), (W_, c), (W_, H_ - c), (W_ - c, H_), (c, H_), (0, H_ - c), (0, c)]
    else:
        b = [(0, 0), (W_, 0), (W_, H_), (W_ // 2, H_), (W_ // 2, H_ + 8), (0, H_ + 8)]
    nh = rng.randint(1, 4)
    slots = rng.sample(range(4), nh)
    holes = []
    sw = (W_ - 8) // 4
    for s in slots:
        x0 = 4 + s * sw + rng.randint(0, 1)
        x1 = x0 + rng.randint(2, max(2, sw - 3))
        y0 = rng.randint(3, 5)
        y1 = rng.randint(y0 + 2, H_ - 3)
        hk = rng.choice(['rect', 'tri', 'diamond'])
        if hk == 'rect':
            h = rect(x0, y0, x1, y1)
        elif hk == 'tri':
            h = [(x0, y0), (x1, y0), (x0, y1)]
        else:
            mx, my = (x0 + x1) // 2, (y0 + y1) // 2
            h = [(mx, y0), (x1, my), (mx, y1), (x0, my)]
            if len(set(h)) < 4:
                h = rect(x0, y0, x1, y1)
        if rng.random() < 0.5:
            h = h[::-1]
        holes.append(rot(h, rng.randrange(len(h))))
    if rng.random() < 0.4:
        b = b[::-1]
    b = rot(b, rng.randrange(len(b)))
    ox, oy = rng.randint(-20, 20), rng.randint(-20, 20)
    sc = q

    def tr(ps):
        return [[(x + ox) * sc, (y + oy) * sc] for x, y in ps]
    inp = {'boundary': tr(b), 'holes': [tr(h) for h in holes]}
    if wild:          # arbitrary loops: the routines are list surgery, geometry is irrelevant
        inp['boundary'] = [[float(rng.randint(-6, 6)), float(rng.randint(-6, 6))]
                           for _ in range(rng.randint(1, 6))]
        inp['holes'] = [[[float(rng.randint(-6, 6)), float(rng.randint(-6, 6))]
                         for _ in range(rng.randint(3, 5))] for _ in range(rng.randint(1, 3))]
    return inp


def gen_loop3(rng):
    """A lattice loop in a lattice plane with a chosen kind of leading corner."""
    kind = rng.choice(['convex first', 'concave first', 'collinear first', 'cw', 'degenerate',
                       'non-planar', 'short'])
    o = [rng.randint(-9, 9) for _ in range(3)]
    while True:
        u = [rng.randint(-3, 3) for _ in range(3)]
        v = [rng.randint(-3, 3) for _ in range(3)]
        cr = [u[1] * v[2] - u[2] * v[1], u[2] * v[0] - u[0] * v[2], u[0] * v[1] - u[1] * v[0]]
        if any(cr):
            break
    if rng.random() < 0.3:
        u, v = rng.choice([([1, 0, 0], [0, 1, 0]), ([1, 0, 0], [0, 0, 1]), ([0, 1, 0], [0, 0, 1]),
                           ([0, 1, 0], [1, 0, 0])])
    if kind == 'concave first':
        uv = [(2, 2), (4, 0), (4, 4), (0, 4), (0, 0)]
    elif kind == 'collinear first':
        uv = [(0, 0), (2, 0), (4, 0), (4, 3), (0, 3)]
    elif kind == 'degenerate':
        uv = [(0, 0), (1, 0), (3, 0), (2, 0)]
    elif kind == 'short':
        uv = [(0, 0), (3, 1)][:rng.randint(0, 2)]
    else:
        n = rng.randint(3, 8)
        a0 = rng.random()
        uv = []
        for i in range(n):
            a = 2 * math.pi * (i + a0) / n
            p = (round(6 * math.cos(a)), round(6 * math.sin(a)))
            if not uv or uv[-1] != p:
                uv.append(p)
        if kind == 'cw':
            uv.reverse()
    pts = [[float(o[i] + a * u[i] + b * v[i]) for i in range(3)] for a, b in uv]
    if kind == 'non-planar' and len(pts) > 3:
        pts[rng.randrange(len(pts))][rng.randrange(3)] += float(rng.choice([-2, 1, 3]))
    if kind in ('convex first', 'cw', 'non-planar') and pts:
        pts = rot(pts, rng.randrange(len(pts)))
    return {'pts': pts, 'kind': kind}


SQ = [[0.0, 0.0], [12.0, 0.0], [12.0, 8.0], [0.0, 8.0]]
FIXED_C01 = [
    ('from_shape_with_holes', {'boundary': SQ, 'holes': [[[2.0, 2.0], [4.0, 2.0], [4.0, 4.0], [2.0, 4.0]]]}),
    ('from_shape_with_holes', {'boundary': SQ, 'holes': [[[2.0, 4.0], [4.0, 4.0], [4.0, 2.0], [2.0, 2.0]]]}),
    ('from_shape_with_holes', {'boundary': SQ[::-1], 'holes': [[[2.0, 2.0], [4.0, 2.0], [4.0, 4.0], [2.0, 4.0]],
                                                               [[8.0, 2.0], [10.0, 2.0], [10.0, 6.0]]]}),
    # symmetric: four equally close pairs
    ('from_shape_with_holes', {'boundary': [[0.0, 0.0], [8.0, 0.0], [8.0, 8.0], [0.0, 8.0]],
                               'holes': [[[3.0, 3.0], [5.0, 3.0], [5.0, 5.0], [3.0, 5.0]]]}),
    ('from_shape_with_holes', {'boundary': SQ, 'holes': []}),
    ('from_shape_with_holes', {'boundary': SQ, 'holes': [[[2.0, 2.0], [4.0, 2.0]]]}),
    ('from_shape_with_holes', {'boundary': [], 'holes': [[[2.0, 2.0], [4.0, 2.0], [4.0, 4.0]]]}),
    ('_merge_boundary_and_holes', {'boundary': SQ, 'holes': [[]]}),
    ('_merge_boundary_and_holes', {'boundary': SQ, 'holes': [[[5.0, 5.0]], [[1.0, 1.0], [2.0, 1.0]]]}),
    ('from_shape_with_hole', {'boundary': SQ, 'holes': [[[2.0, 2.0], [4.0, 2.0], [4.0, 4.0], [2.0, 4.0]]]}),
    ('from_shape_with_hole', {'boundary': SQ, 'holes': [[]]}),
    ('_merge_boundary_and_closest_hole', {'boundary': SQ, 'holes': [[[8.0, 2.0], [10.0, 2.0], [10.0, 6.0]],
                                                                    [[2.0, 2.0], [4.0, 2.0], [4.0, 4.0]]]}),
    ('Face3D with holes', {'boundary': SQ, 'holes': [[[2.0, 2.0], [4.0, 2.0], [4.0, 4.0], [2.0, 4.0]]],
                           'axis': 'xz', 'c': 1.5}),
]
FIXED_C06 = [
    ('_plane_from_vertices', {'pts': [], 'kind': 'short'}),
    ('_plane_from_vertices', {'pts': [[1.0, 2.0, 3.0]], 'kind': 'short'}),
    ('_plane_from_vertices', {'pts': [[1.0, 2.0, 3.0], [2.0, 2.0, 3.0]], 'kind': 'short'}),
    ('_plane_from_vertices', {'pts': [[0.0, 0.0, 0.0], [4.0, 0.0, 0.0], [4.0, 0.0, 3.0], [0.0, 0.0, 3.0]],
                              'kind': 'convex first'}),
    ('_plane_from_vertices', {'pts': [[0.0, 0.0, 0.0], [0.0, 0.0, 3.0], [4.0, 0.0, 3.0], [4.0, 0.0, 0.0]],
                              'kind': 'cw'}),
    ('_plane_from_vertices', {'pts': [[2.0, 2.0, 1.0], [4.0, 0.0, 1.0], [4.0, 4.0, 1.0], [0.0, 4.0, 1.0],
                                      [0.0, 0.0, 1.0]], 'kind': 'concave first'}),
    ('_plane_from_vertices', {'pts': [[0.0, 0.0, 0.0], [1.0, 0.0, 0.0], [2.0, 0.0, 0.0]],
                              'kind': 'degenerate'}),
]


# ====================================================================== engine
def _evaluate(ctx, cases):
    prepared = []
    for kind, inp, stream in cases:
        k = KINDS[kind]
        try:
            real = k.real(inp)
            reqs = [k.request(inp)]
            if hasattr(k, 'request2'):
                reqs.append(k.request2(inp))
        except Exception as e:
            real, reqs = ('crash', type(e).__name__ + ': ' + str(e)[:80]), []
        prepared.append((kind, inp, stream, real, reqs))
    flat = [r for p in prepared for r in p[4]]
    ans = []
    for s in range(0, len(flat), 6000):
        ans.extend(ctx.driver.run(flat[s:s + 6000]))
    out, pos = [], 0
    for kind, inp, stream, real, reqs in prepared:
        k = KINDS[kind]
        if real[0] == 'crash':
            out.append((kind, inp, stream, real, ('raises %s' % real[1].split(':')[0], real[1]), None))
            continue
        a = ans[pos:pos + len(reqs)]
        pos += len(reqs)
        try:
            v = k.compare(inp, a[0], real, a[1]) if len(a) > 1 else k.compare(inp, a[0], real)
        except Exception as e:
            v = ('judge crashed %s' % type(e).__name__, str(e)[:200])
        out.append((kind, inp, stream, real, v, a[0]))
    return out


def _record(dis, seed, kind, inp, v, model, real):
    sig = '%s|%s' % (kind, v[0])
    try:
        req = KINDS[kind].request(inp)
    except Exception:
        req = (None, None)
    d = {'signature': sig, 'what': ('%s: %s on %s' % (sig, v[1], show(inp, 400)))[:900],
         'op': req[0], 'args': req[1], 'model': show(model, 600), 'real': show(real, 600),
         'seed': seed, 'kind': kind, 'input': inp}
    old = dis.get(sig)
    if old is None or KINDS[kind].size(inp) < KINDS[old['kind']].size(old['input']):
        dis[sig] = d


def run(ctx, prop):
    if prop not in PROPS:
        return {'requests': 0, 'nontrivial': 0, 'rule': 'no model of %s here' % prop,
                'disagreements': [], 'float_ties': 0, 'histograms': {}, 'samples': []}
    t0 = time.time()
    thorough = ctx.tier == 'thorough' or bool(getattr(ctx, 'broken', None))
    budget = THOROUGH_BUDGET if thorough else QUICK_BUDGET
    t_end = min(getattr(ctx, 'deadline', t0 + budget), t0 + budget)
    cases = []
    if prop == 'C01':
        cases += [(k, i, 'fixed') for k, i in FIXED_C01]
        n = 12000 if thorough else 700
        S = random.Random('%s/corr.holemerge/shapes' % ctx.seed)
        for j in range(n):
            wild = j % 7 == 6
            inp = gen_shape(S, wild)
            st = 'wild loops' if wild else 'lattice shape'
            cases.append(('from_shape_with_holes', inp, st))
            cases.append(('_merge_boundary_and_holes', inp, st))
            if j % 3 == 0:
                cases.append(('from_shape_with_hole', dict(inp, holes=inp['holes'][:1]), st))
                cases.append(('_merge_boundary_and_closest_hole', inp, st))
            if j % 4 == 1 and not wild:
                cases.append(('Face3D with holes', dict(inp, axis=S.choice(['xy', 'xz', 'yz']),
                                                        c=S.randint(-8, 8) / 4.0), st))
    else:
        cases += [(k, i, 'fixed') for k, i in FIXED_C06]
        n = 40000 if thorough else 1800
        L = random.Random('%s/corr.holemerge/loops' % ctx.seed)
        for j in range(n):
            cases.append(('_plane_from_vertices', gen_loop3(L), 'lattice loops'))
    hist = {'kind': {}, 'stream': {}, 'branch': {}, 'outcome': {}}
    dis, samples, nontrivial, done = {}, [], 0, 0

    def count(h, k):
        hist[h][k] = hist[h].get(k, 0) + 1

    chunk = 1200
    for s in range(0, len(cases), chunk):
        if s and time.time() + 0.25 * budget > t_end:
            count('outcome', 'not run (budget)')
            break
        for kind, inp, stream, real, v, model in _evaluate(ctx, cases[s:s + chunk]):
            k = KINDS[kind]
            done += 1
            count('kind', kind)
            count('stream', '%s %s' % (kind, stream))
            try:
                count('branch', '%s: %s' % (kind, k.branch(inp, real)))
                nt = bool(k.nontrivial(inp, real))
            except Exception:
                nt = False
            nontrivial += 1 if nt else 0
            if v is None:
                count('outcome', 'agree')
                if nt and len(samples) < 4 and kind not in [x['kind'] for x in samples] \
                        and k.size(inp) <= 14:
                    samples.append({'kind': kind, 'input': inp, 'real': show(real[1], 240)})
                continue
            count('outcome', 'DISAGREE')
            _record(dis, ctx.seed, kind, inp, v, model, real)
    return {'requests': done, 'nontrivial': nontrivial, 'rule': RULES[prop],
            'disagreements': [dis[s] for s in sorted(dis)], 'float_ties': 0,
            'histograms': hist, 'samples': samples, 'seconds': round(time.time() - t0, 1)}


def replay(ctx, disagreement):
    kind, inp = disagreement.get('kind'), disagreement.get('input')
    if kind not in KINDS or inp is None:
        return None
    kind_, inp_, stream, real, v, model = _evaluate(ctx, [(kind, inp, 'replay')])[0]
    if v is None:
        return None
    dis = {}
    _record(dis, disagreement.get('seed'), kind, inp, v, model, real)
    return list(dis.values())[0]


if __name__ == '__main__':
    class Ctx(object):
        pass
    args = sys.argv[1:]
    props = [a for a in args if a in PROPS] or PROPS
    nums = [a for a in args if a.lstrip('-').isdigit()]
    ctx = Ctx()
    ctx.seed = int(nums[0]) if nums else int(os.environ.get('VERIF_SEED', '0'))
    ctx.tier = 'thorough' if 'thorough' in args else os.environ.get('VERIF_TIER', 'quick')
    ctx.broken = []
    ctx.driver = lbg.Driver()
    bad = 0
    import json
    for prop in props:
        ctx.deadline = time.time() + 3600
        t = time.time()
        r = run(ctx, prop)
        print('%s seed %d %s: %d comparisons, %d non-trivial, %d float ties, %d disagreements, %.1fs'
              % (prop, ctx.seed, ctx.tier, r['requests'], r['nontrivial'], r['float_ties'],
                 len(r['disagreements']), time.time() - t))
        for h in sorted(r['histograms']):
            print('   %-8s %s' % (h, sorted(r['histograms'][h].items())))
        for s in r['samples']:
            print('   sample', s)
        for d in r['disagreements']:
            bad += 1
            print('   DISAGREE', d['what'][:700])
            again = replay(ctx, json.loads(json.dumps(d, default=lbg._json_default)))
            print('            replay:', 'reproduced' if again else 'NOT reproduced')
    sys.exit(1 if bad else 0)
