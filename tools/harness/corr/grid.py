"""Correspondence of the hand models (Model/Grid, MeshRemove, Offset, BoolGroup) with the real
ladybug_geometry methods.  Exact agreement is required (inputs are chosen so that double
arithmetic is exact, or Fractions are passed to the static methods)."""
import random
import sys
from fractions import Fraction

sys.path.insert(0, '/verif/tools/harness')
import lbg  # noqa: E402

lbg.LEAN_DIR = '/tmp/agents/p_c19c20c09/lean'

from ladybug_geometry.geometry2d.pointvector import Point2D  # noqa: E402
from ladybug_geometry.geometry2d.mesh import Mesh2D  # noqa: E402
from ladybug_geometry.geometry2d.polygon import Polygon2D  # noqa: E402
from ladybug_geometry.geometry3d.mesh import Mesh3D  # noqa: E402
from ladybug_geometry.geometry3d.pointvector import Point3D  # noqa: E402
from ladybug_geometry.geometry3d.face import Face3D  # noqa: E402
from ladybug_geometry.geometry3d.plane import Plane  # noqa: E402
from ladybug_geometry.boolean import BooleanPolygon  # noqa: E402
from ladybug_geometry.interop.stl import STL  # noqa: E402

rng = random.Random(20260930)
W = lbg.wnum
R = lbg.rnum
reqs, expect, label = [], [], []


def add(op, args, exp, lab):
    reqs.append((op, args))
    expect.append(exp)
    label.append(lab)


def pts(ps):
    return [[W(p.x), W(p.y)] for p in ps]


def canon(j):
    """Wire JSON -> comparable python (numbers as Fractions)."""
    if isinstance(j, bool):
        return j
    if isinstance(j, (str,)):
        return R(j)
    if isinstance(j, int):
        return Fraction(j)
    if isinstance(j, list):
        return [canon(x) for x in j]
    return j


# ---------------------------------------------------------------- grids
def dy(den=8, lo=-40, hi=40):
    return rng.randint(lo, hi) / float(den)


for _ in range(150):
    bx, by = dy(4), dy(4)
    nx, ny = rng.randint(0, 7), rng.randint(0, 7)
    xd, yd = rng.randint(1, 24) / 8.0, rng.randint(1, 24) / 8.0
    if rng.random() < 0.1:
        xd = -xd
    v = Mesh2D._grid_vertices(Point2D(bx, by), nx, ny, xd, yd)
    add('model.grid_vertices', [W(bx), W(by), nx, ny, W(xd), W(yd)],
        [[Fraction(p.x), Fraction(p.y)] for p in v], 'grid_vertices')
    c = Mesh2D._grid_centroids(Point2D(bx, by), nx, ny, xd, yd)
    add('model.grid_centroids', [W(bx), W(by), nx, ny, W(xd), W(yd)],
        [[Fraction(p.x), Fraction(p.y)] for p in c], 'grid_centroids')
    f = Mesh2D._grid_faces(nx, ny)
    add('model.grid_faces', [nx, ny], [[Fraction(i) for i in t] for t in f], 'grid_faces')

for _ in range(300):
    dom = Fraction(rng.randint(0, 4000), rng.choice([1, 3, 7, 8, 10, 100]))
    dim = Fraction(rng.randint(1, 900), rng.choice([1, 3, 7, 8, 10, 100]))
    if rng.random() < 0.15:
        dom = dim * rng.randint(0, 12)          # exact multiples
    if rng.random() < 0.05:
        dom = -dom
    try:
        d2, n = Mesh2D._domain_dimensions(dom, dim)
    except ZeroDivisionError:
        continue
    add('model.domain_dimensions', [W(dom), W(dim)], [Fraction(d2), Fraction(n)],
        'domain_dimensions')


# ---------------------------------------------------------------- removal
def rand_mesh():
    nv = rng.randint(4, 14)
    nf = rng.randint(1, 12)
    faces = []
    for _ in range(nf):
        k = rng.choice([3, 4])
        faces.append(tuple(rng.sample(range(nv), k)))
    return nv, faces


for _ in range(300):
    nv, faces = rand_mesh()
    verts = [Point2D(float(i), 0.0) for i in range(nv)]
    mesh = Mesh2D(verts, faces)
    mesh._face_centroids = tuple(range(len(faces)))
    mesh._face_areas = tuple(range(len(faces)))
    p_keep = rng.choice([0.3, 0.6, 0.85, 1.0])
    pat = [rng.random() < p_keep for _ in range(nv)]
    nvs, nfs, ncol, ncent, narea, fpat = mesh._remove_vertices(pat)
    assert list(ncent) == list(narea)
    add('model.remove_vertices', [nv, [list(f) for f in faces], pat],
        [[[Fraction(i) for i in f] for f in nfs], list(fpat)], 'remove_vertices')
    add('model.remove_vertices_full', [nv, [list(f) for f in faces], pat],
        [[Fraction(int(p.x)) for p in nvs], [[Fraction(i) for i in f] for f in nfs],
         [Fraction(i) for i in ncent], list(fpat)], 'remove_vertices_full')
    fp = [rng.random() < 0.6 for _ in faces]
    nfs2, ncol2, ncent2, narea2 = mesh._remove_faces_only(fp)
    add('model.remove_faces_only', [[list(f) for f in faces], fp],
        [[[Fraction(i) for i in f] for f in nfs2], [Fraction(i) for i in ncent2]],
        'remove_faces_only')
    vp = mesh._vertex_pattern_from_remove_faces(fp)
    add('model.vertex_pattern_from_faces', [nv, [list(f) for f in faces], fp], list(vp),
        'vertex_pattern_from_faces')

# STL split: the triangles STL.from_mesh3d writes
for _ in range(60):
    nv, faces = rand_mesh()
    verts = [Point3D(float(i), float(i * i % 7), 0.0) for i in range(nv)]
    m3 = Mesh3D(verts, faces)
    stl = STL.from_mesh3d(m3)
    fv = [[int(p.x) for p in tri] for tri in stl.face_vertices]
    k = 0
    for f in faces:
        n_t = 1 if len(f) == 3 else 2
        add('model.stl_split', [list(f)],
            [[Fraction(i) for i in t] for t in fv[k:k + n_t]], 'stl_split')
        k += n_t


# ---------------------------------------------------------------- perimeter quads
class StubPoly(Polygon2D):
    """Polygon2D whose offset() returns a prescribed loop (exactly representable), so that the
    quad-building loops of perimeter_core_by_offset are exercised with exact arithmetic."""

    def offset(self, distance, check_intersection=False):
        return self._stub_inner


def lattice_convex(cx, cy, r, n, cw=False):
    """A convex polygon with dyadic coordinates around (cx, cy)."""
    import math
    ps = []
    a0 = rng.random()
    for i in range(n):
        a = 2 * math.pi * (i + a0) / n
        ps.append((round((cx + r * math.cos(a)) * 4) / 4.0, round((cy + r * math.sin(a)) * 4) / 4.0))
    out = []
    for p in ps:
        if not out or out[-1] != p:
            out.append(p)
    if len(out) > 1 and out[0] == out[-1]:
        out.pop()
    if cw:
        out.reverse()
    return out


def scaled(ps, c, k):
    return [(c[0] + k * (x - c[0]), c[1] + k * (y - c[1])) for x, y in ps]


n_quads = 0
while n_quads < 160:
    n = rng.randint(3, 9)
    cw_outer = rng.random() < 0.3
    outer = lattice_convex(0.0, 0.0, 16.0, n, cw_outer)
    if len(outer) < 3:
        continue
    inner = scaled(outer, (0.0, 0.0), rng.choice([0.5, 0.75, 0.875]))
    poly = StubPoly([Point2D(*p) for p in outer])
    poly._stub_inner = Polygon2D([Point2D(*p) for p in inner])
    holes_arg, holes_wire = None, []
    if rng.random() < 0.6:
        holes_arg = []
        for (hx, hy) in rng.sample([(-3.0, -3.0), (3.0, 3.0), (-3.0, 3.0), (3.0, -3.0)],
                                   rng.randint(1, 3)):
            cwh = rng.random() < 0.5
            h = lattice_convex(hx, hy, 1.0, rng.randint(3, 6), cwh)
            if len(h) < 3:
                continue
            ho = scaled(h, (hx, hy), 1.5)
            hp = StubPoly([Point2D(*p) for p in h])
            hp._stub_inner = Polygon2D([Point2D(*p) for p in ho])
            holes_arg.append(hp)
            holes_wire.append([pts(hp.vertices), pts(hp._stub_inner.vertices)])
    per, core = Polygon2D.perimeter_core_by_offset(poly, 1.0, holes_arg)
    if per is None:
        continue
    exp = [[[Fraction(p.x), Fraction(p.y)] for p in q.vertices] for q in per]
    if holes_arg is None:
        add('model.perimeter_quads', [pts(poly.vertices), pts(poly._stub_inner.vertices)], exp,
            'perimeter_quads')
    else:
        add('model.perimeter_quads_holes',
            [pts(poly.vertices), pts(poly._stub_inner.vertices), holes_wire], exp,
            'perimeter_quads_holes')
    n_quads += 1

# with the REAL offset (double arithmetic inside offset; the model gets the real core loop and
# must reproduce the quads up to the rounding of p1 + (p2 - p1))
approx = []
for _ in range(80):
    w, h = rng.randint(4, 12) * 1.0, rng.randint(4, 12) * 1.0
    outer = [Point2D(0, 0), Point2D(w, 0), Point2D(w, h), Point2D(0, h)]
    if rng.random() < 0.3:
        outer.reverse()
    poly = Polygon2D(outer)
    d = rng.choice([0.25, 0.5, 0.3, 0.7])
    holes = None
    if rng.random() < 0.5:
        hv = [Point2D(w / 2 - 0.5, h / 2 - 0.5), Point2D(w / 2 + 0.5, h / 2 - 0.5),
              Point2D(w / 2 + 0.5, h / 2 + 0.5), Point2D(w / 2 - 0.5, h / 2 + 0.5)]
        if rng.random() < 0.5:
            hv.reverse()
        holes = [Polygon2D(hv)]
    per, core = Polygon2D.perimeter_core_by_offset(poly, d, holes)
    if per is None:
        continue
    exp = [[[Fraction(p.x), Fraction(p.y)] for p in q.vertices] for q in per]
    if holes is None:
        approx.append(len(reqs))
        add('model.perimeter_quads', [pts(poly.vertices), pts(core[0].vertices)], exp,
            'perimeter_quads~real_offset')
    else:
        approx.append(len(reqs))
        add('model.perimeter_quads_holes',
            [pts(poly.vertices), pts(core[0].vertices),
             [[pts(hh.vertices), pts(cc.vertices)] for hh, cc in zip(holes, core[1:])]], exp,
            'perimeter_quads_holes~real_offset')


# ---------------------------------------------------------------- grouping of boolean loops
def laminar(depth_max=4):
    """Random laminar family of axis-aligned rectangles (strictly nested or disjoint) with
    pairwise distinct areas.  Returns list of (x0, y0, x1, y1)."""
    rects = []

    def fill(x0, y0, x1, y1, depth):
        rects.append((x0, y0, x1, y1))
        if depth >= depth_max or x1 - x0 < 12 or y1 - y0 < 6:
            return
        k = rng.randint(0, 2)
        if k == 0:
            return
        # split the interior into k side-by-side slots with margins
        wslot = (x1 - x0 - 2) / k
        for i in range(k):
            if rng.random() < 0.8:
                a0 = x0 + 1 + i * wslot + rng.randint(1, 2)
                a1 = x0 + 1 + (i + 1) * wslot - rng.randint(1, 2)
                b0 = y0 + rng.randint(1, 2)
                b1 = y1 - rng.randint(1, 2)
                if a1 - a0 >= 2 and b1 - b0 >= 2:
                    fill(a0, b0, a1, b1, depth + 1)

    ntop = rng.randint(1, 3)
    for t in range(ntop):
        fill(t * 200.0, 0.0, t * 200.0 + rng.randint(30, 150), float(rng.randint(10, 60)), 0)
    return rects


def area(r):
    return (r[2] - r[0]) * (r[3] - r[1])


def contains(a, b):
    return a[0] < b[0] and a[1] < b[1] and b[2] < a[2] and b[3] < a[3]


n_grp = 0
tries = 0
depth_hist = {}
while n_grp < 120 and tries < 3000:
    tries += 1
    rects = laminar()
    if len(set(area(r) for r in rects)) != len(rects) or len(rects) < 2:
        continue
    rng.shuffle(rects)
    regions = []
    for r in rects:
        loop = [(r[0], r[1]), (r[2], r[1]), (r[2], r[3]), (r[0], r[3])]
        if rng.random() < 0.5:
            loop.reverse()
        regions.append(loop)
    faces = Face3D._from_bool_poly(BooleanPolygon(regions), Plane(), 0.01)
    srt = sorted(rects, key=area, reverse=True)

    def ident(loop3d):
        xs = [p.x for p in loop3d]
        ys = [p.y for p in loop3d]
        key = (min(xs), min(ys), max(xs), max(ys))
        return srt.index(key)

    exp = []
    for f in faces:
        g = [ident(f.boundary)] + [ident(hh) for hh in (f.holes or ())]
        exp.append([Fraction(i) for i in g])
    n = len(srt)
    inside = [[contains(srt[a], srt[b]) for b in range(n)] for a in range(n)]
    add('model.bool_group', [n, inside], exp, 'bool_group')
    depth_hist[max(sum(inside[a][b] for a in range(n)) for b in range(n))] = \
        depth_hist.get(max(sum(inside[a][b] for a in range(n)) for b in range(n)), 0) + 1
    n_grp += 1

# ---------------------------------------------------------------- from_polygon_grid pipeline
# real Mesh2D.from_polygon_grid  vs  model: domain_dimensions -> grid_vertices/faces ->
# remove_vertices (inside pattern taken from the real is_point_inside), cached face area.
from ladybug_geometry.geometry2d.pointvector import Vector2D  # noqa: E402
pipe = []
for _ in range(60):
    w, h = float(rng.randint(2, 12)), float(rng.randint(2, 12))
    shape = rng.choice(['rect', 'L', 'tri'])
    if shape == 'rect':
        vs = [(0, 0), (w, 0), (w, h), (0, h)]
    elif shape == 'L':
        vs = [(0, 0), (w, 0), (w, h / 2), (w / 2, h / 2), (w / 2, h), (0, h)]
    else:
        vs = [(0, 0), (w, 0), (0, h)]
    ox, oy = dy(4), dy(4)
    poly = Polygon2D([Point2D(x + ox, y + oy) for x, y in vs])
    numx, numy = rng.choice([1, 2, 4, 8]), rng.choice([1, 2, 4, 8])
    # requested sizes that do NOT divide the extent but give exactly numx / numy cells
    xd = w / numx - (w / numx - w / (numx + 1)) / 4
    yd = h / numy - (h / numy - h / (numy + 1)) / 2
    try:
        mesh = Mesh2D.from_polygon_grid(poly, xd, yd)
    except AssertionError:
        continue
    dom_x, dom_y = poly.max.x - poly.min.x, poly.max.y - poly.min.y
    pipe.append((poly, xd, yd, dom_x, dom_y, mesh))
drv = lbg.Driver()
st1 = drv.run([('model.domain_dimensions', [W(dx_), W(d_)]) for (pl, xd, yd, dmx, dmy, m) in pipe
               for (dx_, d_) in ((dmx, xd), (dmy, yd))])
pipe_bad = 0
st2_reqs, st2_meta = [], []
for k, (poly, xd, yd, dmx, dmy, mesh) in enumerate(pipe):
    (ok1, r1), (ok2, r2) = st1[2 * k], st1[2 * k + 1]
    assert ok1 and ok2
    xd2, nx = R(r1[0]), int(r1[1])
    yd2, ny = R(r2[0]), int(r2[1])
    real_xd2, real_nx = Mesh2D._domain_dimensions(dmx, xd)
    real_yd2, real_ny = Mesh2D._domain_dimensions(dmy, yd)
    if (Fraction(real_xd2), real_nx, Fraction(real_yd2), real_ny) != (xd2, nx, yd2, ny):
        print('PIPE domain mismatch', (real_xd2, real_nx, real_yd2, real_ny), (xd2, nx, yd2, ny))
        pipe_bad += 1
        continue
    verts = Mesh2D._grid_vertices(poly.min, nx, ny, real_xd2, real_yd2)
    tol_pt = Vector2D(0.0000001, 0.0000001)
    scaled_poly = Polygon2D(tuple(pt.scale(1.000001, poly.min) - tol_pt for pt in poly.vertices))
    pattern = [scaled_poly.is_point_inside(_v) for _v in verts]
    st2_reqs.append(('model.grid_vertices', [W(poly.min.x), W(poly.min.y), nx, ny, W(xd2), W(yd2)]))
    st2_reqs.append(('model.grid_faces', [nx, ny]))
    st2_meta.append((k, nx, ny, pattern, xd2, yd2))
st2 = drv.run(st2_reqs)
st3_reqs = []
for j, (k, nx, ny, pattern, xd2, yd2) in enumerate(st2_meta):
    faces = st2[2 * j + 1][1]
    st3_reqs.append(('model.remove_vertices_full', [(nx + 1) * (ny + 1), faces, pattern]))
st3 = drv.run(st3_reqs)
for j, (k, nx, ny, pattern, xd2, yd2) in enumerate(st2_meta):
    mesh = pipe[k][5]
    gv = canon(st2[2 * j][1])
    ok, r = st3[j]
    keep_ids, new_faces = [int(i) for i in canon(r[0])], canon(r[1])
    model_verts = [gv[i] for i in keep_ids]
    real_verts = [[Fraction(p.x), Fraction(p.y)] for p in mesh.vertices]
    real_faces = [[Fraction(i) for i in f] for f in mesh.faces]
    areas = set(Fraction(a) for a in mesh.face_areas)
    good = (model_verts == real_verts and new_faces == real_faces and areas == {xd2 * yd2}
            and xd2 * yd2 != Fraction(pipe[k][1]) * Fraction(pipe[k][2]))
    recomputed = set(Fraction(Mesh2D._get_area([mesh.vertices[i] for i in f])) for f in mesh.faces)
    good = good and recomputed == {xd2 * yd2}
    if not good:
        pipe_bad += 1
        print('PIPE mismatch case', k)
print('%-36s %4d compared  %d disagree' % ('from_polygon_grid pipeline', len(pipe), pipe_bad))

# ---------------------------------------------------------------- run
res = drv.run(reqs)
bad = 0
counts = {}
for i, ((ok, val), exp, lab) in enumerate(zip(res, expect, label)):
    counts.setdefault(lab, [0, 0])
    counts[lab][0] += 1
    if not ok:
        print('ERR', lab, reqs[i], val)
        bad += 1
        counts[lab][1] += 1
        continue
    got = canon(val)
    if i in approx:
        fa, fb = lbg.flat_numbers(got), lbg.flat_numbers(exp)
        same = len(fa) == len(fb) and all(abs(x - y) <= Fraction(1, 10**12) for x, y in zip(fa, fb))
    else:
        same = got == exp
    if not same:
        bad += 1
        counts[lab][1] += 1
        if counts[lab][1] <= 3:
            print('MISMATCH', lab, reqs[i][1], '\n  model:', got, '\n  real: ', exp)
for lab, (n, b) in sorted(counts.items()):
    print('%-36s %4d compared  %d disagree' % (lab, n, b))
print('bool_group max nesting depth histogram:', sorted(depth_hist.items()))
print('TOTAL %d requests, %d disagreements' % (len(reqs) + len(pipe), bad + pipe_bad))
sys.exit(1 if (bad or pipe_bad) else 0)
