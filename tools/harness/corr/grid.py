"""Correspondence of the hand models `Model/Grid.lean`, `Model/MeshRemove.lean` (C20),
`Model/Offset.lean` (C19) and `Model/BoolGroup.lean` (C09) with the real library.

C20  model.grid_vertices / grid_centroids / grid_faces / domain_dimensions   vs   the static
     methods of Mesh2D and Mesh2D.from_grid;  model.remove_vertices(_full) / remove_faces_only /
     vertex_pattern_from_faces   vs   MeshBase._remove_vertices / _remove_faces_only /
     _vertex_pattern_from_remove_faces and the public Mesh2D.remove_vertices /
     remove_faces_only;  model.stl_split   vs   STL.from_mesh3d;  the whole
     Mesh2D.from_polygon_grid pipeline (domain dimensions -> grid -> removal -> cached areas
     and centroids) stage by stage.
C19  model.perimeter_quads / perimeter_quads_holes (which contain Model/Offset.segmentsOf,
     quadOut, quadHole, holeQuads)   vs   Polygon2D.perimeter_core_by_offset, once with
     prescribed (exactly representable) offset loops and once with the real offset.
C09  model.bool_group   vs   the grouping loop of Face3D._from_bool_poly on laminar families of
     rectangles with nesting depth 0 … 4.

Inputs are chosen so that double arithmetic is exact (dyadic numbers) or Fractions are passed
to the static methods; those comparisons are exact.  Streams with real-valued inputs are
compared within 1e-9 (vertices) and are marked `~` in the histograms.

Stand-alone:  /venv/bin/python /verif/tools/harness/corr/grid.py [C09|C19|C20] [seed] [tier]"""
import math
import os
import random
import sys
import time
from fractions import Fraction

_H = os.path.dirname(os.path.dirname(os.path.abspath(__file__)))
if _H not in sys.path:
    sys.path.insert(0, _H)
import lbg  # noqa: E402

from ladybug_geometry.geometry2d.pointvector import Point2D, Vector2D  # noqa: E402
from ladybug_geometry.geometry2d.mesh import Mesh2D  # noqa: E402
from ladybug_geometry.geometry2d.polygon import Polygon2D  # noqa: E402
from ladybug_geometry.geometry3d.mesh import Mesh3D  # noqa: E402
from ladybug_geometry.geometry3d.pointvector import Point3D  # noqa: E402
from ladybug_geometry.geometry3d.face import Face3D  # noqa: E402
from ladybug_geometry.geometry3d.plane import Plane  # noqa: E402
from ladybug_geometry.boolean import BooleanPolygon  # noqa: E402
from ladybug_geometry.interop.stl import STL  # noqa: E402

PROPS = ['C09', 'C19', 'C20']
MODELS = ['LbgVerif/Model/Grid.lean', 'LbgVerif/Model/MeshRemove.lean',
          'LbgVerif/Model/Offset.lean', 'LbgVerif/Model/BoolGroup.lean',
          'LbgVerif/Model/Dispatch_Grid.lean']
REAL = ['ladybug_geometry/geometry2d/mesh.py:Mesh2D._domain_dimensions,_grid_vertices,'
        '_grid_faces,_grid_centroids,from_grid,from_polygon_grid,remove_vertices,'
        'remove_faces_only',
        'ladybug_geometry/_mesh.py:MeshBase._remove_vertices,_transfer_face_centroids_areas,'
        '_remove_faces_only,_vertex_pattern_from_remove_faces',
        'ladybug_geometry/interop/stl.py:STL.from_mesh3d',
        'ladybug_geometry/geometry2d/polygon.py:Polygon2D.perimeter_core_by_offset,'
        '_segments_from_vertices',
        'ladybug_geometry/geometry3d/face.py:Face3D._from_bool_poly']
TRUSTED = [
    'C20: int(_dom / _dim) is compared on Fractions and on dyadic doubles (exact quotient); a '
    'double quotient that rounds across an integer is outside the model and not generated',
    'C20: from_polygon_grid — the inside pattern given to the model is computed with the real '
    'Polygon2D.is_point_inside on the scaled polygon, as the method does (C05 covers the test)',
    'C20: vertex / face colours and the face_pattern argument of _remove_vertices are not '
    'part of the driver interface of the model and not compared',
    'C19: Polygon2D.offset itself (acos route, Model/Offset.offsetMoveVec) has no driver entry; '
    'the quads are compared given the offset loops the real code produced (within 1e-9) or '
    'prescribed dyadic loops (exactly); the None-returning intersection checks are not modelled',
    'C09: containment is the strict containment of the generated rectangles (gaps >= 1 >> tol); '
    'polygon_relationship, the sort by area (areas pairwise distinct) and the lift to 3D are '
    'not modelled']

W = lbg.wnum
R_ = lbg.rnum
QUICK_BUDGET, THOROUGH_BUDGET = 16.0, 240.0
BATCH = 12000
APPROX = Fraction(1, 10 ** 9)


# ====================================================================== helpers
def num(x):
    """Input number: float/int or 'n/d' string (exact rational given to the real code)."""
    return Fraction(x) if isinstance(x, str) else x


def pts(ps):
    return [[W(p.x), W(p.y)] for p in ps]


def fpts(ps):
    return [[Fraction(p.x), Fraction(p.y)] for p in ps]


def canon(j):
    """Wire JSON -> comparable python (numbers as Fractions)."""
    if isinstance(j, bool):
        return j
    if isinstance(j, str):
        return R_(j)
    if isinstance(j, int):
        return Fraction(j)
    if isinstance(j, list):
        return [canon(x) for x in j]
    return j


def ints(j):
    return [[int(i) for i in f] for f in j]


def close(a, b, tol):
    """Same shape and numbers within tol (tol = 0: exact)."""
    if not lbg.same_shape(a, b):
        return False
    fa, fb = lbg.flat_numbers(a), lbg.flat_numbers(b)
    return len(fa) == len(fb) and all(
        abs(x - y) <= tol * (1 + abs(x)) for x, y in zip(fa, fb))


def first_diff(names, models, reals, tol=0):
    for nm, m, r in zip(names, models, reals):
        if not close(m, r, tol):
            return nm, m, r
    return None


def _show(x, lim=160):
    def f(v):
        if isinstance(v, Fraction):
            return float(v) if v.denominator != 1 else int(v)
        if isinstance(v, (list, tuple)):
            return [f(a) for a in v]
        if isinstance(v, dict):
            return dict((k, f(a)) for k, a in v.items())
        return v
    s = repr(f(x))
    return s if len(s) <= lim else s[:lim] + '…'


# ====================================================================== kinds
class Kind(object):
    """case(inp) -> (requests, real) runs the real code; judge(inp, answers, real) ->
    None | 'tie' | (what_class, detail, model)."""
    prop = None

    def case(self, inp):
        raise NotImplementedError

    def judge(self, inp, answers, real):
        raise NotImplementedError

    def shrink(self, inp):
        return []

    def nontrivial(self, inp, real):
        return True

    def size(self, inp):
        return 0

    def branch(self, inp, real):
        return 'ok'


def _vals(answers):
    for ok, v in answers:
        if not ok:
            raise _ModelError(str(v)[:200])
    return [canon(v) for ok, v in answers]


class _ModelError(Exception):
    pass


class Grid(Kind):
    """_grid_vertices / _grid_centroids / _grid_faces and Mesh2D.from_grid."""
    prop = 'C20'

    def case(self, inp):
        bx, by, nx, ny, xd, yd = (inp[k] for k in ('bx', 'by', 'nx', 'ny', 'xd', 'yd'))
        base = Point2D(bx, by)
        v = Mesh2D._grid_vertices(base, nx, ny, xd, yd)
        c = Mesh2D._grid_centroids(base, nx, ny, xd, yd)
        f = Mesh2D._grid_faces(nx, ny)
        real = {'vertices': fpts(v), 'centroids': fpts(c),
                'faces': [[Fraction(i) for i in t] for t in f], 'from_grid': None}
        if nx >= 1 and ny >= 1:
            m = Mesh2D.from_grid(base, nx, ny, xd, yd)
            real['from_grid'] = [fpts(m.vertices), [[Fraction(i) for i in t] for t in m.faces],
                                 fpts(m.face_centroids), Fraction(m._face_areas)]
        a = [W(bx), W(by), nx, ny, W(xd), W(yd)]
        return [('model.grid_vertices', a), ('model.grid_centroids', a),
                ('model.grid_faces', [nx, ny])], real

    def judge(self, inp, answers, real):
        mv, mc, mf = _vals(answers)
        tol = APPROX if inp.get('approx') else 0
        d = first_diff(['_grid_vertices', '_grid_centroids', '_grid_faces'], [mv, mc, mf],
                       [real['vertices'], real['centroids'], real['faces']], tol)
        if d is None and real['from_grid'] is not None:
            area = Fraction(inp['xd']) * Fraction(inp['yd'])
            d = first_diff(['from_grid.vertices', 'from_grid.faces', 'from_grid.face_centroids',
                            'from_grid.face_areas'], [mv, mf, mc, area], real['from_grid'],
                           tol if tol else 0)
        if d is None:
            return None
        return ('%s differs' % d[0], 'nx=%d ny=%d xd=%r yd=%r model %s real %s' % (
            inp['nx'], inp['ny'], inp['xd'], inp['yd'], _show(d[1]), _show(d[2])), _show(d[1], 600))

    def shrink(self, inp):
        out = []
        for k in ('nx', 'ny'):
            for v in (inp[k] // 2, inp[k] - 1):
                if 0 <= v < inp[k]:
                    d = dict(inp)
                    d[k] = v
                    out.append(d)
        return out

    def nontrivial(self, inp, real):
        return inp['nx'] >= 1 and inp['ny'] >= 1

    def size(self, inp):
        return (inp['nx'] + 1) * (inp['ny'] + 1)

    def branch(self, inp, real):
        return 'empty grid' if inp['nx'] == 0 or inp['ny'] == 0 else 'grid'


class DomainDimensions(Kind):
    prop = 'C20'

    def case(self, inp):
        dom, dim = num(inp['dom']), num(inp['dim'])
        try:
            d2, n = Mesh2D._domain_dimensions(dom, dim)
            real = [Fraction(d2), Fraction(n)]
        except ZeroDivisionError:
            real = 'ZeroDivisionError'
        return [('model.domain_dimensions', [W(dom), W(dim)])], real

    def judge(self, inp, answers, real):
        ok, val = answers[0]
        model = canon(val) if ok else ('ZeroDivisionError' if 'ZeroDivision' in str(val)
                                       else 'error: %s' % str(val)[:100])
        if model == real:
            return None
        # rounding: the double quotient is an integer although the exact one is not (or v.v.)
        if not isinstance(inp['dom'], str) and isinstance(real, list) and isinstance(model, list):
            q = Fraction(inp['dom']) / Fraction(inp['dim'])
            if q != Fraction(inp['dom'] / inp['dim']) and \
                    abs(q - round(q)) <= Fraction(1, 10 ** 9) * max(1, abs(q)):
                return 'tie'
            if model[1] == real[1] and close(model, real, APPROX):
                return None       # same cell count, dimension rounded in the last place
        return ('result differs', 'dom=%s dim=%s model %s real %s' % (
            inp['dom'], inp['dim'], _show(model), _show(real)), _show(model))

    def nontrivial(self, inp, real):
        return isinstance(real, list) and real[1] not in (0, 1)

    def branch(self, inp, real):
        if not isinstance(real, list):
            return real
        q = Fraction(inp['dom']) / Fraction(inp['dim'])
        if real[1] < 0:
            return 'negative'
        if q < 1:
            return 'int()==0 -> 1'
        return 'exact multiple' if q.denominator == 1 else 'truncated'


class Remove(Kind):
    """_remove_vertices, _remove_faces_only, _vertex_pattern_from_remove_faces (+ the public
    wrappers).  Vertex i is Point2D(i, 0); face centroids / areas carry the face number."""
    prop = 'C20'

    def case(self, inp):
        nv, faces, pat, fp = inp['nv'], [tuple(f) for f in inp['faces']], inp['pat'], inp['fpat']
        verts = [Point2D(float(i), 0.0) for i in range(nv)]
        mesh = Mesh2D(verts, faces)
        mesh._face_centroids = tuple(range(len(faces)))
        mesh._face_areas = tuple(range(len(faces)))
        nvs, nfs, ncol, ncent, narea, fpat = mesh._remove_vertices(list(pat))
        real = {'rv': [ints(nfs), list(fpat)],
                'rv_full': [[int(p.x) for p in nvs], ints(nfs), [int(i) for i in ncent],
                            list(fpat)],
                'areas': [int(i) for i in narea]}
        nfs2, ncol2, ncent2, narea2 = mesh._remove_faces_only(list(fp))
        real['rfo'] = [ints(nfs2), [int(i) for i in ncent2]]
        real['rfo_areas'] = [int(i) for i in narea2]
        real['vp'] = list(mesh._vertex_pattern_from_remove_faces(list(fp)))
        # public wrappers (a mesh needs at least one face)
        real['pub_rv'] = real['pub_rfo'] = None
        if len(nfs) > 0:
            m2, fpat2 = mesh.remove_vertices(list(pat))
            real['pub_rv'] = [[int(p.x) for p in m2.vertices], ints(m2.faces),
                              [int(i) for i in m2._face_centroids], list(fpat2)]
        if len(nfs2) > 0:
            m3 = mesh.remove_faces_only(list(fp))
            real['pub_rfo'] = [ints(m3.faces), [int(i) for i in m3._face_centroids]]
        fl = [list(f) for f in faces]
        return [('model.remove_vertices', [nv, fl, list(pat)]),
                ('model.remove_vertices_full', [nv, fl, list(pat)]),
                ('model.remove_faces_only', [fl, list(fp)]),
                ('model.vertex_pattern_from_faces', [nv, fl, list(fp)])], real

    @staticmethod
    def _norm(v):
        """wire answer -> ints / bools."""
        if isinstance(v, bool):
            return v
        if isinstance(v, (int, str)):
            return int(Fraction(v))
        return [Remove._norm(x) for x in v]

    def judge(self, inp, answers, real):
        for ok, v in answers:
            if not ok:
                raise _ModelError(str(v)[:200])
        rv, rvf, rfo, vp = [self._norm(v) for ok, v in answers]
        names = ['_remove_vertices (faces, face_pattern)',
                 '_remove_vertices (vertices, faces, face data, face_pattern)',
                 '_remove_faces_only', '_vertex_pattern_from_remove_faces']
        reals = [real['rv'], real['rv_full'], real['rfo'], real['vp']]
        models = [rv, rvf, rfo, vp]
        if real['areas'] != real['rv_full'][2] or real['rfo_areas'] != real['rfo'][1]:
            return ('face areas and face centroids filtered differently', 'areas %s centroids %s' % (
                real['areas'], real['rv_full'][2]), None)
        if real['pub_rv'] is not None:
            names.append('Mesh2D.remove_vertices')
            reals.append(real['pub_rv'])
            models.append(rvf)
        if real['pub_rfo'] is not None:
            names.append('Mesh2D.remove_faces_only')
            reals.append(real['pub_rfo'])
            models.append(rfo)
        for nm, m, r in zip(names, models, reals):
            if m != r:
                return ('%s differs' % nm, 'nv=%d faces=%s pat=%s fpat=%s model %s real %s' % (
                    inp['nv'], inp['faces'], _bits(inp['pat']), _bits(inp['fpat']),
                    _show(m), _show(r)), m)
        return None

    def shrink(self, inp):
        out = []
        nf = len(inp['faces'])
        for j in range(nf):
            if nf > 1:
                d = dict(inp)
                d['faces'] = inp['faces'][:j] + inp['faces'][j + 1:]
                d['fpat'] = inp['fpat'][:j] + inp['fpat'][j + 1:]
                out.append(d)
        used = set(i for f in inp['faces'] for i in f)
        for v in range(inp['nv']):          # drop an unused vertex
            if v not in used and inp['nv'] > 4:
                d = dict(inp)
                d['nv'] = inp['nv'] - 1
                d['pat'] = inp['pat'][:v] + inp['pat'][v + 1:]
                d['faces'] = [[i - 1 if i > v else i for i in f] for f in inp['faces']]
                out.append(d)
        return out

    def nontrivial(self, inp, real):
        fp = real['rv'][1]
        return any(fp) and not all(fp)

    def size(self, inp):
        return len(inp['faces']) * 20 + inp['nv']

    def branch(self, inp, real):
        fp = real['rv'][1]
        return 'all faces kept' if all(fp) else ('no face kept' if not any(fp) else 'some faces kept')


def _bits(p):
    return ''.join('1' if b else '0' for b in p)


class StlSplit(Kind):
    prop = 'C20'

    def case(self, inp):
        nv, faces = inp['nv'], [tuple(f) for f in inp['faces']]
        verts = [Point3D(float(i), float(i * i % 7), 0.0) for i in range(nv)]
        stl = STL.from_mesh3d(Mesh3D(verts, faces))
        fv = [[int(p.x) for p in tri] for tri in stl.face_vertices]
        return [('model.stl_split', [list(f)]) for f in faces], \
            {'tris': fv, 'normals': len(stl.face_normals)}

    def judge(self, inp, answers, real):
        for ok, v in answers:
            if not ok:
                raise _ModelError(str(v)[:200])
        model = [[int(i) for i in t] for ok, v in answers for t in v]
        if model != real['tris']:
            return ('triangles differ', 'faces=%s model %s real %s' % (inp['faces'], model,
                                                                        real['tris']), model)
        if real['normals'] != len(model):
            return ('number of normals differs', '%d normals for %d triangles' % (
                real['normals'], len(model)), model)
        return None

    def shrink(self, inp):
        return [{'nv': inp['nv'], 'faces': [f]} for f in inp['faces']] if len(inp['faces']) > 1 \
            else []

    def nontrivial(self, inp, real):
        return any(len(f) == 4 for f in inp['faces'])

    def size(self, inp):
        return len(inp['faces'])

    def branch(self, inp, real):
        k = set(len(f) for f in inp['faces'])
        return 'tri+quad' if len(k) == 2 else ('quads' if 4 in k else 'triangles')


class Pipeline(Kind):
    """Mesh2D.from_polygon_grid, stage by stage; every stage of the model is fed the real
    intermediate value, so one batch suffices and the first differing stage is named."""
    prop = 'C20'

    def case(self, inp):
        poly = Polygon2D([Point2D(*p) for p in inp['poly']])
        xd, yd = inp['xd'], inp['yd']
        try:
            mesh = Mesh2D.from_polygon_grid(poly, xd, yd)
        except AssertionError:
            return [], None         # no cell inside the polygon: 'Mesh must have … one face'
        dmx, dmy = poly.max.x - poly.min.x, poly.max.y - poly.min.y
        rxd, nx = Mesh2D._domain_dimensions(dmx, xd)
        ryd, ny = Mesh2D._domain_dimensions(dmy, yd)
        verts = Mesh2D._grid_vertices(poly.min, nx, ny, rxd, ryd)
        faces = Mesh2D._grid_faces(nx, ny)
        tol_pt = Vector2D(0.0000001, 0.0000001)
        scaled = Polygon2D(tuple(pt.scale(1.000001, poly.min) - tol_pt for pt in poly.vertices))
        pattern = [scaled.is_point_inside(_v) for _v in verts]
        fa = mesh._face_areas
        real = {'dd': [[Fraction(rxd), Fraction(nx)], [Fraction(ryd), Fraction(ny)]],
                'vertices': fpts(mesh.vertices),
                'faces': [[Fraction(i) for i in f] for f in mesh.faces],
                'centroids': fpts(mesh._face_centroids),
                'area_centroids': None if mesh._face_area_centroids is None else True,
                'areas': Fraction(fa) if isinstance(fa, (int, float)) else
                [Fraction(a) for a in fa],
                'recomputed': sorted(set(Fraction(Mesh2D._get_area(
                    [mesh.vertices[i] for i in f])) for f in mesh.faces)),
                'requested': Fraction(xd) * Fraction(yd), 'n': [nx, ny]}
        g = [W(poly.min.x), W(poly.min.y), nx, ny, W(rxd), W(ryd)]
        return [('model.domain_dimensions', [W(dmx), W(xd)]),
                ('model.domain_dimensions', [W(dmy), W(yd)]),
                ('model.grid_vertices', g), ('model.grid_centroids', g),
                ('model.remove_vertices_full',
                 [len(verts), [list(f) for f in faces], pattern])], real

    def judge(self, inp, answers, real):
        if real is None:
            return None
        ddx, ddy, gv, gc, rm = _vals(answers)
        if [ddx, ddy] != real['dd']:
            return ('_domain_dimensions differs', 'model %s real %s' % (
                _show([ddx, ddy]), _show(real['dd'])), _show([ddx, ddy]))
        keep_v, new_faces, keep_f = [int(i) for i in rm[0]], rm[1], [int(i) for i in rm[2]]
        cell = ddx[0] * ddy[0]
        stages = [('vertices', [gv[i] for i in keep_v], real['vertices']),
                  ('faces', new_faces, real['faces']),
                  ('face_centroids', [gc[i] for i in keep_f], real['centroids']),
                  ('face_areas (corrected cell area)', cell, real['areas']),
                  ('area of the faces', [cell], real['recomputed'])]
        for nm, m, r in stages:
            if m != r:
                return ('from_polygon_grid: %s differ' % nm, 'poly=%s xd=%r yd=%r model %s real %s'
                        % (inp['poly'], inp['xd'], inp['yd'], _show(m), _show(r)), _show(m, 600))
        return None

    def nontrivial(self, inp, real):
        return real is not None and \
            real['requested'] != real['dd'][0][0] * real['dd'][1][0] and \
            len(real['faces']) < real['n'][0] * real['n'][1]

    def size(self, inp):
        return len(inp['poly'])

    def branch(self, inp, real):
        if real is None:
            return 'no cell inside (AssertionError, skipped)'
        full = len(real['faces']) == real['n'][0] * real['n'][1]
        return 'all cells inside' if full else 'cells removed'


class StubPoly(Polygon2D):
    """Polygon2D whose offset() returns a prescribed loop (exactly representable), so that the
    quad-building loops of perimeter_core_by_offset are exercised with exact arithmetic."""

    def offset(self, distance, check_intersection=False):
        return self._stub_inner


class Quads(Kind):
    """perimeter_core_by_offset.  inp: outer, inner (None = use the real offset), holes =
    None | [[hole, hole_offset | None], …], distance."""
    prop = 'C19'

    def case(self, inp):
        stub = inp['inner'] is not None
        if stub:
            poly = StubPoly([Point2D(*p) for p in inp['outer']])
            poly._stub_inner = Polygon2D([Point2D(*p) for p in inp['inner']])
        else:
            poly = Polygon2D([Point2D(*p) for p in inp['outer']])
        holes = None
        if inp['holes'] is not None:
            holes = []
            for h, ho in inp['holes']:
                if stub:
                    hp = StubPoly([Point2D(*p) for p in h])
                    hp._stub_inner = Polygon2D([Point2D(*p) for p in ho])
                else:
                    hp = Polygon2D([Point2D(*p) for p in h])
                holes.append(hp)
        per, core = Polygon2D.perimeter_core_by_offset(poly, inp['distance'], holes)
        if per is None:
            return [], None
        real = [fpts(q.vertices) for q in per]
        if holes is None:
            return [('model.perimeter_quads', [pts(poly.vertices), pts(core[0].vertices)])], real
        return [('model.perimeter_quads_holes', [
            pts(poly.vertices), pts(core[0].vertices),
            [[pts(hh.vertices), pts(cc.vertices)] for hh, cc in zip(holes, core[1:])]])], real

    def judge(self, inp, answers, real):
        if real is None:
            return None
        (model,) = _vals(answers)
        tol = 0 if inp['inner'] is not None else APPROX
        if close(model, real, tol):
            return None
        if len(model) != len(real):
            cls = 'number of quads differs'
        else:
            bad = [k for k, (m, r) in enumerate(zip(model, real)) if not close(m, r, tol)]
            n_outer = len(inp['outer'])
            where = 'outer loop' if bad[0] < n_outer else 'hole'
            m, r = model[bad[0]], real[bad[0]]
            same_set = sorted(map(tuple, m)) == sorted(map(tuple, r))
            cls = 'quad of %s: %s' % (where, 'vertex order differs' if same_set or tol
                                      else 'vertices differ')
        return (cls, 'outer=%s holes=%s model %s real %s' % (
            inp['outer'], 'None' if inp['holes'] is None else len(inp['holes']),
            _show(model), _show(real)), _show(model, 600))

    def shrink(self, inp):
        out = []
        if inp['holes']:
            for j in range(len(inp['holes'])):
                d = dict(inp)
                d['holes'] = inp['holes'][:j] + inp['holes'][j + 1:]
                out.append(d)
        return out

    def nontrivial(self, inp, real):
        return real is not None and (inp['holes'] is not None and len(inp['holes']) > 0)

    def size(self, inp):
        return len(inp['outer']) + sum(len(h[0]) for h in (inp['holes'] or []))

    def branch(self, inp, real):
        if real is None:
            return 'offset returns None (skipped)'
        o = 'cw' if Polygon2D([Point2D(*p) for p in inp['outer']]).is_clockwise else 'ccw'
        if inp['holes'] is None:
            return 'holes=None outer %s' % o
        hs = sorted(set('cw' if Polygon2D([Point2D(*p) for p in h]).is_clockwise else 'ccw'
                        for h, _ in inp['holes']))
        return 'outer %s holes %s' % (o, '+'.join(hs) if hs else '[]')


def _area(r):
    return (r[2] - r[0]) * (r[3] - r[1])


def _contains(a, b):
    return a[0] < b[0] and a[1] < b[1] and b[2] < a[2] and b[3] < a[3]


class BoolGroup(Kind):
    """inp: rects = [[x0, y0, x1, y1], …] (laminar family, distinct areas, in the order the
    regions are handed over), rev = [bool] orientation of each loop."""
    prop = 'C09'

    def case(self, inp):
        rects = [tuple(r) for r in inp['rects']]
        regions = []
        for r, rv in zip(rects, inp['rev']):
            loop = [(r[0], r[1]), (r[2], r[1]), (r[2], r[3]), (r[0], r[3])]
            if rv:
                loop.reverse()
            regions.append(loop)
        faces = Face3D._from_bool_poly(BooleanPolygon(regions), Plane(), 0.01)
        srt = sorted(rects, key=_area, reverse=True)

        def ident(loop3d):
            xs = [p.x for p in loop3d]
            ys = [p.y for p in loop3d]
            return srt.index((min(xs), min(ys), max(xs), max(ys)))

        real = []
        for f in faces:
            real.append([ident(f.boundary)] + [ident(hh) for hh in (f.holes or ())])
        n = len(srt)
        inside = [[_contains(srt[a], srt[b]) for b in range(n)] for a in range(n)]
        depth = max(sum(inside[a][b] for a in range(n)) for b in range(n)) if n else 0
        return [('model.bool_group', [n, inside])], {'groups': real, 'depth': depth}

    def judge(self, inp, answers, real):
        ok, val = answers[0]
        if not ok:
            raise _ModelError(str(val)[:200])
        model = [[int(i) for i in g] for g in val]
        if model == real['groups']:
            return None
        if sorted(sorted(g) for g in model) == sorted(sorted(g) for g in real['groups']):
            cls = 'same groups in a different order'
        elif len(model) != len(real['groups']):
            cls = 'number of faces differs'
        else:
            cls = 'holes assigned differently'
        return (cls, 'rects (sorted by area) %s: model %s real %s' % (
            sorted([tuple(r) for r in inp['rects']], key=_area, reverse=True), model,
            real['groups']), model)

    def shrink(self, inp):
        out = []
        for j in range(len(inp['rects'])):
            if len(inp['rects']) > 2:
                out.append({'rects': inp['rects'][:j] + inp['rects'][j + 1:],
                            'rev': inp['rev'][:j] + inp['rev'][j + 1:]})
        return out

    def nontrivial(self, inp, real):
        return real['depth'] >= 1

    def size(self, inp):
        return len(inp['rects'])

    def branch(self, inp, real):
        return 'nesting depth %d' % real['depth']


KINDS = {'grid': Grid(), 'domain_dimensions': DomainDimensions(), 'remove': Remove(),
         'stl_split': StlSplit(), 'from_polygon_grid': Pipeline(),
         'perimeter_quads': Quads(), 'bool_group': BoolGroup()}


# ====================================================================== engine
class _Engine(object):
    def __init__(self, ctx, prop):
        self.ctx, self.prop = ctx, prop
        self.t0 = time.time()
        thorough = ctx.tier == 'thorough' or bool(getattr(ctx, 'broken', None))
        self.thorough = thorough
        budget = THOROUGH_BUDGET if thorough else QUICK_BUDGET
        self.t_end = min(getattr(ctx, 'deadline', self.t0 + budget), self.t0 + budget)
        self.t_gen = self.t0 + 0.35 * max(0.0, self.t_end - self.t0)
        self.cases = []          # (kind, inp, stream, requests, real)
        self.dis = {}            # signature -> disagreement (smallest seen)
        self.hist = {'kind': {}, 'stream': {}, 'size': {}, 'branch': {}, 'outcome': {}}
        self.requests = self.comparisons = self.nontrivial = self.ties = 0
        self.samples = []
        self.tie_samples = []

    def more(self):
        return time.time() < self.t_gen

    def count(self, h, k):
        self.hist.setdefault(h, {})
        self.hist[h][k] = self.hist[h].get(k, 0) + 1

    def record(self, kind, inp, cls, detail, reqs, model, real):
        sig = '%s|%s' % (kind, cls)
        d = {'signature': sig, 'what': ('%s: %s' % (sig, detail))[:700],
             'op': reqs[0][0] if reqs else None, 'args': reqs[0][1] if reqs else None,
             'model': model, 'real': real, 'seed': self.ctx.seed, 'kind': kind, 'input': inp}
        old = self.dis.get(sig)
        if old is None or KINDS[kind].size(inp) < KINDS[old['kind']].size(old['input']):
            self.dis[sig] = d
        return d

    def add(self, kind, inp, stream='-'):
        k = KINDS[kind]
        if k.prop != self.prop:
            return
        try:
            reqs, real = k.case(inp)
        except Exception as e:      # the real code raised something the model does not know
            self.comparisons += 1
            self.count('kind', kind)
            self.count('outcome', 'raises ' + type(e).__name__)
            self.record(kind, inp, 'raises %s' % type(e).__name__, '%s on %s' % (
                str(e)[:150], _brief(inp)), [], None, 'raises %s' % type(e).__name__)
            return
        self.cases.append((kind, inp, stream, reqs, real))

    def evaluate(self, cases):
        flat = [r for c in cases for r in c[3]]
        ans = []
        for s in range(0, len(flat), BATCH):
            ans.extend(self.ctx.driver.run(flat[s:s + BATCH]))
        out, pos = [], 0
        for (kind, inp, stream, reqs, real) in cases:
            a = ans[pos:pos + len(reqs)]
            pos += len(reqs)
            try:
                out.append(KINDS[kind].judge(inp, a, real))
            except _ModelError as e:
                out.append(('model error', str(e), None))
            except Exception as e:
                out.append(('judge crashed %s' % type(e).__name__, str(e)[:200], None))
        return out

    def run(self):
        verdicts = self.evaluate(self.cases)
        for (kind, inp, stream, reqs, real), v in zip(self.cases, verdicts):
            k = KINDS[kind]
            self.requests += len(reqs)
            self.comparisons += 1
            self.count('kind', kind)
            self.count('stream', stream)
            self.count('size', '%s %03d' % (kind, min(k.size(inp), 300)))
            try:
                self.count('branch', '%s: %s' % (kind, k.branch(inp, real)))
                nt = bool(k.nontrivial(inp, real))
            except Exception:
                nt = False
            if v == 'tie':
                self.ties += 1
                self.count('outcome', 'float tie')
                if len(self.tie_samples) < 3:
                    self.tie_samples.append({'kind': kind, 'stream': stream, 'input': inp})
                continue
            self.nontrivial += 1 if nt else 0
            if v is None:
                self.count('outcome', 'agree')
                if nt and len(self.samples) < 3 and k.size(inp) <= 12 and \
                        kind not in [s['kind'] for s in self.samples]:
                    self.samples.append({'kind': kind, 'input': inp,
                                         'ops': sorted(set(r[0] for r in reqs)),
                                         'real': _show(_plain(real), 300)})
                continue
            self.count('outcome', 'DISAGREE')
            self.count('disagree_by_stream', '%s @ %s' % (kind, stream))
            self.record(kind, inp, v[0], v[1], reqs, v[2], _show(_plain(real), 600))
        for sig in sorted(self.dis):
            self.dis[sig] = self.shrink(self.dis[sig])
        return {
            'requests': self.comparisons, 'model_requests': self.requests,
            'nontrivial': self.nontrivial, 'rule': RULES[self.prop],
            'disagreements': [self.dis[s] for s in sorted(self.dis)],
            'float_ties': self.ties, 'histograms': self.hist, 'samples': self.samples,
            'float_tie_samples': self.tie_samples,
            'seconds': round(time.time() - self.t0, 1)}

    def one(self, kind, inp):
        sub = _Engine(self.ctx, KINDS[kind].prop)
        sub.t_end = self.t_end
        sub.add(kind, inp)
        if sub.dis:
            return list(sub.dis.values())[0]
        if not sub.cases:
            return None
        (v,) = sub.evaluate(sub.cases)
        if v is None or v == 'tie':
            return v
        (kind, inp, stream, reqs, real) = sub.cases[0]
        return sub.record(kind, inp, v[0], v[1], reqs, v[2], _show(_plain(real), 600))

    def shrink(self, d):
        kind = d['kind']
        k = KINDS[kind]
        for _ in range(6):
            if time.time() + 5 > self.t_end:
                break
            cands = k.shrink(d['input'])[:400]
            if not cands:
                break
            sub = _Engine(self.ctx, k.prop)
            for c in cands:
                sub.add(kind, c)
            found = [x for x in sub.dis.values() if x['signature'] == d['signature']]
            if sub.cases:
                for (kd, inp, stream, reqs, real), v in zip(sub.cases, sub.evaluate(sub.cases)):
                    if v is not None and v != 'tie' and '%s|%s' % (kd, v[0]) == d['signature']:
                        found.append(sub.record(kd, inp, v[0], v[1], reqs, v[2],
                                                _show(_plain(real), 600)))
            if not found:
                break
            d = min(found, key=lambda x: k.size(x['input']))
        return d


def _plain(real):
    if isinstance(real, dict):
        return dict((k, v) for k, v in real.items() if k in (
            'groups', 'rv_full', 'rfo', 'vp', 'tris', 'dd', 'faces', 'vertices'))
    return real


def _brief(inp):
    s = repr(inp)
    return s if len(s) < 300 else s[:300] + '…'


RULES = {
    'C20': 'one comparison = one input of a kind (grid: vertices+centroids+faces+from_grid; '
           'domain_dimensions; remove: 4 model requests against the private methods and the 2 '
           'public wrappers on a random tri/quad mesh; stl_split: all faces of a mesh; '
           'from_polygon_grid: 5 stages); `model_requests` counts the driver requests.  non-trivial = '
           'grid with >=1 cell in both directions / cell count other than 0 or 1 / some but not '
           'all faces survive / a quad is split / the requested cell size is corrected and cells '
           'are removed',
    'C19': 'one comparison = all perimeter quads of one call of perimeter_core_by_offset '
           '(convex lattice polygons and rectangles, both orientations, 0-3 holes of both '
           'orientations; prescribed dyadic offset loops compared exactly, real offset loops '
           'within 1e-9); non-trivial = the call has at least one hole',
    'C09': 'one comparison = the grouping (outer, holes…) of one laminar family of rectangles, '
           'regions handed over in random order and orientation; non-trivial = nesting depth '
           '>= 1 (histogram `branch` gives the depths 0…4)',
}


# ====================================================================== generators C20
def dy(rng, den=8, lo=-40, hi=40):
    return rng.randint(lo, hi) / float(den)


def rand_mesh(rng, big=False):
    nv = rng.randint(4, 30 if big else 14)
    nf = rng.randint(1, 30 if big else 12)
    faces = []
    for _ in range(nf):
        k = rng.choice([3, 4])
        faces.append(rng.sample(range(nv), k))
    return nv, faces


def gen_c20(E, seed):
    # ---------------- fixed corpus
    for nx, ny in ((0, 0), (0, 3), (2, 0), (1, 1), (2, 3), (3, 1)):
        E.add('grid', {'bx': 0.5, 'by': -1.25, 'nx': nx, 'ny': ny, 'xd': 0.5, 'yd': 1.5}, 'fixed')
    E.add('grid', {'bx': 0.0, 'by': 0.0, 'nx': 2, 'ny': 2, 'xd': -0.5, 'yd': 0.25}, 'fixed')
    for dom, dim in (('1', '0'), ('0', '1'), ('0', '0'), ('10', '3'), ('9', '3'), ('1', '3'),
                     ('-10', '3'), ('10', '-3'), ('-1', '3'), ('7/2', '1/2'), ('7/2', '3/10'),
                     ('29/10', '1'), ('3', '1'), ('1/1000', '1/10')):
        E.add('domain_dimensions', {'dom': dom, 'dim': dim}, 'fixed')
    for dom, dim in ((7.5, 0.25), (7.5, 2.0), (0.0, 0.0), (3.0, 0.0), (0.125, 4.0), (-6.0, 4.0)):
        E.add('domain_dimensions', {'dom': dom, 'dim': dim}, 'fixed')
    quad = {'nv': 6, 'faces': [[0, 1, 4, 3], [1, 2, 5, 4], [0, 1, 4], [3, 4, 5]]}
    for pat in ([True] * 6, [False] * 6, [True, True, False, True, True, True],
                [False, True, True, True, True, True], [True, True, True, True, True, False]):
        for fp in ([True] * 4, [False] * 4, [True, False, False, True], [False, False, True, False]):
            E.add('remove', dict(quad, pat=pat, fpat=fp), 'fixed')
    E.add('stl_split', {'nv': 6, 'faces': [[0, 1, 4, 3], [1, 2, 5], [5, 4, 1, 2], [3, 4, 0]]},
          'fixed')
    E.add('from_polygon_grid', {'poly': [[0.0, 0.0], [4.0, 0.0], [4.0, 2.0], [2.0, 2.0], [2.0, 4.0],
                                         [0.0, 4.0]], 'xd': 0.9, 'yd': 0.45}, 'fixed')
    E.add('from_polygon_grid', {'poly': [[0.0, 0.0], [4.0, 0.0], [0.0, 4.0]], 'xd': 1.0, 'yd': 0.5},
          'fixed')
    E.add('from_polygon_grid', {'poly': [[1.0, 1.0], [3.0, 1.0], [3.0, 2.0], [1.0, 2.0]],
                                'xd': 5.0, 'yd': 0.75}, 'fixed')
    # ---------------- random
    G = random.Random('%s/corr.grid/C20/grid' % seed)
    D = random.Random('%s/corr.grid/C20/domain' % seed)
    M = random.Random('%s/corr.grid/C20/remove' % seed)
    S = random.Random('%s/corr.grid/C20/stl' % seed)
    P = random.Random('%s/corr.grid/C20/pipeline' % seed)
    scale = 14 if E.thorough else 1
    for k in range(700 * scale):
        if not E.more():
            break
        if k % 2 == 0:        # grids (dyadic: exact; every 5th real-valued: within 1e-9)
            nx, ny = G.randint(0, 7), G.randint(0, 7)
            if E.thorough and k % 20 == 0:
                nx, ny = G.randint(0, 25), G.randint(0, 25)
            if k % 10 == 8:
                E.add('grid', {'bx': G.uniform(-50, 50), 'by': G.uniform(-50, 50), 'nx': nx,
                               'ny': ny, 'xd': G.uniform(0.01, 5), 'yd': G.uniform(0.01, 5),
                               'approx': True}, 'grid~real-valued')
            else:
                xd, yd = G.randint(1, 24) / 8.0, G.randint(1, 24) / 8.0
                if G.random() < 0.1:
                    xd = -xd
                E.add('grid', {'bx': dy(G, 4), 'by': dy(G, 4), 'nx': nx, 'ny': ny, 'xd': xd,
                               'yd': yd}, 'grid dyadic')
        # domain dimensions on Fractions (and dyadic doubles)
        dom = Fraction(D.randint(0, 4000), D.choice([1, 3, 7, 8, 10, 100]))
        dim = Fraction(D.randint(1, 900), D.choice([1, 3, 7, 8, 10, 100]))
        if D.random() < 0.15:
            dom = dim * D.randint(0, 12)          # exact multiples
        if D.random() < 0.05:
            dom = -dom
        if D.random() < 0.03:
            dim = -dim
        if D.random() < 0.02:
            dim = Fraction(0)
        E.add('domain_dimensions', {'dom': W(dom), 'dim': W(dim)}, 'domain Fractions')
        if k % 4 == 0:
            E.add('domain_dimensions', {'dom': D.randint(0, 4000) / 16.0,
                                        'dim': D.randint(1, 400) / 16.0}, 'domain dyadic doubles')
        # removal on random tri/quad meshes
        nv, faces = rand_mesh(M, big=E.thorough and k % 5 == 0)
        p_keep = M.choice([0.4, 0.7, 0.85, 0.95, 1.0])
        E.add('remove', {'nv': nv, 'faces': faces, 'pat': [M.random() < p_keep for _ in range(nv)],
                         'fpat': [M.random() < 0.6 for _ in faces]}, 'random mesh')
        if k % 5 == 0:
            nv, faces = rand_mesh(S)
            E.add('stl_split', {'nv': nv, 'faces': faces}, 'random mesh')
        if k % 5 == 1:        # from_polygon_grid
            w, h = float(P.randint(2, 12)), float(P.randint(2, 12))
            shape = P.choice(['rect', 'L', 'tri', 'U'])
            if shape == 'rect':
                vs = [(0, 0), (w, 0), (w, h), (0, h)]
            elif shape == 'L':
                vs = [(0, 0), (w, 0), (w, h / 2), (w / 2, h / 2), (w / 2, h), (0, h)]
            elif shape == 'U':
                vs = [(0, 0), (w, 0), (w, h), (3 * w / 4, h), (3 * w / 4, h / 4), (w / 4, h / 4),
                      (w / 4, h), (0, h)]
            else:
                vs = [(0, 0), (w, 0), (0, h)]
            if P.random() < 0.3:
                vs = vs[::-1]
            ox, oy = dy(P, 4), dy(P, 4)
            numx, numy = P.choice([1, 2, 4, 8]), P.choice([1, 2, 4, 8])
            # requested sizes that do NOT divide the extent but give exactly numx / numy cells
            xd = w / numx - (w / numx - w / (numx + 1)) / 4
            yd = h / numy - (h / numy - h / (numy + 1)) / 2
            E.add('from_polygon_grid', {'poly': [[x + ox, y + oy] for x, y in vs], 'xd': xd,
                                        'yd': yd}, 'polygon ' + shape)


# ====================================================================== generators C19
def lattice_convex(rng, cx, cy, r, n, cw=False):
    """A convex polygon with dyadic coordinates around (cx, cy)."""
    ps = []
    a0 = rng.random()
    for i in range(n):
        a = 2 * math.pi * (i + a0) / n
        ps.append((round((cx + r * math.cos(a)) * 4) / 4.0,
                   round((cy + r * math.sin(a)) * 4) / 4.0))
    out = []
    for p in ps:
        if not out or out[-1] != p:
            out.append(p)
    if len(out) > 1 and out[0] == out[-1]:
        out.pop()
    if cw:
        out.reverse()
    return out


def scaled(ps, c, k):
    return [(c[0] + k * (x - c[0]), c[1] + k * (y - c[1])) for x, y in ps]


def gen_c19(E, seed):
    sq = [(0.0, 0.0), (8.0, 0.0), (8.0, 8.0), (0.0, 8.0)]
    hole = [(3.0, 3.0), (5.0, 3.0), (5.0, 5.0), (3.0, 5.0)]
    for outer in (sq, sq[::-1]):
        inner = scaled(outer, (4.0, 4.0), 0.75)
        E.add('perimeter_quads', {'outer': outer, 'inner': inner, 'holes': None, 'distance': 1.0},
              'fixed')
        E.add('perimeter_quads', {'outer': outer, 'inner': inner, 'holes': [], 'distance': 1.0},
              'fixed')
        for h in (hole, hole[::-1]):
            ho = scaled(h, (4.0, 4.0), 1.5)
            E.add('perimeter_quads', {'outer': outer, 'inner': inner, 'holes': [[h, ho]],
                                      'distance': 1.0}, 'fixed')
            E.add('perimeter_quads', {'outer': outer, 'inner': None, 'holes': [[h, None]],
                                      'distance': 0.5}, 'fixed~real offset')
        E.add('perimeter_quads', {'outer': outer, 'inner': None, 'holes': None, 'distance': 0.5},
              'fixed~real offset')
        E.add('perimeter_quads', {'outer': outer, 'inner': None, 'holes': None, 'distance': 5.0},
              'fixed~real offset')
    Q = random.Random('%s/corr.grid/C19/stub' % seed)
    A = random.Random('%s/corr.grid/C19/real-offset' % seed)
    scale = 14 if E.thorough else 1
    for k in range(600 * scale):
        if not E.more():
            break
        # prescribed offset loops (exact)
        n = Q.randint(3, 9)
        outer = lattice_convex(Q, 0.0, 0.0, 16.0, n, Q.random() < 0.3)
        if len(outer) >= 3:
            inner = scaled(outer, (0.0, 0.0), Q.choice([0.5, 0.75, 0.875]))
            holes = None
            if Q.random() < 0.6:
                holes = []
                for (hx, hy) in Q.sample([(-3.0, -3.0), (3.0, 3.0), (-3.0, 3.0), (3.0, -3.0)],
                                         Q.randint(1, 3)):
                    h = lattice_convex(Q, hx, hy, 1.0, Q.randint(3, 6), Q.random() < 0.5)
                    if len(h) >= 3:
                        holes.append([h, scaled(h, (hx, hy), 1.5)])
            E.add('perimeter_quads', {'outer': outer, 'inner': inner, 'holes': holes,
                                      'distance': 1.0}, 'prescribed offset')
        if k % 2 == 0:
            continue
        # the real offset (doubles inside offset; the model gets the real core loops)
        d = A.choice([0.25, 0.5, 0.3, 0.7])
        if A.random() < 0.5:
            w, h = A.randint(4, 12) * 1.0, A.randint(4, 12) * 1.0
            outer = [(0.0, 0.0), (w, 0.0), (w, h), (0.0, h)]
            if A.random() < 0.3:
                outer.reverse()
            holes = None
            if A.random() < 0.5:
                hv = [(w / 2 - 0.5, h / 2 - 0.5), (w / 2 + 0.5, h / 2 - 0.5),
                      (w / 2 + 0.5, h / 2 + 0.5), (w / 2 - 0.5, h / 2 + 0.5)]
                if A.random() < 0.5:
                    hv.reverse()
                holes = [[hv, None]]
            stream = 'rectangle~real offset'
        else:
            outer = lattice_convex(A, 0.0, 0.0, 16.0, A.randint(3, 8), A.random() < 0.3)
            if len(outer) < 3:
                continue
            holes = None
            if A.random() < 0.6:
                holes = []
                for (hx, hy) in A.sample([(-3.0, -3.0), (3.0, 3.0), (-3.0, 3.0), (3.0, -3.0)],
                                         A.randint(1, 3)):
                    h = lattice_convex(A, hx, hy, 1.0, A.randint(3, 6), A.random() < 0.5)
                    if len(h) >= 3:
                        holes.append([h, None])
            stream = 'convex~real offset'
        E.add('perimeter_quads', {'outer': outer, 'inner': None, 'holes': holes, 'distance': d},
              stream)


# ====================================================================== generators C09
def laminar(rng, depth_max=4):
    """Random laminar family of axis-aligned rectangles (strictly nested or disjoint).
    Returns list of (x0, y0, x1, y1)."""
    rects = []

    def fill(x0, y0, x1, y1, depth):
        rects.append((x0, y0, x1, y1))
        if depth >= depth_max or x1 - x0 < 12 or y1 - y0 < 6:
            return
        k = rng.randint(0, 2)
        if k == 0:
            return
        wslot = (x1 - x0 - 2) / k      # k side-by-side slots with margins
        for i in range(k):
            if rng.random() < 0.8:
                a0 = x0 + 1 + i * wslot + rng.randint(1, 2)
                a1 = x0 + 1 + (i + 1) * wslot - rng.randint(1, 2)
                b0 = y0 + rng.randint(1, 2)
                b1 = y1 - rng.randint(1, 2)
                if a1 - a0 >= 2 and b1 - b0 >= 2:
                    fill(a0, b0, a1, b1, depth + 1)

    for t in range(rng.randint(1, 3)):
        fill(t * 200.0, 0.0, t * 200.0 + rng.randint(30, 150), float(rng.randint(10, 60)), 0)
    return rects


def nest(depth, x0=0.0, y0=0.0, w=100.0, h=60.0):
    """depth+1 strictly nested rectangles."""
    return [[x0 + 2 * i, y0 + i, x0 + w - 2 * i, y0 + h - i] for i in range(depth + 1)]


def gen_c09(E, seed):
    # fixed: pure nests of depth 0…4 in both hand-over orders, siblings, two islands
    for depth in range(5):
        r = nest(depth)
        if len(r) >= 2:
            E.add('bool_group', {'rects': r, 'rev': [False] * len(r)}, 'fixed nest')
            E.add('bool_group', {'rects': r[::-1], 'rev': [i % 2 == 0 for i in range(len(r))]},
                  'fixed nest')
        two = r + [[300.0, 0.0, 340.0, 7.0]]
        E.add('bool_group', {'rects': two, 'rev': [False] * len(two)}, 'fixed nest+island')
    sib = [[0.0, 0.0, 100.0, 50.0], [5.0, 5.0, 40.0, 45.0], [50.0, 5.0, 95.0, 44.0],
           [10.0, 10.0, 30.0, 40.0], [55.0, 10.0, 90.0, 39.0], [12.0, 12.0, 20.0, 38.0],
           [21.0, 12.0, 29.0, 37.0]]
    E.add('bool_group', {'rects': sib, 'rev': [False] * 7}, 'fixed siblings')
    E.add('bool_group', {'rects': sib[::-1], 'rev': [True] * 7}, 'fixed siblings')
    B = random.Random('%s/corr.grid/C09/laminar' % seed)
    scale = 14 if E.thorough else 1
    n, tries = 0, 0
    while n < 600 * scale and tries < 12000 * scale and E.more():
        tries += 1
        rects = laminar(B)
        if len(set(_area(r) for r in rects)) != len(rects) or len(rects) < 2:
            continue
        B.shuffle(rects)
        E.add('bool_group', {'rects': [list(r) for r in rects],
                             'rev': [B.random() < 0.5 for _ in rects]}, 'laminar')
        n += 1


# ====================================================================== interface
def run(ctx, prop):
    E = _Engine(ctx, prop)
    if prop == 'C20':
        gen_c20(E, ctx.seed)
    elif prop == 'C19':
        gen_c19(E, ctx.seed)
    elif prop == 'C09':
        gen_c09(E, ctx.seed)
    else:
        return {'requests': 0, 'nontrivial': 0, 'rule': 'no model of %s here' % prop,
                'disagreements': [], 'float_ties': 0, 'histograms': {}, 'samples': []}
    return E.run()


def replay(ctx, disagreement):
    """Re-run one recorded disagreement (its 'kind' and 'input') on the current tree."""
    kind, inp = disagreement.get('kind'), disagreement.get('input')
    if kind not in KINDS or inp is None:
        return None
    r = _Engine(ctx, KINDS[kind].prop).one(kind, inp)
    return r if isinstance(r, dict) else None


if __name__ == '__main__':
    class Ctx(object):
        pass
    args = sys.argv[1:]
    props = [a for a in args if a in PROPS] or PROPS
    nums = [a for a in args if a.lstrip('-').isdigit()]
    ctx = Ctx()
    ctx.seed = int(nums[0]) if nums else int(os.environ.get('VERIF_SEED', '0'))
    ctx.tier = 'thorough' if 'thorough' in args else os.environ.get('VERIF_TIER', 'quick')
    ctx.broken = []
    ctx.driver = lbg.Driver()
    bad = 0
    for prop in props:
        ctx.deadline = time.time() + 3600
        t = time.time()
        r = run(ctx, prop)
        print('%s seed %d %s: %d comparisons (%d model requests), %d non-trivial, %d float ties, '
              '%d disagreements, %.1fs' % (prop, ctx.seed, ctx.tier, r['requests'],
                                          r['model_requests'], r['nontrivial'], r['float_ties'],
                                          len(r['disagreements']), time.time() - t))
        for h in sorted(r['histograms']):
            if h != 'size':
                print('   %-8s %s' % (h, sorted(r['histograms'][h].items())))
        for s in r['samples']:
            print('   sample', s)
        for d in r['disagreements']:
            bad += 1
            print('   DISAGREE', d['what'][:500])
            print('            input', _brief(d['input']))
            import json
            again = replay(ctx, json.loads(json.dumps(d, default=lbg._json_default)))
            print('            replay:', 'reproduced' if again else 'NOT reproduced')
    sys.exit(1 if bad else 0)
