"""Correspondence of the hand model `Model/Interop.lean` (C20: OBJ / STL interchange,
Mesh2D.triangulated colours) with the real library, through real temporary files.

Request groups (all belong to C20):
  obj_write      Mesh3D.to_obj (all flag combinations) -> the file is read back as text, split
                 into token lines and compared with `model.obj_write`; the same file is then
                 parsed by OBJ.from_file / Mesh3D.from_obj and compared with `model.obj_read`
                 on the tokens of the REAL file, and Mesh3D.from_obj(to_obj(m)) with
                 `model.obj_roundtrip`.
  obj_to_file    OBJ(...) objects with texture map, normals, colours, material structure ->
                 OBJ.to_file vs `model.obj_to_file`, and the readers on the written file.
  obj_hand       hand-written / random token files exercising every keyword, index form,
                 comment, blank line and error branch -> OBJ.from_file / Mesh3D.from_obj vs
                 `model.obj_read`.
  stl_write      Mesh3D.to_stl / STL.from_mesh3d(mesh, name).to_file vs `model.stl_write`
                 (numbers as '{:.6E}' prints them), then the readers on the real file vs
                 `model.stl_read`.
  stl_hand       hand-written ASCII files (every keyword / error branch) and binary files.
  triangulated   Mesh2D.triangulated (convex / concave quads, face / vertex / no colours) vs
                 `model.triangulated`.
  sig7           float('{:.6E}'.format(x)) vs `model.sig7` on arbitrary doubles.

Stand-alone:  /venv/bin/python interop.py [seed] [thorough]"""
import importlib.util
import math
import os
import random
import re
import struct
import sys
import tempfile
import time
from fractions import Fraction

_H = os.path.dirname(os.path.dirname(os.path.abspath(__file__)))
if _H not in sys.path:
    sys.path.insert(0, _H)
import lbg  # noqa: E402

from ladybug_geometry.geometry2d.pointvector import Point2D  # noqa: E402
from ladybug_geometry.geometry2d.mesh import Mesh2D  # noqa: E402
from ladybug_geometry.geometry3d.mesh import Mesh3D  # noqa: E402
from ladybug_geometry.geometry3d.pointvector import Point3D, Vector3D  # noqa: E402
from ladybug_geometry.interop.obj import OBJ  # noqa: E402
from ladybug_geometry.interop.stl import STL  # noqa: E402

PROPS = ['C20']
MODELS = ['LbgVerif/Model/Interop.lean', 'LbgVerif/Model/Dispatch_Interop.lean']
REAL = ['ladybug_geometry/interop/obj.py:OBJ.__init__,from_file,from_mesh3d,to_file and the '
        'property setters',
        'ladybug_geometry/interop/stl.py:STL.__init__,from_file,from_mesh3d,to_file,_load_stl,'
        '_load_text_stl,_load_binary_stl',
        'ladybug_geometry/geometry3d/mesh.py:Mesh3D.__init__,to_obj,from_obj,to_stl,from_stl,'
        'face_normals,face_areas,vertex_normals,_calculate_vertex_normals',
        'ladybug_geometry/_mesh.py:MeshBase.colors,_check_faces_input,'
        '_interpret_input_from_face_vertices',
        'ladybug_geometry/geometry2d/mesh.py:Mesh2D.triangulated']
TRUSTED = [
    'C20 interop: the character level is outside the model: str.split, float(text), int(text), '
    "'{}'.format(float) (identity on the value: every generated double is re-read from the file "
    "and compared exactly), '{:.6E}'.format(float) (= model.sig7, compared exactly on arbitrary "
    'doubles), str(int); tokens are classified by this module (integer literal -?\\d+, float '
    "literal, word with '/', other word); non-finite numbers, numerals with '_' or a leading "
    "'+', non-ASCII digits are never generated",
    'C20 interop: normals that the library computes (cold _face_normals / _vertex_normals) are '
    'compared within 1e-9 (the model divides exactly, the code in doubles); the model prints '
    'exact 7-digit decimals, float(text) rounds them to the nearest double (done here); after 7-digit '
    'rounding a value within 1e-6 of a rounding boundary is a float tie',
    'C20 interop: the .mtl side file, leading blanks before `solid`, text STL files that do not '
    'start with `solid`, material indices < 0 and colour objects that are not sequences of '
    'str/int/float are not modelled and not generated',
    'C20 interop: Mesh2D.triangulated on concave quads within 1e-9 of a decision threshold of '
    '_quad_to_triangles is a float tie (corr/meshcache2d.quad_tie)']

W = lbg.wnum
QUICK_BUDGET, THOROUGH_BUDGET = 16.0, 240.0
BATCH = 6000
INT_RE = re.compile(r'-?\d+\Z')


def _load_quad_tie():
    p = os.path.join(os.path.dirname(os.path.abspath(lbg.__file__)), 'corr', 'meshcache2d.py')
    spec = importlib.util.spec_from_file_location('_corr_meshcache2d_for_interop', p)
    mod = importlib.util.module_from_spec(spec)
    spec.loader.exec_module(mod)
    return mod.quad_tie


try:
    quad_tie = _load_quad_tie()
except Exception:          # pragma: no cover
    quad_tie = None


# ====================================================================== tokens
def classify(word):
    """text of one whitespace-free word -> wire token."""
    if '/' in word:
        parts = word.split('/')
        k = int(parts[0]) if INT_RE.match(parts[0]) else None
        return {'g': [k, parts[1:]]}
    if INT_RE.match(word):
        return {'z': int(word)}
    try:
        x = float(word)
        if x == x and abs(x) != float('inf') and '_' not in word:
            return {'n': W(x)}
    except ValueError:
        pass
    return {'w': word}


def tokenise(text):
    """what `for line in fp: line.split()` sees."""
    lines = text.split('\n')
    if lines and lines[-1] == '':
        lines.pop()
    return [[classify(w) for w in ln.split()] for ln in lines]


def render_tok(t):
    if 'w' in t:
        return t['w']
    if 'z' in t:
        return str(t['z'])
    if 'n' in t:
        return repr(float(Fraction(t['n'])))
    k, rest = t['g']
    head = t.get('_head', 'x') if k is None else str(k)
    return '/'.join([head] + list(rest))


def ctok(t):
    """wire token -> canonical comparable form (numbers by value)."""
    if 'z' in t:
        return ('num', Fraction(t['z']))
    if 'n' in t:      # value of the text as a double (the model's 7-digit decimals are exact)
        return ('num', Fraction(float(Fraction(t['n']))))
    if 'g' in t:
        return ('g', t['g'][0], tuple(t['g'][1]))
    c = classify(t['w'])
    return ('w', t['w']) if 'w' in c else ctok(c)


def cfile(f):
    return [[ctok(t) for t in ln] for ln in f]


def file_diff(model, real, tol_lines=None, tol=Fraction(0)):
    """None | (line number, model line, real line).  `tol_lines(first word)` -> numbers of such
    lines are compared within tol."""
    if len(model) != len(real):
        return ('number of lines', len(model), len(real))
    for k, (a, b) in enumerate(zip(model, real)):
        if a == b:
            continue
        loose = tol and len(a) == len(b) and a and a[0][0] == 'w' and tol_lines and \
            tol_lines(a, k)
        if loose and all((x == y) or (x[0] == 'num' and y[0] == 'num' and
                                      abs(x[1] - y[1]) <= tol * max(1, abs(y[1])))
                         for x, y in zip(a, b)):
            continue
        return (k, a, b)
    return None


def show_line(ln):
    out = []
    for t in ln:
        if t[0] == 'num':
            out.append(str(float(t[1])) if t[1].denominator != 1 else str(int(t[1])))
        elif t[0] == 'g':
            out.append('%s/%s' % (t[1], '/'.join(t[2])))
        else:
            out.append(t[1])
    return ' '.join(out)


# ====================================================================== colours, meshes
def col_obj(spec):
    """colour spec [['s','255'] | ['i',255] | ['f',0.5], …] -> the python colour object."""
    out = []
    for kind, v in spec:
        out.append(str(v) if kind == 's' else (int(v) if kind == 'i' else float(v)))
    return tuple(out)


def col_wire(c):
    """python colour object (sequence of str / int / float) -> wire colour."""
    out = []
    for v in c:
        if isinstance(v, str):
            out.append({'s': classify(v)})
        elif isinstance(v, int):
            out.append({'i': v})
        else:
            out.append({'f': W(v)})
    return out


def ccol(wire):
    """wire colour -> canonical."""
    out = []
    for c in wire:
        if 's' in c:
            out.append(('s', ctok(c['s'])))
        elif 'i' in c:
            out.append(('i', c['i']))
        else:
            out.append(('f', Fraction(c['f'])))
    return out


def v3(p):
    return [W(p.x), W(p.y), W(p.z)]


def f3(p):
    return [Fraction(p.x), Fraction(p.y), Fraction(p.z)]


def slot_wire(s, enc):
    if s is None:
        return None
    if isinstance(s, (tuple, list)):
        return {'inr': [enc(x) for x in s]}
    return {'inl': enc(s)}


def build_mesh(inp):
    """input dict -> real Mesh3D with the requested slots seeded."""
    cols = None if inp.get('colors') is None else [col_obj(c) for c in inp['colors']]
    m = Mesh3D([Point3D(*v) for v in inp['verts']], [tuple(f) for f in inp['faces']], cols)
    fn = inp.get('fn')
    if fn == 'read':
        m.face_normals
    elif fn is not None:
        if fn[0] == 'one':
            m._face_normals = Vector3D(*fn[1])
        else:
            m._face_normals = tuple(Vector3D(*v) for v in fn[1])
        fa = inp.get('fa')
        m._face_areas = fa[1] if fa[0] == 'one' else tuple(fa[1])
    vn = inp.get('vn')
    if vn == 'read':
        m.vertex_normals
    elif vn is not None:
        m._vertex_normals = Vector3D(*vn[1]) if vn[0] == 'one' else \
            tuple(Vector3D(*v) for v in vn[1])
    return m


def mesh_wire(m):
    return [[v3(p) for p in m._vertices], [list(f) for f in m._faces],
            None if m._colors is None else [col_wire(c) for c in m._colors],
            bool(m._is_color_by_face),
            slot_wire(m._face_normals, v3), slot_wire(m._face_areas, W),
            slot_wire(m._vertex_normals, v3)]


def mesh_out(m):
    """canonical form of a real Mesh3D result."""
    return [[f3(p) for p in m.vertices], [list(f) for f in m.faces],
            None if m.colors is None else [ccol(col_wire(c)) for c in m.colors],
            bool(m.is_color_by_face)]


def cmesh_out(j):
    """model answer [vertices, faces, colours, by_face] -> canonical."""
    return [[[Fraction(c) for c in p] for p in j[0]], [[int(i) for i in f] for f in j[1]],
            None if j[2] is None else [ccol(c) for c in j[2]], bool(j[3])]


def obj_out(o):
    return [[f3(p) for p in o.vertices], [list(f) for f in o.faces],
            None if o.vertex_texture_map is None else
            [[Fraction(p.x), Fraction(p.y)] for p in o.vertex_texture_map],
            None if o.vertex_normals is None else [f3(p) for p in o.vertex_normals],
            None if o.vertex_colors is None else [ccol(col_wire(c)) for c in o.vertex_colors],
            None if o.material_structure is None else
            [[ctok(classify(mt[0])), int(mt[1])] for mt in o.material_structure]]


def cobj_out(j):
    return [[[Fraction(c) for c in p] for p in j[0]], [[int(i) for i in f] for f in j[1]],
            None if j[2] is None else [[Fraction(c) for c in p] for p in j[2]],
            None if j[3] is None else [[Fraction(c) for c in p] for p in j[3]],
            None if j[4] is None else [ccol(c) for c in j[4]],
            None if j[5] is None else [[ctok(mt[0]), int(mt[1])] for mt in j[5]]]


def res(j, conv):
    """model {"ok": v} | {"err": name} -> ('ok', conv(v)) | ('err', name)."""
    if 'ok' in j:
        return ('ok', conv(j['ok']))
    return ('err', j['err'])


def real_call(f):
    """-> ('ok', value) | ('err', exception class name)."""
    try:
        return ('ok', f())
    except Exception as e:        # the comparison is on the exception class
        return ('err', type(e).__name__)


# ====================================================================== kinds
class _ModelError(Exception):
    pass


def _vals(answers):
    for ok, v in answers:
        if not ok:
            raise _ModelError(str(v)[:300])
    return [v for ok, v in answers]


def _cmp(name, model, real):
    """both ('ok', value) | ('err', name); None when equal."""
    if model == real:
        return None
    if model[0] != real[0]:
        return ('%s: model %s, real %s' % (name, _tag(model), _tag(real)),
                'model %s real %s' % (_short(model), _short(real)))
    if model[0] == 'err':
        return ('%s: different exception' % name, 'model %s real %s' % (model[1], real[1]))
    return ('%s: result differs' % name, 'model %s real %s' % (_short(model[1]), _short(real[1])))


def _tag(r):
    return 'ok' if r[0] == 'ok' else 'raises %s' % r[1]


def _short(x, lim=260):
    def f(v):
        if isinstance(v, Fraction):
            return float(v) if v.denominator != 1 else int(v)
        if isinstance(v, (list, tuple)):
            return [f(a) for a in v]
        return v
    s = repr(f(x))
    return s if len(s) <= lim else s[:lim] + '…'


def _file_cmp(name, model, real, tol_lines=None, tol=Fraction(0)):
    """model: ('ok', canonical file) | ('err', …)."""
    if model[0] != real[0] or model[0] == 'err':
        return _cmp(name, model, real)
    d = file_diff(model[1], real[1], tol_lines, tol)
    if d is None:
        return None
    if d[0] == 'number of lines':
        return ('%s: number of lines differs' % name, 'model %d real %d' % (d[1], d[2]))
    kw = d[2][0][1] if d[2] and d[2][0][0] == 'w' else (d[1][0][1] if d[1] else '?')
    return ('%s: `%s` line differs' % (name, kw), 'line %d: model `%s` real `%s`' % (
        d[0], show_line(d[1]), show_line(d[2])))


_CTR = [0]


def _fresh(prefix):
    _CTR[0] += 1
    return '%s%d' % (prefix, _CTR[0])


class Kind(object):
    def nontrivial(self, inp, real):
        return True

    def size(self, inp):
        return len(inp.get('faces', inp.get('lines', [])))

    def branch(self, inp, real):
        return 'ok'

    def shrink(self, inp):
        out = []
        if 'faces' in inp and len(inp['faces']) > 1 and inp.get('colors') is None and \
                not isinstance(inp.get('fn'), list):
            for j in range(len(inp['faces'])):
                d = dict(inp)
                d['faces'] = inp['faces'][:j] + inp['faces'][j + 1:]
                out.append(d)
        if 'lines' in inp and len(inp['lines']) > 1:
            for j in range(len(inp['lines'])):
                d = dict(inp)
                d['lines'] = inp['lines'][:j] + inp['lines'][j + 1:]
                out.append(d)
        return out


class ObjWrite(Kind):
    """Mesh3D.to_obj, then OBJ.from_file / Mesh3D.from_obj on the written file."""

    def case(self, inp, tmp):
        m = build_mesh(inp)
        wire = mesh_wire(m)
        cold_vn = inp['inn'] and not m._vertex_normals
        name = _fresh('o')
        flags = [inp['ic'], inp['inn'], inp['tri'], inp['mtl']]
        r = real_call(lambda: m.to_obj(tmp, name, *flags))
        real = {'cold_vn': cold_vn, 'write': r, 'byface': bool(m._is_color_by_face)}
        reqs = [('model.obj_write', [wire] + flags + [name + '.mtl']),
                ('model.obj_roundtrip', [wire] + flags)]
        if r[0] == 'ok':
            with open(r[1]) as fp:
                text = fp.read()
            toks = tokenise(text)
            real['write'] = ('ok', cfile(toks))
            real['obj'] = real_call(lambda: obj_out(OBJ.from_file(r[1])))
            real['mesh'] = real_call(lambda: mesh_out(Mesh3D.from_obj(r[1])))
            reqs.append(('model.obj_read', [toks]))
        else:
            real['mesh'] = r
        return reqs, real

    def judge(self, inp, answers, real):
        v = _vals(answers)
        d = _file_cmp('Mesh3D.to_obj', res(v[0], cfile), real['write'],
                      (lambda ln, k: ln[0][1] == 'vn') if real['cold_vn'] else None,
                      Fraction(1, 10 ** 9))
        if d is not None and real['cold_vn'] and '`vn` line' in d[0] and \
                'model `vn 0 0 0`' in d[1]:
            # the area-weighted face normals cancel exactly: the doubles leave a rounding
            # residue that `normalize` blows up to a unit vector (threshold d == 0)
            return 'tie'
        if d is None:
            d = _cmp('from_obj(to_obj(mesh))', res(v[1], cmesh_out), real['mesh'])
        if d is None and len(v) > 2:
            d = _cmp('OBJ.from_file', res(v[2][0], cobj_out), real['obj'])
            if d is None:
                d = _cmp('Mesh3D.from_obj', res(v[2][1], cmesh_out), real['mesh'])
        return None if d is None else (d[0], d[1], None)

    def nontrivial(self, inp, real):
        return real['write'][0] == 'ok' and (inp['tri'] or inp['inn'] or inp['colors'] is not None)

    def branch(self, inp, real):
        if real['write'][0] != 'ok':
            return 'raises ' + real['write'][1]
        c = 'no colours' if inp['colors'] is None else (
            'face colours' if real['byface'] else 'vertex colours')
        return '%s%s%s%s%s' % (c, ' unrolled' if inp['ic'] and real['byface'] else '',
                               ' +vn' if inp['inn'] else '', ' +tri' if inp['tri'] else '',
                               ' +mtl' if inp['mtl'] else '')


class ObjToFile(Kind):
    """OBJ(vertices, faces, vt, vn, colours, materials).to_file and the readers on the file."""

    def case(self, inp, tmp):
        name = _fresh('t')
        vs = [Point3D(*v) for v in inp['verts']]
        fs = [tuple(f) for f in inp['faces']]
        vt = None if inp['vt'] is None else [Point2D(*p) for p in inp['vt']]
        vn = None if inp['vn'] is None else [Vector3D(*p) for p in inp['vn']]
        cs = None if inp['colors'] is None else [col_obj(c) for c in inp['colors']]
        ms = None if inp['mats'] is None else [(mt[0], mt[1]) for mt in inp['mats']]
        wire = [[[W(c) for c in v] for v in inp['verts']], [list(f) for f in fs],
                None if vt is None else [[W(c) for c in p] for p in inp['vt']],
                None if vn is None else [[W(c) for c in p] for p in inp['vn']],
                None if cs is None else [col_wire(c) for c in cs],
                None if ms is None else [[classify(mt[0]), mt[1]] for mt in ms]]
        r = real_call(lambda: OBJ(vs, fs, vt, vn, cs, ms).to_file(tmp, name, inp['tri'], inp['mtl']))
        real = {'write': r}
        reqs = [('model.obj_to_file', [wire, inp['tri'], inp['mtl'], name + '.mtl'])]
        if r[0] == 'ok':
            with open(r[1]) as fp:
                toks = tokenise(fp.read())
            real['write'] = ('ok', cfile(toks))
            real['obj'] = real_call(lambda: obj_out(OBJ.from_file(r[1])))
            real['mesh'] = real_call(lambda: mesh_out(Mesh3D.from_obj(r[1])))
            reqs.append(('model.obj_read', [toks]))
        return reqs, real

    def judge(self, inp, answers, real):
        v = _vals(answers)
        d = _file_cmp('OBJ.to_file', res(v[0], cfile), real['write'])
        if d is None and len(v) > 1:
            d = _cmp('OBJ.from_file', res(v[1][0], cobj_out), real['obj'])
            if d is None:
                d = _cmp('Mesh3D.from_obj', res(v[1][1], cmesh_out), real['mesh'])
        return None if d is None else (d[0], d[1], None)

    def nontrivial(self, inp, real):
        return real['write'][0] == 'ok' and (inp['mats'] is not None or inp['vt'] is not None)

    def branch(self, inp, real):
        if real['write'][0] != 'ok':
            return 'raises ' + real['write'][1]
        nm = 0 if inp['mats'] is None else len(inp['mats'])
        return 'vt=%s vn=%s mats=%s tri=%s' % (inp['vt'] is not None, inp['vn'] is not None,
                                                 '0' if nm == 0 else ('1' if nm == 1 else '2+'),
                                                 inp['tri'])


def render_lines(lines, ws):
    rng = random.Random(ws)
    out = []
    for ln in lines:
        seps = [rng.choice([' ', ' ', ' ', '  ', '\t']) for _ in ln]
        lead = rng.choice(['', '', '', '', ' ', '\t']) if ws else ''
        if ln and 'w' in ln[0] and (ln[0]['w'].startswith('#') or ln[0]['w'].startswith('solid')):
            lead = ''
        s = lead + ''.join(render_tok(t) + sp for t, sp in zip(ln, seps))
        out.append(s.rstrip(' ') if rng.random() < 0.5 else s)
    return '\n'.join(out) + '\n'


def strip_heads(lines):
    return [[dict((k, v) for k, v in t.items() if k != '_head') for t in ln] for ln in lines]


class ObjHand(Kind):
    """OBJ.from_file / Mesh3D.from_obj on hand-written token files."""

    def case(self, inp, tmp):
        path = os.path.join(tmp, _fresh('h') + '.obj')
        text = render_lines(inp['lines'], inp.get('ws', 0))
        with open(path, 'w') as fp:
            fp.write(text)
        toks = tokenise(text)
        real = {'obj': real_call(lambda: obj_out(OBJ.from_file(path))),
                'mesh': real_call(lambda: mesh_out(Mesh3D.from_obj(path))),
                'retok': cfile(toks) == cfile(strip_heads(inp['lines']))}
        return [('model.obj_read', [strip_heads(inp['lines'])])], real

    def judge(self, inp, answers, real):
        if not real['retok']:
            return ('tokeniser', 'rendered text does not tokenise back to the generated tokens',
                    None)
        (v,) = _vals(answers)
        d = _cmp('OBJ.from_file', res(v[0], cobj_out), real['obj'])
        if d is None:
            d = _cmp('Mesh3D.from_obj', res(v[1], cmesh_out), real['mesh'])
        return None if d is None else (d[0], d[1], None)

    def nontrivial(self, inp, real):
        return real['obj'][0] == 'ok'

    def branch(self, inp, real):
        return 'OBJ %s / Mesh3D %s' % (_tag(real['obj']), _tag(real['mesh']))


def near_round_boundary(x):
    """is the double x within 1e-6 (of a unit of the 7th digit) of a '{:.6E}' boundary?"""
    if x == 0:
        return False
    a = abs(Fraction(x))
    e = int(math.floor(math.log10(abs(x))))
    s = a / Fraction(10) ** (e - 6)
    frac = s - math.floor(s)
    return abs(frac - Fraction(1, 2)) < Fraction(1, 10 ** 6)


def stl_out(s):
    return [s.name, [[f3(p) for p in f] for f in s.face_vertices], [f3(n) for n in s.face_normals]]


def cstl_out(j):
    return [j[0], [[[Fraction(c) for c in p] for p in f] for f in j[1]],
            [[Fraction(c) for c in p] for p in j[2]]]


def cmesh2(j):
    return [[[Fraction(c) for c in p] for p in j[0]], [[int(i) for i in f] for f in j[1]]]


class StlWrite(Kind):
    """Mesh3D.to_stl / STL.from_mesh3d(mesh, name).to_file, then the readers on the file."""

    def case(self, inp, tmp):
        m = build_mesh(inp)
        wire = mesh_wire(m)
        cold = m._face_normals is None
        name = inp.get('name')
        if name is None:
            r = real_call(lambda: m.to_stl(tmp, _fresh('s')))
        else:
            r = real_call(lambda: STL.from_mesh3d(m, name).to_file(tmp, _fresh('s')))
        real = {'cold': cold, 'write': r, 'normals': [(n.x, n.y, n.z) for n in m.face_normals]}
        reqs = [('model.stl_write', [wire, 'polyhedron' if name is None else name])]
        if r[0] == 'ok':
            with open(r[1]) as fp:
                toks = tokenise(fp.read())
            real['write'] = ('ok', cfile(toks))
            real['stl'] = real_call(lambda: stl_out(STL.from_file(r[1])))
            real['mesh'] = real_call(lambda: (lambda mm: [[f3(p) for p in mm.vertices],
                                                          [list(f) for f in mm.faces]])(
                Mesh3D.from_stl(r[1])))
            reqs.append(('model.stl_read', [{'text': toks}]))
        return reqs, real

    def judge(self, inp, answers, real):
        v = _vals(answers)
        model = res(v[0], cfile)
        d = _file_cmp('Mesh3D.to_stl', model, real['write'])
        if d is not None and real['cold'] and model[0] == 'ok' and real['write'][0] == 'ok':
            d2 = _file_cmp('Mesh3D.to_stl', model, real['write'],
                           lambda ln, k: ln[0][1] == 'facet', Fraction(2, 10 ** 6))
            if d2 is None and any(near_round_boundary(c) for n in real['normals'] for c in n):
                return 'tie'
        if d is None and len(v) > 1:
            d = _cmp('STL.from_file', res(v[1][0], cstl_out), real['stl'])
            if d is None:
                d = _cmp('Mesh3D.from_stl', res(v[1][1], cmesh2), real['mesh'])
        return None if d is None else (d[0], d[1], None)

    def nontrivial(self, inp, real):
        return real['write'][0] == 'ok' and any(len(f) == 4 for f in inp['faces'])

    def branch(self, inp, real):
        if real['write'][0] != 'ok':
            return 'raises ' + real['write'][1]
        k = set(len(f) for f in inp['faces'])
        return '%s normals %s' % ('tri+quad' if len(k) == 2 else ('quads' if 4 in k else 'tris'),
                                  'cold' if real['cold'] else 'warm')


class StlHand(Kind):
    """STL.from_file / Mesh3D.from_stl on hand-written ASCII files and on binary files."""

    def case(self, inp, tmp):
        path = os.path.join(tmp, _fresh('g') + '.stl')
        if 'lines' in inp:
            text = render_lines(inp['lines'], inp.get('ws', 0))
            with open(path, 'w') as fp:
                fp.write(text)
            wire = {'text': strip_heads(inp['lines'])}
            retok = cfile(tokenise(text)) == cfile(wire['text'])
        else:
            data = inp['header'].encode('ascii').ljust(80, b' ') + struct.pack('I', inp['count'])
            for k, r in enumerate(inp['records']):
                data += b''.join(struct.pack('f', x) for x in r)
                if len(r) == 12 and not (k == len(inp['records']) - 1 and inp.get('no_attr')):
                    data += b'\x00\x00'
            data += b'\x01' * inp.get('tail_bytes', 0)
            with open(path, 'wb') as fp:
                fp.write(data)
            wire = {'binary': [inp['header'].strip(), [[W(x) for x in r] for r in inp['records']]]}
            retok = True
        real = {'stl': real_call(lambda: stl_out(STL.from_file(path))),
                'mesh': real_call(lambda: (lambda mm: [[f3(p) for p in mm.vertices],
                                                       [list(f) for f in mm.faces]])(
                    Mesh3D.from_stl(path))), 'retok': retok}
        return [('model.stl_read', [wire])], real

    def judge(self, inp, answers, real):
        if not real['retok']:
            return ('tokeniser', 'rendered text does not tokenise back', None)
        (v,) = _vals(answers)
        d = _cmp('STL.from_file', res(v[0], cstl_out), real['stl'])
        if d is None:
            d = _cmp('Mesh3D.from_stl', res(v[1], cmesh2), real['mesh'])
        return None if d is None else (d[0], d[1], None)

    def size(self, inp):
        return len(inp.get('lines', inp.get('records', [])))

    def nontrivial(self, inp, real):
        return real['stl'][0] == 'ok' and len(real['stl'][1][1]) > 0

    def branch(self, inp, real):
        return '%s: STL %s / Mesh3D %s' % ('text' if 'lines' in inp else 'binary',
                                           _tag(real['stl']), _tag(real['mesh']))

    def shrink(self, inp):
        if 'lines' in inp:
            return [dict(inp, lines=inp['lines'][:j] + inp['lines'][j + 1:])
                    for j in range(1, len(inp['lines']))]
        return [dict(inp, records=inp['records'][:j] + inp['records'][j + 1:])
                for j in range(len(inp['records']))]


class Triangulated(Kind):
    def case(self, inp, tmp):
        m = Mesh2D([Point2D(*v) for v in inp['verts']], [tuple(f) for f in inp['faces']],
                   inp['colors'])
        tie = quad_tie(m) if quad_tie is not None else False
        r = real_call(lambda: (lambda t: [[list(f) for f in t.faces],
                                          None if t.colors is None else list(t.colors),
                                          bool(t.is_color_by_face),
                                          [[Fraction(p.x), Fraction(p.y)] for p in t.vertices]])(
            m.triangulated()))
        return [('model.triangulated', [[[W(c) for c in v] for v in inp['verts']],
                                        [list(f) for f in inp['faces']], inp['colors'],
                                        bool(m.is_color_by_face)])], {'tri': r, 'tie': tie}

    def judge(self, inp, answers, real):
        if real['tie']:
            return 'tie'
        (v,) = _vals(answers)
        model = res(v, lambda j: [[[int(i) for i in f] for f in j[0]],
                                  None if j[1] is None else [int(c) for c in j[1]], bool(j[2])])
        r = real['tri']
        if r[0] == 'ok':
            if r[1][3] != [[Fraction(c) for c in p] for p in inp['verts']]:
                return ('Mesh2D.triangulated: vertices changed', '', None)
            r = ('ok', r[1][:3])
        d = _cmp('Mesh2D.triangulated', model, r)
        return None if d is None else (d[0], d[1], None)

    def nontrivial(self, inp, real):
        return any(len(f) == 4 for f in inp['faces']) and inp['colors'] is not None

    def branch(self, inp, real):
        c = 'no colours' if inp['colors'] is None else (
            'colours by face' if len(inp['colors']) == len(inp['faces']) else 'colours by vertex')
        return '%s, %s' % (c, 'quads' if any(len(f) == 4 for f in inp['faces']) else 'tris only')

    def shrink(self, inp):
        return []


class Sig7(Kind):
    def case(self, inp, tmp):
        x = float.fromhex(inp['x'])
        return [('model.sig7', [W(x)])], Fraction(float('{:.6E}'.format(x)))

    def judge(self, inp, answers, real):
        (v,) = _vals(answers)
        if Fraction(float(Fraction(v))) == real:      # float(text): nearest double
            return None
        return ('sig7 differs', 'x=%s model %s real %s' % (inp['x'], float(Fraction(v)),
                                                           float(real)), None)

    def size(self, inp):
        return 1

    def shrink(self, inp):
        return []

    def branch(self, inp, real):
        return 'sig7'


KINDS = {'obj_write': ObjWrite(), 'obj_to_file': ObjToFile(), 'obj_hand': ObjHand(),
         'stl_write': StlWrite(), 'stl_hand': StlHand(), 'triangulated': Triangulated(),
         'sig7': Sig7()}


# ====================================================================== generators
def tok_lines(text):
    """hand-written text -> wire token lines (the head text of a group whose head is not an
    integer is kept for re-rendering)."""
    out = []
    for ln in text.split('\n'):
        toks = []
        for w in ln.split():
            t = classify(w)
            if 'g' in t and t['g'][0] is None:
                t['_head'] = w.split('/')[0]
            toks.append(t)
        out.append(toks)
    return out


OBJ_FIXED = [
    # every keyword, the four index forms, comment, blank line, unknown keyword
    '# c\n\nmtllib a.mtl\nv 0 0 0\nv 1.5 0 0\nv 1.5 2 0.25\nv 0 2 0\nvt 0 0\nvt 1 0\nvt 1 1\nvt 0 1\n'
    'vn 0 0 1\nvn 0 0 1\nvn 0 0 1\nvn 0 0 1\nusemtl m1\nf 1/1/1 2/2/2 3/3/3\ns off\ng grp\n'
    'usemtl m2\nf 1//1 3//3 4//4\nf 1/1 2/2 3/3 4/4\nf 1 2 3 4',
    'v 0 0 0 255 0 0\nv 1 0 0 0 255 0\nv 0 1 0 0 0 255\nf 1 2 3',          # vertex colours
    'v 0 0 0 0.5\nv 1 0 0 0.25\nv 0 1 0 1\nf 1 2 3',                        # grayscale
    'v 0 0 0 # a b\nv 1 0 0 # c d\nv 0 1 0 # e f\nf 1 2 3',                  # "comment" = colour
    'v 0 0 0 255 0 0\nv 1 0 0\nv 0 1 0\nf 1 2 3',                            # ValueError colours
    'v 0 0 0\nv 1 0 0\nv 0 1 0\nf -1 -2 -3',                                 # relative indices
    'v 0 0 0\nv 1 0 0\nv 0 1 0\nf 0 1 2',                                    # index 0 -> -1
    'v 0 0 0\nv 1 0 0\nv 0 1 0\nf 1 2 4',                                    # IndexError
    'v 0 0 0\nv 1 0 0\nv 0 1 0\nf 1 2 -4',                                   # IndexError (-5)
    'v 0 0 0\nv 1 0 0\nv 0 1 0\nf 1 2 -3',
    'v 0 0 0\nv 1 0 0\nv 0 1 0\nv 1 1 0\nv 2 2 0\nv 3 3 1\nf 1 2 3 4 5 6',   # truncated to 4
    'v 0 0 0\nv 1 0 0\nv 0 1 0\nf 1 2',                                      # AssertionError
    'v 0 0 0\nv 1 0 0\nv 0 1 0\nf',                                          # AssertionError
    'v 0 0 0\nv 1 0 0\nv 0 1 0',                                             # no face
    '',                                                                      # empty file
    'v 0 0\nf 1 1 1',                                                        # IndexError wds[3]
    'v\nf 1 1 1',
    'v 0 a 0\nf 1 1 1',                                                      # ValueError
    'v 0 1/2 0\nf 1 1 1',                                                    # ValueError
    'v 0 0 0\nv 1 0 0\nv 0 1 0\nf 1 2 3.0',                                  # ValueError int()
    'v 0 0 0\nv 1 0 0\nv 0 1 0\nf 1 2 x/3',                                  # ValueError int('x')
    'v 0 0 0\nv 1 0 0\nv 0 1 0\nf 1 2 /3',                                   # ValueError int('')
    'v 0 0 0\nv 1 0 0\nv 0 1 0\nf 1 2 1.5/3',
    'v 0 0 0\nv 1 0 0\nv 0 1 0\nf 1/x 2/y/z 3/',                             # garbage after /
    'v 0 0 0\nv 1 0 0\nv 0 1 0\nf 1 2 abc',
    'v 0 0 0\nv 1 0 0\nv 0 1 0\nvt 0 0\nf 1 2 3',                            # ValueError vt count
    'v 0 0 0\nv 1 0 0\nv 0 1 0\nvn 0 0 1\nf 1 2 3',                          # ValueError vn count
    'v 0 0 0\nv 1 0 0\nv 0 1 0\nvt 0\nf 1 2 3',                              # IndexError
    'v 0 0 0\nv 1 0 0\nv 0 1 0\nvn 0 0\nf 1 2 3',
    'v 0 0 0\nv 1 0 0\nv 0 1 0\nvn 0 0 z\nf 1 2 3',
    'v 0 0 0\nv 1 0 0\nv 0 1 0\nusemtl\nf 1 2 3',                            # IndexError wds[1]
    'v 0 0 0\nv 1 0 0\nv 0 1 0\nf 1 2 3\nusemtl late',                       # IndexError material
    'v 0 0 0\nv 1 0 0\nv 0 1 0\nusemtl b\nusemtl a\nf 1 2 3\nusemtl c\nf 3 2 1',
    'v 0 0 0\nv 1 0 0\nv 0 1 0\nf 1 2 3\nf 1 2 3\nf 3 2 1',                  # nf == nv: colours by face
    'v 0 0 0 9 9 9\nv 1 0 0 8 8 8\nv 0 1 0 7 7 7\nf 1 2 3\nf 1 2 3\nf 3 2 1',
    '#v 0 0 0\nv 0 0 0\nv 1 0 0\nv 0 1 0\n#f 1 2 3\nf 3 2 1\n # v 5 5 5\n1 2 3\nV 1 1 1\nF 1 2 3',
    'v 1e2 -2.5e-1 3.\nv .5 1 1\nv 1 1 -0.0\nf 1 2 3',                       # float literal forms
    'v 0 0 0\nv 1 0 0\nv 0 1 0\nv 1 1 0\nf 1 2 3 4\nvt 0 0\nvt 1 0\nvt 1 1\nvt 0 1 0.5',
]

STL_FIXED = [
    'solid p\n facet normal 0 0 1\n  outer loop\n   vertex 0 0 0\n   vertex 1 0 0\n   vertex 0 1 0\n'
    '  endloop\n endfacet\nendsolid p',
    'solid\nfacet normal 0 0 1\nouter loop\nvertex 0 0 0\nvertex 1 0 0\nvertex 0 1 0\nendloop\n'
    'endfacet\nendsolid',                                                    # default name
    'solid a b c\nendsolid a b c',                                           # no facet: empty STL
    'solid p\nvertex 0 0 0',                                                 # UnboundLocalError
    'solid p\nendloop',                                                      # UnboundLocalError
    'solid p\nfacet normal 0 0 1\nendloop',                                  # AssertionError len 0
    'solid p\nfacet normal 0 0 1\nvertex 0 0 0\nvertex 1 0 0\nendloop',      # AssertionError len 2
    'solid p\nfacet normal 0 0 1\nvertex 0 0 0\nvertex 1 0 0\nvertex 0 1 0\nendloop\nvertex 2 2 2\n'
    'endloop',                                                               # second loop: 4
    'solid p\nfacet normal 0 0 1\nfacet normal 0 0 1\nvertex 0 0 0\nvertex 1 0 0\nvertex 0 1 0\n'
    'endloop',                                                               # normals != faces
    'solid p\nfacet normal 0 0\nvertex 0 0 0',                               # IndexError
    'solid p\nfacet 0 0 1\nvertex 0 0 0',                                    # IndexError words[4]
    'solid p\nfacet normal 0 x 1\nvertex 0 0 0',                             # ValueError
    'solid p\nfacet normal 0 0 1\nvertex 0 0',                               # IndexError
    'solid p\nfacet normal 0 0 1\nvertex 0 0 1/2',                           # ValueError
    'solid a,b\nendsolid',                                                   # illegal name
    'solid a;b\nendsolid',
    'solid a!\nendsolid',
    'solid ' + 'x' * 81 + '\nendsolid',
    'solid ' + 'x' * 80 + '\nendsolid',
    'solid 12\nendsolid 12',
    'solidus q\nfacet normal 1 0 0\nvertex 0 0 0\nvertex 0 0 0\nvertex 0 0 0\nendloop',
    'solid p\n\nfoo bar\nouter loop\nendfacet\nFACET normal 0 0 1\nsolid q r\nfacet normal 1e0 -0.5 2.\n'
    'vertex 1 1 1\nvertex 1 1 1\nvertex 2 1 1\nendloop\nendsolid zzz',
]


def dy(rng, big=False):
    if big:
        return rng.randint(-79999, 79999) / 8.0
    return rng.randint(-40, 40) / 8.0


def f32(x):
    return struct.unpack('f', struct.pack('f', x))[0]


def rand_vec(rng):
    return [dy(rng), dy(rng), dy(rng)]


def rand_color(rng, style):
    if style == 'color4':
        return [['i', rng.randint(0, 255)] for _ in range(4)]
    if style == 'str3':
        return [['s', str(rng.randint(0, 255))] for _ in range(3)]
    if style == 'strw':
        return [['s', rng.choice(['red', 'a/b', '0.5', '#x', '7'])] for _ in range(rng.randint(1, 3))]
    if style == 'int3':
        return [['i', rng.randint(0, 255)] for _ in range(3)]
    if style == 'flt4':
        return [['f', rng.randint(0, 8) / 8.0] for _ in range(4)]
    if style == 'mix5':
        return [rng.choice([['i', rng.randint(0, 9)], ['s', 'k%d' % rng.randint(0, 9)],
                            ['f', rng.randint(0, 80) / 16.0]]) for _ in range(5)]
    raise ValueError(style)


def rand_mesh(rng, real_valued=False):
    nv = rng.randint(3, 10)
    big = rng.random() < 0.2
    verts = []
    for _ in range(nv):
        if verts and rng.random() < 0.12:
            verts.append(list(rng.choice(verts)))             # duplicate point (welding)
        elif real_valued:
            verts.append([rng.uniform(-100, 100) * 10 ** rng.randint(-6, 6) for _ in range(3)])
        else:
            verts.append([dy(rng, big), dy(rng, big), dy(rng, big)])
    shape = rng.choice(['tri', 'quad', 'mixed', 'mixed'])
    nf = rng.randint(1, 7)
    faces = []
    for _ in range(nf):
        k = 3 if shape == 'tri' else (4 if shape == 'quad' else rng.choice([3, 4]))
        if nv >= k and rng.random() < 0.93:
            f = rng.sample(range(nv), k)
        else:
            f = [rng.randrange(nv) for _ in range(k)]        # repeated index: degenerate face
        if rng.random() < 0.1:
            f = [i - nv if rng.random() < 0.5 else i for i in f]   # negative (valid) indices
        faces.append(f)
    inp = {'verts': verts, 'faces': faces, 'colors': None, 'fn': None, 'fa': None, 'vn': None}
    cm = rng.choice(['none', 'none', 'face', 'face', 'vertex', 'vertex'])
    if cm != 'none':
        style = rng.choice(['color4'] * 5 + ['str3'] * 3 + ['strw', 'int3', 'flt4', 'mix5'])
        n = nf if cm == 'face' else nv
        cols = [rand_color(rng, style) for _ in range(n)]
        if rng.random() < 0.06 and n > 1:
            cols[-1] = cols[-1][:2]                           # a short colour after the first
        if rng.random() < 0.04:
            cols[0] = []
        inp['colors'] = cols
    k = rng.random()
    if k < 0.25:
        inp['fn'] = 'read'
    elif k < 0.4:
        inp['fn'] = ['one', rand_vec(rng)]
        inp['fa'] = ['one', rng.randint(1, 64) / 8.0]
    elif k < 0.55:
        inp['fn'] = ['each', [rand_vec(rng) for _ in faces]]
        inp['fa'] = rng.choice([['one', rng.randint(1, 64) / 8.0],
                                ['each', [rng.randint(1, 64) / 8.0 for _ in faces]]])
    k = rng.random()
    if k < 0.2:
        inp['vn'] = 'read'
    elif k < 0.3:
        inp['vn'] = ['one', rand_vec(rng)]
    elif k < 0.45:
        inp['vn'] = ['each', [rand_vec(rng) for _ in verts]]
    if real_valued:
        # cross products of arbitrary doubles are rounded (cancellation): the normals the
        # library computes are cached first, so the model gets the doubles the writer prints
        if inp['fn'] is None:
            inp['fn'] = 'read'
        if inp['vn'] is None:
            inp['vn'] = 'read'
    return inp


def rand_objobj(rng):
    nv = rng.randint(3, 8)
    verts = [[dy(rng), dy(rng), dy(rng)] for _ in range(nv)]
    nf = rng.randint(1, 7)
    faces = []
    for _ in range(nf):
        k = rng.choice([3, 3, 4, 4, 5, 6]) if rng.random() < 0.97 else 2
        faces.append([rng.randrange(nv) if rng.random() < 0.98 else nv for _ in range(k)])
    def cnt():
        r = rng.random()
        return nv if r < 0.9 else (0 if r < 0.95 else nv + 1)
    inp = {'verts': verts, 'faces': faces, 'vt': None, 'vn': None, 'colors': None, 'mats': None,
           'tri': rng.random() < 0.5, 'mtl': rng.random() < 0.3}
    if rng.random() < 0.5:
        inp['vt'] = [[rng.randint(0, 8) / 8.0, rng.randint(0, 8) / 8.0] for _ in range(cnt())]
    if rng.random() < 0.5:
        inp['vn'] = [rand_vec(rng) for _ in range(cnt())]
    if rng.random() < 0.4:
        style = rng.choice(['color4', 'str3', 'str3', 'int3'])
        inp['colors'] = [rand_color(rng, style) for _ in range(cnt())]
    if rng.random() < 0.7:
        nm = rng.choice([0, 1, 1, 2, 3, 4])
        inp['mats'] = [['m%d' % rng.randint(0, 5), rng.randint(0, nf - 1) if rng.random() < 0.97
                        else nf] for _ in range(nm)]
    return inp


def rand_obj_hand(rng):
    nv = rng.randint(3, 7)
    err = rng.random() < 0.35
    form = rng.choice(['a', 'a/b', 'a//c', 'a/b/c', 'mixed'])
    with_col = rng.random() < 0.3
    lines = []

    def num():
        r = rng.random()
        if r < 0.5:
            return str(rng.randint(-9, 9))
        if r < 0.9:
            return repr(rng.randint(-80, 80) / 8.0)
        return repr(rng.uniform(-1e3, 1e3))

    def bad(s, p=0.04):
        if err and rng.random() < p:
            return rng.choice(['abc', '1/2', '', 'v'])
        return s

    for i in range(nv):
        ws = ['v', bad(num()), bad(num()), bad(num())]
        if with_col and not (err and rng.random() < 0.1):
            ws += [str(rng.randint(0, 255)) for _ in range(rng.choice([3, 3, 3, 1, 4]))]
        lines.append(' '.join(w for w in ws if w != ''))
        if rng.random() < 0.1:
            lines.append(rng.choice(['', '# comment v 1 2 3', 'o obj', 's 1', '   ', '#']))
    if form in ('a/b', 'a/b/c', 'mixed') or rng.random() < 0.1:
        for i in range(nv if not (err and rng.random() < 0.2) else nv - 1):
            lines.append('vt %s %s' % (bad(num()), bad(num())))
    if form in ('a//c', 'a/b/c', 'mixed') or rng.random() < 0.1:
        for i in range(nv if not (err and rng.random() < 0.2) else nv + 1):
            lines.append('vn %s %s %s' % (bad(num()), bad(num()), bad(num())))
    nf = rng.randint(0 if err else 1, 6)
    for j in range(nf):
        if rng.random() < 0.25:
            lines.append('usemtl ' + bad('mat%d' % rng.randint(0, 3), 0.1))
        k = rng.choice([3, 3, 4, 4, 5]) if not (err and rng.random() < 0.1) else rng.randint(0, 2)
        ws = ['f']
        for _ in range(k):
            a = rng.randint(1, nv)
            if rng.random() < 0.1:
                a = -rng.randint(1, nv - 1) if rng.random() < 0.7 else 0
            if err and rng.random() < 0.05:
                a = rng.choice([nv + 1, -nv, -nv - 1])
            fm = form if form != 'mixed' else rng.choice(['a', 'a/b', 'a//c', 'a/b/c'])
            w = {'a': '%d', 'a/b': '%d/%d', 'a//c': '%d//%d', 'a/b/c': '%d/%d/%d'}[fm]
            w = w % ((a,) * w.count('%d'))
            if err and rng.random() < 0.04:
                w = rng.choice(['1.0', 'x', '/1', 'a/1', '2.5/1/1'])
            ws.append(w)
        lines.append(' '.join(ws))
    if err and rng.random() < 0.15:
        lines.append('usemtl tail')
    return {'lines': tok_lines('\n'.join(lines)), 'ws': rng.randint(0, 10 ** 6)}


def rand_stl_hand(rng):
    err = rng.random() < 0.4
    lines = [rng.choice(['solid p', 'solid', 'solid my mesh', 'solid p_1'])]

    def num():
        r = rng.random()
        if r < 0.4:
            return str(rng.randint(-9, 9))
        if r < 0.8:
            return repr(rng.randint(-80, 80) / 8.0)
        return '{:.6E}'.format(rng.uniform(-1e3, 1e3))

    def bad(s, p=0.03):
        if err and rng.random() < p:
            return rng.choice(['abc', '1/2', ''])
        return s

    for _ in range(rng.randint(0, 5)):
        if not (err and rng.random() < 0.08):
            lines.append(' '.join(w for w in ['facet', 'normal', bad(num()), bad(num()), bad(num())]
                                  if w != ''))
        lines.append('outer loop')
        for _ in range(3 if not (err and rng.random() < 0.1) else rng.choice([2, 4])):
            lines.append(' '.join(w for w in ['vertex', bad(num()), bad(num()), bad(num())]
                                  if w != ''))
        if not (err and rng.random() < 0.05):
            lines.append('endloop')
        if err and rng.random() < 0.05:
            lines.append('endloop')
        lines.append('endfacet')
        if rng.random() < 0.1:
            lines.append(rng.choice(['', 'color 1 0 0', '  ']))
    lines.append('endsolid')
    return {'lines': tok_lines('\n'.join(lines)), 'ws': rng.randint(0, 10 ** 6)}


def rand_stl_bin(rng):
    n = rng.randint(0, 5)
    recs = [[f32(rng.choice([dy(rng), rng.uniform(-1e3, 1e3)])) for _ in range(12)]
            for _ in range(n)]
    inp = {'header': rng.choice(['binary stl', 'x', '', ' padded ', 'a,b', 'Solid up', 'n' * 80]),
           'count': rng.choice([n, 0, 7]), 'records': recs}
    r = rng.random()
    if r < 0.25:
        recs.append([f32(dy(rng)) for _ in range(rng.randint(1, 11))])     # truncated tail
        inp['tail_bytes'] = rng.randint(0, 3)
    elif r < 0.4 and n:
        inp['no_attr'] = True
    elif r < 0.5:
        inp['tail_bytes'] = rng.randint(1, 3)
    return inp


def rand_mesh2d(rng):
    quads = []
    verts = []
    faces = []
    for _ in range(rng.randint(1, 5)):
        base = len(verts)
        ox, oy = dy(rng), dy(rng)
        kind = rng.choice(['convex', 'concave', 'tri', 'random'])
        if kind == 'tri':
            pts = [(0, 0), (2, 0), (0.5, 1.5)]
        elif kind == 'convex':
            pts = [(0, 0), (2 + rng.randint(0, 8) / 8.0, 0.25), (2.5, 2), (-0.25, 1.5)]
        elif kind == 'concave':
            pts = [(0, 0), (4, 0), (1 + rng.randint(-2, 2) / 8.0, 1 + rng.randint(-2, 2) / 8.0), (0, 4)]
            s = rng.randrange(4)
            pts = pts[s:] + pts[:s]
        else:
            pts = [(dy(rng), dy(rng)) for _ in range(4)]
        if rng.random() < 0.4:
            pts = pts[::-1]
        verts.extend([[x + ox, y + oy] for x, y in pts])
        faces.append(list(range(base, base + len(pts))))
    cm = rng.choice(['none', 'face', 'face', 'vertex', 'vertex'])
    colors = None
    if cm == 'face':
        colors = [rng.randint(0, 99) for _ in faces]
    elif cm == 'vertex':
        colors = [rng.randint(100, 199) for _ in verts]
    return {'verts': verts, 'faces': faces, 'colors': colors}


def gen(E, seed):
    # ------------------------------------------------------------ fixed corpus
    for t in OBJ_FIXED:
        E.add('obj_hand', {'lines': tok_lines(t), 'ws': 0}, 'fixed')
    for t in STL_FIXED:
        E.add('stl_hand', {'lines': tok_lines(t), 'ws': 0}, 'fixed')
    tetra = {'verts': [[0.0, 0.0, 0.0], [1.0, 0.0, 0.0], [0.0, 1.0, 0.0], [0.0, 0.0, 1.0]],
             'faces': [[0, 2, 1], [0, 1, 3], [1, 2, 3], [2, 0, 3]], 'colors': None, 'fn': None,
             'fa': None, 'vn': None}
    box = {'verts': [[0.0, 0.0, 0.0], [2.0, 0.0, 0.0], [2.0, 1.5, 0.0], [0.0, 1.5, 0.0],
                     [0.0, 0.0, 0.25], [2.0, 0.0, 0.25]],
           'faces': [[0, 1, 2, 3], [0, 1, 5, 4], [3, 2, 1], [-1, -2, 0]], 'colors': None,
           'fn': None, 'fa': None, 'vn': None}
    c4 = lambda k: [['i', 10 * k], ['i', 20], ['i', 30], ['i', 255]]
    for base in (tetra, box):
        nf, nv = len(base['faces']), len(base['verts'])
        for cols in (None, [c4(k) for k in range(nf)], [c4(k) for k in range(nv)] if nv != nf
                     else [[['s', '1'], ['s', '2'], ['s', '3']] for k in range(nv)]):
            for ic in (True, False):
                for inn in (True, False):
                    for tri in (True, False):
                        E.add('obj_write', dict(base, colors=cols, ic=ic, inn=inn, tri=tri,
                                                mtl=(ic and tri)), 'fixed')
            E.add('stl_write', dict(base, colors=cols, name=None), 'fixed')
    for nm in ('polyhedron', 'a-b', 'bad,name', 'x' * 81, 'x' * 80, 'semi;colon', 'uü', '',
               'bang!'):
        E.add('stl_write', dict(box, name=nm), 'fixed')
    E.add('stl_write', dict(box, fn=['one', [0.0, 0.0, 1.0]], fa=['one', 1.0], name=None), 'fixed')
    E.add('obj_to_file', {'verts': box['verts'], 'faces': [[0, 1, 2, 3], [0, 1, 5, 4], [3, 2, 1],
                                                           [0, 1, 2, 3, 4, 5]],
                          'vt': [[0.0, 0.0]] * 6, 'vn': [[0.0, 0.0, 1.0]] * 6, 'colors': None,
                          'mats': [['b', 2], ['a', 0], ['c', 2]], 'tri': True, 'mtl': True},
          'fixed')
    E.add('obj_to_file', {'verts': box['verts'], 'faces': [[0, 1, 2, 3], [3, 2, 1]], 'vt': None,
                          'vn': None, 'colors': None, 'mats': [['only', 1]], 'tri': True,
                          'mtl': False}, 'fixed')
    for hdr in ('binary stl', '', 'a,b'):
        E.add('stl_hand', {'header': hdr, 'count': 1, 'records': [[float(i) for i in range(12)]]},
              'fixed')
    E.add('stl_hand', {'header': 'b', 'count': 2, 'records': [[float(i) for i in range(12)],
                                                               [1.0, 2.0, 3.0, 4.0]],
                       'tail_bytes': 2}, 'fixed')
    sq = {'verts': [[0.0, 0.0], [1.0, 0.0], [2.0, 0.0], [0.0, 1.0], [1.0, 1.0], [2.0, 1.0],
                    [0.0, 2.0], [1.0, 2.0], [2.0, 2.0], [0.0, 3.0], [1.0, 3.0], [2.0, 3.0]],
          'faces': [[0, 1, 4, 3], [1, 2, 5, 4], [3, 4, 7, 6], [4, 5, 8, 7], [6, 7, 10, 9],
                    [7, 8, 11, 10]]}
    E.add('triangulated', dict(sq, colors=list(range(12))), 'fixed')   # 12 vertices -> 12 faces
    E.add('triangulated', dict(sq, colors=list(range(6))), 'fixed')
    E.add('triangulated', dict(sq, colors=None), 'fixed')
    for x in (0.0, -0.0, 1234567.5, 1234568.5, 9999999.5, 0.1, 1e-300, 5e-324, 1.7e308, 0.5,
              -1234.125, 99999995.0, 1.0000005):
        E.add('sig7', {'x': float(x).hex()}, 'fixed')
    # ------------------------------------------------------------ random
    RM = random.Random('%s/corr.interop/mesh' % seed)
    RO = random.Random('%s/corr.interop/objobj' % seed)
    RH = random.Random('%s/corr.interop/objhand' % seed)
    RS = random.Random('%s/corr.interop/stl' % seed)
    RT = random.Random('%s/corr.interop/tri' % seed)
    RX = random.Random('%s/corr.interop/sig7' % seed)
    scale = 12 if E.thorough else 1
    for k in range(260 * scale):
        if not E.more():
            break
        real_valued = k % 5 == 4
        stream = 'real-valued coordinates' if real_valued else 'dyadic coordinates'
        inp = rand_mesh(RM, real_valued)
        E.add('obj_write', dict(inp, ic=RM.random() < 0.7, inn=RM.random() < 0.5,
                                tri=RM.random() < 0.4, mtl=RM.random() < 0.2), stream)
        inp = rand_mesh(RS, real_valued)
        E.add('stl_write', dict(inp, name=None if RS.random() < 0.8 else
                                RS.choice(['part_7', 'a,b', 'ok-name', 'q' * 81])), stream)
        E.add('obj_hand', rand_obj_hand(RH), 'random file')
        if k % 2 == 0:
            E.add('obj_to_file', rand_objobj(RO), 'random OBJ')
            E.add('stl_hand', rand_stl_hand(RS), 'random text file')
            E.add('triangulated', rand_mesh2d(RT), 'random mesh')
        if k % 4 == 1:
            E.add('stl_hand', rand_stl_bin(RS), 'random binary file')
        for _ in range(3):
            r = RX.random()
            if r < 0.5:
                x = RX.uniform(-1, 1) * 10 ** RX.randint(-12, 12)
            elif r < 0.8:
                x = (RX.randint(10 ** 6, 10 ** 7 - 1) + 0.5) * 10.0 ** RX.randint(-3, 3)
            else:
                x = RX.randint(-10 ** 9, 10 ** 9) / 8.0
            E.add('sig7', {'x': float(x).hex()}, 'random doubles')


# ====================================================================== engine
RULE = ('one comparison = one input of a kind: obj_write (Mesh3D.to_obj token lines + '
        'OBJ.from_file + Mesh3D.from_obj on the written file + the model round trip), '
        'obj_to_file (OBJ(...).to_file + readers), obj_hand (readers on a hand-written file), '
        'stl_write (to_stl token lines + STL.from_file + Mesh3D.from_stl), stl_hand (text / '
        'binary readers), triangulated, sig7.  non-trivial = a written file with colours / '
        'normals / triangulation; a texture map or materials; a hand-written file that parses; '
        'a mesh with a quad; a non-empty STL; a coloured mesh with a quad')


class _Engine(object):
    def __init__(self, ctx, tmp):
        self.ctx, self.tmp = ctx, tmp
        self.t0 = time.time()
        self.thorough = ctx.tier == 'thorough' or bool(getattr(ctx, 'broken', None))
        budget = THOROUGH_BUDGET if self.thorough else QUICK_BUDGET
        self.t_end = min(getattr(ctx, 'deadline', self.t0 + budget), self.t0 + budget)
        self.t_gen = self.t0 + 0.3 * max(0.0, self.t_end - self.t0)
        self.cases = []
        self.dis = {}
        self.hist = {'kind': {}, 'stream': {}, 'branch': {}, 'outcome': {}}
        self.requests = self.comparisons = self.nontrivial = self.ties = 0
        self.samples = []

    def more(self):
        return time.time() < self.t_gen

    def count(self, h, k):
        self.hist.setdefault(h, {})
        self.hist[h][k] = self.hist[h].get(k, 0) + 1

    def record(self, kind, inp, cls, detail, reqs):
        sig = '%s|%s' % (kind, cls)
        d = {'signature': sig, 'what': ('%s: %s' % (sig, detail))[:700],
             'op': reqs[0][0] if reqs else None, 'args': reqs[0][1] if reqs else None,
             'model': None, 'real': None, 'seed': self.ctx.seed, 'kind': kind, 'input': inp}
        old = self.dis.get(sig)
        if old is None or KINDS[kind].size(inp) < KINDS[old['kind']].size(old['input']):
            self.dis[sig] = d
        return d

    def add(self, kind, inp, stream='-'):
        try:
            reqs, real = KINDS[kind].case(inp, self.tmp)
        except Exception as e:
            self.comparisons += 1
            self.count('kind', kind)
            self.count('outcome', 'raises ' + type(e).__name__)
            self.record(kind, inp, 'raises %s' % type(e).__name__, str(e)[:200], [])
            return
        self.cases.append((kind, inp, stream, reqs, real))

    def evaluate(self, cases):
        flat = [r for c in cases for r in c[3]]
        ans = []
        for s in range(0, len(flat), BATCH):
            ans.extend(self.ctx.driver.run(flat[s:s + BATCH]))
        out, pos = [], 0
        for (kind, inp, stream, reqs, real) in cases:
            a = ans[pos:pos + len(reqs)]
            pos += len(reqs)
            try:
                out.append(KINDS[kind].judge(inp, a, real))
            except _ModelError as e:
                out.append(('model error', str(e), None))
            except Exception as e:
                out.append(('judge crashed %s' % type(e).__name__, str(e)[:200], None))
        return out

    def run(self):
        verdicts = self.evaluate(self.cases)
        for (kind, inp, stream, reqs, real), v in zip(self.cases, verdicts):
            k = KINDS[kind]
            self.requests += len(reqs)
            self.comparisons += 1
            self.count('kind', kind)
            self.count('stream', '%s: %s' % (kind, stream))
            try:
                self.count('branch', '%s: %s' % (kind, k.branch(inp, real)))
                nt = bool(k.nontrivial(inp, real))
            except Exception:
                nt = False
            if v == 'tie':
                self.ties += 1
                self.count('outcome', 'float tie')
                continue
            self.nontrivial += 1 if nt else 0
            if v is None:
                self.count('outcome', 'agree')
                if nt and len(self.samples) < 3 and k.size(inp) <= 3 and \
                        kind not in [s['kind'] for s in self.samples]:
                    self.samples.append({'kind': kind, 'input': inp,
                                         'ops': sorted(set(r[0] for r in reqs))})
                continue
            self.count('outcome', 'DISAGREE')
            self.record(kind, inp, v[0], v[1], reqs)
        for sig in sorted(self.dis):
            self.dis[sig] = self.shrink(self.dis[sig])
        return {'requests': self.comparisons, 'model_requests': self.requests,
                'nontrivial': self.nontrivial, 'rule': RULE,
                'disagreements': [self.dis[s] for s in sorted(self.dis)],
                'float_ties': self.ties, 'histograms': self.hist, 'samples': self.samples,
                'seconds': round(time.time() - self.t0, 1)}

    def sub(self, kind, inps):
        """-> list of recorded disagreements among the inputs."""
        s = _Engine(self.ctx, self.tmp)
        s.t_end = self.t_end
        for i in inps:
            s.add(kind, i)
        found = list(s.dis.values())
        if s.cases:
            for (kd, inp, stream, reqs, real), v in zip(s.cases, s.evaluate(s.cases)):
                if v is not None and v != 'tie':
                    found.append(s.record(kd, inp, v[0], v[1], reqs))
        return found

    def shrink(self, d):
        kind = d['kind']
        k = KINDS[kind]
        for _ in range(5):
            if time.time() + 5 > self.t_end:
                break
            cands = k.shrink(d['input'])[:200]
            if not cands:
                break
            found = [x for x in self.sub(kind, cands) if x['signature'] == d['signature']]
            if not found:
                break
            d = min(found, key=lambda x: k.size(x['input']))
        return d


# ====================================================================== interface
def run(ctx, prop):
    if prop != 'C20':
        return {'requests': 0, 'nontrivial': 0, 'rule': 'no model of %s here' % prop,
                'disagreements': [], 'float_ties': 0, 'histograms': {}, 'samples': []}
    with tempfile.TemporaryDirectory(prefix='corr_interop_') as tmp:
        E = _Engine(ctx, tmp)
        gen(E, ctx.seed)
        return E.run()


def replay(ctx, disagreement):
    """Re-run one recorded disagreement (its 'kind' and 'input') on the current tree."""
    kind, inp = disagreement.get('kind'), disagreement.get('input')
    if kind not in KINDS or inp is None:
        return None
    with tempfile.TemporaryDirectory(prefix='corr_interop_') as tmp:
        found = _Engine(ctx, tmp).sub(kind, [inp])
    return found[0] if found else None


if __name__ == '__main__':
    import json

    class Ctx(object):
        pass
    args = sys.argv[1:]
    nums = [a for a in args if a.lstrip('-').isdigit()]
    ctx = Ctx()
    ctx.seed = int(nums[0]) if nums else int(os.environ.get('VERIF_SEED', '0'))
    ctx.tier = 'thorough' if 'thorough' in args else os.environ.get('VERIF_TIER', 'quick')
    ctx.broken = []
    ctx.driver = lbg.Driver()
    ctx.deadline = time.time() + 3600
    t = time.time()
    r = run(ctx, 'C20')
    print('C20 seed %d %s: %d comparisons (%d model requests), %d non-trivial, %d float ties, '
          '%d disagreements, %.1fs' % (ctx.seed, ctx.tier, r['requests'], r['model_requests'],
                                      r['nontrivial'], r['float_ties'], len(r['disagreements']),
                                      time.time() - t))
    for h in sorted(r['histograms']):
        print('   %-8s %s' % (h, sorted(r['histograms'][h].items())))
    for s in r['samples']:
        print('   sample', str(s)[:400])
    bad = 0
    for d in r['disagreements']:
        bad += 1
        print('   DISAGREE', d['what'][:600])
        print('            input', str(d['input'])[:600])
        again = replay(ctx, json.loads(json.dumps(d, default=lbg._json_default)))
        print('            replay:', 'reproduced' if again else 'NOT reproduced')
    sys.exit(1 if bad else 0)
