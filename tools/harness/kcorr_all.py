#!/venv/bin/python
"""Run the kernel correspondence for every generated kernel (translator validation)."""
import json, os, sys
sys.path.insert(0, os.path.dirname(os.path.abspath(__file__)))
import lbg, kcorr
rep = json.load(open(os.path.join(lbg.LEAN_DIR, 'LbgVerif', 'Gen', 'gen_report.json')))['kernels']
names = set(sys.argv[1].split(',')) if len(sys.argv) > 1 else None
if len(sys.argv) > 1 and sys.argv[1].startswith('generation='):
    # all kernels of one registry generation (kernels2.py is generation 1)
    g_ = int(sys.argv[1].split('=')[1])
    ks = [k for k in kcorr.kernels_for() if k.get('generation', 0) == g_]
elif len(sys.argv) > 1 and sys.argv[1].startswith('group='):
    ks = [k for k in kcorr.kernels_for() if k['group'] in sys.argv[1].split('=')[1].split(',')]
else:
    ks = kcorr.kernels_for(names=names)
n = int(os.environ.get('N', '40'))
stats, mis = kcorr.run_kernels(ks, rep, int(os.environ.get('VERIF_SEED', '0')), n, n, lbg.Driver())
for k, s in sorted(stats.items()):
    flag = '' if not s['mismatch'] else '  <<<<<<'
    if not s['cases'] and not s.get('untranslated'):
        flag += '  VACUOUS (every real call raised)'
    print('%-45s cases=%4d some=%4d raise=%3d border=%2d mism=%3d maxrel=%.2e%s' % (
        k, s['cases'], s['some'], s['skipped_raise'], s['borderline'], s['mismatch'], s['max_rel_diff'], flag))
tot = [sum(s[k] for s in stats.values()) for k in ('cases', 'mismatch', 'borderline')]
print('TOTAL kernels=%d cases=%d mismatches=%d borderline=%d seed=%s' % (
    len(stats), tot[0], tot[1], tot[2], os.environ.get('VERIF_SEED', '0')))
seen = set()
for m in mis:
    if m['kernel'] in seen: continue
    seen.add(m['kernel'])
    print(json.dumps(m, default=lbg._json_default)[:900])
