#!/venv/bin/python
"""Run the kernel correspondence for every generated kernel (translator validation)."""
import json, os, sys
sys.path.insert(0, os.path.dirname(os.path.abspath(__file__)))
import lbg, kcorr
rep = json.load(open(os.path.join(lbg.LEAN_DIR, 'LbgVerif', 'Gen', 'gen_report.json')))['kernels']
names = set(sys.argv[1].split(',')) if len(sys.argv) > 1 else None
ks = kcorr.kernels_for(names=names)
n = int(os.environ.get('N', '40'))
stats, mis = kcorr.run_kernels(ks, rep, int(os.environ.get('VERIF_SEED', '0')), n, n, lbg.Driver())
for k, s in sorted(stats.items()):
    flag = '' if not s['mismatch'] else '  <<<<<<'
    print('%-45s cases=%4d some=%4d raise=%3d border=%2d mism=%3d maxrel=%.2e%s' % (
        k, s['cases'], s['some'], s['skipped_raise'], s['borderline'], s['mismatch'], s['max_rel_diff'], flag))
seen = set()
for m in mis:
    if m['kernel'] in seen: continue
    seen.add(m['kernel'])
    print(json.dumps(m, default=lbg._json_default)[:900])
