"""Correspondence of every generated kernel: the real function and the generated Lean
definition (executed at ℚ by the driver) are run on the same inputs.

Discrete parts of the answer (None-ness, booleans, list lengths) must agree exactly on the
lattice stream, where double arithmetic in these kernels is exact; numeric parts must
agree within `tol` relative to the magnitude of the data on both streams.  On the
random-double stream a discrete disagreement is only counted when the model's answer is
stable under one-ulp nudges of the inputs (otherwise the input sits on a decision
boundary and rounding may legitimately flip it)."""
import math
from fractions import Fraction

import lbg
import kernels as kernel_registry

TOL = Fraction(1, 10 ** 9)


def input_scale(wire_args):
    nums = []

    def walk(j):
        if isinstance(j, str):
            try:
                nums.append(abs(Fraction(j)))
            except Exception:
                pass
        elif isinstance(j, list):
            for x in j:
                walk(x)
    walk(wire_args)
    return max([Fraction(1)] + nums)


def nudge_wire(j, rng):
    if isinstance(j, str):
        f = float(Fraction(j))
        if f == 0.0:
            return j
        # (the real evaluation rounds inside as well: products of coordinates of size 1e3 carry
        # errors that correspond to input changes of tens of ulps, so the probe goes up to 64)
        k = rng.choice([-64, -16, -4, -2, -1, 1, 2, 4, 16, 64])
        if abs(k) <= 4:
            for _ in range(abs(k)):
                f = math.nextafter(f, math.inf if k > 0 else -math.inf)
        else:
            f = f + k * (math.nextafter(abs(f), math.inf) - abs(f))
        return lbg.wnum(f)
    if isinstance(j, list):
        return [nudge_wire(x, rng) for x in j]
    return j


def kernels_for(prop=None, names=None):
    ks = kernel_registry.all_kernels()
    if prop is not None:
        ks = [k for k in ks if prop in k.get('props', [])]
    if names is not None:
        ks = [k for k in ks if k['name'] in names]
    return ks


def run_kernels(ks, gen_report, seed, n_lattice, n_real, driver, custom_gen=None):
    """Returns (stats, mismatches).  Kernels whose translation failed are skipped here
    (the caller reports them as broken obligations)."""
    stats = {}
    mismatches = []
    reqs = []
    meta = []
    import kgen2
    cg_ = dict(kgen2.GENERATORS)
    import kgen3
    cg_.update(kgen3.GENERATORS)
    cg_.update(custom_gen or {})
    custom_gen = cg_
    for k in ks:
        rep = gen_report.get(k['name'])
        st = stats.setdefault(k['name'], {'cases': 0, 'skipped_raise': 0, 'none': 0,
                                          'some': 0, 'borderline': 0, 'mismatch': 0,
                                          'max_rel_diff': 0.0})
        if rep is None or rep.get('status') != 'ok':
            st['untranslated'] = True
            continue
        f = lbg.resolve_real(k['target'], k.get('ctor', False))
        rt = k.get('roundtrip')
        if rt:
            import importlib
            modname, rest = k['target'].split(':')
            cls_rt = getattr(importlib.import_module('ladybug_geometry.' + modname),
                             rest.split('.')[0])
            if rt == 'dict':
                f = (lambda c: (lambda x: c.from_dict(x.to_dict())))(cls_rt)
            elif rt == 'array':
                f = (lambda c: (lambda x: c.from_array(x.to_array())))(cls_rt)
            elif rt == 'copy':
                f = lambda x: x.duplicate()     # noqa: E731
            elif rt == 'eq':
                f = lambda x, y: x == y         # noqa: E731
        if k.get('post_self'):
            def mkps(g_, slots=k['post_self'].split(',')):
                def call(self_, *a_, **kw_):
                    g_(self_, *a_, **kw_)
                    out_ = tuple(getattr(self_, s_) for s_ in slots)
                    return out_ if len(out_) > 1 else out_[0]
                return call
            f = mkps(f)
        if k.get('self_from'):
            import importlib
            sf = k['self_from']
            modname = k['target'].split(':')[0]
            cls_ = getattr(importlib.import_module('ladybug_geometry.' + modname), sf['cls'])
            pn = [p[0] for p in k['params']]
            used = [pn.index(v) for v in sf['slots'].values()]

            def mk(g_, cls_=cls_, used=used):
                def call(*a_, **kw_):
                    recv = cls_(*[a_[i] for i in used])
                    rest = [x for i, x in enumerate(a_) if i not in used]
                    return g_(recv, *rest, **kw_)
                return call
            f = mk(f)
        if k.get('build'):
            import argspec
            import importlib

            class _Mk(object):
                def new(self_, cls, slots, mode):
                    if ':' in cls:
                        mn, cn = cls.split(':')
                        c_ = getattr(importlib.import_module('ladybug_geometry.' + mn), cn)
                    else:
                        c_ = lbg.find_real_class(cls)
                    if mode == 'ctor':
                        return c_(*[v_ for (_, v_) in slots])
                    if isinstance(mode, (tuple, list)) and mode[0] == 'args':
                        d_ = dict(slots)
                        return c_(*[d_[x_] if isinstance(x_, str) else x_[1]
                                    for x_ in mode[1]])
                    o = c_.__new__(c_)
                    for a_, v_ in slots:
                        setattr(o, a_, v_)
                    return o

                def setattr(self_, o, a_, v_):
                    setattr(o, a_, v_)

            def mkbuild(g_, k=k):
                def call(*a_, **kw_):
                    byname = dict((p[0], x) for p, x in zip(k['params'], a_))
                    argspec.prelink(k.get('prelink'), byname, _Mk())
                    return g_(*[argspec.build(sp, byname, _Mk()) for sp in k['build']],
                              **kw_)
                return call
            f = mkbuild(f)
        if k.get('ret_self'):
            f = (lambda g_: (lambda self_, *a_: (g_(self_, *a_), self_)))(f)
        if k.get('post'):
            def mkpost(g_, post=k['post']):
                def call(*a_, **kw_):
                    r_ = g_(*a_, **kw_)
                    if r_ is None:
                        return None
                    if ',' in post:
                        return tuple(getattr(r_, at_) for at_ in post.split(','))
                    for at_ in post.split('.'):
                        r_ = getattr(r_, at_)
                    return r_
                return call
            f = mkpost(f)
        g = lbg.Gen(seed, 'kcorr/' + k['name'])
        for stream, n in (('lattice', n_lattice), ('real', n_real)):
            for i in range(n):
                if custom_gen and k['name'] in custom_gen:
                    args = custom_gen[k['name']](g, stream)
                else:
                    args = [g.value(p[1], p[2] if len(p) > 2 else None, stream,
                                    p[3] if len(p) > 3 else None)
                            for p in k['params']]
                if k.get('roundtrip') == 'eq' and g.rng.random() < 0.5:
                    args = [args[0], args[0].duplicate()]
                pre = lbg.PRECONDITIONS.get(k.get('well_conditioned'))
                if pre is not None and stream == 'real':
                    tries = 0
                    while not pre(args) and tries < 50:
                        args = [g.value(p[1], p[2] if len(p) > 2 else None, stream,
                                        p[3] if len(p) > 3 else None) for p in k['params']]
                        tries += 1
                if k.get('kw_params'):
                    kw_ = dict(k.get('const_args') or {})
                    kw_.update((p[0], a_) for p, a_ in zip(k['params'], args))
                    status, val = lbg.call_real(f, [], kw_)
                else:
                    status, val = lbg.call_real(f, args, k.get('const_args'))
                if status == 'err':
                    if not k.get('err_as_none'):
                        st['skipped_raise'] += 1
                        continue
                    val = None
                try:
                    creal = lbg.canon_real(val, k['ret'])
                except (TypeError, ValueError, AttributeError) as e:
                    mismatches.append({'kernel': k['name'], 'kind': 'result-type',
                                       'detail': str(e), 'stream': stream})
                    st['mismatch'] += 1
                    continue
                wargs = [lbg.to_wire(a, p[1]) for a, p in zip(args, k['params'])]
                reqs.append((k['name'], wargs))
                meta.append((k, stream, wargs, creal))
    answers = driver.run(reqs)
    redo = []
    redo_num = []
    for (k, stream, wargs, creal), (ok, val) in zip(meta, answers):
        st = stats[k['name']]
        st['cases'] += 1
        if not ok:
            st['mismatch'] += 1
            mismatches.append({'kernel': k['name'], 'kind': 'driver-error', 'detail': val,
                               'stream': stream, 'args': wargs})
            continue
        cmodel = lbg.canon_wire(val, k['ret'])
        if creal is None or creal is False or creal == []:
            st['none'] += 1
        else:
            st['some'] += 1
        if not lbg.same_shape(creal, cmodel):
            redo.append((k, stream, wargs, creal, cmodel))
            continue
        scale = max([input_scale(wargs)] + [abs(x) for x in lbg.flat_numbers(cmodel)])
        d = lbg.max_diff(creal, cmodel)
        rel = d / scale
        if float(rel) > st['max_rel_diff']:
            st['max_rel_diff'] = float(rel)
        if rel > TOL * k.get('tol_factor', 1):
            redo_num.append((k, stream, wargs, creal, cmodel, d, scale))
    # conditioning probe for numeric disagreements: an ill-conditioned input (nearly
    # parallel planes, a tiny determinant ...) legitimately amplifies rounding; measure the
    # model's own sensitivity to one-ulp changes of the inputs and accept differences that
    # are small relative to it
    if redo_num:
        import random
        rng = random.Random('%s/cond' % seed)
        reqs3 = []
        for (k, stream, wargs, creal, cmodel, d, scale) in redo_num:
            for _ in range(12):
                reqs3.append((k['name'], nudge_wire(wargs, rng)))
        ans3 = driver.run(reqs3)
        for i, (k, stream, wargs, creal, cmodel, d, scale) in enumerate(redo_num):
            st = stats[k['name']]
            sens = Fraction(0)
            for (ok, val) in ans3[12 * i: 12 * i + 12]:
                if ok:
                    cm2 = lbg.canon_wire(val, k['ret'])
                    if lbg.same_shape(cm2, cmodel):
                        sens = max(sens, lbg.max_diff(cm2, cmodel))
                    else:
                        sens = None
                        break
            if sens is None or d <= 1000 * sens + TOL * scale:
                st['borderline'] += 1
                st['ill_conditioned'] = st.get('ill_conditioned', 0) + 1
            else:
                st['mismatch'] += 1
                mismatches.append({'kernel': k['name'], 'kind': 'numeric', 'stream': stream,
                                   'args': wargs, 'impl': creal, 'model': cmodel,
                                   'rel_diff': float(d / scale),
                                   'model_sensitivity_1ulp': float(sens)})
    # borderline probe for discrete disagreements on random doubles
    if redo:
        import random
        rng = random.Random('%s/nudge' % seed)
        reqs2 = []
        for (k, stream, wargs, creal, cmodel) in redo:
            for _ in range(12):
                reqs2.append((k['name'], nudge_wire(wargs, rng)))
        ans2 = driver.run(reqs2)
        for i, (k, stream, wargs, creal, cmodel) in enumerate(redo):
            st = stats[k['name']]
            stable = True
            for (ok, val) in ans2[12 * i: 12 * i + 12]:
                if not ok or not lbg.same_shape(lbg.canon_wire(val, k['ret']), cmodel):
                    stable = False
            if stable:
                st['mismatch'] += 1
                mismatches.append({'kernel': k['name'], 'kind': 'discrete',
                                   'stream': stream, 'args': wargs, 'impl': creal,
                                   'model': cmodel})
            else:
                st['borderline'] += 1
    return stats, mismatches
