import LbgVerif.Basic
import LbgVerif.Wire
import LbgVerif.Gen.Dispatch
import LbgVerif.Model.Dispatch
