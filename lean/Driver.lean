/-
  Driver: one JSON request per line on stdin → one JSON answer per line on stdout.
  request  {"id": n, "op": "<name>", "args": [...]}
  answer   {"id": n, "ok": true, "val": ...} | {"id": n, "ok": false, "err": "..."}
  Run with:  lake env lean --run Driver.lean
-/
import LbgVerif.Gen.Dispatch
import LbgVerif.Model.Dispatch
open Lean Lbg

def handle (line : String) : String :=
  match Json.parse line with
  | .error e => (Json.mkObj [("ok", Json.bool false), ("err", Json.str s!"parse: {e}")]).compress
  | .ok j =>
    let id := (j.getObjVal? "id").toOption.getD Json.null
    match j.getObjValAs? String "op" with
    | .error e => (Json.mkObj [("id", id), ("ok", Json.bool false), ("err", Json.str e)]).compress
    | .ok op =>
      let args := match j.getObjVal? "args" with
        | .ok (Json.arr a) => a
        | _ => #[]
      let r := match Lbg.Model.dispatch op args with
        | some r => r
        | none => Lbg.Gen.dispatch op args
      match r with
      | .ok v => (Json.mkObj [("id", id), ("ok", Json.bool true), ("val", v)]).compress
      | .error e => (Json.mkObj [("id", id), ("ok", Json.bool false), ("err", Json.str e)]).compress

partial def loop (h : IO.FS.Stream) (out : IO.FS.Stream) : IO Unit := do
  let line ← h.getLine
  if line.isEmpty then return ()
  let t := line.trimAscii.toString
  if t.isEmpty then loop h out else
  out.putStrLn (handle t)
  loop h out

def main : IO Unit := do
  let out ← IO.getStdout
  loop (← IO.getStdin) out
  out.flush
