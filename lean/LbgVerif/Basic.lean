/-
  LbgVerif.Basic — carrier structures shared by the generated kernels (`Gen/`),
  the hand-written models (`Model/`) and the property theorems (`Props/`).

  Everything is generic over an ordered field `α`.  The same definitions are the subject
  of the theorems (for every `α`, in particular ℚ ⊇ IEEE doubles and ℝ) and are executed
  at ℚ by the driver.
-/
import Mathlib.Algebra.Order.Field.Basic
import Mathlib.Algebra.Order.Ring.Abs

namespace Lbg

/-- 2D point / vector (`Point2D`, `Vector2D`: slots `_x`, `_y`). -/
structure V2 (α : Type) where
  x : α
  y : α
deriving DecidableEq, Repr

/-- 3D point / vector (`Point3D`, `Vector3D`: slots `_x`, `_y`, `_z`). -/
structure V3 (α : Type) where
  x : α
  y : α
  z : α
deriving DecidableEq, Repr

/-- `LineSegment2D` / `Ray2D` (slots `_p`, `_v`). -/
structure LR2 (α : Type) where
  p : V2 α
  v : V2 α
deriving DecidableEq, Repr

/-- `LineSegment3D` / `Ray3D` (slots `_p`, `_v`). -/
structure LR3 (α : Type) where
  p : V3 α
  v : V3 α
deriving DecidableEq, Repr

/-- `Plane` after construction (slots `_n`, `_o`, `_k`, `_x`, `_y`). -/
structure PlaneS (α : Type) where
  n : V3 α
  o : V3 α
  k : α
  x : V3 α
  y : V3 α
deriving DecidableEq, Repr

/-- `Arc2D` (slots `_c`, `_r`, `_a1`, `_a2` and the cached `_cos_a1` … `_sin_a2`). -/
structure Arc2S (α : Type) where
  c : V2 α
  r : α
  a1 : α
  a2 : α
  cos_a1 : α
  sin_a1 : α
  cos_a2 : α
  sin_a2 : α
deriving DecidableEq, Repr

/-- `Arc3D` (slots `_plane`, `_arc2d`). -/
structure Arc3S (α : Type) where
  plane : PlaneS α
  arc2d : Arc2S α
deriving DecidableEq, Repr

/-- `Sphere` (slots `_center`, `_radius`). -/
structure SphereS (α : Type) where
  center : V3 α
  radius : α
deriving DecidableEq, Repr

/-- `Cone` (slots `_vertex`, `_axis`, `_angle`). -/
structure ConeS (α : Type) where
  vertex : V3 α
  axis : V3 α
  angle : α
deriving DecidableEq, Repr

/-- `Cylinder` (slots `_center`, `_axis`, `_radius`). -/
structure CylS (α : Type) where
  center : V3 α
  axis : V3 α
  radius : α
deriving DecidableEq, Repr

/-- Payload of memo slots the model does not look into (only "filled or not" matters). -/
abbrev Opq := Unit

/-- `Polygon2D` with all its memo slots (`__slots__` of `Polygon2D` and `Base2DIn2D`). -/
structure Poly2C (α : Type) where
  vertices : List (V2 α)
  min : Option (V2 α)
  max : Option (V2 α)
  center : Option (V2 α)
  segments : Option Opq
  inside_angles : Option Opq
  outside_angles : Option Opq
  perimeter : Option α
  area : Option α
  is_clockwise : Option Bool
  is_convex : Option Bool
  is_self_intersecting : Option Bool
deriving Repr

/-- The `math` module as seen by generated kernels.  Theorems assume only the laws they
need, as explicit hypotheses; the driver instantiates it with IEEE doubles. -/
structure MathOps (α : Type) where
  sqrt : α → α
  sin : α → α
  cos : α → α
  tan : α → α
  acos : α → α
  asin : α → α
  atan2 : α → α → α
  pi : α
  floor : α → α

namespace V2
variable {α : Type}
@[ext] theorem ext' {a b : V2 α} (hx : a.x = b.x) (hy : a.y = b.y) : a = b := by
  cases a; cases b; simp_all
variable [Field α]
def add (a b : V2 α) : V2 α := ⟨a.x + b.x, a.y + b.y⟩
def sub (a b : V2 α) : V2 α := ⟨a.x - b.x, a.y - b.y⟩
def smul (k : α) (a : V2 α) : V2 α := ⟨k * a.x, k * a.y⟩
def neg (a : V2 α) : V2 α := ⟨-a.x, -a.y⟩
def dot (a b : V2 α) : α := a.x * b.x + a.y * b.y
def det (a b : V2 α) : α := a.x * b.y - a.y * b.x
def normSq (a : V2 α) : α := a.x * a.x + a.y * a.y
end V2

namespace V3
variable {α : Type}
@[ext] theorem ext' {a b : V3 α} (hx : a.x = b.x) (hy : a.y = b.y) (hz : a.z = b.z) :
    a = b := by
  cases a; cases b; simp_all
variable [Field α]
def add (a b : V3 α) : V3 α := ⟨a.x + b.x, a.y + b.y, a.z + b.z⟩
def sub (a b : V3 α) : V3 α := ⟨a.x - b.x, a.y - b.y, a.z - b.z⟩
def smul (k : α) (a : V3 α) : V3 α := ⟨k * a.x, k * a.y, k * a.z⟩
def neg (a : V3 α) : V3 α := ⟨-a.x, -a.y, -a.z⟩
def dot (a b : V3 α) : α := a.x * b.x + a.y * b.y + a.z * b.z
def cross (a b : V3 α) : V3 α :=
  ⟨a.y * b.z - a.z * b.y, a.z * b.x - a.x * b.z, a.x * b.y - a.y * b.x⟩
def normSq (a : V3 α) : α := a.x * a.x + a.y * a.y + a.z * a.z
end V3

/-- The consecutive pairs `(l[i-1], l[i])` for `i = 0 … n-1`, i.e. what
`for i, pt in enumerate(vs): … vs[i - 1] … pt …` visits (Python's `vs[-1]` wraps). -/
def cyclicPairs {β : Type} (l : List β) : List (β × β) :=
  match l.getLast? with
  | none => []
  | some z => (z :: l).zip l

end Lbg
