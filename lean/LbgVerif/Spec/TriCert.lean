/-
  LbgVerif.Spec.TriCert — executable certificate for "these triangles exactly tile this
  polygon with holes" (property C05).

  Input: the loops handed to the triangulator (`loops.head` = boundary, the rest = holes,
  either vertex order), the vertex table of the returned mesh and its faces as index
  triples.  Everything is decided exactly (the driver runs it at ℚ; every IEEE double is
  a rational).  Clauses:

   (1) provenance   every face has 3 indices, every index is in range and the vertex it
                    names has the coordinates of an input vertex;
   (2) orientation  every triangle has non-zero signed area and all signs agree;
   (3) edges        over input-vertex ids: a directed triangle edge that is an input edge
                    occurs exactly once (in either direction) and has no partner; any
                    other directed triangle edge occurs exactly once and its reverse
                    exactly once; every input edge is used by exactly one triangle;
   (4) area         |Σ signed triangle areas| = |area boundary| − Σ |area hole|
                    (rational shoelace);
   (5) centroids    the centroid of every triangle is strictly inside the boundary and
                    strictly outside every hole (exact crossing number, on-edge detected
                    separately).

  (1)+(2)+(3) imply that the triangles tile the shape (the boundaries of equally oriented
  triangles cancel to the boundary of the shape, so every point is covered exactly
  winding-number = 1 / 0 times); (4) and (5) are then consequences, they are checked
  independently so that a failing output is diagnosed clause by clause.

  `edgesRefined` is the geometric reading of (3): triangle edges are first cut at every
  input vertex lying strictly inside them (T-junctions at exactly collinear vertices),
  then the same counting is done on the pieces.  It is reported next to the strict clause.
-/
import LbgVerif.Basic
import Mathlib.Algebra.Order.Field.Rat
import Mathlib.Tactic.Ring

namespace Lbg.Spec.TriCert

variable {α : Type} [Field α] [LinearOrder α]

/-- Twice the signed area of triangle `a b c` (positive = counter-clockwise). -/
def cross (a b c : V2 α) : α :=
  (b.x - a.x) * (c.y - a.y) - (b.y - a.y) * (c.x - a.x)

/-- Cyclically consecutive pairs of a loop. -/
def cycPairs {β : Type} : List β → List (β × β)
  | [] => []
  | x :: xs => (x :: xs).zip (xs ++ [x])

/-- Twice the signed shoelace area of a loop. -/
def shoelace2 (l : List (V2 α)) : α :=
  ((cycPairs l).map fun pq => pq.1.x * pq.2.y - pq.2.x * pq.1.y).sum

/-- `p` lies on the closed segment `a b`. -/
def onSeg (p a b : V2 α) : Bool :=
  decide (min a.x b.x ≤ p.x) && decide (p.x ≤ max a.x b.x)
    && decide (min a.y b.y ≤ p.y) && decide (p.y ≤ max a.y b.y) && decide (cross a b p = 0)

/-- `p` lies strictly inside the segment `a b` (on it, and not an end point). -/
def strictlyOnSeg (p a b : V2 α) : Bool :=
  onSeg p a b && !(decide (p = a)) && !(decide (p = b))

def onLoop (l : List (V2 α)) (p : V2 α) : Bool :=
  (cycPairs l).any fun ab => onSeg p ab.1 ab.2

/-- The horizontal ray from `p` towards +x crosses edge `a b` (half-open rule in y). -/
def rayCrosses (p a b : V2 α) : Bool :=
  if decide (a.y > p.y) != decide (b.y > p.y) then
    if b.y > a.y then decide (cross a b p > 0) else decide (cross a b p < 0)
  else false

def crossingNumber (l : List (V2 α)) (p : V2 α) : Nat :=
  ((cycPairs l).filter fun ab => rayCrosses p ab.1 ab.2).length

/-- strictly inside (not on the loop, odd crossing number) -/
def strictlyInside (l : List (V2 α)) (p : V2 α) : Bool :=
  !(onLoop l p) && (crossingNumber l p % 2 == 1)

/-- strictly outside (not on the loop, even crossing number) -/
def strictlyOutside (l : List (V2 α)) (p : V2 α) : Bool :=
  !(onLoop l p) && (crossingNumber l p % 2 == 0)

def centroid (a b c : V2 α) : V2 α := ⟨(a.x + b.x + c.x) / 3, (a.y + b.y + c.y) / 3⟩

/-! ### index structure -/

/-- Input edges as pairs of ids into the flattened vertex list of all loops. -/
def inputEdges (loops : List (List (V2 α))) : List (Nat × Nat) :=
  let rec go (off : Nat) : List (List (V2 α)) → List (Nat × Nat)
    | [] => []
    | l :: ls => cycPairs ((List.range l.length).map (· + off)) ++ go (off + l.length) ls
  go 0 loops

def triEdges (tris : List (Nat × Nat × Nat)) : List (Nat × Nat) :=
  tris.flatMap fun t => [(t.1, t.2.1), (t.2.1, t.2.2), (t.2.2, t.1)]

def countP {β : Type} (p : β → Bool) (l : List β) : Nat := (l.filter p).length

def occ (e : Nat × Nat) (es : List (Nat × Nat)) : Nat := countP (fun f => f == e) es

def isInputEdge (ie : List (Nat × Nat)) (e : Nat × Nat) : Bool :=
  ie.contains e || ie.contains (e.2, e.1)

/-- Clause (3) on a list of directed triangle edges and the list of input edges. -/
def edgeClause (ie es : List (Nat × Nat)) : Bool :=
  (es.all fun e =>
      if isInputEdge ie e then occ e es + occ (e.2, e.1) es == 1
      else occ e es == 1 && occ (e.2, e.1) es == 1)
  && (ie.all fun e => occ e es + occ (e.2, e.1) es == 1)

/-- first offending edge, for the report -/
def edgeWitness (ie es : List (Nat × Nat)) : Option (Nat × Nat) :=
  match es.find? (fun e =>
      !(if isInputEdge ie e then occ e es + occ (e.2, e.1) es == 1
        else occ e es == 1 && occ (e.2, e.1) es == 1)) with
  | some e => some e
  | none => ie.find? (fun e => !(occ e es + occ (e.2, e.1) es == 1))

/-! ### refinement of edges at collinear input vertices -/

def dotAlong (a b p : V2 α) : α := (p.x - a.x) * (b.x - a.x) + (p.y - a.y) * (b.y - a.y)

/-- ids of the input vertices strictly inside segment `a b`, ordered from `a` to `b`. -/
def innerIds (pts : List (V2 α)) (a b : V2 α) : List Nat :=
  let inner := (pts.zipIdx).filter fun pi => strictlyOnSeg pi.1 a b
  (inner.mergeSort fun p q => decide (dotAlong a b p.1 ≤ dotAlong a b q.1)).map (·.2)

/-- cut the directed edge `e` at every input vertex strictly inside it -/
def refineEdge (pts : List (V2 α)) (e : Nat × Nat) : List (Nat × Nat) :=
  match pts[e.1]?, pts[e.2]? with
  | some a, some b =>
    let chain := e.1 :: (innerIds pts a b ++ [e.2])
    chain.zip chain.tail
  | _, _ => [e]

/-! ### the certificate -/

structure Report (α : Type) where
  provenance : Bool
  orientation : Bool
  edges : Bool
  edgesRefined : Bool
  area : Bool
  centroids : Bool
  inputDistinct : Bool
  sign : Int
  area2Tris : α
  area2Shape : α
  nTris : Nat
  witness : String

def signOf (x : α) : Int := if x > 0 then 1 else if x < 0 then -1 else 0

def absα (x : α) : α := if x < 0 then -x else x

/-- id (position in the flattened input) of the input vertex equal to `p` -/
def inputId (pts : List (V2 α)) (p : V2 α) : Option Nat :=
  let i := pts.findIdx (fun q => decide (q = p))
  if i < pts.length then some i else none

def certify (loops : List (List (V2 α))) (verts : List (V2 α)) (faces : List (List Nat)) :
    Report α :=
  let pts : List (V2 α) := loops.flatten
  let inputDistinct := decide (pts.Nodup)
  -- (1) provenance: faces → triples of input ids
  let ids : List (Option (Nat × Nat × Nat)) := faces.map fun f =>
    match f with
    | [i, j, k] =>
      match verts[i]?, verts[j]?, verts[k]? with
      | some a, some b, some c =>
        match inputId pts a, inputId pts b, inputId pts c with
        | some x, some y, some z => some (x, y, z)
        | _, _, _ => none
      | _, _, _ => none
    | _ => none
  let provenance := ids.all Option.isSome && !faces.isEmpty
  let tris : List (Nat × Nat × Nat) := ids.filterMap id
  let coords : List (V2 α × V2 α × V2 α) := tris.filterMap fun t =>
    match pts[t.1]?, pts[t.2.1]?, pts[t.2.2]? with
    | some a, some b, some c => some (a, b, c)
    | _, _, _ => none
  -- (2) orientation
  let a2 : List α := coords.map fun t => cross t.1 t.2.1 t.2.2
  let s : Int := match a2 with
    | [] => 0
    | x :: _ => signOf x
  let orientation := s != 0 && a2.all fun x => signOf x == s
  -- (3) edges
  let ie := inputEdges loops
  let es := triEdges tris
  let edges := edgeClause ie es
  let edgesRefined := edges || edgeClause ie (es.flatMap (refineEdge pts))
  -- (4) area
  let area2Tris := absα a2.sum
  let area2Shape := match loops with
    | [] => 0
    | b :: hs => absα (shoelace2 b) - (hs.map fun h => absα (shoelace2 h)).sum
  let area := decide (area2Tris = area2Shape)
  -- (5) centroids
  let bad := coords.zipIdx.find? fun ti =>
    let c := centroid ti.1.1 ti.1.2.1 ti.1.2.2
    match loops with
    | [] => true
    | b :: hs => !(strictlyInside b c && hs.all fun h => strictlyOutside h c)
  let centroids := bad.isNone
  let witness :=
    (match (if edges then none else edgeWitness ie es) with
      | some e => s!"edge ({e.1},{e.2}) occurs {occ e es}x, reversed {occ (e.2, e.1) es}x; "
      | none => "") ++
    (match bad with
      | some ti => s!"centroid of triangle #{ti.2} not inside the shape; "
      | none => "")
  { provenance, orientation, edges, edgesRefined, area, centroids, inputDistinct,
    sign := s, area2Tris, area2Shape, nTris := tris.length, witness }

def Report.ok (r : Report α) : Bool :=
  r.provenance && r.orientation && r.edges && r.area && r.centroids && r.inputDistinct

/-! ### small facts about the specification -/

section lemmas

omit [LinearOrder α] in
/-- the orientation test does not depend on the start vertex -/
theorem cross_rotate (a b c : V2 α) : cross a b c = cross b c a := by
  simp only [cross]; ring

omit [LinearOrder α] in
/-- swapping two vertices flips the orientation -/
theorem cross_swap (a b c : V2 α) : cross a c b = - cross a b c := by
  simp only [cross]; ring

omit [LinearOrder α] in
/-- a degenerate triangle has zero area -/
theorem cross_self (a b : V2 α) : cross a b b = 0 ∧ cross a a b = 0 := by
  constructor <;> (simp only [cross]; ring)

omit [LinearOrder α] in
/-- the shoelace sum of a triangle is its orientation determinant: clause (4) compares like
with like -/
theorem shoelace2_triangle (a b c : V2 α) : shoelace2 [a, b, c] = cross a b c := by
  simp [shoelace2, cycPairs, cross]; ring

/-- every triangle contributes its three directed edges -/
theorem triEdges_length (tris : List (Nat × Nat × Nat)) :
    (triEdges tris).length = 3 * tris.length := by
  induction tris with
  | nil => simp [triEdges]
  | cons t ts ih =>
    simp only [triEdges, List.flatMap_cons, List.length_append, List.length_cons,
      List.length_nil] at ih ⊢
    omega

end lemmas

/-! ### sanity examples (kernel-checked at ℚ) -/

section examples
private def sq4 : List (V2 ℚ) := [⟨0, 0⟩, ⟨4, 0⟩, ⟨4, 4⟩, ⟨0, 4⟩]
private def hole : List (V2 ℚ) := [⟨1, 1⟩, ⟨1, 2⟩, ⟨2, 2⟩, ⟨2, 1⟩]

-- the two-triangle split of a square is certified
example : (certify [sq4] sq4 [[0, 1, 2], [0, 2, 3]]).ok = true := by decide +kernel
-- mixed orientation is rejected by clause (2)
example : (certify [sq4] sq4 [[0, 1, 2], [0, 3, 2]]).orientation = false := by decide +kernel
-- a missing triangle is rejected by clauses (3) and (4)
example : (certify [sq4] sq4 [[0, 1, 2]]).edges = false := by decide +kernel
example : (certify [sq4] sq4 [[0, 1, 2]]).area = false := by decide +kernel
-- overlapping triangles (both diagonals) are rejected by (3) and (4)
example : (certify [sq4] sq4 [[0, 1, 2], [0, 2, 3], [0, 1, 3]]).edges = false := by
  decide +kernel
-- ignoring the hole is rejected by (3), (4): hole edges unused, area too large
example : (certify [sq4, hole] sq4 [[0, 1, 2], [0, 2, 3]]).area = false := by decide +kernel
example : (certify [sq4, hole] sq4 [[0, 1, 2], [0, 2, 3]]).edges = false := by decide +kernel
-- a correct triangulation of the square with the hole (8 triangles)
example : (certify [sq4, hole] (sq4 ++ hole)
    [[0, 1, 7], [0, 7, 4], [1, 2, 6], [1, 6, 7], [2, 3, 5], [2, 5, 6], [3, 0, 4], [3, 4, 5]]).ok
    = true := by decide +kernel
-- crossing number: centre of the hole is inside the square and inside the hole
example : strictlyInside sq4 (⟨3/2, 3/2⟩ : V2 ℚ) = true := by decide +kernel
example : strictlyOutside hole (⟨3/2, 3/2⟩ : V2 ℚ) = false := by decide +kernel
example : strictlyInside sq4 (⟨4, 2⟩ : V2 ℚ) = false := by decide +kernel
example : strictlyOutside sq4 (⟨4, 2⟩ : V2 ℚ) = false := by decide +kernel
end examples

end Lbg.Spec.TriCert
