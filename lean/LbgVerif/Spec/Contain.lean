/-
  Spec/Contain — executable specification of exact point containment over ℚ (property C08).

  A region is given by a list of loops (boundary first, then holes; any orientation, any
  start vertex).  For a query point the specification decides, exactly,

  * whether the point lies on some edge (closed segments),
  * the crossing number (half-open rule, horizontal ray to +x) summed over the loops,
  * the winding number of every loop, computed twice by independent means:
    signed crossings of the same ray, and the quadrant walk (no ray at all),
  * the squared distance to the nearest edge (to certify the safety margin).

  `classify` = 0 on an edge, +1 inside (odd crossing number), −1 outside.  For simple loops
  with holes strictly inside the boundary and pairwise disjoint, "inside" means inside the
  boundary and outside every hole.  `consistent` reports that the three computations of
  inside/outside agree; the harness rejects a query for which it is false.

  Nothing here mirrors the implementation's ray (direction (1, 1e-5), closed parameter
  ranges, counted per segment): the half-open rule counts a vertex on the ray exactly once.
-/
import LbgVerif.Basic
import Mathlib.Algebra.Order.Field.Rat
import Mathlib.Tactic.Ring
import Mathlib.Tactic.Linarith
import Mathlib.Tactic.Positivity

namespace Lbg.Spec.Contain

abbrev Pt := V2 ℚ

/-- Twice the signed area of the triangle `o a b`. -/
def orient (o a b : Pt) : ℚ := (a.x - o.x) * (b.y - o.y) - (a.y - o.y) * (b.x - o.x)

/-- The edges of a loop as (start, end), closing the loop. -/
def loopSegs (l : List Pt) : List (Pt × Pt) := Lbg.cyclicPairs l

def allSegs (loops : List (List Pt)) : List (Pt × Pt) := loops.flatMap loopSegs

/-- `p` lies on the closed segment `a b`. -/
def onSegment (p a b : Pt) : Bool :=
  decide (orient a b p = 0) && decide (min a.x b.x ≤ p.x) && decide (p.x ≤ max a.x b.x) &&
    decide (min a.y b.y ≤ p.y) && decide (p.y ≤ max a.y b.y)

def onBoundary (loops : List (List Pt)) (p : Pt) : Bool :=
  (allSegs loops).any (fun s => onSegment p s.1 s.2)

/-- Signed crossing of the horizontal ray from `p` to +x with the edge `a → b`
(half-open rule: an end point on the ray's line belongs to the lower side):
+1 upward crossing strictly right of `p`, −1 downward crossing, 0 none. -/
def signedCross (p a b : Pt) : Int :=
  if a.y ≤ p.y then
    if p.y < b.y then (if 0 < orient a b p then 1 else 0) else 0
  else
    if b.y ≤ p.y then (if orient a b p < 0 then -1 else 0) else 0

/-- Crossing number of one loop. -/
def crossings (l : List Pt) (p : Pt) : Nat :=
  (loopSegs l).countP (fun s => signedCross p s.1 s.2 != 0)

/-- Winding number of one loop by signed crossings. -/
def windingRay (l : List Pt) (p : Pt) : Int :=
  ((loopSegs l).map (fun s => signedCross p s.1 s.2)).sum

/-- Quadrant of a non-zero vector: 0 = [0°, 90°), 1 = [90°, 180°), 2, 3. -/
def quadrant (dx dy : ℚ) : Int :=
  if 0 < dx ∧ 0 ≤ dy then 0
  else if dx ≤ 0 ∧ 0 < dy then 1
  else if dx < 0 ∧ dy ≤ 0 then 2
  else 3

/-- Quarter turns made around `p` when walking along `a → b` (`p` not on the edge). -/
def quarterTurns (p a b : Pt) : Int :=
  let qa := quadrant (a.x - p.x) (a.y - p.y)
  let qb := quadrant (b.x - p.x) (b.y - p.y)
  let d := (qb - qa) % 4
  if d = 0 then 0
  else if d = 1 then 1
  else if d = 3 then -1
  else if 0 < orient p a b then 2 else -2

/-- Winding number of one loop by the quadrant walk. -/
def windingQuad (l : List Pt) (p : Pt) : Int :=
  ((loopSegs l).map (fun s => quarterTurns p s.1 s.2)).sum / 4

def totalCrossings (loops : List (List Pt)) (p : Pt) : Nat :=
  (loops.map (fun l => crossings l p)).sum

/-- Inside by crossing parity. -/
def insideParity (loops : List (List Pt)) (p : Pt) : Bool := totalCrossings loops p % 2 = 1

/-- Inside by winding numbers: an odd number of loops wind around the point. -/
def insideWinding (w : List Pt → Pt → Int) (loops : List (List Pt)) (p : Pt) : Bool :=
  (loops.countP (fun l => w l p != 0)) % 2 = 1

/-- Squared distance from `p` to the closed segment `a b`: to `a` if the foot of the
perpendicular falls before `a`, to `b` if it falls after `b`, else to the line. -/
def distSqSeg (p a b : Pt) : ℚ :=
  let dx := b.x - a.x
  let dy := b.y - a.y
  let wx := p.x - a.x
  let wy := p.y - a.y
  let l2 := dx * dx + dy * dy
  let t := wx * dx + wy * dy
  if t ≤ 0 then wx * wx + wy * wy
  else if l2 ≤ t then (p.x - b.x) * (p.x - b.x) + (p.y - b.y) * (p.y - b.y)
  else (wx * dy - wy * dx) * (wx * dy - wy * dx) / l2

/-- Squared distance from `p` to the nearest edge (−1 if there is no edge). -/
def minDistSq (loops : List (List Pt)) (p : Pt) : ℚ :=
  match (allSegs loops).map (fun s => distSqSeg p s.1 s.2) with
  | [] => -1
  | d :: ds => ds.foldl min d

/-- Everything the specification says about one query point, each ingredient computed
once (the driver answers from this record). -/
structure Summary where
  onB : Bool
  crossN : Nat
  wRay : List Int
  wQuad : List Int

def summary (loops : List (List Pt)) (p : Pt) : Summary :=
  ⟨onBoundary loops p, totalCrossings loops p, loops.map (fun l => windingRay l p),
    loops.map (fun l => windingQuad l p)⟩

def Summary.classify (s : Summary) : Int :=
  if s.onB then 0 else if s.crossN % 2 = 1 then 1 else -1

def Summary.winding (s : Summary) : Int := s.wQuad.sum

def Summary.consistent (s : Summary) : Bool :=
  s.onB ||
    (decide (s.crossN % 2 = 1) == decide ((s.wRay.countP (fun w => w != 0)) % 2 = 1) &&
     decide (s.crossN % 2 = 1) == decide ((s.wQuad.countP (fun w => w != 0)) % 2 = 1) &&
     s.wRay == s.wQuad)

/-- 0 on an edge, +1 inside (odd crossing number), −1 outside. -/
def classify (loops : List (List Pt)) (p : Pt) : Int := (summary loops p).classify

/-- Total winding number (boundary counter-clockwise and holes clockwise give 1 inside). -/
def winding (loops : List (List Pt)) (p : Pt) : Int := (summary loops p).winding

/-- The three computations of inside/outside agree (or the point is on an edge). -/
def consistent (loops : List (List Pt)) (p : Pt) : Bool := (summary loops p).consistent

/-- Right prism over the region, between the heights `zlo < zhi`: 0 on the boundary surface,
+1 inside, −1 outside.  (Inside iff the projection is inside the base and the height is in
range.) -/
def prismOfClass (c : Int) (zlo zhi z : ℚ) : Int :=
  if c = -1 ∨ z < zlo ∨ zhi < z then -1
  else if c = 1 ∧ zlo < z ∧ z < zhi then 1
  else 0

def classifyPrism (loops : List (List Pt)) (zlo zhi : ℚ) (p : Pt) (z : ℚ) : Int :=
  prismOfClass (classify loops p) zlo zhi z

/-! ### Small facts about the specification -/

theorem orient_swap (o a b : Pt) : orient o b a = - orient o a b := by
  unfold orient; ring

theorem orient_cycle (o a b : Pt) : orient a b o = orient o a b := by
  unfold orient; ring

/-- Reversing an edge reverses the signed crossing. -/
theorem signedCross_rev (p a b : Pt) : signedCross p b a = - signedCross p a b := by
  unfold signedCross
  have h : orient b a p = - orient a b p := by unfold orient; ring
  rw [h]
  split_ifs <;> first | rfl | (exfalso; linarith)

/-- The distance is never negative. -/
theorem distSqSeg_nonneg (p a b : Pt) : 0 ≤ distSqSeg p a b := by
  unfold distSqSeg
  simp only []
  split_ifs with h1 h2
  · nlinarith [mul_self_nonneg (p.x - a.x), mul_self_nonneg (p.y - a.y)]
  · nlinarith [mul_self_nonneg (p.x - b.x), mul_self_nonneg (p.y - b.y)]
  · apply div_nonneg (mul_self_nonneg _)
    simp only [not_le] at h1 h2
    linarith

end Lbg.Spec.Contain
