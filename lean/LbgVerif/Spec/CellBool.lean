/-
  LbgVerif.Spec.CellBool — executable specification of Boolean operations on planar regions
  given by polygon loops (properties C04, C09).

  * A *region* is a list of loops read with even-odd nesting: a point is inside iff the total
    number of edges crossed by the horizontal ray towards +x is odd (exact crossing number
    with the half-open rule, so that a ray through a vertex is counted once).
  * A *face* is a boundary loop with hole loops: inside the boundary and inside no hole.
  * A lattice polygon is turned into the finite set of unit cells whose centre
    `(i + 1/2, j + 1/2)` is inside.  Boolean operations act cell-wise on memberships.
  * `check` compares what an implementation returned (a list of *parts*: regions or faces,
    whose union is the answer and which must not overlap) with `op` applied to the operands,
    cell by cell, and names a differing cell.
  * `checkPoints` does the same at arbitrary rational query points (general-position family).
  * `selectSpec` is the truth-table specification of the five 16-entry fill-selection tables
    of `boolean.py`.

  Everything is a total computable function over ℚ / ℤ / List; no `sorry`.
-/
import LbgVerif.Basic
import Mathlib.Algebra.Order.Field.Rat
import Mathlib.Algebra.Order.Floor.Defs
import Mathlib.Data.Rat.Floor

namespace Lbg.Spec.CellBool

abbrev Pt := V2 ℚ
abbrev Loop := List Pt
/-- Loops read with even-odd nesting. -/
abbrev Region := List Loop
abbrev Cell := Int × Int

/-- `cross (b - a) (p - a)`: positive iff `p` lies strictly to the left of the directed line `a → b`. -/
def orient (a b p : Pt) : ℚ := (b.x - a.x) * (p.y - a.y) - (b.y - a.y) * (p.x - a.x)

/-- Does the edge `a b` cross the open horizontal ray from `p` towards `+x`?  Half-open rule
in `y` (lower end point included, upper excluded); horizontal edges never cross. -/
def edgeCrosses (p a b : Pt) : Bool :=
  if a.y ≤ p.y ∧ p.y < b.y then decide (0 < orient a b p)
  else if b.y ≤ p.y ∧ p.y < a.y then decide (orient a b p < 0)
  else false

/-- The cyclic edges `(l[i], l[i+1])` of a loop. -/
def loopEdges (l : Loop) : List (Pt × Pt) :=
  match l with
  | [] => []
  | a :: t => l.zip (t ++ [a])

def crossings (p : Pt) (l : Loop) : Nat :=
  (loopEdges l).countP (fun e => edgeCrosses p e.1 e.2)

/-- Even-odd membership of `p` in the region formed by the loops. -/
def insideEO (p : Pt) (r : Region) : Bool :=
  ((r.map (crossings p)).sum % 2) == 1

/-- Boundary minus holes (`loops.head` is the boundary, the tail the holes). -/
def insideFace (p : Pt) (loops : List Loop) : Bool :=
  match loops with
  | [] => false
  | b :: hs => insideEO p [b] && !(hs.any (fun h => insideEO p [h]))

/-- A returned part: `faceMode = true` reads the loops as boundary :: holes, otherwise as an
even-odd region. -/
def insidePart (faceMode : Bool) (p : Pt) (loops : List Loop) : Bool :=
  if faceMode then insideFace p loops else insideEO p loops

/-- The set operations of the two properties, on the membership bits of the operands. -/
inductive Op
  | union | intersect | difference | rdifference | xor | first | second
deriving DecidableEq, Repr

def Op.ofString : String → Option Op
  | "union" => some .union
  | "intersect" => some .intersect
  | "difference" => some .difference
  | "rdifference" => some .rdifference
  | "xor" => some .xor
  | "first" => some .first
  | "second" => some .second
  | _ => none

/-- `union`/`intersect` fold over any number of operands; `difference` is the first operand
minus all the others; `rdifference` the second minus the first; `xor` parity. -/
def Op.eval (op : Op) (ms : List Bool) : Bool :=
  match op with
  | .union => ms.any id
  | .intersect => ms.all id
  | .difference => ms.headD false && !(ms.tail.any id)
  | .rdifference => (ms.tail.headD false) && !(ms.headD false)
  | .xor => (ms.countP id % 2) == 1
  | .first => ms.headD false
  | .second => ms.tail.headD false

def cellCentre (c : Cell) : Pt := ⟨(c.1 : ℚ) + 1 / 2, (c.2 : ℚ) + 1 / 2⟩

/-- Integer range `[lo, hi)`. -/
def irange (lo hi : Int) : List Int :=
  (List.range (hi - lo).toNat).map (fun k => lo + (k : Int))

structure Box where
  x0 : Int
  y0 : Int
  x1 : Int
  y1 : Int
deriving Repr

def Box.cells (b : Box) : List Cell :=
  (irange b.x0 b.x1).flatMap (fun i => (irange b.y0 b.y1).map (fun j => (i, j)))

/-- Smallest lattice box containing all points, enlarged by one cell on every side. -/
def boxOf (pts : List Pt) : Box :=
  match pts with
  | [] => ⟨0, 0, 0, 0⟩
  | p :: t =>
    let xmin := t.foldl (fun m q => min m q.x) p.x
    let xmax := t.foldl (fun m q => max m q.x) p.x
    let ymin := t.foldl (fun m q => min m q.y) p.y
    let ymax := t.foldl (fun m q => max m q.y) p.y
    ⟨Rat.floor xmin - 1, Rat.floor ymin - 1, Rat.ceil xmax + 1, Rat.ceil ymax + 1⟩

/-- The cells of a region inside a box. -/
def cellsOf (b : Box) (r : Region) : List Cell :=
  b.cells.filter (fun c => insideEO (cellCentre c) r)

/-- Distance of a rational to the nearest integer. -/
def offInt (q : ℚ) : ℚ := |q - (Rat.floor (q + 1 / 2) : ℚ)|

/-- First axis-parallel edge (longer than `tol`) that does not lie on a lattice line within
`tol`: a vertical edge whose `x`, or a horizontal edge whose `y`, is farther than `tol` from
every integer.  (Vertices may sit anywhere along a lattice line: extra collinear vertices do not
change the region.) -/
def offGrid (tol : ℚ) (l : Loop) : Option (Pt × Pt) :=
  (loopEdges l).find? (fun e =>
    let dx := |e.1.x - e.2.x|
    let dy := |e.1.y - e.2.y|
    (decide (dx ≤ tol) && decide (tol < dy) &&
      (decide (tol < offInt e.1.x) || decide (tol < offInt e.2.x))) ||
    (decide (dy ≤ tol) && decide (tol < dx) &&
      (decide (tol < offInt e.1.y) || decide (tol < offInt e.2.y))))

/-- First edge that is neither horizontal nor vertical within `tol`. -/
def diagonal (tol : ℚ) (l : Loop) : Option (Pt × Pt) :=
  (loopEdges l).find? (fun e => decide (tol < |e.1.x - e.2.x|) && decide (tol < |e.1.y - e.2.y|))

structure Report where
  nOperands : List Nat
  nExpected : Nat
  nResult : Nat
  /-- a cell of the expected set that no part covers -/
  missing : Option Cell
  /-- a cell covered by some part but not expected -/
  extra : Option Cell
  /-- a cell covered by two parts -/
  overlap : Option Cell
  offGrid : Option (Pt × Pt)
  diagonal : Option (Pt × Pt)
deriving Repr

/-- Compare the parts an implementation returned with `op` on the operands, on every cell of
the box around everything. -/
def check (op : Op) (operands : List Region) (faceMode : Bool) (parts : List (List Loop))
    (tol : ℚ) : Report :=
  let pts := (operands.flatMap (fun r => r.flatMap id)) ++ (parts.flatMap (fun r => r.flatMap id))
  let box := boxOf pts
  let rows := box.cells.map (fun c =>
    let p := cellCentre c
    let ms := operands.map (insideEO p)
    let cover := parts.countP (fun pt => insidePart faceMode p pt)
    (c, ms, op.eval ms, cover))
  let nOps := (List.range operands.length).map (fun k =>
    rows.countP (fun r => (r.2.1.getD k false)))
  { nOperands := nOps
    nExpected := rows.countP (fun r => r.2.2.1)
    nResult := rows.countP (fun r => decide (0 < r.2.2.2))
    missing := (rows.find? (fun r => r.2.2.1 && r.2.2.2 == 0)).map (·.1)
    extra := (rows.find? (fun r => !r.2.2.1 && decide (0 < r.2.2.2))).map (·.1)
    overlap := (rows.find? (fun r => decide (1 < r.2.2.2))).map (·.1)
    offGrid := (parts.flatMap id).findSome? (offGrid tol)
    diagonal := (parts.flatMap id).findSome? (diagonal tol) }

structure PointReport where
  /-- indices of query points where the parts disagree with `op` on the operands -/
  bad : List Nat
  /-- indices of query points covered by more than one part -/
  multi : List Nat
  /-- number of query points in the expected set -/
  nIn : Nat
deriving Repr

def checkPoints (op : Op) (operands : List Region) (faceMode : Bool) (parts : List (List Loop))
    (pts : List Pt) : PointReport :=
  let rows := pts.zipIdx.map (fun (p, i) =>
    let e := op.eval (operands.map (insideEO p))
    let cover := parts.countP (fun pt => insidePart faceMode p pt)
    (i, e, cover))
  { bad := (rows.filter (fun r => r.2.1 != decide (0 < r.2.2))).map (·.1)
    multi := (rows.filter (fun r => decide (1 < r.2.2))).map (·.1)
    nIn := rows.countP (fun r => r.2.1) }

/-! ### Fill-selection tables of `boolean.py`

A combined segment carries four fill bits `above1 below1 above2 below2`; the table entry at
index `8·above1 + 4·below1 + 2·above2 + below2` must be `0` when the operation has the same
value above and below the segment (it is not part of the result's boundary), `1` when the
result is filled only above, `2` when only below. -/

def selectSpec (op : Op) (a1 b1 a2 b2 : Bool) : Nat :=
  let above := op.eval [a1, a2]
  let below := op.eval [b1, b2]
  if above == below then 0 else if above then 1 else 2

def bit (n k : Nat) : Bool := (n / k) % 2 == 1

def specTable (op : Op) : List Nat :=
  (List.range 16).map (fun i => selectSpec op (bit i 8) (bit i 4) (bit i 2) (bit i 1))

/-- Indices at which a table disagrees with the specification (all 16 when the length is wrong). -/
def tableDiff (op : Op) (t : List Nat) : List Nat :=
  if t.length ≠ 16 then List.range 16 else
  (List.range 16).filter (fun i => t.getD i 99 != (specTable op).getD i 98)

/-- The tables as written in `boolean.py` (regenerated tables are checked against
`specTable` by the harness on every run; these literals document the expected value). -/
theorem specTable_union : specTable .union = [0, 2, 1, 0, 2, 2, 0, 0, 1, 0, 1, 0, 0, 0, 0, 0] := by
  decide
theorem specTable_intersect :
    specTable .intersect = [0, 0, 0, 0, 0, 2, 0, 2, 0, 0, 1, 1, 0, 2, 1, 0] := by decide
theorem specTable_difference :
    specTable .difference = [0, 0, 0, 0, 2, 0, 2, 0, 1, 1, 0, 0, 0, 1, 2, 0] := by decide
theorem specTable_rdifference :
    specTable .rdifference = [0, 2, 1, 0, 0, 0, 1, 1, 0, 2, 0, 2, 0, 0, 0, 0] := by decide
theorem specTable_xor : specTable .xor = [0, 2, 1, 0, 2, 0, 0, 1, 1, 0, 0, 2, 0, 1, 2, 0] := by
  decide

/-- The result of an operation on inverted (complemented) operands is inverted exactly when
the operation holds "at infinity" — the `is_inverted` flags of `_select_*`. -/
def invertedSpec (op : Op) (inv1 inv2 : Bool) : Bool := op.eval [inv1, inv2]

/-! ### Small facts about the specification -/

theorem orient_swap (a b p : Pt) : orient b a p = - orient a b p := by
  simp only [orient]; ring

/-- The crossing test does not depend on the direction in which the edge is given, hence
membership does not depend on the vertex order of a loop. -/
theorem edgeCrosses_symm (p a b : Pt) : edgeCrosses p a b = edgeCrosses p b a := by
  unfold edgeCrosses
  rw [orient_swap a b p]
  by_cases h1 : a.y ≤ p.y ∧ p.y < b.y
  · have h2 : ¬ (b.y ≤ p.y ∧ p.y < a.y) := fun h => by
      have := lt_of_le_of_lt h1.1 h1.2
      have := lt_of_le_of_lt h.1 h.2
      exact absurd (lt_trans ‹a.y < b.y› ‹b.y < a.y›) (lt_irrefl _)
    simp [h1, h2]
  · by_cases h2 : b.y ≤ p.y ∧ p.y < a.y
    · simp [h1, h2]
    · simp [h1, h2]

/-- Cell-wise inclusion–exclusion for the membership bits: the identity
`|A ∪ B| + |A ∩ B| = |A| + |B|` holds cell by cell. -/
theorem union_inter_count (a b : Bool) :
    (Op.eval .union [a, b]).toNat + (Op.eval .intersect [a, b]).toNat = a.toNat + b.toNat := by
  cases a <;> cases b <;> decide

/-- `A = (A \ B) ⊔ (A ∩ B)` cell by cell: the split parts partition the first operand. -/
theorem split_partition (a b : Bool) :
    (Op.eval .difference [a, b]).toNat + (Op.eval .intersect [a, b]).toNat = a.toNat ∧
    (Op.eval .rdifference [a, b]).toNat + (Op.eval .intersect [a, b]).toNat = b.toNat := by
  cases a <;> cases b <;> decide

/-- xor is the union of the two differences, which are disjoint. -/
theorem xor_split (a b : Bool) :
    (Op.eval .xor [a, b]).toNat =
      (Op.eval .difference [a, b]).toNat + (Op.eval .rdifference [a, b]).toNat := by
  cases a <;> cases b <;> decide

end Lbg.Spec.CellBool
