/-
  Spec/EdgeCount — executable specification of edge incidence counting (property C07).

  Input : an index structure, i.e. a list of faces; a face is a list of loops (the first is
          the boundary, the others are holes — meshes have exactly one loop per face); a loop
          is the cyclic list of its vertex indices.
  Output: for every undirected edge `{a, b}` (`a ≠ b`) used by some loop, the number of loop
          sides that use it, as a list sorted by edge.  Classification:
          naked = 1 use, internal = 2 uses, non-manifold = 3 or more.

  The specification counts by definition (`List.count` over the multiset of all sides); it
  does not look edges up incrementally as the implementation does.
-/
import LbgVerif.Basic
import Mathlib.Data.List.Perm.Basic
import Mathlib.Data.List.Rotate

namespace Lbg.Spec.EdgeCount

/-- Undirected edge, stored with the smaller index first. -/
abbrev Edge := Nat × Nat

def norm (a b : Nat) : Edge := if a ≤ b then (a, b) else (b, a)

/-- The sides of one cyclic loop, as undirected edges; a repeated index (`a = a`) is not a
side. -/
def loopEdges (l : List Nat) : List Edge :=
  ((Lbg.cyclicPairs l).filter (fun p => p.1 != p.2)).map (fun p => norm p.1 p.2)

def faceEdges (f : List (List Nat)) : List Edge := f.flatMap loopEdges

/-- All sides of all faces (a multiset, represented as a list). -/
def allEdges (fs : List (List (List Nat))) : List Edge := fs.flatMap faceEdges

/-- Number of loop sides on the undirected edge `e`. -/
def uses (fs : List (List (List Nat))) (e : Edge) : Nat := (allEdges fs).count e

def edgeLe (a b : Edge) : Bool := a.1 < b.1 || (a.1 == b.1 && a.2 ≤ b.2)

/-- The distinct edges of a multiset of sides, sorted. -/
def keysOf (es : List Edge) : List Edge := (es.mergeSort edgeLe).eraseDups

def edgeKeys (fs : List (List (List Nat))) : List Edge := keysOf (allEdges fs)

/-- Sorted list of (edge, number of sides on it) of a multiset of sides. -/
def countsOf (es : List Edge) : List (Edge × Nat) := (keysOf es).map (fun e => (e, es.count e))

/-- Sorted list of (edge, number of uses). -/
def edgeCounts (fs : List (List (List Nat))) : List (Edge × Nat) := countsOf (allEdges fs)

def nakedOf (cs : List (Edge × Nat)) : List Edge := (cs.filter (fun p => p.2 == 1)).map Prod.fst
def internalOf (cs : List (Edge × Nat)) : List Edge := (cs.filter (fun p => p.2 == 2)).map Prod.fst
def nonManifoldOf (cs : List (Edge × Nat)) : List Edge :=
  (cs.filter (fun p => decide (3 ≤ p.2))).map Prod.fst
def closedOf (cs : List (Edge × Nat)) : Bool := cs.all (fun p => p.2 == 2)

/-- Edges used by exactly one face side. -/
def naked (fs : List (List (List Nat))) : List Edge := nakedOf (edgeCounts fs)
/-- Edges used by exactly two face sides. -/
def internal (fs : List (List (List Nat))) : List Edge := internalOf (edgeCounts fs)
/-- Edges used by three or more face sides. -/
def nonManifold (fs : List (List (List Nat))) : List Edge := nonManifoldOf (edgeCounts fs)
/-- Closed 2-manifold edge condition: every edge is used exactly twice. -/
def isClosed (fs : List (List (List Nat))) : Bool := closedOf (edgeCounts fs)

/-! ### Small facts about the specification -/

/-- Every entry of `edgeCounts` carries the number of uses of its edge. -/
theorem edgeCounts_snd (fs : List (List (List Nat))) :
    ∀ p ∈ edgeCounts fs, p.2 = uses fs p.1 := by
  intro p hp
  unfold edgeCounts countsOf at hp
  obtain ⟨e, _, rfl⟩ := List.mem_map.mp hp
  rfl

theorem norm_comm (a b : Nat) : norm a b = norm b a := by
  unfold norm
  by_cases h : a ≤ b
  · by_cases h' : b ≤ a
    · have : a = b := Nat.le_antisymm h h'
      subst this; simp
    · simp [h, h']
  · have h' : b ≤ a := Nat.le_of_lt (Nat.lt_of_not_le h)
    simp [h, h']

theorem norm_fst_le_snd (a b : Nat) : (norm a b).1 ≤ (norm a b).2 := by
  unfold norm
  by_cases h : a ≤ b
  · simp [h]
  · have h' : b ≤ a := Nat.le_of_lt (Nat.lt_of_not_le h)
    simp [h, h']

/-- The count does not depend on the order in which the faces are given. -/
theorem uses_perm {fs gs : List (List (List Nat))} (h : fs.Perm gs) (e : Edge) :
    uses fs e = uses gs e := by
  unfold uses allEdges
  exact (h.flatMap_right faceEdges).count_eq e

/-- Adding a face adds its own sides to the count. -/
theorem uses_cons (f : List (List Nat)) (fs : List (List (List Nat))) (e : Edge) :
    uses (f :: fs) e = (faceEdges f).count e + uses fs e := by
  unfold uses allEdges
  simp [List.flatMap_cons, List.count_append]

/-- A duplicated face counts twice. -/
theorem uses_dup (f : List (List Nat)) (fs : List (List (List Nat))) (e : Edge) :
    uses (f :: f :: fs) e = 2 * (faceEdges f).count e + uses fs e := by
  rw [uses_cons, uses_cons]; omega

end Lbg.Spec.EdgeCount
