/-
  Helper lemmas for the `_segmentChainer` theorems (Props/C04b), part 2: facts about the search
  loop (`findMatches`), the relation "chain obtained from a full chain by dropping collinear
  points", and the GHOST chainer: the same program as `Model/Chainer.step`, taking the same
  decisions from the same (actual) chains, that additionally carries for every chain the full
  point sequence with nothing dropped.  `gstep_erase` shows that forgetting the ghost gives the
  model exactly.
-/
import LbgVerif.Model.Chainer
import LbgVerif.Lemmas.ChainerBasic
import Mathlib.Logic.Relation

namespace Lbg.Lemmas.Chainer
open Lbg Lbg.Model.Chainer

variable {α : Type}

/-! ## The search loop -/

section Matching
variable (eqv : V2 α → V2 α → Bool) (z : V2 α)

theorem allMatches_spec (pt1 pt2 : V2 α) (cs : List (List (V2 α))) (i : Nat) (m : Matcher)
    (hm : m ∈ allMatches eqv z pt1 pt2 cs i) :
    i ≤ m.index ∧ m.index - i < cs.length ∧
      matchChain eqv z (cs.getD (m.index - i) []) pt1 pt2 = some (m.matchesHead, m.matchesPt1) := by
  induction cs generalizing i with
  | nil => simp [allMatches] at hm
  | cons c cs ih =>
    unfold allMatches at hm
    cases hc : matchChain eqv z c pt1 pt2 with
    | none =>
      rw [hc] at hm
      obtain ⟨h1, h2, h3⟩ := ih (i + 1) hm
      refine ⟨by omega, by simp; omega, ?_⟩
      have : m.index - i = (m.index - (i + 1)) + 1 := by omega
      rw [this, List.getD_cons_succ]; exact h3
    | some hp =>
      rw [hc] at hm
      obtain ⟨h, p⟩ := hp
      simp only [List.mem_cons] at hm
      rcases hm with rfl | hm
      · simp [hc]
      · obtain ⟨h1, h2, h3⟩ := ih (i + 1) hm
        refine ⟨by omega, by simp; omega, ?_⟩
        have : m.index - i = (m.index - (i + 1)) + 1 := by omega
        rw [this, List.getD_cons_succ]; exact h3

/-- The indices reported by the search are strictly increasing. -/
theorem allMatches_sorted (pt1 pt2 : V2 α) (cs : List (List (V2 α))) (i : Nat) :
    (allMatches eqv z pt1 pt2 cs i).Pairwise (fun a b => a.index < b.index) := by
  induction cs generalizing i with
  | nil => simp [allMatches]
  | cons c cs ih =>
    unfold allMatches
    cases hc : matchChain eqv z c pt1 pt2 with
    | none => exact ih (i + 1)
    | some hp =>
      obtain ⟨h, p⟩ := hp
      simp only [List.pairwise_cons]
      refine ⟨?_, ih (i + 1)⟩
      intro m hm
      have := (allMatches_spec eqv z pt1 pt2 cs (i + 1) m hm).1
      simp; omega

/-- A chain that is not reported does not match. -/
theorem allMatches_complete (pt1 pt2 : V2 α) (cs : List (List (V2 α))) (i : Nat) (j : Nat)
    (hj : j < cs.length)
    (hno : ∀ m ∈ allMatches eqv z pt1 pt2 cs i, m.index ≠ i + j) :
    matchChain eqv z (cs.getD j []) pt1 pt2 = none := by
  induction cs generalizing i j with
  | nil => simp at hj
  | cons c cs ih =>
    unfold allMatches at hno
    cases hc : matchChain eqv z c pt1 pt2 with
    | none =>
      rw [hc] at hno
      cases j with
      | zero => simpa using hc
      | succ j =>
        rw [List.getD_cons_succ]
        apply ih (i + 1) j (by simpa using hj)
        intro m hm; have := hno m hm; omega
    | some hp =>
      obtain ⟨h, p⟩ := hp
      rw [hc] at hno
      cases j with
      | zero => exact absurd rfl (hno ⟨i, h, p⟩ (by simp))
      | succ j =>
        rw [List.getD_cons_succ]
        apply ih (i + 1) j (by simpa using hj)
        intro m hm; have := hno m (by simp [hm]); omega

end Matching

/-! ## Dropping collinear points -/

section Drop
variable (col : V2 α → V2 α → V2 α → Bool)

/-- One interior point `b` of a chain is dropped; its neighbours `a`, `c` passed the code's
collinearity test with it (in one of the two orders in which the code calls it). -/
inductive DropStep : List (V2 α) → List (V2 α) → Prop
  | mk (l1 : List (V2 α)) (a b c : V2 α) (l2 : List (V2 α)) :
      (col a b c = true ∨ col c b a = true) →
      DropStep (l1 ++ a :: b :: c :: l2) (l1 ++ a :: c :: l2)

/-- `Reduces col full chain`: `chain` is `full` after finitely many such drops. -/
def Reduces : List (V2 α) → List (V2 α) → Prop := Relation.ReflTransGen (DropStep col)

/-- The same for a closed loop, where the first and the last point are neighbours: the first
or the last point may be dropped too (and a loop of one point may vanish). -/
inductive LoopDropStep : List (V2 α) → List (V2 α) → Prop
  | inner {l l' : List (V2 α)} : DropStep col l l' → LoopDropStep l l'
  | head (b : V2 α) (l : List (V2 α)) (a c : V2 α) : l.getLast? = some a → l.head? = some c →
      (col a b c = true ∨ col c b a = true) → LoopDropStep (b :: l) l
  | last (l : List (V2 α)) (b : V2 α) (a c : V2 α) : l.getLast? = some a → l.head? = some c →
      (col a b c = true ∨ col c b a = true) → LoopDropStep (l ++ [b]) l
  | point (b : V2 α) : LoopDropStep [b] []

/-- `LoopReduces col full region`. -/
def LoopReduces : List (V2 α) → List (V2 α) → Prop := Relation.ReflTransGen (LoopDropStep col)

variable {col}

theorem DropStep.cons (x : V2 α) {l l' : List (V2 α)} (h : DropStep col l l') :
    DropStep col (x :: l) (x :: l') := by
  obtain ⟨l1, a, b, c, l2, hc⟩ := h
  exact DropStep.mk (x :: l1) a b c l2 hc

theorem DropStep.append_left (r : List (V2 α)) {l l' : List (V2 α)} (h : DropStep col l l') :
    DropStep col (r ++ l) (r ++ l') := by
  induction r with
  | nil => exact h
  | cons x r ih => exact ih.cons x

theorem DropStep.append_right (r : List (V2 α)) {l l' : List (V2 α)} (h : DropStep col l l') :
    DropStep col (l ++ r) (l' ++ r) := by
  obtain ⟨l1, a, b, c, l2, hc⟩ := h
  have := DropStep.mk (col := col) l1 a b c (l2 ++ r) hc
  simpa using this

theorem DropStep.reverse {l l' : List (V2 α)} (h : DropStep col l l') :
    DropStep col l.reverse l'.reverse := by
  obtain ⟨l1, a, b, c, l2, hc⟩ := h
  have := DropStep.mk (col := col) l2.reverse c b a l1.reverse hc.symm
  simpa using this

theorem DropStep.head? {l l' : List (V2 α)} (h : DropStep col l l') : l'.head? = l.head? := by
  obtain ⟨l1, a, b, c, l2, _⟩ := h
  cases l1 <;> simp

theorem DropStep.getLast? {l l' : List (V2 α)} (h : DropStep col l l') :
    l'.getLast? = l.getLast? := by
  have := h.reverse.head?
  simpa using this

theorem DropStep.length {l l' : List (V2 α)} (h : DropStep col l l') :
    l.length = l'.length + 1 ∧ 2 ≤ l'.length := by
  obtain ⟨l1, a, b, c, l2, _⟩ := h
  simp; omega

theorem DropStep.mem {l l' : List (V2 α)} (h : DropStep col l l') {p : V2 α} (hp : p ∈ l') :
    p ∈ l := by
  obtain ⟨l1, a, b, c, l2, _⟩ := h
  simp at hp ⊢; tauto

theorem Reduces.refl (l : List (V2 α)) : Reduces col l l := Relation.ReflTransGen.refl

theorem Reduces.trans {a b c : List (V2 α)} (h1 : Reduces col a b) (h2 : Reduces col b c) :
    Reduces col a c := Relation.ReflTransGen.trans h1 h2

theorem Reduces.step {a b c : List (V2 α)} (h1 : Reduces col a b) (h2 : DropStep col b c) :
    Reduces col a c := Relation.ReflTransGen.tail h1 h2

theorem Reduces.cons (x : V2 α) {l l' : List (V2 α)} (h : Reduces col l l') :
    Reduces col (x :: l) (x :: l') :=
  Relation.ReflTransGen.lift (fun l => x :: l) (fun _ _ h => DropStep.cons x h) _ _ h

theorem Reduces.append_left (r : List (V2 α)) {l l' : List (V2 α)} (h : Reduces col l l') :
    Reduces col (r ++ l) (r ++ l') :=
  Relation.ReflTransGen.lift (fun l => r ++ l) (fun _ _ h => DropStep.append_left r h) _ _ h

theorem Reduces.append_right (r : List (V2 α)) {l l' : List (V2 α)} (h : Reduces col l l') :
    Reduces col (l ++ r) (l' ++ r) :=
  Relation.ReflTransGen.lift (fun l => l ++ r) (fun _ _ h => DropStep.append_right r h) _ _ h

theorem Reduces.append {l1 l1' l2 l2' : List (V2 α)} (h1 : Reduces col l1 l1')
    (h2 : Reduces col l2 l2') : Reduces col (l1 ++ l2) (l1' ++ l2') :=
  (h1.append_right l2).trans (h2.append_left l1')

theorem Reduces.reverse {l l' : List (V2 α)} (h : Reduces col l l') :
    Reduces col l.reverse l'.reverse :=
  Relation.ReflTransGen.lift List.reverse (fun _ _ h => DropStep.reverse h) _ _ h

theorem Reduces.head? {l l' : List (V2 α)} (h : Reduces col l l') : l'.head? = l.head? := by
  induction h with
  | refl => rfl
  | tail _ h2 ih => rw [h2.head?, ih]

theorem Reduces.getLast? {l l' : List (V2 α)} (h : Reduces col l l') :
    l'.getLast? = l.getLast? := by
  induction h with
  | refl => rfl
  | tail _ h2 ih => rw [h2.getLast?, ih]

theorem Reduces.length_le {l l' : List (V2 α)} (h : Reduces col l l') :
    l'.length ≤ l.length := by
  induction h with
  | refl => exact le_refl _
  | tail _ h2 ih => have := h2.length; omega

theorem Reduces.mem {l l' : List (V2 α)} (h : Reduces col l l') {p : V2 α} (hp : p ∈ l') :
    p ∈ l := by
  induction h with
  | refl => exact hp
  | tail _ h2 ih => exact ih (h2.mem hp)

theorem Reduces.toLoop {l l' : List (V2 α)} (h : Reduces col l l') : LoopReduces col l l' :=
  Relation.ReflTransGen.mono (fun _ _ h' => LoopDropStep.inner h') _ _ h

theorem LoopReduces.mem {l l' : List (V2 α)} (h : LoopReduces col l l') {p : V2 α}
    (hp : p ∈ l') : p ∈ l := by
  induction h with
  | refl => exact hp
  | tail _ h2 ih =>
    apply ih
    cases h2 with
    | inner h => exact h.mem hp
    | head b l a c _ _ _ => exact List.mem_cons_of_mem _ hp
    | last l b a c _ _ _ => exact List.mem_append_left _ hp
    | point b => simp at hp

theorem LoopReduces.length_le {l l' : List (V2 α)} (h : LoopReduces col l l') :
    l'.length ≤ l.length := by
  induction h with
  | refl => exact le_refl _
  | tail _ h2 ih =>
    cases h2 with
    | inner h => have := h.length; omega
    | head b l a c _ _ _ => simp at ih ⊢; omega
    | last l b a c _ _ _ => simp at ih ⊢; omega
    | point b => simp

end Drop

/-! ## The ghost chainer -/

section Ghost

/-- (actual chain, full chain). -/
abbrev GChain (α : Type) := List (V2 α) × List (V2 α)

structure GState (α : Type) where
  chains : List (GChain α)
  regions : List (GChain α)

/-- Forget the ghosts. -/
def GState.erase (g : GState α) : State α :=
  ⟨g.chains.map Prod.fst, g.regions.map Prod.fst⟩

variable (eqv : V2 α → V2 α → Bool) (col : V2 α → V2 α → V2 α → Bool) (z : V2 α)

def gappendChain (chains : List (GChain α)) (i1 i2 : Nat) : List (GChain α) :=
  let chain1 := (chains.getD i1 ([], [])).1
  let chain2 := (chains.getD i2 ([], [])).1
  let tail := nthBack chain1 0 z
  let tail2 := nthBack chain1 1 z
  let head := nth chain2 0 z
  let head2 := nth chain2 1 z
  let c1 := col tail2 tail head
  let chain1' := if c1 then chain1.dropLast else chain1
  let tail' := if c1 then tail2 else tail
  let chain2' := if col tail' head head2 then chain2.tail else chain2
  (chains.set i1 (chain1' ++ chain2',
    (chains.getD i1 ([], [])).2 ++ (chains.getD i2 ([], [])).2)).eraseIdx i2

def greverseChain (chains : List (GChain α)) (i : Nat) : List (GChain α) :=
  chains.set i ((chains.getD i ([], [])).1.reverse, (chains.getD i ([], [])).2.reverse)

def ggrowChain (st : GState α) (m : Matcher) (pt1 pt2 : V2 α) : GState α :=
  let index := m.index
  let pt := if m.matchesPt1 then pt2 else pt1
  let addToHead := m.matchesHead
  let chain := (st.chains.getD index ([], [])).1
  let full := (st.chains.getD index ([], [])).2
  let grow := if addToHead then nth chain 0 z else nthBack chain 0 z
  let grow2 := if addToHead then nth chain 1 z else nthBack chain 1 z
  let oppo := if addToHead then nthBack chain 0 z else nth chain 0 z
  let oppo2 := if addToHead then nthBack chain 1 z else nth chain 1 z
  let c1 := col grow2 grow pt
  let chainA := if c1 then (if addToHead then chain.tail else chain.dropLast) else chain
  let growA := if c1 then grow2 else grow
  if eqv oppo pt then
    let chainB := if col oppo2 oppo growA then
        (if addToHead then chainA.dropLast else chainA.tail) else chainA
    { chains := st.chains.eraseIdx index, regions := st.regions ++ [(chainB, full)] }
  else
    let chainB := if addToHead then pt :: chainA else chainA ++ [pt]
    let fullB := if addToHead then pt :: full else full ++ [pt]
    { chains := st.chains.set index (chainB, fullB), regions := st.regions }

def gjoinChains (st : GState α) (m1 m2 : Matcher) : GState α :=
  let f := m1.index
  let s := m2.index
  let reverseF := decide ((st.chains.getD f ([], [])).1.length < (st.chains.getD s ([], [])).1.length)
  let chains :=
    if m1.matchesHead then
      if m2.matchesHead then
        if reverseF then gappendChain col z (greverseChain st.chains f) f s
        else gappendChain col z (greverseChain st.chains s) s f
      else gappendChain col z st.chains s f
    else
      if m2.matchesHead then gappendChain col z st.chains f s
      else
        if reverseF then gappendChain col z (greverseChain st.chains f) s f
        else gappendChain col z (greverseChain st.chains s) f s
  { chains := chains, regions := st.regions }

def gstep (st : GState α) (seg : V2 α × V2 α) : GState α :=
  let pt1 := seg.1
  let pt2 := seg.2
  if eqv pt1 pt2 then st
  else
    match findMatches eqv z (st.chains.map Prod.fst) pt1 pt2 with
    | [] => { chains := st.chains ++ [([pt1, pt2], [pt1, pt2])], regions := st.regions }
    | [m] => ggrowChain eqv col z st m pt1 pt2
    | m1 :: m2 :: _ => gjoinChains col z st m1 m2

def grun (segs : List (V2 α × V2 α)) : GState α :=
  segs.foldl (gstep eqv col z) ⟨[], []⟩

/-! ### Forgetting the ghost gives the model -/

theorem map_fst_eraseIdx (l : List (GChain α)) (i : Nat) :
    (l.eraseIdx i).map Prod.fst = (l.map Prod.fst).eraseIdx i := by
  induction l generalizing i with
  | nil => rfl
  | cons a l ih =>
    cases i with
    | zero => rfl
    | succ i => simp [ih]

theorem getD_map_fst (l : List (GChain α)) (i : Nat) :
    (l.map Prod.fst).getD i [] = (l.getD i ([], [])).1 := by
  simp only [List.getD_eq_getElem?_getD, List.getElem?_map]
  cases l[i]? <;> rfl

theorem gappendChain_erase (chains : List (GChain α)) (i1 i2 : Nat) :
    (gappendChain col z chains i1 i2).map Prod.fst =
      appendChain col z (chains.map Prod.fst) i1 i2 := by
  unfold gappendChain appendChain
  simp only [getD_map_fst, map_fst_eraseIdx, List.map_set]

theorem greverseChain_erase (chains : List (GChain α)) (i : Nat) :
    (greverseChain chains i).map Prod.fst = reverseChain (chains.map Prod.fst) i := by
  unfold greverseChain reverseChain
  simp only [getD_map_fst, List.map_set]

theorem ggrowChain_erase (st : GState α) (m : Matcher) (pt1 pt2 : V2 α) :
    (ggrowChain eqv col z st m pt1 pt2).erase = growChain eqv col z st.erase m pt1 pt2 := by
  unfold ggrowChain growChain GState.erase
  simp only [getD_map_fst]
  split_ifs <;> simp [map_fst_eraseIdx, List.map_set]

theorem gjoinChains_erase (st : GState α) (m1 m2 : Matcher) :
    (gjoinChains col z st m1 m2).erase = joinChains col z st.erase m1 m2 := by
  unfold gjoinChains joinChains GState.erase
  simp only [getD_map_fst]
  split_ifs <;>
    simp only [gappendChain_erase, greverseChain_erase]

theorem gstep_erase (st : GState α) (seg : V2 α × V2 α) :
    (gstep eqv col z st seg).erase = step eqv col z st.erase seg := by
  unfold gstep step
  by_cases h : eqv seg.1 seg.2 = true
  · simp [h]
  · simp only [h, Bool.false_eq_true, ↓reduceIte]
    have e : st.erase.chains = st.chains.map Prod.fst := rfl
    rw [e]
    cases hm : findMatches eqv z (st.chains.map Prod.fst) seg.1 seg.2 with
    | nil => simp [GState.erase]
    | cons m1 rest =>
      cases rest with
      | nil => exact ggrowChain_erase eqv col z st m1 seg.1 seg.2
      | cons m2 rest => exact gjoinChains_erase col z st m1 m2

theorem grun_erase (segs : List (V2 α × V2 α)) :
    (grun eqv col z segs).erase = run eqv col z segs := by
  unfold grun run
  have : ∀ (g : GState α) (s : State α), g.erase = s →
      (segs.foldl (gstep eqv col z) g).erase = segs.foldl (step eqv col z) s := by
    induction segs with
    | nil => intro g s h; exact h
    | cons seg segs ih =>
      intro g s h
      simp only [List.foldl_cons]
      apply ih
      rw [gstep_erase, h]
  exact this _ _ rfl

end Ghost

end Lbg.Lemmas.Chainer
