/-
  Lemmas.JoinOutlineInsert — `Polygon2D._insert_updates_in_order` (model
  `Model.JoinOutline.insertUpdates`): the result is the original vertex list with, after vertex
  `i`, the block of the points inserted on segment `i`, each block built by ordered insertion by
  distance from vertex `i`.
-/
import LbgVerif.Model.JoinOutline
import LbgVerif.Lemmas.Shoelace
import Mathlib.Tactic.Linarith

namespace Lbg.Lemmas.JoinOutline
open Lbg Lbg.Gen Lbg.Lemmas Lbg.Model.JoinOutline

/-! ### `insertAt` -/

section ListOps
variable {β : Type}

theorem insertAt_perm (l : List β) (k : Nat) (x : β) : (insertAt l k x).Perm (x :: l) := by
  unfold insertAt
  have h : (l.take k ++ x :: l.drop k).Perm (x :: (l.take k ++ l.drop k)) :=
    List.perm_middle
  rwa [List.take_append_drop] at h

theorem insertAt_sublist (l : List β) (k : Nat) (x : β) : l.Sublist (insertAt l k x) := by
  unfold insertAt
  conv_lhs => rw [← List.take_append_drop k l]
  exact List.Sublist.append (List.Sublist.refl _) (List.sublist_cons_self _ _)

theorem insertAt_append_left (l₁ l₂ : List β) (m : Nat) (x : β) :
    insertAt (l₁ ++ l₂) (l₁.length + m) x = l₁ ++ insertAt l₂ m x := by
  unfold insertAt
  rw [List.take_append, List.drop_append]
  simp [List.take_of_length_le, List.drop_eq_nil_of_le]

theorem insertAt_append_right (l₁ l₂ : List β) (m : Nat) (x : β) (hm : m ≤ l₁.length) :
    insertAt (l₁ ++ l₂) m x = insertAt l₁ m x ++ l₂ := by
  unfold insertAt
  rw [List.take_append_of_le_length hm, List.drop_append_of_le_length hm]
  simp

theorem insertAt_nil (x : β) (k : Nat) : insertAt ([] : List β) k x = [x] := by
  simp [insertAt]

/-- The original list with, after its `i`-th element (`i` counted from `off`), the block
`B (off + i)`. -/
def expand (B : Nat → List β) : List β → Nat → List β
  | [], _ => []
  | v :: t, off => v :: (B off ++ expand B t (off + 1))

theorem expand_congr (B B' : Nat → List β) (vs : List β) (off : Nat)
    (h : ∀ k, off ≤ k → B k = B' k) : expand B vs off = expand B' vs off := by
  induction vs generalizing off with
  | nil => rfl
  | cons v t ih =>
    simp only [expand]
    rw [h off (le_refl _), ih (off + 1) (fun k hk => h k (by omega))]

/-- With empty blocks before position `i`, the expansion starts with the first `i + 1` original
elements, then block `i`, then the expansion of the rest. -/
theorem expand_split (B : Nat → List β) (vs : List β) (off i : Nat) (hi : i < vs.length)
    (h0 : ∀ k, off ≤ k → k < off + i → B k = []) :
    expand B vs off = vs.take (i + 1) ++ (B (off + i) ++ expand B (vs.drop (i + 1)) (off + i + 1)) := by
  induction i generalizing vs off with
  | zero =>
    cases vs with
    | nil => simp at hi
    | cons v t => simp [expand]
  | succ i ih =>
    cases vs with
    | nil => simp at hi
    | cons v t =>
      simp only [expand]
      rw [h0 off (le_refl _) (by omega)]
      have hi' : i < t.length := by simpa using hi
      rw [ih t (off + 1) hi' (fun k hk1 hk2 => h0 k (by omega) (by omega))]
      simp only [List.nil_append, List.take_succ_cons, List.drop_succ_cons, List.cons_append]
      have e1 : off + 1 + i = off + (i + 1) := by omega
      rw [e1]

theorem expand_perm (B : Nat → List β) (vs : List β) (off : Nat) :
    (expand B vs off).Perm (vs ++ (List.range vs.length).flatMap (fun k => B (off + k))) := by
  induction vs generalizing off with
  | nil => simp [expand]
  | cons v t ih =>
    simp only [expand, List.length_cons, List.cons_append]
    refine List.Perm.cons v ?_
    rw [List.range_succ_eq_map, List.flatMap_cons, List.flatMap_map]
    have h := ih (off + 1)
    have e : (fun k => B (off + 1 + k)) = (fun k => B (off + (k + 1))) := by
      funext k; congr 1; omega
    rw [e] at h
    simp only [Nat.add_zero]
    refine (List.Perm.append_left _ h).trans ?_
    rw [← List.append_assoc, ← List.append_assoc]
    exact List.Perm.append_right _ List.perm_append_comm

theorem sublist_expand (B : Nat → List β) (vs : List β) (off : Nat) :
    vs.Sublist (expand B vs off) := by
  induction vs generalizing off with
  | nil => simp
  | cons v t ih =>
    simp only [expand]
    exact List.Sublist.cons_cons v ((ih (off + 1)).trans (List.sublist_append_right _ _))

end ListOps

/-! ### Ordered insertion into a block -/

section Blocks
variable {β α : Type} [LinearOrder α]

/-- Insert `p` before the first element that is strictly farther (`d p < d q`), else at the end:
what the inner `for … break … else` of the source does on the block of one segment. -/
def insSorted (d : β → α) (p : β) : List β → List β
  | [] => [p]
  | q :: t => if d p < d q then p :: q :: t else q :: insSorted d p t

theorem insSorted_eq_insertAt (d : β → α) (p : β) (blk : List β) :
    insSorted d p blk =
      insertAt blk ((blk.findIdx? (fun q => decide (d p < d q))).getD blk.length) p := by
  induction blk with
  | nil => simp [insSorted, insertAt]
  | cons q t ih =>
    simp only [insSorted, List.findIdx?_cons]
    by_cases h : d p < d q
    · simp [h, insertAt]
    · simp only [h, if_false, decide_false, Bool.false_eq_true]
      rw [ih]
      cases hf : t.findIdx? (fun q => decide (d p < d q)) with
      | none => simp [insertAt]
      | some i => simp [insertAt]

theorem insSorted_perm (d : β → α) (p : β) (blk : List β) : (insSorted d p blk).Perm (p :: blk) := by
  rw [insSorted_eq_insertAt]; exact insertAt_perm _ _ _

theorem insSorted_sorted (d : β → α) (p : β) (blk : List β)
    (h : blk.Pairwise (fun a b => d a ≤ d b)) :
    (insSorted d p blk).Pairwise (fun a b => d a ≤ d b) := by
  induction blk with
  | nil => simp [insSorted]
  | cons q t ih =>
    simp only [insSorted]
    by_cases hq : d p < d q
    · simp only [hq, if_true]
      refine List.Pairwise.cons ?_ h
      intro b hb
      rcases List.mem_cons.1 hb with rfl | hb
      · exact le_of_lt hq
      · exact le_trans (le_of_lt hq) (List.rel_of_pairwise_cons h hb)
    · simp only [hq, if_false]
      refine List.Pairwise.cons ?_ (ih h.of_cons)
      intro b hb
      rcases List.mem_cons.1 ((insSorted_perm d p t).mem_iff.1 hb) with rfl | hb'
      · exact not_lt.1 hq
      · exact List.rel_of_pairwise_cons h hb'

/-- The block of segment `i` after processing the update list `R` in order. -/
def blockOf (d : β → α) (i : Nat) (R : List (Nat × β)) : List β :=
  (R.filter (fun u => u.1 == i)).foldl (fun blk u => insSorted d u.2 blk) []

theorem foldl_insSorted_perm (d : β → α) (us : List (Nat × β)) (blk : List β) :
    (us.foldl (fun blk u => insSorted d u.2 blk) blk).Perm (blk ++ us.map (·.2)) := by
  induction us generalizing blk with
  | nil => simp
  | cons u t ih =>
    simp only [List.foldl_cons, List.map_cons]
    refine (ih _).trans ?_
    refine ((insSorted_perm d u.2 blk).append_right _).trans ?_
    simp only [List.cons_append]
    exact List.perm_middle.symm

theorem foldl_insSorted_sorted (d : β → α) (us : List (Nat × β)) (blk : List β)
    (h : blk.Pairwise (fun a b => d a ≤ d b)) :
    (us.foldl (fun blk u => insSorted d u.2 blk) blk).Pairwise (fun a b => d a ≤ d b) := by
  induction us generalizing blk with
  | nil => simpa
  | cons u t ih => exact ih _ (insSorted_sorted d u.2 blk h)

theorem blockOf_perm (d : β → α) (i : Nat) (R : List (Nat × β)) :
    (blockOf d i R).Perm ((R.filter (fun u => u.1 == i)).map (·.2)) := by
  simpa [blockOf] using foldl_insSorted_perm d (R.filter (fun u => u.1 == i)) []

theorem blockOf_sorted (d : β → α) (i : Nat) (R : List (Nat × β)) :
    (blockOf d i R).Pairwise (fun a b => d a ≤ d b) :=
  foldl_insSorted_sorted d _ [] List.Pairwise.nil

theorem blockOf_append_single (d : β → α) (i : Nat) (R : List (Nat × β)) (u : Nat × β) :
    blockOf d i (R ++ [u]) = if u.1 = i then insSorted d u.2 (blockOf d i R) else blockOf d i R := by
  unfold blockOf
  rw [List.filter_append]
  by_cases h : u.1 = i
  · simp [h, List.foldl_append]
  · simp [h]

end Blocks

/-! ### The loop of `_insert_updates_in_order` -/

section Loop
variable {β : Type}

/-- Replace block `i`. -/
def setBlock (B : Nat → List β) (i : Nat) (blk : List β) : Nat → List β :=
  fun k => if k = i then blk else B k

/-- Inserting `p` at offset `m` of block `i` (all earlier blocks empty) in the expanded list. -/
theorem expand_insert (B : Nat → List β) (vs : List β) (i m : Nat) (p : β) (hi : i < vs.length)
    (h0 : ∀ k, k < i → B k = []) (hm : m ≤ (B i).length) :
    insertAt (expand B vs 0) (i + 1 + m) p = expand (setBlock B i (insertAt (B i) m p)) vs 0 := by
  rw [expand_split B vs 0 i hi (fun k _ hk => h0 k (by omega))]
  rw [expand_split (setBlock B i (insertAt (B i) m p)) vs 0 i hi
    (fun k _ hk => by
      have : k ≠ i := by omega
      simp only [setBlock, this, if_false]; exact h0 k (by omega))]
  have hlen : (vs.take (i + 1)).length = i + 1 := by
    rw [List.length_take]; omega
  have e : i + 1 + m = (vs.take (i + 1)).length + m := by rw [hlen]
  rw [e, insertAt_append_left]
  simp only [Nat.zero_add]
  rw [insertAt_append_right _ _ _ _ hm]
  have e2 : setBlock B i (insertAt (B i) m p) i = insertAt (B i) m p := by simp [setBlock]
  rw [e2]
  rw [expand_congr (setBlock B i (insertAt (B i) m p)) B (vs.drop (i + 1)) (i + 1)
    (fun k hk => by
      have : k ≠ i := by omega
      simp [setBlock, this])]

theorem expand_nil_blocks (vs : List β) (off : Nat) : expand (fun _ => []) vs off = vs := by
  induction vs generalizing off with
  | nil => rfl
  | cons v t ih => simp only [expand, List.nil_append]; rw [ih]

variable {α : Type} [Field α] [LinearOrder α]

/-- Loop invariant: the working list is the expansion of the blocks; blocks below the segment
treated last are empty; `colinear_count + 1` is the size of the block treated last. -/
structure Inv (vs : List (V2 α)) (st : List (V2 α) × Nat × Nat) (B : Nat → List (V2 α)) : Prop where
  pts : st.1 = expand B vs 0
  low : ∀ k, (st.2.1 = 0 ∨ k + 1 < st.2.1) → B k = []
  cnt : st.2.1 ≠ 0 → (B (st.2.1 - 1)).length = st.2.2 + 1

theorem insertStep_lastI (dist : V2 α → V2 α → α) (st : List (V2 α) × Nat × Nat)
    (u : Nat × V2 α) : (insertStep dist st u).2.1 = u.1 + 1 := by
  unfold insertStep
  simp only []
  split_ifs with h
  · split <;> rfl
  · rfl

theorem insertStep_inv (dist : V2 α → V2 α → α) (vs : List (V2 α))
    (st : List (V2 α) × Nat × Nat) (B : Nat → List (V2 α)) (u : Nat × V2 α)
    (hI : Inv vs st B) (hu : u.1 < vs.length) (hdesc : st.2.1 = 0 ∨ u.1 + 1 ≤ st.2.1) :
    Inv vs (insertStep dist st u)
      (setBlock B u.1 (insSorted (dist (vs.getD u.1 ⟨0, 0⟩)) u.2 (B u.1))) := by
  obtain ⟨hpts, hlow, hcnt⟩ := hI
  have hbelow : ∀ k, k < u.1 → B k = [] := by
    intro k hk
    apply hlow
    rcases hdesc with h | h
    · exact Or.inl h
    · exact Or.inr (by omega)
  have hsplit := expand_split B vs 0 u.1 hu (fun k _ hk => hbelow k (by omega))
  simp only [Nat.zero_add] at hsplit
  have hlen : (vs.take (u.1 + 1)).length = u.1 + 1 := by
    rw [List.length_take]; omega
  by_cases h : u.1 + 1 = st.2.1
  · -- a further update on the segment treated last
    have hne : st.2.1 ≠ 0 := by omega
    have hc := hcnt hne
    have hidx : st.2.1 - 1 = u.1 := by omega
    rw [hidx] at hc
    have hp1 : st.1.getD u.1 ⟨0, 0⟩ = vs.getD u.1 ⟨0, 0⟩ := by
      rw [hpts, hsplit]
      simp only [List.getD_eq_getElem?_getD]
      rw [List.getElem?_append_left (by rw [hlen]; omega)]
      rw [List.getElem?_take_of_lt (by omega)]
    have hslice : (st.1.drop (u.1 + 1)).take (st.2.2 + 1) = B u.1 := by
      rw [hpts, hsplit]
      rw [List.drop_append_of_le_length (by rw [hlen])]
      rw [List.drop_of_length_le (by rw [hlen]), List.nil_append, ← hc]
      simp
    have hstep : insertStep dist st u =
        (insertAt st.1 (u.1 + 1 +
          ((B u.1).findIdx? (fun pt => decide (dist (vs.getD u.1 ⟨0, 0⟩) u.2 <
            dist (vs.getD u.1 ⟨0, 0⟩) pt))).getD (B u.1).length) u.2, u.1 + 1, st.2.2 + 1) := by
      unfold insertStep
      simp only []
      rw [if_pos h, hp1, hslice]
      cases hf : (B u.1).findIdx? (fun pt => decide (dist (vs.getD u.1 ⟨0, 0⟩) u.2 <
            dist (vs.getD u.1 ⟨0, 0⟩) pt)) with
      | none => simp only [Option.getD_none, hc]
      | some i => simp only [Option.getD_some]
    have hm : ((B u.1).findIdx? (fun pt => decide (dist (vs.getD u.1 ⟨0, 0⟩) u.2 <
            dist (vs.getD u.1 ⟨0, 0⟩) pt))).getD (B u.1).length ≤ (B u.1).length := by
      cases hf : (B u.1).findIdx? (fun pt => decide (dist (vs.getD u.1 ⟨0, 0⟩) u.2 <
            dist (vs.getD u.1 ⟨0, 0⟩) pt)) with
      | none => simp
      | some i =>
        simp only [Option.getD_some]
        exact le_of_lt (List.findIdx?_eq_some_iff_getElem.1 hf).1
    rw [hstep, insSorted_eq_insertAt]
    refine ⟨?_, ?_, ?_⟩
    · show insertAt st.1 _ u.2 = _
      rw [hpts]
      exact expand_insert B vs u.1 _ u.2 hu hbelow hm
    · intro k hk
      have hk' : k < u.1 := by
        rcases hk with hk | hk
        · simp at hk
        · simpa using hk
      have : k ≠ u.1 := by omega
      simp only [setBlock, this, if_false]
      exact hbelow k hk'
    · intro _
      show (setBlock B u.1 _ (u.1 + 1 - 1)).length = st.2.2 + 1 + 1
      simp only [Nat.add_sub_cancel, setBlock, if_true]
      rw [(insertAt_perm _ _ _).length_eq]
      simp [hc]
  · -- first update on this segment
    have hB : B u.1 = [] := by
      apply hlow
      rcases hdesc with h' | h'
      · exact Or.inl h'
      · exact Or.inr (by omega)
    have hstep : insertStep dist st u = (insertAt st.1 (u.1 + 1 + 0) u.2, u.1 + 1, 0) := by
      unfold insertStep
      simp only [h, if_false, Nat.add_zero]
    rw [hstep, hB]
    have hins : insSorted (dist (vs.getD u.1 ⟨0, 0⟩)) u.2 [] = insertAt (B u.1) 0 u.2 := by
      rw [hB]; simp [insSorted, insertAt]
    rw [hins]
    refine ⟨?_, ?_, ?_⟩
    · show insertAt st.1 _ u.2 = _
      rw [hpts]
      exact expand_insert B vs u.1 0 u.2 hu hbelow (Nat.zero_le _)
    · intro k hk
      have hk' : k < u.1 := by
        rcases hk with hk | hk
        · simp at hk
        · simpa using hk
      have : k ≠ u.1 := by omega
      simp only [setBlock, this, if_false]
      exact hbelow k hk'
    · intro _
      show (setBlock B u.1 _ (u.1 + 1 - 1)).length = 0 + 1
      simp [setBlock, hB, insertAt]

theorem foldl_insertStep_inv (dist : V2 α → V2 α → α) (vs : List (V2 α))
    (R : List (Nat × V2 α)) (st : List (V2 α) × Nat × Nat) (B : Nat → List (V2 α))
    (hI : Inv vs st B) (hlt : ∀ u ∈ R, u.1 < vs.length)
    (hdesc : R.Pairwise (fun a b => b.1 ≤ a.1))
    (hfirst : ∀ u ∈ R, st.2.1 = 0 ∨ u.1 + 1 ≤ st.2.1) :
    Inv vs (R.foldl (insertStep dist) st)
      (fun i => (R.filter (fun u => u.1 == i)).foldl
        (fun blk u => insSorted (dist (vs.getD i ⟨0, 0⟩)) u.2 blk) (B i)) := by
  induction R generalizing st B with
  | nil => simpa using hI
  | cons u t ih =>
    rw [List.foldl_cons]
    have h1 := insertStep_inv dist vs st B u hI (hlt u List.mem_cons_self)
      (hfirst u List.mem_cons_self)
    have h2 := ih (insertStep dist st u) _ h1 (fun w hw => hlt w (List.mem_cons_of_mem _ hw))
      hdesc.of_cons (fun w hw => by
        right
        rw [insertStep_lastI]
        have := List.rel_of_pairwise_cons hdesc hw
        omega)
    have e : (fun i => (t.filter (fun u => u.1 == i)).foldl
        (fun blk u => insSorted (dist (vs.getD i ⟨0, 0⟩)) u.2 blk)
          (setBlock B u.1 (insSorted (dist (vs.getD u.1 ⟨0, 0⟩)) u.2 (B u.1)) i)) =
        (fun i => ((u :: t).filter (fun u => u.1 == i)).foldl
        (fun blk u => insSorted (dist (vs.getD i ⟨0, 0⟩)) u.2 blk) (B i)) := by
      funext i
      by_cases hi : u.1 = i
      · subst hi
        simp [setBlock]
      · have hi' : i ≠ u.1 := fun h => hi h.symm
        simp [setBlock, hi, hi']
    rw [e] at h2
    exact h2

instance instTotalIdx : Std.Total (fun a b : Nat × β => a.1 ≤ b.1) :=
  ⟨fun a b => Nat.le_total a.1 b.1⟩
instance instTransIdx : IsTrans (Nat × β) (fun a b => a.1 ≤ b.1) :=
  ⟨fun _ _ _ h1 h2 => Nat.le_trans h1 h2⟩

theorem sortByIdx_perm (ups : List (Nat × β)) : (sortByIdx ups).Perm ups :=
  List.perm_insertionSort _ _

theorem sortByIdx_reverse_desc (ups : List (Nat × β)) :
    (sortByIdx ups).reverse.Pairwise (fun a b => b.1 ≤ a.1) := by
  rw [List.pairwise_reverse]
  exact List.pairwise_insertionSort (fun a b : Nat × β => a.1 ≤ b.1) ups

/-- **Structure of `_insert_updates_in_order`.**  For every update list whose segment indices
are valid, the result is the original vertex list with block `i` inserted after vertex `i`,
where block `i` is obtained by ordered insertion (by distance from vertex `i`) of the points of
the updates with index `i`. -/
theorem insertUpdates_eq_expand (dist : V2 α → V2 α → α) (vs : List (V2 α))
    (ups : List (Nat × V2 α)) (hlt : ∀ u ∈ ups, u.1 < vs.length) :
    insertUpdates dist vs ups =
      expand (fun i => blockOf (dist (vs.getD i ⟨0, 0⟩)) i (sortByIdx ups).reverse) vs 0 := by
  unfold insertUpdates
  have h0 : Inv vs (vs, 0, 0) (fun _ => []) :=
    ⟨(expand_nil_blocks vs 0).symm, fun _ _ => rfl, fun h => absurd rfl h⟩
  have hR := foldl_insertStep_inv dist vs (sortByIdx ups).reverse (vs, 0, 0) (fun _ => []) h0
    (fun u hu => hlt u ((sortByIdx_perm ups).mem_iff.1 (List.mem_reverse.1 hu)))
    (sortByIdx_reverse_desc ups) (fun u _ => Or.inl rfl)
  exact hR.pts

end Loop

end Lbg.Lemmas.JoinOutline
