/-
  Lemmas.CrossSep — the crossing-number test of `_Cell._point_to_polygon_distance` is constant
  along every segment that does not meet the boundary of the polygon (a discrete piece of the
  Jordan curve theorem, valid for EVERY closed vertex loop, also self-intersecting ones, over
  any ordered field).  Consequently a segment from a point the test reports inside to a point
  it reports outside meets the boundary (`crossSep`).

  Proof: for one side `(b, a)` and a segment `pq` that misses it,
  `cross(p) xor cross(q) = V(a) xor V(b)` where `V(z)` says "`z` lies in the half-open height
  range of `pq` and to the right of the line `pq`" (`edge_parity`); summed over the closed loop
  every vertex occurs twice, so the two crossing counts have the same parity.
-/
import LbgVerif.Lemmas.Polylabel

set_option linter.unusedSectionVars false
set_option linter.unusedSimpArgs false
set_option linter.unusedVariables false

namespace Lbg.Lemmas
open Lbg Lbg.Gen Lbg.Model.PointInside Lbg.Model.PolyDistance
variable {α : Type} [Field α] [LinearOrder α] [IsStrictOrderedRing α]

/-! ### One-dimensional facts -/

/-- `y` lies between `u` and `v` (in either order). -/
def Btw (u v y : α) : Prop := (u ≤ y ∧ y ≤ v) ∨ (v ≤ y ∧ y ≤ u)

theorem btw_of_mul_nonpos (y1 y2 y : α) (h : (y1 - y) * (y2 - y) ≤ 0) : Btw y1 y2 y := by
  rcases lt_trichotomy y1 y with h1 | h1 | h1 <;> rcases lt_trichotomy y2 y with h2 | h2 | h2
  · exact absurd h (not_le.mpr (mul_pos_of_neg_of_neg (by linarith) (by linarith)))
  · left; constructor <;> linarith
  · left; constructor <;> linarith
  · right; constructor <;> linarith
  · left; constructor <;> linarith
  · left; constructor <;> linarith
  · right; constructor <;> linarith
  · right; constructor <;> linarith
  · exact absurd h (not_le.mpr (mul_pos (by linarith) (by linarith)))

theorem btw_convex (A B y1 y2 y : α) (h1 : Btw A B y1) (h2 : Btw A B y2) (h : Btw y1 y2 y) :
    Btw A B y := by
  rcases h1 with h1 | h1 <;> rcases h2 with h2 | h2 <;> rcases h with h | h <;>
    first
      | (left; constructor <;> linarith)
      | (right; constructor <;> linarith)

theorem btw_left (u v : α) : Btw u v u := by
  rcases le_total u v with h | h
  · exact Or.inl ⟨le_rfl, h⟩
  · exact Or.inr ⟨h, le_rfl⟩

theorem btw_right (u v : α) : Btw u v v := by
  rcases le_total u v with h | h
  · exact Or.inl ⟨h, le_rfl⟩
  · exact Or.inr ⟨le_rfl, h⟩

/-- An affine function with values of opposite (weak) sign at `y1`, `y2` has a root between. -/
theorem affine_root (c0 c1 y1 y2 : α) (h : (c0 + c1 * y1) * (c0 + c1 * y2) ≤ 0) :
    ∃ y, Btw y1 y2 y ∧ c0 + c1 * y = 0 := by
  by_cases h1 : c0 + c1 * y1 = 0
  · exact ⟨y1, btw_left _ _, h1⟩
  by_cases h2 : c0 + c1 * y2 = 0
  · exact ⟨y2, btw_right _ _, h2⟩
  have hc1 : c1 ≠ 0 := by
    intro e
    rw [e] at h h1
    simp only [zero_mul, add_zero] at h h1
    have := mul_self_pos.mpr h1
    linarith
  refine ⟨-c0 / c1, ?_, by field_simp; ring⟩
  apply btw_of_mul_nonpos
  have e : (c0 + c1 * y1) * (c0 + c1 * y2) = (c1 * c1) * ((y1 - -c0 / c1) * (y2 - -c0 / c1)) := by
    field_simp; ring
  rw [e] at h
  have hpos : 0 < c1 * c1 := mul_self_pos.mpr hc1
  by_contra hn
  have := mul_pos hpos (not_le.mp hn)
  linarith

/-- The parameter of a height between the end heights lies in `[0, 1]`. -/
theorem param_of_btw (A B y : α) (hAB : A ≠ B) (h : Btw A B y) :
    0 ≤ (y - A) / (B - A) ∧ (y - A) / (B - A) ≤ 1 := by
  rcases h with ⟨h1, h2⟩ | ⟨h1, h2⟩
  · have hlt : 0 < B - A := by
      have : A ≤ B := le_trans h1 h2
      exact sub_pos.mpr (lt_of_le_of_ne this hAB)
    exact ⟨div_nonneg (by linarith) hlt.le, (div_le_one hlt).mpr (by linarith)⟩
  · have hlt : B - A < 0 := by
      have : B ≤ A := le_trans h1 h2
      exact sub_neg.mpr (lt_of_le_of_ne this (Ne.symm hAB))
    exact ⟨div_nonneg_of_nonpos (by linarith) hlt.le, (div_le_one_of_neg hlt).mpr (by linarith)⟩

/-- Two numbers with positive product are positive together. -/
theorem pos_iff_of_mul_pos (K x y : α) (h : 0 < x * y) : (0 < K * x ↔ 0 < K * y) := by
  rcases mul_pos_iff.mp h with ⟨hx, hy⟩ | ⟨hx, hy⟩
  · rw [mul_pos_iff_of_pos_right hx, mul_pos_iff_of_pos_right hy]
  · constructor
    · intro hk
      have hK : K < 0 := by
        by_contra hn
        have := mul_nonpos_of_nonneg_of_nonpos (not_lt.mp hn) hx.le
        linarith
      exact mul_pos_of_neg_of_neg hK hy
    · intro hk
      have hK : K < 0 := by
        by_contra hn
        have := mul_nonpos_of_nonneg_of_nonpos (not_lt.mp hn) hy.le
        linarith
      exact mul_pos_of_neg_of_neg hK hx

theorem btw_lerp (u v t : α) (h0 : 0 ≤ t) (h1 : t ≤ 1) : Btw u v (u + t * (v - u)) := by
  rcases le_total u v with h | h
  · left
    constructor
    · nlinarith [mul_nonneg h0 (sub_nonneg.mpr h)]
    · nlinarith [mul_nonneg (sub_nonneg.mpr h1) (sub_nonneg.mpr h)]
  · right
    constructor
    · nlinarith [mul_nonneg (sub_nonneg.mpr h1) (sub_nonneg.mpr h)]
    · nlinarith [mul_nonneg h0 (sub_nonneg.mpr h)]

/-! ### Two segments that miss each other -/

/-- The closed segments `ab` and `pq` have no common point. -/
def SegMiss (a b p q : V2 α) : Prop :=
  ∀ s t : α, 0 ≤ s → s ≤ 1 → 0 ≤ t → t ≤ 1 →
    ¬ (a.x + s * (b.x - a.x) = p.x + t * (q.x - p.x) ∧
       a.y + s * (b.y - a.y) = p.y + t * (q.y - p.y))

theorem SegMiss.symm {a b p q : V2 α} (h : SegMiss a b p q) : SegMiss p q a b :=
  fun s t hs0 hs1 ht0 ht1 hc => h t s ht0 ht1 hs0 hs1 ⟨hc.1.symm, hc.2.symm⟩

/-- Orientation of `z` with respect to the directed line `a → b` (`> 0`: to the left). -/
def crs (a b z : V2 α) : α := (b.x - a.x) * (z.y - a.y) - (b.y - a.y) * (z.x - a.x)

/-- A segment `w1 w2` that misses the side `ab` and stays within its height range lies
strictly on one side of the line `ab`. -/
theorem sideConst (a b w1 w2 : V2 α) (hmiss : SegMiss a b w1 w2) (hAB : a.y ≠ b.y)
    (h1 : Btw a.y b.y w1.y) (h2 : Btw a.y b.y w2.y) : 0 < crs a b w1 * crs a b w2 := by
  by_contra hn
  have hle : (crs a b w1 + (crs a b w2 - crs a b w1) * 0)
      * (crs a b w1 + (crs a b w2 - crs a b w1) * 1) ≤ 0 := by
    have := not_lt.mp hn
    have e : (crs a b w1 + (crs a b w2 - crs a b w1) * 0)
      * (crs a b w1 + (crs a b w2 - crs a b w1) * 1) = crs a b w1 * crs a b w2 := by ring
    rw [e]; exact this
  obtain ⟨t, hbt, hroot⟩ := affine_root _ _ _ _ hle
  have ht : 0 ≤ t ∧ t ≤ 1 := by
    rcases hbt with h | h
    · exact h
    · exact ⟨by linarith [h.1], by linarith [h.2]⟩
  have hy : Btw a.y b.y (w1.y + t * (w2.y - w1.y)) :=
    btw_convex _ _ _ _ _ h1 h2 (btw_lerp _ _ t ht.1 ht.2)
  obtain ⟨hs0, hs1⟩ := param_of_btw _ _ _ hAB hy
  have hd : b.y - a.y ≠ 0 := sub_ne_zero.mpr (Ne.symm hAB)
  apply hmiss _ t hs0 hs1 ht.1 ht.2
  constructor
  · have hr : crs a b ⟨w1.x + t * (w2.x - w1.x), w1.y + t * (w2.y - w1.y)⟩ = 0 := by
      rw [← hroot]; simp only [crs]; ring
    simp only [crs] at hr
    field_simp
    linear_combination hr
  · field_simp
    ring

/-- The height polynomial: `(B−A)(Q−P)` times the horizontal distance, at height `y`, from the
line `pq` to the line `ab`. -/
def hG (a b p q : V2 α) (y : α) : α :=
  (a.x * (b.y - a.y) + (b.x - a.x) * (y - a.y)) * (q.y - p.y)
    - (p.x * (q.y - p.y) + (q.x - p.x) * (y - p.y)) * (b.y - a.y)

theorem hG_P (a b p q : V2 α) : hG a b p q p.y = (q.y - p.y) * crs a b p := by
  simp only [hG, crs]; ring
theorem hG_Q (a b p q : V2 α) : hG a b p q q.y = (q.y - p.y) * crs a b q := by
  simp only [hG, crs]; ring
theorem hG_A (a b p q : V2 α) : hG a b p q a.y = -(b.y - a.y) * crs p q a := by
  simp only [hG, crs]; ring
theorem hG_B (a b p q : V2 α) : hG a b p q b.y = -(b.y - a.y) * crs p q b := by
  simp only [hG, crs]; ring

/-- Two non-horizontal segments that miss each other: at all heights common to both, the line
`ab` is on the same side of the line `pq`. -/
theorem sameSign_height (a b p q : V2 α) (hmiss : SegMiss a b p q) (hAB : a.y ≠ b.y)
    (hPQ : p.y ≠ q.y) (y1 y2 : α) (h1 : Btw a.y b.y y1) (h1' : Btw p.y q.y y1)
    (h2 : Btw a.y b.y y2) (h2' : Btw p.y q.y y2) :
    0 < hG a b p q y1 * hG a b p q y2 := by
  by_contra hn
  have haff : ∀ y, hG a b p q y = hG a b p q 0
      + ((b.x - a.x) * (q.y - p.y) - (q.x - p.x) * (b.y - a.y)) * y := by
    intro y; simp only [hG]; ring
  have hle := not_lt.mp hn
  rw [haff y1, haff y2] at hle
  obtain ⟨y, hby, hroot⟩ := affine_root _ _ _ _ hle
  rw [← haff y] at hroot
  have hyA := btw_convex _ _ _ _ _ h1 h2 hby
  have hyP := btw_convex _ _ _ _ _ h1' h2' hby
  obtain ⟨hs0, hs1⟩ := param_of_btw _ _ _ hAB hyA
  obtain ⟨ht0, ht1⟩ := param_of_btw _ _ _ hPQ hyP
  have hd : b.y - a.y ≠ 0 := sub_ne_zero.mpr (Ne.symm hAB)
  have he : q.y - p.y ≠ 0 := sub_ne_zero.mpr (Ne.symm hPQ)
  apply hmiss _ _ hs0 hs1 ht0 ht1
  constructor
  · simp only [hG] at hroot
    field_simp
    linear_combination hroot
  · field_simp
    ring

theorem pos_iff_of_pos_mul (x y : α) (h : 0 < x * y) : (0 < x ↔ 0 < y) := by
  have := pos_iff_of_mul_pos 1 x y h
  simpa using this

/-! ### The crossing test of one side -/

theorem straddle_btw (A B y : α) (h : (decide (A > y) != decide (B > y)) = true) :
    A ≠ B ∧ Btw A B y := by
  by_cases h1 : A > y <;> by_cases h2 : B > y <;> simp [h1, h2] at h
  · have h2' := not_lt.mp h2
    exact ⟨by intro e; rw [e] at h1; exact absurd h1 h2, Or.inr ⟨h2', h1.le⟩⟩
  · have h1' := not_lt.mp h1
    exact ⟨by intro e; rw [e] at h1; exact absurd h2 h1, Or.inl ⟨h1', h2.le⟩⟩

theorem vstraddle_btw (P Q z : α) (h : (decide (z > P) != decide (z > Q)) = true) :
    P ≠ Q ∧ Btw P Q z := by
  by_cases h1 : z > P <;> by_cases h2 : z > Q <;> simp [h1, h2] at h
  · have h2' := not_lt.mp h2
    exact ⟨by intro e; rw [e] at h1; exact absurd h1 h2, Or.inl ⟨h1.le, h2'⟩⟩
  · have h1' := not_lt.mp h1
    exact ⟨by intro e; rw [e] at h1; exact absurd h2 h1, Or.inr ⟨h2.le, h1'⟩⟩

/-- The crossing test of `_point_to_polygon_distance` without the division: the height of the
point is in the half-open height range of the side and the point is strictly to the left of
the side (seen in the direction of increasing height). -/
theorem cellCross_eq (x y : α) (b a : V2 α) :
    cellCross x y b a = ((decide (a.y > y) != decide (b.y > y)) &&
      decide (0 < (b.y - a.y) * crs a b ⟨x, y⟩)) := by
  unfold cellCross
  by_cases hr : (decide (a.y > y) != decide (b.y > y)) = true
  · rw [hr, Bool.true_and, Bool.true_and]
    have hd : b.y - a.y ≠ 0 := sub_ne_zero.mpr (Ne.symm (straddle_btw _ _ _ hr).1)
    apply decide_eq_decide.mpr
    have e : (b.y - a.y) * crs a b ⟨x, y⟩
        = ((b.y - a.y) * (b.y - a.y)) * ((b.x - a.x) * (y - a.y) / (b.y - a.y) + a.x - x) := by
      simp only [crs]; field_simp; ring
    rw [e, mul_pos_iff_of_pos_left (mul_self_pos.mpr hd)]
    constructor <;> intro h <;> linarith
  · have : (decide (a.y > y) != decide (b.y > y)) = false := by simpa using hr
    rw [this, Bool.false_and, Bool.false_and]

/-- Vertex term: `z` lies in the half-open height range of `pq` and strictly to the right of
the line `pq`. -/
def vtx (p q z : V2 α) : Bool :=
  (decide (z.y > p.y) != decide (z.y > q.y)) && decide (0 < (p.y - q.y) * crs p q z)

/-- Pure Boolean core of `edge_parity`. -/
theorem parity_bool : ∀ (u1 u2 u3 u4 s1 s2 s3 s4 : Bool),
    ((u1 != u2) = true → (u3 != u4) = true → s1 = s2) →
    ((u1 != u3) = true → (u2 != u4) = true → s3 = s4) →
    ((u1 != u2) = true → (u1 != u3) = true → s1 = s3) →
    ((u1 != u2) = true → (u2 != u4) = true → s1 = s4) →
    ((u3 != u4) = true → (u1 != u3) = true → s2 = s3) →
    ((u3 != u4) = true → (u2 != u4) = true → s2 = s4) →
    (((u1 != u2) && s1) != ((u3 != u4) && s2)) = (((u1 != u3) && s3) != ((u2 != u4) && s4)) := by
  intro u1 u2 u3 u4 s1 s2 s3 s4
  cases u1 <;> cases u2 <;> cases u3 <;> cases u4 <;> cases s1 <;> cases s2 <;> cases s3 <;>
    cases s4 <;> simp

/-- One side `(b, a)` and a segment `pq` that misses it: the crossing tests at `p` and `q`
differ exactly when the vertex terms of `a` and `b` differ. -/
theorem edge_parity (p q a b : V2 α) (hmiss : SegMiss a b p q) :
    (cellCross p.x p.y b a != cellCross q.x q.y b a) = (vtx p q a != vtx p q b) := by
  rw [cellCross_eq, cellCross_eq]
  unfold vtx
  have hp : (⟨p.x, p.y⟩ : V2 α) = p := rfl
  have hq : (⟨q.x, q.y⟩ : V2 α) = q := rfl
  rw [hp, hq]
  apply parity_bool
  · intro h1 h2
    obtain ⟨hAB, b1⟩ := straddle_btw _ _ _ h1
    obtain ⟨_, b2⟩ := straddle_btw _ _ _ h2
    exact decide_eq_decide.mpr
      (pos_iff_of_mul_pos _ _ _ (sideConst a b p q hmiss hAB b1 b2))
  · intro h1 h2
    obtain ⟨hPQ, b1⟩ := vstraddle_btw _ _ _ h1
    obtain ⟨_, b2⟩ := vstraddle_btw _ _ _ h2
    exact decide_eq_decide.mpr
      (pos_iff_of_mul_pos _ _ _ (sideConst p q a b hmiss.symm hPQ b1 b2))
  · intro h1 h2
    obtain ⟨hAB, b1⟩ := straddle_btw _ _ _ h1
    obtain ⟨hPQ, b2⟩ := vstraddle_btw _ _ _ h2
    have hh := sameSign_height a b p q hmiss hAB hPQ p.y a.y b1 (btw_left _ _)
      (btw_left _ _) b2
    apply decide_eq_decide.mpr
    apply pos_iff_of_pos_mul
    have e : (b.y - a.y) * crs a b p * ((p.y - q.y) * crs p q a)
        = hG a b p q p.y * hG a b p q a.y := by rw [hG_P, hG_A]; ring
    rw [e]; exact hh
  · intro h1 h2
    obtain ⟨hAB, b1⟩ := straddle_btw _ _ _ h1
    obtain ⟨hPQ, b2⟩ := vstraddle_btw _ _ _ h2
    have hh := sameSign_height a b p q hmiss hAB hPQ p.y b.y b1 (btw_left _ _)
      (btw_right _ _) b2
    apply decide_eq_decide.mpr
    apply pos_iff_of_pos_mul
    have e : (b.y - a.y) * crs a b p * ((p.y - q.y) * crs p q b)
        = hG a b p q p.y * hG a b p q b.y := by rw [hG_P, hG_B]; ring
    rw [e]; exact hh
  · intro h1 h2
    obtain ⟨hAB, b1⟩ := straddle_btw _ _ _ h1
    obtain ⟨hPQ, b2⟩ := vstraddle_btw _ _ _ h2
    have hh := sameSign_height a b p q hmiss hAB hPQ q.y a.y b1 (btw_right _ _)
      (btw_left _ _) b2
    apply decide_eq_decide.mpr
    apply pos_iff_of_pos_mul
    have e : (b.y - a.y) * crs a b q * ((p.y - q.y) * crs p q a)
        = hG a b p q q.y * hG a b p q a.y := by rw [hG_Q, hG_A]; ring
    rw [e]; exact hh
  · intro h1 h2
    obtain ⟨hAB, b1⟩ := straddle_btw _ _ _ h1
    obtain ⟨hPQ, b2⟩ := vstraddle_btw _ _ _ h2
    have hh := sameSign_height a b p q hmiss hAB hPQ q.y b.y b1 (btw_right _ _)
      (btw_right _ _) b2
    apply decide_eq_decide.mpr
    apply pos_iff_of_pos_mul
    have e : (b.y - a.y) * crs a b q * ((p.y - q.y) * crs p q b)
        = hG a b p q q.y * hG a b p q b.y := by rw [hG_Q, hG_B]; ring
    rw [e]; exact hh

/-! ### Summing over the closed loop -/

theorem countP_cyclicPairs_fst_snd {β : Type} (V : β → Bool) (l : List β) :
    (cyclicPairs l).countP (fun e => V e.1) = (cyclicPairs l).countP (fun e => V e.2) := by
  have h1 := countP_cyclicPairs_eq (fun e : β × β => V e.1) l
  have h2 := countP_cyclicPairs_eq (fun e : β × β => V e.2) l
  have h3 := cycSum_add_telescope (fun a _ => if V a then (1 : ℤ) else 0)
    (fun a => if V a then (1 : ℤ) else 0) l
  have h4 : cycSum (fun _ b => if V b then (1 : ℤ) else 0) l
      = cycSum (fun a b => (if V a then (1 : ℤ) else 0)
          + ((if V b then (1 : ℤ) else 0) - (if V a then (1 : ℤ) else 0))) l :=
    cycSum_congr (fun x y => by ring) l
  simp only at h1 h2
  have : ((cyclicPairs l).countP (fun e => V e.1) : ℤ) = (cyclicPairs l).countP (fun e => V e.2) := by
    rw [h1, h2, h4, h3]
  exact_mod_cast this

theorem countP_parity {β : Type} (P Q V W : β → Bool) (l : List β)
    (h : ∀ e ∈ l, (P e != Q e) = (V e != W e)) :
    (l.countP P + l.countP Q) % 2 = (l.countP V + l.countP W) % 2 := by
  induction l with
  | nil => simp
  | cons e t ih =>
    have ih' := ih (fun x hx => h x (List.mem_cons_of_mem _ hx))
    have he := h e List.mem_cons_self
    simp only [List.countP_cons]
    cases hP : P e <;> cases hQ : Q e <;> cases hV : V e <;> cases hW : W e <;>
      simp [hP, hQ, hV, hW] at he ⊢ <;> omega

/-- The crossing-number test gives the same answer at the two ends of every segment that
misses all sides of the polygon. -/
theorem cellInside_eq_of_miss (vs : List (V2 α)) (p q : V2 α)
    (hmiss : ∀ ba ∈ cyclicPairs vs, SegMiss ba.2 ba.1 p q) :
    cellInside vs p = cellInside vs q := by
  have hpar := countP_parity (crossP p.x p.y) (crossP q.x q.y)
    (fun ba => vtx p q ba.2) (fun ba => vtx p q ba.1) (cyclicPairs vs)
    (fun ba hba => edge_parity p q ba.2 ba.1 (hmiss ba hba))
  rw [countP_cyclicPairs_fst_snd (vtx p q) vs] at hpar
  unfold cellInside
  apply decide_eq_decide.mpr
  omega

/-- A segment from a point the crossing test reports inside to a point it reports outside
meets the boundary of the polygon — for every vertex loop. -/
theorem crossSep (vs : List (V2 α)) : CrossSep vs := by
  intro p q hp hq
  by_contra hn
  have hmiss : ∀ ba ∈ cyclicPairs vs, SegMiss ba.2 ba.1 p q := by
    intro ba hba s t hs0 hs1 ht0 ht1 hc
    apply hn
    refine ⟨⟨p.x + t * (q.x - p.x), p.y + t * (q.y - p.y)⟩, t, ?_, ht0, ht1, rfl, rfl⟩
    refine ⟨ba, hba, 1 - s, by linarith, by linarith, ?_, ?_⟩
    · simp only []; rw [← hc.1]; ring
    · simp only []; rw [← hc.2]; ring
  have := cellInside_eq_of_miss vs p q hmiss
  rw [hp, hq] at this
  exact absurd this (by simp)

end Lbg.Lemmas
