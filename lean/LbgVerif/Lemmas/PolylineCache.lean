/-
  Lemmas.PolylineCache — the fresh values of the polyline machines (`Model/PolylineCache`)
  under vertex maps and reversal: `length` is a chain sum of distances, hence invariant under
  distance-preserving maps and under reversal; `is_self_intersecting` only depends on
  determinants, hence is invariant under every affine map with non-zero determinant
  (consumed by Props/C03c).
-/
import LbgVerif.Model.PolylineCache
import LbgVerif.Lemmas.Cyclic
import LbgVerif.Lemmas.MeshCache
import LbgVerif.Lemmas.Isometry
import Mathlib.Tactic.Ring
import Mathlib.Tactic.FieldSimp
import Mathlib.Tactic.Linarith
import Mathlib.Tactic.LinearCombination
import Mathlib.Tactic.Positivity

set_option linter.unusedSectionVars false

namespace Lbg.Lemmas
open Lbg Lbg.Gen Lbg.Model.MeshCache Lbg.Model.PolylineCache
variable {α : Type} [Field α] [LinearOrder α] [IsStrictOrderedRing α]

/-! ### Length = chain sum of distances -/

/-- Length of the segment `from_end_points(p, q)`. -/
def dist2 (M : MathOps α) (p q : V2 α) : α := seg2_length M (seg2_from_end_points p q)
/-- Length of the 3D segment `from_end_points(p, q)`. -/
def dist3 (M : MathOps α) (p q : V3 α) : α := seg3_length M (seg3_from_end_points p q)

/-- The 2D segment length is `sqrt |q − p|²`. -/
theorem dist2_eq (M : MathOps α) (p q : V2 α) :
    dist2 M p q = M.sqrt (V2.normSq (V2.sub q p)) := by
  simp only [dist2, seg2_length, seg2_from_end_points, V2.normSq, V2.sub]

/-- The 3D segment length is `sqrt |q − p|²`. -/
theorem dist3_eq (M : MathOps α) (p q : V3 α) :
    dist3 M p q = M.sqrt (V3.normSq (V3.sub q p)) := by
  simp only [dist3, seg3_length, seg3_from_end_points, V3.normSq, V3.sub]

/-- Segment length does not depend on the direction (2D). -/
theorem dist2_symm (M : MathOps α) (p q : V2 α) : dist2 M q p = dist2 M p q := by
  rw [dist2_eq, dist2_eq]; congr 1; simp only [V2.normSq, V2.sub]; ring

/-- Segment length does not depend on the direction (3D). -/
theorem dist3_symm (M : MathOps α) (p q : V3 α) : dist3 M q p = dist3 M p q := by
  rw [dist3_eq, dist3_eq]; congr 1; simp only [V3.normSq, V3.sub]; ring

/-- The python `sum` of the segment lengths is the chain sum of the vertex distances. -/
theorem length2_eq_chainS (M : MathOps α) (vs : List (V2 α)) :
    length2 M vs = chainS (dist2 M) vs := by
  unfold length2 lengthOf2 segs2
  rw [pySum_eq_sum, chainS_eq_zip_tail, List.map_map]
  rfl

/-- The python `sum` of the 3D segment lengths is the chain sum of the vertex distances. -/
theorem length3_eq_chainS (M : MathOps α) (vs : List (V3 α)) :
    length3 M vs = chainS (dist3 M) vs := by
  unfold length3 lengthOf3 segs3
  rw [pySum_eq_sum, chainS_eq_zip_tail, List.map_map]
  rfl

/-- A distance-preserving vertex map keeps the length. -/
theorem length2_map (M : MathOps α) (g : V2 α → V2 α)
    (hg : ∀ p q, V2.normSq (V2.sub (g p) (g q)) = V2.normSq (V2.sub p q)) (vs : List (V2 α)) :
    length2 M (vs.map g) = length2 M vs := by
  rw [length2_eq_chainS, length2_eq_chainS, chainS_map]
  exact chainS_congr (fun x y => by rw [dist2_eq, dist2_eq, hg]) vs

/-- A distance-preserving vertex map keeps the 3D length. -/
theorem length3_map (M : MathOps α) (g : V3 α → V3 α)
    (hg : ∀ p q, V3.normSq (V3.sub (g p) (g q)) = V3.normSq (V3.sub p q)) (vs : List (V3 α)) :
    length3 M (vs.map g) = length3 M vs := by
  rw [length3_eq_chainS, length3_eq_chainS, chainS_map]
  exact chainS_congr (fun x y => by rw [dist3_eq, dist3_eq, hg]) vs

/-- Reversing the vertex order keeps the length. -/
theorem length2_reverse (M : MathOps α) (vs : List (V2 α)) :
    length2 M vs.reverse = length2 M vs := by
  rw [length2_eq_chainS, length2_eq_chainS, chainS_reverse_flip]
  exact chainS_congr (fun x y => dist2_symm M x y) vs

/-- Reversing the vertex order keeps the 3D length. -/
theorem length3_reverse (M : MathOps α) (vs : List (V3 α)) :
    length3 M vs.reverse = length3 M vs := by
  rw [length3_eq_chainS, length3_eq_chainS, chainS_reverse_flip]
  exact chainS_congr (fun x y => dist3_symm M x y) vs

/-- A vertex map multiplying squared distances by `k²` multiplies the length by `|k|`
(`Polyline.scale`; `scale` itself DROPS the cached length — this is what a re-read gives). -/
theorem length2_scale (M : MathOps α)
    (hsqrt : ∀ x, 0 ≤ x → M.sqrt x * M.sqrt x = x ∧ 0 ≤ M.sqrt x) (k : α) (g : V2 α → V2 α)
    (hg : ∀ p q, V2.normSq (V2.sub (g p) (g q)) = k * k * V2.normSq (V2.sub p q))
    (vs : List (V2 α)) : length2 M (vs.map g) = |k| * length2 M vs := by
  rw [length2_eq_chainS, length2_eq_chainS, chainS_map]
  have e : ∀ x y, dist2 M (g x) (g y) = |k| * dist2 M x y := by
    intro x y
    rw [dist2_eq, dist2_eq]
    apply sqrt_scale M hsqrt (abs_nonneg k)
    · simp only [V2.normSq]; nlinarith [mul_self_nonneg (V2.sub y x).x, mul_self_nonneg (V2.sub y x).y]
    · rw [hg, abs_mul_abs_self]
  rw [chainS_congr e]
  clear e hg
  induction vs with
  | nil => simp [chainS]
  | cons a t ih =>
    cases t with
    | nil => simp [chainS]
    | cons b t => simp only [chainS] at ih ⊢; rw [ih]; ring

/-- A vertex map multiplying squared distances by `k²` multiplies the 3D length by `|k|`. -/
theorem length3_scale (M : MathOps α)
    (hsqrt : ∀ x, 0 ≤ x → M.sqrt x * M.sqrt x = x ∧ 0 ≤ M.sqrt x) (k : α) (g : V3 α → V3 α)
    (hg : ∀ p q, V3.normSq (V3.sub (g p) (g q)) = k * k * V3.normSq (V3.sub p q))
    (vs : List (V3 α)) : length3 M (vs.map g) = |k| * length3 M vs := by
  rw [length3_eq_chainS, length3_eq_chainS, chainS_map]
  have e : ∀ x y, dist3 M (g x) (g y) = |k| * dist3 M x y := by
    intro x y
    rw [dist3_eq, dist3_eq]
    apply sqrt_scale M hsqrt (abs_nonneg k)
    · simp only [V3.normSq]
      nlinarith [mul_self_nonneg (V3.sub y x).x, mul_self_nonneg (V3.sub y x).y,
        mul_self_nonneg (V3.sub y x).z]
    · rw [hg, abs_mul_abs_self]
  rw [chainS_congr e]
  clear e hg
  induction vs with
  | nil => simp [chainS]
  | cons a t ih =>
    cases t with
    | nil => simp [chainS]
    | cons b t => simp only [chainS] at ih ⊢; rw [ih]; ring

/-! ### `is_self_intersecting` under affine maps

`intersect_line2d` decides with `d = det(b.v, a.v)`, `ua = det(b.v, Δ)/d`, `ub = det(a.v, Δ)/d`
(`Δ = a.p − b.p`).  An affine map with linear part of determinant `δ ≠ 0` multiplies all three
determinants by `δ`, so the decision is unchanged. -/

/-- `g` is affine with matrix `[[a, b], [c, d]]` and translation `(e, f)`. -/
structure Affine2 (g : V2 α → V2 α) (a b c d e f : α) : Prop where
  hx : ∀ p, (g p).x = a * p.x + b * p.y + e
  hy : ∀ p, (g p).y = c * p.x + d * p.y + f

/-- The image segment under an affine map. -/
def mapSeg2 (a b c d : α) (g : V2 α → V2 α) (s : LR2 α) : LR2 α :=
  ⟨g s.p, ⟨a * s.v.x + b * s.v.y, c * s.v.x + d * s.v.y⟩⟩

/-- The segment between mapped end points is the mapped segment. -/
theorem seg2_from_end_points_map (g : V2 α → V2 α) (a b c d e f : α)
    (hg : Affine2 g a b c d e f) (p q : V2 α) :
    seg2_from_end_points (g p) (g q) = mapSeg2 a b c d g (seg2_from_end_points p q) := by
  unfold seg2_from_end_points mapSeg2
  apply lr2_ext
  · rfl
  · apply V2.ext'
    · show (g q).x - (g p).x = a * (q.x - p.x) + b * (q.y - p.y)
      rw [hg.hx, hg.hx]; ring
    · show (g q).y - (g p).y = c * (q.x - p.x) + d * (q.y - p.y)
      rw [hg.hy, hg.hy]; ring

/-- Whether two segments intersect does not change under an affine map with `δ ≠ 0`. -/
theorem intersect_isSome_map (g : V2 α → V2 α) (a b c d e f : α)
    (hg : Affine2 g a b c d e f) (hδ : a * d - b * c ≠ 0) (s t : LR2 α) :
    (intersect_line2d_ss (mapSeg2 a b c d g s) (mapSeg2 a b c d g t)).isSome =
      (intersect_line2d_ss s t).isSome := by
  have hd : (a * t.v.x + b * t.v.y) * 0 + (c * t.v.x + d * t.v.y) * (a * s.v.x + b * s.v.y) -
      (a * t.v.x + b * t.v.y) * (c * s.v.x + d * s.v.y) =
      (a * d - b * c) * (t.v.y * s.v.x - t.v.x * s.v.y) := by ring
  have hua : (a * t.v.x + b * t.v.y) * ((g s.p).y - (g t.p).y) -
      (c * t.v.x + d * t.v.y) * ((g s.p).x - (g t.p).x) =
      (a * d - b * c) * (t.v.x * (s.p.y - t.p.y) - t.v.y * (s.p.x - t.p.x)) := by
    simp only [hg.hx, hg.hy]; ring
  have hub : (a * s.v.x + b * s.v.y) * ((g s.p).y - (g t.p).y) -
      (c * s.v.x + d * s.v.y) * ((g s.p).x - (g t.p).x) =
      (a * d - b * c) * (s.v.x * (s.p.y - t.p.y) - s.v.y * (s.p.x - t.p.x)) := by
    simp only [hg.hx, hg.hy]; ring
  have hd' : (c * t.v.x + d * t.v.y) * (a * s.v.x + b * s.v.y) -
      (a * t.v.x + b * t.v.y) * (c * s.v.x + d * s.v.y) =
      (a * d - b * c) * (t.v.y * s.v.x - t.v.x * s.v.y) := by ring
  unfold intersect_line2d_ss mapSeg2
  simp only [hd', hua, hub]
  by_cases h0 : t.v.y * s.v.x - t.v.x * s.v.y = 0
  · simp [h0]
  · have hne : (a * d - b * c) * (t.v.y * s.v.x - t.v.x * s.v.y) ≠ 0 := mul_ne_zero hδ h0
    rw [if_neg hne, if_neg h0, mul_div_mul_left _ _ hδ, mul_div_mul_left _ _ hδ]
    split_ifs <;> rfl

/-- The double loop of `is_self_intersecting` only looks at "do these two segments
intersect": a segment map that keeps every such answer keeps the result. -/
theorem selfIntSegs_map (h : LR2 α → LR2 α)
    (hh : ∀ s t, (intersect_line2d_ss (h s) (h t)).isSome = (intersect_line2d_ss s t).isSome)
    (segs : List (LR2 α)) : selfIntSegs (segs.map h) = selfIntSegs segs := by
  simp only [selfIntSegs, List.length_map, ← List.map_drop, ← List.map_take, List.zipIdx_map,
    List.any_map, List.filter_map, Function.comp_def, Prod.map, id, hh]

/-- Segments of the mapped vertex list. -/
theorem segs2_map (g : V2 α → V2 α) (a b c d e f : α) (hg : Affine2 g a b c d e f)
    (vs : List (V2 α)) : segs2 (vs.map g) = (segs2 vs).map (mapSeg2 a b c d g) := by
  unfold segs2
  rw [← List.map_tail, List.zip_map, List.map_map, List.map_map]
  apply List.map_congr_left
  intro pq _
  exact seg2_from_end_points_map g a b c d e f hg pq.1 pq.2

/-- **`Polyline2D.is_self_intersecting` is invariant under every affine vertex map with
non-zero determinant** (translations, rotations, reflections, scalings). -/
theorem selfInt2_map (g : V2 α → V2 α) (a b c d e f : α) (hg : Affine2 g a b c d e f)
    (hδ : a * d - b * c ≠ 0) (vs : List (V2 α)) : selfInt2 (vs.map g) = selfInt2 vs := by
  unfold selfInt2
  rw [segs2_map g a b c d e f hg]
  exact selfIntSegs_map _ (intersect_isSome_map g a b c d e f hg hδ) _

/-- `Point2D.move` is affine with the identity matrix. -/
theorem affine2_move (v : V2 α) : Affine2 (fun p => p2_move p v) 1 0 0 1 v.x v.y :=
  ⟨fun p => by simp only [p2_move]; ring, fun p => by simp only [p2_move]; ring⟩

/-- `Point2D.rotate` is affine with the rotation matrix. -/
theorem affine2_rotate (M : MathOps α) (θ : α) (o : V2 α) :
    Affine2 (fun p => p2_rotate M p θ o) (M.cos θ) (-(M.sin θ)) (M.sin θ) (M.cos θ)
      (o.x - M.cos θ * o.x + M.sin θ * o.y) (o.y - M.sin θ * o.x - M.cos θ * o.y) :=
  ⟨fun p => by simp only [p2_rotate]; ring, fun p => by simp only [p2_rotate]; ring⟩

/-- `Point2D.reflect` is affine with the Householder matrix. -/
theorem affine2_reflect (n o : V2 α) :
    Affine2 (fun p => p2_reflect p n o) (1 - 2 * n.x * n.x) (-(2 * n.x * n.y))
      (-(2 * n.x * n.y)) (1 - 2 * n.y * n.y)
      (2 * (o.x * n.x + o.y * n.y) * n.x) (2 * (o.x * n.x + o.y * n.y) * n.y) :=
  ⟨fun p => by simp only [p2_reflect]; ring, fun p => by simp only [p2_reflect]; ring⟩

end Lbg.Lemmas
