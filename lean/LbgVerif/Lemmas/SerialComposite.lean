/-
  Lemmas.SerialComposite — helper lemmas for `Props/C13b.lean` about the hand model
  `Model/SerialComposite.lean`: leaf round trips (numbers, points, index tuples), `mapR` over an
  encoded list, injectivity of the flat key tuples, orientation of a reversed loop, and the
  nested plane dictionary.
-/
import LbgVerif.Model.SerialComposite
import LbgVerif.Lemmas.Measure
import LbgVerif.Lemmas.Isometry
import Mathlib.Tactic.Ring
import Mathlib.Tactic.Linarith

set_option linter.unusedSectionVars false
set_option linter.unusedVariables false
set_option linter.unusedSimpArgs false

namespace Lbg.Lemmas.SerialComposite
open Lbg Lbg.Gen Lbg.Lemmas Lbg.Model.SerialComposite

/-! ## `mapR` -/

/-- Decoding an encoded list element by element gives the list back. -/
theorem mapR_map_ok {σ τ : Type} (f : σ → R τ) (g : τ → σ) (l : List τ)
    (h : ∀ a ∈ l, f (g a) = .ok a) : mapR f (l.map g) = .ok l := by
  induction l with
  | nil => rfl
  | cons a t ih =>
    have h1 := h a (List.mem_cons_self)
    have h2 := ih (fun b hb => h b (List.mem_cons_of_mem _ hb))
    simp only [List.map_cons, mapR, h1, h2]

/-- `mapR` of a function that never raises. -/
theorem mapR_ok {σ τ : Type} (f : σ → R τ) (g : σ → τ) (l : List σ)
    (h : ∀ a ∈ l, f a = .ok (g a)) : mapR f l = .ok (l.map g) := by
  induction l with
  | nil => rfl
  | cons a t ih =>
    have h1 := h a (List.mem_cons_self)
    have h2 := ih (fun b hb => h b (List.mem_cons_of_mem _ hb))
    simp only [List.map_cons, mapR, h1, h2]

/-- If every element passes a check, the list of checks passes. -/
theorem mapR_unit_ok {σ : Type} (f : σ → R Unit) (l : List σ)
    (h : ∀ a ∈ l, f a = .ok ()) : ∃ us, mapR f l = .ok us := by
  induction l with
  | nil => exact ⟨[], rfl⟩
  | cons a t ih =>
    obtain ⟨us, hu⟩ := ih (fun b hb => h b (List.mem_cons_of_mem _ hb))
    exact ⟨() :: us, by simp only [mapR, h a (List.mem_cons_self), hu]⟩

/-! ## Constructors of key items are injective -/
section
variable {α : Type}
theorem p2_inj : Function.Injective (KItem.p2 : V2 α → KItem α) := fun _ _ h => by injection h
theorem p3_inj : Function.Injective (KItem.p3 : V3 α → KItem α) := fun _ _ h => by injection h
theorem idx_inj : Function.Injective (KItem.idx : List Int → KItem α) := fun _ _ h => by injection h
theorem loops_inj : Function.Injective (KItem.loops : List (List Nat) → KItem α) :=
  fun _ _ h => by injection h
theorem flag_inj : Function.Injective (KItem.flag : Option Bool → KItem α) :=
  fun _ _ h => by injection h
end

variable {α : Type} [Field α] [LinearOrder α] [IsStrictOrderedRing α]

/-! ## Leaves -/

theorem asList_list (l : List (DV α)) : (DV.list l : DV α).asList = .ok l := rfl
theorem asList_natsToDV (l : List Nat) :
    (natsToDV l : DV α).asList = .ok (l.map (fun (n : Nat) => DV.int (Int.ofNat n))) := rfl

theorem pt2OfArray_toArray (p : V2 α) : pt2OfArray (pt2ToArray p) = .ok p := by cases p; rfl
theorem pt3OfArray_toArray (p : V3 α) : pt3OfArray (pt3ToArray p) = .ok p := by cases p; rfl
theorem pt2OfStar_toArray (p : V2 α) : pt2OfStar (pt2ToArray p) = .ok p := by cases p; rfl
theorem pt3OfStar_toArray (p : V3 α) : pt3OfStar (pt3ToArray p) = .ok p := by cases p; rfl

theorem pts2_roundtrip (l : List (V2 α)) : mapR pt2OfArray (l.map pt2ToArray) = .ok l :=
  mapR_map_ok _ _ _ (fun a _ => pt2OfArray_toArray a)
theorem pts3_roundtrip (l : List (V3 α)) : mapR pt3OfArray (l.map pt3ToArray) = .ok l :=
  mapR_map_ok _ _ _ (fun a _ => pt3OfArray_toArray a)
theorem pts2_star_roundtrip (l : List (V2 α)) : mapR pt2OfStar (l.map pt2ToArray) = .ok l :=
  mapR_map_ok _ _ _ (fun a _ => pt2OfStar_toArray a)
theorem pts3_star_roundtrip (l : List (V3 α)) : mapR pt3OfStar (l.map pt3ToArray) = .ok l :=
  mapR_map_ok _ _ _ (fun a _ => pt3OfStar_toArray a)

/-- A loop of 3D points (hole / boundary) encoded as an array of arrays. -/
theorem loop3_roundtrip (h : List (V3 α)) :
    loop3OfDV (DV.list (h.map pt3ToArray) : DV α) = .ok h := by
  simp only [loop3OfDV, DV.asList, bind, Except.bind, pts3_roundtrip]

theorem loops3_roundtrip (hs : List (List (V3 α))) :
    mapR loop3OfDV (hs.map (fun h => (DV.list (h.map pt3ToArray) : DV α))) = .ok hs :=
  mapR_map_ok _ _ _ (fun a _ => loop3_roundtrip a)

theorem loop3_star_roundtrip (h : List (V3 α)) :
    loop3OfStar (DV.list (h.map pt3ToArray) : DV α) = .ok h := by
  simp only [loop3OfStar, DV.asList, bind, Except.bind, pts3_star_roundtrip]

theorem loops3_star_roundtrip (hs : List (List (V3 α))) :
    mapR loop3OfStar (hs.map (fun h => (DV.list (h.map pt3ToArray) : DV α))) = .ok hs :=
  mapR_map_ok _ _ _ (fun a _ => loop3_star_roundtrip a)

theorem ints_roundtrip (f : List Int) : mapR (intOf (α := α)) (f.map DV.int) = .ok f :=
  mapR_map_ok _ _ _ (fun a _ => rfl)

theorem natOf_ofNat (n : Nat) : natOf (DV.int (Int.ofNat n) : DV α) = .ok n := by
  simp only [natOf, Int.ofNat_eq_natCast, Int.natCast_nonneg, if_true, Int.toNat_natCast]

theorem nats_roundtrip (f : List Nat) :
    mapR (natOf (α := α)) (f.map (fun (n : Nat) => DV.int (Int.ofNat n))) = .ok f :=
  mapR_map_ok _ _ _ (fun a _ => natOf_ofNat a)

/-- Mesh faces: `tuple(tuple(f) for f in data['faces'])` of the encoded faces. -/
theorem faces_roundtrip (fs : List (List Int)) :
    mapR (intsOfDV (α := α)) (fs.map intsToDV) = .ok fs := by
  apply mapR_map_ok
  intro a _
  simp only [intsOfDV, intsToDV, DV.asList, bind, Except.bind, ints_roundtrip]

/-- `meshFacesOf` of a dictionary whose `faces` entry is the encoded face list. -/
theorem meshFacesOf_of_item (d : DV α) (fs : List (List Int))
    (h : d.item "faces" = .ok (.list (fs.map intsToDV))) : meshFacesOf d = .ok fs := by
  simp only [meshFacesOf, h, DV.asList, bind, Except.bind, faces_roundtrip]

/-- One index loop of a polyface face. -/
theorem natloop_roundtrip (lp : List Nat) : natLoopOfDV (natsToDV lp : DV α) = .ok lp := by
  simp only [natLoopOfDV, natsToDV, DV.asList, bind, Except.bind, nats_roundtrip]

/-- `face_indices`: faces → loops → indices. -/
theorem face_indices_roundtrip (fi : List (List (List Nat))) :
    mapR (faceLoopsOfDV (α := α)) (fi.map (fun f => DV.list (f.map natsToDV))) = .ok fi := by
  apply mapR_map_ok
  intro a _
  simp only [faceLoopsOfDV, DV.asList, bind, Except.bind]
  exact mapR_map_ok _ _ _ (fun lp _ => natloop_roundtrip lp)

theorem edgeOf_roundtrip (e : Nat × Nat) : edgeOf (natsToDV [e.1, e.2] : DV α) = .ok e := by
  simp only [edgeOf, natsToDV, List.map_cons, List.map_nil, natOf_ofNat, bind, Except.bind,
    pure, Except.pure]

theorem edges_roundtrip (es : List (Nat × Nat)) :
    mapR (edgeOf (α := α)) (es.map (fun e => natsToDV [e.1, e.2])) = .ok es :=
  mapR_map_ok _ _ _ (fun a _ => edgeOf_roundtrip a)

/-! ## Keys: a flat tuple of two kinds of items determines both parts -/

/-- `l₁.map f ++ m₁.map g = l₂.map f ++ m₂.map g` with `f`, `g` injective and never equal to each
other forces `l₁ = l₂` and `m₁ = m₂` (a `Point` never equals a tuple / a flag / a plane). -/
theorem map_append_map_inj {β γ κ : Type} (f : β → κ) (g : γ → κ)
    (hf : Function.Injective f) (hg : Function.Injective g) (hfg : ∀ a b, f a ≠ g b) :
    ∀ (l₁ l₂ : List β) (m₁ m₂ : List γ),
      l₁.map f ++ m₁.map g = l₂.map f ++ m₂.map g → l₁ = l₂ ∧ m₁ = m₂ := by
  intro l₁
  induction l₁ with
  | nil =>
    intro l₂ m₁ m₂ h
    cases l₂ with
    | nil =>
      simp only [List.map_nil, List.nil_append] at h
      exact ⟨rfl, (List.map_injective_iff.2 hg) h⟩
    | cons b t =>
      cases m₁ with
      | nil => simp at h
      | cons c m =>
        simp only [List.map_nil, List.nil_append, List.map_cons, List.cons_append,
          List.cons.injEq] at h
        exact absurd h.1.symm (hfg b c)
  | cons a t ih =>
    intro l₂ m₁ m₂ h
    cases l₂ with
    | nil =>
      cases m₂ with
      | nil => simp at h
      | cons c m =>
        simp only [List.map_nil, List.nil_append, List.map_cons, List.cons_append,
          List.cons.injEq] at h
        exact absurd h.1 (hfg a c)
    | cons b t' =>
      simp only [List.map_cons, List.cons_append, List.cons.injEq] at h
      obtain ⟨h1, h2⟩ := ih t' m₁ m₂ h.2
      exact ⟨by rw [hf h.1, h1], h2⟩

/-! ## Orientation of a reversed loop -/

/-- `Polygon2D.is_clockwise` is "the shoelace sum, halved, is negative". -/
theorem is_clockwise_iff (vs : List (V2 α)) :
    polygon2d_is_clockwise vs = true ↔ shoelace vs / 2 < 0 := by
  simp only [polygon2d_is_clockwise, shoelace_loop, decide_eq_true_eq]

/-- `Polygon2D._are_clockwise` agrees with `is_clockwise`. -/
theorem are_clockwise_eq (vs : List (V2 α)) :
    polygon2d_are_clockwise vs = polygon2d_is_clockwise vs := by
  rw [Bool.eq_iff_iff, is_clockwise_iff]
  simp only [polygon2d_are_clockwise, shoelace_loop, decide_eq_true_eq]
  constructor
  · intro h; exact div_neg_of_neg_of_pos h two_pos
  · intro h
    by_contra h'
    exact absurd h (not_lt.mpr (div_nonneg (not_lt.mp h') zero_le_two))

/-- A clockwise loop, reversed, is not clockwise (what `enforce_right_hand` relies on). -/
theorem not_clockwise_reverse (vs : List (V2 α)) (h : polygon2d_is_clockwise vs = true) :
    polygon2d_is_clockwise vs.reverse = false := by
  rw [← Bool.not_eq_true, is_clockwise_iff, shoelace_reverse]
  rw [is_clockwise_iff] at h
  have : 0 < -shoelace vs / 2 := by
    have : -shoelace vs / 2 = -(shoelace vs / 2) := by ring
    rw [this]; linarith
  exact not_lt.mpr this.le

/-! ## The nested plane dictionary -/

/-- `Plane.from_dict(pl.to_dict())` for a plane satisfying the constructor's invariants
(unit normal and x-axis, `n ⟂ x`, `y = n × x`, `k = n·o`): the same plane, and the
orthogonality assertion passes. -/
theorem planeFromDict_toDict (M : MathOps α) (h1 : M.sqrt 1 = 1) (p : PlaneS α)
    (hn : V3.normSq p.n = 1) (hx : V3.normSq p.x = 1) (hnx : V3.dot p.n p.x = 0)
    (hy : p.y = V3.cross p.n p.x) (hk : p.k = V3.dot p.n p.o) :
    planeFromDict M (planeToDict p) = .ok p := by
  have hinit : plane_init_x M p.n p.o p.x = p := by
    rw [plane_init_x_unit M h1 _ _ _ hn hx]
    cases p
    simp only [PlaneS.mk.injEq, true_and] at *
    exact ⟨hk.symm, hy.symm⟩
  have hdot : p.n.x * p.x.x + p.n.y * p.x.y + p.n.z * p.x.z = 0 := by
    simpa only [V3.dot] using hnx
  have hlt : |(0 : α)| < 1 / 100 := by
    rw [abs_zero]; positivity
  have hp : (planeToDict p).present "x" = some (pt3ToArray p.x) := rfl
  have hni : (planeToDict p).item "n" = .ok (pt3ToArray p.n) := rfl
  have hoi : (planeToDict p).item "o" = .ok (pt3ToArray p.o) := rfl
  simp only [planeFromDict, hp, hni, hoi, pt3OfArray_toArray, planeInitX, hinit, hdot, hlt,
    if_true, bind, Except.bind]

/-! ## Face3D helpers -/

/-- No loop is shorter than 3 ⇒ the constructor's `any(len(hole) < 3)` test is false. -/
theorem any_short_false (hs : List (List (V3 α))) (h : ∀ l ∈ hs, 3 ≤ l.length) :
    hs.any (fun hole => decide (hole.length < 3)) = false := by
  rw [List.any_eq_false]
  intro l hl
  have := h l hl
  simp only [decide_eq_true_eq, not_lt]; exact this

/-- Evaluating `is_clockwise` only fills caches. -/
theorem faceCachePolygon_fields (x : Face3DS α) :
    (faceCachePolygon x).boundary = x.boundary ∧ (faceCachePolygon x).plane = x.plane ∧
      (faceCachePolygon x).holes = x.holes ∧ (faceCachePolygon x).vertices = x.vertices := by
  obtain ⟨b, pl, hs, vs, p2, cw⟩ := x
  rcases p2 with _ | p2 <;> rcases cw with _ | cw <;> exact ⟨rfl, rfl, rfl, rfl⟩

end Lbg.Lemmas.SerialComposite
