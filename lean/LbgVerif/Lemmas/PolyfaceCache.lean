/-
  Lemmas.PolyfaceCache — the edge table a `Polyface3D` carries through its transforms
  (`edge_information`): what "correct table" means up to the order and direction of its
  entries, that loop reversal (reflect, negative scale) keeps it correct, and that the
  `_is_solid` computed from any correct table is the one a fresh polyface computes
  (consumed by Props/C03c).
-/
import LbgVerif.Model.PolyfaceCache
import LbgVerif.Lemmas.EdgeInfo
import Mathlib.Tactic.Ring
import Mathlib.Tactic.Linarith

set_option linter.unusedSectionVars false

namespace Lbg.Lemmas
open Lbg Lbg.Model.PolyfaceCache Lbg.Model.EdgeInfo Lbg.Lemmas.EdgeInfo Lbg.Spec.EdgeCount

/-- The stored edge table `(edge_indices, edge_types)` is a correct incidence table of the
index loops: every proper side once (in one of its two directions), with type = number of
loop sides on it − 1 — as the constructor's loop produces (`inv_edgeInfo`), up to the order
and direction of the entries. -/
def EdgeOK (ei : List (Nat × Nat)) (et : List Nat) (fi : List (List (List Nat))) : Prop :=
  ∃ ds, (und ds).Perm (allEdges fi) ∧ Lemmas.EdgeInfo.Inv ⟨ei, et⟩ ds

/-- The constructor's own table is correct. -/
theorem edgeOK_fresh (fi : List (List (List Nat))) :
    EdgeOK (edgeInfo fi).edge_i (edgeInfo fi).edge_t fi :=
  ⟨sidesOf fi, by rw [allEdges_eq], inv_edgeInfo fi⟩

/-- Reversing every index loop (what `reflect` and a negative `scale` do) keeps the table
correct: the loops have the same sides. -/
theorem edgeOK_revLoops {ei : List (Nat × Nat)} {et : List Nat} {fi : List (List (List Nat))}
    (h : EdgeOK ei et fi) : EdgeOK ei et (revLoops fi) := by
  obtain ⟨ds, hp, hi⟩ := h
  refine ⟨ds, hp.trans ?_, hi⟩
  unfold allEdges revLoops
  apply List.Perm.symm
  rw [List.flatMap_map]
  apply List.Perm.flatMap_left
  intro f _
  unfold faceEdges
  rw [List.flatMap_map]
  apply List.Perm.flatMap_left
  intro l _
  exact loopEdges_reverse_perm l

/-- `_is_solid` computed from a correct table says "every side is shared by exactly two
loops" — whatever the order and direction of the entries. -/
theorem isSolidOf_iff {ei : List (Nat × Nat)} {et : List Nat} {fi : List (List (List Nat))}
    (h : EdgeOK ei et fi) :
    isSolidOf et = true ↔ ∀ e ∈ allEdges fi, uses fi e = 2 := by
  obtain ⟨ds, hp, hi⟩ := h
  have ht : et = ei.map (fun e => (und ds).count (normP e) - 1) := hi.types
  unfold isSolidOf uses
  rw [ht, List.all_eq_true]
  constructor
  · intro hall e he
    have he' : e ∈ und ds := hp.mem_iff.mpr he
    obtain ⟨d, hd, rfl⟩ := List.mem_map.mp (hi.stored e he')
    have := hall _ (List.mem_map.mpr ⟨d, hd, rfl⟩)
    have hc : 0 < (und ds).count (normP d) := List.count_pos_iff.mpr he'
    rw [← hp.count_eq]
    simp only [beq_iff_eq] at this
    omega
  · intro hall t htm
    obtain ⟨d, hd, rfl⟩ := List.mem_map.mp htm
    have hm := (hi.proper d hd).2
    have := hall _ (hp.mem_iff.mp hm)
    rw [← hp.count_eq] at this
    simp only [beq_iff_eq]
    omega

/-- The `_is_solid` a transformed polyface computes from the carried table is the one a fresh
polyface computes from its own. -/
theorem isSolidOf_eq_fresh {ei : List (Nat × Nat)} {et : List Nat} {fi : List (List (List Nat))}
    (h : EdgeOK ei et fi) : isSolidOf et = isSolid fi := by
  rw [Bool.eq_iff_iff, isSolidOf_iff h]
  exact (isSolidOf_iff (edgeOK_fresh fi)).symm

end Lbg.Lemmas
