/-
  Lemmas.MeshCache — list / area facts consumed by Props/C03b (cache machine of the mesh
  classes, `Model/MeshCache.lean`): python `sum`, face vertex look-up under vertex maps,
  `Mesh2D._get_area` under affine maps, pattern filtering (`zipFilter`) alignment, vertex
  re-indexing after `remove_vertices`, index shift of `join_meshes`.
-/
import LbgVerif.Model.MeshCache
import LbgVerif.Lemmas.Shoelace
import Mathlib.Tactic.Ring
import Mathlib.Tactic.Linarith
import Mathlib.Tactic.LinearCombination
import Mathlib.Algebra.Order.Ring.Abs
import Mathlib.Algebra.BigOperators.Ring.List

set_option linter.unusedSectionVars false

namespace Lbg.Lemmas
open Lbg Lbg.Model.MeshCache

section lists
variable {β γ : Type}

/-- Filtering a mapped list by a pattern = mapping the filtered list (alignment of the
per-face data with the faces under `remove_faces_only`). -/
theorem zipFilter_map (g : β → γ) (l : List β) (p : List Bool) :
    zipFilter (l.map g) p = (zipFilter l p).map g := by
  unfold zipFilter
  induction l generalizing p with
  | nil => simp
  | cons a t ih =>
    cases p with
    | nil => simp
    | cons b p =>
      cases b
      · simpa using ih p
      · simpa using ih p

/-- Everything that survives the pattern was in the list. -/
theorem mem_of_mem_zipFilter (l : List β) (p : List Bool) (x : β) (h : x ∈ zipFilter l p) :
    x ∈ l := by
  unfold zipFilter at h
  obtain ⟨⟨y, b⟩, hy, rfl⟩ := List.mem_map.mp h
  exact (List.of_mem_zip (List.mem_filter.mp hy).1).1

/-- Filtering by the pattern "does the element satisfy `q`" is `List.filter q`. -/
theorem zipFilter_map_self (l : List β) (q : β → Bool) :
    zipFilter l (l.map q) = l.filter q := by
  unfold zipFilter
  induction l with
  | nil => simp
  | cons a t ih =>
    cases h : q a
    · simpa [h] using ih
    · simpa [h] using ih

/-- The surviving vertex with old index `i` sits at the new index `newIdx p i`
(`_vdict[i]` of `_remove_vertices`). -/
theorem zipFilter_getElem? (vs : List β) (p : List Bool) (i : Nat)
    (h : p.getD i false = true) : (zipFilter vs p)[newIdx p i]? = vs[i]? := by
  unfold zipFilter newIdx
  induction vs generalizing p i with
  | nil => simp
  | cons v t ih =>
    cases p with
    | nil => simp at h
    | cons b p =>
      cases i with
      | zero =>
        simp at h
        subst h
        simp
      | succ i =>
        have h' : p.getD i false = true := by simpa using h
        have := ih p i h'
        cases b
        · simpa using this
        · simpa [List.count_cons] using this

end lists

variable {α : Type} [Field α] [LinearOrder α] [IsStrictOrderedRing α]

/-- python `sum` (left fold from 0) is the list sum. -/
theorem pySum_eq_sum (l : List α) : pySum l = l.sum := by
  have := foldl_add_eq_sum (fun x : α => x) l 0
  simpa [pySum] using this

/-- Summing values all multiplied by `k` multiplies the sum by `k`. -/
theorem pySum_map_mul_right (l : List α) (k : α) :
    pySum (l.map (fun a => a * k)) = pySum l * k := by
  rw [pySum_eq_sum, pySum_eq_sum, List.sum_map_mul_right]
  simp

/-- Face vertices after mapping every mesh vertex (all indices of the face valid). -/
theorem faceVerts_map (g : V2 α → V2 α) (vs : List (V2 α)) (f : List Nat)
    (hf : ∀ i ∈ f, i < vs.length) : faceVerts (vs.map g) f = (faceVerts vs f).map g := by
  unfold faceVerts
  rw [List.map_map]
  apply List.map_congr_left
  intro i hi
  have := hf i hi
  simp [List.getD_eq_getElem?_getD, this]

/-- `Mesh2D._get_area` under an affine map: multiplied by `|det|`. -/
theorem getArea_affine_of (g : V2 α → V2 α) (a b c d e f : α)
    (hx : ∀ p, (g p).x = a * p.x + b * p.y + e) (hy : ∀ p, (g p).y = c * p.x + d * p.y + f)
    (l : List (V2 α)) : getArea (l.map g) = |a * d - b * c| * getArea l := by
  unfold getArea
  rw [shoelace_affine_of g a b c d e f hx hy, mul_div_assoc, abs_mul]

/-- A translation keeps every `_get_area`. -/
theorem getArea_move (v : V2 α) (l : List (V2 α)) : getArea (l.map (ptMove v)) = getArea l := by
  rw [getArea_affine_of _ 1 0 0 1 v.x v.y (fun p => by simp [ptMove]) (fun p => by simp [ptMove])]
  simp

/-- A rotation (`c² + s² = 1`) keeps every `_get_area`. -/
theorem getArea_rotate (c sn : α) (h : c * c + sn * sn = 1) (o : V2 α) (l : List (V2 α)) :
    getArea (l.map (ptRotate c sn o)) = getArea l := by
  rw [getArea_affine_of _ c (-sn) sn c (-(c * o.x) + sn * o.y + o.x) (-(sn * o.x) - c * o.y + o.y)
    (fun p => by simp only [ptRotate]; ring) (fun p => by simp only [ptRotate]; ring)]
  have : c * c - -sn * sn = 1 := by linear_combination h
  rw [this, abs_one, one_mul]

/-- A reflection across a line with unit normal keeps every `_get_area` (`|det| = |-1|`). -/
theorem getArea_reflect (n o : V2 α) (hn : n.x * n.x + n.y * n.y = 1) (l : List (V2 α)) :
    getArea (l.map (ptReflect n o)) = getArea l := by
  rw [getArea_affine_of _ (1 - 2 * n.x * n.x) (-2 * n.x * n.y) (-2 * n.x * n.y)
    (1 - 2 * n.y * n.y)
    (-o.x + 2 * (o.x * n.x + o.y * n.y) * n.x + o.x)
    (-o.y + 2 * (o.x * n.x + o.y * n.y) * n.y + o.y)
    (fun p => by simp only [ptReflect]; ring) (fun p => by simp only [ptReflect]; ring)]
  have : (1 - 2 * n.x * n.x) * (1 - 2 * n.y * n.y) - -2 * n.x * n.y * (-2 * n.x * n.y) = -1 := by
    linear_combination (-2 : α) * hn
  rw [this, abs_neg, abs_one, one_mul]

/-- Scaling by `k` about `o` multiplies every `_get_area` by `k²` (for every `k`). -/
theorem getArea_scale (k : α) (o : V2 α) (l : List (V2 α)) :
    getArea (l.map (ptScale k o)) = getArea l * k ^ 2 := by
  rw [getArea_affine_of _ k 0 0 k (-(k * o.x) + o.x) (-(k * o.y) + o.y)
    (fun p => by simp only [ptScale]; ring) (fun p => by simp only [ptScale]; ring)]
  have : k * k - 0 * 0 = k ^ 2 := by ring
  rw [this, abs_of_nonneg (sq_nonneg k), mul_comm]

/-- Scaling about the world origin multiplies every `_get_area` by `k²`. -/
theorem getArea_scaleWorld (k : α) (l : List (V2 α)) :
    getArea (l.map (ptScaleWorld k)) = getArea l * k ^ 2 := by
  rw [getArea_affine_of _ k 0 0 k 0 0
    (fun p => by simp only [ptScaleWorld]; ring) (fun p => by simp only [ptScaleWorld]; ring)]
  have : k * k - 0 * 0 = k ^ 2 := by ring
  rw [this, abs_of_nonneg (sq_nonneg k), mul_comm]

/-- Face look-up in a joined vertex list, faces of the first mesh (valid indices). -/
theorem faceVerts_append_left (v1 v2 : List (V2 α)) (f : List Nat)
    (hf : ∀ i ∈ f, i < v1.length) : faceVerts (v1 ++ v2) f = faceVerts v1 f := by
  unfold faceVerts
  apply List.map_congr_left
  intro i hi
  have := hf i hi
  simp [List.getD_eq_getElem?_getD, List.getElem?_append_left this]

/-- Face look-up in a joined vertex list, index-shifted faces of the second mesh. -/
theorem faceVerts_append_shift (v1 v2 : List (V2 α)) (f : List Nat) :
    faceVerts (v1 ++ v2) (f.map (fun i => i + v1.length)) = faceVerts v2 f := by
  unfold faceVerts
  rw [List.map_map]
  apply List.map_congr_left
  intro i _
  simp [List.getD_eq_getElem?_getD, List.getElem?_append_right]

/-- After `remove_vertices` a surviving face re-indexed through `newIdx` sees the same
points. -/
theorem faceVerts_reindex (vs : List (V2 α)) (vpat : List Bool) (f : List Nat)
    (hk : faceKept vpat f = true) :
    faceVerts (zipFilter vs vpat) (f.map (newIdx vpat)) = faceVerts vs f := by
  unfold faceVerts
  rw [List.map_map]
  apply List.map_congr_left
  intro i hi
  have h : vpat.getD i false = true := by
    unfold faceKept at hk
    exact List.all_eq_true.mp hk i hi
  simp [List.getD_eq_getElem?_getD, zipFilter_getElem? vs vpat i h]

/-- … and its new indices are valid when the old ones were. -/
theorem newIdx_lt (vs : List (V2 α)) (vpat : List Bool) (i : Nat)
    (h : vpat.getD i false = true) (hi : i < vs.length) :
    newIdx vpat i < (zipFilter vs vpat).length := by
  have := zipFilter_getElem? vs vpat i h
  rw [List.getElem?_eq_getElem hi] at this
  by_contra hc
  rw [List.getElem?_eq_none (not_lt.mp hc)] at this
  exact absurd this (by simp)

end Lbg.Lemmas
