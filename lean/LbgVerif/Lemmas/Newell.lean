/-
  Lemmas.Newell — the Newell vector `Σ v_{i-1} × v_i` of a 3D vertex loop (the 3D analogue
  of the shoelace functional; its direction is the face normal, its length twice the area).
  Pure Lean/Mathlib, independent of the generated kernels; every statement holds for every
  list (induction, no length bound).
-/
import LbgVerif.Lemmas.Shoelace

namespace Lbg.Lemmas
open Lbg

variable {α : Type} [Field α]

/-- Newell vector: sum of `cross v_{i-1} v_i` over the cyclic edges, accumulated like the
Python loops do. -/
def newell (vs : List (V3 α)) : V3 α :=
  (cyclicPairs vs).foldl (fun acc p => V3.add acc (V3.cross p.1 p.2)) ⟨0, 0, 0⟩

/-- Componentwise description of a `V3.add`-accumulating loop. -/
theorem foldl_v3add {β : Type} (g : β → V3 α) (l : List β) (a : V3 α) :
    l.foldl (fun acc p => V3.add acc (g p)) a =
      ⟨a.x + (l.map (fun p => (g p).x)).sum, a.y + (l.map (fun p => (g p).y)).sum,
       a.z + (l.map (fun p => (g p).z)).sum⟩ := by
  induction l generalizing a with
  | nil => simp
  | cons p t ih =>
    rw [List.foldl_cons, ih]
    simp only [V3.add, List.map_cons, List.sum_cons]
    congr 1 <;> ring

/-- x-component of the Newell vector as a cyclic sum. -/
theorem newell_x (l : List (V3 α)) :
    (newell l).x = cycSum (fun a b => a.y * b.z - a.z * b.y) l := by
  simp only [newell, foldl_v3add, zero_add, cycSum, V3.cross]

/-- y-component of the Newell vector as a cyclic sum. -/
theorem newell_y (l : List (V3 α)) :
    (newell l).y = cycSum (fun a b => a.z * b.x - a.x * b.z) l := by
  simp only [newell, foldl_v3add, zero_add, cycSum, V3.cross]

/-- z-component of the Newell vector as a cyclic sum. -/
theorem newell_z (l : List (V3 α)) :
    (newell l).z = cycSum (fun a b => a.x * b.y - a.y * b.x) l := by
  simp only [newell, foldl_v3add, zero_add, cycSum, V3.cross]

/-- The empty loop has zero Newell vector. -/
@[simp] theorem newell_nil : newell ([] : List (V3 α)) = ⟨0, 0, 0⟩ := rfl

/-- Reversing the vertex order negates the Newell vector (flips the normal). -/
theorem newell_reverse (l : List (V3 α)) : newell l.reverse = V3.neg (newell l) := by
  apply V3.ext' <;>
    simp only [V3.neg, newell_x, newell_y, newell_z] <;>
    exact cycSum_reverse_of_antisymm _ (fun x y => by ring) l

/-- The Newell vector does not depend on where the loop is cut open. -/
theorem newell_append_comm (l₁ l₂ : List (V3 α)) : newell (l₁ ++ l₂) = newell (l₂ ++ l₁) := by
  apply V3.ext' <;> simp only [newell_x, newell_y, newell_z, cycSum_append_comm]

/-- Cyclic start invariance, in terms of `List.rotate`. -/
theorem newell_rotate (l : List (V3 α)) (n : ℕ) : newell (l.rotate n) = newell l := by
  apply V3.ext' <;> simp only [newell_x, newell_y, newell_z, cycSum_rotate]

/-- Master lemma: if `g` acts as `p ↦ M p + t` (matrix rows `m1`, `m2`, `m3`) then the Newell
vector is transformed by the cofactor matrix of `M` (for a rotation: by `M` itself; for a
uniform scale `k`: by `k²`; translations have no effect). -/
theorem newell_affine_of (g : V3 α → V3 α) (m1 m2 m3 t : V3 α)
    (hx : ∀ p, (g p).x = m1.x * p.x + m1.y * p.y + m1.z * p.z + t.x)
    (hy : ∀ p, (g p).y = m2.x * p.x + m2.y * p.y + m2.z * p.z + t.y)
    (hz : ∀ p, (g p).z = m3.x * p.x + m3.y * p.y + m3.z * p.z + t.z)
    (l : List (V3 α)) :
    newell (l.map g) =
      ⟨(V3.cross m2 m3).x * (newell l).x + (V3.cross m2 m3).y * (newell l).y
          + (V3.cross m2 m3).z * (newell l).z,
       (V3.cross m3 m1).x * (newell l).x + (V3.cross m3 m1).y * (newell l).y
          + (V3.cross m3 m1).z * (newell l).z,
       (V3.cross m1 m2).x * (newell l).x + (V3.cross m1 m2).y * (newell l).y
          + (V3.cross m1 m2).z * (newell l).z⟩ := by
  apply V3.ext'
  · simp only [newell_x, newell_y, newell_z, cycSum_map, V3.cross]
    rw [cycSum_congr (g := fun x y =>
      ((m2.y * m3.z - m2.z * m3.y) * (x.y * y.z - x.z * y.y) +
        ((m2.z * m3.x - m2.x * m3.z) * (x.z * y.x - x.x * y.z) +
          (m2.x * m3.y - m2.y * m3.x) * (x.x * y.y - x.y * y.x))) +
      ((fun p : V3 α => t.y * (m3.x * p.x + m3.y * p.y + m3.z * p.z)
          - t.z * (m2.x * p.x + m2.y * p.y + m2.z * p.z)) y -
       (fun p : V3 α => t.y * (m3.x * p.x + m3.y * p.y + m3.z * p.z)
          - t.z * (m2.x * p.x + m2.y * p.y + m2.z * p.z)) x))]
    · rw [cycSum_add_telescope, cycSum_add, cycSum_add, cycSum_mul_left, cycSum_mul_left,
        cycSum_mul_left]
      ring
    · intro x y
      simp only [hy, hz]
      ring
  · simp only [newell_x, newell_y, newell_z, cycSum_map, V3.cross]
    rw [cycSum_congr (g := fun x y =>
      ((m3.y * m1.z - m3.z * m1.y) * (x.y * y.z - x.z * y.y) +
        ((m3.z * m1.x - m3.x * m1.z) * (x.z * y.x - x.x * y.z) +
          (m3.x * m1.y - m3.y * m1.x) * (x.x * y.y - x.y * y.x))) +
      ((fun p : V3 α => t.z * (m1.x * p.x + m1.y * p.y + m1.z * p.z)
          - t.x * (m3.x * p.x + m3.y * p.y + m3.z * p.z)) y -
       (fun p : V3 α => t.z * (m1.x * p.x + m1.y * p.y + m1.z * p.z)
          - t.x * (m3.x * p.x + m3.y * p.y + m3.z * p.z)) x))]
    · rw [cycSum_add_telescope, cycSum_add, cycSum_add, cycSum_mul_left, cycSum_mul_left,
        cycSum_mul_left]
      ring
    · intro x y
      simp only [hx, hz]
      ring
  · simp only [newell_x, newell_y, newell_z, cycSum_map, V3.cross]
    rw [cycSum_congr (g := fun x y =>
      ((m1.y * m2.z - m1.z * m2.y) * (x.y * y.z - x.z * y.y) +
        ((m1.z * m2.x - m1.x * m2.z) * (x.z * y.x - x.x * y.z) +
          (m1.x * m2.y - m1.y * m2.x) * (x.x * y.y - x.y * y.x))) +
      ((fun p : V3 α => t.x * (m2.x * p.x + m2.y * p.y + m2.z * p.z)
          - t.y * (m1.x * p.x + m1.y * p.y + m1.z * p.z)) y -
       (fun p : V3 α => t.x * (m2.x * p.x + m2.y * p.y + m2.z * p.z)
          - t.y * (m1.x * p.x + m1.y * p.y + m1.z * p.z)) x))]
    · rw [cycSum_add_telescope, cycSum_add, cycSum_add, cycSum_mul_left, cycSum_mul_left,
        cycSum_mul_left]
      ring
    · intro x y
      simp only [hx, hy]
      ring

/-- Translation does not change the Newell vector (`Σ (a × t + t × b)` telescopes to zero
around a closed loop). -/
theorem newell_translate (t : V3 α) (l : List (V3 α)) :
    newell (l.map (fun p => V3.add p t)) = newell l := by
  rw [newell_affine_of _ ⟨1, 0, 0⟩ ⟨0, 1, 0⟩ ⟨0, 0, 1⟩ t (fun p => by simp [V3.add])
    (fun p => by simp [V3.add]) (fun p => by simp [V3.add])]
  apply V3.ext' <;> simp [V3.cross]

/-- Translation by `-t` (written with `V3.sub`) does not change the Newell vector. -/
theorem newell_translate_sub (t : V3 α) (l : List (V3 α)) :
    newell (l.map (fun p => V3.sub p t)) = newell l := by
  rw [newell_affine_of _ ⟨1, 0, 0⟩ ⟨0, 1, 0⟩ ⟨0, 0, 1⟩ (V3.neg t)
    (fun p => by simp [V3.sub, V3.neg]; ring) (fun p => by simp [V3.sub, V3.neg]; ring)
    (fun p => by simp [V3.sub, V3.neg]; ring)]
  apply V3.ext' <;> simp [V3.cross]

/-- Uniform scaling by `k` multiplies the Newell vector by `k²`. -/
theorem newell_scale (k : α) (l : List (V3 α)) :
    newell (l.map (fun p => V3.smul k p)) = V3.smul (k * k) (newell l) := by
  rw [newell_affine_of _ ⟨k, 0, 0⟩ ⟨0, k, 0⟩ ⟨0, 0, k⟩ ⟨0, 0, 0⟩ (fun p => by simp [V3.smul])
    (fun p => by simp [V3.smul]) (fun p => by simp [V3.smul])]
  apply V3.ext' <;> simp [V3.cross, V3.smul]

/-- Planar loops, master form: if `g` sends plane coordinates `c` to `o + c.x • x + c.y • y`
(coordinatewise hypotheses, so that `plane_xy_to_xyz` plugs in directly) then the Newell
vector of the lifted loop is `shoelace coords • (x × y)`. -/
theorem newell_planar_of (g : V2 α → V3 α) (o x y : V3 α)
    (hx : ∀ c, (g c).x = o.x + x.x * c.x + y.x * c.y)
    (hy : ∀ c, (g c).y = o.y + x.y * c.x + y.y * c.y)
    (hz : ∀ c, (g c).z = o.z + x.z * c.x + y.z * c.y)
    (coords : List (V2 α)) :
    newell (coords.map g) = V3.smul (shoelace coords) (V3.cross x y) := by
  apply V3.ext'
  · simp only [newell_x, cycSum_map, V3.smul, V3.cross, shoelace_eq_cycSum]
    rw [cycSum_congr (g := fun a b => (x.y * y.z - x.z * y.y) * V2.det a b +
      ((fun c : V2 α => o.y * (x.z * c.x + y.z * c.y) - o.z * (x.y * c.x + y.y * c.y)) b -
       (fun c : V2 α => o.y * (x.z * c.x + y.z * c.y) - o.z * (x.y * c.x + y.y * c.y)) a))]
    · rw [cycSum_add_telescope, cycSum_mul_left]; ring
    · intro a b; simp only [hy, hz, V2.det]; ring
  · simp only [newell_y, cycSum_map, V3.smul, V3.cross, shoelace_eq_cycSum]
    rw [cycSum_congr (g := fun a b => (x.z * y.x - x.x * y.z) * V2.det a b +
      ((fun c : V2 α => o.z * (x.x * c.x + y.x * c.y) - o.x * (x.z * c.x + y.z * c.y)) b -
       (fun c : V2 α => o.z * (x.x * c.x + y.x * c.y) - o.x * (x.z * c.x + y.z * c.y)) a))]
    · rw [cycSum_add_telescope, cycSum_mul_left]; ring
    · intro a b; simp only [hx, hz, V2.det]; ring
  · simp only [newell_z, cycSum_map, V3.smul, V3.cross, shoelace_eq_cycSum]
    rw [cycSum_congr (g := fun a b => (x.x * y.y - x.y * y.x) * V2.det a b +
      ((fun c : V2 α => o.x * (x.y * c.x + y.y * c.y) - o.y * (x.x * c.x + y.x * c.y)) b -
       (fun c : V2 α => o.x * (x.y * c.x + y.y * c.y) - o.y * (x.x * c.x + y.x * c.y)) a))]
    · rw [cycSum_add_telescope, cycSum_mul_left]; ring
    · intro a b; simp only [hx, hy, V2.det]; ring

/-- Planar formula: if every vertex is `o + u_i • x + w_i • y` then
`newell vs = (shoelace coords) • (x × y)`. -/
theorem newell_planar (o x y : V3 α) (coords : List (V2 α)) :
    newell (coords.map (fun c => V3.add (V3.add o (V3.smul c.x x)) (V3.smul c.y y))) =
      V3.smul (shoelace coords) (V3.cross x y) :=
  newell_planar_of _ o x y (fun c => by simp only [V3.add, V3.smul]; ring)
    (fun c => by simp only [V3.add, V3.smul]; ring)
    (fun c => by simp only [V3.add, V3.smul]; ring) coords

/-- Fan formula, componentwise chain form: for `vs = p0 :: rest` the sum over consecutive
pairs `(a, b)` of `rest` of `cross (a - p0) (b - p0)` is the Newell vector of `vs`. -/
theorem newell_fan_head (p0 : V3 α) (rest : List (V3 α)) :
    (rest.zip rest.tail).foldl
        (fun acc p => V3.add acc (V3.cross (V3.sub p.1 p0) (V3.sub p.2 p0))) ⟨0, 0, 0⟩ =
      newell (p0 :: rest) := by
  rw [← newell_translate_sub p0 (p0 :: rest), foldl_v3add]
  apply V3.ext'
  · simp only [zero_add, newell_x, cycSum_map]
    rw [cycSum_cons_of_zero _ p0 (fun x => by simp [V3.sub]) (fun x => by simp [V3.sub]),
      chainS_eq_zip_tail]
    simp only [V3.cross, V3.sub]
  · simp only [zero_add, newell_y, cycSum_map]
    rw [cycSum_cons_of_zero _ p0 (fun x => by simp [V3.sub]) (fun x => by simp [V3.sub]),
      chainS_eq_zip_tail]
    simp only [V3.cross, V3.sub]
  · simp only [zero_add, newell_z, cycSum_map]
    rw [cycSum_cons_of_zero _ p0 (fun x => by simp [V3.sub]) (fun x => by simp [V3.sub]),
      chainS_eq_zip_tail]
    simp only [V3.cross, V3.sub]

/-- Triangle: `newell [a,b,c] = (b - a) × (c - a)`. -/
theorem newell_triangle (a b c : V3 α) :
    newell [a, b, c] = V3.cross (V3.sub b a) (V3.sub c a) := by
  apply V3.ext' <;>
    simp only [newell_x, newell_y, newell_z, cycSum_cons, seg_cons, seg_nil, V3.cross,
      V3.sub] <;> ring

/-- Cutting a 3D loop along the chord `a — b` is additive in the Newell vector. -/
theorem newell_split (pre mid post : List (V3 α)) (a b : V3 α) :
    newell (pre ++ [a] ++ mid ++ [b] ++ post) =
      V3.add (newell ([a] ++ mid ++ [b])) (newell (pre ++ [a, b] ++ post)) := by
  apply V3.ext' <;>
    simp only [V3.add, newell_x, newell_y, newell_z] <;>
    exact cycSum_split _ (fun x y => by ring) pre mid post a b

/-- Merging a hole loop into a boundary loop through a doubled bridge edge `p — q` adds the
Newell vectors. -/
theorem newell_bridge (b1 b2 h1 h2 : List (V3 α)) (p q : V3 α) :
    newell (b1 ++ [p] ++ ([q] ++ h2 ++ h1 ++ [q]) ++ [p] ++ b2) =
      V3.add (newell (b1 ++ [p] ++ b2)) (newell (h1 ++ [q] ++ h2)) := by
  apply V3.ext' <;>
    simp only [V3.add, newell_x, newell_y, newell_z] <;>
    exact cycSum_bridge _ (fun x y => by ring) b1 b2 h1 h2 p q

/-- Sanity check (ℚ): the unit square in the plane `z = 5`, counter-clockwise seen from +z,
has Newell vector `(0, 0, 2)`. -/
example : newell ([⟨0, 0, 5⟩, ⟨1, 0, 5⟩, ⟨1, 1, 5⟩, ⟨0, 1, 5⟩] : List (V3 ℚ)) = ⟨0, 0, 2⟩ := by
  decide +kernel

end Lbg.Lemmas
