/-
  Helper lemmas for the `_segmentChainer` theorems (Props/C04b), part 1: list / multiset
  bookkeeping, edge multisets of paths and loops, vertex degrees.
-/
import LbgVerif.Basic
import Mathlib.Data.Sym.Sym2
import Mathlib.Data.Multiset.Bind
import Mathlib.Data.List.Perm.Basic
import Mathlib.Algebra.BigOperators.Group.Multiset.Basic
import Mathlib.Algebra.Group.Even
import Mathlib.Tactic.Ring
import Mathlib.Tactic.Linarith

namespace Lbg.Lemmas.Chainer

/-! ## `List.set` / `List.eraseIdx` as multiset operations -/

section ListMultiset
variable {β : Type}

/-- Removing position `i`: the list is its `i`-th element plus the rest. -/
theorem coe_eq_getElem_cons_eraseIdx (l : List β) (i : Nat) (h : i < l.length) :
    (↑l : Multiset β) = l[i] ::ₘ (↑(l.eraseIdx i) : Multiset β) := by
  rw [Multiset.cons_coe, Multiset.coe_eq_coe]
  exact (List.getElem_cons_eraseIdx_perm h).symm

/-- Overwriting position `i`: same rest, new element. -/
theorem set_decomp (l : List β) (i : Nat) (h : i < l.length) (x : β) :
    ∃ rest : Multiset β, (↑l : Multiset β) = l[i] ::ₘ rest ∧
      (↑(l.set i x) : Multiset β) = x ::ₘ rest := by
  refine ⟨↑(l.eraseIdx i), coe_eq_getElem_cons_eraseIdx l i h, ?_⟩
  have h' : i < (l.set i x).length := by simpa using h
  have := coe_eq_getElem_cons_eraseIdx (l.set i x) i h'
  simpa [List.eraseIdx_set_eq] using this

/-- Overwriting position `i1` and deleting position `i2 ≠ i1` (what `appendChain` does to the
list of chains): two elements leave, one enters, the rest stays. -/
theorem set_eraseIdx_decomp (l : List β) (i1 i2 : Nat) (h1 : i1 < l.length)
    (h2 : i2 < l.length) (hne : i1 ≠ i2) (x : β) :
    ∃ rest : Multiset β, (↑l : Multiset β) = l[i1] ::ₘ l[i2] ::ₘ rest ∧
      (↑((l.set i1 x).eraseIdx i2) : Multiset β) = x ::ₘ rest := by
  obtain ⟨E1, hl, hs⟩ := set_decomp l i1 h1 x
  have h2' : i2 < (l.set i1 x).length := by simpa using h2
  have hT := coe_eq_getElem_cons_eraseIdx (l.set i1 x) i2 h2'
  have hb : (l.set i1 x)[i2] = l[i2] := by
    rw [List.getElem_set_ne hne]
  rw [hb, hs] at hT
  -- `l[i2] ∈ E1`
  have hmem : l[i2] ∈ E1 := by
    have : l[i2] ∈ (↑l : Multiset β) := by
      rw [Multiset.mem_coe]; exact List.getElem_mem h2
    rw [hl, Multiset.mem_cons] at this
    rcases this with e | hm
    · -- `l[i2] = l[i1]` as values: still a member of `E1` through `hT`
      have : l[i2] ∈ x ::ₘ E1 := by rw [hT]; exact Multiset.mem_cons_self _ _
      rcases Multiset.mem_cons.mp this with e2 | hm
      · -- then `x = l[i2]`, and `x ::ₘ E1 = l[i2] ::ₘ T` gives `E1 = T`; use positions
        have hpos : l[i2] ∈ l.eraseIdx i1 := by
          rw [List.mem_eraseIdx_iff_getElem]
          exact ⟨i2, h2, fun e => hne e.symm, rfl⟩
        have hE : E1 = ↑(l.eraseIdx i1) := by
          have := coe_eq_getElem_cons_eraseIdx l i1 h1
          rw [hl] at this
          exact (Multiset.cons_inj_right _).mp this
        rw [hE]; exact hpos
      · exact hm
    · exact hm
  obtain ⟨rest, hrest⟩ := Multiset.exists_cons_of_mem hmem
  refine ⟨rest, ?_, ?_⟩
  · rw [hl, hrest]
  · rw [hrest, Multiset.cons_swap] at hT
    exact ((Multiset.cons_inj_right _).mp hT).symm

end ListMultiset

/-! ## Edge multisets -/

section Edges
variable {β : Type}

/-- Undirected edges of an open path `p₀ p₁ … pₙ`. -/
def pathEdges : List β → Multiset (Sym2 β)
  | a :: b :: l => s(a, b) ::ₘ pathEdges (b :: l)
  | _ => 0

/-- Undirected edges of a closed loop (the path plus the closing edge last → first). -/
def loopEdges (l : List β) : Multiset (Sym2 β) :=
  match l.head?, l.getLast? with
  | some h, some t => s(t, h) ::ₘ pathEdges l
  | _, _ => 0

@[simp] theorem pathEdges_nil : pathEdges ([] : List β) = 0 := rfl
@[simp] theorem pathEdges_singleton (a : β) : pathEdges [a] = 0 := rfl
@[simp] theorem pathEdges_cons_cons (a b : β) (l : List β) :
    pathEdges (a :: b :: l) = s(a, b) ::ₘ pathEdges (b :: l) := rfl

theorem pathEdges_cons (a : β) (l : List β) (h : β) (hh : l.head? = some h) :
    pathEdges (a :: l) = s(a, h) ::ₘ pathEdges l := by
  cases l with
  | nil => simp at hh
  | cons b l => simp at hh; subst hh; rfl

theorem pathEdges_append (l1 l2 : List β) (t h : β) (ht : l1.getLast? = some t)
    (hh : l2.head? = some h) :
    pathEdges (l1 ++ l2) = s(t, h) ::ₘ (pathEdges l1 + pathEdges l2) := by
  induction l1 with
  | nil => simp at ht
  | cons a l1 ih =>
    cases l1 with
    | nil =>
      simp at ht; subst ht
      simp [pathEdges_cons a l2 h hh]
    | cons b l1 =>
      have ht' : (b :: l1).getLast? = some t := by
        rw [List.getLast?_cons_cons] at ht; exact ht
      have := ih ht'
      simp only [List.cons_append, pathEdges_cons_cons] at this ⊢
      rw [this]
      simp only [Multiset.cons_add]
      rw [Multiset.cons_swap]

theorem pathEdges_snoc (l : List β) (t p : β) (ht : l.getLast? = some t) :
    pathEdges (l ++ [p]) = s(t, p) ::ₘ pathEdges l := by
  rw [pathEdges_append l [p] t p ht rfl]; simp

theorem pathEdges_reverse (l : List β) : pathEdges l.reverse = pathEdges l := by
  induction l with
  | nil => rfl
  | cons a l ih =>
    cases l with
    | nil => rfl
    | cons b l =>
      rw [List.reverse_cons]
      have hl : (b :: l).reverse.getLast? = some b := by simp
      rw [pathEdges_snoc _ b a hl, ih, pathEdges_cons_cons, Sym2.eq_swap]

theorem loopEdges_eq (l : List β) (h t : β) (hh : l.head? = some h) (ht : l.getLast? = some t) :
    loopEdges l = s(t, h) ::ₘ pathEdges l := by
  unfold loopEdges; rw [hh, ht]

end Edges

/-! ## Vertex degrees -/

section Degree
variable {β : Type} [DecidableEq β]

/-- Number of ends of the edge `e` at the vertex `v` (a loop edge `s(v, v)` counts twice). -/
def endsAt (v : β) (e : Sym2 β) : Nat :=
  Sym2.lift ⟨fun a b => (if a = v then 1 else 0) + (if b = v then 1 else 0),
    fun a b => by simp only [Nat.add_comm]⟩ e

@[simp] theorem endsAt_mk (v a b : β) :
    endsAt v s(a, b) = (if a = v then 1 else 0) + (if b = v then 1 else 0) := rfl

/-- Degree of `v` in an edge multiset. -/
def degree (v : β) (E : Multiset (Sym2 β)) : Nat := (E.map (endsAt v)).sum

@[simp] theorem degree_zero (v : β) : degree v (0 : Multiset (Sym2 β)) = 0 := rfl

@[simp] theorem degree_cons (v : β) (e : Sym2 β) (E : Multiset (Sym2 β)) :
    degree v (e ::ₘ E) = endsAt v e + degree v E := by
  unfold degree; simp

@[simp] theorem degree_add (v : β) (E F : Multiset (Sym2 β)) :
    degree v (E + F) = degree v E + degree v F := by
  unfold degree; simp

/-- Indicator as a number. -/
def ind (p : Prop) [Decidable p] : Nat := if p then 1 else 0

/-- Along an open path every interior visit of `v` uses two edge ends, the two ends of the
path one each: `deg_v(path) ≡ [first = v] + [last = v]  (mod 2)`. -/
theorem degree_pathEdges_mod_two (v : β) (l : List β) (h t : β) (hh : l.head? = some h)
    (ht : l.getLast? = some t) :
    degree v (pathEdges l) % 2 = (ind (h = v) + ind (t = v)) % 2 := by
  induction l generalizing h with
  | nil => simp at hh
  | cons a l ih =>
    simp at hh; subst hh
    cases l with
    | nil =>
      simp at ht; subst ht
      unfold ind; split_ifs <;> simp
    | cons b l =>
      have ht' : (b :: l).getLast? = some t := by
        rw [List.getLast?_cons_cons] at ht; exact ht
      have := ih b rfl ht'
      rw [pathEdges_cons_cons, degree_cons, endsAt_mk]
      unfold ind at this ⊢
      omega

/-- A closed loop has even degree at every vertex. -/
theorem degree_loopEdges_even (v : β) (l : List β) : degree v (loopEdges l) % 2 = 0 := by
  cases hh : l.head? with
  | none => unfold loopEdges; rw [hh]; rfl
  | some h =>
    cases ht : l.getLast? with
    | none => unfold loopEdges; rw [hh, ht]; rfl
    | some t =>
      rw [loopEdges_eq l h t hh ht, degree_cons, endsAt_mk]
      have := degree_pathEdges_mod_two v l h t hh ht
      unfold ind at this
      omega

end Degree

end Lbg.Lemmas.Chainer
