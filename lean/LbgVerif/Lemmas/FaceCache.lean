/-
  Lemmas.FaceCache — the fresh values of the `Face3D` machine (`Model/FaceCache`) under the
  maps its transforms apply: loop lengths (perimeter) as cyclic sums of distances, the
  polygon area under mirrored reversal and under affine maps of the plane coordinates
  (consumed by Props/C03c).
-/
import LbgVerif.Model.FaceCache
import LbgVerif.Lemmas.PolylineCache
import LbgVerif.Lemmas.Shoelace
import LbgVerif.Lemmas.Measure
import LbgVerif.Lemmas.Isometry
import Mathlib.Tactic.Ring
import Mathlib.Tactic.FieldSimp
import Mathlib.Tactic.Linarith
import Mathlib.Tactic.LinearCombination
import Mathlib.Data.List.Rotate

set_option linter.unusedSectionVars false

namespace Lbg.Lemmas
open Lbg Lbg.Gen Lbg.Model.MeshCache Lbg.Model.PolylineCache Lbg.Model.FaceCache
variable {α : Type} [Field α] [LinearOrder α] [IsStrictOrderedRing α]

/-! ### Loop lengths -/

/-- Length of a closed loop as `boundary_segments` / `hole_segments` add it up. -/
def loopLen (M : MathOps α) (loop : List (V3 α)) : α := lengthOf3 M (loopSegs3 loop)

/-- The loop length is the cyclic sum of the vertex distances. -/
theorem loopLen_eq (M : MathOps α) (loop : List (V3 α)) :
    loopLen M loop = cycSum (dist3 M) loop := by
  unfold loopLen lengthOf3 loopSegs3 cycSum
  rw [pySum_eq_sum, List.map_rotate, ((List.rotate_perm _ 1).sum_eq), List.map_map]
  rfl

/-- A distance-preserving map keeps every loop length. -/
theorem loopLen_map (M : MathOps α) (g : V3 α → V3 α)
    (hg : ∀ p q, V3.normSq (V3.sub (g p) (g q)) = V3.normSq (V3.sub p q)) (loop : List (V3 α)) :
    loopLen M (loop.map g) = loopLen M loop := by
  rw [loopLen_eq, loopLen_eq, cycSum_map]
  exact cycSum_congr (fun x y => by rw [dist3_eq, dist3_eq, hg]) loop

/-- Reversing a loop keeps its length. -/
theorem loopLen_reverse (M : MathOps α) (loop : List (V3 α)) :
    loopLen M loop.reverse = loopLen M loop := by
  rw [loopLen_eq, loopLen_eq, cycSum_reverse_flip]
  exact cycSum_congr (fun x y => dist3_symm M x y) loop

/-- A map multiplying squared distances by `k²` multiplies every loop length by `|k|`. -/
theorem loopLen_scale (M : MathOps α)
    (hsqrt : ∀ x, 0 ≤ x → M.sqrt x * M.sqrt x = x ∧ 0 ≤ M.sqrt x) (k : α) (g : V3 α → V3 α)
    (hg : ∀ p q, V3.normSq (V3.sub (g p) (g q)) = k * k * V3.normSq (V3.sub p q))
    (loop : List (V3 α)) : loopLen M (loop.map g) = |k| * loopLen M loop := by
  rw [loopLen_eq, loopLen_eq, cycSum_map, ← cycSum_mul_left]
  apply cycSum_congr
  intro x y
  rw [dist3_eq, dist3_eq]
  apply sqrt_scale M hsqrt (abs_nonneg k) (v3_normSq_nonneg _)
  rw [hg, abs_mul_abs_self]

/-- `Face3D.perimeter` of fresh data: boundary loop plus hole loops. -/
theorem perimOf_eq (M : MathOps α) (s : FaceC α) :
    perimOf M s = loopLen M s.boundary + ((s.holes.getD []).map (loopLen M)).sum := by
  unfold perimOf perimOfSegs bsegsOf hsegsOf
  cases h : s.holes with
  | none => simp [loopLen]
  | some hs =>
    simp only [Option.map_some, Option.getD_some]
    rw [foldl_add_eq_sum (fun hole => lengthOf3 M hole), List.map_map]
    rfl

/-! ### Plane coordinates -/

theorem to2d_map (pl pl' : PlaneS α) (g : V3 α → V3 α) (h : V2 α → V2 α)
    (hg : ∀ p, plane_xyz_to_xy pl' (g p) = h (plane_xyz_to_xy pl p)) (pts : List (V3 α)) :
    to2d pl' (pts.map g) = (to2d pl pts).map h := by
  unfold to2d
  rw [List.map_map, List.map_map]
  exact List.map_congr_left (fun p _ => hg p)

/-- Plane coordinates are unchanged when plane and points move together. -/
theorem to2d_map_id (pl pl' : PlaneS α) (g : V3 α → V3 α)
    (hg : ∀ p, plane_xyz_to_xy pl' (g p) = plane_xyz_to_xy pl p) (pts : List (V3 α)) :
    to2d pl' (pts.map g) = to2d pl pts := by
  rw [to2d_map pl pl' g id hg, List.map_id]

/-- Plane coordinates of a reversed loop. -/
theorem to2d_reverse (pl : PlaneS α) (pts : List (V3 α)) :
    to2d pl pts.reverse = (to2d pl pts).reverse := by
  unfold to2d; rw [List.map_reverse]

/-! ### Area -/

/-- The generated `Polygon2D.area` kernel is `|shoelace / 2|`. -/
theorem polygon2d_area_eq_shoelace (vs : List (V2 α)) : polygon2d_area vs = |shoelace vs / 2| := by
  simp only [polygon2d_area, shoelace_loop]

/-- Mirror `y ↦ −y` of the plane coordinates (what `plane.flip()` / `plane.reflect()` do to
the frame: the y axis is `n × x`). -/
def mirrorY (p : V2 α) : V2 α := ⟨p.x, -p.y⟩

/-- Mirrored and reversed vertex list: same area. -/
theorem area_reverse_mirror (l : List (V2 α)) :
    polygon2d_area (l.reverse.map mirrorY) = polygon2d_area l := by
  rw [polygon2d_area_eq_shoelace, polygon2d_area_eq_shoelace]
  have h1 : shoelace (l.reverse.map mirrorY) = -(shoelace l.reverse) := by
    rw [shoelace_affine_of mirrorY 1 0 0 (-1) 0 0 (fun p => by simp [mirrorY])
      (fun p => by simp [mirrorY])]
    ring
  rw [h1, shoelace_reverse, neg_neg]

/-- Mirrored (not reversed) vertex list: same area. -/
theorem area_mirror (l : List (V2 α)) : polygon2d_area (l.map mirrorY) = polygon2d_area l := by
  rw [polygon2d_area_eq_shoelace, polygon2d_area_eq_shoelace]
  have h1 : shoelace (l.map mirrorY) = -(shoelace l) := by
    rw [shoelace_affine_of mirrorY 1 0 0 (-1) 0 0 (fun p => by simp [mirrorY])
      (fun p => by simp [mirrorY])]
    ring
  rw [h1, neg_div, abs_neg]

/-- An affine map of the plane coordinates with determinant `δ` multiplies the area by `|δ|`. -/
theorem area_affine (g : V2 α → V2 α) (a b c d e f : α) (hg : Affine2 g a b c d e f)
    (l : List (V2 α)) : polygon2d_area (l.map g) = |a * d - b * c| * polygon2d_area l := by
  rw [polygon2d_area_eq_shoelace, polygon2d_area_eq_shoelace,
    shoelace_affine_of g a b c d e f hg.hx hg.hy, mul_div_assoc, abs_mul]

end Lbg.Lemmas
