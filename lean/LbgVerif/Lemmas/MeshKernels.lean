/-
  Lemmas.MeshKernels — the generated `Mesh2D` / `Mesh3D` face kernels in vector notation
  (cross products, `normSq`, `v3_normalize`), and their values on planar faces given through
  an orthonormal frame (`lift o x y`).  Shared by C01 (exact measures) and C16 (2D / 3D
  siblings agree).

  The `_eq` lemmas are proved by unfolding both sides and normalising with `ring_nf`, so they
  do not depend on the names or the association of the generated `let`s.
-/
import LbgVerif.Gen.Mesh
import LbgVerif.Gen.Vec
import LbgVerif.Lemmas.Measure
import Mathlib.Tactic.Ring
import Mathlib.Tactic.FieldSimp
import Mathlib.Tactic.Linarith
import Mathlib.Tactic.LinearCombination
import Mathlib.Tactic.NormNum

set_option linter.unusedSectionVars false
set_option linter.unusedTactic false
set_option linter.unnecessarySeqFocus false
set_option linter.unreachableTactic false

namespace Lbg.Lemmas
open Lbg Lbg.Gen
variable {α : Type} [Field α] [LinearOrder α] [IsStrictOrderedRing α]

/-! ### The kernels in vector notation -/

/-- `Mesh2D._get_area` on a triangle is `|det (b - a) (c - a)| / 2`. -/
theorem mesh2d_get_area_tri_det (a b c : V2 α) :
    mesh2d_get_area_tri (a, b, c) = |V2.det (V2.sub b a) (V2.sub c a) / 2| := by
  unfold mesh2d_get_area_tri
  simp only [V2.det, V2.sub] <;> ring_nf

/-- `Mesh2D._get_area` on a quad is `|shoelace| / 2`. -/
theorem mesh2d_get_area_quad_shoelace (a b c d : V2 α) :
    mesh2d_get_area_quad (a, b, c, d) = |shoelace [a, b, c, d] / 2| := by
  rw [shoelace_quad]
  unfold mesh2d_get_area_quad
  simp only [V2.det, V2.sub] <;> ring_nf

/-- `Mesh3D._get_tri_area` is `|(b - a) × (c - a)| / 2`. -/
theorem mesh3d_get_tri_area_cross (M : MathOps α) (a b c : V3 α) :
    mesh3d_get_tri_area M (a, b, c) =
      M.sqrt (V3.normSq (V3.cross (V3.sub b a) (V3.sub c a))) / 2 := by
  unfold mesh3d_get_tri_area
  simp only [V3.normSq, V3.cross, V3.sub] <;> ring_nf

/-- `Mesh3D._calculate_normal_and_area_for_triangle`: normalised cross product and half its
length. -/
theorem mesh3d_normal_area_tri_cross (M : MathOps α) (a b c : V3 α) :
    mesh3d_normal_area_tri M (a, b, c) =
      (v3_normalize M (V3.cross (V3.sub b a) (V3.sub c a)),
       M.sqrt (V3.normSq (V3.cross (V3.sub b a) (V3.sub c a))) / 2) := by
  unfold mesh3d_normal_area_tri v3_normalize
  simp only [V3.normSq, V3.cross, V3.sub] <;> ring_nf

/-- `Mesh3D._calculate_normal_and_area_for_quad`: the quad is split along the ONE diagonal
`p0 — p2` into the triangles `(p0, p1, p2)` and `(p2, p3, p0)`; the area is the sum of the two
triangle areas and the normal the normalised mean of the two cross products. -/
theorem mesh3d_normal_area_quad_cross (M : MathOps α) (p0 p1 p2 p3 : V3 α) :
    mesh3d_normal_area_quad M (p0, p1, p2, p3) =
      (v3_normalize M (mid3 (V3.cross (V3.sub p1 p0) (V3.sub p2 p0))
          (V3.cross (V3.sub p3 p2) (V3.sub p0 p2))),
       (M.sqrt (V3.normSq (V3.cross (V3.sub p1 p0) (V3.sub p2 p0))) +
        M.sqrt (V3.normSq (V3.cross (V3.sub p3 p2) (V3.sub p0 p2)))) / 2) := by
  unfold mesh3d_normal_area_quad v3_normalize
  simp only [V3.normSq, V3.cross, V3.sub, mid3] <;> ring_nf

/-! ### Planar faces given through an orthonormal frame -/

/-- Area of a lifted triangle: `|det (b - a) (c - a)| / 2` of its plane coordinates. -/
theorem sqrt_normSq_cross_lift (M : MathOps α)
    (hsqrt : ∀ x, 0 ≤ x → M.sqrt x * M.sqrt x = x ∧ 0 ≤ M.sqrt x) (o x y : V3 α)
    (hx : V3.normSq x = 1) (hy : V3.normSq y = 1) (hxy : V3.dot x y = 0) (a b c : V2 α) :
    M.sqrt (V3.normSq (V3.cross (V3.sub (lift o x y b) (lift o x y a))
      (V3.sub (lift o x y c) (lift o x y a)))) = |V2.det (V2.sub b a) (V2.sub c a)| := by
  rw [cross_lift]
  exact sqrt_normSq_smul_unit M hsqrt _ _ (normSq_cross_orthonormal x y hx hy hxy)

/-- Mean of two multiples of the same vector. -/
theorem mid3_smul (d e : α) (w : V3 α) :
    mid3 (V3.smul d w) (V3.smul e w) = V3.smul ((d + e) / 2) w := by
  apply V3.ext' <;> simp only [mid3, V3.smul] <;> ring

/-! ### Centroid kernels -/

/-- `Mesh3D._quad_centroid`: area-weighted mean of the centroids of the triangles
`(p0,p1,p2)` and `(p2,p3,p0)` (areas from `_get_tri_area`); the plain vertex mean when the
total area is zero. -/
theorem mesh3d_quad_centroid_weighted (M : MathOps α) (p0 p1 p2 p3 : V3 α) :
    mesh3d_quad_centroid M (p0, p1, p2, p3) =
      if mesh3d_get_tri_area M (p0, p1, p2) + mesh3d_get_tri_area M (p2, p3, p0) = 0 then
        mesh3d_face_center_quad (p0, p1, p2, p3)
      else
        V3.smul (1 / (mesh3d_get_tri_area M (p0, p1, p2) + mesh3d_get_tri_area M (p2, p3, p0)))
          (V3.add (V3.smul (mesh3d_get_tri_area M (p0, p1, p2)) (mesh3d_tri_centroid (p0, p1, p2)))
            (V3.smul (mesh3d_get_tri_area M (p2, p3, p0)) (mesh3d_tri_centroid (p2, p3, p0)))) := by
  unfold mesh3d_quad_centroid mesh3d_get_tri_area mesh3d_face_center_quad mesh3d_tri_centroid
  simp only [V3.smul, V3.add] <;> ring_nf

/-- The 3D triangle centroid kernel is the vertex mean. -/
theorem mesh3d_tri_centroid_mean (a b c : V3 α) :
    mesh3d_tri_centroid (a, b, c) =
      ⟨(a.x + b.x + c.x) / 3, (a.y + b.y + c.y) / 3, (a.z + b.z + c.z) / 3⟩ := by
  unfold mesh3d_tri_centroid
  apply V3.ext' <;> simp only [] <;> ring

/-- The 2D triangle centroid kernel is the vertex mean. -/
theorem mesh2d_tri_centroid_mean (a b c : V2 α) :
    mesh2d_tri_centroid (a, b, c) = ⟨(a.x + b.x + c.x) / 3, (a.y + b.y + c.y) / 3⟩ := by
  unfold mesh2d_tri_centroid
  apply V2.ext' <;> simp only [] <;> ring

/-- Weighted mean of the two lifted triangle centroids of a quad with weights proportional to
the signed triangle areas `D1/2`, `D2/2` is the lift of the exact 2D centroid. -/
theorem weighted_centroid_lift (o x y : V3 α) (c0 c1 c2 c3 : V2 α) (k : α) (hk : k ≠ 0)
    (hS : shoelace [c0, c1, c2, c3] ≠ 0) :
    V3.smul (1 / (k * V2.det (V2.sub c1 c0) (V2.sub c2 c0) +
          k * V2.det (V2.sub c3 c2) (V2.sub c0 c2)))
      (V3.add (V3.smul (k * V2.det (V2.sub c1 c0) (V2.sub c2 c0))
          (mesh3d_tri_centroid (lift o x y c0, lift o x y c1, lift o x y c2)))
        (V3.smul (k * V2.det (V2.sub c3 c2) (V2.sub c0 c2))
          (mesh3d_tri_centroid (lift o x y c2, lift o x y c3, lift o x y c0)))) =
      lift o x y (centroid [c0, c1, c2, c3]) := by
  rw [shoelace_quad_split] at hS
  have h3 : (3 : α) ≠ 0 := by norm_num
  rw [mesh3d_tri_centroid_mean, mesh3d_tri_centroid_mean]
  simp only [centroid, cx_quad, cy_quad, shoelace_quad_split]
  generalize V2.det (V2.sub c1 c0) (V2.sub c2 c0) = D1 at hS ⊢
  generalize V2.det (V2.sub c3 c2) (V2.sub c0 c2) = D2 at hS ⊢
  have hkS : k * D1 + k * D2 ≠ 0 := by
    rw [← mul_add]; exact mul_ne_zero hk hS
  apply V3.ext' <;> simp only [lift, V3.smul, V3.add] <;> field_simp <;> ring

end Lbg.Lemmas
