/-
  Lemmas.IsectComposite — plumbing for `Model/IsectComposite.lean`:
  * the collecting loop is `List.filterMap` (membership, permutation, rotation);
  * `Polygon2D.segments` as `zip vs (rotate vs 1)` (index form, rotation, reversal);
  * the kernels selected by `isRay` as instances of the closed-form models of
    `Lemmas/Isect2.lean`, `Lemmas/Isect3.lean`; invariance under flipping the edge;
  * the loop of `Polyline3D.split_with_plane` as a structural recursion (`groupsFrom`) and its
    invariants (number of pieces, shared cut points, gluing, lengths).
-/
import LbgVerif.Model.IsectComposite
import LbgVerif.Lemmas.Isect2
import LbgVerif.Lemmas.Isect3
import LbgVerif.Lemmas.Isometry
import LbgVerif.Lemmas.CyclicCount
import Mathlib.Data.List.Rotate
import Mathlib.Data.List.Perm.Basic
import Mathlib.Tactic.Ring
import Mathlib.Tactic.Linarith
import Mathlib.Tactic.SplitIfs
import Mathlib.Tactic.LinearCombination

set_option linter.unusedSectionVars false
set_option linter.unusedSimpArgs false

namespace Lbg.Lemmas
open Lbg Lbg.Gen Lbg.Model Lbg.Model.IsectComposite

/-! ## The collecting loop -/
section collect
variable {σ τ ρ : Type}

theorem collect_foldl (k : σ → Option τ) (l : List σ) (acc : List τ) :
    l.foldl (fun out s => match k s with
      | none => out
      | some r => out ++ [r]) acc = acc ++ l.filterMap k := by
  induction l generalizing acc with
  | nil => simp
  | cons a t ih =>
    simp only [List.foldl_cons, List.filterMap_cons]
    cases h : k a with
    | none => simp only [ih]
    | some r => simp only [ih, List.append_assoc, List.singleton_append]

/-- The loop `for s in parts: r = k(s); if r is not None: out.append(r)` is `filterMap`. -/
theorem collect_eq_filterMap (k : σ → Option τ) (l : List σ) :
    collect k l = l.filterMap k := by
  unfold collect; exact (collect_foldl k l []).trans (List.nil_append _)

theorem mem_collect {k : σ → Option τ} {l : List σ} {q : τ} :
    q ∈ collect k l ↔ ∃ s ∈ l, k s = some q := by
  rw [collect_eq_filterMap, List.mem_filterMap]

theorem collect_perm {k : σ → Option τ} {l₁ l₂ : List σ} (h : l₁.Perm l₂) :
    (collect k l₁).Perm (collect k l₂) := by
  rw [collect_eq_filterMap, collect_eq_filterMap]; exact h.filterMap k

theorem collect_congr {k k' : σ → Option τ} {l : List σ} (h : ∀ s ∈ l, k s = k' s) :
    collect k l = collect k' l := by
  rw [collect_eq_filterMap, collect_eq_filterMap]
  induction l with
  | nil => rfl
  | cons a t ih =>
    simp only [List.filterMap_cons]
    rw [h a (List.mem_cons_self), ih (fun s hs => h s (List.mem_cons_of_mem a hs))]

theorem collect_map (f : ρ → σ) (k : σ → Option τ) (l : List ρ) :
    collect k (l.map f) = collect (fun x => k (f x)) l := by
  rw [collect_eq_filterMap, collect_eq_filterMap, List.filterMap_map]; rfl

theorem collect_append (k : σ → Option τ) (l₁ l₂ : List σ) :
    collect k (l₁ ++ l₂) = collect k l₁ ++ collect k l₂ := by
  simp only [collect_eq_filterMap, List.filterMap_append]

theorem collect_reverse (k : σ → Option τ) (l : List σ) :
    collect k l.reverse = (collect k l).reverse := by
  simp only [collect_eq_filterMap, List.filterMap_reverse]

/-- Collecting over a rotated list gives a rotation of the collected list. -/
theorem collect_rotate (k : σ → Option τ) (l : List σ) (n : ℕ) :
    (collect k (l.rotate n)).IsRotated (collect k l) := by
  rcases Nat.eq_zero_or_pos l.length with h | h
  · rw [List.length_eq_zero_iff.mp h, List.rotate_nil]
  rw [← List.rotate_mod]
  have hn : n % l.length ≤ l.length := (Nat.mod_lt _ h).le
  rw [List.rotate_eq_drop_append_take hn, collect_append]
  have : collect k l = collect k (l.take (n % l.length)) ++ collect k (l.drop (n % l.length)) := by
    rw [← collect_append, List.take_append_drop]
  rw [this]
  exact List.isRotated_append

/-- Number of collected results = number of parts on which the kernel answers. -/
theorem collect_length (k : σ → Option τ) (l : List σ) :
    (collect k l).length = l.countP (fun s => (k s).isSome) := by
  rw [collect_eq_filterMap]
  induction l with
  | nil => rfl
  | cons a t ih =>
    simp only [List.filterMap_cons, List.countP_cons]
    cases h : k a with
    | none => simp [ih]
    | some r => simp [ih]

/-- How often a value is collected = number of parts on which the kernel returns it. -/
theorem collect_count [DecidableEq τ] (k : σ → Option τ) (l : List σ) (q : τ) :
    (collect k l).count q = l.countP (fun s => decide (k s = some q)) := by
  rw [collect_eq_filterMap]
  induction l with
  | nil => rfl
  | cons a t ih =>
    simp only [List.filterMap_cons, List.countP_cons]
    cases h : k a with
    | none => simp [ih]
    | some r =>
      by_cases hr : r = q
      · subst hr; simp [ih]
      · have : ¬ (q = r) := fun e => hr e.symm
        simp [ih, hr, List.count_cons, this]

/-- Two different positions of a list satisfy `p` ⇒ `countP p ≥ 2`. -/
theorem two_le_countP {l : List σ} {p : σ → Bool} {i j : ℕ} (hij : i < j) (hj : j < l.length)
    (hpi : p (l[i]'(hij.trans hj)) = true) (hpj : p l[j] = true) : 2 ≤ l.countP p := by
  have hi : i < l.length := hij.trans hj
  have e : l = l.take i ++ l[i] :: l.drop (i + 1) := by
    rw [← List.drop_eq_getElem_cons hi, List.take_append_drop]
  have hmem : l[j] ∈ l.drop (i + 1) := by
    rw [List.mem_drop_iff_getElem]
    refine ⟨j - (i + 1), by omega, ?_⟩
    congr 1; omega
  have h1 : 0 < (l.drop (i + 1)).countP p := List.countP_pos_iff.mpr ⟨_, hmem, hpj⟩
  rw [e, List.countP_append, List.countP_cons, if_pos hpi]
  omega

end collect

/-! ## Segment lists -/
section segs
variable {β : Type}

/-- Zipping a list one longer than `t` with `t ++ [x]`. -/
theorem zip_cons_append_single (a : β) (t : List β) (x : β) :
    (a :: t).zip (t ++ [x]) = (a :: t).zip t ++ [(t.getLast?.getD a, x)] := by
  induction t generalizing a with
  | nil => simp
  | cons b t ih =>
    simp only [List.cons_append, List.zip_cons_cons, ih b, List.getLast?_cons, Option.getD_some]

/-- The consecutive pairs of `l ++ [x]`. -/
theorem zip_tail_append_single (a : β) (t : List β) (x : β) :
    (a :: t ++ [x]).zip (a :: t ++ [x]).tail = (a :: t).zip t ++ [(t.getLast?.getD a, x)] := by
  induction t generalizing a with
  | nil => simp
  | cons b t ih =>
    have := ih b
    simp only [List.cons_append, List.tail_cons, List.zip_cons_cons] at this ⊢
    rw [this, List.getLast?_cons, Option.getD_some]

/-- The consecutive pairs of the reversed list: reversed order, each pair swapped. -/
theorem zip_tail_reverse (l : List β) :
    l.reverse.zip l.reverse.tail = ((l.zip l.tail).map Prod.swap).reverse := by
  induction l with
  | nil => rfl
  | cons a t ih =>
    cases t with
    | nil => rfl
    | cons b t =>
      have e : (a :: b :: t).reverse = (b :: t).reverse ++ [a] := by simp
      obtain ⟨c, u, hcu⟩ : ∃ c u, (b :: t).reverse = c :: u := by
        cases h : (b :: t).reverse with
        | nil => simp at h
        | cons c u => exact ⟨c, u, rfl⟩
      rw [e, hcu, zip_tail_append_single]
      have ih' := ih
      rw [hcu] at ih'
      simp only [List.tail_cons] at ih' ⊢
      rw [ih']
      have hl : u.getLast?.getD c = b := by
        have : (c :: u).getLast? = some b := by
          rw [← hcu, List.getLast?_reverse]; rfl
        rw [List.getLast?_cons] at this
        exact Option.some.inj this
      rw [hl]
      simp
end segs

variable {α : Type} [Field α] [LinearOrder α] [IsStrictOrderedRing α]

/-- `LineSegment2D.from_end_points(a, b)`: starts at `a`, direction `b - a`. -/
theorem seg2_from_end_points_eq (a b : V2 α) :
    seg2_from_end_points a b = ⟨a, V2.sub b a⟩ := by
  cases a; rfl

/-- `LineSegment3D.from_end_points(a, b)`: starts at `a`, direction `b - a`. -/
theorem seg3_from_end_points_eq (a b : V3 α) :
    seg3_from_end_points a b = ⟨a, V3.sub b a⟩ := by
  cases a; rfl

/-- `.p2` of `from_end_points(a, b)` is `b` (exact arithmetic: `a + (b - a) = b`). -/
theorem seg3_p2_from_end_points (a b : V3 α) : seg3_p2 (seg3_from_end_points a b) = b := by
  simp only [seg3_p2, seg3_from_end_points]
  ext <;> simp only [] <;> ring

/-- `Polygon2D.segments`: edge `i` runs from vertex `i` to vertex `i+1` (cyclically). -/
theorem segments_eq_zip_rotate (vs : List (V2 α)) :
    PointInside.segments vs =
      (vs.zip (vs.rotate 1)).map (fun q => seg2_from_end_points q.1 q.2) := by
  unfold PointInside.segments
  cases vs with
  | nil => rfl
  | cons a t =>
    rw [cyclicPairs_cons]
    simp only [List.map_cons, PointInside.popFirstToEnd]
    have : (a :: t).rotate 1 = t ++ [a] := by simp [List.rotate_cons_succ]
    rw [this, zip_cons_append_single, List.map_append]
    rfl

theorem segments_length (vs : List (V2 α)) : (PointInside.segments vs).length = vs.length := by
  rw [segments_eq_zip_rotate]; simp

/-- Index form of `Polygon2D.segments`. -/
theorem segments_getElem (vs : List (V2 α)) (i : ℕ) (h : i < vs.length) :
    (PointInside.segments vs)[i]'(by rw [segments_length]; exact h) =
      seg2_from_end_points vs[i] (vs[(i + 1) % vs.length]'(Nat.mod_lt _ (by omega))) := by
  simp only [segments_eq_zip_rotate, List.getElem_map, List.getElem_zip, List.getElem_rotate]

/-- Starting the vertex list elsewhere rotates the edge list. -/
theorem segments_rotate (vs : List (V2 α)) (n : ℕ) :
    PointInside.segments (vs.rotate n) = (PointInside.segments vs).rotate n := by
  rw [segments_eq_zip_rotate, segments_eq_zip_rotate, List.rotate_rotate, ← List.map_rotate]
  congr 1
  have h := List.zipWith_rotate_distrib Prod.mk vs (vs.rotate 1) n (by simp)
  rw [List.rotate_rotate] at h
  simp only [List.zip] at h ⊢
  rw [h, Nat.add_comm]

/-- The edge list is a permutation of the (unshifted) cyclic pairs. -/
theorem segments_perm_cyclicPairs (vs : List (V2 α)) :
    (PointInside.segments vs).Perm
      ((cyclicPairs vs).map (fun q => seg2_from_end_points q.1 q.2)) := by
  unfold PointInside.segments
  cases h : (cyclicPairs vs).map (fun q => seg2_from_end_points q.1 q.2) with
  | nil => exact List.Perm.refl _
  | cons s t =>
    simp only [PointInside.popFirstToEnd]
    exact (List.perm_append_comm (l₁ := t) (l₂ := [s]))

/-- Reversing the vertex list: the same edges, each traversed backwards (as multisets). -/
theorem segments_reverse_perm (vs : List (V2 α)) :
    (PointInside.segments vs.reverse).Perm
      ((cyclicPairs vs).map (fun q => seg2_from_end_points q.2 q.1)) := by
  refine (segments_perm_cyclicPairs vs.reverse).trans ?_
  have h := (cyclicPairs_reverse_perm vs).map (fun q : V2 α × V2 α => seg2_from_end_points q.1 q.2)
  refine h.trans ?_
  rw [List.map_map]
  exact List.Perm.of_eq rfl

/-- `Polyline2D.segments` of the reversed vertex list. -/
theorem polylineSegments2_reverse (vs : List (V2 α)) :
    polylineSegments2 vs.reverse =
      ((vs.zip vs.tail).map (fun q => seg2_from_end_points q.2 q.1)).reverse := by
  unfold polylineSegments2
  rw [zip_tail_reverse, ← List.map_reverse, List.map_map, ← List.map_reverse]
  rfl

/-- `Polyline3D.segments` of the reversed vertex list. -/
theorem polylineSegments3_reverse (vs : List (V3 α)) :
    polylineSegments3 vs.reverse =
      ((vs.zip vs.tail).map (fun q => seg3_from_end_points q.2 q.1)).reverse := by
  unfold polylineSegments3
  rw [zip_tail_reverse, ← List.map_reverse, List.map_map, ← List.map_reverse]
  rfl

theorem polylineSegments2_cons_cons (a b : V2 α) (t : List (V2 α)) :
    polylineSegments2 (a :: b :: t) = seg2_from_end_points a b :: polylineSegments2 (b :: t) := by
  simp [polylineSegments2]

theorem polylineSegments3_cons_cons (a b : V3 α) (t : List (V3 α)) :
    polylineSegments3 (a :: b :: t) = seg3_from_end_points a b :: polylineSegments3 (b :: t) := by
  simp [polylineSegments3]

theorem polylineSegments2_length (vs : List (V2 α)) :
    (polylineSegments2 vs).length = vs.length - 1 := by
  simp [polylineSegments2]

theorem polylineSegments3_length (vs : List (V3 α)) :
    (polylineSegments3 vs).length = vs.length - 1 := by
  simp [polylineSegments3]

theorem polylineSegments2_getElem (vs : List (V2 α)) (i : ℕ) (h : i + 1 < vs.length) :
    (polylineSegments2 vs)[i]'(by rw [polylineSegments2_length]; omega) =
      seg2_from_end_points (vs[i]'(by omega)) vs[i + 1] := by
  simp [polylineSegments2, List.getElem_zip]

theorem polylineSegments3_getElem (vs : List (V3 α)) (i : ℕ) (h : i + 1 < vs.length) :
    (polylineSegments3 vs)[i]'(by rw [polylineSegments3_length]; omega) =
      seg3_from_end_points (vs[i]'(by omega)) vs[i + 1] := by
  simp [polylineSegments3, List.getElem_zip]

/-! ## The kernels selected by `isRay` -/

/-- Range kind of the `line_ray` argument. -/
def rk (isRay : Bool) : Rng := if isRay then .ray else .seg

theorem kernel2_eq (isRay : Bool) (s lr : LR2 α) :
    kernel2 isRay s lr = isect2 .seg (rk isRay) s lr := by
  cases isRay
  · simp only [kernel2, rk, Bool.false_eq_true, if_false, intersect_line2d_ss_eq]
  · simp only [kernel2, rk, if_true, intersect_line2d_sr_eq]

theorem kernel2Inf_eq (isRay : Bool) (s lr : LR2 α) :
    kernel2Inf isRay s lr = isect2 .seg .line s lr := by
  cases isRay
  · simp only [kernel2Inf, Bool.false_eq_true, if_false, intersect_line2d_infinite_ss_eq]
  · simp only [kernel2Inf, if_true, intersect_line2d_infinite_sr_eq]

theorem kernel3_eq (isRay : Bool) (lr : LR3 α) (pl : PlaneS α) :
    kernel3 isRay lr pl = isectLP (rk isRay) lr pl := by
  cases isRay
  · simp only [kernel3, rk, Bool.false_eq_true, if_false, intersect_line3d_plane_s_eq]
  · simp only [kernel3, rk, if_true, intersect_line3d_plane_r_eq]

/-- A point is on the segment from `b` to `a` iff it is on the segment from `a` to `b`. -/
theorem on_seg2_flip (a b q : V2 α) :
    Rng.On .seg (seg2_from_end_points b a) q ↔ Rng.On .seg (seg2_from_end_points a b) q := by
  simp only [Rng.On, seg2_from_end_points]
  constructor <;> rintro ⟨t, h0, h1, hx, hy⟩ <;>
    exact ⟨1 - t, by linarith, by linarith, by linear_combination hx, by linear_combination hy⟩

/-- Traversing an edge backwards does not change what a 2D kernel returns for it. -/
theorem isect2_flip (kb : Rng) (a b : V2 α) (lr : LR2 α) :
    isect2 .seg kb (seg2_from_end_points b a) lr = isect2 .seg kb (seg2_from_end_points a b) lr := by
  ext q
  rw [isect2_eq_some_iff, isect2_eq_some_iff, on_seg2_flip]
  have : det2 (seg2_from_end_points b a) lr = - det2 (seg2_from_end_points a b) lr := by
    simp only [det2, seg2_from_end_points]; ring
  rw [this, neg_ne_zero]

theorem kernel2_flip (isRay : Bool) (a b : V2 α) (lr : LR2 α) :
    kernel2 isRay (seg2_from_end_points b a) lr = kernel2 isRay (seg2_from_end_points a b) lr := by
  rw [kernel2_eq, kernel2_eq, isect2_flip]

theorem kernel2Inf_flip (isRay : Bool) (a b : V2 α) (lr : LR2 α) :
    kernel2Inf isRay (seg2_from_end_points b a) lr =
      kernel2Inf isRay (seg2_from_end_points a b) lr := by
  rw [kernel2Inf_eq, kernel2Inf_eq, isect2_flip]

theorem on_seg3_flip (a b q : V3 α) :
    Rng.On3 .seg (seg3_from_end_points b a) q ↔ Rng.On3 .seg (seg3_from_end_points a b) q := by
  simp only [Rng.On3, seg3_from_end_points]
  constructor <;> rintro ⟨t, h0, h1, hx, hy, hz⟩ <;>
    exact ⟨1 - t, by linarith, by linarith, by linear_combination hx, by linear_combination hy,
      by linear_combination hz⟩

/-- Traversing a 3D edge backwards does not change its intersection with a plane. -/
theorem isectLP_flip (a b : V3 α) (pl : PlaneS α) :
    isectLP .seg (seg3_from_end_points b a) pl = isectLP .seg (seg3_from_end_points a b) pl := by
  ext q
  rw [isectLP_eq_some_iff, isectLP_eq_some_iff, on_seg3_flip]
  have : nv (seg3_from_end_points b a) pl = - nv (seg3_from_end_points a b) pl := by
    simp only [nv, seg3_from_end_points]; ring
  rw [this, neg_ne_zero]

/-! ## `LineSegment3D.split_with_plane` -/

/-- The method as written (`intersect_plane` then two `from_end_points`) is the translator's
kernel. -/
theorem seg3SplitWithPlane_eq_gen (l : LR3 α) (pl : PlaneS α) :
    seg3SplitWithPlane l pl = seg3_split_with_plane l pl := by
  unfold seg3SplitWithPlane seg3_split_with_plane intersect_line3d_plane_s
  simp only []
  split_ifs <;> simp only [seg3_from_end_points, seg3_p2]

/-! ## The loop of `Polyline3D.split_with_plane` as a structural recursion -/

/-- The groups produced from the current (open) group `cur`, whose last vertex is `prev`, and the
remaining vertices. -/
def groupsFrom (pl : PlaneS α) (cur : List (V3 α)) (prev : V3 α) :
    List (V3 α) → List (List (V3 α))
  | [] => [cur]
  | x :: t =>
    match intersect_line3d_plane_s (seg3_from_end_points prev x) pl with
    | none => groupsFrom pl (cur ++ [x]) x t
    | some q => (cur ++ [q]) :: groupsFrom pl [q, x] x t

theorem foldl_splitStep (pl : PlaneS α) (rest : List (V3 α)) (done : List (List (V3 α)))
    (cur : List (V3 α)) (prev : V3 α) :
    ((polylineSegments3 (prev :: rest)).foldl (splitStep pl) (done, cur)).1 ++
      [((polylineSegments3 (prev :: rest)).foldl (splitStep pl) (done, cur)).2] =
      done ++ groupsFrom pl cur prev rest := by
  induction rest generalizing done cur prev with
  | nil => simp [polylineSegments3, groupsFrom]
  | cons x t ih =>
    rw [polylineSegments3_cons_cons, List.foldl_cons]
    cases h : intersect_line3d_plane_s (seg3_from_end_points prev x) pl with
    | none =>
      simp only [splitStep, h, groupsFrom, seg3_p2_from_end_points]
      exact ih _ _ _
    | some q =>
      simp only [splitStep, h, groupsFrom, seg3_p2_from_end_points]
      rw [ih]
      simp

/-- `grouped_verts` of `Polyline3D.split_with_plane`. -/
theorem polyline3GroupedVerts_cons (v0 : V3 α) (rest : List (V3 α)) (pl : PlaneS α) :
    polyline3GroupedVerts (v0 :: rest) pl = groupsFrom pl [v0] v0 rest := by
  unfold polyline3GroupedVerts
  simp only []
  rw [foldl_splitStep]; rfl

/-- The cut points, in order: `Polyline3D.intersect_plane`. -/
theorem polyline3IntersectPlane_cons_cons (a b : V3 α) (t : List (V3 α)) (pl : PlaneS α) :
    polyline3IntersectPlane (a :: b :: t) pl =
      (match intersect_line3d_plane_s (seg3_from_end_points a b) pl with
        | none => polyline3IntersectPlane (b :: t) pl
        | some q => q :: polyline3IntersectPlane (b :: t) pl) := by
  simp only [polyline3IntersectPlane, collect_eq_filterMap, polylineSegments3_cons_cons,
    List.filterMap_cons]
  cases intersect_line3d_plane_s (seg3_from_end_points a b) pl <;> rfl

theorem polyline3IntersectPlane_single (a : V3 α) (pl : PlaneS α) :
    polyline3IntersectPlane [a] pl = [] := by
  simp [polyline3IntersectPlane, collect_eq_filterMap, polylineSegments3]

theorem groupsFrom_ne_nil (pl : PlaneS α) (cur : List (V3 α)) (prev : V3 α)
    (rest : List (V3 α)) : groupsFrom pl cur prev rest ≠ [] := by
  induction rest generalizing cur prev with
  | nil => simp [groupsFrom]
  | cons x t ih =>
    cases h : intersect_line3d_plane_s (seg3_from_end_points prev x) pl with
    | none => simp only [groupsFrom, h]; exact ih _ _
    | some q => simp [groupsFrom, h]

/-- The first group starts where the open group started. -/
theorem groupsFrom_head (pl : PlaneS α) (cur : List (V3 α)) (hc : cur ≠ []) (prev : V3 α)
    (rest : List (V3 α)) :
    ∃ g r, groupsFrom pl cur prev rest = g :: r ∧ g.head? = cur.head? ∧ g ≠ [] := by
  induction rest generalizing cur prev with
  | nil => exact ⟨cur, [], rfl, rfl, hc⟩
  | cons x t ih =>
    cases h : intersect_line3d_plane_s (seg3_from_end_points prev x) pl with
    | none =>
      simp only [groupsFrom, h]
      obtain ⟨g, r, e, hh, hne⟩ := ih (cur ++ [x]) (by simp) x
      refine ⟨g, r, e, ?_, hne⟩
      rw [hh]; cases cur with
      | nil => exact absurd rfl hc
      | cons c cs => rfl
    | some q =>
      simp only [groupsFrom, h]
      refine ⟨cur ++ [q], _, rfl, ?_, by simp⟩
      cases cur with
      | nil => exact absurd rfl hc
      | cons c cs => rfl

/-- Number of pieces = number of cuts + 1. -/
theorem groupsFrom_length (pl : PlaneS α) (cur : List (V3 α)) (prev : V3 α)
    (rest : List (V3 α)) :
    (groupsFrom pl cur prev rest).length = (polyline3IntersectPlane (prev :: rest) pl).length + 1 := by
  induction rest generalizing cur prev with
  | nil => simp [groupsFrom, polyline3IntersectPlane_single]
  | cons x t ih =>
    rw [polyline3IntersectPlane_cons_cons]
    cases h : intersect_line3d_plane_s (seg3_from_end_points prev x) pl with
    | none => simp only [groupsFrom, h]; exact ih _ _
    | some q => simp only [groupsFrom, h, List.length_cons, ih]

/-- Every piece but the last ends at its cut point. -/
theorem groupsFrom_ends (pl : PlaneS α) (cur : List (V3 α)) (prev : V3 α) (rest : List (V3 α)) :
    (groupsFrom pl cur prev rest).dropLast.map List.getLast? =
      (polyline3IntersectPlane (prev :: rest) pl).map some := by
  induction rest generalizing cur prev with
  | nil => simp [groupsFrom, polyline3IntersectPlane_single]
  | cons x t ih =>
    rw [polyline3IntersectPlane_cons_cons]
    cases h : intersect_line3d_plane_s (seg3_from_end_points prev x) pl with
    | none => simp only [groupsFrom, h]; exact ih _ _
    | some q =>
      simp only [groupsFrom, h]
      rw [List.dropLast_cons_of_ne_nil (groupsFrom_ne_nil pl _ _ _)]
      simp only [List.map_cons, ih]
      simp

/-- Every piece but the first starts at the previous cut point. -/
theorem groupsFrom_starts (pl : PlaneS α) (cur : List (V3 α)) (prev : V3 α)
    (rest : List (V3 α)) :
    (groupsFrom pl cur prev rest).tail.map List.head? =
      (polyline3IntersectPlane (prev :: rest) pl).map some := by
  induction rest generalizing cur prev with
  | nil => simp [groupsFrom, polyline3IntersectPlane_single]
  | cons x t ih =>
    rw [polyline3IntersectPlane_cons_cons]
    cases h : intersect_line3d_plane_s (seg3_from_end_points prev x) pl with
    | none => simp only [groupsFrom, h]; exact ih _ _
    | some q =>
      simp only [groupsFrom, h, List.tail_cons]
      obtain ⟨g, r, e, hh, _⟩ := groupsFrom_head pl [q, x] (by simp) x t
      have := ih [q, x] x
      rw [e] at this ⊢
      simp only [List.tail_cons] at this
      simp only [List.map_cons, this, hh]
      rfl

/-- The last piece ends at the last vertex. -/
theorem groupsFrom_last (pl : PlaneS α) (cur : List (V3 α)) (prev : V3 α) (rest : List (V3 α))
    (hc : cur.getLast? = some prev) :
    (groupsFrom pl cur prev rest).getLast?.bind List.getLast? = (prev :: rest).getLast? := by
  induction rest generalizing cur prev with
  | nil => simp [groupsFrom, hc]
  | cons x t ih =>
    have e : (prev :: x :: t).getLast? = (x :: t).getLast? := by simp [List.getLast?_cons_cons]
    rw [e]
    cases h : intersect_line3d_plane_s (seg3_from_end_points prev x) pl with
    | none => simp only [groupsFrom, h]; exact ih _ _ (by simp)
    | some q =>
      simp only [groupsFrom, h]
      obtain ⟨g, r, e2, _, _⟩ := groupsFrom_head pl [q, x] (by simp) x t
      have := ih [q, x] x (by simp)
      rw [e2] at this ⊢
      rw [List.getLast?_cons_cons]
      exact this

/-- Every piece has at least two vertices (given the open group is non-empty and at least one
vertex follows, or the open group already has two). -/
theorem groupsFrom_two_le (pl : PlaneS α) (cur : List (V3 α)) (prev : V3 α) (rest : List (V3 α))
    (hc : 2 ≤ cur.length + rest.length) (hc1 : 1 ≤ cur.length) :
    ∀ g ∈ groupsFrom pl cur prev rest, 2 ≤ g.length := by
  induction rest generalizing cur prev with
  | nil => intro g hg; simp only [groupsFrom, List.mem_singleton] at hg; subst hg; simpa using hc
  | cons x t ih =>
    cases h : intersect_line3d_plane_s (seg3_from_end_points prev x) pl with
    | none =>
      simp only [groupsFrom, h]
      exact ih _ _ (by simp at hc ⊢; omega) (by simp)
    | some q =>
      simp only [groupsFrom, h, List.mem_cons]
      rintro g (rfl | hg)
      · simp; omega
      · exact ih _ _ (by simp) (by simp) g hg

/-- Glue consecutive pieces at their shared end point, dropping that point from both. -/
def joinPieces {β : Type} : List (List β) → List β
  | [] => []
  | [g] => g
  | g :: h :: r => g.dropLast ++ (joinPieces (h :: r)).tail

/-- The pieces with the cut points removed are the original vertex list. -/
theorem joinPieces_groupsFrom (pl : PlaneS α) (cur : List (V3 α)) (hc : cur ≠ []) (prev : V3 α)
    (rest : List (V3 α)) : joinPieces (groupsFrom pl cur prev rest) = cur ++ rest := by
  induction rest generalizing cur prev with
  | nil => simp [groupsFrom, joinPieces]
  | cons x t ih =>
    cases h : intersect_line3d_plane_s (seg3_from_end_points prev x) pl with
    | none =>
      simp only [groupsFrom, h]
      rw [ih _ (by simp)]; simp
    | some q =>
      simp only [groupsFrom, h]
      obtain ⟨g, r, e, _, _⟩ := groupsFrom_head pl [q, x] (by simp) x t
      have := ih [q, x] (by simp) x
      rw [e] at this ⊢
      simp only [joinPieces, this]
      simp

/-- Length of the open polyline through the vertices: sum of `LineSegment3D.length` over
`Polyline3D.segments`. -/
def pathLen3 (M : MathOps α) (vs : List (V3 α)) : α :=
  ((polylineSegments3 vs).map (seg3_length M)).sum

theorem pathLen3_cons_cons (M : MathOps α) (a b : V3 α) (t : List (V3 α)) :
    pathLen3 M (a :: b :: t) = seg3_length M (seg3_from_end_points a b) + pathLen3 M (b :: t) := by
  simp [pathLen3, polylineSegments3_cons_cons]

theorem pathLen3_single (M : MathOps α) (a : V3 α) : pathLen3 M [a] = 0 := by
  simp [pathLen3, polylineSegments3]

theorem pathLen3_append_single (M : MathOps α) (l : List (V3 α)) (p x : V3 α)
    (hl : l.getLast? = some p) :
    pathLen3 M (l ++ [x]) = pathLen3 M l + seg3_length M (seg3_from_end_points p x) := by
  induction l with
  | nil => simp at hl
  | cons a t ih =>
    cases t with
    | nil =>
      simp only [List.getLast?_singleton, Option.some.injEq] at hl
      subst hl
      simp [pathLen3, polylineSegments3]
    | cons b t =>
      rw [List.getLast?_cons_cons] at hl
      have := ih hl
      simp only [List.cons_append] at this ⊢
      rw [pathLen3_cons_cons, pathLen3_cons_cons, this]; ring

/-- `|a − q| + |q − b| = |a − b|` for the cut point `q` of the segment `a b` (under the `sqrt`
law), together with what the kernel guarantees about `q`. -/
theorem cut_lengths (M : MathOps α)
    (hsqrt : ∀ x, 0 ≤ x → M.sqrt x * M.sqrt x = x ∧ 0 ≤ M.sqrt x)
    (pl : PlaneS α) (a b q : V3 α)
    (h : intersect_line3d_plane_s (seg3_from_end_points a b) pl = some q) :
    seg3_length M (seg3_from_end_points a q) + seg3_length M (seg3_from_end_points q b) =
      seg3_length M (seg3_from_end_points a b) := by
  rw [intersect_line3d_plane_s_eq, isectLP_eq_some_iff] at h
  obtain ⟨_, ⟨t, h0, h1, hx, hy, hz⟩, _⟩ := h
  simp only [seg3_from_end_points] at hx hy hz
  have hn : 0 ≤ (b.x - a.x) * (b.x - a.x) + (b.y - a.y) * (b.y - a.y) +
      (b.z - a.z) * (b.z - a.z) := by
    have := normSq3_nonneg (V3.sub b a)
    simpa only [V3.normSq, V3.sub] using this
  have e1 : seg3_length M (seg3_from_end_points a q) =
      t * seg3_length M (seg3_from_end_points a b) := by
    simp only [seg3_length, seg3_from_end_points]
    refine sqrt_scale M hsqrt h0 hn ?_
    rw [hx, hy, hz]; ring
  have e2 : seg3_length M (seg3_from_end_points q b) =
      (1 - t) * seg3_length M (seg3_from_end_points a b) := by
    simp only [seg3_length, seg3_from_end_points]
    refine sqrt_scale M hsqrt (by linarith) hn ?_
    rw [hx, hy, hz]; ring
  rw [e1, e2]; ring

/-- The lengths of the pieces add up to the length of the polyline (plus what the open group
already carries). -/
theorem pathLen3_groupsFrom (M : MathOps α)
    (hsqrt : ∀ x, 0 ≤ x → M.sqrt x * M.sqrt x = x ∧ 0 ≤ M.sqrt x)
    (pl : PlaneS α) (cur : List (V3 α)) (prev : V3 α) (rest : List (V3 α))
    (hc : cur.getLast? = some prev) :
    ((groupsFrom pl cur prev rest).map (pathLen3 M)).sum =
      pathLen3 M cur + pathLen3 M (prev :: rest) := by
  induction rest generalizing cur prev with
  | nil => simp [groupsFrom, pathLen3_single]
  | cons x t ih =>
    rw [pathLen3_cons_cons]
    cases h : intersect_line3d_plane_s (seg3_from_end_points prev x) pl with
    | none =>
      simp only [groupsFrom, h]
      rw [ih _ _ (by simp), pathLen3_append_single M cur prev x hc]; ring
    | some q =>
      simp only [groupsFrom, h, List.map_cons, List.sum_cons]
      rw [ih _ _ (by simp), pathLen3_append_single M cur prev q hc, pathLen3_cons_cons,
        pathLen3_single, ← cut_lengths M hsqrt pl prev x q h]
      ring

/-! ## `Face3D.intersect_plane` plumbing -/

/-- The segments built by the pairing loop join hits that are in the list. -/
theorem mem_pairUp {l : List (V3 α)} {s : LR3 α} (h : s ∈ pairUp l) :
    ∃ a ∈ l, ∃ b ∈ l, s = seg3_from_end_points a b := by
  induction l using pairUp.induct with
  | case1 a b t ih =>
    simp only [pairUp, List.mem_cons] at h
    rcases h with rfl | h
    · exact ⟨a, by simp, b, by simp, rfl⟩
    · obtain ⟨a', ha, b', hb, e⟩ := ih h
      exact ⟨a', by simp [ha], b', by simp [hb], e⟩
  | case2 l hl =>
    cases l with
    | nil => simp [pairUp] at h
    | cons a t =>
      cases t with
      | nil => simp [pairUp] at h
      | cons b t => exact absurd rfl (hl a b t)

/-- `for i in range(0, n - 1, 2)`: `n / 2` segments. -/
theorem pairUp_length (l : List (V3 α)) : (pairUp l).length = l.length / 2 := by
  induction l using pairUp.induct with
  | case1 a b t ih => simp only [pairUp, List.length_cons, ih]; omega
  | case2 l hl =>
    cases l with
    | nil => simp [pairUp]
    | cons a t =>
      cases t with
      | nil => simp [pairUp]
      | cons b t => exact absurd rfl (hl a b t)

/-- Sorting (or not) keeps the hits. -/
theorem sortIfMany_perm (ray : LR2 α) (pts : List (V2 α)) : (sortIfMany ray pts).Perm pts := by
  unfold sortIfMany
  split_ifs
  · exact List.mergeSort_perm _ _
  · exact List.Perm.refl _

/-- With more than two hits they are in non-decreasing order of the key `pt · v2d`. -/
theorem sortIfMany_sorted (ray : LR2 α) (pts : List (V2 α)) (h : 2 < pts.length) :
    (sortIfMany ray pts).Pairwise (fun a b => cutKey ray a ≤ cutKey ray b) := by
  unfold sortIfMany
  rw [if_pos h]
  have := List.pairwise_mergeSort (le := fun a b => decide (cutKey ray a ≤ cutKey ray b))
    (fun a b c hab hbc => by
      simp only [decide_eq_true_eq] at *; exact le_trans hab hbc)
    (fun a b => by
      simp only [Bool.or_eq_true, decide_eq_true_eq]; exact le_total _ _) pts
  exact this.imp (fun h => by simpa using h)

/-- `Face3D.intersect_plane` step by step (used to evaluate concrete instances: `List.mergeSort`
is defined by well-founded recursion and does not reduce in the kernel). -/
theorem faceIntersectPlaneP_steps (pl : PlaneS α) (poly2 : List (V2 α)) (other : PlaneS α)
    (p v : V3 α) (ray : LR2 α) (hits sorted : List (V2 α)) (segs : List (LR3 α))
    (h1 : intersect_plane_plane pl other = some (p, v))
    (h0 : faceCutRay pl p v = ray)
    (h2 : polygonIntersectLineInfinite poly2 true ray = hits)
    (hne : hits.length ≠ 0)
    (h3 : sortIfMany ray hits = sorted)
    (h4 : pairUp (sorted.map (plane_xy_to_xyz pl)) = segs) :
    faceIntersectPlaneP pl poly2 other = some segs := by
  unfold faceIntersectPlaneP
  rw [h1]
  simp only [h0, h2, h3, h4, hne, ne_eq, not_false_eq_true, if_true]

end Lbg.Lemmas
