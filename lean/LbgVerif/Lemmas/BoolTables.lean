/-
  Lemmas.BoolTables — small helper facts for Props/C04 (fill-selection tables and the
  `BooleanPoint` predicates).  Independent of the generated kernels.
-/
import LbgVerif.Basic
import Mathlib.Tactic.Ring
import Mathlib.Tactic.Linarith
import Mathlib.Tactic.Positivity

namespace Lbg.Lemmas
open Lbg

/-- Consequences of the three-clause meaning of a table value `v` w.r.t. the result fills
`A` (above) and `B` (below): kept iff the fills differ; when kept `v == 1` is the above-fill
and `v == 2` the below-fill; `v` is one of 0, 1, 2. -/
theorem fillSpec_consequences {v : Nat} {A B : Bool}
    (h0 : v = 0 ↔ A = B) (h1 : v = 1 ↔ (A = true ∧ B = false))
    (h2 : v = 2 ↔ (A = false ∧ B = true)) :
    (v ≠ 0 ↔ A ≠ B) ∧ (v ≠ 0 → decide (v = 1) = A ∧ decide (v = 2) = B) ∧
      (v = 0 ∨ v = 1 ∨ v = 2) := by
  cases A <;> cases B <;> simp_all

/-- The three clauses determine the value. -/
theorem fillSpec_unique {v w : Nat} {A B : Bool}
    (h0 : v = 0 ↔ A = B) (h1 : v = 1 ↔ (A = true ∧ B = false))
    (h2 : v = 2 ↔ (A = false ∧ B = true))
    (k0 : w = 0 ↔ A = B) (k1 : w = 1 ↔ (A = true ∧ B = false))
    (k2 : w = 2 ↔ (A = false ∧ B = true)) : v = w := by
  cases A <;> cases B <;> simp_all

section field
variable {α : Type} [Field α] [LinearOrder α] [IsStrictOrderedRing α]

/-- A squared length is non-negative. -/
theorem normSq_nonneg' (a : V2 α) : 0 ≤ V2.normSq a := by
  simp only [V2.normSq]
  nlinarith [mul_self_nonneg a.x, mul_self_nonneg a.y]

/-- Distinct points have positive squared distance. -/
theorem normSq_sub_pos {l r : V2 α} (h : l ≠ r) : 0 < V2.normSq (V2.sub r l) := by
  rcases (normSq_nonneg' (V2.sub r l)).lt_or_eq with h' | h'
  · exact h'
  · exfalso; apply h
    simp only [V2.normSq, V2.sub] at h'
    have hx : (r.x - l.x) * (r.x - l.x) = 0 := by
      nlinarith [mul_self_nonneg (r.x - l.x), mul_self_nonneg (r.y - l.y)]
    have hy : (r.y - l.y) * (r.y - l.y) = 0 := by
      nlinarith [mul_self_nonneg (r.x - l.x), mul_self_nonneg (r.y - l.y)]
    have hx' : r.x - l.x = 0 := mul_self_eq_zero.mp hx
    have hy' : r.y - l.y = 0 := mul_self_eq_zero.mp hy
    exact V2.ext' (by linarith) (by linarith)

end field

end Lbg.Lemmas
