/-
  Lemmas.GenTiesHoles — plumbing for tying the generated `Polygon2D.from_shape_with_hole`
  (distance dictionary with `math.sqrt` keys, written by two nested loops, read by
  `min(keys)` and "last write wins") to the hand model `Model/HoleMerge.lean` (log of the writes
  with SQUARED keys): a strictly monotone key map preserves the least key, its ties and hence the
  selected entry.
-/
import LbgVerif.Model.HoleMerge
import LbgVerif.Lemmas.GenLoops
import Mathlib.Order.Basic
import Mathlib.Data.List.Basic
import Mathlib.Data.List.Induction
import Mathlib.Order.Lattice
import Mathlib.Algebra.Order.Field.Basic
import Mathlib.Tactic.Linarith
import Mathlib.Tactic.Positivity

set_option linter.unusedSectionVars false

namespace Lbg.Lemmas.GenTiesHoles
open Lbg Lbg.Gen Lbg.Model

section lists
variable {β γ δ : Type}

/-- Two nested `for` loops appending one entry per pair build the `flatMap` of the rows. -/
theorem foldl_nested_snoc (l : List β) (m : List γ) (f : β → γ → δ) (init : List δ) :
    l.foldl (fun st b => m.foldl (fun st' h => st' ++ [f b h]) st) init
      = init ++ l.flatMap (fun b => m.map (f b)) := by
  induction l generalizing init with
  | nil => simp
  | cons a t ih =>
    simp only [List.foldl_cons, List.flatMap_cons]
    rw [Lbg.Lemmas.foldl_snoc_eq_map (f a) m init, ih, List.append_assoc]

/-- "Last write wins": the last entry passing a test is found first in the reversed list. -/
theorem getLast?_filter (p : β → Bool) (l : List β) :
    (l.filter p).getLast? = l.reverse.find? p := by
  induction l using List.reverseRecOn with
  | nil => rfl
  | append_singleton l a ih =>
    rw [List.filter_append, List.reverse_append]
    simp only [List.reverse_cons, List.reverse_nil, List.nil_append, List.singleton_append,
      List.find?_cons]
    by_cases h : p a = true
    · simp [h]
    · have h' : p a = false := by simpa using h
      simp [h', ih]

end lists

section keys
variable {α : Type} [Field α] [LinearOrder α] [IsStrictOrderedRing α]

/-- A key map that is strictly monotone on the non-negative numbers (what `math.sqrt` is). -/
def StrictMonoNN (s : α → α) : Prop := ∀ x y, 0 ≤ x → 0 ≤ y → (s x < s y ↔ x < y)

/-- Such a map preserves and reflects `≤` on the non-negative numbers. -/
theorem StrictMonoNN.le {s : α → α} (hs : StrictMonoNN s) {x y : α} (hx : 0 ≤ x) (hy : 0 ≤ y) :
    s x ≤ s y ↔ x ≤ y := by
  rw [← not_lt, ← not_lt, hs y x hy hx]

/-- Such a map is injective on the non-negative numbers (equal keys stay equal keys). -/
theorem StrictMonoNN.inj {s : α → α} (hs : StrictMonoNN s) {x y : α} (hx : 0 ≤ x) (hy : 0 ≤ y) :
    s x = s y ↔ x = y := by
  constructor
  · intro h
    apply le_antisymm
    · exact (hs.le hx hy).mp (le_of_eq h)
    · exact (hs.le hy hx).mp (le_of_eq h.symm)
  · intro h; rw [h]

/-- Such a map commutes with `min` on the non-negative numbers. -/
theorem StrictMonoNN.map_min {s : α → α} (hs : StrictMonoNN s) {x y : α} (hx : 0 ≤ x)
    (hy : 0 ≤ y) : s (min x y) = min (s x) (s y) := by
  by_cases h : x ≤ y
  · rw [min_eq_left h, min_eq_left ((hs.le hx hy).mpr h)]
  · have h' : y ≤ x := le_of_lt (not_le.mp h)
    rw [min_eq_right h', min_eq_right ((hs.le hy hx).mpr h')]

/-- The running minimum of the mapped keys is the mapped running minimum. -/
theorem foldl_min_map {s : α → α} (hs : StrictMonoNN s) (t : List α) (a : α) (ha : 0 ≤ a)
    (ht : ∀ x ∈ t, 0 ≤ x) :
    List.foldl min (s a) (t.map s) = s (List.foldl min a t) ∧ 0 ≤ List.foldl min a t := by
  induction t generalizing a with
  | nil => exact ⟨rfl, ha⟩
  | cons b t ih =>
    have hb : 0 ≤ b := ht b List.mem_cons_self
    simp only [List.map_cons, List.foldl_cons]
    rw [← hs.map_min ha hb]
    exact ih (min a b) (le_min ha hb) (fun x hx => ht x (List.mem_cons_of_mem _ hx))

/-- `min` over the keys of the entries is `min` over the list of keys. -/
theorem foldl_min_keys {ι : Type} (t : List (α × ι)) (a : α) :
    t.foldl (fun m x => min m x.1) a = List.foldl min a (t.map Prod.fst) := by
  induction t generalizing a with
  | nil => rfl
  | cons b t ih => simp only [List.foldl_cons, List.map_cons]; exact ih _

/-- The running minimum is one of the numbers. -/
theorem foldl_min_mem (t : List α) (a : α) : List.foldl min a t ∈ a :: t := by
  induction t generalizing a with
  | nil => simp
  | cons b t ih =>
    simp only [List.foldl_cons]
    have := ih (min a b)
    rcases List.mem_cons.mp this with h | h
    · rw [h]
      rcases min_choice a b with h' | h'
      · rw [h']; exact List.mem_cons_self
      · rw [h']; exact List.mem_cons_of_mem _ List.mem_cons_self
    · exact List.mem_cons_of_mem _ (List.mem_cons_of_mem _ h)

/-- The integer payload the generated dictionary stores for a write `(i, j)`. -/
def intPair (p : Nat × Nat) : Int × Int := ((p.1 : Int), (p.2 : Int))

/-- **Selection through a monotone key map.**  Let `L` be a non-empty log of writes with
non-negative keys and `G` the same writes with keys mapped by a map `s` strictly monotone on
the non-negative numbers (and integer payloads).  Then the hand model's selection on `L`
(`logMin`, `logLookup`: least key, last write with it) and the generated selection on `G`
(`min(keys)`, filter by equality, last hit) pick the same write. -/
theorem select_map {s : α → α} (hs : StrictMonoNN s) (L : DistLog α) (hne : L ≠ [])
    (hL : ∀ e ∈ L, 0 ≤ e.1) (d : α × Int × Int) :
    ∃ k i j, logMin L = some k ∧ logLookup L k = some (i, j) ∧ (k, i, j) ∈ L ∧
      (L.map (fun e => (s e.1, intPair e.2))).map Prod.fst ≠ [] ∧
      List.foldl min (((L.map (fun e => (s e.1, intPair e.2))).map Prod.fst).headD 0)
        (((L.map (fun e => (s e.1, intPair e.2))).map Prod.fst).drop 1) = s k ∧
      (L.map (fun e => (s e.1, intPair e.2))).filter (fun p => decide (p.1 = s k)) ≠ [] ∧
      (((L.map (fun e => (s e.1, intPair e.2))).filter
        (fun p => decide (p.1 = s k))).getLastD d).2 = intPair (i, j) := by
  obtain ⟨e, t, rfl⟩ : ∃ e t, L = e :: t := by
    cases L with
    | nil => exact absurd rfl hne
    | cons e t => exact ⟨e, t, rfl⟩
  have he : 0 ≤ e.1 := hL e List.mem_cons_self
  have ht : ∀ x ∈ t.map Prod.fst, 0 ≤ x := by
    intro x hx
    obtain ⟨y, hy, rfl⟩ := List.mem_map.mp hx
    exact hL y (List.mem_cons_of_mem _ hy)
  set k := List.foldl min e.1 (t.map Prod.fst) with hk
  have hmin : logMin (e :: t) = some k := by
    show some (t.foldl (fun m x => min m x.1) e.1) = some k
    rw [foldl_min_keys]
  have hkmem : k ∈ (e :: t).map Prod.fst := by
    rw [List.map_cons]; exact foldl_min_mem _ _
  have hk0 : 0 ≤ k := (foldl_min_map hs (t.map Prod.fst) e.1 he ht).2
  -- the hits of the two logs correspond
  have hfilter : ((e :: t).map (fun e => (s e.1, intPair e.2))).filter
      (fun p => decide (p.1 = s k))
      = ((e :: t).filter (fun x => decide (x.1 = k))).map (fun e => (s e.1, intPair e.2)) := by
    rw [List.filter_map]
    congr 1
    apply List.filter_congr
    intro x hx
    simp only [Function.comp, decide_eq_decide]
    exact hs.inj (hL x hx) hk0
  have hhits : (e :: t).filter (fun x => decide (x.1 = k)) ≠ [] := by
    obtain ⟨x, hx, hxk⟩ := List.mem_map.mp hkmem
    intro h
    have : x ∈ (e :: t).filter (fun x => decide (x.1 = k)) :=
      List.mem_filter.mpr ⟨hx, by simpa using hxk⟩
    rw [h] at this
    exact absurd this (List.not_mem_nil)
  obtain ⟨z, hz⟩ : ∃ z, ((e :: t).filter (fun x => decide (x.1 = k))).getLast? = some z := by
    cases h : ((e :: t).filter (fun x => decide (x.1 = k))).getLast? with
    | none => exact absurd (List.getLast?_eq_none_iff.mp h) hhits
    | some z => exact ⟨z, rfl⟩
  have hzmem : z ∈ (e :: t).filter (fun x => decide (x.1 = k)) := List.mem_of_getLast? hz
  have hzk : z.1 = k := by simpa using (List.mem_filter.mp hzmem).2
  refine ⟨k, z.2.1, z.2.2, hmin, ?_, ?_, ?_, ?_, ?_, ?_⟩
  · unfold logLookup
    rw [← getLast?_filter, hz]
    rfl
  · have := (List.mem_filter.mp hzmem).1
    rw [← hzk]; exact this
  · simp
  · simp only [List.map_cons, List.map_map, List.headD_cons, List.drop_one, List.tail_cons]
    have := (foldl_min_map hs (t.map Prod.fst) e.1 he ht).1
    rw [List.map_map] at this
    exact this
  · rw [hfilter]
    simpa using hhits
  · rw [hfilter, List.getLastD_eq_getLast?, List.getLast?_map, hz]
    rfl

end keys

section log
variable {α : Type} [Field α] [LinearOrder α] [IsStrictOrderedRing α]

/-- Squared distances are non-negative. -/
theorem pdistSq_nonneg (a b : V2 α) : 0 ≤ pdistSq a b := by
  unfold pdistSq
  nlinarith [mul_self_nonneg (a.x - b.x), mul_self_nonneg (a.y - b.y)]

/-- Every key of the hand model's log is non-negative. -/
theorem writesFor_nonneg (pts H : List (V2 α)) (start : Nat) :
    ∀ e ∈ writesFor pts start H, 0 ≤ e.1 := by
  intro e he
  unfold writesFor at he
  simp only [List.mem_flatMap, List.mem_map] at he
  obtain ⟨b, _, h, _, rfl⟩ := he
  exact pdistSq_nonneg _ _

/-- Every write of the log points into the boundary / the hole. -/
theorem writesFor_mem (pts H : List (V2 α)) (k : α) (i j : Nat)
    (h : (k, i, j) ∈ writesFor pts 0 H) : i < pts.length ∧ j < H.length := by
  unfold writesFor at h
  simp only [List.mem_flatMap, List.mem_map] at h
  obtain ⟨b, hb, hh, hhm, e⟩ := h
  have e1 : b.2 = i := by have := congrArg (fun x => x.2.1) e; exact this
  have e2 : hh.2 = j := by have := congrArg (fun x => x.2.2) e; exact this
  have hb' := List.mem_zipIdx hb
  have hh' := List.mem_zipIdx hhm
  simp at hb' hh'
  omega

/-- The log is empty exactly when the boundary or the hole is. -/
theorem writesFor_eq_nil (pts H : List (V2 α)) :
    writesFor pts 0 H = [] ↔ (pts = [] ∨ H = []) := by
  unfold writesFor
  constructor
  · intro h
    by_contra hcon
    have h1 : pts ≠ [] := fun hh => hcon (Or.inl hh)
    have h2 : H ≠ [] := fun hh => hcon (Or.inr hh)
    cases pts with
    | nil => exact h1 rfl
    | cons a t =>
      cases H with
      | nil => exact h2 rfl
      | cons c u => simp [List.zipIdx_cons] at h
  · rintro (h | h)
    · subst h; rfl
    · subst h; simp

/-- The generated double loop that fills the distance dictionary. -/
theorem gen_log_eq (M : MathOps α) (boundary H : List (V2 α))
    (f : V2 α × Nat → V2 α × Nat → α × Int × Int)
    (hf : ∀ b h, f b h = (M.sqrt (pdistSq b.1 h.1), ((b.2 : Nat) : Int), ((h.2 : Nat) : Int))) :
    (List.zipIdx boundary).foldl (fun st b =>
      (List.zipIdx H).foldl (fun st' h => st' ++ [f b h]) st) []
    = (writesFor boundary 0 H).map (fun e => (M.sqrt e.1, intPair e.2)) := by
  rw [foldl_nested_snoc, List.nil_append]
  unfold writesFor
  rw [List.map_flatMap]
  congr 1
  funext b
  rw [List.map_map]
  apply List.map_congr_left
  intro h _
  rw [hf]; rfl


end log

end Lbg.Lemmas.GenTiesHoles
