/-
  Lemmas.JoinOutlineNaked — the edge table of `joined_intersected_boundary` (model
  `Model.JoinOutline.edgeStep` / `nakedEdges`): the edges whose counter is still 0 are exactly
  the non-degenerate edges whose UNDIRECTED multiplicity among all edges is 1, in order of
  appearance and with the orientation they have in their polygon.
-/
import LbgVerif.Model.JoinOutline
import Mathlib.Data.Sym.Sym2
import Mathlib.Data.List.Count

set_option linter.unusedSectionVars false

namespace Lbg.Lemmas.JoinOutline
open Lbg Lbg.Model.JoinOutline

section Naked
variable {K : Type} [DecidableEq K]

/-- The undirected edge of a directed one. -/
def und (e : K × K) : Sym2 K := s(e.1, e.2)

theorem und_eq_iff (e f : K × K) : und e = und f ↔ e = f ∨ e = (f.2, f.1) := by
  unfold und
  rw [Sym2.eq_iff]
  constructor
  · rintro (⟨h1, h2⟩ | ⟨h1, h2⟩)
    · left; exact Prod.ext h1 h2
    · right; exact Prod.ext h1 h2
  · rintro (h | h)
    · left; rw [h]; exact ⟨rfl, rfl⟩
    · right; rw [h]; exact ⟨rfl, rfl⟩

/-- Undirected multiplicity of `e` among the edges `A`. -/
def umult (A : List (K × K)) (e : K × K) : Nat := (A.map und).count (und e)

/-- "non-degenerate and of undirected multiplicity one". -/
def isNaked (A : List (K × K)) (e : K × K) : Bool := decide (e.1 ≠ e.2) && umult A e == 1

theorem umult_append_single (A : List (K × K)) (e f : K × K) :
    umult (A ++ [e]) f = umult A f + (if und e = und f then 1 else 0) := by
  unfold umult
  rw [List.map_append, List.count_append]
  by_cases h : und e = und f
  · simp [h]
  · simp [h]

theorem umult_pos_of_mem (A : List (K × K)) (f g : K × K) (hg : g ∈ A) (h : und g = und f) :
    0 < umult A f := by
  unfold umult
  rw [List.count_pos_iff]
  exact List.mem_map.2 ⟨g, hg, h⟩

/-! ### `bump` -/

theorem bump_none (key : K × K) (S : List ((K × K) × Nat)) :
    bump key S = none ↔ ∀ g ∈ S, g.1 ≠ key := by
  induction S with
  | nil => simp [bump]
  | cons g t ih =>
    unfold bump
    by_cases h : g.1 = key
    · simp [h]
    · simp only [h, if_false, Option.map_eq_none_iff, ih, List.mem_cons, forall_eq_or_imp, ne_eq,
        not_false_eq_true, true_and]

theorem bump_some (key : K × K) (S S' : List ((K × K) × Nat)) (h : bump key S = some S') :
    ∃ pre g post, S = pre ++ g :: post ∧ g.1 = key ∧ S' = pre ++ (g.1, g.2 + 1) :: post := by
  induction S generalizing S' with
  | nil => simp [bump] at h
  | cons g t ih =>
    unfold bump at h
    by_cases hk : g.1 = key
    · simp only [hk, if_true, Option.some.injEq] at h
      exact ⟨[], g, t, rfl, hk, by rw [← h, hk]; rfl⟩
    · simp only [hk, if_false, Option.map_eq_some_iff] at h
      obtain ⟨t', ht', rfl⟩ := h
      obtain ⟨pre, g', post, h1, h2, h3⟩ := ih t' ht'
      exact ⟨g :: pre, g', post, by rw [h1]; rfl, h2, by rw [h3]; rfl⟩

/-- The two outcomes of one round of the edge loop. -/
theorem edgeStep_cases (S : List ((K × K) × Nat)) (e : K × K) :
    (∃ pre g post, S = pre ++ g :: post ∧ und g.1 = und e ∧
        edgeStep S e = pre ++ (g.1, g.2 + 1) :: post) ∨
    ((∀ g ∈ S, und g.1 ≠ und e) ∧
        edgeStep S e = if e.1 ≠ e.2 then S ++ [(e, 0)] else S) := by
  unfold edgeStep
  cases h1 : bump (e.2, e.1) S with
  | some S' =>
    left
    obtain ⟨pre, g, post, a, b, c⟩ := bump_some _ _ _ h1
    exact ⟨pre, g, post, a, (und_eq_iff _ _).2 (Or.inr b), c⟩
  | none =>
    cases h2 : bump e S with
    | some S' =>
      left
      obtain ⟨pre, g, post, a, b, c⟩ := bump_some _ _ _ h2
      exact ⟨pre, g, post, a, (und_eq_iff _ _).2 (Or.inl b), c⟩
    | none =>
      right
      refine ⟨?_, rfl⟩
      intro g hg hu
      rcases (und_eq_iff _ _).1 hu with h | h
      · exact (bump_none _ _).1 h2 g hg h
      · exact (bump_none _ _).1 h1 g hg h

/-! ### The invariant of the edge loop -/

/-- Invariant after the edges `A` have been processed. -/
structure TableInv (S : List ((K × K) × Nat)) (A : List (K × K)) : Prop where
  entry : ∀ g ∈ S, g.1 ∈ A ∧ g.1.1 ≠ g.1.2 ∧ g.2 + 1 = umult A g.1
  uniq : (S.map (fun g => und g.1)).Nodup
  cover : ∀ f ∈ A, f.1 ≠ f.2 → und f ∈ S.map (fun g => und g.1)
  naked : (S.filter (fun g => g.2 == 0)).map (·.1) = A.filter (isNaked A)

theorem und_diag (e f : K × K) (h : und e = und f) (he : e.1 ≠ e.2) : f.1 ≠ f.2 := by
  rcases (und_eq_iff _ _).1 h with rfl | rfl
  · exact he
  · exact fun h' => he h'.symm

theorem tableInv_step (S : List ((K × K) × Nat)) (A : List (K × K)) (e : K × K)
    (hI : TableInv S A) : TableInv (edgeStep S e) (A ++ [e]) := by
  obtain ⟨hentry, huniq, hcover, hnaked⟩ := hI
  rcases edgeStep_cases S e with ⟨pre, g, post, hS, hge, hstep⟩ | ⟨hno, hstep⟩
  · -- an entry of the same undirected edge is bumped
    rw [hstep]
    have hgS : g ∈ S := by rw [hS]; simp
    have hother : ∀ h ∈ pre ++ post, und h.1 ≠ und e := by
      intro h hh
      rw [hS, List.map_append, List.map_cons] at huniq
      have hn := List.nodup_middle.1 huniq
      rw [List.nodup_cons] at hn
      intro hc
      apply hn.1
      rw [← List.map_append, hge, ← hc]
      exact List.mem_map.2 ⟨h, hh, rfl⟩
    have hgA := hentry g hgS
    refine ⟨?_, ?_, ?_, ?_⟩
    · intro h hh
      rcases List.mem_append.1 hh with hh | hh
      · have hhS : h ∈ S := by rw [hS]; exact List.mem_append_left _ hh
        obtain ⟨a, b, c⟩ := hentry h hhS
        refine ⟨List.mem_append_left _ a, b, ?_⟩
        rw [umult_append_single, c, if_neg (fun hc => hother h (List.mem_append_left _ hh) hc.symm)]
        rfl
      · rcases List.mem_cons.1 hh with rfl | hh
        · refine ⟨List.mem_append_left _ hgA.1, hgA.2.1, ?_⟩
          show g.2 + 1 + 1 = umult (A ++ [e]) g.1
          rw [umult_append_single, if_pos hge.symm, hgA.2.2]
        · have hhS : h ∈ S := by rw [hS]; exact List.mem_append_right _ (List.mem_cons_of_mem _ hh)
          obtain ⟨a, b, c⟩ := hentry h hhS
          refine ⟨List.mem_append_left _ a, b, ?_⟩
          rw [umult_append_single, c,
            if_neg (fun hc => hother h (List.mem_append_right _ hh) hc.symm)]
          rfl
    · rw [hS] at huniq
      simpa using huniq
    · intro f hf hfd
      have hmap : (pre ++ (g.1, g.2 + 1) :: post).map (fun g => und g.1) =
          S.map (fun g => und g.1) := by rw [hS]; simp
      rw [hmap]
      rcases List.mem_append.1 hf with hf | hf
      · exact hcover f hf hfd
      · rw [List.mem_singleton.1 hf, ← hge]
        exact List.mem_map.2 ⟨g, hgS, rfl⟩
    · -- the naked list: both sides lose the edges of the class of `e`
      have hL : ((pre ++ (g.1, g.2 + 1) :: post).filter (fun g => g.2 == 0)).map (·.1) =
          (((S.filter (fun g => g.2 == 0)).map (·.1))).filter (fun f => decide (und f ≠ und e)) := by
        rw [hS]
        have e1 : pre ++ (g.1, g.2 + 1) :: post = pre ++ ([(g.1, g.2 + 1)] ++ post) := by simp
        have e2 : pre ++ g :: post = pre ++ ([g] ++ post) := by simp
        rw [e1, e2]
        have hp : ∀ (l : List ((K × K) × Nat)), (∀ h ∈ l, und h.1 ≠ und e) →
            ((l.filter (fun g => g.2 == 0)).map (·.1)).filter (fun f => decide (und f ≠ und e)) =
              (l.filter (fun g => g.2 == 0)).map (·.1) := by
          intro l hl
          rw [List.filter_eq_self]
          intro f hf
          obtain ⟨h, hh, rfl⟩ := List.mem_map.1 hf
          simpa using hl h (List.mem_filter.1 hh).1
        simp only [List.filter_append, List.map_append]
        rw [hp pre (fun h hh => hother h (List.mem_append_left _ hh)),
          hp post (fun h hh => hother h (List.mem_append_right _ hh))]
        congr 2
        by_cases hg0 : g.2 = 0
        · simp [List.filter_cons, hg0, hge]
        · simp [List.filter_cons, hg0]
      have hR : (A ++ [e]).filter (isNaked (A ++ [e])) =
          (A.filter (isNaked A)).filter (fun f => decide (und f ≠ und e)) := by
        rw [List.filter_append]
        have he : [e].filter (isNaked (A ++ [e])) = [] := by
          have : 0 < umult A e := umult_pos_of_mem A e g.1 hgA.1 hge
          have h2 : umult (A ++ [e]) e = umult A e + 1 := by
            rw [umult_append_single, if_pos rfl]
          simp only [List.filter_cons, isNaked, h2]
          have : (umult A e + 1 == 1) = false := by
            simp; omega
          simp [this]
        rw [he, List.append_nil, List.filter_filter]
        apply List.filter_congr
        intro f hf
        unfold isNaked
        rw [umult_append_single]
        by_cases hq : und f = und e
        · have hpos : 0 < umult A f := umult_pos_of_mem A f f hf rfl
          have : (umult A f + 1 == 1) = false := by simp; omega
          simp [hq, this]
        · have hq' : ¬ und e = und f := fun h => hq h.symm
          simp [hq, hq']
      rw [hL, hR, hnaked]
  · -- no entry of this undirected edge
    have hnoA : ∀ f ∈ A, f.1 ≠ f.2 → und f ≠ und e := by
      intro f hf hfd hc
      obtain ⟨g, hg, hgu⟩ := List.mem_map.1 (hcover f hf hfd)
      exact hno g hg (hgu.trans hc)
    by_cases hd : e.1 ≠ e.2
    · rw [hstep, if_pos hd]
      have hum0 : umult A e = 0 := by
        unfold umult
        rw [List.count_eq_zero]
        intro hm
        obtain ⟨f, hf, hfu⟩ := List.mem_map.1 hm
        exact hnoA f hf (und_diag e f hfu.symm hd) hfu
      refine ⟨?_, ?_, ?_, ?_⟩
      · intro h hh
        rcases List.mem_append.1 hh with hh | hh
        · obtain ⟨a, b, c⟩ := hentry h hh
          refine ⟨List.mem_append_left _ a, b, ?_⟩
          rw [umult_append_single, c, if_neg (fun hc => hno h hh hc.symm)]
          rfl
        · rw [List.mem_singleton.1 hh]
          refine ⟨by simp, hd, ?_⟩
          rw [umult_append_single, if_pos rfl, hum0]
      · rw [List.map_append, List.nodup_append]
        refine ⟨huniq, by simp, ?_⟩
        intro a ha b hb
        simp only [List.map_cons, List.map_nil, List.mem_singleton] at hb
        obtain ⟨g, hg, rfl⟩ := List.mem_map.1 ha
        rw [hb]
        exact hno g hg
      · intro f hf hfd
        rw [List.map_append]
        rcases List.mem_append.1 hf with hf | hf
        · exact List.mem_append_left _ (hcover f hf hfd)
        · rw [List.mem_singleton.1 hf]
          exact List.mem_append_right _ (by simp)
      · rw [List.filter_append, List.map_append, hnaked, List.filter_append]
        congr 1
        · apply List.filter_congr
          intro f hf
          unfold isNaked
          rw [umult_append_single]
          by_cases hfd : f.1 ≠ f.2
          · have : ¬ und e = und f := fun h => hnoA f hf hfd h.symm
            simp [this]
          · simp [hfd]
        · have : isNaked (A ++ [e]) e = true := by
            unfold isNaked
            rw [umult_append_single, if_pos rfl, hum0]
            simp [hd]
          simp [this]
    · rw [hstep, if_neg hd]
      have hd' : e.1 = e.2 := by simpa using hd
      have hne : ∀ f : K × K, f.1 ≠ f.2 → ¬ und e = und f := by
        intro f hf hc
        exact (und_diag f e hc.symm hf) hd'
      refine ⟨?_, huniq, ?_, ?_⟩
      · intro h hh
        obtain ⟨a, b, c⟩ := hentry h hh
        refine ⟨List.mem_append_left _ a, b, ?_⟩
        rw [umult_append_single, c, if_neg (hne h.1 b)]
        rfl
      · intro f hf hfd
        rcases List.mem_append.1 hf with hf | hf
        · exact hcover f hf hfd
        · rw [List.mem_singleton.1 hf] at hfd
          exact absurd hd' hfd
      · rw [hnaked, List.filter_append]
        have : [e].filter (isNaked (A ++ [e])) = [] := by
          simp [isNaked, hd']
        rw [this, List.append_nil]
        apply List.filter_congr
        intro f hf
        unfold isNaked
        rw [umult_append_single]
        by_cases hfd : f.1 ≠ f.2
        · simp [hne f hfd]
        · simp [hfd]

theorem tableInv_foldl (A B : List (K × K)) (S : List ((K × K) × Nat)) (hI : TableInv S A) :
    TableInv (B.foldl edgeStep S) (A ++ B) := by
  induction B generalizing A S with
  | nil => simpa using hI
  | cons e t ih =>
    rw [List.foldl_cons]
    have := ih (A ++ [e]) (edgeStep S e) (tableInv_step S A e hI)
    simpa using this

/-- **The naked edges are the edges of undirected multiplicity one.**  For every list of index
loops, the edges kept by the counting loop are exactly the directed edges `(loop[i-1], loop[i])`
that are non-degenerate and whose undirected edge occurs exactly once among all edges of all
loops — in order of appearance, with the orientation of their own loop. -/
theorem nakedEdges_eq_filter (loops : List (List K)) :
    nakedEdges loops = (allEdges loops).filter (isNaked (allEdges loops)) := by
  unfold nakedEdges edgeTable
  have h0 : TableInv ([] : List ((K × K) × Nat)) ([] : List (K × K)) :=
    ⟨by simp, by simp, by simp, by simp⟩
  have := tableInv_foldl [] (allEdges loops) [] h0
  simpa using this.naked

end Naked

end Lbg.Lemmas.JoinOutline
