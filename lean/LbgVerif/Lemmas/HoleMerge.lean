/-
  Lemmas.HoleMerge — what the hole-merging loop of `Model/HoleMerge.lean` does to ANY cyclic
  functional `Σ f(v[i-1], v[i])`, to the multiset of vertices and to the vertex count; validity of
  the indices stored in the distance logs as loop invariant; the literal accumulation loop of
  `_plane_from_vertices` is the fan sum `fanZip` (`Props/C06.fanNormal`).
-/
import LbgVerif.Model.HoleMerge
import LbgVerif.Lemmas.Cyclic
import LbgVerif.Lemmas.Shoelace
import Mathlib.Data.List.Rotate
import Mathlib.Data.List.Perm.Basic
import Mathlib.Tactic.Ring
import Mathlib.Tactic.Linarith
import Mathlib.Tactic.SplitIfs

set_option linter.unusedSectionVars false
set_option linter.unusedVariables false

namespace Lbg.Lemmas
open Lbg Lbg.Gen Lbg.Model

/-! ## Generic list facts -/

section lists
variable {β γ : Type}

theorem zip_eraseIdx (l : List β) (m : List γ) (i : ℕ) :
    (l.eraseIdx i).zip (m.eraseIdx i) = (l.zip m).eraseIdx i := by
  induction l generalizing m i with
  | nil => simp
  | cons a l ih =>
    cases m with
    | nil => simp
    | cons b m =>
      cases i with
      | zero => simp
      | succ i => simp [ih]

/-- `l ~ l[i] :: l.eraseIdx i`. -/
theorem perm_getD_cons_eraseIdx (l : List β) (i : ℕ) (d : β) (hi : i < l.length) :
    l.Perm (l.getD i d :: l.eraseIdx i) := by
  induction l generalizing i with
  | nil => simp at hi
  | cons a l ih =>
    cases i with
    | zero => simp
    | succ i =>
      simp only [List.length_cons, Nat.add_lt_add_iff_right] at hi
      simp only [List.getD_cons_succ, List.eraseIdx_cons_succ]
      exact ((ih i hi).cons a).trans (List.Perm.swap _ _ _)

theorem getD_zip (l : List β) (m : List γ) (i : ℕ) (d : β) (e : γ) (h : l.length = m.length) :
    (l.zip m).getD i (d, e) = (l.getD i d, m.getD i e) := by
  induction l generalizing m i with
  | nil =>
    cases m with
    | nil => simp
    | cons b m => simp at h
  | cons a l ih =>
    cases m with
    | nil => simp at h
    | cons b m =>
      cases i with
      | zero => simp
      | succ i =>
        simp only [List.length_cons, Nat.add_right_cancel_iff] at h
        simp only [List.zip_cons_cons, List.getD_cons_succ]
        exact ih m i h

theorem getD_eq_getElem' (l : List β) (i : ℕ) (d : β) (hi : i < l.length) : l.getD i d = l[i] := by
  simp [List.getD_eq_getElem?_getD, hi]

theorem getD_mem (l : List β) (i : ℕ) (d : β) (hi : i < l.length) : l.getD i d ∈ l := by
  rw [getD_eq_getElem' _ _ _ hi]
  exact List.getElem_mem hi

/-- `zip l (map g (zip l m))` keeps the first components. -/
theorem zip_map_zip (l : List β) (m : List γ) (g : β × γ → γ) (h : l.length = m.length) :
    l.zip ((l.zip m).map g) = (l.zip m).map (fun p => (p.1, g p)) := by
  induction l generalizing m with
  | nil => simp
  | cons a l ih =>
    cases m with
    | nil => simp at h
    | cons b m =>
      simp only [List.length_cons, Nat.add_right_cancel_iff] at h
      simp [ih m h]

theorem mapM_some_length {f : β → Option γ} {l : List β} {r : List γ} (h : l.mapM f = some r) :
    r.length = l.length := by
  induction l generalizing r with
  | nil => simp at h; subst h; rfl
  | cons a l ih =>
    rw [List.mapM_cons] at h
    cases hfa : f a with
    | none => rw [hfa] at h; simp at h
    | some b =>
      rw [hfa] at h
      cases hl : l.mapM f with
      | none => rw [hl] at h; simp at h
      | some r' =>
        rw [hl] at h
        simp at h
        subst h
        simp [ih hl]

end lists

/-! ## One merge -/

section cyc
variable {β R : Type} [CommRing R]

/-- Merging a loop through the doubled bridge `p — q`, for an ARBITRARY functional: the cyclic
sum of the merged loop is boundary + hole + the bridge traversed in both directions. -/
theorem cycSum_bridge_gen (f : β → β → R) (b1 b2 h1 h2 : List β) (p q : β) :
    cycSum f (b1 ++ [p] ++ ([q] ++ h2 ++ h1 ++ [q]) ++ [p] ++ b2) =
      cycSum f (b1 ++ [p] ++ b2) + cycSum f (h1 ++ [q] ++ h2) + (f p q + f q p) := by
  have hH : cycSum f (h1 ++ [q] ++ h2) = seg f q (h2 ++ h1) q := by
    rw [List.append_assoc, cycSum_append_comm]
    simp only [List.cons_append, List.nil_append, cycSum_cons]
  have e : b1 ++ [p] ++ ([q] ++ h2 ++ h1 ++ [q]) ++ [p] ++ b2 =
      b1 ++ p :: ((q :: (h2 ++ h1)) ++ q :: p :: b2) := by
    simp only [List.cons_append, List.nil_append, List.append_assoc]
  have e' : b1 ++ [p] ++ b2 = b1 ++ p :: b2 := by
    simp only [List.cons_append, List.nil_append, List.append_assoc]
  rw [hH, e, e']
  cases b1 with
  | nil =>
    simp only [List.nil_append, cycSum_cons, seg_append_cons, seg_cons]
    ring
  | cons c t =>
    simp only [List.cons_append, cycSum_cons, seg_append_cons, seg_cons]
    ring

end cyc

variable {α : Type} [Field α] [LinearOrder α] [IsStrictOrderedRing α]

/-- The merged list in the shape of `cycSum_bridge_gen` (valid indices). -/
theorem spliceAt_holeInsert (b h : List (V2 α)) (i j : ℕ) (hi : i < b.length) (hj : j < h.length) :
    spliceAt b (holeInsert b h i j) i =
      b.take i ++ [b.getD i ⟨0, 0⟩] ++
        ([h.getD j ⟨0, 0⟩] ++ h.drop (j + 1) ++ h.take j ++ [h.getD j ⟨0, 0⟩]) ++
        [b.getD i ⟨0, 0⟩] ++ b.drop (i + 1) ∧
    b = b.take i ++ [b.getD i ⟨0, 0⟩] ++ b.drop (i + 1) ∧
    h = h.take j ++ [h.getD j ⟨0, 0⟩] ++ h.drop (j + 1) := by
  have hb : b.drop i = b.getD i ⟨0, 0⟩ :: b.drop (i + 1) := by
    rw [getD_eq_getElem' _ _ _ hi]; exact List.drop_eq_getElem_cons hi
  have hh : h.drop j = h.getD j ⟨0, 0⟩ :: h.drop (j + 1) := by
    rw [getD_eq_getElem' _ _ _ hj]; exact List.drop_eq_getElem_cons hj
  refine ⟨?_, ?_, ?_⟩
  · unfold spliceAt holeInsert
    rw [List.rotate_eq_drop_append_take hj.le, hb, hh]
    simp only [List.append_assoc, List.cons_append, List.nil_append]
  · conv_lhs => rw [← List.take_append_drop i b, hb]
    simp only [List.append_assoc, List.cons_append, List.nil_append]
  · conv_lhs => rw [← List.take_append_drop j h, hh]
    simp only [List.append_assoc, List.cons_append, List.nil_append]

/-- One merge, any functional, vertex multiset and length. -/
theorem merge_one_spec (b h : List (V2 α)) (i j : ℕ) (hi : i < b.length) (hj : j < h.length) :
    (∀ f : V2 α → V2 α → α,
      cycSum f (spliceAt b (holeInsert b h i j) i) =
        cycSum f b + cycSum f h +
          (f (b.getD i ⟨0, 0⟩) (h.getD j ⟨0, 0⟩) + f (h.getD j ⟨0, 0⟩) (b.getD i ⟨0, 0⟩))) ∧
    (spliceAt b (holeInsert b h i j) i).Perm
      (b ++ h ++ [b.getD i ⟨0, 0⟩, h.getD j ⟨0, 0⟩]) ∧
    (holeInsert b h i j).length = h.length + 2 ∧
    (∀ v ∈ holeInsert b h i j, v ∈ b ∨ v ∈ h) := by
  have hpb := getD_mem b i ⟨0, 0⟩ hi
  have hqh := getD_mem h j ⟨0, 0⟩ hj
  have hlen : (holeInsert b h i j).length = h.length + 2 := by
    simp [holeInsert, List.length_rotate]
  have hmem : ∀ v ∈ holeInsert b h i j, v ∈ b ∨ v ∈ h := by
    intro v hv
    simp only [holeInsert, List.mem_append, List.mem_cons, List.not_mem_nil, or_false,
      List.mem_rotate] at hv
    rcases hv with (rfl | hv) | rfl
    · exact Or.inl hpb
    · exact Or.inr hv
    · exact Or.inr hqh
  obtain ⟨e1, e2, e3⟩ := spliceAt_holeInsert b h i j hi hj
  generalize b.getD i ⟨0, 0⟩ = p at *
  generalize h.getD j ⟨0, 0⟩ = q at *
  refine ⟨fun f => ?_, ?_, hlen, hmem⟩
  · rw [e1, cycSum_bridge_gen, ← e2, ← e3]
  · rw [e1]
    have : (b ++ h ++ [p, q]).Perm
        ((b.take i ++ [p] ++ b.drop (i + 1)) ++ (h.take j ++ [q] ++ h.drop (j + 1)) ++ [p, q]) := by
      rw [← e2, ← e3]
    refine List.Perm.trans ?_ this.symm
    rw [List.perm_iff_count]
    intro a
    simp only [List.count_append, List.count_cons, List.count_nil]
    omega

/-! ## The distance logs -/

/-- Every index pair stored in the log points into the boundary / the hole. -/
def LogValid (log : DistLog α) (nb nh : ℕ) : Prop := ∀ e ∈ log, e.2.1 < nb ∧ e.2.2 < nh

theorem writesFor_valid (pts : List (V2 α)) (start : ℕ) (hole : List (V2 α)) (nb : ℕ)
    (h : start + pts.length ≤ nb) : LogValid (writesFor pts start hole) nb hole.length := by
  intro e he
  unfold writesFor at he
  obtain ⟨b, hb, he⟩ := List.mem_flatMap.mp he
  obtain ⟨hh, hhm, rfl⟩ := List.mem_map.mp he
  have h1 := List.mem_zipIdx hb
  have h2 := List.mem_zipIdx hhm
  simp only []
  omega

theorem logLookup_mem {log : DistLog α} {k : α} {ij : ℕ × ℕ} (h : logLookup log k = some ij) :
    ∃ e ∈ log, e.2 = ij := by
  unfold logLookup at h
  cases hf : log.reverse.find? (fun e => decide (e.1 = k)) with
  | none => rw [hf] at h; simp at h
  | some e =>
    rw [hf] at h
    simp only [Option.map_some, Option.some.injEq] at h
    exact ⟨e, List.mem_reverse.mp (List.mem_of_find?_eq_some hf), h⟩

theorem shiftLog_valid {log : DistLog α} {nb nh : ℕ} (h : LogValid log nb nh) (bInd addInd : ℕ) :
    LogValid (shiftLog log bInd addInd) (nb + addInd) nh := by
  intro e he
  unfold shiftLog at he
  obtain ⟨e0, he0, rfl⟩ := List.mem_map.mp he
  obtain ⟨a, b⟩ := h e0 he0
  simp only []
  split_ifs <;> constructor <;> omega

theorem listMin_mem {l : List α} {m : α} (h : listMin l = some m) : m ∈ l := by
  cases l with
  | nil => simp [listMin] at h
  | cons a t =>
    simp only [listMin, Option.some.injEq] at h
    subst h
    have key : ∀ (t : List α) (a : α), t.foldl min a = a ∨ t.foldl min a ∈ t := by
      intro t
      induction t with
      | nil => intro a; left; rfl
      | cons b t ih =>
        intro a
        simp only [List.foldl_cons]
        rcases ih (min a b) with h | h
        · rw [h]
          rcases min_choice a b with h' | h'
          · left; exact h'
          · right; rw [h']; exact List.mem_cons_self
        · right; exact List.mem_cons_of_mem _ h
    rcases key t a with h | h
    · rw [h]; exact List.mem_cons_self
    · exact List.mem_cons_of_mem _ h

/-! ## The whole loop -/

/-- Loop invariant: as many logs as holes, every stored index pair valid. -/
def MergeInv (boundary : List (V2 α)) (holes : List (List (V2 α))) (logs : List (DistLog α)) :
    Prop :=
  logs.length = holes.length ∧
  ∀ hl ∈ holes.zip logs, LogValid hl.2 boundary.length hl.1.length

/-- What the merging loop returns, in terms of the vertex pairs `(p, q)` it bridges. -/
def MergeResult (boundary : List (V2 α)) (holes : List (List (V2 α))) (r : List (V2 α)) : Prop :=
  ∃ bridges : List (V2 α × V2 α),
    bridges.length = holes.length ∧
    (∀ e ∈ bridges, (e.1 ∈ boundary ∨ e.1 ∈ holes.flatten) ∧ e.2 ∈ holes.flatten) ∧
    r.Perm (boundary ++ holes.flatten ++ bridges.flatMap (fun e => [e.1, e.2])) ∧
    ∀ f : V2 α → V2 α → α,
      cycSum f r = cycSum f boundary + (holes.map (cycSum f)).sum +
        (bridges.map (fun e => f e.1 e.2 + f e.2 e.1)).sum

theorem mergeDetailed_spec {boundary hole : List (V2 α)} {log : DistLog α}
    {r : List (V2 α) × List (V2 α) × ℕ} (hv : LogValid log boundary.length hole.length)
    (h : mergeDetailed boundary hole log = some r) :
    ∃ j, r.2.2 < boundary.length ∧ j < hole.length ∧
      r.1 = spliceAt boundary (holeInsert boundary hole r.2.2 j) r.2.2 ∧
      r.2.1 = holeInsert boundary hole r.2.2 j := by
  unfold mergeDetailed at h
  cases hk : logMin log with
  | none => rw [hk] at h; simp at h
  | some k =>
    rw [hk] at h
    simp only [] at h
    cases hl : logLookup log k with
    | none => rw [hl] at h; simp at h
    | some ij =>
      obtain ⟨i, j⟩ := ij
      rw [hl] at h
      simp only [Option.some.injEq] at h
      obtain ⟨e, he, hij⟩ := logLookup_mem hl
      obtain ⟨a, b⟩ := hv e he
      rw [hij] at a b
      subst h
      exact ⟨j, a, b, rfl, rfl⟩

theorem mergeLoop_spec (fuel : ℕ) (boundary : List (V2 α)) (holes : List (List (V2 α)))
    (logs : List (DistLog α)) (hf : holes.length ≤ fuel) (hinv : MergeInv boundary holes logs)
    {r : List (V2 α)} (h : mergeLoop fuel boundary holes logs = some r) :
    MergeResult boundary holes r := by
  induction fuel generalizing boundary holes logs r with
  | zero =>
    have : holes = [] := List.length_eq_zero_iff.mp (Nat.le_zero.mp hf)
    subst this
    simp only [mergeLoop, List.isEmpty_nil, if_true, Option.some.injEq] at h
    subst h
    exact ⟨[], rfl, by simp, by simp, by simp⟩
  | succ fuel ih =>
    unfold mergeLoop at h
    by_cases hem : holes.isEmpty = true
    · rw [if_pos hem] at h
      simp only [Option.some.injEq] at h
      subst h
      have : holes = [] := List.isEmpty_iff.mp hem
      subst this
      exact ⟨[], rfl, by simp, by simp, by simp⟩
    · rw [if_neg hem] at h
      cases hmd : logs.mapM logMin with
      | none => rw [hmd] at h; simp at h
      | some minDists =>
        rw [hmd] at h
        simp only [] at h
        cases hgm : listMin minDists with
        | none => rw [hgm] at h; simp at h
        | some gmin =>
          rw [hgm] at h
          simp only [] at h
          set hi := minDists.findIdx (fun d => decide (d = gmin)) with hhi
          have hlen : minDists.length = holes.length := by
            rw [mapM_some_length hmd, hinv.1]
          have hilt : hi < holes.length := by
            rw [← hlen, hhi]
            apply List.findIdx_lt_length_of_exists
            exact ⟨gmin, listMin_mem hgm, by simp⟩
          cases hdet : mergeDetailed boundary (holes.getD hi []) (logs.getD hi []) with
          | none => rw [hdet] at h; simp at h
          | some res =>
            obtain ⟨boundary', oldHole, bInd⟩ := res
            rw [hdet] at h
            simp only [] at h
            -- validity of the chosen log
            have hzmem : (holes.getD hi [], logs.getD hi []) ∈ holes.zip logs := by
              rw [← getD_zip holes logs hi [] [] hinv.1.symm]
              apply getD_mem
              rw [List.length_zip, hinv.1, Nat.min_self]; exact hilt
            have hvalid := hinv.2 _ hzmem
            obtain ⟨j, hbi, hj, hb', hold⟩ := mergeDetailed_spec hvalid hdet
            simp only [] at hbi hj hb' hold
            obtain ⟨m1, m2, m3, m4⟩ := merge_one_spec boundary (holes.getD hi []) bInd j hbi hj
            -- the invariant for the next pass
            have hb'len : boundary'.length = boundary.length + oldHole.length := by
              rw [hb', hold]
              simp [spliceAt, List.length_take, List.length_drop]
              omega
            have hlen' : ((logs.eraseIdx hi).map (fun l => shiftLog l bInd oldHole.length)).length
                = (holes.eraseIdx hi).length := by
              rw [List.length_map, List.length_eraseIdx, List.length_eraseIdx, hinv.1]
            have hinv' : MergeInv boundary' (holes.eraseIdx hi)
                (((holes.eraseIdx hi).zip ((logs.eraseIdx hi).map
                  (fun l => shiftLog l bInd oldHole.length))).map
                  (fun hl => hl.2 ++ writesFor oldHole bInd hl.1)) := by
              constructor
              · rw [List.length_map, List.length_zip, hlen', Nat.min_self]
              · intro hl hhl
                rw [zip_map_zip _ _ _ hlen'.symm] at hhl
                obtain ⟨hl0, hhl0, rfl⟩ := List.mem_map.mp hhl
                simp only []
                rw [List.zip_map_right, zip_eraseIdx] at hhl0
                obtain ⟨hl1, hhl1, rfl⟩ := List.mem_map.mp hhl0
                have hmem1 : hl1 ∈ holes.zip logs := List.eraseIdx_subset hhl1
                have hv1 := hinv.2 _ hmem1
                intro e he
                try simp only [Prod.map_apply, id_eq] at he ⊢
                rcases List.mem_append.mp he with he | he
                · have := shiftLog_valid hv1 bInd oldHole.length e he
                  rw [hb'len]; exact this
                · exact writesFor_valid oldHole bInd hl1.1 boundary'.length
                    (by rw [hb'len]; omega) e he
            have hf' : (holes.eraseIdx hi).length ≤ fuel := by
              rw [List.length_eraseIdx]; split_ifs <;> omega
            obtain ⟨bridges, c1, c2, c3, c4⟩ := ih boundary' (holes.eraseIdx hi) _ hf' hinv' h
            -- assemble
            have hperm := perm_getD_cons_eraseIdx holes hi [] hilt
            have hflat : holes.flatten.Perm (holes.getD hi [] ++ (holes.eraseIdx hi).flatten) := by
              have := hperm.flatten
              simpa using this
            have hsum : ∀ f : V2 α → V2 α → α, (holes.map (cycSum f)).sum =
                cycSum f (holes.getD hi []) + ((holes.eraseIdx hi).map (cycSum f)).sum := by
              intro f
              have := (hperm.map (cycSum f)).sum_eq
              simpa using this
            have hsub : ∀ v ∈ (holes.eraseIdx hi).flatten, v ∈ holes.flatten := by
              intro v hv
              exact hflat.symm.subset (List.mem_append_right _ hv)
            have hsub2 : ∀ v ∈ holes.getD hi [], v ∈ holes.flatten := by
              intro v hv
              exact hflat.symm.subset (List.mem_append_left _ hv)
            have hb'mem : ∀ v ∈ boundary', v ∈ boundary ∨ v ∈ holes.flatten := by
              intro v hv
              rw [hb'] at hv
              have := m2.subset hv
              simp only [List.mem_append, List.mem_cons, List.not_mem_nil, or_false] at this
              rcases this with (h1 | h1) | rfl | rfl
              · exact Or.inl h1
              · exact Or.inr (hsub2 _ h1)
              · exact Or.inl (getD_mem _ _ _ hbi)
              · exact Or.inr (hsub2 _ (getD_mem _ _ _ hj))
            refine ⟨(boundary.getD bInd ⟨0, 0⟩, (holes.getD hi []).getD j ⟨0, 0⟩) :: bridges,
              ?_, ?_, ?_, ?_⟩
            · simp only [List.length_cons, c1, List.length_eraseIdx, if_pos hilt]; omega
            · intro e he
              rcases List.mem_cons.mp he with rfl | he
              · exact ⟨Or.inl (getD_mem _ _ _ hbi), hsub2 _ (getD_mem _ _ _ hj)⟩
              · obtain ⟨d1, d2⟩ := c2 e he
                refine ⟨?_, hsub _ d2⟩
                rcases d1 with d1 | d1
                · exact hb'mem _ d1
                · exact Or.inr (hsub _ d1)
            · refine c3.trans ?_
              rw [hb']
              simp only [List.flatMap_cons]
              have p1 := (m2.append_right ((holes.eraseIdx hi).flatten ++
                bridges.flatMap (fun e => [e.1, e.2])))
              rw [List.append_assoc] at p1 ⊢
              refine p1.trans ?_
              have p2 : (boundary ++ holes.flatten ++
                  ([boundary.getD bInd ⟨0, 0⟩, (holes.getD hi []).getD j ⟨0, 0⟩] ++
                    bridges.flatMap (fun e => [e.1, e.2]))).Perm
                  (boundary ++ (holes.getD hi [] ++ (holes.eraseIdx hi).flatten) ++
                  ([boundary.getD bInd ⟨0, 0⟩, (holes.getD hi []).getD j ⟨0, 0⟩] ++
                    bridges.flatMap (fun e => [e.1, e.2]))) :=
                ((hflat.append_left boundary).append_right _)
              refine List.Perm.trans ?_ p2.symm
              rw [List.perm_iff_count]
              intro a
              simp only [List.count_append, List.count_cons, List.count_nil]
              omega
            · intro f
              rw [c4 f, hb', m1 f, hsum f]
              simp only [List.map_cons, List.sum_cons]
              ring

/-- The initial logs satisfy the invariant. -/
theorem mergeInv_init (boundary : List (V2 α)) (holes : List (List (V2 α))) :
    MergeInv boundary holes (holes.map (fun h => writesFor boundary 0 h)) := by
  constructor
  · simp
  · intro hl hhl
    rw [List.zip_map_right] at hhl
    obtain ⟨p, hp, rfl⟩ := List.mem_map.mp hhl
    have : p.1 = p.2 := by
      have := List.of_mem_zip hp
      clear hhl
      induction holes with
      | nil => simp at hp
      | cons a t ih =>
        simp only [List.zip_cons_cons, List.mem_cons] at hp
        rcases hp with rfl | hp
        · rfl
        · exact ih hp (List.of_mem_zip hp)
    show LogValid (writesFor boundary 0 p.2) boundary.length p.1.length
    rw [← this]
    exact writesFor_valid boundary 0 p.1 boundary.length (by omega)

/-- **`_merge_boundary_and_holes`**, any boundary and holes: whenever the model returns a list,
it is `MergeResult`. -/
theorem mergeBoundaryAndHoles_spec (boundary : List (V2 α)) (holes : List (List (V2 α)))
    {r : List (V2 α)} (h : mergeBoundaryAndHoles boundary holes = some r) :
    MergeResult boundary holes r :=
  mergeLoop_spec holes.length boundary holes _ (le_refl _) (mergeInv_init boundary holes) h

/-! ## The index loop of `_plane_from_vertices` -/

section fan
variable {β : Type}

/-- `[(l[i], l[i+1]) for i in range(len(l) - 1)]` is `zip(l, l[1:])`. -/
theorem range_getD_pairs (l : List β) (d : β) :
    (List.range (l.length - 1)).map (fun i => (l.getD i d, l.getD (i + 1) d)) = l.zip l.tail := by
  induction l with
  | nil => simp
  | cons a t ih =>
    cases t with
    | nil => simp
    | cons b t' =>
      have e : (a :: b :: t').length - 1 = ((b :: t').length - 1) + 1 := by simp
      rw [e, List.range_succ_eq_map, List.map_cons, List.map_map]
      simp only [List.tail_cons, List.zip_cons_cons, List.getD_cons_zero, List.getD_cons_succ,
        Nat.zero_add]
      congr 1

end fan

end Lbg.Lemmas
