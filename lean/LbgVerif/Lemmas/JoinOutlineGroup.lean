/-
  Lemmas.JoinOutlineGroup — the grouping loops `merge_faces_to_holes` /
  `group_boundaries_and_holes` (restart-after-every-hit `while` loops around a base polygon) compute
  the SAME groups as the `for … for … else` loop of `Face3D._from_bool_poly`
  (`Model.BoolGroup.groupWith`) whenever the test is monotone in the holes found so far (a loop
  that fails the test keeps failing when more holes are known) — which holds for both tests.
-/
import LbgVerif.Model.JoinOutline
import LbgVerif.Model.BoolGroup
import LbgVerif.Lemmas.BoolGroup

set_option linter.unusedSectionVars false

namespace Lbg.Lemmas.JoinOutline
open Lbg Lbg.Model Lbg.Model.JoinOutline Lbg.Lemmas

section Group
variable {L : Type}

/-- One pass over the remaining loops, taking every loop that passes the test with the holes
found so far. -/
def sweep (test : L × List L → L → Bool) (base : L) : List L → List L → List L × List L
  | holes, [] => (holes, [])
  | holes, r :: rs =>
    if test (base, holes) r then sweep test base (holes ++ [r]) rs
    else ((sweep test base holes rs).1, r :: (sweep test base holes rs).2)

/-- A failed test stays failed when another hole is known. -/
def Mono (test : L × List L → L → Bool) : Prop :=
  ∀ base holes x r, test (base, holes) r = false → test (base, holes ++ [x]) r = false

theorem mono_faceTest (inside : L → L → Bool) : Mono (faceTest inside) := by
  intro base holes x r h
  unfold faceTest at h ⊢
  simp only [Bool.and_eq_false_iff, Bool.not_eq_false', List.any_eq_true] at h ⊢
  rcases h with h | ⟨y, hy, hyr⟩
  · exact Or.inl h
  · exact Or.inr ⟨y, List.mem_append_left _ hy, hyr⟩

theorem mono_polyTest (inside : L → L → Bool) : Mono (polyTest inside) := by
  intro base holes x r h; exact h

theorem faceTest_eq_isHoleOf (inside : L → L → Bool) : faceTest inside = isHoleOf inside := rfl
theorem polyTest_eq_isHoleOfNoTol (inside : L → L → Bool) :
    polyTest inside = isHoleOfNoTol inside := rfl

theorem takeFirst_none (test : L × List L → L → Bool) (base : L) (holes others : List L) :
    takeFirst test base holes others = none ↔ ∀ r ∈ others, test (base, holes) r = false := by
  induction others with
  | nil => simp [takeFirst]
  | cons r t ih =>
    unfold takeFirst
    by_cases h : test (base, holes) r = true
    · simp [h]
    · have h' : test (base, holes) r = false := by simpa using h
      simp [h', ih]

theorem takeFirst_some (test : L × List L → L → Bool) (base : L) (holes others : List L) (r : L)
    (others' : List L) (h : takeFirst test base holes others = some (r, others')) :
    ∃ pre post, others = pre ++ r :: post ∧ (∀ x ∈ pre, test (base, holes) x = false) ∧
      test (base, holes) r = true ∧ others' = pre ++ post := by
  induction others generalizing others' with
  | nil => simp [takeFirst] at h
  | cons a t ih =>
    unfold takeFirst at h
    by_cases ha : test (base, holes) a = true
    · simp only [ha, if_true, Option.some.injEq, Prod.mk.injEq] at h
      obtain ⟨rfl, rfl⟩ := h
      exact ⟨[], t, rfl, by simp, ha, rfl⟩
    · simp only [ha, Bool.false_eq_true, if_false, Option.map_eq_some_iff] at h
      obtain ⟨q, hq, hq2⟩ := h
      simp only [Prod.mk.injEq] at hq2
      obtain ⟨rfl, rfl⟩ := hq2
      obtain ⟨pre, post, h1, h2, h3, h4⟩ := ih q.2 (by rw [hq])
      refine ⟨a :: pre, post, by rw [h1]; rfl, ?_, h3, by rw [h4]; rfl⟩
      intro x hx
      rcases List.mem_cons.1 hx with rfl | hx
      · simpa using ha
      · exact h2 x hx

theorem sweep_skip (test : L × List L → L → Bool) (base : L) (holes pre post : List L)
    (h : ∀ x ∈ pre, test (base, holes) x = false) :
    sweep test base holes (pre ++ post) =
      ((sweep test base holes post).1, pre ++ (sweep test base holes post).2) := by
  induction pre with
  | nil => rfl
  | cons a t ih =>
    have ha := h a List.mem_cons_self
    simp only [List.cons_append, sweep, ha, Bool.false_eq_true, if_false]
    rw [ih (fun x hx => h x (List.mem_cons_of_mem _ hx))]

theorem sweep_sublist (test : L × List L → L → Bool) (base : L) (holes others : List L) :
    (sweep test base holes others).2.Sublist others := by
  induction others generalizing holes with
  | nil => simp [sweep]
  | cons r t ih =>
    unfold sweep
    split_ifs
    · exact (ih _).trans (List.sublist_cons_self _ _)
    · exact (ih _).cons_cons r

/-- The restart loop `_match_holes_to_*` equals the single pass. -/
theorem matchLoop_eq_sweep (test : L × List L → L → Bool) (hm : Mono test) (base : L)
    (fuel : Nat) (holes others : List L) (hf : others.length < fuel) :
    matchLoop test base fuel holes others = sweep test base holes others := by
  induction fuel generalizing holes others with
  | zero => omega
  | succ f ih =>
    unfold matchLoop
    cases ht : takeFirst test base holes others with
    | none =>
      simp only []
      have h := (takeFirst_none test base holes others).1 ht
      have := sweep_skip test base holes others [] h
      simp only [List.append_nil, sweep] at this
      rw [this]
    | some q =>
      obtain ⟨r, others'⟩ := q
      simp only []
      obtain ⟨pre, post, h1, h2, h3, h4⟩ := takeFirst_some test base holes others r others' ht
      subst h1 h4
      rw [ih (holes ++ [r]) (pre ++ post) (by simp at hf ⊢; omega)]
      have hpre : ∀ x ∈ pre, test (base, holes ++ [r]) x = false :=
        fun x hx => hm base holes r x (h2 x hx)
      rw [sweep_skip test base (holes ++ [r]) pre post hpre,
        sweep_skip test base holes pre (r :: post) h2]
      simp only [sweep, h3, if_true]

theorem matchHoles_eq_sweep (test : L × List L → L → Bool) (hm : Mono test) (base : L)
    (others : List L) : matchHoles test base others = sweep test base [] others :=
  matchLoop_eq_sweep test hm base _ [] others (by omega)

/-- The `for … for … else` loop of `_from_bool_poly` with the first group seeded by `b`: `b`
collects exactly what one sweep collects, the loops it leaves are grouped among themselves. -/
theorem foldl_placeLoop_head (test : L × List L → L → Bool) (b : L) (rest : List L)
    (h0 : List L) (gs : List (L × List L)) :
    rest.foldl (placeLoop test) ((b, h0) :: gs) =
      (b, (sweep test b h0 rest).1) :: (sweep test b h0 rest).2.foldl (placeLoop test) gs := by
  induction rest generalizing h0 gs with
  | nil => rfl
  | cons r t ih =>
    simp only [List.foldl_cons, placeLoop, sweep]
    by_cases h : test (b, h0) r = true
    · simp only [h, if_true]
      exact ih _ _
    · simp only [h, Bool.false_eq_true, if_false]
      rw [ih h0 (placeLoop test gs r)]
      rfl

theorem groupWith_cons (test : L × List L → L → Bool) (b : L) (rest : List L) :
    groupWith test (b :: rest) =
      (b, (sweep test b [] rest).1) :: groupWith test (sweep test b [] rest).2 := by
  rw [groupWith_eq_foldl, groupWith_eq_foldl, List.foldl_cons]
  show rest.foldl (placeLoop test) [(b, [])] = _
  exact foldl_placeLoop_head test b rest [] []

/-- The `while len(remain) > 0` loop appends exactly the groups of `base :: remain`. -/
theorem mergeLoop_eq (test : L × List L → L → Bool) (hm : Mono test) (fuel : Nat) (base : L)
    (remain : List L) (acc : List (L × List L)) (hne : remain ≠ [])
    (hf : remain.length ≤ fuel) :
    mergeLoop test fuel base remain acc = acc ++ groupWith test (base :: remain) := by
  induction fuel generalizing base remain acc with
  | zero =>
    have : remain = [] := List.length_eq_zero_iff.1 (by omega)
    exact absurd this hne
  | succ f ih =>
    have hpos : remain.length > 0 := List.length_pos_iff.2 hne
    unfold mergeLoop
    simp only [hpos, if_true]
    rw [matchHoles_eq_sweep test hm, groupWith_cons]
    have hsub := sweep_sublist test base [] remain
    generalize sweep test base [] remain = q at *
    obtain ⟨h, rest⟩ := q
    simp only [] at hsub ⊢
    match rest, hsub with
    | [], _ => simp [groupWith]
    | [s], _ => simp [groupWith]
    | s :: s' :: rest', hsub =>
      have hlen : (s' :: rest').length ≤ f := by
        have := hsub.length_le; simp at this ⊢; omega
      show mergeLoop test f s (s' :: rest') (acc ++ [(base, h)]) = _
      rw [ih s (s' :: rest') (acc ++ [(base, h)]) (by simp) hlen]
      simp

/-- **`merge_faces_to_holes` / `group_boundaries_and_holes` on two or more sorted loops are the
grouping function of `_from_bool_poly`.** -/
theorem mergeSorted_eq_groupWith (test : L × List L → L → Bool) (hm : Mono test) (b s : L)
    (rest : List L) :
    mergeSorted test (b :: s :: rest) = some (groupWith test (b :: s :: rest)) := by
  show some (mergeLoop test ((s :: rest).length + 1) b (s :: rest) []) = _
  rw [mergeLoop_eq test hm _ b (s :: rest) [] (by simp) (by omega)]
  simp

/-- On a single loop the `while` body never runs: NOTHING is returned. -/
theorem mergeSorted_single (test : L × List L → L → Bool) (b : L) :
    mergeSorted test [b] = some [] := rfl

end Group

end Lbg.Lemmas.JoinOutline
