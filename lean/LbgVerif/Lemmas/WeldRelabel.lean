/-
  Lemmas/WeldRelabel — renumbering the vertices of an index structure by an injective map:
  the multiset of undirected sides is the image of the old one, the incidence counts are
  carried along.  Used by `Props/C07c.lean` (presentation independence of
  `Polyface3D.from_faces`).
-/
import LbgVerif.Lemmas.EdgeInfo
import LbgVerif.Lemmas.CyclicCount
import Mathlib.Data.List.Nodup
import Mathlib.Data.List.Perm.Basic

set_option linter.unusedSectionVars false
set_option linter.unusedVariables false

namespace Lbg.Lemmas.WeldRelabel
open Lbg Lbg.Spec.EdgeCount Lbg.Model.EdgeInfo Lbg.Lemmas.EdgeInfo Lbg.Lemmas

/-- The index structure with every vertex number `i` replaced by `σ i`. -/
def relabel (σ : Nat → Nat) (fs : List (List (List Nat))) : List (List (List Nat)) :=
  fs.map (List.map (List.map σ))

/-- The undirected edge with both ends renumbered. -/
def normE (σ : Nat → Nat) (e : Edge) : Edge := norm (σ e.1) (σ e.2)

theorem normE_norm (σ : Nat → Nat) (a b : Nat) : normE σ (norm a b) = norm (σ a) (σ b) := by
  unfold normE
  by_cases h : a ≤ b
  · simp [norm, h]
  · have : norm a b = (b, a) := by simp [norm, h]
    rw [this]
    exact norm_comm _ _

variable {σ : Nat → Nat}

theorem loopEdges_map (hσ : Function.Injective σ) (l : List Nat) :
    loopEdges (l.map σ) = (loopEdges l).map (normE σ) := by
  unfold loopEdges
  rw [cyclicPairs_map, List.filter_map, List.map_map, List.map_map]
  have hf : ((fun p : Nat × Nat => p.1 != p.2) ∘ fun q : Nat × Nat => (σ q.1, σ q.2)) =
      (fun p : Nat × Nat => p.1 != p.2) := by
    funext q
    simp only [Function.comp]
    by_cases h : q.1 = q.2
    · simp [h]
    · have : σ q.1 ≠ σ q.2 := fun h' => h (hσ h')
      rw [bne_iff_ne.mpr h, bne_iff_ne.mpr this]
  rw [hf]
  apply List.map_congr_left
  intro q _
  simp only [Function.comp]
  exact (normE_norm σ q.1 q.2).symm

theorem allEdges_relabel (hσ : Function.Injective σ) (fs : List (List (List Nat))) :
    allEdges (relabel σ fs) = (allEdges fs).map (normE σ) := by
  unfold allEdges relabel faceEdges
  rw [List.flatMap_map, List.map_flatMap]
  congr 1
  funext f
  rw [List.flatMap_map, List.map_flatMap]
  congr 1
  funext l
  exact loopEdges_map hσ l

theorem normE_inj (hσ : Function.Injective σ) {e e' : Edge} (he : e.1 ≤ e.2) (he' : e'.1 ≤ e'.2)
    (h : normE σ e = normE σ e') : e = e' := by
  have h' : normP (σ e.1, σ e.2) = normP (σ e'.1, σ e'.2) := h
  rcases (normP_eq_iff _ _ _).mp h' with h1 | h1
  · simp only [Prod.mk.injEq] at h1
    exact Prod.ext (hσ h1.1) (hσ h1.2)
  · simp only [Prod.mk.injEq] at h1
    have a := hσ h1.1
    have b := hσ h1.2
    apply Prod.ext <;> omega

theorem mem_allEdges_le {fs : List (List (List Nat))} {e : Edge} (h : e ∈ allEdges fs) :
    e.1 ≤ e.2 := by
  rw [allEdges_eq] at h
  unfold und at h
  obtain ⟨d, _, rfl⟩ := List.mem_map.mp h
  exact norm_fst_le_snd _ _

/-- Renumbering carries the incidence count of every used edge along. -/
theorem uses_relabel (hσ : Function.Injective σ) (fs : List (List (List Nat))) {e : Edge}
    (he : e.1 ≤ e.2) : uses (relabel σ fs) (normE σ e) = uses fs e := by
  unfold uses
  rw [allEdges_relabel hσ, List.count_eq_countP, List.count_eq_countP, List.countP_map]
  apply List.countP_congr
  intro x hx
  simp only [Function.comp, beq_iff_eq]
  constructor
  · intro h; exact normE_inj hσ (mem_allEdges_le hx) he h
  · intro h; rw [h]

/-- An edge that is not a renumbered old edge is unused. -/
theorem uses_relabel_eq_zero (hσ : Function.Injective σ) (fs : List (List (List Nat))) {e' : Edge}
    (h : ∀ e ∈ allEdges fs, normE σ e ≠ e') : uses (relabel σ fs) e' = 0 := by
  unfold uses
  rw [allEdges_relabel hσ]
  apply List.count_eq_zero_of_not_mem
  intro hm
  obtain ⟨e, he, rfl⟩ := List.mem_map.mp hm
  exact h e he rfl

/-- The sorted (edge, count) table of the renumbered structure is, as a multiset, the old one
with every edge renumbered. -/
theorem edgeCounts_relabel (hσ : Function.Injective σ) (fs : List (List (List Nat))) :
    (edgeCounts (relabel σ fs)).Perm
      ((edgeCounts fs).map (fun c => (normE σ c.1, c.2))) := by
  unfold edgeCounts countsOf
  rw [allEdges_relabel hσ, List.map_map]
  have hk : (keysOf ((allEdges fs).map (normE σ))).Perm ((keysOf (allEdges fs)).map (normE σ)) := by
    rw [List.perm_ext_iff_of_nodup (nodup_keysOf _)]
    · intro e'
      rw [mem_keysOf]
      simp only [List.mem_map, mem_keysOf]
    · apply List.Nodup.map_on _ (nodup_keysOf _)
      intro a ha b hb hab
      rw [mem_keysOf] at ha hb
      exact normE_inj hσ (mem_allEdges_le ha) (mem_allEdges_le hb) hab
  refine (hk.map _).trans (List.Perm.of_eq ?_)
  rw [List.map_map]
  apply List.map_congr_left
  intro e he
  rw [mem_keysOf] at he
  simp only [Function.comp, Prod.mk.injEq, true_and]
  have := uses_relabel hσ fs (mem_allEdges_le he)
  unfold uses at this
  rw [allEdges_relabel hσ] at this
  exact this

/-- Filtering a count table by the count and projecting the edges: the length only depends on
the multiset of counts. -/
theorem class_len_of_perm {h : Edge → Edge} {cs cs' : List (Edge × Nat)}
    (hp : cs'.Perm (cs.map (fun c => (h c.1, c.2)))) (q : Nat → Bool) :
    ((cs'.filter (fun p => q p.2)).map Prod.fst).length =
      ((cs.filter (fun p => q p.2)).map Prod.fst).length := by
  rw [List.length_map, List.length_map, (hp.filter _).length_eq, List.filter_map,
    List.length_map]
  rfl

end Lbg.Lemmas.WeldRelabel
