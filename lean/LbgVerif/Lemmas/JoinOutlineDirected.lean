/-
  Lemmas.JoinOutlineDirected —
  (1) cancellation of shared edges: over a duplicate-free list of directed edges, the sum of an
      antisymmetric edge weight over ALL edges equals the sum over the naked ones;
  (2) `join_segments` keeps the ORIENTATION of the segments when every point starts at most one
      and ends at most one of them (no pinch vertex) and `is_equivalent` is exact: the directed
      edges of the returned chains are a permutation of the input segments;
  (3) chains and shoelace sums.
-/
import LbgVerif.Lemmas.JoinOutlineExact
import LbgVerif.Lemmas.JoinSegments
import LbgVerif.Lemmas.Shoelace
import Mathlib.Algebra.Order.Ring.Defs
import Mathlib.Tactic.Linarith

set_option linter.unusedSectionVars false

namespace Lbg.Lemmas.JoinOutline
open Lbg Lbg.Model.JoinOutline Lbg.Model.JoinSegments Lbg.Lemmas.JoinSegments

/-! ### 1. Cancellation -/

section Cancel
variable {K : Type} [DecidableEq K] {R : Type} [Field R]

theorem sum_filter_split {β : Type} (l : List β) (p : β → Bool) (f : β → R) :
    (l.map f).sum = ((l.filter p).map f).sum + ((l.filter (fun x => !p x)).map f).sum := by
  induction l with
  | nil => simp
  | cons a t ih =>
    by_cases h : p a
    · simp [List.filter_cons, h, ih]; ring
    · simp [List.filter_cons, h, ih]; ring

theorem countP_or_disjoint {β : Type} (l : List β) (p q : β → Bool)
    (h : ∀ a, ¬ (p a = true ∧ q a = true)) :
    l.countP (fun a => p a || q a) = l.countP p + l.countP q := by
  induction l with
  | nil => rfl
  | cons a t ih =>
    simp only [List.countP_cons, ih]
    have := h a
    cases hp : p a <;> cases hq : q a <;> simp_all <;> omega

theorem countP_eq_of_nodup {β : Type} [DecidableEq β] (l : List β) (hnd : l.Nodup) (x : β) :
    l.countP (fun a => decide (a = x)) = if x ∈ l then 1 else 0 := by
  induction l with
  | nil => simp
  | cons a t ih =>
    rw [List.nodup_cons] at hnd
    simp only [List.countP_cons, ih hnd.2, List.mem_cons]
    by_cases h : a = x
    · subst h; simp [hnd.1]
    · have h' : ¬ x = a := fun hc => h hc.symm
      simp [h, h']

theorem umult_of_nodup (E : List (K × K)) (hnd : E.Nodup) (e : K × K) (hd : e.1 ≠ e.2) :
    umult E e = (if e ∈ E then 1 else 0) + (if (e.2, e.1) ∈ E then 1 else 0) := by
  rw [umult_eq_countP]
  have h1 : (fun a : K × K => decide (und a = und e)) =
      (fun a => decide (a = e) || decide (a = (e.2, e.1))) := by
    funext a
    rw [← Bool.decide_or]
    congr 1
    exact propext (und_eq_iff a e)
  have hdis : ∀ a : K × K, ¬ (decide (a = e) = true ∧ decide (a = (e.2, e.1)) = true) := by
    intro a ⟨ha, hb⟩
    simp only [decide_eq_true_eq] at ha hb
    rw [ha] at hb
    exact hd (congrArg Prod.fst hb)
  rw [h1, countP_or_disjoint _ _ _ hdis, countP_eq_of_nodup E hnd, countP_eq_of_nodup E hnd]
  congr 1 <;> (split_ifs <;> rfl)

/-- In a duplicate-free edge list an edge is naked iff it is non-degenerate and its reverse is
absent. -/
theorem isNaked_iff_of_nodup (E : List (K × K)) (hnd : E.Nodup) (e : K × K) (he : e ∈ E) :
    isNaked E e = true ↔ e.1 ≠ e.2 ∧ (e.2, e.1) ∉ E := by
  unfold isNaked
  simp only [Bool.and_eq_true, decide_eq_true_eq, beq_iff_eq]
  constructor
  · rintro ⟨h1, h2⟩
    refine ⟨h1, fun hr => ?_⟩
    rw [umult_of_nodup E hnd e h1, if_pos he, if_pos hr] at h2
    omega
  · rintro ⟨h1, h2⟩
    refine ⟨h1, ?_⟩
    rw [umult_of_nodup E hnd e h1, if_pos he, if_neg h2]

/-- **Shared edges cancel.**  `E` a duplicate-free list of directed edges, `w` antisymmetric:
the total of `w` over all edges is the total over the naked edges (the others are degenerate or
come in opposite pairs). -/
theorem sum_edges_eq_sum_naked (h2ne : (2 : R) ≠ 0) (E : List (K × K)) (hnd : E.Nodup)
    (w : K → K → R) (hw : ∀ a b, w b a = - w a b) :
    (E.map (fun e => w e.1 e.2)).sum = ((E.filter (isNaked E)).map (fun e => w e.1 e.2)).sum := by
  rw [sum_filter_split E (isNaked E)]
  have hz : ((E.filter (fun x => !isNaked E x)).map (fun e => w e.1 e.2)).sum = 0 := by
    set F := E.filter (fun x => !isNaked E x) with hF
    have hFnd : F.Nodup := hnd.filter _
    have hclosed : ∀ e ∈ F, (e.2, e.1) ∈ F := by
      intro e he
      obtain ⟨heE, hn⟩ := List.mem_filter.1 he
      have hn' : ¬ isNaked E e = true := by simpa using hn
      rw [isNaked_iff_of_nodup E hnd e heE] at hn'
      by_cases hd : e.1 = e.2
      · have : (e.2, e.1) = e := Prod.ext hd.symm hd
        rw [this]; exact he
      · have hr : (e.2, e.1) ∈ E := by
          by_contra hc; exact hn' ⟨hd, hc⟩
        refine List.mem_filter.2 ⟨hr, ?_⟩
        have : ¬ isNaked E (e.2, e.1) = true := by
          rw [isNaked_iff_of_nodup E hnd _ hr]
          intro ⟨_, h⟩; exact h heE
        simpa using this
    have hperm : (F.map (fun e : K × K => (e.2, e.1))).Perm F := by
      rw [List.perm_ext_iff_of_nodup _ hFnd]
      · intro a
        constructor
        · intro ha
          obtain ⟨e, he, rfl⟩ := List.mem_map.1 ha
          exact hclosed e he
        · intro ha
          exact List.mem_map.2 ⟨(a.2, a.1), hclosed a ha, rfl⟩
      · refine hFnd.map ?_
        intro a b h
        simp only [Prod.mk.injEq] at h
        exact Prod.ext h.2 h.1
    have h1 := (hperm.map (fun e : K × K => w e.1 e.2)).sum_eq
    rw [List.map_map] at h1
    have h2 : (F.map ((fun e : K × K => w e.1 e.2) ∘ fun e => (e.2, e.1))).sum =
        - (F.map (fun e : K × K => w e.1 e.2)).sum := by
      clear h1 hperm hclosed hFnd hF
      induction F with
      | nil => simp
      | cons e t ih =>
        simp only [List.map_cons, List.sum_cons, Function.comp, ih, hw e.1 e.2]
        ring
    rw [h2] at h1
    have : (2 : R) * (F.map (fun e : K × K => w e.1 e.2)).sum = 0 := by linear_combination -h1
    rcases mul_eq_zero.1 this with h | h
    · exact absurd h h2ne
    · exact h
  rw [hz, add_zero]

end Cancel

/-! ### 2. Orientation-preserving join -/

section Directed
variable {P : Type} (eqv : P → P → Bool)

/-- Every point starts at most one and ends at most one of the segments. -/
def Deg (D : List (Seg P)) : Prop := (D.map Prod.fst).Nodup ∧ (D.map Prod.snd).Nodup

theorem Deg.perm {D D' : List (Seg P)} (h : D.Perm D') (hd : Deg D) : Deg D' :=
  ⟨(h.map _).nodup_iff.1 hd.1, (h.map _).nodup_iff.1 hd.2⟩

theorem Deg.of_append_right {A B : List (Seg P)} (hd : Deg (A ++ B)) : Deg B := by
  obtain ⟨h1, h2⟩ := hd
  rw [List.map_append] at h1 h2
  exact ⟨(List.nodup_append.1 h1).2.1, (List.nodup_append.1 h2).2.1⟩

theorem last_mem_edges_snd {poly : List P} {last : P} (h2 : 2 ≤ poly.length)
    (hl : poly.getLast? = some last) : last ∈ (edges poly).map Prod.snd := by
  induction poly with
  | nil => simp at h2
  | cons a t ih =>
    cases t with
    | nil => simp at h2
    | cons b t' =>
      cases t' with
      | nil =>
        simp at hl; subst hl; simp [edges]
      | cons c t'' =>
        have hl' : (b :: c :: t'').getLast? = some last := by
          rw [List.getLast?_cons_cons] at hl; exact hl
        have := ih (by simp) hl'
        simp only [edges, List.map_cons, List.mem_cons] at this ⊢
        right; exact this

theorem head_mem_edges_fst {poly : List P} {first : P} (h2 : 2 ≤ poly.length)
    (hh : poly.head? = some first) : first ∈ (edges poly).map Prod.fst := by
  cases poly with
  | nil => simp at h2
  | cons a t =>
    cases t with
    | nil => simp at h2
    | cons b t' => simp at hh; subst hh; simp [edges]

/-- With exact matching and no pinch, an attachment appends or prepends the segment in ITS
orientation. -/
theorem connect_directed (hex : ∀ a b, eqv a b = true → a = b) {poly : List P} {s : Seg P}
    {segs : List (Seg P)} {poly' : List P} (h2 : 2 ≤ poly.length) (hs : s ∈ segs)
    (hdeg : Deg (edges poly ++ segs)) (h : connect eqv poly s = some poly') :
    (edges poly').Perm (s :: edges poly) ∧ poly'.length = poly.length + 1 := by
  unfold connect at h
  cases hh : poly.head? with
  | none => simp [hh] at h
  | some first =>
    cases hl : poly.getLast? with
    | none => simp [hh, hl] at h
    | some last =>
      simp only [hh, hl] at h
      obtain ⟨hd1, hd2⟩ := hdeg
      rw [List.map_append] at hd1 hd2
      split_ifs at h with h1 h2' h3 h4
      · cases h
        have : last = s.1 := hex _ _ h1
        subst this
        refine ⟨?_, by simp⟩
        rw [edges_concat hl]
        exact List.perm_append_singleton _ _
      · cases h
        have : first = s.2 := hex _ _ h2'
        subst this
        refine ⟨?_, by simp⟩
        rw [edges_cons_of_head hh]
      · exfalso
        have : last = s.2 := hex _ _ h3
        subst this
        have hdis := (List.nodup_append.1 hd2).2.2
        exact hdis _ (last_mem_edges_snd h2 hl) _ (List.mem_map.2 ⟨s, hs, rfl⟩) rfl
      · exfalso
        have : first = s.1 := hex _ _ h4
        subst this
        have hdis := (List.nodup_append.1 hd1).2.2
        exact hdis _ (head_mem_edges_fst h2 hh) _ (List.mem_map.2 ⟨s, hs, rfl⟩) rfl

theorem buildLoop_directed (hex : ∀ a b, eqv a b = true → a = b) (fuel : Nat) (poly : List P)
    (segs : List (Seg P)) (h2 : 2 ≤ poly.length) (hdeg : Deg (edges poly ++ segs)) :
    (edges (buildLoop eqv fuel poly segs).1 ++ (buildLoop eqv fuel poly segs).2).Perm
      (edges poly ++ segs) := by
  induction fuel generalizing poly segs with
  | zero => exact List.Perm.refl _
  | succ f ih =>
    unfold buildLoop
    cases ht : tryConnect eqv poly segs with
    | none => exact List.Perm.refl _
    | some pr =>
      obtain ⟨p1, s1⟩ := pr
      simp only []
      obtain ⟨s, hc, hmem, hms, _, _⟩ := tryConnect_some eqv ht
      obtain ⟨hp, hlen⟩ := connect_directed eqv hex h2 hmem hdeg hc
      have hsegs : segs.Perm (s :: s1) := Multiset.coe_eq_coe.1 (by rw [hms]; rfl)
      have hpool : (edges p1 ++ s1).Perm (edges poly ++ segs) := by
        refine (hp.append_right s1).trans ?_
        simp only [List.cons_append]
        refine List.perm_middle.symm.trans ?_
        exact List.Perm.append_left _ hsegs.symm
      exact (ih p1 s1 (by omega) (Deg.perm hpool.symm hdeg)).trans hpool

theorem groupLoop_directed (hex : ∀ a b, eqv a b = true → a = b) (fuel : Nat) (base : Seg P)
    (remain : List (Seg P)) (acc : List (List P)) (hne : remain ≠ [])
    (hf : remain.length ≤ fuel) (hdeg : Deg (base :: remain)) :
    ∃ news : List (List P), groupLoop eqv fuel base remain acc = acc ++ news ∧
      (news.flatMap edges).Perm (base :: remain) := by
  induction fuel generalizing base remain acc with
  | zero =>
    have : remain = [] := List.length_eq_zero_iff.1 (by omega)
    exact absurd this hne
  | succ f ih =>
    have hpos : remain.length > 0 := List.length_pos_iff.2 hne
    have hb := buildLoop_directed eqv hex remain.length [base.1, base.2] remain (by simp)
      (by simpa [edges_pair] using hdeg)
    have j3 := (buildPolyline_spec eqv base remain).2.1
    unfold groupLoop
    simp only [hpos, if_true]
    have hbp : buildPolyline eqv base remain =
      buildLoop eqv remain.length [base.1, base.2] remain := rfl
    rw [← hbp] at hb
    generalize hr : buildPolyline eqv base remain = r at *
    obtain ⟨c1, rest⟩ := r
    simp only [edges_pair] at hb j3 ⊢
    have hb' : (edges c1 ++ rest).Perm (base :: remain) := hb
    match rest, hb', j3 with
    | [], hb', _ =>
      exact ⟨[c1], rfl, by simpa using hb'⟩
    | [s], hb', _ =>
      refine ⟨[c1, [s.1, s.2]], by simp, ?_⟩
      simpa [edges_pair] using hb'
    | s :: s' :: rest', hb', j3 =>
      have hlen : (s' :: rest').length ≤ f := by
        have := j3.length_le; simp at this ⊢; omega
      have hdeg' : Deg (s :: s' :: rest') := (Deg.perm hb'.symm hdeg).of_append_right
      obtain ⟨news, k1, k2⟩ := ih s (s' :: rest') (acc ++ [c1]) (by simp) hlen hdeg'
      refine ⟨c1 :: news, ?_, ?_⟩
      · show groupLoop eqv f s (s' :: rest') (acc ++ [c1]) = _
        rw [k1]; simp
      · simp only [List.flatMap_cons]
        exact (List.Perm.append_left _ k2).trans hb'

/-- **`join_segments` keeps orientations when there is no pinch.**  If `is_equivalent` is exact
and every point starts at most one and ends at most one input segment, the directed edges of the
returned chains are a permutation of the input segments (no segment is traversed backwards). -/
theorem joinSegments_directed (hex : ∀ a b, eqv a b = true → a = b) (D : List (Seg P))
    (hdeg : Deg D) : ((joinSegments eqv D).flatMap edges).Perm D := by
  match D, hdeg with
  | [], _ => exact List.Perm.refl _
  | [s], _ => show ([[s.1, s.2]].flatMap edges).Perm [s]; simp [edges_pair]
  | base :: s :: rest, hdeg =>
    obtain ⟨news, h1, h2⟩ := groupLoop_directed eqv hex ((s :: rest).length + 1) base (s :: rest) []
      (by simp) (by omega) hdeg
    show ((groupLoop eqv ((s :: rest).length + 1) base (s :: rest) []).flatMap edges).Perm _
    rw [h1, List.nil_append]
    exact h2

end Directed

/-! ### 3. Chains and shoelace sums -/

section Chains
variable {α : Type} [Field α]

theorem chainSum_eq_sum_edges (c : List (V2 α)) :
    chainSum c = ((edges c).map (fun e => V2.det e.1 e.2)).sum := by
  induction c with
  | nil => rfl
  | cons a t ih =>
    cases t with
    | nil => rfl
    | cons b t' =>
      simp only [chainSum, edges, List.map_cons, List.sum_cons]
      rw [ih]

theorem shoelace_eq_sum_cyclicPairs (vs : List (V2 α)) :
    shoelace vs = ((cyclicPairs vs).map (fun e => V2.det e.1 e.2)).sum := by
  rw [shoelace_eq_cycSum]; rfl

/-- A closed chain `l ++ [a]` whose first vertex is `a`: the polygon obtained by dropping the
repeated last vertex has shoelace sum = the open-chain sum. -/
theorem shoelace_of_closed_chain (a : V2 α) (t : List (V2 α)) :
    shoelace (a :: t) = chainSum (a :: t ++ [a]) := by
  rw [shoelace_eq_cycSum, cycSum_cons, chainSum_eq_chainS]
  exact (chainS_cons_append_single V2.det a a t).symm

end Chains

end Lbg.Lemmas.JoinOutline
