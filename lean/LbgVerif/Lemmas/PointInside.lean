/-
  Lemmas.PointInside — facts about the literal model of `Polygon2D.is_point_inside`
  (`Model/PointInside.lean`): the loop is a parity of a count over the cyclic vertex pairs, and
  the per-edge test (generated kernel `does_intersection_exist_line2d_sr` applied to
  `from_end_points(a, b)` and the test ray) has a closed form whose symmetries are proved here.
-/
import LbgVerif.Model.PointInside
import LbgVerif.Lemmas.Isect2
import LbgVerif.Lemmas.CyclicCount
import Mathlib.Tactic.Ring
import Mathlib.Tactic.FieldSimp
import Mathlib.Tactic.Linarith
import Mathlib.Tactic.Positivity

set_option linter.unusedSectionVars false

namespace Lbg.Lemmas.PointInside
open Lbg Lbg.Gen Lbg.Lemmas Lbg.Model.PointInside
variable {α : Type} [Field α] [LinearOrder α] [IsStrictOrderedRing α]

/-- The per-edge test of `is_point_inside`: does the edge `a → b` meet the ray `(p, d)`? -/
def hit (p d : V2 α) (q : V2 α × V2 α) : Bool :=
  does_intersection_exist_line2d_sr (seg2_from_end_points q.1 q.2) ⟨p, d⟩

/-- Determinant of the edge direction against the ray direction (the code's `d`). -/
def hitD (a b d : V2 α) : α := d.y * (b.x - a.x) - d.x * (b.y - a.y)
/-- Numerator of the edge parameter `ua`. -/
def hitNa (a p d : V2 α) : α := d.x * (a.y - p.y) - d.y * (a.x - p.x)
/-- Numerator of the ray parameter `ub`. -/
def hitNb (a b p : V2 α) : α := (b.x - a.x) * (a.y - p.y) - (b.y - a.y) * (a.x - p.x)

/-- Closed form of the per-edge test: the determinant is non-zero, the edge parameter lies in
`[0, 1]` (both ends CLOSED) and the ray parameter is `≥ 0`. -/
theorem hit_iff (p d a b : V2 α) :
    hit p d (a, b) = true ↔
      hitD a b d ≠ 0 ∧ 0 ≤ hitNa a p d / hitD a b d ∧ hitNa a p d / hitD a b d ≤ 1 ∧
        0 ≤ hitNb a b p / hitD a b d := by
  unfold hit
  rw [does_intersection_exist_line2d_sr_eq, isect2_isSome_iff]
  simp only [det2, ua, ub, Rng.ok, seg2_from_end_points, hitD, hitNa, hitNb, and_assoc]

theorem hitD_swap (a b d : V2 α) : hitD b a d = - hitD a b d := by
  simp only [hitD]; ring
theorem hitNa_swap (a b p d : V2 α) : hitNa b p d = hitNa a p d - hitD a b d := by
  simp only [hitNa, hitD]; ring
theorem hitNb_swap (a b p : V2 α) : hitNb b a p = - hitNb a b p := by
  simp only [hitNb]; ring

/-- Reversing an edge does not change the test (the edge range `[0,1]` is closed at both
ends, `t ↦ 1 − t`). -/
theorem hit_swap (p d a b : V2 α) : hit p d (b, a) = hit p d (a, b) := by
  rw [Bool.eq_iff_iff, hit_iff, hit_iff, hitD_swap, hitNa_swap a b, hitNb_swap]
  by_cases hD : hitD a b d = 0
  · simp [hD]
  · have e1 : (hitNa a p d - hitD a b d) / (- hitD a b d) = 1 - hitNa a p d / hitD a b d := by
      field_simp; ring
    have e2 : - hitNb a b p / (- hitD a b d) = hitNb a b p / hitD a b d := by
      rw [neg_div_neg_eq]
    rw [e1, e2, neg_ne_zero]
    constructor
    · rintro ⟨h0, h1, h2, h3⟩; exact ⟨h0, by linarith, by linarith, h3⟩
    · rintro ⟨h0, h1, h2, h3⟩; exact ⟨h0, by linarith, by linarith, h3⟩

/-- Translating edge and ray origin together does not change the test. -/
theorem hit_translate (p d a b t : V2 α) :
    hit (p2_move p t) d (p2_move a t, p2_move b t) = hit p d (a, b) := by
  rw [Bool.eq_iff_iff, hit_iff, hit_iff]
  have e1 : hitD (p2_move a t) (p2_move b t) d = hitD a b d := by
    simp only [hitD, p2_move]; ring
  have e2 : hitNa (p2_move a t) (p2_move p t) d = hitNa a p d := by
    simp only [hitNa, p2_move]; ring
  have e3 : hitNb (p2_move a t) (p2_move b t) (p2_move p t) = hitNb a b p := by
    simp only [hitNb, p2_move]; ring
  rw [e1, e2, e3]

/-- A linear map `v ↦ (m11 v.x + m12 v.y, m21 v.x + m22 v.y)`. -/
def lin (m11 m12 m21 m22 : α) (v : V2 α) : V2 α :=
  ⟨m11 * v.x + m12 * v.y, m21 * v.x + m22 * v.y⟩

/-- An invertible linear map applied to edge, ray origin and ray direction does not change
the test (all three determinants scale by `det M`). -/
theorem hit_linear (m11 m12 m21 m22 : α) (hM : m11 * m22 - m12 * m21 ≠ 0) (p d a b : V2 α) :
    hit (lin m11 m12 m21 m22 p) (lin m11 m12 m21 m22 d)
      (lin m11 m12 m21 m22 a, lin m11 m12 m21 m22 b) = hit p d (a, b) := by
  rw [Bool.eq_iff_iff, hit_iff, hit_iff]
  have e1 : hitD (lin m11 m12 m21 m22 a) (lin m11 m12 m21 m22 b) (lin m11 m12 m21 m22 d) =
      (m11 * m22 - m12 * m21) * hitD a b d := by
    simp only [hitD, lin]; ring
  have e2 : hitNa (lin m11 m12 m21 m22 a) (lin m11 m12 m21 m22 p) (lin m11 m12 m21 m22 d) =
      (m11 * m22 - m12 * m21) * hitNa a p d := by
    simp only [hitNa, lin]; ring
  have e3 : hitNb (lin m11 m12 m21 m22 a) (lin m11 m12 m21 m22 b) (lin m11 m12 m21 m22 p) =
      (m11 * m22 - m12 * m21) * hitNb a b p := by
    simp only [hitNb, lin]; ring
  rw [e1, e2, e3, mul_div_mul_left _ _ hM, mul_div_mul_left _ _ hM, mul_ne_zero_iff]
  simp [hM]

/-! ### The loop is a parity of a count -/

theorem foldl_count {β : Type} (f : β → Bool) (l : List β) (k : Nat) :
    l.foldl (fun n s => if f s then n + 1 else n) k = k + l.countP f := by
  induction l generalizing k with
  | nil => simp
  | cons a t ih =>
    rw [List.foldl_cons, ih]
    by_cases h : f a
    · simp only [h, if_true, List.countP_cons_of_pos]; omega
    · rw [List.countP_cons_of_neg h]
      simp [h]

theorem countP_popFirstToEnd {β : Type} (f : β → Bool) (l : List β) :
    (popFirstToEnd l).countP f = l.countP f := by
  cases l with
  | nil => rfl
  | cons a t =>
    simp only [popFirstToEnd, List.countP_append, List.countP_cons, List.countP_nil]
    omega

/-- Number of edges hit by the ray: a count over the cyclic vertex pairs. -/
def hits (vs : List (V2 α)) (p d : V2 α) : Nat := (cyclicPairs vs).countP (hit p d)

/-- `is_point_inside` = "the number of cyclic vertex pairs whose edge meets the ray is odd". -/
theorem isPointInside_eq (vs : List (V2 α)) (p d : V2 α) :
    isPointInside vs p d = decide (hits vs p d % 2 = 1) := by
  unfold isPointInside hits segments
  simp only []
  rw [foldl_count, countP_popFirstToEnd, List.countP_map, Nat.zero_add]
  have : ((fun s => does_intersection_exist_line2d_sr s (⟨p, d⟩ : LR2 α)) ∘
      fun q : V2 α × V2 α => seg2_from_end_points q.1 q.2) = hit p d := rfl
  rw [this]
  by_cases h : (cyclicPairs vs).countP (hit p d) % 2 = 0
  · simp [h]
  · have : (cyclicPairs vs).countP (hit p d) % 2 = 1 := by omega
    simp [this]

/-! ### Only the direction of the test vector matters -/

/-- Scaling the test vector by a positive factor does not change the per-edge test. -/
theorem hit_scale_dir (k : α) (hk : 0 < k) (p d a b : V2 α) :
    hit p ⟨k * d.x, k * d.y⟩ (a, b) = hit p d (a, b) := by
  rw [Bool.eq_iff_iff, hit_iff, hit_iff]
  have e1 : hitD a b ⟨k * d.x, k * d.y⟩ = k * hitD a b d := by simp only [hitD]; ring
  have e2 : hitNa a p ⟨k * d.x, k * d.y⟩ = k * hitNa a p d := by simp only [hitNa]; ring
  rw [e1, e2, mul_div_mul_left _ _ hk.ne', mul_ne_zero_iff]
  have e3 : 0 ≤ hitNb a b p / (k * hitD a b d) ↔ 0 ≤ hitNb a b p / hitD a b d := by
    have : hitNb a b p / (k * hitD a b d) = (hitNb a b p / hitD a b d) / k := by
      rw [div_div, mul_comm]
    rw [this]
    constructor
    · intro h
      by_contra hn
      have := div_neg_of_neg_of_pos (not_le.mp hn) hk
      linarith
    · intro h; exact div_nonneg h hk.le
  rw [e3]
  constructor
  · rintro ⟨⟨_, h0⟩, h1, h2, h3⟩
    exact ⟨h0, h1, h2, h3⟩
  · rintro ⟨h0, h1, h2, h3⟩
    exact ⟨⟨hk.ne', h0⟩, h1, h2, h3⟩

/-! ### Horizontal test ray -/

/-- The orientation determinant `det (b − a, p − a)` (positive iff `p` is to the left of
`a → b`); `Spec.Contain.orient a b p` at ℚ. -/
def orientG (a b p : V2 α) : α := (b.x - a.x) * (p.y - a.y) - (b.y - a.y) * (p.x - a.x)

/-- With the horizontal test vector `(1, 0)` the edge `a → b` is counted exactly when it is
not horizontal, `p.y` lies in the CLOSED range of the edge's `y` values, and the crossing is at
or to the right of `p`.  (Both end points count: a vertex on the ray is counted by both of its
edges — the fringe case the docstring warns about.) -/
theorem hit_horizontal_iff (p a b : V2 α) :
    hit p ⟨1, 0⟩ (a, b) = true ↔
      (a.y < b.y ∧ a.y ≤ p.y ∧ p.y ≤ b.y ∧ 0 ≤ orientG a b p) ∨
      (b.y < a.y ∧ b.y ≤ p.y ∧ p.y ≤ a.y ∧ orientG a b p ≤ 0) := by
  rw [hit_iff]
  have hD : hitD a b ⟨1, 0⟩ = -(b.y - a.y) := by simp only [hitD]; ring
  have hNa : hitNa a p ⟨1, 0⟩ = a.y - p.y := by simp only [hitNa]; ring
  have hNb : hitNb a b p = - orientG a b p := by simp only [hitNb, orientG]; ring
  rw [hD, hNa, hNb]
  rcases lt_trichotomy a.y b.y with h | h | h
  · have hneg : -(b.y - a.y) < 0 := by linarith
    rw [le_div_iff_of_neg hneg, div_le_iff_of_neg hneg, le_div_iff_of_neg hneg]
    constructor
    · rintro ⟨_, h1, h2, h3⟩
      exact Or.inl ⟨h, by linarith, by linarith, by linarith⟩
    · rintro (⟨_, h1, h2, h3⟩ | ⟨h1, _⟩)
      · exact ⟨hneg.ne, by linarith, by linarith, by linarith⟩
      · exact absurd h1 (not_lt.mpr h.le)
  · constructor
    · rintro ⟨h0, _⟩
      exact absurd (by rw [h]; ring) h0
    · rintro (⟨h1, _⟩ | ⟨h1, _⟩)
      · exact absurd h1 (by rw [h]; exact lt_irrefl _)
      · exact absurd h1 (by rw [h]; exact lt_irrefl _)
  · have hpos : 0 < -(b.y - a.y) := by linarith
    rw [le_div_iff₀ hpos, div_le_iff₀ hpos, le_div_iff₀ hpos]
    constructor
    · rintro ⟨_, h1, h2, h3⟩
      exact Or.inr ⟨h, by linarith, by linarith, by linarith⟩
    · rintro (⟨h1, _⟩ | ⟨_, h1, h2, h3⟩)
      · exact absurd h1 (not_lt.mpr h.le)
      · exact ⟨hpos.ne', by linarith, by linarith, by linarith⟩

/-- The same for any positive multiple `(c, 0)` of the X unit vector. -/
theorem hit_horizontal_iff' (c : α) (hc : 0 < c) (p a b : V2 α) :
    hit p ⟨c, 0⟩ (a, b) = true ↔
      (a.y < b.y ∧ a.y ≤ p.y ∧ p.y ≤ b.y ∧ 0 ≤ orientG a b p) ∨
      (b.y < a.y ∧ b.y ≤ p.y ∧ p.y ≤ a.y ∧ orientG a b p ≤ 0) := by
  have := hit_scale_dir c hc p ⟨1, 0⟩ a b
  simp only [mul_one, mul_zero] at this
  rw [this, hit_horizontal_iff]

/-! ### Convex combinations stay inside the bounding rectangle -/

/-- Weighted sum `Σ wᵢ xᵢ`. -/
def wsum (ws xs : List α) : α := (List.zipWith (· * ·) ws xs).sum

theorem wsum_le (hi : α) : ∀ (ws xs : List α), ws.length = xs.length → (∀ w ∈ ws, 0 ≤ w) →
    (∀ x ∈ xs, x ≤ hi) → wsum ws xs ≤ hi * ws.sum
  | [], [], _, _, _ => by simp [wsum]
  | [], _ :: _, h, _, _ => by simp at h
  | _ :: _, [], h, _, _ => by simp at h
  | w :: ws, x :: xs, h, hw, hx => by
    have ih := wsum_le hi ws xs (by simpa using h) (fun w' hw' => hw w' (List.mem_cons_of_mem _ hw'))
      (fun x' hx' => hx x' (List.mem_cons_of_mem _ hx'))
    have h1 : w * x ≤ w * hi :=
      mul_le_mul_of_nonneg_left (hx x (by simp)) (hw w (by simp))
    simp only [wsum, List.zipWith_cons_cons, List.sum_cons] at ih ⊢
    linarith [mul_comm w hi, mul_add hi w ws.sum]

theorem le_wsum (lo : α) : ∀ (ws xs : List α), ws.length = xs.length → (∀ w ∈ ws, 0 ≤ w) →
    (∀ x ∈ xs, lo ≤ x) → lo * ws.sum ≤ wsum ws xs
  | [], [], _, _, _ => by simp [wsum]
  | [], _ :: _, h, _, _ => by simp at h
  | _ :: _, [], h, _, _ => by simp at h
  | w :: ws, x :: xs, h, hw, hx => by
    have ih := le_wsum lo ws xs (by simpa using h) (fun w' hw' => hw w' (List.mem_cons_of_mem _ hw'))
      (fun x' hx' => hx x' (List.mem_cons_of_mem _ hx'))
    have h1 : w * lo ≤ w * x :=
      mul_le_mul_of_nonneg_left (hx x (by simp)) (hw w (by simp))
    simp only [wsum, List.zipWith_cons_cons, List.sum_cons] at ih ⊢
    linarith [mul_comm w lo, mul_add lo w ws.sum]

/-- `Σ λᵢ = 1, λᵢ ≥ 0, lo ≤ xᵢ ≤ hi ⇒ lo ≤ Σ λᵢ xᵢ ≤ hi`. -/
theorem convex_comb_bounds (ws xs : List α) (lo hi : α) (hlen : ws.length = xs.length)
    (hw : ∀ w ∈ ws, 0 ≤ w) (hsum : ws.sum = 1) (hx : ∀ x ∈ xs, lo ≤ x ∧ x ≤ hi) :
    lo ≤ wsum ws xs ∧ wsum ws xs ≤ hi := by
  have h1 := le_wsum lo ws xs hlen hw (fun x h => (hx x h).1)
  have h2 := wsum_le hi ws xs hlen hw (fun x h => (hx x h).2)
  rw [hsum, mul_one] at h1 h2
  exact ⟨h1, h2⟩

end Lbg.Lemmas.PointInside
