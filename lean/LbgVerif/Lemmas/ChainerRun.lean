/-
  Helper lemmas for the `_segmentChainer` theorems (Props/C04b), part 5: the invariant of the
  whole ghost state is kept by every iteration, hence holds at the end of the run.
-/
import LbgVerif.Lemmas.ChainerStep

namespace Lbg.Lemmas.Chainer
open Lbg Lbg.Model.Chainer

variable {α : Type}
variable {eqv : V2 α → V2 α → Bool} {col : V2 α → V2 α → V2 α → Bool} {z : V2 α}
variable {P : V2 α → Prop}

/-- Invariant of the ghost state after some segments with edge multiset `E` were consumed. -/
def GInv (col : V2 α → V2 α → V2 α → Bool) (z : V2 α) (P : V2 α → Prop) (g : GState α)
    (E : Multiset (Sym2 (V2 α))) : Prop :=
  ∃ C, LInv col z P g.chains C ∧ C + regionEdges g.regions = E ∧
    ∀ cf ∈ g.regions, LoopReduces col cf.2 cf.1 ∧ 2 ≤ cf.2.length ∧ ∀ p ∈ cf.2, P p

theorem regionEdges_append (R : List (GChain α)) (cf : GChain α) :
    regionEdges (R ++ [cf]) = regionEdges R + loopEdges cf.2 := by
  unfold regionEdges; simp

/-- The edge a segment contributes (nothing if it is shorter than the tolerance). -/
def segEdge (eqv : V2 α → V2 α → Bool) (seg : V2 α × V2 α) : Multiset (Sym2 (V2 α)) :=
  if eqv seg.1 seg.2 then 0 else {s(seg.1, seg.2)}

theorem gstep_inv (hex : Exact eqv P) (g : GState α) (E : Multiset (Sym2 (V2 α)))
    (h : GInv col z P g E) (seg : V2 α × V2 α) (h1 : P seg.1) (h2 : P seg.2) :
    GInv col z P (gstep eqv col z g seg) (segEdge eqv seg + E) := by
  obtain ⟨C, hl, hE, hR⟩ := h
  unfold gstep segEdge
  by_cases heq : eqv seg.1 seg.2 = true
  · simp only [heq, ↓reduceIte, zero_add]
    exact ⟨C, hl, hE, hR⟩
  simp only [heq, ↓reduceIte, Bool.false_eq_true]
  have hne : seg.1 ≠ seg.2 := fun e => heq ((hex _ _ h1 h2).mpr e)
  have hlen : (g.chains.map Prod.fst).length = g.chains.length := by simp
  have hget : ∀ j (hj : j < g.chains.length),
      (g.chains.map Prod.fst).getD j [] = g.chains[j].1 := by
    intro j hj
    rw [getD_map_fst, getD_of_lt _ _ _ hj]
  cases hm : findMatches eqv z (g.chains.map Prod.fst) seg.1 seg.2 with
  | nil =>
    -- no chain matches: a new chain
    simp only []
    refine ⟨s(seg.1, seg.2) ::ₘ C, hl.gnew seg.1 seg.2 hne h1 h2 ?_, ?_, hR⟩
    · intro cf hcf
      obtain ⟨j, hj, rfl⟩ := List.getElem_of_mem hcf
      have := findMatches_nil eqv z hm j (by rw [hlen]; exact hj)
      rw [hget j hj] at this
      exact matchChain_none eqv hex (hl.ok _ hcf) h1 h2 this
    · rw [← hE, Multiset.singleton_add, Multiset.cons_add]
  | cons m1 rest =>
    cases rest with
    | nil =>
      -- exactly one chain matches: grow it or close it
      simp only []
      obtain ⟨hidx, hmatch, hothers⟩ := findMatches_single eqv z hm
      rw [hlen] at hidx
      rw [hget _ hidx] at hmatch
      have oki := hl.ok _ (List.getElem_mem hidx)
      have hme := matchChain_some eqv hex oki h1 h2 hmatch
      have hun : ∀ cf ∈ g.chains.eraseIdx m1.index, ∀ e ∈ ends z cf,
          e ≠ seg.1 ∧ e ≠ seg.2 := by
        intro cf hcf
        rw [List.mem_eraseIdx_iff_getElem] at hcf
        obtain ⟨j, hj, hjne, rfl⟩ := hcf
        have := hothers j (by rw [hlen]; exact hj) hjne
        rw [hget j hj] at this
        exact matchChain_none eqv hex (hl.ok _ (List.getElem_mem hj)) h1 h2 this
      have hPpt : P (if m1.matchesPt1 = true then seg.2 else seg.1) := by
        split_ifs <;> assumption
      unfold ggrowChain
      simp only [getD_of_lt _ _ _ hidx]
      -- the other end of the chain
      have hoppo : (if m1.matchesHead = true then nthBack g.chains[m1.index].1 0 z
          else nth g.chains[m1.index].1 0 z) =
          (if m1.matchesHead = true then tl z g.chains[m1.index] else hd z g.chains[m1.index]) := by
        rw [nthBack_zero, nth_zero, oki.last_eq, oki.head_eq]
      have hPoppo : P (if m1.matchesHead = true then tl z g.chains[m1.index]
          else hd z g.chains[m1.index]) := by
        split_ifs
        · exact oki.P_tl
        · exact oki.P_hd
      by_cases hclose : eqv (if m1.matchesHead = true then nthBack g.chains[m1.index].1 0 z
          else nth g.chains[m1.index].1 0 z)
          (if m1.matchesPt1 = true then seg.2 else seg.1) = true
      · -- the chain closes
        simp only [hclose, ↓reduceIte]
        have hpt : (if m1.matchesPt1 = true then seg.2 else seg.1) =
            (if m1.matchesHead = true then nthBack g.chains[m1.index].1 0 z
              else nth g.chains[m1.index].1 0 z) := by
          rw [hoppo] at hclose ⊢
          exact ((hex _ _ hPoppo hPpt).mp hclose).symm
        obtain ⟨C', hl', hC'⟩ := hl.gerase m1.index hidx
        refine ⟨C', hl', ?_, ?_⟩
        · rw [regionEdges_append, ← hE, ← hC']
          have hloop : loopEdges g.chains[m1.index].2 =
              s(tl z g.chains[m1.index], hd z g.chains[m1.index]) ::ₘ
                pathEdges g.chains[m1.index].2 :=
            loopEdges_eq _ _ _ oki.head?_eq oki.getLast?_eq
          have hedge : s(tl z g.chains[m1.index], hd z g.chains[m1.index]) = s(seg.1, seg.2) := by
            rw [hoppo] at hpt
            cases hH : m1.matchesHead <;> cases hP1 : m1.matchesPt1 <;>
              simp only [hH, hP1, ↓reduceIte, Bool.false_eq_true] at hme hpt <;>
              rw [hme, ← hpt]
            · exact Sym2.eq_swap
            · exact Sym2.eq_swap
          rw [hloop, hedge]
          simp only [← Multiset.singleton_add]
          abel
        · intro cf hcf
          rcases List.mem_append.mp hcf with hm' | hm'
          · exact hR cf hm'
          · simp only [List.mem_singleton] at hm'
            subst hm'
            refine ⟨?_, oki.len2, oki.2.2⟩
            simp only [hpt]
            cases hH : m1.matchesHead
            · simp only [Bool.false_eq_true, ↓reduceIte]
              exact close_tail_reduces oki.1 oki.2.1
            · simp only [↓reduceIte]
              exact close_head_reduces oki.1 oki.2.1
      · -- the chain grows by one point
        simp only [hclose, ↓reduceIte, Bool.false_eq_true]
        have hop : (if m1.matchesHead = true then tl z g.chains[m1.index]
            else hd z g.chains[m1.index]) ≠ (if m1.matchesPt1 = true then seg.2 else seg.1) := by
          intro e
          apply hclose
          rw [hoppo]
          exact (hex _ _ hPoppo hPpt).mpr e
        have hun' : ∀ cf ∈ g.chains.eraseIdx m1.index, ∀ e ∈ ends z cf,
            e ≠ (if m1.matchesPt1 = true then seg.2 else seg.1) := by
          intro cf hcf e he
          have := hun cf hcf e he
          split_ifs
          · exact this.2
          · exact this.1
        have hedge : s((if m1.matchesPt1 = true then seg.2 else seg.1),
            (if m1.matchesHead = true then hd z g.chains[m1.index] else tl z g.chains[m1.index]))
            = s(seg.1, seg.2) := by
          rw [hme]
          cases m1.matchesPt1
          · simp
          · simp only [↓reduceIte]; exact Sym2.eq_swap
        cases hH : m1.matchesHead
        · simp only [hH, Bool.false_eq_true, ↓reduceIte] at hop hedge ⊢
          obtain ⟨hred, hlen2⟩ := extend_tail_reduces (z := z) oki.1 oki.2.1
            (if m1.matchesPt1 = true then seg.2 else seg.1)
          have := hl.gextend m1.index hidx false _ hPpt hun' (by simpa using hop) _
            (by simpa using hred) hlen2
          simp only [Bool.false_eq_true, ↓reduceIte] at this
          rw [hedge] at this
          exact ⟨_, this, by rw [← hE, Multiset.singleton_add, Multiset.cons_add], hR⟩
        · simp only [hH, ↓reduceIte] at hop hedge ⊢
          obtain ⟨hred, hlen2⟩ := extend_head_reduces (z := z) oki.1 oki.2.1
            (if m1.matchesPt1 = true then seg.2 else seg.1)
          have := hl.gextend m1.index hidx true _ hPpt hun' (by simpa using hop) _
            (by simpa using hred) hlen2
          simp only [↓reduceIte] at this
          rw [hedge] at this
          exact ⟨_, this, by rw [← hE, Multiset.singleton_add, Multiset.cons_add], hR⟩
    | cons m2 rest =>
      -- two chains match: join them
      simp only []
      obtain ⟨hlt, hs, hmatch1, hmatch2⟩ := findMatches_pair eqv z hm
      rw [hlen] at hs
      have hf : m1.index < g.chains.length := lt_trans hlt hs
      have hfs : m1.index ≠ m2.index := Nat.ne_of_lt hlt
      rw [hget _ hf] at hmatch1
      rw [hget _ hs] at hmatch2
      have ok1 := hl.ok _ (List.getElem_mem hf)
      have ok2 := hl.ok _ (List.getElem_mem hs)
      have hme1 := matchChain_some eqv hex ok1 h1 h2 hmatch1
      have hme2 := matchChain_some eqv hex ok2 h1 h2 hmatch2
      have hpne : m1.matchesPt1 ≠ m2.matchesPt1 := by
        intro e
        rw [← e] at hme2
        apply hl.ends_disjoint m1.index m2.index hf hs hfs
            (if m1.matchesPt1 = true then seg.1 else seg.2)
        · rw [← hme1]; unfold ends; split_ifs <;> simp
        · rw [← hme2]; unfold ends; split_ifs <;> simp
      unfold gjoinChains
      refine ⟨s(seg.1, seg.2) ::ₘ C, ?_,
        by rw [← hE, Multiset.singleton_add, Multiset.cons_add], hR⟩
      simp only [getD_of_lt _ _ _ hf, getD_of_lt _ _ _ hs]
      cases hH1 : m1.matchesHead <;> cases hH2 : m2.matchesHead <;>
        simp only [hH1, hH2, Bool.false_eq_true, ↓reduceIte] at hme1 hme2 ⊢
      · -- tail, tail
        split_ifs
        · have := hl.gappend_rev2 m2.index m1.index hs hf (Ne.symm hfs)
          rw [(join_edge hme1 hme2 hpne).2] at this; exact this
        · have := hl.gappend_rev2 m1.index m2.index hf hs hfs
          rw [(join_edge hme1 hme2 hpne).1] at this; exact this
      · -- tail, head
        have := hl.gappend m1.index m2.index hf hs hfs
        rw [(join_edge hme1 hme2 hpne).1] at this; exact this
      · -- head, tail
        have := hl.gappend m2.index m1.index hs hf (Ne.symm hfs)
        rw [(join_edge hme1 hme2 hpne).2] at this; exact this
      · -- head, head
        split_ifs
        · have := hl.gappend_rev1 m1.index m2.index hf hs hfs
          rw [(join_edge hme1 hme2 hpne).1] at this; exact this
        · have := hl.gappend_rev1 m2.index m1.index hs hf (Ne.symm hfs)
          rw [(join_edge hme1 hme2 hpne).2] at this; exact this

/-- Edge multiset of a list of segments (segments shorter than the tolerance are skipped by
the code and by this count). -/
def segEdges (eqv : V2 α → V2 α → Bool) (segs : List (V2 α × V2 α)) :
    Multiset (Sym2 (V2 α)) :=
  (segs.map (segEdge eqv)).sum

theorem GInv.init : GInv col z P (⟨[], []⟩ : GState α) 0 := by
  refine ⟨0, ⟨by simp, by simp, rfl⟩, rfl, by simp⟩

theorem grun_inv (hex : Exact eqv P) (segs : List (V2 α × V2 α))
    (hP : ∀ seg ∈ segs, P seg.1 ∧ P seg.2) :
    GInv col z P (grun eqv col z segs) (segEdges eqv segs) := by
  unfold grun
  have : ∀ (rest : List (V2 α × V2 α)) (g : GState α) (E : Multiset (Sym2 (V2 α))),
      GInv col z P g E → (∀ seg ∈ rest, P seg.1 ∧ P seg.2) →
      GInv col z P (rest.foldl (gstep eqv col z) g) (E + segEdges eqv rest) := by
    intro rest
    induction rest with
    | nil => intro g E h _; simpa [segEdges] using h
    | cons seg rest ih =>
      intro g E h hp
      simp only [List.foldl_cons]
      have h' := gstep_inv hex g E h seg (hp seg (by simp)).1 (hp seg (by simp)).2
      have := ih _ _ h' (fun s hs => hp s (by simp [hs]))
      have e : segEdge eqv seg + E + segEdges eqv rest = E + segEdges eqv (seg :: rest) := by
        unfold segEdges; simp only [List.map_cons, List.sum_cons]; abel
      rw [e] at this; exact this
  have := this segs _ 0 GInv.init hP
  simpa using this

end Lbg.Lemmas.Chainer
