/-
  Lemmas.Tiling — the combinatorial core of the triangulation certificate (C05):
  for an antisymmetric edge functional `f` (`f j i = − f i j`), the sum over the triangles of
  `f i j + f j k + f k i` equals the sum of `f` over the directed triangle edges, and edges
  that occur together with their reverse cancel.  Independent of the generated kernels; the
  index type `ι` is arbitrary and there is no bound on the number of triangles.
-/
import LbgVerif.Lemmas.Cyclic
import Mathlib.Algebra.BigOperators.Group.List.Basic
import Mathlib.Data.List.Perm.Basic
import Mathlib.Data.List.Nodup
import Mathlib.Data.List.GetD
import Mathlib.Tactic.Ring
import Mathlib.Tactic.Abel
import Mathlib.Tactic.Linarith
import Mathlib.Tactic.LinearCombination

namespace Lbg.Lemmas
open Lbg

section defs
variable {ι R : Type}

/-- The three directed edges `i→j, j→k, k→i` of the index triangle `(i, j, k)`. -/
def triEdges (t : ι × ι × ι) : List (ι × ι) := [(t.1, t.2.1), (t.2.1, t.2.2), (t.2.2, t.1)]

/-- All directed edges of a list of index triangles (with multiplicity). -/
def dirEdges (T : List (ι × ι × ι)) : List (ι × ι) := T.flatMap triEdges

/-- The directed edges of closed index loops, each loop in its own direction
(`(l[i-1], l[i])`, wrapping around). -/
def loopEdges (loops : List (List ι)) : List (ι × ι) := loops.flatMap cyclicPairs

/-- Sum of an edge functional over a list of directed edges. -/
def edgeSum [AddCommMonoid R] (f : ι → ι → R) (E : List (ι × ι)) : R :=
  (E.map (fun e => f e.1 e.2)).sum

/-- Sum over triangles of the edge functional around each triangle. -/
def triSum [AddCommMonoid R] (f : ι → ι → R) (T : List (ι × ι × ι)) : R :=
  (T.map (fun t => f t.1 t.2.1 + f t.2.1 t.2.2 + f t.2.2 t.1)).sum

end defs

section monoid
variable {ι R : Type} [AddCommMonoid R]

/-- Empty edge list. -/
@[simp] theorem edgeSum_nil (f : ι → ι → R) : edgeSum f [] = 0 := rfl

/-- One more edge. -/
theorem edgeSum_cons (f : ι → ι → R) (e : ι × ι) (E : List (ι × ι)) :
    edgeSum f (e :: E) = f e.1 e.2 + edgeSum f E := by
  simp [edgeSum]

/-- Edge sums are additive over concatenation. -/
theorem edgeSum_append (f : ι → ι → R) (E E' : List (ι × ι)) :
    edgeSum f (E ++ E') = edgeSum f E + edgeSum f E' := by
  simp [edgeSum]

/-- The edge sum only depends on the multiset of edges. -/
theorem edgeSum_perm (f : ι → ι → R) {E E' : List (ι × ι)} (h : E.Perm E') :
    edgeSum f E = edgeSum f E' :=
  (h.map _).sum_eq

/-- Sum around the triangles = sum over all directed triangle edges. -/
theorem triSum_eq_edgeSum (f : ι → ι → R) (T : List (ι × ι × ι)) :
    triSum f T = edgeSum f (dirEdges T) := by
  induction T with
  | nil => rfl
  | cons t T ih =>
    have : triSum f (t :: T) = (f t.1 t.2.1 + f t.2.1 t.2.2 + f t.2.2 t.1) + triSum f T := by
      simp [triSum]
    rw [this, ih]
    simp only [dirEdges, List.flatMap_cons, edgeSum_append, triEdges, edgeSum_cons, edgeSum_nil]
    abel

/-- Edge sum over the edges of loops = sum of the cyclic sums of the loops. -/
theorem edgeSum_loopEdges {R : Type} [CommRing R] (f : ι → ι → R) (loops : List (List ι)) :
    edgeSum f (loopEdges loops) = (loops.map (fun l => cycSum f l)).sum := by
  induction loops with
  | nil => rfl
  | cons l ls ih =>
    simp only [loopEdges, List.flatMap_cons, edgeSum_append, List.map_cons, List.sum_cons]
    rw [← ih]; rfl

end monoid

section group
variable {ι R : Type} [AddCommGroup R]

/-- Reversing every edge negates the sum of an antisymmetric functional. -/
theorem edgeSum_swap (f : ι → ι → R) (hf : ∀ i j, f j i = - f i j) (E : List (ι × ι)) :
    edgeSum f (E.map Prod.swap) = - edgeSum f E := by
  induction E with
  | nil => simp
  | cons e E ih =>
    simp only [List.map_cons, edgeSum_cons, ih, Prod.fst_swap, Prod.snd_swap, hf e.1 e.2]
    abel

/-- **Edge-cancelling cover (multiset form).**  If the directed triangle edges are, as a
multiset, the boundary edges `B` plus a set of interior edges `E` each together with its
reverse, the sum around all triangles is the sum over the boundary edges. -/
theorem triSum_of_cancelling_cover (f : ι → ι → R) (hf : ∀ i j, f j i = - f i j)
    (T : List (ι × ι × ι)) (B E : List (ι × ι))
    (h : (dirEdges T).Perm (B ++ E ++ E.map Prod.swap)) :
    triSum f T = edgeSum f B := by
  rw [triSum_eq_edgeSum, edgeSum_perm f h, edgeSum_append, edgeSum_append, edgeSum_swap f hf]
  abel

end group

section flux
variable {ι R : Type} [CommRing R] [NoZeroDivisors R]

/-- **Net-flux form.**  If for every directed edge the number of occurrences among the
triangle edges minus that of its reverse equals the same difference for the boundary edges
(as a multiset identity `D + swap B = swap D + B`), the sums agree — provided `2 ≠ 0`. -/
theorem triSum_of_flux_eq (h2 : (2 : R) ≠ 0) (f : ι → ι → R) (hf : ∀ i j, f j i = - f i j)
    (T : List (ι × ι × ι)) (B : List (ι × ι))
    (h : (dirEdges T ++ B.map Prod.swap).Perm ((dirEdges T).map Prod.swap ++ B)) :
    triSum f T = edgeSum f B := by
  rw [triSum_eq_edgeSum]
  have := edgeSum_perm f h
  rw [edgeSum_append, edgeSum_append, edgeSum_swap f hf, edgeSum_swap f hf] at this
  have h' : 2 * (edgeSum f (dirEdges T) - edgeSum f B) = 0 := by linear_combination this
  rcases mul_eq_zero.mp h' with h'' | h''
  · exact absurd h'' h2
  · exact sub_eq_zero.mp h''

/-- A duplicate-free edge list closed under reversal has zero antisymmetric sum. -/
theorem edgeSum_eq_zero_of_swap_closed (h2 : (2 : R) ≠ 0) (f : ι → ι → R)
    (hf : ∀ i j, f j i = - f i j) (S : List (ι × ι)) (hS : S.Nodup)
    (hclosed : ∀ e, e ∈ S → e.swap ∈ S) : edgeSum f S = 0 := by
  have hperm : (S.map Prod.swap).Perm S := by
    rw [List.perm_ext_iff_of_nodup (hS.map Prod.swap_injective) hS]
    intro e
    constructor
    · intro he
      obtain ⟨e', he', rfl⟩ := List.mem_map.mp he
      exact hclosed e' he'
    · intro he
      exact List.mem_map.mpr ⟨e.swap, hclosed e he, Prod.swap_swap e⟩
  have := edgeSum_perm f hperm
  rw [edgeSum_swap f hf] at this
  have h' : 2 * edgeSum f S = 0 := by linear_combination -this
  rcases mul_eq_zero.mp h' with h'' | h''
  · exact absurd h'' h2
  · exact h''

variable [DecidableEq ι]

/-- **Edge-incidence form** (what the harness decides on an actual output): no directed edge
is used twice by the triangles, the boundary edge list has no duplicates, and the boundary
edges are exactly the triangle edges whose reverse is not a triangle edge.  Then every other
triangle edge is matched by its reverse and the sum around all triangles is the boundary
sum. -/
theorem triSum_of_edge_incidence (h2 : (2 : R) ≠ 0) (f : ι → ι → R)
    (hf : ∀ i j, f j i = - f i j) (T : List (ι × ι × ι)) (B : List (ι × ι))
    (hD : (dirEdges T).Nodup) (hB : B.Nodup)
    (hmem : ∀ e, e ∈ B ↔ (e ∈ dirEdges T ∧ e.swap ∉ dirEdges T)) :
    triSum f T = edgeSum f B := by
  rw [triSum_eq_edgeSum]
  set D := dirEdges T with hDdef
  have hsplit : (D.filter (fun e => decide (e.swap ∈ D)) ++
      D.filter (fun e => !decide (e.swap ∈ D))).Perm D := List.filter_append_perm _ D
  rw [← edgeSum_perm f hsplit, edgeSum_append]
  have hS : edgeSum f (D.filter (fun e => decide (e.swap ∈ D))) = 0 := by
    apply edgeSum_eq_zero_of_swap_closed h2 f hf _ (hD.filter _)
    intro e he
    rw [List.mem_filter, decide_eq_true_eq] at he ⊢
    exact ⟨he.2, by rw [Prod.swap_swap]; exact he.1⟩
  have hU : (D.filter (fun e => !decide (e.swap ∈ D))).Perm B := by
    rw [List.perm_ext_iff_of_nodup (hD.filter _) hB]
    intro e
    rw [List.mem_filter, hmem e]
    simp
  rw [hS, zero_add, edgeSum_perm f hU]

end flux

section checked
variable {ι : Type} [DecidableEq ι]

/-- The edge-incidence conditions in a form with bounded quantifiers only, hence decidable on
concrete index data: no directed edge is used by two triangles; the loops' directed edges are
pairwise different; every loop edge is a triangle edge whose reverse is not a triangle edge;
every triangle edge whose reverse is not a triangle edge is a loop edge. -/
def EdgeIncidence (T : List (ι × ι × ι)) (B : List (ι × ι)) : Prop :=
  (dirEdges T).Nodup ∧ B.Nodup ∧
  (∀ e ∈ B, e ∈ dirEdges T ∧ e.swap ∉ dirEdges T) ∧
  (∀ e ∈ dirEdges T, e.swap ∉ dirEdges T → e ∈ B)

instance (T : List (ι × ι × ι)) (B : List (ι × ι)) : Decidable (EdgeIncidence T B) := by
  unfold EdgeIncidence; infer_instance

omit [DecidableEq ι] in
/-- The decidable form implies the membership characterisation used by
`triSum_of_edge_incidence`. -/
theorem EdgeIncidence.mem_iff {T : List (ι × ι × ι)} {B : List (ι × ι)}
    (h : EdgeIncidence T B) (e : ι × ι) :
    e ∈ B ↔ (e ∈ dirEdges T ∧ e.swap ∉ dirEdges T) :=
  ⟨fun he => h.2.2.1 e he, fun he => h.2.2.2 e he.1 he.2⟩

/-- Sum around the triangles = boundary sum, from the decidable edge-incidence check. -/
theorem triSum_of_edgeIncidence {R : Type} [CommRing R] [NoZeroDivisors R] (h2 : (2 : R) ≠ 0)
    (f : ι → ι → R) (hf : ∀ i j, f j i = - f i j) (T : List (ι × ι × ι)) (B : List (ι × ι))
    (h : EdgeIncidence T B) : triSum f T = edgeSum f B :=
  triSum_of_edge_incidence h2 f hf T B h.1 h.2.1 h.mem_iff

end checked

section fan
variable {β : Type}

/-- The consecutive pairs of a list, by index. -/
theorem zip_tail_eq_range (l : List β) (d : β) :
    l.zip l.tail = (List.range (l.length - 1)).map (fun k => (l.getD k d, l.getD (k + 1) d)) := by
  apply List.ext_getElem
  · simp
  · intro k h1 h2
    simp only [List.length_zip, List.length_tail, lt_min_iff] at h1
    simp only [List.getElem_zip, List.getElem_tail, List.getElem_map, List.getElem_range]
    rw [List.getD_eq_getElem (hn := h1.1), List.getD_eq_getElem (hn := by omega)]

end fan

end Lbg.Lemmas
