/-
  Helper lemmas for the sweep theorems (Props/C04d): which errors the sweep model can end in.
  Under the fill invariants of `PolyBoolKept` the annotation and the final swap never fail, so
  the only errors are "unlinked" (a node removed twice), "zero-length" and "fuel".
-/
import LbgVerif.Lemmas.PolyBoolKept

set_option linter.unusedSectionVars false

namespace Lbg.Lemmas.PolyBool
open Lbg Lbg.Gen Lbg.Model.PolyBool

variable {α : Type} [Field α] [LinearOrder α]

theorem removeEvent_err {st : St α} {e : Ev} {msg : String}
    (h : removeEvent st e = .error msg) : msg = "unlinked" := by
  unfold Lbg.Model.PolyBool.removeEvent at h
  split_ifs at h
  all_goals first
    | (have h' : (Except.error "unlinked" : Except String (St α)) = Except.error msg := h
       cases h'; rfl)
    | cases h

theorem eventDivide_err {tol : α} {st : St α} {i : Nat} {pt : V2 α} {msg : String}
    (h : eventDivide tol st i pt = .error msg) : msg = "unlinked" := by
  unfold Lbg.Model.PolyBool.eventDivide at h
  simp only [bind, Except.bind] at h
  cases h1 : Lbg.Model.PolyBool.removeEvent st (i, false) with
  | error e => rw [h1] at h; cases h; exact removeEvent_err h1
  | ok st1 => rw [h1] at h; cases h

theorem divides_err {tol : α} (plan : List (Nat × V2 α)) {st : St α} {msg : String}
    (h : plan.foldlM (fun s d => Lbg.Model.PolyBool.eventDivide tol s d.1 d.2) st = .error msg) :
    msg = "unlinked" := by
  induction plan generalizing st with
  | nil => simp only [List.foldlM_nil, pure, Except.pure] at h; cases h
  | cons d plan ih =>
    simp only [List.foldlM_cons, bind, Except.bind] at h
    cases h1 : Lbg.Model.PolyBool.eventDivide tol st d.1 d.2 with
    | error e => rw [h1] at h; cases h; exact eventDivide_err h1
    | ok st1 => rw [h1] at h; exact ih h

theorem checkIntersection_err {tol : α} {st : St α} {e1 e2 : Nat} {msg : String}
    (h : checkIntersection tol st e1 e2 = .error msg) : msg = "unlinked" := by
  unfold Lbg.Model.PolyBool.checkIntersection at h
  simp only [bind, Except.bind] at h
  cases h1 : (intersectionPlan tol st e1 e2).1.foldlM
      (fun s d => Lbg.Model.PolyBool.eventDivide tol s d.1 d.2) st with
  | error e => rw [h1] at h; cases h; exact divides_err _ h1
  | ok st1 => rw [h1] at h; cases h

theorem checkBoth_err {tol : α} {st : St α} {above below : Option Nat} {e : Nat} {msg : String}
    (h : checkBoth tol st above e below = .error msg) : msg = "unlinked" := by
  unfold Lbg.Model.PolyBool.checkBoth at h
  have second : ∀ (st1 : St α),
      (match below with
        | some b => Lbg.Model.PolyBool.checkIntersection tol st1 e b
        | none => pure (st1, none)) = Except.error msg → msg = "unlinked" := by
    intro st1 h2
    cases below with
    | none => cases h2
    | some b => exact checkIntersection_err h2
  cases above with
  | none =>
    simp only [bind, Except.bind, pure, Except.pure] at h
    exact second st h
  | some a =>
    simp only [bind, Except.bind] at h
    cases h1 : Lbg.Model.PolyBool.checkIntersection tol st e a with
    | error err => rw [h1] at h; cases h; exact checkIntersection_err h1
    | ok r1 =>
      rw [h1] at h
      obtain ⟨st1, ret1⟩ := r1
      cases ret1 with
      | some eve => cases h
      | none => exact second st1 h

theorem applyEve_err {cfg : Cfg α} {st1 : St α} {i : Nat} {eve : Option Nat} {msg : String}
    (h : applyEve cfg st1 i eve = .error msg) : msg = "unlinked" := by
  cases eve with
  | none => cases h
  | some e =>
    simp only [Lbg.Model.PolyBool.applyEve, bind, Except.bind] at h
    cases h1 : Lbg.Model.PolyBool.removeEvent
        (st1.setSeg e (eveUpdate cfg (st1.seg i) (st1.seg e))) (i, false) with
    | error err => rw [h1] at h; cases h; exact removeEvent_err h1
    | ok st' => rw [h1] at h; exact removeEvent_err h

/-- The annotation and the final swap cannot fail on good segments. -/
structure Total (cfg : Cfg α) (G : SegRec α → Prop) : Prop where
  annot : ∀ s below, G s → (∀ sb, below = some sb → G sb ∧ sb.hasStatus = true) →
    ∃ s', annotateSeg cfg s below = .ok s'
  finish : ∀ s, G s → s.hasStatus = true → ∃ s', finishSeg s = .ok s'

theorem total_self (tol : α) (inv sec : Bool) : Total ⟨true, tol, inv, sec⟩ (GSelf (α := α)) where
  annot := by
    intro s below _ _
    unfold annotateSeg
    simp only [↓reduceIte]
    exact ⟨_, rfl⟩
  finish := by
    intro s hs _
    unfold finishSeg
    have hp : s.primary = true := hs.2.1
    simp only [hp, Bool.not_true, Bool.false_eq_true, ↓reduceIte]
    exact ⟨_, rfl⟩

theorem total_comb (tol : α) (inv1 inv2 : Bool) :
    Total ⟨false, tol, inv1, inv2⟩ (GComb (α := α)) where
  annot := by
    intro s below _ hb
    unfold annotateSeg
    simp only [Bool.false_eq_true, ↓reduceIte]
    cases ho : s.otherfill with
    | some o => exact ⟨_, rfl⟩
    | none =>
      cases below with
      | none => exact ⟨_, rfl⟩
      | some sb =>
        obtain ⟨hg, hst⟩ := hb sb rfl
        simp only
        split_ifs
        · cases hso : sb.otherfill with
          | none => exact absurd hso (hg.2.2 hst)
          | some o => exact ⟨_, rfl⟩
        · exact ⟨_, rfl⟩
  finish := by
    intro s hs hst
    unfold finishSeg
    split_ifs
    · cases ho : s.otherfill with
      | none => exact absurd ho (hs.2.2 hst)
      | some o => exact ⟨_, rfl⟩
    · exact ⟨_, rfl⟩

/-- The errors a sweep step can end in. -/
def StepErr (msg : String) : Prop := msg = "unlinked" ∨ msg = "zero-length"

theorem placeStart_err {cfg : Cfg α} {G : SegRec α → Prop} (ht : Total cfg G) {st2 : St α}
    (h : WF G st2) (i k : Nat) (below : Option Nat) (hi : i < st2.segs.length)
    (hb : ∀ b, below = some b → b ∈ st2.status) {msg : String}
    (hr : placeStart cfg st2 i k below = .error msg) : False := by
  unfold Lbg.Model.PolyBool.placeStart at hr
  simp only [bind, Except.bind] at hr
  obtain ⟨s', hs'⟩ := ht.annot (st2.seg i) (below.map st2.seg) (h.good _ (seg_mem st2 i hi)) (by
    intro sb hsb
    cases below with
    | none => simp at hsb
    | some b =>
      simp only [Option.map_some, Option.some.injEq] at hsb
      subst hsb
      have hst := h.status b (hb b rfl)
      exact ⟨h.good _ (seg_mem st2 b (lt_of_hasStatus st2 b hst)), hst⟩)
  rw [hs'] at hr
  cases hr

theorem stepStart_err {cfg : Cfg α} {G : SegRec α → Prop} (hk : Kept cfg G) (ht : Total cfg G)
    {st : St α} (h : WF G st) (i : Nat) (hi0 : i < st.segs.length) {msg : String}
    (hr : stepStart cfg st i = .error msg) : StepErr msg := by
  unfold Lbg.Model.PolyBool.stepStart at hr
  simp only [bind, Except.bind] at hr
  generalize hk' : st.status.findIdx
    (fun here => decide (statusCompare cfg.tol st i here > 0)) = k at hr
  cases h1 : Lbg.Model.PolyBool.checkBoth cfg.tol st
      (if k = 0 then none else st.status[k - 1]?) i st.status[k]? with
  | error err => rw [h1] at hr; cases hr; exact Or.inl (checkBoth_err h1)
  | ok r =>
    rw [h1] at hr
    obtain ⟨w1, x1⟩ := h.checkBoth hk _ i _ hi0
      (by
        intro a ha
        split_ifs at ha
        exact lt_of_hasStatus st a (h.status a (List.mem_of_getElem? ha)))
      (fun b hb => lt_of_hasStatus st b (h.status b (List.mem_of_getElem? hb))) h1
    simp only at hr
    cases h2 : Lbg.Model.PolyBool.applyEve cfg r.1 i r.2 with
    | error err => rw [h2] at hr; cases hr; exact Or.inl (applyEve_err h2)
    | ok st2 =>
      rw [h2] at hr
      obtain ⟨w2, hs2⟩ := w1.applyEve hk i r.2 h2
      simp only at hr
      split_ifs at hr with hc
      · cases hr
      · have hhead : st2.events.head? = some (i, true) := by
          by_contra hne; exact hc hne
        have hi : i < st2.segs.length :=
          w2.events (i, true) (List.mem_of_mem_head? hhead)
        exfalso
        apply placeStart_err ht w2 i k _ hi _ hr
        intro b hb
        rw [hs2, x1.status]
        exact List.mem_of_getElem? hb

theorem finishEnd_err {G : SegRec α → Prop} {cfg : Cfg α} (ht : Total cfg G) {st1 : St α}
    (h : WF G st1) (i idx : Nat) (hi : (st1.seg i).hasStatus = true) {msg : String}
    (hr : finishEnd st1 i idx = .error msg) : StepErr msg := by
  unfold Lbg.Model.PolyBool.finishEnd at hr
  simp only [bind, Except.bind] at hr
  split_ifs at hr with hc
  · cases hr; exact Or.inl rfl
  · simp only [pure, Except.pure] at hr
    have hseg : ({ st1 with status := st1.status.eraseIdx idx } : St α).seg i = st1.seg i := rfl
    rw [hseg] at hr
    obtain ⟨s', hs'⟩ := ht.finish (st1.seg i)
      (h.good _ (seg_mem st1 i (lt_of_hasStatus st1 i hi))) hi
    rw [hs'] at hr
    simp only at hr
    split at hr
    · cases hr; exact Or.inl rfl
    · cases hr

theorem stepEnd_err {cfg : Cfg α} {G : SegRec α → Prop} (hk : Kept cfg G) (ht : Total cfg G)
    {st : St α} (h : WF G st) (i : Nat) {msg : String}
    (hr : stepEnd cfg st i = .error msg) : StepErr msg := by
  unfold Lbg.Model.PolyBool.stepEnd at hr
  simp only [bind, Except.bind] at hr
  by_cases hc : (!(st.seg i).hasStatus) = true
  · simp only [hc, ↓reduceIte] at hr
    have h' : (Except.error "zero-length" : Except String (St α)) = Except.error msg := hr
    cases h'; exact Or.inr rfl
  have hi : (st.seg i).hasStatus = true := by simpa using hc
  simp only [hc, Bool.false_eq_true, ↓reduceIte, pure, Except.pure] at hr
  split_ifs at hr with hcond
  · cases h1 : Lbg.Model.PolyBool.checkIntersection cfg.tol st
        (st.status.getD (st.status.idxOf i - 1) 0) (st.status.getD (st.status.idxOf i + 1) 0) with
    | error err => rw [h1] at hr; cases hr; exact Or.inl (checkIntersection_err h1)
    | ok r =>
      rw [h1] at hr
      simp only at hr
      have hv : ∀ j, j < st.status.length → st.status.getD j 0 < st.segs.length := by
        intro j hj
        apply lt_of_hasStatus st _ (h.status _ _)
        rw [List.getD_eq_getElem?_getD, List.getElem?_eq_getElem hj]
        exact List.getElem_mem hj
      have w1 := h.checkIntersection cfg.tol _ _
        (hk.plan st _ _ h (hv _ (by omega)) (hv _ hcond.2)) h1
      have x1 := Ext.checkIntersection cfg.tol _ _ h1
      exact finishEnd_err ht w1 i _ (x1.mono i hi) hr
  · exact finishEnd_err ht h i _ hi hr

theorem stepEvent_err {cfg : Cfg α} {G : SegRec α → Prop} (hk : Kept cfg G) (ht : Total cfg G)
    {st : St α} (h : WF G st) {msg : String} (hr : stepEvent cfg st = .error msg) :
    StepErr msg := by
  unfold Lbg.Model.PolyBool.stepEvent at hr
  split at hr
  · cases hr
  · rename_i i hhead
    exact stepStart_err hk ht h _ (h.events (i, true) (List.mem_of_mem_head? hhead)) hr
  · exact stepEnd_err hk ht h _ hr

theorem loop_err {cfg : Cfg α} {G : SegRec α → Prop} (hk : Kept cfg G) (ht : Total cfg G)
    (fuel : Nat) {st : St α} (h : WF G st) {msg : String} (hr : loop cfg fuel st = .error msg) :
    StepErr msg ∨ msg = "fuel" := by
  induction fuel generalizing st with
  | zero =>
    unfold Lbg.Model.PolyBool.loop at hr
    split_ifs at hr
    · cases hr
    · cases hr; exact Or.inr rfl
  | succ n ih =>
    unfold Lbg.Model.PolyBool.loop at hr
    split_ifs at hr
    · cases hr
    · simp only [bind, Except.bind] at hr
      cases h1 : Lbg.Model.PolyBool.stepEvent cfg st with
      | error err => rw [h1] at hr; cases hr; exact Or.inl (stepEvent_err hk ht h h1)
      | ok st1 =>
        rw [h1] at hr
        exact ih (h.stepEvent hk h1) hr

end Lbg.Lemmas.PolyBool
