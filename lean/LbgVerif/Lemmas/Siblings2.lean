/-
  Lemmas.Siblings2 — helper lemmas for C16b (2D / 3D siblings of the composite hand models)
  and C02b (transform laws of the composite hand models):

  * the vertex clean-up scans of `Model/Colinear` only look at positions inside the sequence,
    so two tests that agree there give the same kept positions (`polylineIdx_congr`,
    `dupIdx_congr`), and `verts` commutes with a vertex map on in-range positions;
  * the collinearity test of `Polyline3D` on chart images is the `Polyline2D` test
    (`keep3_lift`: Lagrange identity + isometry);
  * `is_equivalent` (coordinate-wise!) under charts: exact for axis-parallel charts, only
    sandwiched between tolerances `tol` and `2·tol` for a general orthonormal chart;
  * `joinSegments` commutes with every point map that respects the equivalence test;
  * bounding boxes under an axis-parallel chart; polyline length under an isometric chart;
  * segment ∩ plane for chart images against the plane through a chart-image line.
-/
import LbgVerif.Model.Colinear
import LbgVerif.Model.JoinSegments
import LbgVerif.Model.PolylineCache
import LbgVerif.Model.IsectComposite
import LbgVerif.Model.MeshCache3
import LbgVerif.Lemmas.Colinear
import LbgVerif.Lemmas.Measure
import LbgVerif.Lemmas.Siblings
import LbgVerif.Lemmas.PolylineCache
import LbgVerif.Lemmas.IsectComposite
import LbgVerif.Lemmas.MeshCache
import LbgVerif.Lemmas.FaceCache
import Mathlib.Tactic.Ring
import Mathlib.Tactic.Linarith
import Mathlib.Tactic.LinearCombination
import Mathlib.Tactic.SplitIfs
import Mathlib.Tactic.Positivity

set_option linter.unusedSectionVars false
set_option linter.unusedVariables false
set_option linter.unusedTactic false
set_option linter.unreachableTactic false
set_option linter.unnecessarySeqFocus false
set_option linter.unusedSimpArgs false

namespace Lbg.Lemmas
open Lbg Lbg.Gen Lbg.Model.Colinear Lbg.Lemmas.Colinear

/-! ### The scans only read positions inside the sequence -/

section scans

/-- Two tests that agree on in-range positions drive the open-chain scan identically
(the scan forms `i - skip ≥ 0`, `i + 1`, `i + 2 ≤ n - 1` only). -/
theorem polylineScanTo_congr (n : Nat) (k k' : Nat → Nat → Nat → Bool)
    (h : ∀ i2 i1 i0, i2 < n → i1 < n → i0 < n → k i2 i1 i0 = k' i2 i1 i0) (m : Nat)
    (hm : m + 2 ≤ n) : polylineScanTo n k m = polylineScanTo n k' m := by
  induction m with
  | zero => rfl
  | succ m ih =>
    have ih' := ih (by omega)
    rw [lstep_eq, lstep_eq, ← ih']
    have hs : lskipAt n k' m = lskipAt n k m := by unfold lskipAt; rw [ih']
    have hle := (lskipAt_spec n k m).1
    have hk : lkeptAt n k' m = lkeptAt n k m := by
      unfold lkeptAt
      rw [hs]
      symm
      apply h
      · unfold pyIdx; split_ifs <;> omega
      · omega
      · unfold pyIdx; split_ifs <;> omega
    rw [hk]

/-- Kept positions of the open-chain scan for two tests agreeing on in-range positions. -/
theorem polylineIdx_congr (n : Nat) (k k' : Nat → Nat → Nat → Bool)
    (h : ∀ i2 i1 i0, i2 < n → i1 < n → i0 < n → k i2 i1 i0 = k' i2 i1 i0) :
    polylineIdx n k = polylineIdx n k' := by
  unfold polylineIdx
  split_ifs with h3
  · rfl
  · by_cases hn : 2 ≤ n
    · rw [polylineScanTo_congr n k k' h (n - 2) (by omega)]
    · have : n - 2 = 0 := by omega
      rw [this]; rfl

/-- Kept positions of the duplicate filter for two tests agreeing on in-range positions. -/
theorem dupIdx_congr (n : Nat) (e e' : Nat → Nat → Bool)
    (h : ∀ i j, i < n → j < n → e i j = e' i j) : dupIdx n e = dupIdx n e' := by
  unfold dupIdx
  apply List.filter_congr
  intro i hi
  rw [List.mem_range] at hi
  have := h i _ hi (tested_lt hi)
  unfold tested at this
  rw [this]

/-- Every position kept by the duplicate filter is inside the sequence. -/
theorem dupIdx_lt (n : Nat) (e : Nat → Nat → Bool) : ∀ i ∈ dupIdx n e, i < n := by
  intro i hi
  unfold dupIdx at hi
  exact List.mem_range.1 (List.mem_filter.1 hi).1

/-- Every position kept by the open-chain scan is inside the sequence (`n ≥ 2`). -/
theorem polylineIdx_lt (n : Nat) (k : Nat → Nat → Nat → Bool) (hn : 2 ≤ n) :
    ∀ i ∈ polylineIdx n k, i < n := by
  intro i hi
  have := (polylineIdx_spec n k hn).1.subset hi
  exact List.mem_range.1 this

/-- Every position kept by the closed-loop scan is inside the sequence. -/
theorem polygonIdx_lt (n : Nat) (k : Nat → Nat → Nat → Bool) (idx : List Nat)
    (h : polygonIdx n k = some idx) : ∀ i ∈ idx, i < n := by
  intro i hi
  rcases polygonIdx_sublist_rotate n k idx h with hr | hr
  · have := hr.subset hi
    rw [List.mem_rotate] at this
    exact List.mem_range.1 this
  · exact List.mem_range.1 (hr.subset hi)

/-- `getD` of a mapped list at an in-range position. -/
theorem getD_map_of_lt {V W : Type} (f : V → W) (d : V) (d' : W) (l : List V) (i : Nat)
    (hi : i < l.length) : (l.map f).getD i d' = f (l.getD i d) := by
  simp [List.getD_eq_getElem?_getD, hi]

/-- `verts` commutes with a vertex map on in-range positions (whatever the fillers). -/
theorem verts_map {V W : Type} (f : V → W) (d : V) (d' : W) (l : List V) (idx : List Nat)
    (h : ∀ i ∈ idx, i < l.length) : verts d' (l.map f) idx = (verts d l idx).map f := by
  unfold verts
  rw [List.map_map]
  apply List.map_congr_left
  intro i hi
  exact getD_map_of_lt f d d' l i (h i hi)

/-- A vertex test read at positions of a mapped list (in range). -/
theorem keepAt_map {V W : Type} (f : V → W) (c : V → V → V → Bool) (c' : W → W → W → Bool)
    (hc : ∀ a b e, c' (f a) (f b) (f e) = c a b e) (d : V) (d' : W) (l : List V) (i2 i1 i0 : Nat)
    (h2 : i2 < l.length) (h1 : i1 < l.length) (h0 : i0 < l.length) :
    keepAt c' d' (l.map f) i2 i1 i0 = keepAt c d l i2 i1 i0 := by
  unfold keepAt
  rw [getD_map_of_lt f d d' l i2 h2, getD_map_of_lt f d d' l i1 h1,
    getD_map_of_lt f d d' l i0 h0, hc]

/-- An equivalence test read at positions of a mapped list (in range). -/
theorem eqvAt_map {V W : Type} (f : V → W) (e : V → V → Bool) (e' : W → W → Bool)
    (he : ∀ a b, e' (f a) (f b) = e a b) (d : V) (d' : W) (l : List V) (i j : Nat)
    (hi : i < l.length) (hj : j < l.length) :
    eqvAt e' d' (l.map f) i j = eqvAt e d l i j := by
  unfold eqvAt
  rw [getD_map_of_lt f d d' l i hi, getD_map_of_lt f d d' l j hj, he]

end scans

/-! ### `joinSegments` commutes with point maps that respect the equivalence test -/

section join
open Lbg.Model.JoinSegments
variable {P Q : Type}

/-- Image of a segment under a point map. -/
def mapSegP (f : P → Q) (s : Seg P) : Seg Q := (f s.1, f s.2)

/-- `_connect_seg_to_poly` commutes with the point map. -/
theorem connect_map (f : P → Q) (e : P → P → Bool) (e' : Q → Q → Bool)
    (he : ∀ a b, e' (f a) (f b) = e a b) (poly : List P) (s : Seg P) :
    connect e' (poly.map f) (mapSegP f s) = (connect e poly s).map (List.map f) := by
  unfold connect
  rw [List.head?_map, List.getLast?_map]
  cases hh : poly.head? with
  | none => simp
  | some first =>
    cases hl : poly.getLast? with
    | none => simp
    | some last =>
      simp only [Option.map_some, mapSegP, he]
      split_ifs <;> simp

/-- The `for … break` pass over the remaining segments commutes with the point map. -/
theorem tryConnect_map (f : P → Q) (e : P → P → Bool) (e' : Q → Q → Bool)
    (he : ∀ a b, e' (f a) (f b) = e a b) (poly : List P) (segs : List (Seg P)) :
    tryConnect e' (poly.map f) (segs.map (mapSegP f)) =
      (tryConnect e poly segs).map (fun r => (r.1.map f, r.2.map (mapSegP f))) := by
  induction segs with
  | nil => rfl
  | cons s rest ih =>
    simp only [List.map_cons, tryConnect, connect_map f e e' he]
    cases hc : connect e poly s with
    | some poly' => simp
    | none =>
      simp only [Option.map_none, ih]
      cases ht : tryConnect e poly rest with
      | none => simp
      | some r => obtain ⟨a, b⟩ := r; simp

/-- The `while more_to_check` loop of `_build_polyline` commutes with the point map. -/
theorem buildLoop_map (f : P → Q) (e : P → P → Bool) (e' : Q → Q → Bool)
    (he : ∀ a b, e' (f a) (f b) = e a b) (fuel : Nat) (poly : List P) (segs : List (Seg P)) :
    buildLoop e' fuel (poly.map f) (segs.map (mapSegP f)) =
      ((buildLoop e fuel poly segs).1.map f, (buildLoop e fuel poly segs).2.map (mapSegP f)) := by
  induction fuel generalizing poly segs with
  | zero => rfl
  | succ fuel ih =>
    simp only [buildLoop, tryConnect_map f e e' he]
    cases ht : tryConnect e poly segs with
    | none => simp
    | some r => obtain ⟨a, b⟩ := r; simp only [Option.map_some]; exact ih a b

/-- `_build_polyline` commutes with the point map. -/
theorem buildPolyline_map (f : P → Q) (e : P → P → Bool) (e' : Q → Q → Bool)
    (he : ∀ a b, e' (f a) (f b) = e a b) (base : Seg P) (others : List (Seg P)) :
    buildPolyline e' (mapSegP f base) (others.map (mapSegP f)) =
      ((buildPolyline e base others).1.map f, (buildPolyline e base others).2.map (mapSegP f)) := by
  unfold buildPolyline
  rw [List.length_map]
  exact buildLoop_map f e e' he _ [base.1, base.2] others

/-- The `while len(remain_segs) > 0` loop of `_group_vertices` commutes with the point map. -/
theorem groupLoop_map (f : P → Q) (e : P → P → Bool) (e' : Q → Q → Bool)
    (he : ∀ a b, e' (f a) (f b) = e a b) (fuel : Nat) (base : Seg P) (remain : List (Seg P))
    (acc : List (List P)) :
    groupLoop e' fuel (mapSegP f base) (remain.map (mapSegP f)) (acc.map (List.map f)) =
      (groupLoop e fuel base remain acc).map (List.map f) := by
  induction fuel generalizing base remain acc with
  | zero => rfl
  | succ fuel ih =>
    simp only [groupLoop, List.length_map, buildPolyline_map f e e' he]
    split_ifs with hr
    · cases hb : (buildPolyline e base remain).2 with
      | nil => simp
      | cons s rest =>
        cases rest with
        | nil => simp [mapSegP]
        | cons s2 rest2 =>
          simp only [List.map_cons]
          have := ih s (s2 :: rest2) (acc ++ [(buildPolyline e base remain).1])
          simpa using this
    · rfl

/-- **`join_segments` commutes with a point map `f` under which the two equivalence tests
correspond**: joining the image segments gives the images of the joined chains (same grouping,
same order, same orientation of every chain). -/
theorem joinSegments_map (f : P → Q) (e : P → P → Bool) (e' : Q → Q → Bool)
    (he : ∀ a b, e' (f a) (f b) = e a b) (segs : List (Seg P)) :
    joinSegments e' (segs.map (mapSegP f)) = (joinSegments e segs).map (List.map f) := by
  cases segs with
  | nil => rfl
  | cons s rest =>
    cases rest with
    | nil => rfl
    | cons s2 rest2 =>
      simp only [joinSegments, List.map_cons, List.length_cons, List.length_map]
      have := groupLoop_map f e e' he (rest2.length + 1 + 1) s (s2 :: rest2) []
      simpa using this

end join

/-! ### The collinearity test under an orthonormal chart -/

section geom
variable {α : Type} [Field α] [LinearOrder α] [IsStrictOrderedRing α]

/-- The generated `Vector3D.cross` is the cross product. -/
theorem v3_cross_eq (u v : V3 α) : v3_cross u v = V3.cross u v := by
  unfold v3_cross
  apply V3.ext' <;> simp only [V3.cross] <;> ring

/-- Squared chord between two chart images = squared 2D chord (orthonormal axes). -/
theorem chordSq3_lift (o x y : V3 α) (hx : V3.normSq x = 1) (hy : V3.normSq y = 1)
    (hxy : V3.dot x y = 0) (a b : V2 α) :
    chordSq3 (lift o x y a) (lift o x y b) = chordSq2 a b := by
  have h := normSq_liftV x y hx hy hxy (V2.sub b a)
  rw [← lift_sub_lift o] at h
  simp only [V3.normSq, V2.normSq, V3.sub, V2.sub] at h
  unfold chordSq3 chordSq2
  linear_combination h

/-- The cross product of the 3D test on chart images is `−twiceArea2 • (x × y)`. -/
theorem cross3_lift (o x y : V3 α) (a b c : V2 α) :
    cross3 (lift o x y a) (lift o x y b) (lift o x y c) =
      V3.smul (-(twiceArea2 a b c)) (V3.cross x y) := by
  unfold cross3
  rw [v3_cross_eq, cross_lift]
  congr 1
  simp only [V2.det, V2.sub, twiceArea2, v2_determinant]; ring

/-- Lagrange: squared magnitude of that cross product = (twice the signed 2D area)². -/
theorem cross3_lift_normSq (o x y : V3 α) (hx : V3.normSq x = 1) (hy : V3.normSq y = 1)
    (hxy : V3.dot x y = 0) (a b c : V2 α) :
    v3_magnitude_squared (cross3 (lift o x y a) (lift o x y b) (lift o x y c)) =
      twiceArea2 a b c * twiceArea2 a b c := by
  have e : ∀ w : V3 α, v3_magnitude_squared w = V3.normSq w := fun w => rfl
  rw [e, cross3_lift, v3_smul_normSq, normSq_cross_orthonormal x y hx hy hxy]; ring

/-- **The `Polyline3D` collinearity test (squared form) on chart images is the `Polyline2D`
test on the 2D points**, for every orthonormal chart and every `tol`. -/
theorem keep3_lift (o x y : V3 α) (hx : V3.normSq x = 1) (hy : V3.normSq y = 1)
    (hxy : V3.dot x y = 0) (tol : α) (a b c : V2 α) :
    keep3 tol (lift o x y a) (lift o x y b) (lift o x y c) = keep2 tol a b c := by
  unfold keep3 keep2
  simp only []
  rw [cross3_lift_normSq o x y hx hy hxy, chordSq3_lift o x y hx hy hxy]

/-- The same for the source forms (`math.sqrt`): under the `sqrt` law, every `tol`. -/
theorem keep3Code_lift (M : MathOps α)
    (hsqrt : ∀ x, 0 ≤ x → M.sqrt x * M.sqrt x = x ∧ 0 ≤ M.sqrt x)
    (o x y : V3 α) (hx : V3.normSq x = 1) (hy : V3.normSq y = 1)
    (hxy : V3.dot x y = 0) (tol : α) (a b c : V2 α) :
    keep3Code M tol (lift o x y a) (lift o x y b) (lift o x y c) = keep2Code M tol a b c := by
  have hm : v3_magnitude M (cross3 (lift o x y a) (lift o x y b) (lift o x y c)) =
      |twiceArea2 a b c| := by
    have e : ∀ w : V3 α, v3_magnitude M w = M.sqrt (v3_magnitude_squared w) := fun w => rfl
    rw [e, cross3_lift_normSq o x y hx hy hxy, sqrt_sq_eq_abs M hsqrt]
  have hd : p3_distance_to_point M (lift o x y c) (lift o x y a) = p2_distance_to_point M c a := by
    have e3 : p3_distance_to_point M (lift o x y c) (lift o x y a) =
        M.sqrt (chordSq3 (lift o x y a) (lift o x y c)) := rfl
    have e2 : p2_distance_to_point M c a = M.sqrt (chordSq2 a c) := rfl
    rw [e3, e2, chordSq3_lift o x y hx hy hxy]
  unfold keep3Code keep2Code
  simp only []
  rw [hm, hd]

/-! ### `is_equivalent` (a coordinate-wise test) under charts -/

/-- The chart of a plane parallel to the world XY plane with the world axes:
`(x, y) ↦ (o.x + x, o.y + y, o.z)`. -/
def embedAt (o : V3 α) (p : V2 α) : V3 α := ⟨o.x + p.x, o.y + p.y, o.z⟩

/-- `embedAt o` is the chart with origin `o` and the world x / y axes. -/
theorem embedAt_eq_lift (o : V3 α) (p : V2 α) :
    embedAt o p = lift o ⟨1, 0, 0⟩ ⟨0, 1, 0⟩ p := by
  apply V3.ext' <;> simp [embedAt, lift]

/-- The world-XY embedding is `embedAt 0`. -/
theorem embed_eq_embedAt (p : V2 α) : embed p = embedAt ⟨0, 0, 0⟩ p := by
  apply V3.ext' <;> simp [embedAt, embed]

/-- **Axis-parallel chart: the 3D tolerance test is the 2D tolerance test**, for every `tol`
(for `tol < 0` both are `False`). -/
theorem v3_is_equivalent_embedAt (o : V3 α) (a b : V2 α) (tol : α) :
    v3_is_equivalent (embedAt o a) (embedAt o b) tol = v2_is_equivalent a b tol := by
  unfold v3_is_equivalent v2_is_equivalent embedAt
  apply decide_eq_decide.2
  simp only [sub_self, abs_zero, add_sub_add_left_eq_sub]
  constructor
  · intro h; exact h.1
  · intro h
    refine ⟨h, ?_⟩
    have := abs_nonneg (a.x - b.x)
    intro hlt
    exact h.1 (lt_of_lt_of_le hlt this)

/-- General orthonormal chart, first half of the sandwich: 2D-equivalent within `tol` implies
3D-equivalent within `2·tol`. -/
theorem v3_is_equivalent_of_v2 (o x y : V3 α) (hx : V3.normSq x = 1) (hy : V3.normSq y = 1)
    (hxy : V3.dot x y = 0) (a b : V2 α) (tol : α)
    (h : v2_is_equivalent a b tol = true) :
    v3_is_equivalent (lift o x y a) (lift o x y b) (2 * tol) = true := by
  unfold v2_is_equivalent at h
  rw [decide_eq_true_iff] at h
  obtain ⟨h1, h2⟩ := h
  rw [not_lt] at h1 h2
  have ht : 0 ≤ tol := le_trans (abs_nonneg _) h1
  have hn := normSq_liftV x y hx hy hxy (V2.sub a b)
  rw [← lift_sub_lift o] at hn
  simp only [V3.normSq, V2.normSq, V3.sub, V2.sub] at hn
  have s1 : (a.x - b.x) * (a.x - b.x) ≤ tol * tol := by
    have := mul_self_le_mul_self (abs_nonneg _) h1
    rwa [abs_mul_abs_self] at this
  have s2 : (a.y - b.y) * (a.y - b.y) ≤ tol * tol := by
    have := mul_self_le_mul_self (abs_nonneg _) h2
    rwa [abs_mul_abs_self] at this
  have key : ∀ t : α, t * t ≤ (a.x - b.x) * (a.x - b.x) + (a.y - b.y) * (a.y - b.y) →
      ¬ (2 * tol < |t|) := by
    intro t ht2
    rw [not_lt]
    apply abs_le_of_sq_le_sq _ (by linarith)
    nlinarith
  unfold v3_is_equivalent
  rw [decide_eq_true_iff]
  refine ⟨⟨key _ ?_, key _ ?_⟩, key _ ?_⟩
  · nlinarith [mul_self_nonneg ((lift o x y a).y - (lift o x y b).y),
      mul_self_nonneg ((lift o x y a).z - (lift o x y b).z)]
  · nlinarith [mul_self_nonneg ((lift o x y a).x - (lift o x y b).x),
      mul_self_nonneg ((lift o x y a).z - (lift o x y b).z)]
  · nlinarith [mul_self_nonneg ((lift o x y a).x - (lift o x y b).x),
      mul_self_nonneg ((lift o x y a).y - (lift o x y b).y)]

/-- Second half of the sandwich: 3D-equivalent within `tol` implies 2D-equivalent within
`2·tol` (`√3 ≤ 2`). -/
theorem v2_is_equivalent_of_v3 (o x y : V3 α) (hx : V3.normSq x = 1) (hy : V3.normSq y = 1)
    (hxy : V3.dot x y = 0) (a b : V2 α) (tol : α)
    (h : v3_is_equivalent (lift o x y a) (lift o x y b) tol = true) :
    v2_is_equivalent a b (2 * tol) = true := by
  unfold v3_is_equivalent at h
  rw [decide_eq_true_iff] at h
  obtain ⟨⟨h1, h2⟩, h3⟩ := h
  rw [not_lt] at h1 h2 h3
  have ht : 0 ≤ tol := le_trans (abs_nonneg _) h1
  have hn := normSq_liftV x y hx hy hxy (V2.sub a b)
  rw [← lift_sub_lift o] at hn
  simp only [V3.normSq, V2.normSq, V3.sub, V2.sub] at hn
  have s1 := mul_self_le_mul_self (abs_nonneg _) h1
  have s2 := mul_self_le_mul_self (abs_nonneg _) h2
  have s3 := mul_self_le_mul_self (abs_nonneg _) h3
  rw [abs_mul_abs_self] at s1 s2 s3
  unfold v2_is_equivalent
  rw [decide_eq_true_iff]
  constructor
  · rw [not_lt]
    apply abs_le_of_sq_le_sq _ (by linarith)
    nlinarith [mul_self_nonneg (a.y - b.y)]
  · rw [not_lt]
    apply abs_le_of_sq_le_sq _ (by linarith)
    nlinarith [mul_self_nonneg (a.x - b.x)]

/-- An orthonormal chart is injective. -/
theorem lift_injective (o x y : V3 α) (hx : V3.normSq x = 1) (hy : V3.normSq y = 1)
    (hxy : V3.dot x y = 0) (a b : V2 α) (h : lift o x y a = lift o x y b) : a = b := by
  have ha := dot_lift_sub o x y hx hy hxy a
  have hb := dot_lift_sub o x y hx hy hxy b
  rw [h] at ha
  apply V2.ext'
  · rw [← ha.1, hb.1]
  · rw [← ha.2, hb.2]

/-- For `tol = 0` (exact coincidence) the tolerance test IS chart invariant. -/
theorem v3_is_equivalent_zero_lift (o x y : V3 α) (hx : V3.normSq x = 1) (hy : V3.normSq y = 1)
    (hxy : V3.dot x y = 0) (a b : V2 α) :
    v3_is_equivalent (lift o x y a) (lift o x y b) 0 = v2_is_equivalent a b 0 := by
  have e3 : ∀ p q : V3 α, v3_is_equivalent p q 0 = true ↔ p = q := by
    intro p q
    unfold v3_is_equivalent
    rw [decide_eq_true_iff]
    simp only [not_lt, abs_nonpos_iff, sub_eq_zero]
    constructor
    · rintro ⟨⟨h1, h2⟩, h3⟩; exact V3.ext' h1 h2 h3
    · rintro rfl; exact ⟨⟨rfl, rfl⟩, rfl⟩
  have e2 : ∀ p q : V2 α, v2_is_equivalent p q 0 = true ↔ p = q := by
    intro p q
    unfold v2_is_equivalent
    rw [decide_eq_true_iff]
    simp only [not_lt, abs_nonpos_iff, sub_eq_zero]
    constructor
    · rintro ⟨h1, h2⟩; exact V2.ext' h1 h2
    · rintro rfl; exact ⟨rfl, rfl⟩
  rw [Bool.eq_iff_iff, e3, e2]
  exact ⟨lift_injective o x y hx hy hxy a b, fun h => by rw [h]⟩

end geom

/-! ### Polylines: segments, length, bounding box, intersection with a plane -/

section poly
open Lbg.Model.MeshCache Lbg.Model.PolylineCache Lbg.Model.IsectComposite
variable {α : Type} [Field α] [LinearOrder α] [IsStrictOrderedRing α]

/-- A 2D segment / ray mapped by the chart: base point through `lift`, direction through
`liftV`. -/
def liftSeg (o x y : V3 α) (l : LR2 α) : LR3 α := ⟨lift o x y l.p, liftV x y l.v⟩

/-- `from_end_points` commutes with the chart. -/
theorem seg3_from_end_points_lift (o x y : V3 α) (a b : V2 α) :
    seg3_from_end_points (lift o x y a) (lift o x y b) = liftSeg o x y (seg2_from_end_points a b) := by
  unfold seg3_from_end_points seg2_from_end_points liftSeg
  apply lr3_ext
  · rfl
  · apply V3.ext' <;> simp only [lift, liftV] <;> ring

/-- `Polyline3D.segments` of the chart image = images of `Polyline2D.segments`. -/
theorem segs3_lift (o x y : V3 α) (vs : List (V2 α)) :
    segs3 (vs.map (lift o x y)) = (segs2 vs).map (liftSeg o x y) := by
  unfold segs3 segs2
  rw [← List.map_tail, List.zip_map, List.map_map, List.map_map]
  apply List.map_congr_left
  intro pq _
  exact seg3_from_end_points_lift o x y pq.1 pq.2

/-- Distances between chart images (orthonormal axes): equal `sqrt` arguments. -/
theorem dist3_lift (M : MathOps α) (o x y : V3 α) (hx : V3.normSq x = 1) (hy : V3.normSq y = 1)
    (hxy : V3.dot x y = 0) (p q : V2 α) :
    dist3 M (lift o x y p) (lift o x y q) = dist2 M p q := by
  rw [dist3_eq, dist2_eq, lift_sub_lift, normSq_liftV x y hx hy hxy]

/-- **`Polyline3D.length` of the chart image = `Polyline2D.length`** (no law of `sqrt`
needed: the arguments of `sqrt` are equal). -/
theorem length3_lift (M : MathOps α) (o x y : V3 α) (hx : V3.normSq x = 1) (hy : V3.normSq y = 1)
    (hxy : V3.dot x y = 0) (vs : List (V2 α)) :
    length3 M (vs.map (lift o x y)) = length2 M vs := by
  rw [length3_eq_chainS, length2_eq_chainS, chainS_map]
  exact chainS_congr (fun p q => dist3_lift M o x y hx hy hxy p q) vs

/-- One step of the two bounding-box scans under the axis-parallel chart. -/
theorem calcMinMax3_embedAt (o : V3 α) (vs : List (V2 α)) (hne : vs ≠ []) :
    calcMinMax3 (vs.map (embedAt o)) =
      (embedAt o (calcMinMax vs).1, embedAt o (calcMinMax vs).2) := by
  cases vs with
  | nil => exact absurd rfl hne
  | cons v0 rest =>
    simp only [List.map_cons, calcMinMax3, calcMinMax]
    clear hne
    have : ∀ (mn mx : V2 α),
        List.foldl (fun (st : V3 α × V3 α) (v : V3 α) =>
          let mn := st.1
          let mx := st.2
          let x : α × α := if v.x < mn.x then (v.x, mx.x) else if v.x > mx.x then (mn.x, v.x)
            else (mn.x, mx.x)
          let y : α × α := if v.y < mn.y then (v.y, mx.y) else if v.y > mx.y then (mn.y, v.y)
            else (mn.y, mx.y)
          let z : α × α := if v.z < mn.z then (v.z, mx.z) else if v.z > mx.z then (mn.z, v.z)
            else (mn.z, mx.z)
          ((⟨x.1, y.1, z.1⟩ : V3 α), (⟨x.2, y.2, z.2⟩ : V3 α))) (embedAt o mn, embedAt o mx)
          (rest.map (embedAt o)) =
        (embedAt o (List.foldl (fun (st : V2 α × V2 α) (v : V2 α) =>
          let mn := st.1
          let mx := st.2
          let x : α × α := if v.x < mn.x then (v.x, mx.x) else if v.x > mx.x then (mn.x, v.x)
            else (mn.x, mx.x)
          let y : α × α := if v.y < mn.y then (v.y, mx.y) else if v.y > mx.y then (mn.y, v.y)
            else (mn.y, mx.y)
          ((⟨x.1, y.1⟩ : V2 α), (⟨x.2, y.2⟩ : V2 α))) (mn, mx) rest).1,
         embedAt o (List.foldl (fun (st : V2 α × V2 α) (v : V2 α) =>
          let mn := st.1
          let mx := st.2
          let x : α × α := if v.x < mn.x then (v.x, mx.x) else if v.x > mx.x then (mn.x, v.x)
            else (mn.x, mx.x)
          let y : α × α := if v.y < mn.y then (v.y, mx.y) else if v.y > mx.y then (mn.y, v.y)
            else (mn.y, mx.y)
          ((⟨x.1, y.1⟩ : V2 α), (⟨x.2, y.2⟩ : V2 α))) (mn, mx) rest).2) := by
      induction rest with
      | nil => intro mn mx; rfl
      | cons v t ih =>
        intro mn mx
        simp only [List.map_cons, List.foldl_cons]
        rw [← ih]
        congr 1
        simp only [embedAt, add_lt_add_iff_left, gt_iff_lt, lt_self_iff_false, if_false]
        refine Prod.ext ?_ ?_ <;> apply V3.ext' <;> simp only [] <;> split_ifs <;> rfl
    exact this v0 v0

/-! ### Segment ∩ plane against the plane through a chart-image line -/

/-- The plane that contains the chart image of the 2D line `b` and the chart normal
`x × y`: normal `liftV (b.v.y, −b.v.x)` (the in-plane perpendicular of the line's direction),
origin the image of `b.p`, x-axis the image of `b.v`, `y = n × x`, `k = n·o`. -/
def cutPlane (o x y : V3 α) (b : LR2 α) : PlaneS α :=
  let n := liftV x y ⟨b.v.y, -b.v.x⟩
  ⟨n, lift o x y b.p, V3.dot n (lift o x y b.p), liftV x y b.v, V3.cross n (liftV x y b.v)⟩

/-- **Kernel level**: the 3D segment ∩ plane of a chart-image segment `a` with `cutPlane b`
is the chart image of the 2D intersection of `a` with the infinite line through `b`
(same parallel guard, same parameter window, same point); the kernel for a `LineSegment2D`
argument `b`. -/
theorem intersect_plane_lift_ss (o x y : V3 α) (hx : V3.normSq x = 1) (hy : V3.normSq y = 1)
    (hxy : V3.dot x y = 0) (a b : LR2 α) :
    intersect_line3d_plane_s (liftSeg o x y a) (cutPlane o x y b) =
      (intersect_line2d_infinite_ss a b).map (lift o x y) := by
  have hd : (cutPlane o x y b).n.x * (liftSeg o x y a).v.x +
      (cutPlane o x y b).n.y * (liftSeg o x y a).v.y +
      (cutPlane o x y b).n.z * (liftSeg o x y a).v.z = b.v.y * a.v.x - b.v.x * a.v.y := by
    have := dot_liftV x y hx hy hxy ⟨b.v.y, -b.v.x⟩ a.v
    simp only [V3.dot, V2.dot] at this
    simp only [cutPlane, liftSeg]
    linear_combination this
  have hn : (cutPlane o x y b).k - ((cutPlane o x y b).n.x * (liftSeg o x y a).p.x +
      (cutPlane o x y b).n.y * (liftSeg o x y a).p.y +
      (cutPlane o x y b).n.z * (liftSeg o x y a).p.z) =
      b.v.x * (a.p.y - b.p.y) - b.v.y * (a.p.x - b.p.x) := by
    have := dot_liftV x y hx hy hxy ⟨b.v.y, -b.v.x⟩ (V2.sub b.p a.p)
    rw [← lift_sub_lift o] at this
    simp only [V3.dot, V2.dot, V3.sub, V2.sub] at this
    simp only [cutPlane, liftSeg, V3.dot]
    linear_combination this
  unfold intersect_line3d_plane_s intersect_line2d_infinite_ss
  simp only [hd, hn]
  split_ifs
  · rfl
  · rfl
  · rfl
  · simp only [Option.map_some, Option.some.injEq]
    apply V3.ext' <;> simp only [liftSeg, lift, liftV] <;> ring

/-- The same for a `Ray2D` argument `b` (the generated `_sr` variant has the same body). -/
theorem intersect_plane_lift_sr (o x y : V3 α) (hx : V3.normSq x = 1) (hy : V3.normSq y = 1)
    (hxy : V3.dot x y = 0) (a b : LR2 α) :
    intersect_line3d_plane_s (liftSeg o x y a) (cutPlane o x y b) =
      (intersect_line2d_infinite_sr a b).map (lift o x y) := by
  have e : intersect_line2d_infinite_sr a b = intersect_line2d_infinite_ss a b := by
    unfold intersect_line2d_infinite_sr intersect_line2d_infinite_ss; rfl
  rw [e]; exact intersect_plane_lift_ss o x y hx hy hxy a b

/-- `Polyline3D.segments` (as named in `Model/IsectComposite`) of the chart image. -/
theorem polylineSegments3_lift (o x y : V3 α) (vs : List (V2 α)) :
    polylineSegments3 (vs.map (lift o x y)) = (polylineSegments2 vs).map (liftSeg o x y) :=
  segs3_lift o x y vs

/-- **`Polyline3D.intersect_plane`** of the chart image with `cutPlane b` **is the chart image
of `Polyline2D.intersect_line_infinite`** — same points, same order, same multiplicities. -/
theorem polyline3IntersectPlane_lift (o x y : V3 α) (hx : V3.normSq x = 1)
    (hy : V3.normSq y = 1) (hxy : V3.dot x y = 0) (vs : List (V2 α)) (isRay : Bool) (b : LR2 α) :
    polyline3IntersectPlane (vs.map (lift o x y)) (cutPlane o x y b) =
      (polyline2IntersectLineInfinite vs isRay b).map (lift o x y) := by
  unfold polyline3IntersectPlane polyline2IntersectLineInfinite
  rw [collect_eq_filterMap, collect_eq_filterMap, polylineSegments3_lift, List.filterMap_map,
    List.map_filterMap]
  apply List.filterMap_congr
  intro s _
  simp only [Function.comp, kernel2Inf]
  cases isRay
  · simp only [Bool.false_eq_true, if_false]
    exact intersect_plane_lift_ss o x y hx hy hxy s b
  · simp only [if_true]
    exact intersect_plane_lift_sr o x y hx hy hxy s b

end poly

/-! ### Mesh faces and plane coordinates of chart images -/

section mesh
open Lbg.Model.MeshCache Lbg.Model.MeshCache3
variable {α : Type} [Field α] [LinearOrder α] [IsStrictOrderedRing α]

/-- The vertices of a face of the mapped vertex list are the mapped vertices of the face
(indices inside the vertex list). -/
theorem faceVerts3_map2 (g : V2 α → V3 α) (vs : List (V2 α)) (f : List Nat)
    (h : ∀ i ∈ f, i < vs.length) : faceVerts3 (vs.map g) f = (faceVerts vs f).map g := by
  unfold faceVerts3 faceVerts
  rw [List.map_map]
  apply List.map_congr_left
  intro i hi
  exact getD_map_of_lt g ⟨0, 0⟩ ⟨0, 0, 0⟩ vs i (h i hi)

/-- Plane coordinates of a chart-image list are the original 2D list (orthonormal axes). -/
theorem map_xyz_to_xy_lift (pl : PlaneS α) (hx : V3.normSq pl.x = 1) (hy : V3.normSq pl.y = 1)
    (hxy : V3.dot pl.x pl.y = 0) (vs : List (V2 α)) :
    (vs.map (lift pl.o pl.x pl.y)).map (plane_xyz_to_xy pl) = vs := by
  rw [List.map_map]
  conv_rhs => rw [← List.map_id vs]
  apply List.map_congr_left
  intro c _
  exact plane_xyz_to_xy_lift pl hx hy hxy c

end mesh

/-! ### List helpers for the transform laws (C02b) -/

section lists

/-- `headD` of a mapped non-empty list. -/
theorem headD_map {β γ : Type} (g : β → γ) (d : β) (d' : γ) (l : List β) (hne : l ≠ []) :
    (l.map g).headD d' = g (l.headD d) := by
  cases l with
  | nil => exact absurd rfl hne
  | cons a t => rfl

/-- `headD` of the reversed mapped list is the image of the last element. -/
theorem headD_reverse_map {β γ : Type} (g : β → γ) (d : β) (d' : γ) (l : List β) (hne : l ≠ []) :
    (l.reverse.map g).headD d' = g (l.getLast?.getD d) := by
  rw [headD_map g d d' l.reverse (by simpa using hne)]
  congr 1
  cases h : l.reverse with
  | nil => simp at h; exact absurd h hne
  | cons a t =>
    have : l = (a :: t).reverse := by rw [← h, List.reverse_reverse]
    rw [this]; simp

/-- The last element of a non-empty list is a member. -/
theorem getLast_mem_of_ne {β : Type} (d : β) (l : List β) (hne : l ≠ []) :
    l.getLast?.getD d ∈ l := by
  cases h : l.getLast? with
  | none => rw [List.getLast?_eq_none_iff] at h; exact absurd h hne
  | some a => simpa using List.mem_of_getLast? h

/-- The head of a non-empty list is a member. -/
theorem headD_mem_of_ne {β : Type} (d : β) (l : List β) (hne : l ≠ []) : l.headD d ∈ l := by
  cases l with
  | nil => exact absurd rfl hne
  | cons a t => simp

/-- A point map followed by its inverse restores a vertex list. -/
theorem map_inverse {β : Type} (g g' : β → β) (h : ∀ p, g' (g p) = p) (l : List β) :
    (l.map g).map g' = l := by
  rw [List.map_map]
  conv_rhs => rw [← List.map_id l]
  exact List.map_congr_left (fun p _ => h p)


end lists

/-! ### Mesh2D areas and mirrored loops under vertex maps (C02b) -/

section meshmaps
open Lbg.Model.MeshCache Lbg.Model.FaceCache
variable {α : Type} [Field α] [LinearOrder α] [IsStrictOrderedRing α]

/-- Fresh per-face areas under a vertex map that multiplies every `_get_area` by `c`. -/
theorem trueFaceAreas_map (g : V2 α → V2 α) (c : α)
    (hg : ∀ l : List (V2 α), getArea (l.map g) = getArea l * c) (vs : List (V2 α))
    (fs : List (List Nat)) (hwf : ∀ f ∈ fs, ∀ i ∈ f, i < vs.length) :
    trueFaceAreas (vs.map g) fs = (trueFaceAreas vs fs).map (fun a => a * c) := by
  unfold trueFaceAreas
  rw [List.map_map]
  apply List.map_congr_left
  intro f hf
  simp only [Function.comp, faceArea]
  rw [faceVerts_map g vs f (hwf f hf), hg]

/-- Fresh total area under such a map. -/
theorem trueArea_map (g : V2 α → V2 α) (c : α)
    (hg : ∀ l : List (V2 α), getArea (l.map g) = getArea l * c) (vs : List (V2 α))
    (fs : List (List Nat)) (hwf : ∀ f ∈ fs, ∀ i ∈ f, i < vs.length) :
    trueArea (vs.map g) fs = trueArea vs fs * c := by
  unfold trueArea
  rw [trueFaceAreas_map g c hg vs fs hwf, pySum_map_mul_right]

/-- Signed area of the mirrored, reversed loop: unchanged (two sign changes). -/
theorem shoelace_reverse_mirror (l : List (V2 α)) :
    shoelace (l.reverse.map mirrorY) = shoelace l := by
  rw [shoelace_affine_of mirrorY 1 0 0 (-1) 0 0 (fun p => by simp [mirrorY])
    (fun p => by simp [mirrorY]), shoelace_reverse]
  ring


end meshmaps

end Lbg.Lemmas
