/-
  Lemmas.Closest — closed-form models of the closest-point kernels
  (`closest_point2d_on_line2d_*`, `closest_point3d_on_line3d_*`, `closest_point3d_on_plane`,
  `closest_point3d_between_line3d_plane_*`) and their metric properties
  (membership, minimality, zero-distance characterisation, non-expansiveness).
-/
import LbgVerif.Gen.Isect2
import LbgVerif.Gen.Isect3
import LbgVerif.Gen.Plane
import LbgVerif.Gen.Line
import LbgVerif.Lemmas.Isect2
import LbgVerif.Lemmas.Isect3
import Mathlib.Algebra.Order.Group.MinMax
import Mathlib.Tactic.Ring
import Mathlib.Tactic.FieldSimp
import Mathlib.Tactic.Linarith
import Mathlib.Tactic.Positivity
import Mathlib.Tactic.SplitIfs
import Mathlib.Tactic.LinearCombination
import Mathlib.Tactic.NormNum

set_option linter.unusedSectionVars false
set_option linter.unusedSimpArgs false

namespace Lbg.Lemmas
open Lbg Lbg.Gen
variable {α : Type} [Field α] [LinearOrder α] [IsStrictOrderedRing α]

/-! ### One-dimensional facts about clamping -/

/-- The clamped parameter is the admissible parameter nearest to `u`. -/
theorem Rng.clamp_nearest (k : Rng) (u t : α) (ht : k.ok t) :
    (k.clamp u - u) * (k.clamp u - u) ≤ (t - u) * (t - u) := by
  by_cases hu : k.ok u
  · rw [k.clamp_of_ok u hu, sub_self, mul_zero]; exact mul_self_nonneg _
  · cases k
    · obtain ⟨h0, h1⟩ := ht
      simp only [Rng.ok, not_and_or, not_le] at hu
      rcases hu with hu | hu
      · have : Rng.seg.clamp u = 0 := by
          simp only [Rng.clamp]
          rw [min_eq_left (le_trans hu.le zero_le_one), max_eq_right hu.le]
        rw [this]; nlinarith
      · have : Rng.seg.clamp u = 1 := by
          simp only [Rng.clamp]
          rw [min_eq_right hu.le, max_eq_left zero_le_one]
        rw [this]; nlinarith
    · simp only [Rng.ok, not_le] at hu ht
      have : Rng.ray.clamp u = 0 := by simp only [Rng.clamp]; exact max_eq_right hu.le
      rw [this]; nlinarith
    · exact absurd trivial hu

/-- Clamping is 1-Lipschitz (squared form). -/
theorem Rng.clamp_lipschitz (k : Rng) (u w : α) :
    (k.clamp u - k.clamp w) * (k.clamp u - k.clamp w) ≤ (u - w) * (u - w) := by
  have key : |k.clamp u - k.clamp w| ≤ |u - w| := by
    cases k
    · simp only [Rng.clamp]
      refine le_trans (abs_max_sub_max_le_abs _ _ _) ?_
      refine le_trans (abs_min_sub_min_le_max _ _ _ _) ?_
      rw [sub_self, abs_zero, max_eq_left (abs_nonneg _)]
    · simp only [Rng.clamp]; exact abs_max_sub_max_le_abs _ _ _
    · exact le_refl _
  have := mul_self_le_mul_self (abs_nonneg _) key
  rwa [abs_mul_abs_self, abs_mul_abs_self] at this

/-! ### 2D -/

/-- Squared distance in 2D, spelled out. -/
def dsq2 (a b : V2 α) : α := (a.x - b.x) * (a.x - b.x) + (a.y - b.y) * (a.y - b.y)

/-- The point `l.p + t·l.v`. -/
def at2 (l : LR2 α) (t : α) : V2 α := ⟨l.p.x + t * l.v.x, l.p.y + t * l.v.y⟩

theorem Rng.On_iff_at2 (k : Rng) (l : LR2 α) (q : V2 α) :
    k.On l q ↔ ∃ t, k.ok t ∧ q = at2 l t := by
  rw [Rng.On_iff]; simp only [at2, V2.ext'_iff]

/-- Unclamped projection parameter of `q` on the carrier line of `l`. -/
def proj2 (q : V2 α) (l : LR2 α) : α :=
  ((q.x - l.p.x) * l.v.x + (q.y - l.p.y) * l.v.y) / (l.v.x * l.v.x + l.v.y * l.v.y)

/-- Model of `closest_point2d_on_line2d_*`. -/
def closest2 (k : Rng) (q : V2 α) (l : LR2 α) : V2 α :=
  if l.v.x * l.v.x + l.v.y * l.v.y = 0 then l.p else at2 l (k.clamp (proj2 q l))

theorem dsq2_nonneg (a b : V2 α) : 0 ≤ dsq2 a b := by
  simp only [dsq2]; nlinarith [mul_self_nonneg (a.x - b.x), mul_self_nonneg (a.y - b.y)]

theorem dsq2_eq_zero_iff (a b : V2 α) : dsq2 a b = 0 ↔ a = b := by
  simp only [dsq2]
  constructor
  · intro h
    have hx := mul_self_nonneg (a.x - b.x)
    have hy := mul_self_nonneg (a.y - b.y)
    apply V2.ext' <;> apply sub_eq_zero.mp <;> apply mul_self_eq_zero.mp <;> linarith
  · rintro rfl; ring

theorem v2_zero_of_normSq (l : LR2 α) (h : l.v.x * l.v.x + l.v.y * l.v.y = 0) :
    l.v.x = 0 ∧ l.v.y = 0 := by
  have hx := mul_self_nonneg l.v.x
  have hy := mul_self_nonneg l.v.y
  constructor <;> apply mul_self_eq_zero.mp <;> linarith

theorem at2_of_zero (l : LR2 α) (h : l.v.x * l.v.x + l.v.y * l.v.y = 0) (t : α) :
    at2 l t = l.p := by
  obtain ⟨hx, hy⟩ := v2_zero_of_normSq l h
  simp only [at2, hx, hy, mul_zero, add_zero]

/-- Distance profile along the line: a convex quadratic centred at the projection parameter. -/
theorem dsq2_at2 (q : V2 α) (l : LR2 α) (h : l.v.x * l.v.x + l.v.y * l.v.y ≠ 0) (t t' : α) :
    dsq2 q (at2 l t) - dsq2 q (at2 l t') =
      (l.v.x * l.v.x + l.v.y * l.v.y) *
        ((t - proj2 q l) * (t - proj2 q l) - (t' - proj2 q l) * (t' - proj2 q l)) := by
  have hu : proj2 q l * (l.v.x * l.v.x + l.v.y * l.v.y)
      = (q.x - l.p.x) * l.v.x + (q.y - l.p.y) * l.v.y := div_mul_cancel₀ _ h
  simp only [dsq2, at2]
  linear_combination (2 * (t - t')) * hu

theorem closest2_on (k : Rng) (q : V2 α) (l : LR2 α) : k.On l (closest2 k q l) := by
  rw [Rng.On_iff_at2]
  unfold closest2
  split_ifs with h
  · refine ⟨k.clamp 0, k.clamp_ok 0, (at2_of_zero l h _).symm⟩
  · exact ⟨_, k.clamp_ok _, rfl⟩

theorem closest2_min (k : Rng) (q : V2 α) (l : LR2 α) (t : α) (ht : k.ok t) :
    dsq2 q (closest2 k q l) ≤ dsq2 q (at2 l t) := by
  unfold closest2
  split_ifs with h
  · rw [at2_of_zero l h]
  · have hpos : 0 < l.v.x * l.v.x + l.v.y * l.v.y :=
      lt_of_le_of_ne (by nlinarith [mul_self_nonneg l.v.x, mul_self_nonneg l.v.y]) (Ne.symm h)
    have := dsq2_at2 q l h t (k.clamp (proj2 q l))
    have hc := k.clamp_nearest (proj2 q l) t ht
    nlinarith [mul_nonneg hpos.le (sub_nonneg.mpr hc)]

theorem closest2_zero_iff (k : Rng) (q : V2 α) (l : LR2 α) :
    dsq2 q (closest2 k q l) = 0 ↔ k.On l q := by
  constructor
  · intro h
    rw [(dsq2_eq_zero_iff _ _).mp h]; exact closest2_on k q l
  · intro h
    obtain ⟨t, ht, rfl⟩ := (Rng.On_iff_at2 k l q).mp h
    have h1 := closest2_min k (at2 l t) l t ht
    have h2 := dsq2_nonneg (at2 l t) (closest2 k (at2 l t) l)
    have h3 : dsq2 (at2 l t) (at2 l t) = 0 := (dsq2_eq_zero_iff _ _).mpr rfl
    linarith

/-- Cauchy–Schwarz in 2D. -/
theorem cauchy2 (a b c d : α) : (a * c + b * d) * (a * c + b * d) ≤ (a * a + b * b) * (c * c + d * d) := by
  nlinarith [mul_self_nonneg (a * d - b * c)]

/-- Projection onto a segment / ray / line is non-expansive. -/
theorem closest2_nonexpansive (k : Rng) (q1 q2 : V2 α) (l : LR2 α) :
    dsq2 (closest2 k q1 l) (closest2 k q2 l) ≤ dsq2 q1 q2 := by
  unfold closest2
  split_ifs with h
  · rw [(dsq2_eq_zero_iff _ _).mpr rfl]; exact dsq2_nonneg _ _
  · have hpos : 0 < l.v.x * l.v.x + l.v.y * l.v.y :=
      lt_of_le_of_ne (by nlinarith [mul_self_nonneg l.v.x, mul_self_nonneg l.v.y]) (Ne.symm h)
    have hu1 : proj2 q1 l * (l.v.x * l.v.x + l.v.y * l.v.y)
        = (q1.x - l.p.x) * l.v.x + (q1.y - l.p.y) * l.v.y := div_mul_cancel₀ _ h
    have hu2 : proj2 q2 l * (l.v.x * l.v.x + l.v.y * l.v.y)
        = (q2.x - l.p.x) * l.v.x + (q2.y - l.p.y) * l.v.y := div_mul_cancel₀ _ h
    have hl := k.clamp_lipschitz (proj2 q1 l) (proj2 q2 l)
    have hc := cauchy2 (q1.x - q2.x) (q1.y - q2.y) l.v.x l.v.y
    have e1 : dsq2 (at2 l (k.clamp (proj2 q1 l))) (at2 l (k.clamp (proj2 q2 l)))
        = (l.v.x * l.v.x + l.v.y * l.v.y) *
          ((k.clamp (proj2 q1 l) - k.clamp (proj2 q2 l)) *
            (k.clamp (proj2 q1 l) - k.clamp (proj2 q2 l))) := by
      simp only [dsq2, at2]; ring
    have e2 : (proj2 q1 l - proj2 q2 l) * (l.v.x * l.v.x + l.v.y * l.v.y)
        = (q1.x - q2.x) * l.v.x + (q1.y - q2.y) * l.v.y := by
      linear_combination hu1 - hu2
    rw [e1]
    have h3 : (l.v.x * l.v.x + l.v.y * l.v.y) *
        ((k.clamp (proj2 q1 l) - k.clamp (proj2 q2 l)) *
          (k.clamp (proj2 q1 l) - k.clamp (proj2 q2 l)))
        ≤ (l.v.x * l.v.x + l.v.y * l.v.y) *
          ((proj2 q1 l - proj2 q2 l) * (proj2 q1 l - proj2 q2 l)) :=
      mul_le_mul_of_nonneg_left hl hpos.le
    refine le_trans h3 ?_
    rw [← mul_le_mul_iff_of_pos_left hpos]
    have : (l.v.x * l.v.x + l.v.y * l.v.y) * ((l.v.x * l.v.x + l.v.y * l.v.y) *
        ((proj2 q1 l - proj2 q2 l) * (proj2 q1 l - proj2 q2 l)))
        = ((q1.x - q2.x) * l.v.x + (q1.y - q2.y) * l.v.y)
          * ((q1.x - q2.x) * l.v.x + (q1.y - q2.y) * l.v.y) := by
      rw [← e2]; ring
    rw [this]
    simp only [dsq2]
    linarith

/-! The generated 2D kernels are instances of the model. -/

theorem closest_point2d_on_line2d_s_eq (q : V2 α) (l : LR2 α) :
    closest_point2d_on_line2d_s q l = closest2 .seg q l := by
  unfold closest_point2d_on_line2d_s closest2
  simp only [clamp_if_seg, Rng.clamp, proj2, at2]
  split_ifs <;> rfl

theorem closest_point2d_on_line2d_r_eq (q : V2 α) (l : LR2 α) :
    closest_point2d_on_line2d_r q l = closest2 .ray q l := by
  unfold closest_point2d_on_line2d_r closest2
  simp only [clamp_if_ray, Rng.clamp, proj2, at2]
  split_ifs <;> rfl

theorem closest_point2d_on_line2d_infinite_s_eq (q : V2 α) (l : LR2 α) :
    closest_point2d_on_line2d_infinite_s q l = closest2 .line q l := by
  unfold closest_point2d_on_line2d_infinite_s closest2
  simp only [Rng.clamp, proj2, at2]
  split_ifs <;> rfl

theorem closest_point2d_on_line2d_infinite_r_eq (q : V2 α) (l : LR2 α) :
    closest_point2d_on_line2d_infinite_r q l = closest2 .line q l := by
  unfold closest_point2d_on_line2d_infinite_r closest2
  simp only [Rng.clamp, proj2, at2]
  split_ifs <;> rfl


/-! ### 3D lines -/

/-- Squared distance in 3D, spelled out. -/
def dsq3 (a b : V3 α) : α :=
  (a.x - b.x) * (a.x - b.x) + (a.y - b.y) * (a.y - b.y) + (a.z - b.z) * (a.z - b.z)

/-- Unclamped projection parameter of `q` on the carrier line of `l`. -/
def proj3 (q : V3 α) (l : LR3 α) : α :=
  ((q.x - l.p.x) * l.v.x + (q.y - l.p.y) * l.v.y + (q.z - l.p.z) * l.v.z)
    / (l.v.x * l.v.x + l.v.y * l.v.y + l.v.z * l.v.z)

/-- Model of `closest_point3d_on_line3d_*`. -/
def closest3 (k : Rng) (q : V3 α) (l : LR3 α) : V3 α :=
  if l.v.x * l.v.x + l.v.y * l.v.y + l.v.z * l.v.z = 0 then l.p
  else at3 l (k.clamp (proj3 q l))

theorem dsq3_nonneg (a b : V3 α) : 0 ≤ dsq3 a b := by
  simp only [dsq3]
  nlinarith [mul_self_nonneg (a.x - b.x), mul_self_nonneg (a.y - b.y),
    mul_self_nonneg (a.z - b.z)]

theorem dsq3_eq_zero_iff (a b : V3 α) : dsq3 a b = 0 ↔ a = b := by
  simp only [dsq3]
  constructor
  · intro h
    have hx := mul_self_nonneg (a.x - b.x)
    have hy := mul_self_nonneg (a.y - b.y)
    have hz := mul_self_nonneg (a.z - b.z)
    apply V3.ext' <;> apply sub_eq_zero.mp <;> apply mul_self_eq_zero.mp <;> linarith
  · rintro rfl; ring

theorem at3_of_zero (l : LR3 α) (h : l.v.x * l.v.x + l.v.y * l.v.y + l.v.z * l.v.z = 0)
    (t : α) : at3 l t = l.p := by
  obtain ⟨hx, hy, hz⟩ := (normSq3_eq_zero_iff l.v).mp h
  simp only [at3, hx, hy, hz, mul_zero, add_zero]

theorem vv3_pos (l : LR3 α) (h : l.v.x * l.v.x + l.v.y * l.v.y + l.v.z * l.v.z ≠ 0) :
    0 < l.v.x * l.v.x + l.v.y * l.v.y + l.v.z * l.v.z :=
  lt_of_le_of_ne (normSq3_nonneg l.v) (Ne.symm h)

/-- Distance profile along the 3D line. -/
theorem dsq3_at3 (q : V3 α) (l : LR3 α)
    (h : l.v.x * l.v.x + l.v.y * l.v.y + l.v.z * l.v.z ≠ 0) (t t' : α) :
    dsq3 q (at3 l t) - dsq3 q (at3 l t') =
      (l.v.x * l.v.x + l.v.y * l.v.y + l.v.z * l.v.z) *
        ((t - proj3 q l) * (t - proj3 q l) - (t' - proj3 q l) * (t' - proj3 q l)) := by
  have hu : proj3 q l * (l.v.x * l.v.x + l.v.y * l.v.y + l.v.z * l.v.z)
      = (q.x - l.p.x) * l.v.x + (q.y - l.p.y) * l.v.y + (q.z - l.p.z) * l.v.z :=
    div_mul_cancel₀ _ h
  simp only [dsq3, at3]
  linear_combination (2 * (t - t')) * hu

theorem closest3_on (k : Rng) (q : V3 α) (l : LR3 α) : k.On3 l (closest3 k q l) := by
  rw [Rng.On3_iff]
  unfold closest3
  split_ifs with h
  · refine ⟨k.clamp 0, k.clamp_ok 0, (at3_of_zero l h _).symm⟩
  · exact ⟨_, k.clamp_ok _, rfl⟩

theorem closest3_min (k : Rng) (q : V3 α) (l : LR3 α) (t : α) (ht : k.ok t) :
    dsq3 q (closest3 k q l) ≤ dsq3 q (at3 l t) := by
  unfold closest3
  split_ifs with h
  · rw [at3_of_zero l h]
  · have hpos := vv3_pos l h
    have := dsq3_at3 q l h t (k.clamp (proj3 q l))
    have hc := k.clamp_nearest (proj3 q l) t ht
    nlinarith [mul_nonneg hpos.le (sub_nonneg.mpr hc)]

theorem closest3_zero_iff (k : Rng) (q : V3 α) (l : LR3 α) :
    dsq3 q (closest3 k q l) = 0 ↔ k.On3 l q := by
  constructor
  · intro h
    rw [(dsq3_eq_zero_iff _ _).mp h]; exact closest3_on k q l
  · intro h
    obtain ⟨t, ht, rfl⟩ := (Rng.On3_iff k l q).mp h
    have h1 := closest3_min k (at3 l t) l t ht
    have h2 := dsq3_nonneg (at3 l t) (closest3 k (at3 l t) l)
    have h3 : dsq3 (at3 l t) (at3 l t) = 0 := (dsq3_eq_zero_iff _ _).mpr rfl
    linarith

theorem closest3_nonexpansive (k : Rng) (q1 q2 : V3 α) (l : LR3 α) :
    dsq3 (closest3 k q1 l) (closest3 k q2 l) ≤ dsq3 q1 q2 := by
  unfold closest3
  split_ifs with h
  · rw [(dsq3_eq_zero_iff _ _).mpr rfl]; exact dsq3_nonneg _ _
  · have hpos := vv3_pos l h
    have hu1 : proj3 q1 l * (l.v.x * l.v.x + l.v.y * l.v.y + l.v.z * l.v.z)
        = (q1.x - l.p.x) * l.v.x + (q1.y - l.p.y) * l.v.y + (q1.z - l.p.z) * l.v.z :=
      div_mul_cancel₀ _ h
    have hu2 : proj3 q2 l * (l.v.x * l.v.x + l.v.y * l.v.y + l.v.z * l.v.z)
        = (q2.x - l.p.x) * l.v.x + (q2.y - l.p.y) * l.v.y + (q2.z - l.p.z) * l.v.z :=
      div_mul_cancel₀ _ h
    have hl := k.clamp_lipschitz (proj3 q1 l) (proj3 q2 l)
    have hc := cauchy3 (V3.sub q1 q2) l.v
    simp only [V3.dot, V3.normSq, V3.sub] at hc
    have e1 : dsq3 (at3 l (k.clamp (proj3 q1 l))) (at3 l (k.clamp (proj3 q2 l)))
        = (l.v.x * l.v.x + l.v.y * l.v.y + l.v.z * l.v.z) *
          ((k.clamp (proj3 q1 l) - k.clamp (proj3 q2 l)) *
            (k.clamp (proj3 q1 l) - k.clamp (proj3 q2 l))) := by
      simp only [dsq3, at3]; ring
    have e2 : (proj3 q1 l - proj3 q2 l) * (l.v.x * l.v.x + l.v.y * l.v.y + l.v.z * l.v.z)
        = (q1.x - q2.x) * l.v.x + (q1.y - q2.y) * l.v.y + (q1.z - q2.z) * l.v.z := by
      linear_combination hu1 - hu2
    rw [e1]
    refine le_trans (mul_le_mul_of_nonneg_left hl hpos.le) ?_
    rw [← mul_le_mul_iff_of_pos_left hpos]
    have : (l.v.x * l.v.x + l.v.y * l.v.y + l.v.z * l.v.z) *
        ((l.v.x * l.v.x + l.v.y * l.v.y + l.v.z * l.v.z) *
          ((proj3 q1 l - proj3 q2 l) * (proj3 q1 l - proj3 q2 l)))
        = ((q1.x - q2.x) * l.v.x + (q1.y - q2.y) * l.v.y + (q1.z - q2.z) * l.v.z)
          * ((q1.x - q2.x) * l.v.x + (q1.y - q2.y) * l.v.y + (q1.z - q2.z) * l.v.z) := by
      rw [← e2]; ring
    rw [this]
    simp only [dsq3]
    linarith

theorem closest_point3d_on_line3d_s_eq (q : V3 α) (l : LR3 α) :
    closest_point3d_on_line3d_s q l = closest3 .seg q l := by
  unfold closest_point3d_on_line3d_s closest3
  simp only [clamp_if_seg, Rng.clamp, proj3, at3]
  split_ifs <;> rfl

theorem closest_point3d_on_line3d_r_eq (q : V3 α) (l : LR3 α) :
    closest_point3d_on_line3d_r q l = closest3 .ray q l := by
  unfold closest_point3d_on_line3d_r closest3
  simp only [clamp_if_ray, Rng.clamp, proj3, at3]
  split_ifs <;> rfl

theorem closest_point3d_on_line3d_infinite_s_eq (q : V3 α) (l : LR3 α) :
    closest_point3d_on_line3d_infinite_s q l = closest3 .line q l := by
  unfold closest_point3d_on_line3d_infinite_s closest3
  simp only [Rng.clamp, proj3, at3]
  split_ifs <;> rfl

theorem closest_point3d_on_line3d_infinite_r_eq (q : V3 α) (l : LR3 α) :
    closest_point3d_on_line3d_infinite_r q l = closest3 .line q l := by
  unfold closest_point3d_on_line3d_infinite_r closest3
  simp only [Rng.clamp, proj3, at3]
  split_ifs <;> rfl

/-! ### Plane -/

/-- Signed offset `n·q − k` of `q` from the plane. -/
def poff (pl : PlaneS α) (q : V3 α) : α :=
  pl.n.x * q.x + pl.n.y * q.y + pl.n.z * q.z - pl.k

/-- Model of `closest_point3d_on_plane` / `plane_closest_point`: `q − (n·q − k)·n`. -/
def cpp (q : V3 α) (pl : PlaneS α) : V3 α :=
  ⟨q.x - pl.n.x * poff pl q, q.y - pl.n.y * poff pl q, q.z - pl.n.z * poff pl q⟩

theorem closest_point3d_on_plane_eq (q : V3 α) (pl : PlaneS α) :
    closest_point3d_on_plane q pl = cpp q pl := by
  unfold closest_point3d_on_plane cpp
  simp only [poff]
  ext <;> simp only [] <;> ring

theorem plane_closest_point_eq (pl : PlaneS α) (q : V3 α) :
    plane_closest_point pl q = cpp q pl := by
  unfold plane_closest_point cpp
  simp only [poff]
  ext <;> simp only [] <;> ring

theorem poff_cpp (q : V3 α) (pl : PlaneS α) (hn : V3.normSq pl.n = 1) :
    poff pl (cpp q pl) = 0 := by
  simp only [V3.normSq] at hn
  simp only [poff, cpp]
  linear_combination (-(pl.n.x * q.x + pl.n.y * q.y + pl.n.z * q.z - pl.k)) * hn

theorem dsq3_cpp (q : V3 α) (pl : PlaneS α) (hn : V3.normSq pl.n = 1) :
    dsq3 q (cpp q pl) = poff pl q * poff pl q := by
  simp only [V3.normSq] at hn
  simp only [dsq3, cpp]
  linear_combination (poff pl q * poff pl q) * hn

/-- Distance from `q` to any point `x` of the plane is at least the offset of `q`. -/
theorem poff_sq_le_dsq3 (q x : V3 α) (pl : PlaneS α) (hn : V3.normSq pl.n = 1) :
    (poff pl q - poff pl x) * (poff pl q - poff pl x) ≤ dsq3 q x := by
  have hc := cauchy3 pl.n (V3.sub q x)
  rw [hn, one_mul] at hc
  simp only [V3.dot, V3.normSq, V3.sub] at hc
  simp only [poff, dsq3]
  linarith

theorem cpp_min (q x : V3 α) (pl : PlaneS α) (hn : V3.normSq pl.n = 1) (hx : poff pl x = 0) :
    dsq3 q (cpp q pl) ≤ dsq3 q x := by
  have := poff_sq_le_dsq3 q x pl hn
  rw [hx, sub_zero] at this
  rw [dsq3_cpp q pl hn]; exact this

theorem cpp_zero_iff (q : V3 α) (pl : PlaneS α) (hn : V3.normSq pl.n = 1) :
    dsq3 q (cpp q pl) = 0 ↔ poff pl q = 0 := by
  rw [dsq3_cpp q pl hn]; exact mul_self_eq_zero

theorem cpp_nonexpansive (q1 q2 : V3 α) (pl : PlaneS α) (hn : V3.normSq pl.n = 1) :
    dsq3 (cpp q1 pl) (cpp q2 pl) ≤ dsq3 q1 q2 := by
  have e : dsq3 (cpp q1 pl) (cpp q2 pl)
      = dsq3 q1 q2 - (poff pl q1 - poff pl q2) * (poff pl q1 - poff pl q2) := by
    simp only [V3.normSq] at hn
    simp only [dsq3, cpp, poff]
    linear_combination
      ((pl.n.x * q1.x + pl.n.y * q1.y + pl.n.z * q1.z - pl.k
          - (pl.n.x * q2.x + pl.n.y * q2.y + pl.n.z * q2.z - pl.k))
        * (pl.n.x * q1.x + pl.n.y * q1.y + pl.n.z * q1.z - pl.k
          - (pl.n.x * q2.x + pl.n.y * q2.y + pl.n.z * q2.z - pl.k))) * hn
  rw [e]
  linarith [mul_self_nonneg (poff pl q1 - poff pl q2)]

/-- `√(y²) = |y|` from the square-root laws. -/
theorem sqrt_mul_self_eq_abs (M : MathOps α)
    (hsqrt : ∀ x, 0 ≤ x → M.sqrt x * M.sqrt x = x ∧ 0 ≤ M.sqrt x) (y : α) :
    M.sqrt (y * y) = |y| := by
  obtain ⟨h1, h2⟩ := hsqrt (y * y) (mul_self_nonneg y)
  have h3 : M.sqrt (y * y) * M.sqrt (y * y) = |y| * |y| := by rw [h1, abs_mul_abs_self]
  exact (mul_self_inj h2 (abs_nonneg y)).mp h3


/-! ### Segment / ray versus plane -/

/-- Model of `closest_point3d_between_line3d_plane_*`: `none` when the operand crosses the plane,
otherwise the admissible point nearest to the plane together with its foot on the plane. -/
def closestLP (k : Rng) (l : LR3 α) (pl : PlaneS α) : Option (V3 α × V3 α) :=
  if nv l pl = 0 then some (l.p, cpp l.p pl)
  else if k.ok (upl l pl) then none
  else some (at3 l (k.clamp (upl l pl)), cpp (at3 l (k.clamp (upl l pl))) pl)

theorem closest_point3d_between_line3d_plane_s_eq (l : LR3 α) (pl : PlaneS α) :
    closest_point3d_between_line3d_plane_s l pl = closestLP .seg l pl := by
  unfold closestLP
  split_ifs with h1 h2
  · unfold closest_point3d_between_line3d_plane_s
    simp only [nv] at h1
    simp only [h1, ↓reduceIte, cpp, poff]
    refine congrArg some (Prod.ext ?_ ?_) <;> (ext <;> (try simp only []) <;> ring)
  · unfold closest_point3d_between_line3d_plane_s
    simp only [nv, upl, Rng.ok] at h1 h2
    simp only [h1, ↓reduceIte, not_lt.mpr h2.1, not_lt.mpr h2.2]
  · unfold closest_point3d_between_line3d_plane_s
    simp only [nv, upl, Rng.ok] at h1 h2
    simp only [h1, ↓reduceIte, upl, Rng.clamp, at3, cpp, poff]
    split_ifs with h3 h4
    · refine congrArg some (Prod.ext ?_ ?_) <;> (ext <;> (try simp only []) <;> ring)
    · refine congrArg some (Prod.ext ?_ ?_) <;> (ext <;> (try simp only []) <;> ring)
    · exact absurd ⟨not_lt.mp h3, not_lt.mp h4⟩ h2

theorem closest_point3d_between_line3d_plane_r_eq (l : LR3 α) (pl : PlaneS α) :
    closest_point3d_between_line3d_plane_r l pl = closestLP .ray l pl := by
  unfold closestLP
  split_ifs with h1 h2
  · unfold closest_point3d_between_line3d_plane_r
    simp only [nv] at h1
    simp only [h1, ↓reduceIte, cpp, poff]
    refine congrArg some (Prod.ext ?_ ?_) <;> (ext <;> (try simp only []) <;> ring)
  · unfold closest_point3d_between_line3d_plane_r
    simp only [nv, upl, Rng.ok] at h1 h2
    simp only [h1, ↓reduceIte, not_lt.mpr h2]
  · unfold closest_point3d_between_line3d_plane_r
    simp only [nv, upl, Rng.ok] at h1 h2
    simp only [h1, ↓reduceIte, upl, Rng.clamp, at3, cpp, poff]
    split_ifs with h3
    · rw [min_eq_left (le_trans h3.le zero_le_one)]
      refine congrArg some (Prod.ext ?_ ?_) <;> (ext <;> (try simp only []) <;> ring)
    · exact absurd (not_lt.mp h3) h2

/-- The offset from the plane is affine along the line. -/
theorem poff_at3 (l : LR3 α) (pl : PlaneS α) (h : nv l pl ≠ 0) (t : α) :
    poff pl (at3 l t) = nv l pl * (t - upl l pl) := by
  have hu : upl l pl * nv l pl
      = pl.k - (pl.n.x * l.p.x + pl.n.y * l.p.y + pl.n.z * l.p.z) := div_mul_cancel₀ _ h
  simp only [nv] at hu ⊢
  simp only [poff, at3]
  linear_combination hu

theorem poff_at3_of_parallel (l : LR3 α) (pl : PlaneS α) (h : nv l pl = 0) (t : α) :
    poff pl (at3 l t) = poff pl l.p := by
  simp only [nv] at h
  simp only [poff, at3]
  linear_combination t * h

/-- What `closestLP` returns: an admissible point `a` of the operand whose offset from the plane
is minimal in absolute value among admissible points, and `b`, the foot of `a` on the plane. -/
theorem closestLP_some (k : Rng) (l : LR3 α) (pl : PlaneS α) (a b : V3 α)
    (h : closestLP k l pl = some (a, b)) :
    k.On3 l a ∧ b = cpp a pl ∧
      ∀ t, k.ok t → poff pl a * poff pl a ≤ poff pl (at3 l t) * poff pl (at3 l t) := by
  unfold closestLP at h
  split_ifs at h with h1 h2
  · simp only [Option.some.injEq, Prod.mk.injEq] at h
    obtain ⟨rfl, rfl⟩ := h
    refine ⟨(Rng.On3_iff k l _).mpr ⟨0, ?_, ?_⟩, rfl, ?_⟩
    · cases k
      · exact ⟨le_refl _, zero_le_one⟩
      · exact le_refl _
      · trivial
    · simp only [at3, zero_mul, add_zero]
    · intro t _; rw [poff_at3_of_parallel l pl h1]
  · simp only [Option.some.injEq, Prod.mk.injEq] at h
    obtain ⟨rfl, rfl⟩ := h
    refine ⟨(Rng.On3_iff k l _).mpr ⟨_, k.clamp_ok _, rfl⟩, rfl, ?_⟩
    intro t ht
    rw [poff_at3 l pl h1, poff_at3 l pl h1]
    have := k.clamp_nearest (upl l pl) t ht
    nlinarith [mul_nonneg (mul_self_nonneg (nv l pl)) (sub_nonneg.mpr this)]

theorem closestLP_none_iff (k : Rng) (l : LR3 α) (pl : PlaneS α) :
    closestLP k l pl = none ↔ (isectLP k l pl).isSome = true := by
  rw [isectLP_isSome_iff]
  unfold closestLP
  split_ifs with h1 h2 <;> simp_all


/-! ### Distances (with `math.sqrt`) -/

section Sqrt
variable (M : MathOps α) (hsqrt : ∀ x, 0 ≤ x → M.sqrt x * M.sqrt x = x ∧ 0 ≤ M.sqrt x)
include hsqrt

theorem sqrt_eq_zero_iff (x : α) (hx : 0 ≤ x) : M.sqrt x = 0 ↔ x = 0 := by
  obtain ⟨h1, _⟩ := hsqrt x hx
  constructor
  · intro h; rw [h, mul_zero] at h1; exact h1.symm
  · intro h; rw [h] at h1 ⊢; exact mul_self_eq_zero.mp h1

theorem sqrt_le_sqrt (x y : α) (hx : 0 ≤ x) (hxy : x ≤ y) : M.sqrt x ≤ M.sqrt y := by
  obtain ⟨h1, h2⟩ := hsqrt x hx
  obtain ⟨h3, h4⟩ := hsqrt y (le_trans hx hxy)
  by_contra hlt
  have := mul_self_lt_mul_self h4 (not_le.mp hlt)
  linarith

omit hsqrt in
/-- `C ≤ A + B` from `C² ≤ (A + B)²` for non-negative `A`, `B`. -/
theorem le_add_of_sq (A B C : α) (hA : 0 ≤ A) (hB : 0 ≤ B)
    (h : C * C ≤ (A + B) * (A + B)) : C ≤ A + B := by
  by_contra hlt
  have := mul_self_lt_mul_self (add_nonneg hA hB) (not_le.mp hlt)
  linarith

omit hsqrt in
/-- `x ≤ A·B` from `x² ≤ A²B²` with `A, B ≥ 0`. -/
theorem le_mul_of_sq (x A B : α) (hA : 0 ≤ A) (hB : 0 ≤ B)
    (h : x * x ≤ (A * A) * (B * B)) : x ≤ A * B := by
  by_contra hlt
  have := mul_self_lt_mul_self (mul_nonneg hA hB) (not_le.mp hlt)
  nlinarith

/-- Triangle inequality for the square-rooted squared distance (3D). -/
theorem sqrt_triangle3 (a b c : V3 α) :
    M.sqrt (dsq3 a c) ≤ M.sqrt (dsq3 a b) + M.sqrt (dsq3 b c) := by
  obtain ⟨a1, a2⟩ := hsqrt _ (dsq3_nonneg a b)
  obtain ⟨b1, b2⟩ := hsqrt _ (dsq3_nonneg b c)
  obtain ⟨c1, c2⟩ := hsqrt _ (dsq3_nonneg a c)
  apply le_add_of_sq _ _ _ a2 b2
  have hc := cauchy3 (V3.sub a b) (V3.sub b c)
  have e1 : V3.normSq (V3.sub a b) = dsq3 a b := rfl
  have e2 : V3.normSq (V3.sub b c) = dsq3 b c := rfl
  rw [e1, e2, ← a1, ← b1] at hc
  have hd := le_mul_of_sq _ _ _ a2 b2 hc
  have e3 : dsq3 a c = dsq3 a b + dsq3 b c + 2 * V3.dot (V3.sub a b) (V3.sub b c) := by
    simp only [dsq3, V3.dot, V3.sub]; ring
  nlinarith

/-- Triangle inequality for the square-rooted squared distance (2D). -/
theorem sqrt_triangle2 (a b c : V2 α) :
    M.sqrt (dsq2 a c) ≤ M.sqrt (dsq2 a b) + M.sqrt (dsq2 b c) := by
  obtain ⟨a1, a2⟩ := hsqrt _ (dsq2_nonneg a b)
  obtain ⟨b1, b2⟩ := hsqrt _ (dsq2_nonneg b c)
  obtain ⟨c1, c2⟩ := hsqrt _ (dsq2_nonneg a c)
  apply le_add_of_sq _ _ _ a2 b2
  have hc := cauchy2 (a.x - b.x) (a.y - b.y) (b.x - c.x) (b.y - c.y)
  have e1 : (a.x - b.x) * (a.x - b.x) + (a.y - b.y) * (a.y - b.y) = dsq2 a b := rfl
  have e2 : (b.x - c.x) * (b.x - c.x) + (b.y - c.y) * (b.y - c.y) = dsq2 b c := rfl
  rw [e1, e2, ← a1, ← b1] at hc
  have hd := le_mul_of_sq _ _ _ a2 b2 hc
  have e3 : dsq2 a c = dsq2 a b + dsq2 b c
      + 2 * ((a.x - b.x) * (b.x - c.x) + (a.y - b.y) * (b.y - c.y)) := by
    simp only [dsq2]; ring
  nlinarith

/-- The distance to a set realised by a nearest-point map is 1-Lipschitz (3D). -/
theorem dist_lipschitz3 (S : V3 α → Prop) (c : V3 α → V3 α) (hmem : ∀ q, S (c q))
    (hmin : ∀ q x, S x → dsq3 q (c q) ≤ dsq3 q x) (q1 q2 : V3 α) :
    |M.sqrt (dsq3 q1 (c q1)) - M.sqrt (dsq3 q2 (c q2))| ≤ M.sqrt (dsq3 q1 q2) := by
  have key : ∀ p1 p2 : V3 α,
      M.sqrt (dsq3 p1 (c p1)) - M.sqrt (dsq3 p2 (c p2)) ≤ M.sqrt (dsq3 p1 p2) := by
    intro p1 p2
    have h1 := sqrt_le_sqrt M hsqrt _ _ (dsq3_nonneg _ _) (hmin p1 (c p2) (hmem p2))
    have h2 := sqrt_triangle3 M hsqrt p1 p2 (c p2)
    linarith
  have hsym : dsq3 q2 q1 = dsq3 q1 q2 := by simp only [dsq3]; ring
  rw [abs_le]
  constructor
  · have := key q2 q1; rw [hsym] at this; linarith
  · exact key q1 q2

/-- The distance to a set realised by a nearest-point map is 1-Lipschitz (2D). -/
theorem dist_lipschitz2 (S : V2 α → Prop) (c : V2 α → V2 α) (hmem : ∀ q, S (c q))
    (hmin : ∀ q x, S x → dsq2 q (c q) ≤ dsq2 q x) (q1 q2 : V2 α) :
    |M.sqrt (dsq2 q1 (c q1)) - M.sqrt (dsq2 q2 (c q2))| ≤ M.sqrt (dsq2 q1 q2) := by
  have key : ∀ p1 p2 : V2 α,
      M.sqrt (dsq2 p1 (c p1)) - M.sqrt (dsq2 p2 (c p2)) ≤ M.sqrt (dsq2 p1 p2) := by
    intro p1 p2
    have h1 := sqrt_le_sqrt M hsqrt _ _ (dsq2_nonneg _ _) (hmin p1 (c p2) (hmem p2))
    have h2 := sqrt_triangle2 M hsqrt p1 p2 (c p2)
    linarith
  have hsym : dsq2 q2 q1 = dsq2 q1 q2 := by simp only [dsq2]; ring
  rw [abs_le]
  constructor
  · have := key q2 q1; rw [hsym] at this; linarith
  · exact key q1 q2

end Sqrt

theorem seg2_distance_to_point_eq (M : MathOps α) (l : LR2 α) (q : V2 α) :
    seg2_distance_to_point M l q = M.sqrt (dsq2 q (closest2 .seg q l)) := by
  rw [← closest_point2d_on_line2d_s_eq]; rfl

theorem seg3_distance_to_point_eq (M : MathOps α) (l : LR3 α) (q : V3 α) :
    seg3_distance_to_point M l q = M.sqrt (dsq3 q (closest3 .seg q l)) := by
  rw [← closest_point3d_on_line3d_s_eq]; rfl

theorem plane_distance_to_point_eq (M : MathOps α) (pl : PlaneS α) (q : V3 α) :
    plane_distance_to_point M pl q = M.sqrt (dsq3 q (cpp q pl)) := by
  rw [← plane_closest_point_eq]; rfl

end Lbg.Lemmas
