/-
  Lemmas.Polylabel — the `_Cell` distance of `Model/PolyDistance.lean` as a signed edge
  distance, geometry of the quadtree cells, the priority queue as a list, and the loop
  invariant of the polylabel search (`Polygon2D.pole_of_inaccessibility`).
-/
import LbgVerif.Lemmas.PolyDistance

set_option linter.unusedSectionVars false
set_option linter.unusedSimpArgs false
set_option linter.unusedVariables false

namespace Lbg.Lemmas
open Lbg Lbg.Gen Lbg.Model.PointInside Lbg.Model.PolyDistance
variable {α : Type} [Field α] [LinearOrder α] [IsStrictOrderedRing α]

/-! ### `_get_seg_dist_sq` is the squared distance to the closest point of the side -/

theorem segDistSq_eq (px py : α) (a b : V2 α) :
    segDistSq px py a b = sideVal ⟨px, py⟩ (a, b) := by
  unfold segDistSq sideVal closest2 seg2_from_end_points
  simp only []
  by_cases hz : (b.x - a.x) * (b.x - a.x) + (b.y - a.y) * (b.y - a.y) = 0
  · obtain ⟨hx, hy⟩ : b.x - a.x = 0 ∧ b.y - a.y = 0 := by
      have h1 := mul_self_nonneg (b.x - a.x)
      have h2 := mul_self_nonneg (b.y - a.y)
      constructor <;> apply mul_self_eq_zero.mp <;> linarith
    rw [if_pos hz, if_neg (by simp [hx, hy])]
    simp only [dsq2]
  · have hg : b.x - a.x ≠ 0 ∨ b.y - a.y ≠ 0 := by
      by_contra hc
      push Not at hc
      apply hz; rw [hc.1, hc.2]; ring
    rw [if_neg hz, if_pos hg]
    simp only [at2, proj2, dsq2, Rng.clamp]
    split_ifs with h1 h0
    · rw [min_eq_right h1.le, max_eq_left zero_le_one]; ring
    · rw [min_eq_left (not_lt.mp h1), max_eq_left h0.le]; ring
    · have : min (((px - a.x) * (b.x - a.x) + (py - a.y) * (b.y - a.y)) /
          ((b.x - a.x) * (b.x - a.x) + (b.y - a.y) * (b.y - a.y))) 1 ≤ 0 :=
        le_trans (min_le_left _ _) (not_lt.mp h0)
      rw [max_eq_right this]; ring

/-! ### The loop of `_point_to_polygon_distance` -/

/-- The crossing test as a predicate on the pair `(b, a)`. -/
def crossP (x y : α) (ba : V2 α × V2 α) : Bool := cellCross x y ba.1 ba.2

/-- The inside flag computed by `_point_to_polygon_distance`: an odd number of sides passes
the crossing test. -/
def cellInside (vs : List (V2 α)) (p : V2 α) : Bool :=
  decide ((cyclicPairs vs).countP (crossP p.x p.y) % 2 = 1)

theorem foldl_cellStep_fst (x y : α) (l : List (V2 α × V2 α)) (st : Bool × Option α) :
    (l.foldl (cellStep x y) st).1 = (st.1 != decide (l.countP (crossP x y) % 2 = 1)) := by
  induction l generalizing st with
  | nil => simp
  | cons e t ih =>
    rw [List.foldl_cons, ih]
    have hstep : (cellStep x y st e).1 = if crossP x y e then !st.1 else st.1 := rfl
    rw [hstep, List.countP_cons]
    by_cases hc : crossP x y e = true
    · simp only [hc, if_true]
      by_cases hp : List.countP (crossP x y) t % 2 = 1
      · have : ¬ (List.countP (crossP x y) t + 1) % 2 = 1 := by omega
        simp [hp, this]
      · have : (List.countP (crossP x y) t + 1) % 2 = 1 := by omega
        simp [hp, this]
    · simp [hc]

theorem foldl_cellStep_snd (x y : α) (l : List (V2 α × V2 α)) (b : Bool) (m : α) :
    (l.foldl (cellStep x y) (b, some m)).2
      = some ((l.map (fun ba => segDistSq x y ba.2 ba.1)).foldl min m) := by
  induction l generalizing b m with
  | nil => simp
  | cons e t ih =>
    rw [List.foldl_cons]
    simp only [cellStep, List.map_cons, List.foldl_cons]
    exact ih _ _

theorem foldl_cellStep_none (x y : α) (l : List (V2 α × V2 α)) (h : l ≠ []) :
    (l.foldl (cellStep x y) (false, none)).2
      = some (minOf (l.map (fun ba => segDistSq x y ba.2 ba.1))) := by
  cases l with
  | nil => exact absurd rfl h
  | cons e t =>
    rw [List.foldl_cons]
    simp only [cellStep, List.map_cons, minOf]
    exact foldl_cellStep_snd x y t _ _

/-- `_point_to_polygon_distance` is the edge distance of `distance_from_edge_to_point`, with
the sign of the crossing-number test. -/
theorem pointToPolygonDistance_eq (M : MathOps α) (vs : List (V2 α)) (h : vs ≠ []) (x y : α) :
    pointToPolygonDistance M x y vs =
      if cellInside vs ⟨x, y⟩ then M.sqrt (edgeDistSq vs ⟨x, y⟩)
      else - M.sqrt (edgeDistSq vs ⟨x, y⟩) := by
  unfold pointToPolygonDistance
  simp only []
  rw [foldl_cellStep_fst, foldl_cellStep_none x y _ (cyclicPairs_ne_nil vs h)]
  have e : (cyclicPairs vs).map (fun ba => segDistSq x y ba.2 ba.1)
      = (cyclicPairs vs).map (sideVal ⟨x, y⟩) := by
    apply List.map_congr_left
    intro ba _
    rw [segDistSq_eq]; exact sideVal_swap _ ba.1 ba.2
  rw [e, ← edgeDistSq_eq]
  simp only [Option.getD_some, cellInside, Bool.false_bne]
  by_cases hp : (cyclicPairs vs).countP (crossP x y) % 2 = 1 <;> simp [hp]

/-! ### Cells -/

/-- `z` lies in the closed square of the cell. -/
def InCell (c : Cell α) (z : V2 α) : Prop := |z.x - c.x| ≤ c.h ∧ |z.y - c.y| ≤ c.h

/-- The cell was made by the constructor `_Cell(x, y, h, polygon)` with `h ≥ 0`. -/
def CellOK (M : MathOps α) (vs : List (V2 α)) (c : Cell α) : Prop :=
  c = mkCell M vs c.x c.y c.h ∧ 0 ≤ c.h

theorem cellOK_mkCell (M : MathOps α) (vs : List (V2 α)) (x y h : α) (hh : 0 ≤ h) :
    CellOK M vs (mkCell M vs x y h) := ⟨rfl, hh⟩

/-- The four children cover the parent. -/
theorem inCell_children (M : MathOps α) (vs : List (V2 α)) (c : Cell α) (z : V2 α)
    (hz : InCell c z) :
    InCell (mkCell M vs (c.x - c.h / 2) (c.y - c.h / 2) (c.h / 2)) z ∨
    InCell (mkCell M vs (c.x + c.h / 2) (c.y - c.h / 2) (c.h / 2)) z ∨
    InCell (mkCell M vs (c.x - c.h / 2) (c.y + c.h / 2) (c.h / 2)) z ∨
    InCell (mkCell M vs (c.x + c.h / 2) (c.y + c.h / 2) (c.h / 2)) z := by
  obtain ⟨hx, hy⟩ := hz
  rw [abs_le] at hx hy
  simp only [InCell, mkCell, abs_le]
  by_cases h1 : z.x ≤ c.x <;> by_cases h2 : z.y ≤ c.y
  · left; refine ⟨⟨?_, ?_⟩, ?_, ?_⟩ <;> linarith
  · right; right; left; refine ⟨⟨?_, ?_⟩, ?_, ?_⟩ <;> linarith
  · right; left; refine ⟨⟨?_, ?_⟩, ?_, ?_⟩ <;> linarith
  · right; right; right; refine ⟨⟨?_, ?_⟩, ?_, ?_⟩ <;> linarith

/-! ### The queue -/

theorem mem_qInsert (c e : Cell α) (q : List (Cell α)) : e ∈ qInsert c q ↔ e = c ∨ e ∈ q := by
  induction q with
  | nil => simp [qInsert]
  | cons a t ih =>
    simp only [qInsert]
    split_ifs
    · simp only [List.mem_cons, ih]; tauto
    · simp only [List.mem_cons]

theorem length_qInsert (c : Cell α) (q : List (Cell α)) : (qInsert c q).length = q.length + 1 := by
  induction q with
  | nil => simp [qInsert]
  | cons a t ih =>
    simp only [qInsert]
    split_ifs
    · simp [ih]
    · simp

/-- The queue stays sorted by descending `max` (so `get()` returns a cell of largest `max`). -/
theorem qInsert_sorted (c : Cell α) (q : List (Cell α))
    (h : q.Pairwise (fun a b => a.max ≥ b.max)) :
    (qInsert c q).Pairwise (fun a b => a.max ≥ b.max) := by
  induction q with
  | nil => simp [qInsert]
  | cons a t ih =>
    simp only [qInsert]
    rw [List.pairwise_cons] at h
    split_ifs with hc
    · rw [List.pairwise_cons]
      refine ⟨?_, ih h.2⟩
      intro e he
      rcases (mem_qInsert c e t).mp he with rfl | he
      · exact hc
      · exact h.1 e he
    · rw [List.pairwise_cons]
      refine ⟨?_, List.pairwise_cons.mpr h⟩
      intro e he
      have hlt : a.max < c.max := not_le.mp hc
      rcases List.mem_cons.mp he with rfl | he
      · exact hlt.le
      · exact le_trans (h.1 e he) hlt.le

theorem mem_foldl_qInsert (l : List (Cell α)) (q : List (Cell α)) (e : Cell α) :
    e ∈ l.foldl (fun q c => qInsert c q) q ↔ e ∈ l ∨ e ∈ q := by
  induction l generalizing q with
  | nil => simp
  | cons a t ih =>
    rw [List.foldl_cons, ih, mem_qInsert, List.mem_cons]; tauto

/-! ### The first cover -/

/-- With enough fuel the loop `v = lo; while v < hi: …; v += step` reaches `hi`: every value of
`[lo, hi]` lies in one of the intervals `[g, g + step]`. -/
theorem gridCoords_cover (step hi : α) (hs : 0 < step) :
    ∀ (fuel : Nat) (lo : α), lo < hi → hi ≤ lo + fuel * step → ∀ v, lo ≤ v → v ≤ hi →
      ∃ g ∈ gridCoords step hi fuel lo, g ≤ v ∧ v ≤ g + step := by
  intro fuel
  induction fuel with
  | zero =>
    intro lo hlt hf
    simp only [Nat.cast_zero, zero_mul, add_zero] at hf
    exact absurd hlt (not_lt.mpr hf)
  | succ n ih =>
    intro lo hlt hf v hv1 hv2
    simp only [gridCoords, if_pos hlt]
    by_cases hv : v ≤ lo + step
    · exact ⟨lo, List.mem_cons_self, hv1, hv⟩
    · have hv' : lo + step < v := not_le.mp hv
      have hf' : hi ≤ (lo + step) + n * step := by
        have : ((n + 1 : ℕ) : α) = (n : α) + 1 := by push_cast; ring
        rw [this] at hf; linarith
      obtain ⟨g, hg, h1, h2⟩ := ih (lo + step) (lt_of_lt_of_le hv' hv2) hf' v hv'.le hv2
      exact ⟨g, List.mem_cons_of_mem _ hg, h1, h2⟩

/-- Every grid value is `≥ lo`. -/
theorem gridCoords_ge (step hi : α) (hs : 0 < step) :
    ∀ (fuel : Nat) (lo : α), ∀ g ∈ gridCoords step hi fuel lo, lo ≤ g := by
  intro fuel
  induction fuel with
  | zero => intro lo g hg; simp [gridCoords] at hg
  | succ n ih =>
    intro lo g hg
    simp only [gridCoords] at hg
    split_ifs at hg with hlt
    · rcases List.mem_cons.mp hg with rfl | hg
      · exact le_rfl
      · exact le_trans (by linarith) (ih _ g hg)
    · simp at hg

/-- The first cover: with enough fuel every point of the bounding rectangle lies in a cell of
the initial queue, and all its cells are constructor-made with half size `cell_size / 2`. -/
theorem initialQueue_cover (M : MathOps α) (vs : List (V2 α)) (mn mx : V2 α) (s : α)
    (hs : 0 < s) (fuel : Nat) (hx : mn.x < mx.x) (hy : mn.y < mx.y)
    (hfx : mx.x ≤ mn.x + fuel * s) (hfy : mx.y ≤ mn.y + fuel * s)
    (z : V2 α) (hz : mn.x ≤ z.x ∧ z.x ≤ mx.x ∧ mn.y ≤ z.y ∧ z.y ≤ mx.y) :
    ∃ c ∈ initialQueue M vs mn mx s (s / 2) fuel, InCell c z := by
  obtain ⟨gx, hgx, hx1, hx2⟩ := gridCoords_cover s mx.x hs fuel mn.x hx hfx z.x hz.1 hz.2.1
  obtain ⟨gy, hgy, hy1, hy2⟩ := gridCoords_cover s mx.y hs fuel mn.y hy hfy z.y hz.2.2.1 hz.2.2.2
  refine ⟨mkCell M vs (gx + s / 2) (gy + s / 2) (s / 2), ?_, ?_⟩
  · unfold initialQueue
    simp only []
    rw [mem_foldl_qInsert]
    left
    rw [List.mem_flatMap]
    exact ⟨gx, hgx, List.mem_map.mpr ⟨gy, hgy, rfl⟩⟩
  · simp only [InCell, mkCell, abs_le]
    refine ⟨⟨?_, ?_⟩, ?_, ?_⟩ <;> linarith

theorem initialQueue_ok (M : MathOps α) (vs : List (V2 α)) (mn mx : V2 α) (s : α)
    (hs : 0 < s) (fuel : Nat) :
    ∀ c ∈ initialQueue M vs mn mx s (s / 2) fuel, CellOK M vs c ∧ c.h = s / 2 := by
  intro c hc
  unfold initialQueue at hc
  simp only [] at hc
  rw [mem_foldl_qInsert] at hc
  rcases hc with hc | hc
  · rw [List.mem_flatMap] at hc
    obtain ⟨gx, _, hc⟩ := hc
    obtain ⟨gy, _, rfl⟩ := List.mem_map.mp hc
    exact ⟨cellOK_mkCell M vs _ _ _ (by linarith), rfl⟩
  · simp at hc

/-! ### The signed distance and the upper bound of a cell -/

/-- The signed distance the search maximises: `_Cell(z.x, z.y, ·, polygon).d`. -/
def signedDist (M : MathOps α) (vs : List (V2 α)) (z : V2 α) : α :=
  pointToPolygonDistance M z.x z.y vs

theorem mkCell_d (M : MathOps α) (vs : List (V2 α)) (x y h : α) :
    (mkCell M vs x y h).d = signedDist M vs ⟨x, y⟩ := rfl

theorem CellOK.d_eq {M : MathOps α} {vs : List (V2 α)} {c : Cell α} (h : CellOK M vs c) :
    c.d = signedDist M vs ⟨c.x, c.y⟩ := by
  have := congrArg Cell.d h.1
  rw [mkCell_d] at this; exact this

theorem CellOK.max_eq {M : MathOps α} {vs : List (V2 α)} {c : Cell α} (h : CellOK M vs c) :
    c.max = c.d + c.h * M.sqrt 2 := by
  have h1 := congrArg Cell.max h.1
  have h2 := congrArg Cell.d h.1
  simp only [mkCell] at h1 h2
  rw [h1, ← h2]

/-- Segment from an inside point to an outside point meets the boundary (the geometric content
of the crossing-number test that the search relies on). -/
def CrossSep (vs : List (V2 α)) : Prop :=
  ∀ p q : V2 α, cellInside vs p = true → cellInside vs q = false →
    ∃ w t, OnBoundary vs w ∧ 0 ≤ t ∧ t ≤ 1 ∧
      w.x = p.x + t * (q.x - p.x) ∧ w.y = p.y + t * (q.y - p.y)

/-- `max` of a constructor-made cell bounds the signed distance on the whole cell. -/
def CellBound (M : MathOps α) (vs : List (V2 α)) : Prop :=
  ∀ c z, CellOK M vs c → InCell c z → signedDist M vs z ≤ c.max

section Sqrt
variable (M : MathOps α) (hsqrt : ∀ x, 0 ≤ x → M.sqrt x * M.sqrt x = x ∧ 0 ≤ M.sqrt x)
include hsqrt

theorem signedDist_eq (vs : List (V2 α)) (h : vs ≠ []) (z : V2 α) :
    signedDist M vs z = if cellInside vs z then M.sqrt (edgeDistSq vs z)
      else - M.sqrt (edgeDistSq vs z) := by
  unfold signedDist
  rw [pointToPolygonDistance_eq M vs h]

/-- The signed distance is 1-Lipschitz, given that inside and outside points are separated by
the boundary. -/
theorem signedDist_lipschitz (vs : List (V2 α)) (h : vs ≠ []) (hsep : CrossSep vs)
    (p q : V2 α) : signedDist M vs p - signedDist M vs q ≤ M.sqrt (dsq2 p q) := by
  have hl := edgeDist_lipschitz M hsqrt vs h p q
  rw [abs_le] at hl
  have hp0 := (hsqrt _ (edgeDistSq_nonneg vs p)).2
  have hq0 := (hsqrt _ (edgeDistSq_nonneg vs q)).2
  have hd0 := (hsqrt _ (dsq2_nonneg p q)).2
  rw [signedDist_eq M hsqrt vs h p, signedDist_eq M hsqrt vs h q]
  by_cases hp : cellInside vs p = true <;> by_cases hq : cellInside vs q = true
  · simp only [hp, hq, if_true]; linarith
  · simp only [hp, hq, if_true]
    have hq' : cellInside vs q = false := by simpa using hq
    obtain ⟨w, t, hw, h0, h1, hx, hy⟩ := hsep p q hp hq'
    have e := sqrt_dsq2_split M hsqrt p q w t h0 h1 hx hy
    have h1' := sqrt_le_sqrt M hsqrt _ _ (edgeDistSq_nonneg vs p) (edgeDistSq_le vs p w hw)
    have h2' := sqrt_le_sqrt M hsqrt _ _ (edgeDistSq_nonneg vs q) (edgeDistSq_le vs q w hw)
    have hs : dsq2 q w = dsq2 w q := by simp only [dsq2]; ring
    rw [hs] at h2'
    simp only [Bool.false_eq_true, if_false]
    linarith
  · simp only [hp, hq, if_true, Bool.false_eq_true, if_false]; linarith
  · simp only [hp, hq, Bool.false_eq_true, if_false]; linarith

/-- A 1-Lipschitz signed distance is bounded on a cell by `d + h·√2`. -/
theorem cellBound_of_lipschitz (vs : List (V2 α))
    (hLip : ∀ p q, signedDist M vs p - signedDist M vs q ≤ M.sqrt (dsq2 p q)) :
    CellBound M vs := by
  intro c z hc hz
  rw [hc.max_eq, hc.d_eq]
  have h1 := hLip z ⟨c.x, c.y⟩
  obtain ⟨hx, hy⟩ := hz
  have hh := hc.2
  have hx2 : (z.x - c.x) * (z.x - c.x) ≤ c.h * c.h := by
    have := mul_self_le_mul_self (abs_nonneg _) hx
    rwa [abs_mul_abs_self] at this
  have hy2 : (z.y - c.y) * (z.y - c.y) ≤ c.h * c.h := by
    have := mul_self_le_mul_self (abs_nonneg _) hy
    rwa [abs_mul_abs_self] at this
  have hle : dsq2 z ⟨c.x, c.y⟩ ≤ c.h * c.h * 2 := by simp only [dsq2]; linarith
  have h2 := sqrt_le_sqrt M hsqrt _ _ (dsq2_nonneg _ _) hle
  rw [sqrt_sq_mul M hsqrt c.h 2 hh (by norm_num)] at h2
  linarith

end Sqrt

/-! ### The loop invariant -/

/-- Invariant of the main loop over a region `B`: the queue and `best_cell` hold
constructor-made cells, and every point of `B` either still lies in a queued cell or already
has signed distance at most `best_cell.d + tolerance`. -/
structure PoleInv (M : MathOps α) (vs : List (V2 α)) (tol : α) (B : V2 α → Prop)
    (st : PState α) : Prop where
  ok : ∀ c ∈ st.queue, CellOK M vs c
  bestOK : CellOK M vs st.best
  cover : ∀ z, B z → (∃ c ∈ st.queue, InCell c z) ∨ signedDist M vs z ≤ st.best.d + tol

theorem step_inv (M : MathOps α) (vs : List (V2 α)) (tol : α) (B : V2 α → Prop)
    (hb : CellBound M vs) (st st' : PState α) (h : step M vs tol st = some st')
    (hinv : PoleInv M vs tol B st) :
    PoleInv M vs tol B st' ∧ st.best.d ≤ st'.best.d := by
  obtain ⟨hok, hbest, hcov⟩ := hinv
  cases hq : st.queue with
  | nil => simp [step, hq] at h
  | cons cell rest =>
    have hcell : CellOK M vs cell := hok cell (by rw [hq]; exact List.mem_cons_self)
    have hrest : ∀ c ∈ rest, CellOK M vs c :=
      fun c hc => hok c (by rw [hq]; exact List.mem_cons_of_mem _ hc)
    obtain ⟨best, hbdef⟩ : ∃ b, b = (if cell.d > st.best.d then cell else st.best) := ⟨_, rfl⟩
    have hb1 : st.best.d ≤ best.d := by
      rw [hbdef]; split_ifs with hgt
      · exact le_of_lt hgt
      · exact le_rfl
    have hb2 : cell.d ≤ best.d := by
      rw [hbdef]; split_ifs with hgt
      · exact le_rfl
      · exact not_lt.mp hgt
    have hbok : CellOK M vs best := by
      rw [hbdef]; split_ifs
      · exact hcell
      · exact hbest
    simp only [step, hq] at h
    rw [← hbdef] at h
    split_ifs at h with hprune
    · -- the cell is discarded
      simp only [Option.some.injEq] at h
      subst h
      refine ⟨⟨hrest, hbok, ?_⟩, hb1⟩
      intro z hz
      rcases hcov z hz with ⟨c, hc, hin⟩ | hdone
      · rw [hq] at hc
        rcases List.mem_cons.mp hc with rfl | hc
        · right
          have := hb c z hcell hin
          simp only []
          linarith
        · left; exact ⟨c, hc, hin⟩
      · right; simp only []; linarith
    · -- the cell is split in four
      simp only [Option.some.injEq] at h
      subst h
      have hh : 0 ≤ cell.h / 2 := by have := hcell.2; linarith
      refine ⟨⟨?_, hbok, ?_⟩, hb1⟩
      · intro c hc
        simp only [mem_qInsert] at hc
        rcases hc with rfl | rfl | rfl | rfl | hc
        · exact cellOK_mkCell M vs _ _ _ hh
        · exact cellOK_mkCell M vs _ _ _ hh
        · exact cellOK_mkCell M vs _ _ _ hh
        · exact cellOK_mkCell M vs _ _ _ hh
        · exact hrest c hc
      · intro z hz
        rcases hcov z hz with ⟨c, hc, hin⟩ | hdone
        · rw [hq] at hc
          rcases List.mem_cons.mp hc with rfl | hc
          · left
            rcases inCell_children M vs c z hin with h1 | h1 | h1 | h1
            · exact ⟨_, by simp only [mem_qInsert]; tauto, h1⟩
            · exact ⟨_, by simp only [mem_qInsert]; tauto, h1⟩
            · exact ⟨_, by simp only [mem_qInsert]; tauto, h1⟩
            · exact ⟨_, by simp only [mem_qInsert]; tauto, h1⟩
          · left; exact ⟨c, by simp only [mem_qInsert]; tauto, hin⟩
        · right; simp only []; linarith

theorem polylabel_run_inv (M : MathOps α) (vs : List (V2 α)) (tol : α) (B : V2 α → Prop)
    (hb : CellBound M vs) : ∀ (fuel : Nat) (st : PState α), PoleInv M vs tol B st →
      PoleInv M vs tol B (run M vs tol fuel st) ∧ st.best.d ≤ (run M vs tol fuel st).best.d := by
  intro fuel
  induction fuel with
  | zero => intro st h; exact ⟨h, le_rfl⟩
  | succ n ih =>
    intro st hinv
    simp only [run]
    cases hs : step M vs tol st with
    | none => exact ⟨hinv, le_rfl⟩
    | some st' =>
      obtain ⟨h1, h2⟩ := step_inv M vs tol B hb st st' hs hinv
      obtain ⟨h3, h4⟩ := ih st' h1
      exact ⟨h3, le_trans h2 h4⟩

/-- On termination (empty queue) `best_cell.d` is within `tolerance` of the signed distance of
every point of the region. -/
theorem inv_final (M : MathOps α) (vs : List (V2 α)) (tol : α) (B : V2 α → Prop)
    (st : PState α) (hinv : PoleInv M vs tol B st) (hq : st.queue = []) :
    ∀ z, B z → signedDist M vs z ≤ st.best.d + tol := by
  intro z hz
  rcases hinv.cover z hz with ⟨c, hc, _⟩ | h
  · rw [hq] at hc; simp at hc
  · exact h

/-! ### Entry to the loop -/

theorem centroidCell_ok (M : MathOps α) (vs : List (V2 α)) : CellOK M vs (centroidCell M vs) := by
  unfold centroidCell
  simp only []
  split_ifs
  · cases vs with
    | nil => exact cellOK_mkCell M _ _ _ _ le_rfl
    | cons p0 t => exact cellOK_mkCell M _ _ _ _ le_rfl
  · exact cellOK_mkCell M _ _ _ _ le_rfl

/-- The points of the bounding rectangle `(mn, mx)`. -/
def InRect (mm : V2 α × V2 α) (z : V2 α) : Prop :=
  mm.1.x ≤ z.x ∧ z.x ≤ mm.2.x ∧ mm.1.y ≤ z.y ∧ z.y ≤ mm.2.y

/-- When the search is entered (no degenerate early return) and the fuel suffices for the two
grid loops, the invariant holds for the bounding rectangle. -/
theorem poleInit_inv (M : MathOps α) (v0 : V2 α) (rest : List (V2 α)) (tol : α) (fuel : Nat)
    (st0 : PState α) (h : poleInit M (v0 :: rest) tol fuel = some st0)
    (hmm : (boundRect v0 rest).1.x ≤ (boundRect v0 rest).2.x ∧
      (boundRect v0 rest).1.y ≤ (boundRect v0 rest).2.y)
    (hfuel : max ((boundRect v0 rest).2.x - (boundRect v0 rest).1.x)
        ((boundRect v0 rest).2.y - (boundRect v0 rest).1.y)
      ≤ fuel * min ((boundRect v0 rest).2.x - (boundRect v0 rest).1.x)
        ((boundRect v0 rest).2.y - (boundRect v0 rest).1.y)) :
    PoleInv M (v0 :: rest) tol (InRect (boundRect v0 rest)) st0 := by
  simp only [poleInit] at h
  generalize boundRect v0 rest = mm at h hmm hfuel ⊢
  by_cases hdeg : min (mm.2.x - mm.1.x) (mm.2.y - mm.1.y) = 0 ∨
      polygon2d_area (v0 :: rest) < max (mm.2.x - mm.1.x) (mm.2.y - mm.1.y) * tol
  · rw [if_pos hdeg] at h; exact absurd h (by simp)
  rw [if_neg hdeg] at h
  simp only [Option.some.injEq] at h
  subst h
  rw [not_or] at hdeg
  obtain ⟨hcs, _⟩ := hdeg
  have hw : 0 ≤ mm.2.x - mm.1.x := by linarith [hmm.1]
  have hh : 0 ≤ mm.2.y - mm.1.y := by linarith [hmm.2]
  have hpos : 0 < min (mm.2.x - mm.1.x) (mm.2.y - mm.1.y) :=
    lt_of_le_of_ne (le_min hw hh) (Ne.symm hcs)
  have hx : mm.1.x < mm.2.x := by
    have := lt_of_lt_of_le hpos (min_le_left _ _); linarith
  have hy : mm.1.y < mm.2.y := by
    have := lt_of_lt_of_le hpos (min_le_right _ _); linarith
  have hfx : mm.2.x ≤ mm.1.x + fuel * min (mm.2.x - mm.1.x) (mm.2.y - mm.1.y) := by
    have := le_trans (le_max_left _ _) hfuel; linarith
  have hfy : mm.2.y ≤ mm.1.y + fuel * min (mm.2.x - mm.1.x) (mm.2.y - mm.1.y) := by
    have := le_trans (le_max_right _ _) hfuel; linarith
  refine ⟨?_, ?_, ?_⟩
  · intro c hc
    exact (initialQueue_ok M _ mm.1 mm.2 _ hpos fuel c hc).1
  · simp only []
    split_ifs
    · exact cellOK_mkCell M _ _ _ _ le_rfl
    · exact centroidCell_ok M _
  · intro z hz
    left
    exact initialQueue_cover M _ mm.1 mm.2 _ hpos fuel hx hy hfx hfy z hz

/-- The queue on entry to the loop is the first cover, with a positive cell size. -/
theorem poleInit_queue (M : MathOps α) (v0 : V2 α) (rest : List (V2 α)) (tol : α) (fuel : Nat)
    (st0 : PState α) (h : poleInit M (v0 :: rest) tol fuel = some st0)
    (hmm : (boundRect v0 rest).1.x ≤ (boundRect v0 rest).2.x ∧
      (boundRect v0 rest).1.y ≤ (boundRect v0 rest).2.y) :
    0 < min ((boundRect v0 rest).2.x - (boundRect v0 rest).1.x)
        ((boundRect v0 rest).2.y - (boundRect v0 rest).1.y) ∧
    st0.queue = initialQueue M (v0 :: rest) (boundRect v0 rest).1 (boundRect v0 rest).2
      (min ((boundRect v0 rest).2.x - (boundRect v0 rest).1.x)
        ((boundRect v0 rest).2.y - (boundRect v0 rest).1.y))
      (min ((boundRect v0 rest).2.x - (boundRect v0 rest).1.x)
        ((boundRect v0 rest).2.y - (boundRect v0 rest).1.y) / 2) fuel := by
  simp only [poleInit] at h
  generalize boundRect v0 rest = mm at h hmm ⊢
  by_cases hdeg : min (mm.2.x - mm.1.x) (mm.2.y - mm.1.y) = 0 ∨
      polygon2d_area (v0 :: rest) < max (mm.2.x - mm.1.x) (mm.2.y - mm.1.y) * tol
  · rw [if_pos hdeg] at h; exact absurd h (by simp)
  rw [if_neg hdeg] at h
  simp only [Option.some.injEq] at h
  subst h
  rw [not_or] at hdeg
  have hw : 0 ≤ mm.2.x - mm.1.x := by linarith [hmm.1]
  have hh : 0 ≤ mm.2.y - mm.1.y := by linarith [hmm.2]
  exact ⟨lt_of_le_of_ne (le_min hw hh) (Ne.symm hdeg.1), rfl⟩

end Lbg.Lemmas
