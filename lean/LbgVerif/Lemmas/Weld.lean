/-
  Lemmas/Weld — helper lemmas about `Model/Weld.lean` (vertex welding of
  `Polyface3D.from_faces`) used by `Props/C07c.lean`:
  the threaded loop in recursive form, its behaviour on concatenated / nested lists, a generic
  invariant principle, facts about the first-match search, the welded vertex list as a fold.
-/
import LbgVerif.Model.Weld
import Mathlib.Data.List.Basic
import Mathlib.Data.List.Forall2
import Mathlib.Data.List.Perm.Basic
import Mathlib.Data.List.Induction

set_option linter.unusedSectionVars false
set_option linter.unusedVariables false

namespace Lbg.Lemmas.Weld
open Lbg.Model.Weld

/-! ### The threaded loop -/

section thread
variable {S A B : Type}

private theorem thread_fold (f : S → A → S × B) (l : List A) (s : S) (acc : List B) :
    l.foldl (fun acc a => let r := f acc.1 a; (r.1, acc.2 ++ [r.2])) (s, acc) =
      ((thread f s l).1, acc ++ (thread f s l).2) := by
  induction l generalizing s acc with
  | nil => simp [thread]
  | cons a t ih =>
    unfold thread
    simp only [List.foldl_cons, List.nil_append]
    rw [ih, ih (acc := [(f s a).2])]
    simp [thread]

theorem thread_nil (f : S → A → S × B) (s : S) : thread f s [] = (s, []) := rfl

/-- Recursive form: the head item is processed first, its output comes first. -/
theorem thread_cons (f : S → A → S × B) (s : S) (a : A) (t : List A) :
    thread f s (a :: t) =
      ((thread f (f s a).1 t).1, (f s a).2 :: (thread f (f s a).1 t).2) := by
  unfold thread
  simp only [List.foldl_cons, List.nil_append]
  rw [thread_fold]
  simp [thread]

theorem thread_append (f : S → A → S × B) (s : S) (l m : List A) :
    thread f s (l ++ m) =
      ((thread f (thread f s l).1 m).1, (thread f s l).2 ++ (thread f (thread f s l).1 m).2) := by
  induction l generalizing s with
  | nil => simp [thread_nil]
  | cons a t ih => simp [thread_cons, ih]

/-- The state after the loop is the plain left fold of the state component. -/
theorem thread_state (f : S → A → S × B) (s : S) (l : List A) :
    (thread f s l).1 = l.foldl (fun s a => (f s a).1) s := by
  induction l generalizing s with
  | nil => rfl
  | cons a t ih => simp [thread_cons, ih]

theorem thread_length (f : S → A → S × B) (s : S) (l : List A) :
    (thread f s l).2.length = l.length := by
  induction l generalizing s with
  | nil => rfl
  | cons a t ih => simp [thread_cons, ih]

/-- Nested loops thread the state through the concatenation of the inner lists. -/
theorem thread_thread (f : S → A → S × B) (s : S) (ll : List (List A)) :
    (thread (thread f) s ll).1 = (thread f s ll.flatten).1 ∧
    (thread (thread f) s ll).2.flatten = (thread f s ll.flatten).2 := by
  induction ll generalizing s with
  | nil => simp [thread_nil]
  | cons l t ih =>
    rw [thread_cons, List.flatten_cons, thread_append]
    obtain ⟨h1, h2⟩ := ih (thread f s l).1
    exact ⟨h1, by simp [h2]⟩

/-- Invariant principle.  `le` is a pre-order on states along which `R` is monotone; if one
step from any state, on an item satisfying `Q`, moves the state up and establishes `R` for its
own item and output, then after the whole loop every item is `R`-related (at the FINAL state)
to its output. -/
theorem thread_inv (f : S → A → S × B) (le : S → S → Prop) (Q : A → Prop)
    (R : S → A → B → Prop)
    (le_refl : ∀ s, le s s) (le_trans : ∀ s t u, le s t → le t u → le s u)
    (mono : ∀ s t a b, le s t → R s a b → R t a b)
    (step : ∀ s a, Q a → le s (f s a).1 ∧ R (f s a).1 a (f s a).2)
    (l : List A) (s : S) (hQ : ∀ a ∈ l, Q a) :
    le s (thread f s l).1 ∧ List.Forall₂ (R (thread f s l).1) l (thread f s l).2 := by
  induction l generalizing s with
  | nil => exact ⟨le_refl s, List.Forall₂.nil⟩
  | cons a t ih =>
    rw [thread_cons]
    obtain ⟨h1, h2⟩ := step s a (hQ a (by simp))
    obtain ⟨h3, h4⟩ := ih (f s a).1 (fun x hx => hQ x (List.mem_cons_of_mem _ hx))
    exact ⟨le_trans _ _ _ h1 h3, List.Forall₂.cons (mono _ _ _ _ h3 h2) h4⟩

/-- A state predicate preserved by every step on a `Q`-item is preserved by the loop. -/
theorem thread_state_inv (f : S → A → S × B) (I : S → Prop) (Q : A → Prop)
    (step : ∀ s a, I s → Q a → I (f s a).1) (l : List A) (s : S) (hs : I s)
    (hQ : ∀ a ∈ l, Q a) : I (thread f s l).1 := by
  induction l generalizing s with
  | nil => exact hs
  | cons a t ih =>
    rw [thread_cons]
    exact ih _ (step s a hs (hQ a (by simp))) (fun x hx => hQ x (List.mem_cons_of_mem _ hx))

end thread

/-! ### Small list facts -/

theorem forall₂_eq_map {A B : Type} (g : A → B) {l : List A} {m : List B}
    (h : List.Forall₂ (fun a b => b = g a) l m) : m = l.map g := by
  induction h with
  | nil => rfl
  | cons hab _ ih => rw [hab, ih]; rfl

theorem forall₂_map_right {A B : Type} (g : A → B) (l : List A) :
    List.Forall₂ (fun a b => b = g a) l (l.map g) := by
  induction l with
  | nil => exact List.Forall₂.nil
  | cons a t ih => exact List.Forall₂.cons rfl ih

theorem getElem?_of_prefix {A : Type} {l m : List A} (h : l <+: m) {i : Nat} {a : A}
    (hi : l[i]? = some a) : m[i]? = some a := by
  obtain ⟨t, rfl⟩ := h
  have hlt : i < l.length := by
    by_contra hge
    rw [List.getElem?_eq_none (Nat.le_of_not_lt hge)] at hi
    cases hi
  rw [List.getElem?_append_left hlt]
  exact hi

/-! ### The first-match search -/

section find
variable {P : Type} (eqv : P → P → Bool)

theorem findFirst_cons (v w : P) (t : List P) :
    findFirst eqv v (w :: t) =
      if eqv v w then some 0 else (findFirst eqv v t).map (· + 1) := rfl

theorem findFirst_none {v : P} {l : List P} (h : findFirst eqv v l = none) :
    ∀ w ∈ l, eqv v w = false := by
  induction l with
  | nil => intro w hw; cases hw
  | cons a t ih =>
    unfold findFirst at h
    split_ifs at h with ha
    have ht : findFirst eqv v t = none := by
      cases hh : findFirst eqv v t with
      | none => rfl
      | some k => rw [hh] at h; cases h
    intro w hw
    rcases List.mem_cons.mp hw with rfl | hw
    · simpa using ha
    · exact ih ht w hw

theorem findFirst_eq_none_iff {v : P} {l : List P} :
    findFirst eqv v l = none ↔ ∀ w ∈ l, eqv v w = false := by
  constructor
  · exact findFirst_none eqv
  · intro h
    induction l with
    | nil => rfl
    | cons a t ih =>
      unfold findFirst
      rw [if_neg (by simpa using h a (by simp))]
      rw [ih (fun w hw => h w (List.mem_cons_of_mem _ hw))]
      rfl

/-- A found index points at a stored vertex that `v` is equivalent to, and no earlier stored
vertex is (first match wins). -/
theorem findFirst_some {v : P} {l : List P} {i : Nat} (h : findFirst eqv v l = some i) :
    ∃ w, l[i]? = some w ∧ eqv v w = true ∧
      ∀ j u, j < i → l[j]? = some u → eqv v u = false := by
  induction l generalizing i with
  | nil => cases h
  | cons a t ih =>
    unfold findFirst at h
    split_ifs at h with ha
    · cases h
      exact ⟨a, rfl, ha, fun j u hj _ => absurd hj (Nat.not_lt_zero j)⟩
    · cases hh : findFirst eqv v t with
      | none => rw [hh] at h; cases h
      | some k =>
        rw [hh] at h
        cases h
        obtain ⟨w, h1, h2, h3⟩ := ih hh
        refine ⟨w, by simpa using h1, h2, ?_⟩
        intro j u hj hu
        cases j with
        | zero => simp at hu; subst hu; simpa using ha
        | succ j => exact h3 j u (by simpa using hj) (by simpa using hu)

theorem findFirst_lt {v : P} {l : List P} {i : Nat} (h : findFirst eqv v l = some i) :
    i < l.length := by
  obtain ⟨w, hw, _⟩ := findFirst_some eqv h
  by_contra hge
  rw [List.getElem?_eq_none (Nat.le_of_not_lt hge)] at hw
  cases hw

/-- The first match does not change when vertices are appended. -/
theorem findFirst_append_some {v : P} {l : List P} {i : Nat} (h : findFirst eqv v l = some i)
    (m : List P) : findFirst eqv v (l ++ m) = some i := by
  induction l generalizing i with
  | nil => cases h
  | cons a t ih =>
    unfold findFirst at h
    rw [List.cons_append]
    unfold findFirst
    split_ifs at h ⊢ with ha
    · exact h
    · cases hh : findFirst eqv v t with
      | none => rw [hh] at h; cases h
      | some k => rw [hh] at h; rw [ih hh]; exact h

theorem findFirst_append_none {v : P} {l : List P} (h : findFirst eqv v l = none)
    (m : List P) : findFirst eqv v (l ++ m) = (findFirst eqv v m).map (· + l.length) := by
  induction l with
  | nil => simp
  | cons a t ih =>
    have ha : eqv v a = false := findFirst_none eqv h a (by simp)
    have ht : findFirst eqv v t = none :=
      (findFirst_eq_none_iff eqv).mpr (fun w hw => findFirst_none eqv h w (List.mem_cons_of_mem _ hw))
    rw [List.cons_append, findFirst_cons, if_neg (by simp [ha]), ih ht]
    cases findFirst eqv v m with
    | none => rfl
    | some k => simp [Nat.add_assoc]

/-- The search only looks at the truth values of `eqv v ·` on the stored vertices. -/
theorem findFirst_congr {v v' : P} {l : List P} (h : ∀ w ∈ l, eqv v w = eqv v' w) :
    findFirst eqv v l = findFirst eqv v' l := by
  induction l with
  | nil => rfl
  | cons a t ih =>
    unfold findFirst
    rw [h a (by simp), ih (fun w hw => h w (List.mem_cons_of_mem _ hw))]

/-- The vertex found is the first stored vertex equivalent to `v`, in `List.find?` terms. -/
theorem findFirst_find? {v : P} {l : List P} :
    (findFirst eqv v l).bind (fun i => l[i]?) = l.find? (fun w => eqv v w) := by
  induction l with
  | nil => rfl
  | cons a t ih =>
    unfold findFirst
    by_cases ha : eqv v a = true
    · simp [ha]
    · rw [if_neg ha, List.find?_cons_of_neg (by simpa using ha), ← ih]
      cases findFirst eqv v t with
      | none => rfl
      | some k => simp

end find

/-! ### One welding step and the welded vertex list -/

section weld
variable {P : Type} (eqv : P → P → Bool)

/-- `vertices` after processing one more point. -/
def addVertex (vs : List P) (v : P) : List P :=
  if (findFirst eqv v vs).isSome then vs else vs ++ [v]

theorem weldPoint_fst (vs : List P) (v : P) : (weldPoint eqv vs v).1 = addVertex eqv vs v := by
  unfold weldPoint addVertex
  cases findFirst eqv v vs <;> rfl

theorem weldPoint_prefix (vs : List P) (v : P) : vs <+: (weldPoint eqv vs v).1 := by
  unfold weldPoint
  cases findFirst eqv v vs with
  | none => exact List.prefix_append _ _
  | some i => exact List.prefix_refl _

/-- The vertex list after welding the point sequence `pts` into `vs`. -/
def vertsFrom (vs : List P) (pts : List P) : List P := pts.foldl (addVertex eqv) vs

theorem weldLoop_fst (vs : List P) (pts : List P) :
    (weldLoop eqv vs pts).1 = vertsFrom eqv vs pts := by
  unfold weldLoop vertsFrom
  rw [thread_state]
  congr 1
  funext s a
  exact weldPoint_fst eqv s a

/-- The vertex list of `weld` is the vertex list of welding all points in reading order. -/
theorem weld_fst (faces : List (List (List P))) :
    (weld eqv faces).1 = vertsFrom eqv [] faces.flatten.flatten := by
  unfold weld weldFace
  rw [(thread_thread (weldLoop eqv) [] faces).1]
  unfold weldLoop
  rw [(thread_thread (weldPoint eqv) [] faces.flatten).1]
  exact weldLoop_fst eqv [] _

theorem vertsFrom_snoc (vs pts : List P) (v : P) :
    vertsFrom eqv vs (pts ++ [v]) = addVertex eqv (vertsFrom eqv vs pts) v := by
  unfold vertsFrom
  rw [List.foldl_append]
  rfl

end weld

/-! ### Three nested loops at once -/

section nested
variable {P : Type} (eqv : P → P → Bool)

/-- Invariant principle for the whole of `weld`: `R` is monotone along extensions of the
vertex list and is established by one `weldPoint` step on an input point satisfying `Q`; then
in the result every input point is `R`-related, AT THE FINAL VERTEX LIST, to the index stored
for it. -/
theorem weld_inv (Q : P → Prop) (R : List P → P → Nat → Prop)
    (mono : ∀ s t a b, s <+: t → R s a b → R t a b)
    (step : ∀ s a, Q a → R (weldPoint eqv s a).1 a (weldPoint eqv s a).2)
    (faces : List (List (List P))) (hQ : ∀ f ∈ faces, ∀ l ∈ f, ∀ p ∈ l, Q p) :
    List.Forall₂ (List.Forall₂ (List.Forall₂ (fun p i => Q p ∧ R (weld eqv faces).1 p i)))
      faces (weld eqv faces).2 := by
  have pre_refl : ∀ s : List P, s <+: s := fun s => List.prefix_refl s
  have pre_trans : ∀ s t u : List P, s <+: t → t <+: u → s <+: u :=
    fun s t u h1 h2 => List.IsPrefix.trans h1 h2
  -- level 1: points of a loop
  have L1 := thread_inv (weldPoint eqv) (fun s t => s <+: t) Q (fun s p i => Q p ∧ R s p i)
    pre_refl pre_trans (fun s t a b h hr => ⟨hr.1, mono s t a b h hr.2⟩)
    (fun s a hq => ⟨weldPoint_prefix eqv s a, hq, step s a hq⟩)
  -- level 2: loops of a face
  have L2 := thread_inv (weldLoop eqv) (fun s t => s <+: t) (fun l => ∀ p ∈ l, Q p)
    (fun s l bs => List.Forall₂ (fun p i => Q p ∧ R s p i) l bs)
    pre_refl pre_trans
    (fun s t a b h hr => List.Forall₂.imp (fun p i hpi => ⟨hpi.1, mono s t p i h hpi.2⟩) hr)
    (fun s a hq => L1 a s hq)
  -- level 3: faces
  have L3 := thread_inv (weldFace eqv) (fun s t => s <+: t) (fun f => ∀ l ∈ f, ∀ p ∈ l, Q p)
    (fun s f bs => List.Forall₂ (List.Forall₂ (fun p i => Q p ∧ R s p i)) f bs)
    pre_refl pre_trans
    (fun s t a b h hr => List.Forall₂.imp (fun l bs hl =>
      List.Forall₂.imp (fun p i hpi => ⟨hpi.1, mono s t p i h hpi.2⟩) hl) hr)
    (fun s a hq => L2 a s hq)
  exact (L3 faces [] hQ).2

end nested

/-! ### The welded vertex list -/

section verts
variable {P : Type} (eqv : P → P → Bool)

theorem vertsFrom_cons (vs : List P) (v : P) (t : List P) :
    vertsFrom eqv vs (v :: t) = vertsFrom eqv (addVertex eqv vs v) t := rfl

/-- Welding only appends, and what it appends is a subsequence of the points welded. -/
theorem vertsFrom_ext (vs pts : List P) :
    ∃ ext, vertsFrom eqv vs pts = vs ++ ext ∧ ext.Sublist pts := by
  induction pts generalizing vs with
  | nil => exact ⟨[], by simp [vertsFrom], List.Sublist.slnil⟩
  | cons v t ih =>
    rw [vertsFrom_cons]
    obtain ⟨ext, h1, h2⟩ := ih (addVertex eqv vs v)
    by_cases hf : (findFirst eqv v vs).isSome = true
    · have ha : addVertex eqv vs v = vs := by unfold addVertex; rw [if_pos hf]
      rw [ha] at h1 ⊢
      exact ⟨ext, h1, h2.cons _⟩
    · have ha : addVertex eqv vs v = vs ++ [v] := by unfold addVertex; rw [if_neg hf]
      rw [ha] at h1 ⊢
      exact ⟨v :: ext, by rw [h1]; simp, h2.cons_cons _⟩

theorem addVertex_pairwise {vs : List P} (h : vs.Pairwise (fun a b => eqv b a = false)) (v : P) :
    (addVertex eqv vs v).Pairwise (fun a b => eqv b a = false) := by
  unfold addVertex
  split_ifs with hf
  · exact h
  · rw [List.pairwise_append]
    refine ⟨h, List.pairwise_singleton _ _, ?_⟩
    intro a ha b hb
    simp only [List.mem_singleton] at hb
    subst hb
    have hn : findFirst eqv b vs = none := by
      cases hh : findFirst eqv b vs with
      | none => rfl
      | some k => rw [hh] at hf; simp at hf
    exact findFirst_none eqv hn a ha

theorem vertsFrom_pairwise {vs : List P} (h : vs.Pairwise (fun a b => eqv b a = false))
    (pts : List P) : (vertsFrom eqv vs pts).Pairwise (fun a b => eqv b a = false) := by
  induction pts generalizing vs with
  | nil => exact h
  | cons v t ih => rw [vertsFrom_cons]; exact ih (addVertex_pairwise eqv h v)

/-- With a reflexive test every welded point finds a match in the final vertex list. -/
theorem vertsFrom_cover (vs pts : List P) (p : P) (hp : p ∈ pts) (hrefl : eqv p p = true) :
    ∃ i, findFirst eqv p (vertsFrom eqv vs pts) = some i := by
  induction pts generalizing vs with
  | nil => cases hp
  | cons v t ih =>
    rw [vertsFrom_cons]
    rcases List.mem_cons.mp hp with rfl | hp
    · obtain ⟨ext, h1, _⟩ := vertsFrom_ext eqv (addVertex eqv vs p) t
      rw [h1]
      have : ∃ i, findFirst eqv p (addVertex eqv vs p) = some i := by
        unfold addVertex
        split_ifs with hf
        · exact Option.isSome_iff_exists.mp hf
        · have hn : findFirst eqv p vs = none := by
            cases hh : findFirst eqv p vs with
            | none => rfl
            | some k => rw [hh] at hf; simp at hf
          rw [findFirst_append_none eqv hn, findFirst_cons, if_pos hrefl]
          exact ⟨_, rfl⟩
      obtain ⟨i, hi⟩ := this
      exact ⟨i, findFirst_append_some eqv hi ext⟩
    · exact ih _ hp

end verts

/-! ### First representative of a class; systems of representatives -/

section classes
variable {P : Type} (eqv : P → P → Bool)

/-- `eqv` restricted to the points satisfying `T` is an equivalence relation. -/
structure EqvOn (T : P → Prop) : Prop where
  refl : ∀ a, T a → eqv a a = true
  symm : ∀ a b, T a → T b → eqv a b = true → eqv b a = true
  trans : ∀ a b c, T a → T b → T c → eqv a b = true → eqv b c = true → eqv a c = true

theorem vertsFrom_sublist (pts : List P) : (vertsFrom eqv [] pts).Sublist pts := by
  obtain ⟨ext, h1, h2⟩ := vertsFrom_ext eqv [] pts
  rw [h1]
  simpa using h2

/-- With a transitive test, the first welded vertex a point is equivalent to is the first INPUT
point it is equivalent to. -/
theorem vertsFrom_find? (T : P → Prop)
    (htr : ∀ a b c, T a → T b → T c → eqv a b = true → eqv b c = true → eqv a c = true)
    (pts : List P) (hpts : ∀ q ∈ pts, T q) :
    ∀ p, T p → (vertsFrom eqv [] pts).find? (fun w => eqv p w) = pts.find? (fun w => eqv p w) := by
  induction pts using List.reverseRecOn with
  | nil => intro p _; rfl
  | append_singleton pts0 v ih =>
    have hpts0 : ∀ q ∈ pts0, T q := fun q hq => hpts q (by simp [hq])
    have hv : T v := hpts v (by simp)
    have ih := ih hpts0
    intro p hp
    rw [vertsFrom_snoc, List.find?_append]
    by_cases hf : (findFirst eqv v (vertsFrom eqv [] pts0)).isSome = true
    · have ha : addVertex eqv (vertsFrom eqv [] pts0) v = vertsFrom eqv [] pts0 := by
        unfold addVertex; rw [if_pos hf]
      rw [ha, ih p hp]
      cases hq : pts0.find? (fun w => eqv p w) with
      | some q => rfl
      | none =>
        have hpv : eqv p v = false := by
          by_contra hne
          have hpv : eqv p v = true := by simpa using hne
          obtain ⟨i, hi⟩ := Option.isSome_iff_exists.mp hf
          obtain ⟨w, hw, hvw, _⟩ := findFirst_some eqv hi
          have hwm : w ∈ pts0 := (vertsFrom_sublist eqv pts0).subset (List.mem_of_getElem? hw)
          have := htr p v w hp hv (hpts0 w hwm) hpv hvw
          rw [List.find?_eq_none] at hq
          exact hq w hwm this
        simp [hpv]
    · have ha : addVertex eqv (vertsFrom eqv [] pts0) v = vertsFrom eqv [] pts0 ++ [v] := by
        unfold addVertex; rw [if_neg hf]
      rw [ha, List.find?_append, ih p hp]

/-- `vs` is a complete and irredundant list of representatives of the classes of `T`:
its entries satisfy `T`, every `T`-point matches one of them, and no entry matches an earlier
one. -/
structure Reps (T : P → Prop) (vs : List P) : Prop where
  mem : ∀ w ∈ vs, T w
  cover : ∀ p, T p → ∃ i, findFirst eqv p vs = some i
  irred : vs.Pairwise (fun a b => eqv b a = false)

/-- The welded vertex list is such a list for the set of welded points (reflexivity is all that
is needed). -/
theorem reps_vertsFrom (pts : List P) (hrefl : ∀ p ∈ pts, eqv p p = true) :
    Reps eqv (fun p => p ∈ pts) (vertsFrom eqv [] pts) where
  mem := fun w hw => (vertsFrom_sublist eqv pts).subset hw
  cover := fun p hp => vertsFrom_cover eqv [] pts p hp (hrefl p hp)
  irred := vertsFrom_pairwise eqv List.Pairwise.nil pts

/-- The index `from_faces` stores for a point, in closed form (reflexive test): position of the
first vertex of the FINAL list the point is equivalent to. -/
def idxOf (vs : List P) (p : P) : Nat := (findFirst eqv p vs).getD 0

/-- Transfer of vertex numbers between two representative lists of the same classes. -/
def transfer (vsA vsB : List P) (i : Nat) : Nat :=
  match vsA[i]? with
  | some w => idxOf eqv vsB w
  | none => i

variable {eqv}

theorem Reps.no_two {T : P → Prop} {vs : List P} (hE : EqvOn eqv T) (h : Reps eqv T vs)
    {i j : Nat} {a b : P} (hi : vs[i]? = some a) (hj : vs[j]? = some b)
    (hab : eqv a b = true) : i = j := by
  have hTa := h.mem a (List.mem_of_getElem? hi)
  have hTb := h.mem b (List.mem_of_getElem? hj)
  have hba := hE.symm a b hTa hTb hab
  have hp := List.pairwise_iff_getElem.mp h.irred
  obtain ⟨hil, hia⟩ := List.getElem?_eq_some_iff.mp hi
  obtain ⟨hjl, hjb⟩ := List.getElem?_eq_some_iff.mp hj
  rcases Nat.lt_trichotomy i j with hlt | heq | hgt
  · have := hp i j hil hjl hlt
    rw [hia, hjb, hba] at this
    cases this
  · exact heq
  · have := hp j i hjl hil hgt
    rw [hia, hjb, hab] at this
    cases this

theorem idxOf_spec {T : P → Prop} {vs : List P} (h : Reps eqv T vs) {p : P} (hp : T p) :
    findFirst eqv p vs = some (idxOf eqv vs p) ∧
    ∃ w, vs[idxOf eqv vs p]? = some w ∧ eqv p w = true := by
  obtain ⟨i, hi⟩ := h.cover p hp
  have : idxOf eqv vs p = i := by unfold idxOf; rw [hi]; rfl
  rw [this]
  obtain ⟨w, hw, hpw, _⟩ := findFirst_some eqv hi
  exact ⟨hi, w, hw, hpw⟩

/-- Equivalent points get the same index. -/
theorem idxOf_congr {T : P → Prop} {vs : List P} (hE : EqvOn eqv T) (h : Reps eqv T vs)
    {p q : P} (hp : T p) (hq : T q) (hpq : eqv p q = true) : idxOf eqv vs p = idxOf eqv vs q := by
  unfold idxOf
  rw [findFirst_congr eqv (v := p) (v' := q)]
  intro w hw
  have hw' := h.mem w hw
  rw [Bool.eq_iff_iff]
  constructor
  · intro h1; exact hE.trans q p w hq hp hw' (hE.symm p q hp hq hpq) h1
  · intro h1; exact hE.trans p q w hp hq hw' hpq h1

section transfer
variable {T : P → Prop} {vsA vsB : List P} (hE : EqvOn eqv T) (hA : Reps eqv T vsA)
  (hB : Reps eqv T vsB)
include hE hA hB

/-- Vertex `i` of the first list and vertex `transfer i` of the second are equivalent. -/
theorem transfer_spec {i : Nat} {a : P} (hi : vsA[i]? = some a) :
    ∃ b, vsB[transfer eqv vsA vsB i]? = some b ∧ eqv a b = true := by
  have hTa := hA.mem a (List.mem_of_getElem? hi)
  have : transfer eqv vsA vsB i = idxOf eqv vsB a := by unfold transfer; rw [hi]
  rw [this]
  exact (idxOf_spec hB hTa).2

/-- The index of a point in the second list is the transferred index of the first list. -/
theorem transfer_idxOf {p : P} (hp : T p) :
    idxOf eqv vsB p = transfer eqv vsA vsB (idxOf eqv vsA p) := by
  obtain ⟨_, a, ha, hpa⟩ := idxOf_spec hA hp
  have hTa := hA.mem a (List.mem_of_getElem? ha)
  have : transfer eqv vsA vsB (idxOf eqv vsA p) = idxOf eqv vsB a := by
    unfold transfer; rw [ha]
  rw [this]
  exact idxOf_congr hE hB hp hTa hpa

theorem transfer_lt {i : Nat} (hi : i < vsA.length) : transfer eqv vsA vsB i < vsB.length := by
  obtain ⟨b, hb, _⟩ := transfer_spec hE hA hB (List.getElem?_eq_getElem hi)
  exact (List.getElem?_eq_some_iff.mp hb).1

theorem transfer_injOn {i j : Nat} (hi : i < vsA.length) (hj : j < vsA.length)
    (h : transfer eqv vsA vsB i = transfer eqv vsA vsB j) : i = j := by
  have hia := List.getElem?_eq_getElem hi
  have hja := List.getElem?_eq_getElem hj
  obtain ⟨b, hb, hab⟩ := transfer_spec hE hA hB hia
  obtain ⟨b', hb', hab'⟩ := transfer_spec hE hA hB hja
  rw [h, hb'] at hb
  cases hb
  have hTi := hA.mem _ (List.mem_of_getElem? hia)
  have hTj := hA.mem _ (List.mem_of_getElem? hja)
  have hTb := hB.mem _ (List.mem_of_getElem? hb')
  exact hA.no_two hE hia hja
    (hE.trans _ _ _ hTi hTb hTj hab (hE.symm _ _ hTj hTb hab'))

theorem transfer_surjOn {k : Nat} (hk : k < vsB.length) :
    ∃ i, i < vsA.length ∧ transfer eqv vsA vsB i = k := by
  have hkb := List.getElem?_eq_getElem hk
  have hTb := hB.mem _ (List.mem_of_getElem? hkb)
  obtain ⟨_, a, ha, hba⟩ := idxOf_spec hA hTb
  have hTa := hA.mem a (List.mem_of_getElem? ha)
  refine ⟨idxOf eqv vsA vsB[k], (List.getElem?_eq_some_iff.mp ha).1, ?_⟩
  obtain ⟨b', hb', hab'⟩ := transfer_spec hE hA hB ha
  have hTb' := hB.mem _ (List.mem_of_getElem? hb')
  exact hB.no_two hE hb' hkb
    (hE.symm _ _ hTb hTb' (hE.trans _ _ _ hTb hTa hTb' hba hab'))

end transfer

end classes


/-! ### Generic list facts used by `Props/C07c.lean` -/

section generic
variable {P : Type}

theorem forall₂_right_mem {A B : Type} {R : A → B → Prop} {l : List A} {m : List B}
    (h : List.Forall₂ R l m) {b : B} (hb : b ∈ m) : ∃ a ∈ l, R a b := by
  induction h with
  | nil => cases hb
  | cons hab _ ih =>
    rcases List.mem_cons.mp hb with rfl | hb
    · exact ⟨_, by simp, hab⟩
    · obtain ⟨a, ha, hr⟩ := ih hb
      exact ⟨a, List.mem_cons_of_mem _ ha, hr⟩

theorem forall₃_shape {A B : Type} {R : A → B → Prop} {a : List (List (List A))}
    {b : List (List (List B))} (h : List.Forall₂ (List.Forall₂ (List.Forall₂ R)) a b) :
    b.map (List.map List.length) = a.map (List.map List.length) := by
  induction h with
  | nil => rfl
  | cons hab _ ih =>
    simp only [List.map_cons, ih, List.cons.injEq, and_true]
    clear ih
    induction hab with
    | nil => rfl
    | cons hcd _ ih2 => simp only [List.map_cons, ih2, hcd.length_eq]

theorem flatten_perm_of_forall₂ {β : Type} {l₁ l₂ : List (List β)}
    (h : List.Forall₂ (fun a b => a.Perm b) l₁ l₂) : l₁.flatten.Perm l₂.flatten := by
  induction h with
  | nil => exact List.Perm.refl _
  | cons hab _ ih => simp only [List.flatten_cons]; exact hab.append ih

theorem flatten2_perm {β : Type} {hs gs : List (List (List β))}
    (h : List.Forall₂ (fun a b => a.flatten.Perm b.flatten) hs gs) :
    hs.flatten.flatten.Perm gs.flatten.flatten := by
  induction h with
  | nil => exact List.Perm.refl _
  | cons hab _ ih =>
    simp only [List.flatten_cons, List.flatten_append]
    exact hab.append ih

theorem reps_congr {eqv : P → P → Bool} {T T' : P → Prop} {vs : List P}
    (h : Reps eqv T vs) (hT : ∀ p, T p ↔ T' p) : Reps eqv T' vs where
  mem := fun w hw => (hT w).mp (h.mem w hw)
  cover := fun p hp => h.cover p ((hT p).mpr hp)
  irred := h.irred

theorem map₃_congr {A B : Type} {g h : A → B} {fs : List (List (List A))}
    (hgh : ∀ f ∈ fs, ∀ l ∈ f, ∀ p ∈ l, g p = h p) :
    fs.map (List.map (List.map g)) = fs.map (List.map (List.map h)) := by
  apply List.map_congr_left
  intro f hf
  apply List.map_congr_left
  intro l hl
  apply List.map_congr_left
  intro p hp
  exact hgh f hf l hl p hp

theorem forall₃_some {vs : List P} {a : List (List (List P))}
    {b : List (List (List Nat))} (h : List.Forall₂ (List.Forall₂ (List.Forall₂ (fun (p : P) (i : Nat) => vs[i]? = some p))) a b) :
    b.map (List.map (List.map (fun i => vs[i]?))) = a.map (List.map (List.map some)) := by
  induction h with
  | nil => rfl
  | cons hab _ ih =>
    simp only [List.map_cons, ih, List.cons.injEq, and_true]
    clear ih
    induction hab with
    | nil => rfl
    | cons hcd _ ih2 =>
      simp only [List.map_cons, ih2, List.cons.injEq, and_true]
      clear ih2
      induction hcd with
      | nil => rfl
      | cons hef _ ih3 => simp only [List.map_cons, ih3, hef]

theorem mem_of_mem_cyclicPairs {β : Type} {l : List β} {a b : β}
    (h : (a, b) ∈ cyclicPairs l) : a ∈ l ∧ b ∈ l := by
  unfold cyclicPairs at h
  cases hz : l.getLast? with
  | none => rw [hz] at h; cases h
  | some z =>
    rw [hz] at h
    have h1 := List.of_mem_zip h
    refine ⟨?_, h1.2⟩
    rcases List.mem_cons.mp h1.1 with rfl | h'
    · exact List.mem_of_getLast? hz
    · exact h'

end generic

end Lbg.Lemmas.Weld
