/-
  LbgVerif.Lemmas.JoinSegments — loop invariants of `Model/JoinSegments.lean`
  (`_connect_seg_to_poly`, `_build_polyline`, `_group_vertices`): every attachment adds one
  edge that realises the attached segment; the chain under construction plus the segments
  still in the list account for everything processed; the builder stops only when no
  remaining segment touches either end of the chain; fuel above the number of segments is
  irrelevant.
-/
import LbgVerif.Model.JoinSegments
import Mathlib.Data.Multiset.AddSub
import Mathlib.Data.Multiset.MapFold
import Mathlib.Data.Multiset.Bind

namespace Lbg.Lemmas.JoinSegments
open Lbg Lbg.Model.JoinSegments
open scoped List

variable {P : Type} (eqv : P → P → Bool)

/-- End point `a` of a chain edge stands for end point `b` of an input segment: it is that
point, or a point the code found equivalent to it (`a.is_equivalent(b, tol)`). -/
def Near (a b : P) : Prop := a = b ∨ eqv a b = true

/-- Chain edge `e` realises input segment `s`: same end points up to `Near`, in either
orientation. -/
def SegRel (e s : Seg P) : Prop :=
  (Near eqv e.1 s.1 ∧ Near eqv e.2 s.2) ∨ (Near eqv e.1 s.2 ∧ Near eqv e.2 s.1)

/-- `p` is the first or the last vertex of chain `c`. -/
def IsEnd (c : List P) (p : P) : Prop := c.head? = some p ∨ c.getLast? = some p

/-- `p` is an end point of one of the segments `segs`. -/
def SegEnd (segs : List (Seg P)) (p : P) : Prop := ∃ s ∈ segs, p = s.1 ∨ p = s.2

theorem SegRel.refl (s : Seg P) : SegRel eqv s s := Or.inl ⟨Or.inl rfl, Or.inl rfl⟩

theorem IsEnd.mem {c : List P} {p : P} (h : IsEnd c p) : p ∈ c := by
  rcases h with h | h
  · exact List.mem_of_head? h
  · exact List.mem_of_getLast? h

theorem SegEnd.mono {a b : List (Seg P)} (h : ∀ s ∈ a, s ∈ b) {p : P} (hp : SegEnd a p) :
    SegEnd b p := by
  obtain ⟨s, hs, e⟩ := hp
  exact ⟨s, h s hs, e⟩

/-! ### Edges of a chain -/

theorem edges_cons_of_head {poly : List P} {first : P} (h : poly.head? = some first) (x : P) :
    edges (x :: poly) = (x, first) :: edges poly := by
  cases poly with
  | nil => simp at h
  | cons a t => simp at h; subst h; rfl

theorem edges_concat {poly : List P} {last : P} (h : poly.getLast? = some last) (x : P) :
    edges (poly ++ [x]) = edges poly ++ [(last, x)] := by
  induction poly with
  | nil => simp at h
  | cons a t ih =>
    cases t with
    | nil => simp at h; subst h; rfl
    | cons b t' =>
      have h' : (b :: t').getLast? = some last := by
        rw [List.getLast?_cons_cons] at h; exact h
      have := ih h'
      show (a, b) :: edges ((b :: t') ++ [x]) = (a, b) :: edges (b :: t') ++ [(last, x)]
      rw [this]; rfl

theorem edges_pair (a b : P) : edges [a, b] = [(a, b)] := rfl

/-! ### `_connect_seg_to_poly` -/

theorem connect_some {poly : List P} {s : Seg P} {poly' : List P}
    (h : connect eqv poly s = some poly') :
    ∃ e : Seg P, SegRel eqv e s ∧
      (↑(edges poly') : Multiset (Seg P)) = e ::ₘ (↑(edges poly) : Multiset (Seg P)) ∧
      (∀ v ∈ poly', v ∈ poly ∨ v = s.1 ∨ v = s.2) ∧ poly'.length = poly.length + 1 := by
  unfold connect at h
  cases hh : poly.head? with
  | none => simp [hh] at h
  | some first =>
    cases hl : poly.getLast? with
    | none => simp [hh, hl] at h
    | some last =>
      simp only [hh, hl] at h
      split_ifs at h with h1 h2 h3 h4
      · cases h
        refine ⟨(last, s.2), Or.inl ⟨Or.inr h1, Or.inl rfl⟩, ?_, ?_, by simp⟩
        · rw [edges_concat hl, Multiset.cons_coe]
          exact Multiset.coe_eq_coe.2 (List.perm_append_singleton _ _)
        · intro v hv
          rcases List.mem_append.1 hv with hv | hv
          · exact Or.inl hv
          · right; right; simpa using hv
      · cases h
        refine ⟨(s.1, first), Or.inl ⟨Or.inl rfl, Or.inr h2⟩, ?_, ?_, by simp⟩
        · rw [edges_cons_of_head hh, Multiset.cons_coe]
        · intro v hv
          rcases List.mem_cons.1 hv with hv | hv
          · right; left; exact hv
          · exact Or.inl hv
      · cases h
        refine ⟨(last, s.1), Or.inr ⟨Or.inr h3, Or.inl rfl⟩, ?_, ?_, by simp⟩
        · rw [edges_concat hl, Multiset.cons_coe]
          exact Multiset.coe_eq_coe.2 (List.perm_append_singleton _ _)
        · intro v hv
          rcases List.mem_append.1 hv with hv | hv
          · exact Or.inl hv
          · right; left; simpa using hv
      · cases h
        refine ⟨(s.2, first), Or.inr ⟨Or.inl rfl, Or.inr h4⟩, ?_, ?_, by simp⟩
        · rw [edges_cons_of_head hh, Multiset.cons_coe]
        · intro v hv
          rcases List.mem_cons.1 hv with hv | hv
          · right; right; exact hv
          · exact Or.inl hv

/-- `False` is returned only if none of the four end-point tests succeeds. -/
theorem connect_none {poly : List P} {s : Seg P} (h : connect eqv poly s = none)
    {p : P} (hp : IsEnd poly p) : eqv p s.1 = false ∧ eqv p s.2 = false := by
  unfold connect at h
  cases hh : poly.head? with
  | none =>
    have : poly = [] := by simpa using hh
    subst this; rcases hp with hp | hp <;> simp at hp
  | some first =>
    cases hl : poly.getLast? with
    | none =>
      have : poly = [] := by simpa using hl
      subst this; simp at hh
    | some last =>
      simp only [hh, hl] at h
      split_ifs at h with h1 h2 h3 h4
      rcases hp with hp | hp
      · rw [hh] at hp; cases hp
        exact ⟨by simpa using h4, by simpa using h2⟩
      · rw [hl] at hp; cases hp
        exact ⟨by simpa using h1, by simpa using h3⟩

/-! ### One pass of the `for` loop -/

theorem tryConnect_some {poly : List P} {segs : List (Seg P)} {poly' : List P}
    {segs' : List (Seg P)} (h : tryConnect eqv poly segs = some (poly', segs')) :
    ∃ s, connect eqv poly s = some poly' ∧ s ∈ segs ∧
      (↑segs : Multiset (Seg P)) = s ::ₘ (↑segs' : Multiset (Seg P)) ∧
      segs' <+ segs ∧ segs'.length + 1 = segs.length := by
  induction segs generalizing segs' with
  | nil => simp [tryConnect] at h
  | cons a t ih =>
    unfold tryConnect at h
    cases hc : connect eqv poly a with
    | some p1 =>
      simp only [hc] at h
      cases h
      exact ⟨a, hc, List.mem_cons_self, rfl, List.sublist_cons_self _ _, rfl⟩
    | none =>
      simp only [hc] at h
      cases ht : tryConnect eqv poly t with
      | none => simp [ht] at h
      | some r =>
        obtain ⟨p1, r1⟩ := r
        simp only [ht] at h
        cases h
        obtain ⟨s, h1, h2, h3, h4, h5⟩ := ih ht
        refine ⟨s, h1, List.mem_cons_of_mem _ h2, ?_, h4.cons_cons a, by simp; omega⟩
        rw [← Multiset.cons_coe, h3, ← Multiset.cons_coe, Multiset.cons_swap]

theorem tryConnect_none {poly : List P} {segs : List (Seg P)}
    (h : tryConnect eqv poly segs = none) : ∀ s ∈ segs, connect eqv poly s = none := by
  induction segs with
  | nil => intro s hs; simp at hs
  | cons a t ih =>
    unfold tryConnect at h
    cases hc : connect eqv poly a with
    | some p1 => simp [hc] at h
    | none =>
      simp only [hc] at h
      cases ht : tryConnect eqv poly t with
      | some r => obtain ⟨p1, r1⟩ := r; simp [ht] at h
      | none =>
        intro s hs
        rcases List.mem_cons.1 hs with e | hs
        · subst e; exact hc
        · exact ih ht s hs

/-! ### `_build_polyline` -/

/-- Invariant of the `while` loop of `_build_polyline`. -/
theorem buildLoop_spec (fuel : Nat) (poly : List P) (segs : List (Seg P)) :
    let r := buildLoop eqv fuel poly segs
    (∃ used es : Multiset (Seg P), (↑segs : Multiset (Seg P)) = used + ↑r.2 ∧
        (↑(edges r.1) : Multiset (Seg P)) = es + ↑(edges poly) ∧
        Multiset.Rel (SegRel eqv) es used) ∧
      r.2 <+ segs ∧
      (∀ v ∈ r.1, v ∈ poly ∨ SegEnd segs v) ∧
      poly.length ≤ r.1.length ∧
      (segs.length ≤ fuel → tryConnect eqv r.1 r.2 = none) := by
  induction fuel generalizing poly segs with
  | zero =>
    simp only [buildLoop]
    refine ⟨⟨0, 0, by simp, by simp, Multiset.Rel.zero⟩, List.Sublist.refl _,
      fun v hv => Or.inl hv, le_refl _, ?_⟩
    intro hl
    have : segs = [] := List.length_eq_zero_iff.1 (by omega)
    subst this; rfl
  | succ f ih =>
    unfold buildLoop
    cases ht : tryConnect eqv poly segs with
    | none =>
      simp only []
      exact ⟨⟨0, 0, by simp, by simp, Multiset.Rel.zero⟩, List.Sublist.refl _,
        fun v hv => Or.inl hv, le_refl _, fun _ => ht⟩
    | some pr =>
      obtain ⟨p1, s1⟩ := pr
      simp only []
      obtain ⟨s, hc, hmem, hms, hsub, hlen⟩ := tryConnect_some eqv ht
      obtain ⟨e, hrel, hed, hv, hpl⟩ := connect_some eqv hc
      obtain ⟨⟨used, es, i1, i2, i3⟩, i4, i5, i6, i7⟩ := ih p1 s1
      refine ⟨⟨s ::ₘ used, e ::ₘ es, ?_, ?_, Multiset.Rel.cons hrel i3⟩, i4.trans hsub, ?_,
        by omega, ?_⟩
      · rw [hms, i1, Multiset.cons_add]
      · rw [i2, hed, Multiset.cons_add, Multiset.add_cons]
      · intro v hvm
        rcases i5 v hvm with h | h
        · rcases hv v h with h | h | h
          · exact Or.inl h
          · exact Or.inr ⟨s, hmem, Or.inl h⟩
          · exact Or.inr ⟨s, hmem, Or.inr h⟩
        · exact Or.inr (h.mono (fun x hx => hsub.subset hx))
      · intro hl; exact i7 (by omega)

/-- More fuel than segments changes nothing: the loop has exited. -/
theorem buildLoop_fuel_succ (fuel : Nat) (poly : List P) (segs : List (Seg P))
    (h : segs.length ≤ fuel) :
    buildLoop eqv (fuel + 1) poly segs = buildLoop eqv fuel poly segs := by
  induction fuel generalizing poly segs with
  | zero =>
    have : segs = [] := List.length_eq_zero_iff.1 (by omega)
    subst this; rfl
  | succ f ih =>
    rw [buildLoop]
    conv_rhs => rw [buildLoop]
    cases ht : tryConnect eqv poly segs with
    | none => rfl
    | some pr =>
      obtain ⟨p1, s1⟩ := pr
      simp only []
      obtain ⟨s, _, _, _, _, hlen⟩ := tryConnect_some eqv ht
      exact ih p1 s1 (by omega)

theorem buildLoop_fuel_irrelevant (fuel : Nat) (poly : List P) (segs : List (Seg P))
    (h : segs.length ≤ fuel) :
    buildLoop eqv fuel poly segs = buildLoop eqv segs.length poly segs := by
  obtain ⟨d, rfl⟩ : ∃ d, fuel = segs.length + d := ⟨fuel - segs.length, by omega⟩
  induction d with
  | zero => rfl
  | succ d ih =>
    rw [← Nat.add_assoc, buildLoop_fuel_succ eqv _ _ _ (by omega)]
    exact ih (by omega)

/-- What `_build_polyline(base, others)` guarantees. -/
theorem buildPolyline_spec (base : Seg P) (others : List (Seg P)) :
    let r := buildPolyline eqv base others
    (∃ used : Multiset (Seg P), (↑others : Multiset (Seg P)) = used + ↑r.2 ∧
        Multiset.Rel (SegRel eqv) (↑(edges r.1)) (base ::ₘ used)) ∧
      r.2 <+ others ∧
      (∀ v ∈ r.1, SegEnd (base :: others) v) ∧
      2 ≤ r.1.length ∧
      (∀ p q, IsEnd r.1 p → SegEnd r.2 q → eqv p q = false) := by
  obtain ⟨⟨used, es, i1, i2, i3⟩, i4, i5, i6, i7⟩ :=
    buildLoop_spec eqv others.length [base.1, base.2] others
  unfold buildPolyline
  refine ⟨⟨used, i1, ?_⟩, i4, ?_, by simpa using i6, ?_⟩
  · rw [i2, edges_pair]
    have : (es + (↑[(base.1, base.2)] : Multiset (Seg P))) = es + {base} := rfl
    rw [this, show (base ::ₘ used) = used + {base} from by
      rw [Multiset.add_comm]; rfl]
    exact i3.add (Multiset.rel_refl_of_refl_on (fun x _ => SegRel.refl eqv x))
  · intro v hv
    rcases i5 v hv with h | h
    · refine ⟨base, List.mem_cons_self, ?_⟩
      simp at h; exact h
    · exact h.mono (fun x hx => List.mem_cons_of_mem _ hx)
  · intro p q hp hq
    obtain ⟨s, hs, e⟩ := hq
    have hn := tryConnect_none eqv (i7 (le_refl _)) s hs
    obtain ⟨h1, h2⟩ := connect_none eqv hn hp
    rcases e with e | e <;> subst e <;> assumption

/-! ### `_group_vertices` -/

/-- No end point of the earlier chain is equivalent to an end point of the later chain. -/
def Sep (c c' : List P) : Prop := ∀ p q, IsEnd c p → IsEnd c' q → eqv p q = false

/-- Invariant of the `while` loop of `_group_vertices`: what one run of the loop appends to
`grouped_verts`. -/
theorem groupLoop_spec (fuel : Nat) (base : Seg P) (remain : List (Seg P)) (acc : List (List P))
    (hne : remain ≠ []) (hf : remain.length ≤ fuel) :
    ∃ news : List (List P), groupLoop eqv fuel base remain acc = acc ++ news ∧
      Multiset.Rel (SegRel eqv) (↑(news.flatMap edges)) (↑(base :: remain)) ∧
      (∀ c ∈ news, ∀ v ∈ c, SegEnd (base :: remain) v) ∧
      (∀ c ∈ news, 2 ≤ c.length) ∧
      news.Pairwise (Sep eqv) := by
  induction fuel generalizing base remain acc with
  | zero =>
    have : remain = [] := List.length_eq_zero_iff.1 (by omega)
    exact absurd this hne
  | succ f ih =>
    have hpos : remain.length > 0 := List.length_pos_iff.2 hne
    obtain ⟨⟨used, j1, j2⟩, j3, j4, j5, j6⟩ := buildPolyline_spec eqv base remain
    unfold groupLoop
    simp only [hpos, if_true]
    generalize hr : buildPolyline eqv base remain = r at *
    obtain ⟨c1, rest⟩ := r
    simp only [] at j1 j2 j3 j4 j5 j6 ⊢
    match rest, j1, j3, j6 with
    | [], j1, j3, j6 =>
      refine ⟨[c1], rfl, ?_, ?_, ?_, List.pairwise_singleton _ _⟩
      · simp only [List.flatMap_cons, List.flatMap_nil, List.append_nil]
        rw [← Multiset.cons_coe, j1]
        simpa using j2
      · intro c hc v hv; simp at hc; subst hc; exact j4 v hv
      · intro c hc; simp at hc; subst hc; exact j5
    | [s], j1, j3, j6 =>
      refine ⟨[c1, [s.1, s.2]], by simp, ?_, ?_, ?_, ?_⟩
      · simp only [List.flatMap_cons, List.flatMap_nil, List.append_nil, edges_pair]
        rw [← Multiset.cons_coe, j1, ← Multiset.coe_add, ← Multiset.cons_add]
        exact j2.add (Multiset.rel_refl_of_refl_on (fun x _ => SegRel.refl eqv x))
      · intro c hc v hv
        simp at hc
        rcases hc with hc | hc
        · subst hc; exact j4 v hv
        · subst hc
          refine ⟨s, List.mem_cons_of_mem _ (j3.subset List.mem_cons_self), ?_⟩
          simpa using hv
      · intro c hc; simp at hc
        rcases hc with hc | hc <;> subst hc
        · exact j5
        · simp
      · rw [List.pairwise_pair]
        intro p q hp hq
        exact j6 p q hp ⟨s, List.mem_cons_self, by
          have := hq.mem; simpa using this⟩
    | s :: s' :: rest', j1, j3, j6 =>
      have hlen : (s' :: rest').length ≤ f := by
        have := j3.length_le; simp at this ⊢; omega
      obtain ⟨news, k1, k2, k3, k4, k5⟩ := ih s (s' :: rest') (acc ++ [c1]) (by simp) hlen
      refine ⟨c1 :: news, (by
        show groupLoop eqv f s (s' :: rest') (acc ++ [c1]) = _
        rw [k1]; simp), ?_, ?_, ?_, ?_⟩
      · simp only [List.flatMap_cons]
        rw [← Multiset.coe_add, ← Multiset.cons_coe, j1, ← Multiset.cons_add]
        exact j2.add k2
      · intro c hc v hv
        rcases List.mem_cons.1 hc with hc | hc
        · subst hc; exact j4 v hv
        · exact (k3 c hc v hv).mono
            (fun x hx => List.mem_cons_of_mem _ (j3.subset hx))
      · intro c hc
        rcases List.mem_cons.1 hc with hc | hc
        · subst hc; exact j5
        · exact k4 c hc
      · rw [List.pairwise_cons]
        refine ⟨?_, k5⟩
        intro c hc p q hp hq
        exact j6 p q hp (k3 c hc q hq.mem)

/-- More fuel than remaining segments changes nothing. -/
theorem groupLoop_fuel_succ (fuel : Nat) (base : Seg P) (remain : List (Seg P))
    (acc : List (List P)) (hf : remain.length ≤ fuel) :
    groupLoop eqv (fuel + 1) base remain acc = groupLoop eqv fuel base remain acc := by
  induction fuel generalizing base remain acc with
  | zero =>
    have : remain = [] := List.length_eq_zero_iff.1 (by omega)
    subst this; rfl
  | succ f ih =>
    rw [groupLoop]
    conv_rhs => rw [groupLoop]
    split_ifs with hpos
    · have j3 := (buildPolyline_spec eqv base remain).2.1
      generalize buildPolyline eqv base remain = r at *
      obtain ⟨c1, rest⟩ := r
      simp only [] at j3 ⊢
      match rest, j3 with
      | [], _ => rfl
      | [s], _ => rfl
      | s :: s' :: rest', j3 =>
        have := j3.length_le
        exact ih s (s' :: rest') _ (by simp at this ⊢; omega)
    · rfl

end Lbg.Lemmas.JoinSegments
