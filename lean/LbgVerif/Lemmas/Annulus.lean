/-
  Lemmas.Annulus — the quads between two loops of equal length telescope:
  `Σ_i shoelace [p_i, p_{i+1}, q_{i+1}, q_i] = shoelace P - shoelace Q`.
  List plumbing for `Polygon2D.segments` (`popAppend ∘ cyclicPairs`) and the zipped loops.
-/
import LbgVerif.Model.Offset
import LbgVerif.Lemmas.Shoelace

set_option linter.unusedSectionVars false

namespace Lbg.Lemmas
open Lbg Lbg.Gen Lbg.Model

section lists
variable {β γ : Type}

/-- `cyclicPairs` commutes with `map`. -/
theorem cyclicPairs_map_prod (f : β → γ) (l : List β) :
    cyclicPairs (l.map f) = (cyclicPairs l).map (Prod.map f f) := by
  cases l with
  | nil => rfl
  | cons a t =>
    simp only [List.map_cons, cyclicPairs_cons, List.getLast?_map]
    congr 1
    · cases t.getLast? <;> rfl
    · rw [← List.map_cons, List.zip_map]

/-- Number of cyclic pairs = number of vertices. -/
theorem cyclicPairs_length (l : List β) : (cyclicPairs l).length = l.length := by
  cases l with
  | nil => rfl
  | cons a t => simp [cyclicPairs_cons]

/-- `popAppend` commutes with `map`. -/
theorem popAppend_map (f : β → γ) (l : List β) :
    popAppend (l.map f) = (popAppend l).map f := by
  cases l <;> simp [popAppend]

/-- `popAppend` keeps the length. -/
theorem popAppend_length (l : List β) : (popAppend l).length = l.length := by
  cases l <;> simp [popAppend]

/-- `popAppend` is a permutation: sums are unchanged. -/
theorem popAppend_sum {R : Type} [AddCommMonoid R] (l : List R) :
    (popAppend l).sum = l.sum := by
  cases l with
  | nil => rfl
  | cons a t => simp [popAppend, add_comm]

/-- The sum of the negated terms is the negated sum. -/
theorem sum_map_neg' {R : Type} [AddCommGroup R] (f : β → R) (l : List β) :
    (l.map (fun x => - f x)).sum = - (l.map f).sum := by
  induction l with
  | nil => simp
  | cons a t ih => simp only [List.map_cons, List.sum_cons, ih]; abel

end lists

variable {α : Type} [Field α] [LinearOrder α]

/-- `seg2_p2 (from_end_points a b) = b` in a field (`a + (b - a) = b`). -/
theorem seg2_p2_from_end_points (a b : V2 α) : seg2_p2 (seg2_from_end_points a b) = b := by
  simp only [seg2_p2, seg2_from_end_points]
  ext <;> simp only [] <;> ring

/-- The start point of `from_end_points a b` is `a`. -/
theorem seg2_p1_from_end_points (a b : V2 α) : (seg2_from_end_points a b).p = a := by
  simp only [seg2_from_end_points]

/-- The outer quad between the segments `(a, a')` and `(b, b')`. -/
theorem quadOut_from_end_points (a a' b b' : V2 α) :
    quadOut (seg2_from_end_points a a') (seg2_from_end_points b b') = [a, a', b', b] := by
  simp only [quadOut, seg2_p2_from_end_points, seg2_p1_from_end_points]

/-- The counter-clockwise-hole quad between the segments `(a, a')` and `(b, b')`. -/
theorem quadHole_from_end_points (a a' b b' : V2 α) :
    quadHole (seg2_from_end_points a a') (seg2_from_end_points b b') = [a, b, b', a'] := by
  simp only [quadHole, seg2_p2_from_end_points, seg2_p1_from_end_points]

/-- One quad: `shoelace [p, p', q', q] = det p p' - det q q' + (det p' q' - det p q)`. -/
theorem shoelace_quad_annulus (p p' q' q : V2 α) :
    shoelace [p, p', q', q] = V2.det p p' - V2.det q q' + (V2.det p' q' - V2.det p q) := by
  simp only [shoelace_eq_cycSum, cycSum_cons, seg_cons, seg_nil, V2.det]; ring

/-- The hole tuple is the outer tuple traversed backwards: opposite signed area. -/
theorem shoelace_quad_flip (p p' q' q : V2 α) :
    shoelace [p, q, q', p'] = - shoelace [p, p', q', q] := by
  simp only [shoelace_eq_cycSum, cycSum_cons, seg_cons, seg_nil, V2.det]; ring

/-- Quads between the two coordinate loops of a loop of point pairs telescope. -/
theorem cycSum_annulus (Z : List (V2 α × V2 α)) :
    cycSum (fun z z' => shoelace [z.1, z'.1, z'.2, z.2]) Z =
      shoelace (Z.map Prod.fst) - shoelace (Z.map Prod.snd) := by
  simp only [shoelace_eq_cycSum, cycSum_map]
  rw [cycSum_congr (g := fun z z' => (V2.det z.1 z'.1 + (-1) * V2.det z.2 z'.2) +
      ((fun w : V2 α × V2 α => V2.det w.1 w.2) z' - (fun w : V2 α × V2 α => V2.det w.1 w.2) z))]
  · rw [cycSum_add_telescope, cycSum_add, cycSum_mul_left]; ring
  · intro z z'
    rw [← shoelace_eq_cycSum, shoelace_quad_annulus]; ring

/-- The segments of a mapped loop. -/
theorem segmentsOf_map {β : Type} (f : β → V2 α) (Z : List β) :
    segmentsOf (Z.map f) =
      (popAppend (cyclicPairs Z)).map (fun p => seg2_from_end_points (f p.1) (f p.2)) := by
  simp only [segmentsOf, cyclicPairs_map_prod, List.map_map, popAppend_map]
  rfl

/-- `Polygon2D.segments` has one segment per vertex. -/
theorem segmentsOf_length (vs : List (V2 α)) : (segmentsOf vs).length = vs.length := by
  simp only [segmentsOf, popAppend_length, List.length_map, cyclicPairs_length]

/-- A loop pair of equal lengths is the pair of coordinate loops of its zip. -/
theorem zip_fst_snd {P Q : List (V2 α)} (h : P.length = Q.length) :
    (P.zip Q).map Prod.fst = P ∧ (P.zip Q).map Prod.snd = Q :=
  ⟨List.map_fst_zip (le_of_eq h), List.map_snd_zip (le_of_eq h.symm)⟩

/-- The zipped segment lists of two coordinate loops, in terms of the loop of pairs. -/
theorem zip_segmentsOf (Z : List (V2 α × V2 α)) :
    (segmentsOf (Z.map Prod.fst)).zip (segmentsOf (Z.map Prod.snd)) =
      (popAppend (cyclicPairs Z)).map (fun p =>
        (seg2_from_end_points p.1.1 p.2.1, seg2_from_end_points p.1.2 p.2.2)) := by
  rw [segmentsOf_map, segmentsOf_map, List.zip_map']

/-- Sum of a function over `popAppend (cyclicPairs Z)` is the cyclic sum. -/
theorem sum_popAppend_cyclicPairs {β : Type} (F : β → β → α) (Z : List β) :
    ((popAppend (cyclicPairs Z)).map (fun p => F p.1 p.2)).sum = cycSum F Z := by
  rw [← popAppend_map, popAppend_sum]; rfl

/-- Telescoping of the perimeter quads, for the two coordinate loops of a loop of pairs. -/
theorem perimeterQuads_sum_zip (Z : List (V2 α × V2 α)) :
    ((perimeterQuads (Z.map Prod.fst) (Z.map Prod.snd)).map shoelace).sum =
      shoelace (Z.map Prod.fst) - shoelace (Z.map Prod.snd) := by
  simp only [perimeterQuads, zip_segmentsOf, List.map_map]
  rw [← cycSum_annulus, ← sum_popAppend_cyclicPairs]
  congr 1
  apply List.map_congr_left
  intro p _
  simp only [Function.comp, quadOut_from_end_points]

/-- **Telescoping of the perimeter quads** (outer tuple): for two loops of equal length the
signed areas of the quads `(p_i, p_{i+1}, q_{i+1}, q_i)` sum to `shoelace P - shoelace Q`. -/
theorem perimeterQuads_sum (P Q : List (V2 α)) (h : P.length = Q.length) :
    ((perimeterQuads P Q).map shoelace).sum = shoelace P - shoelace Q := by
  obtain ⟨h1, h2⟩ := zip_fst_snd h
  have := perimeterQuads_sum_zip (P.zip Q)
  rwa [h1, h2] at this

/-- With the hole tuple every quad is traversed backwards: the sum is negated. -/
theorem holeTuple_sum_zip (Z : List (V2 α × V2 α)) :
    ((((segmentsOf (Z.map Prod.fst)).zip (segmentsOf (Z.map Prod.snd))).map
        (fun s => quadHole s.1 s.2)).map shoelace).sum =
      - ((perimeterQuads (Z.map Prod.fst) (Z.map Prod.snd)).map shoelace).sum := by
  simp only [perimeterQuads, zip_segmentsOf, List.map_map]
  rw [← sum_map_neg']
  congr 1
  apply List.map_congr_left
  intro p _
  simp only [Function.comp, quadOut_from_end_points, quadHole_from_end_points]
  exact shoelace_quad_flip _ _ _ _

/-- Telescoping of the quads of one hole, with the code's orientation-dependent tuple. -/
theorem holeQuads_sum (H H' : List (V2 α)) (h : H.length = H'.length) :
    ((holeQuads H H').map shoelace).sum =
      if polygon2d_is_clockwise H = true then shoelace H - shoelace H'
      else shoelace H' - shoelace H := by
  by_cases hc : polygon2d_is_clockwise H = true
  · have : holeQuads H H' = perimeterQuads H H' := by
      simp only [holeQuads, perimeterQuads, hc, not_true_eq_false, if_false]
    rw [this, if_pos hc, perimeterQuads_sum H H' h]
  · rw [if_neg hc, ← neg_sub, ← perimeterQuads_sum H H' h]
    obtain ⟨h1, h2⟩ := zip_fst_snd h
    have e : holeQuads H H' = ((segmentsOf H).zip (segmentsOf H')).map
        (fun s => quadHole s.1 s.2) := by
      simp [holeQuads, hc]
    rw [e]
    have := holeTuple_sum_zip (H.zip H')
    rwa [h1, h2] at this

end Lbg.Lemmas
