/-
  Lemmas.Measure — helper lemmas for C01 (exact measures) and C16 (2D / 3D siblings):

  * the generated accumulate loop of `Polygon2D.area` is the `shoelace` functional;
  * the affine chart `lift o x y c = o + c.x • x + c.y • y` of a plane (what
    `Plane.xy_to_xyz` computes) and its linear part `liftV`; cross products, dot products and
    squared norms of lifted differences (Lagrange identity for an orthonormal pair);
  * `sqrt (d² · 1) = |d|` consequences of the `sqrt` law;
  * `|a| + |b| = |a + b|` for numbers of equal sign;
  * centroid numerators of triangles and quads.

  Pure algebra; independent of the generated kernels.
-/
import LbgVerif.Lemmas.Shoelace
import LbgVerif.Lemmas.Newell
import LbgVerif.Lemmas.Isometry
import Mathlib.Tactic.Ring
import Mathlib.Tactic.Linarith
import Mathlib.Tactic.LinearCombination
import Mathlib.Tactic.FieldSimp

set_option linter.unusedSectionVars false

namespace Lbg.Lemmas
open Lbg

section field
variable {α : Type} [Field α]

/-- The accumulate loop emitted for `Polygon2D.area` / `is_clockwise` / `_are_clockwise`
(`acc += a.x * b.y - a.y * b.x` over the cyclic pairs) is the `shoelace` functional. -/
theorem shoelace_loop (vs : List (V2 α)) :
    List.foldl (fun (st : α) (pp : V2 α × V2 α) => st + (pp.1.x * pp.2.y - pp.1.y * pp.2.x))
      (0 : α) (cyclicPairs vs) = shoelace vs := by
  unfold shoelace
  congr 1

/-- The affine chart of a plane with origin `o` and axes `x`, `y`:
`c ↦ o + c.x • x + c.y • y` (association as in `Plane.xy_to_xyz`). -/
def lift (o x y : V3 α) (c : V2 α) : V3 α :=
  ⟨o.x + x.x * c.x + y.x * c.y, o.y + x.y * c.x + y.y * c.y, o.z + x.z * c.x + y.z * c.y⟩

/-- The linear part of `lift`: `v ↦ v.x • x + v.y • y` (how direction vectors are mapped). -/
def liftV (x y : V3 α) (v : V2 α) : V3 α :=
  ⟨x.x * v.x + y.x * v.y, x.y * v.x + y.y * v.y, x.z * v.x + y.z * v.y⟩

/-- The world-XY embedding `(x, y) ↦ (x, y, 0)`. -/
def embed (p : V2 α) : V3 α := ⟨p.x, p.y, 0⟩

/-- The embedding is the chart of the world XY plane. -/
theorem embed_eq_lift (p : V2 α) : embed p = lift ⟨0, 0, 0⟩ ⟨1, 0, 0⟩ ⟨0, 1, 0⟩ p := by
  apply V3.ext' <;> simp [embed, lift]

/-- The embedding of a vector is the linear chart of the world XY plane. -/
theorem embed_eq_liftV (p : V2 α) : embed p = liftV ⟨1, 0, 0⟩ ⟨0, 1, 0⟩ p := by
  apply V3.ext' <;> simp [embed, liftV]

/-- `lift` in vector notation. -/
theorem lift_eq_add (o x y : V3 α) (c : V2 α) :
    lift o x y c = V3.add (V3.add o (V3.smul c.x x)) (V3.smul c.y y) := by
  apply V3.ext' <;> simp only [lift, V3.add, V3.smul] <;> ring

/-- Differences of lifted points are the linear image of the 2D difference. -/
theorem lift_sub_lift (o x y : V3 α) (a b : V2 α) :
    V3.sub (lift o x y b) (lift o x y a) = liftV x y (V2.sub b a) := by
  apply V3.ext' <;> simp only [lift, liftV, V3.sub, V2.sub] <;> ring

/-- `lift (p + v) = lift p + liftV v`. -/
theorem lift_add (o x y : V3 α) (p v : V2 α) :
    lift o x y (V2.add p v) = V3.add (lift o x y p) (liftV x y v) := by
  apply V3.ext' <;> simp only [lift, liftV, V3.add, V2.add] <;> ring

/-- Cross product of two lifted direction vectors: `det(u, v) • (x × y)`. -/
theorem cross_liftV (x y : V3 α) (u v : V2 α) :
    V3.cross (liftV x y u) (liftV x y v) = V3.smul (V2.det u v) (V3.cross x y) := by
  apply V3.ext' <;> simp only [liftV, V3.cross, V3.smul, V2.det] <;> ring

/-- Cross product of two edges of a lifted triangle: `det(b - a, c - a) • (x × y)`. -/
theorem cross_lift (o x y : V3 α) (a b c : V2 α) :
    V3.cross (V3.sub (lift o x y b) (lift o x y a)) (V3.sub (lift o x y c) (lift o x y a)) =
      V3.smul (V2.det (V2.sub b a) (V2.sub c a)) (V3.cross x y) := by
  rw [lift_sub_lift, lift_sub_lift, cross_liftV]

/-- Lagrange identity `|x × y|² = |x|²|y|² - (x·y)²`. -/
theorem normSq_cross (x y : V3 α) :
    V3.normSq (V3.cross x y) = V3.normSq x * V3.normSq y - V3.dot x y * V3.dot x y := by
  simp only [V3.normSq, V3.cross, V3.dot]; ring

/-- For an orthonormal pair `x`, `y` the vector `x × y` is a unit vector. -/
theorem normSq_cross_orthonormal (x y : V3 α) (hx : V3.normSq x = 1) (hy : V3.normSq y = 1)
    (hxy : V3.dot x y = 0) : V3.normSq (V3.cross x y) = 1 := by
  rw [normSq_cross, hx, hy, hxy]; ring

/-- Dot product of lifted direction vectors in an orthonormal frame is the 2D dot product. -/
theorem dot_liftV (x y : V3 α) (hx : V3.normSq x = 1) (hy : V3.normSq y = 1)
    (hxy : V3.dot x y = 0) (u v : V2 α) :
    V3.dot (liftV x y u) (liftV x y v) = V2.dot u v := by
  simp only [V3.normSq, V3.dot, liftV, V2.dot] at *
  linear_combination (u.x * v.x) * hx + (u.y * v.y) * hy + (u.x * v.y + u.y * v.x) * hxy

/-- Squared length of a lifted direction vector in an orthonormal frame. -/
theorem normSq_liftV (x y : V3 α) (hx : V3.normSq x = 1) (hy : V3.normSq y = 1)
    (hxy : V3.dot x y = 0) (v : V2 α) :
    V3.normSq (liftV x y v) = V2.normSq v := by
  simp only [V3.normSq, V3.dot, liftV, V2.normSq] at *
  linear_combination (v.x * v.x) * hx + (v.y * v.y) * hy + (2 * v.x * v.y) * hxy

/-- The plane coordinates of a lifted point (orthonormal frame): `x·(lift c - o) = c.x`,
`y·(lift c - o) = c.y`. -/
theorem dot_lift_sub (o x y : V3 α) (hx : V3.normSq x = 1) (hy : V3.normSq y = 1)
    (hxy : V3.dot x y = 0) (c : V2 α) :
    V3.dot x (V3.sub (lift o x y c) o) = c.x ∧ V3.dot y (V3.sub (lift o x y c) o) = c.y := by
  simp only [V3.normSq, V3.dot, lift, V3.sub] at *
  constructor
  · linear_combination c.x * hx + c.y * hxy
  · linear_combination c.y * hy + c.x * hxy

/-- Triangle: `cx [a,b,c] = (a.x + b.x + c.x) · det (b - a) (c - a)`. -/
theorem cx_triangle (a b c : V2 α) :
    cx [a, b, c] = (a.x + b.x + c.x) * V2.det (V2.sub b a) (V2.sub c a) := by
  simp only [cx_eq_cycSum, cycSum_cons, seg_cons, seg_nil, V2.det, V2.sub]; ring

/-- Triangle: `cy [a,b,c] = (a.y + b.y + c.y) · det (b - a) (c - a)`. -/
theorem cy_triangle (a b c : V2 α) :
    cy [a, b, c] = (a.y + b.y + c.y) * V2.det (V2.sub b a) (V2.sub c a) := by
  simp only [cy_eq_cycSum, cycSum_cons, seg_cons, seg_nil, V2.det, V2.sub]; ring

/-- Quad split along the diagonal `a — c`: the x-numerator is the sum of the two triangle
numerators. -/
theorem cx_quad (a b c d : V2 α) :
    cx [a, b, c, d] = (a.x + b.x + c.x) * V2.det (V2.sub b a) (V2.sub c a) +
      (c.x + d.x + a.x) * V2.det (V2.sub d c) (V2.sub a c) := by
  simp only [cx_eq_cycSum, cycSum_cons, seg_cons, seg_nil, V2.det, V2.sub]; ring

/-- Quad split along the diagonal `a — c`: the y-numerator is the sum of the two triangle
numerators. -/
theorem cy_quad (a b c d : V2 α) :
    cy [a, b, c, d] = (a.y + b.y + c.y) * V2.det (V2.sub b a) (V2.sub c a) +
      (c.y + d.y + a.y) * V2.det (V2.sub d c) (V2.sub a c) := by
  simp only [cy_eq_cycSum, cycSum_cons, seg_cons, seg_nil, V2.det, V2.sub]; ring

/-- Quad split along the diagonal `a — c`: the doubled signed area is the sum of the doubled
signed areas of the triangles `(a,b,c)` and `(c,d,a)`. -/
theorem shoelace_quad_split (a b c d : V2 α) :
    shoelace [a, b, c, d] =
      V2.det (V2.sub b a) (V2.sub c a) + V2.det (V2.sub d c) (V2.sub a c) := by
  rw [shoelace_quad]; simp only [V2.det, V2.sub]; ring

/-- Dividing every term of a list sum by a constant divides the sum. -/
theorem sum_map_div {β : Type} (f : β → α) (c : α) (l : List β) :
    (l.map (fun p => f p / c)).sum = (l.map f).sum / c := by
  induction l with
  | nil => simp
  | cons p t ih => simp only [List.map_cons, List.sum_cons, ih]; ring

/-- Componentwise mean of two vectors (`(u + v) / 2`, as `Mesh3D` averages two normals). -/
def mid3 (u v : V3 α) : V3 α := ⟨(u.x + v.x) / 2, (u.y + v.y) / 2, (u.z + v.z) / 2⟩

/-- Multiplying every term of a list sum by a constant multiplies the sum. -/
theorem sum_map_mul_const {β : Type} (f : β → α) (c : α) (l : List β) :
    (l.map (fun p => f p * c)).sum = (l.map f).sum * c := by
  induction l with
  | nil => simp
  | cons p t ih => simp only [List.map_cons, List.sum_cons, ih]; ring

/-- Fan formula for the x centroid numerator, from ANY base point `o`:
`cx l = Σ (o.x + a.x + b.x) · det (a - o) (b - o)` over the cyclic edges `(a, b)` —
three times the centroid abscissa of each fan triangle times its doubled signed area. -/
theorem cx_eq_fan (o : V2 α) (l : List (V2 α)) :
    cx l = ((cyclicPairs l).map
      (fun p => (o.x + p.1.x + p.2.x) * V2.det (V2.sub p.1 o) (V2.sub p.2 o))).sum := by
  have h1 := cx_affine_of (fun p => V2.sub p o) 1 0 0 1 (-o.x) (-o.y)
    (fun p => by simp only [V2.sub]; ring) (fun p => by simp only [V2.sub]; ring) l
  have h2 := shoelace_translate_sub o l
  rw [cx_eq_cycSum, cycSum_map] at h1
  rw [shoelace_eq_cycSum, cycSum_map] at h2
  have h3 : ((cyclicPairs l).map
      (fun p => (o.x + p.1.x + p.2.x) * V2.det (V2.sub p.1 o) (V2.sub p.2 o))).sum =
      cycSum (fun a b => ((V2.sub a o).x + (V2.sub b o).x) * V2.det (V2.sub a o) (V2.sub b o) +
        (3 * o.x) * V2.det (V2.sub a o) (V2.sub b o)) l := by
    unfold cycSum
    congr 1
    apply List.map_congr_left
    intro p _
    simp only [V2.sub]; ring
  rw [h3, cycSum_add, cycSum_mul_left, h1, h2, shoelace_eq_cycSum]
  ring

/-- Fan formula for the y centroid numerator, from ANY base point `o`. -/
theorem cy_eq_fan (o : V2 α) (l : List (V2 α)) :
    cy l = ((cyclicPairs l).map
      (fun p => (o.y + p.1.y + p.2.y) * V2.det (V2.sub p.1 o) (V2.sub p.2 o))).sum := by
  have h1 := cy_affine_of (fun p => V2.sub p o) 1 0 0 1 (-o.x) (-o.y)
    (fun p => by simp only [V2.sub]; ring) (fun p => by simp only [V2.sub]; ring) l
  have h2 := shoelace_translate_sub o l
  rw [cy_eq_cycSum, cycSum_map] at h1
  rw [shoelace_eq_cycSum, cycSum_map] at h2
  have h3 : ((cyclicPairs l).map
      (fun p => (o.y + p.1.y + p.2.y) * V2.det (V2.sub p.1 o) (V2.sub p.2 o))).sum =
      cycSum (fun a b => ((V2.sub a o).y + (V2.sub b o).y) * V2.det (V2.sub a o) (V2.sub b o) +
        (3 * o.y) * V2.det (V2.sub a o) (V2.sub b o)) l := by
    unfold cycSum
    congr 1
    apply List.map_congr_left
    intro p _
    simp only [V2.sub]; ring
  rw [h3, cycSum_add, cycSum_mul_left, h1, h2, shoelace_eq_cycSum]
  ring

end field

section ordered
variable {α : Type} [Field α] [LinearOrder α] [IsStrictOrderedRing α]

/-- `√(y²) = |y|` from the square-root law. -/
theorem sqrt_sq_eq_abs (M : MathOps α)
    (hsqrt : ∀ x, 0 ≤ x → M.sqrt x * M.sqrt x = x ∧ 0 ≤ M.sqrt x) (y : α) :
    M.sqrt (y * y) = |y| :=
  sqrt_unique M hsqrt (abs_nonneg y) (abs_mul_abs_self y)

/-- `√(|d • w|²) = |d|` for a unit vector `w`. -/
theorem sqrt_normSq_smul_unit (M : MathOps α)
    (hsqrt : ∀ x, 0 ≤ x → M.sqrt x * M.sqrt x = x ∧ 0 ≤ M.sqrt x) (d : α) (w : V3 α)
    (hw : V3.normSq w = 1) : M.sqrt (V3.normSq (V3.smul d w)) = |d| := by
  apply sqrt_unique M hsqrt (abs_nonneg d)
  rw [v3_smul_normSq, hw, abs_mul_abs_self, mul_one]

/-- A squared norm is non-negative. -/
theorem v3_normSq_nonneg (v : V3 α) : 0 ≤ V3.normSq v := by
  simp only [V3.normSq]
  linarith [mul_self_nonneg v.x, mul_self_nonneg v.y, mul_self_nonneg v.z]

/-- A vector with zero squared norm is the zero vector. -/
theorem v3_eq_zero_of_normSq (v : V3 α) (h : V3.normSq v = 0) : v = ⟨0, 0, 0⟩ := by
  simp only [V3.normSq] at h
  have hx := mul_self_nonneg v.x
  have hy := mul_self_nonneg v.y
  have hz := mul_self_nonneg v.z
  apply V3.ext'
  · exact mul_self_eq_zero.mp (by linarith)
  · exact mul_self_eq_zero.mp (by linarith)
  · exact mul_self_eq_zero.mp (by linarith)

/-- Under the `sqrt` law, `sqrt x = 0` exactly when `x = 0` (for `0 ≤ x`). -/
theorem sqrt_eq_zero_iff' (M : MathOps α)
    (hsqrt : ∀ x, 0 ≤ x → M.sqrt x * M.sqrt x = x ∧ 0 ≤ M.sqrt x) (x : α) (hx : 0 ≤ x) :
    M.sqrt x = 0 ↔ x = 0 := by
  obtain ⟨h1, _⟩ := hsqrt x hx
  constructor
  · intro h; rw [h, mul_zero] at h1; exact h1.symm
  · intro h; exact mul_self_eq_zero.mp (h1.trans h)

/-- Absolute values of numbers of equal sign add. -/
theorem abs_add_abs_of_same_sign (a b : α) (h : (0 ≤ a ∧ 0 ≤ b) ∨ (a ≤ 0 ∧ b ≤ 0)) :
    |a| + |b| = |a + b| := by
  rcases h with ⟨ha, hb⟩ | ⟨ha, hb⟩
  · rw [abs_of_nonneg ha, abs_of_nonneg hb, abs_of_nonneg (add_nonneg ha hb)]
  · rw [abs_of_nonpos ha, abs_of_nonpos hb, abs_of_nonpos (add_nonpos ha hb)]; ring

/-- `decide (x < 0)` flips under negation of a non-zero number. -/
theorem decide_neg_lt_zero (x : α) (hx : x ≠ 0) :
    decide (-x < 0) = !decide (x < 0) := by
  rcases lt_trichotomy x 0 with h | h | h
  · have : ¬ (-x < 0) := by linarith
    simp [h, this]
  · exact absurd h hx
  · have h1 : ¬ (x < 0) := by linarith
    have h2 : -x < 0 := by linarith
    simp [h1, h2]

/-- `normalize` of a non-zero vector: `|N| • normalize N = N`, the result is a unit vector and
`|N| > 0` (under the `sqrt` law). -/
theorem v3_normalize_spec (M : MathOps α)
    (hsqrt : ∀ x, 0 ≤ x → M.sqrt x * M.sqrt x = x ∧ 0 ≤ M.sqrt x) (N : V3 α)
    (hN : V3.normSq N ≠ 0) :
    V3.smul (M.sqrt (V3.normSq N)) (Gen.v3_normalize M N) = N ∧
    V3.normSq (Gen.v3_normalize M N) = 1 ∧ 0 < M.sqrt (V3.normSq N) := by
  obtain ⟨h1, h2⟩ := hsqrt _ (v3_normSq_nonneg N)
  have hd : M.sqrt (V3.normSq N) ≠ 0 := fun h => hN (by rw [← h1, h, mul_zero])
  have hd' : M.sqrt (N.x * N.x + N.y * N.y + N.z * N.z) ≠ 0 := hd
  have h1' : M.sqrt (N.x * N.x + N.y * N.y + N.z * N.z) *
      M.sqrt (N.x * N.x + N.y * N.y + N.z * N.z) = N.x * N.x + N.y * N.y + N.z * N.z := h1
  refine ⟨?_, ?_, lt_of_le_of_ne h2 (Ne.symm hd)⟩
  · unfold Gen.v3_normalize V3.smul V3.normSq
    generalize M.sqrt (N.x * N.x + N.y * N.y + N.z * N.z) = d at hd' h1' ⊢
    simp only [if_neg hd']
    apply V3.ext' <;> simp only [] <;> field_simp
  · unfold Gen.v3_normalize V3.normSq
    generalize M.sqrt (N.x * N.x + N.y * N.y + N.z * N.z) = d at hd' h1' ⊢
    simp only [if_neg hd']
    field_simp
    linear_combination -h1'

/-- `normalize` of the zero vector is the zero vector (the code leaves it unchanged). -/
theorem v3_normalize_zero (M : MathOps α) : Gen.v3_normalize M (⟨0, 0, 0⟩ : V3 α) = ⟨0, 0, 0⟩ := by
  unfold Gen.v3_normalize
  apply V3.ext' <;> simp

/-- `normalize (s • w)` for a unit vector `w`: `w` if `s > 0`, `-w` if `s < 0`, `0` if `s = 0`. -/
theorem v3_normalize_smul_unit (M : MathOps α)
    (hsqrt : ∀ x, 0 ≤ x → M.sqrt x * M.sqrt x = x ∧ 0 ≤ M.sqrt x) (s : α) (w : V3 α)
    (hw : V3.normSq w = 1) :
    (0 < s → Gen.v3_normalize M (V3.smul s w) = w) ∧
    (s < 0 → Gen.v3_normalize M (V3.smul s w) = V3.neg w) ∧
    (s = 0 → Gen.v3_normalize M (V3.smul s w) = ⟨0, 0, 0⟩) := by
  have hd : M.sqrt ((V3.smul s w).x * (V3.smul s w).x + (V3.smul s w).y * (V3.smul s w).y +
      (V3.smul s w).z * (V3.smul s w).z) = |s| := sqrt_normSq_smul_unit M hsqrt s w hw
  refine ⟨fun hs => ?_, fun hs => ?_, fun hs => ?_⟩
  · have hs0 : s ≠ 0 := ne_of_gt hs
    unfold Gen.v3_normalize
    simp only [hd, abs_of_pos hs, if_neg hs0]
    apply V3.ext' <;> simp only [V3.smul] <;> field_simp
  · have hs0 : s ≠ 0 := ne_of_lt hs
    have hs1 : -s ≠ 0 := neg_ne_zero.mpr hs0
    unfold Gen.v3_normalize
    simp only [hd, abs_of_neg hs, if_neg hs1]
    apply V3.ext' <;> simp only [V3.smul, V3.neg] <;> field_simp
  · subst hs
    have : V3.smul (0 : α) w = ⟨0, 0, 0⟩ := by apply V3.ext' <;> simp [V3.smul]
    rw [this, v3_normalize_zero]

end ordered

end Lbg.Lemmas
